import Octave.Lemmas.BareZoneLex
import Octave.Lemmas.BareZoneParse
import Octave.Lemmas.ZoneTreeBridge
/-!
Glue between the lexer half (`BareZoneLex`: concrete positions, zone contents as LINES) and the parser half
(`BareZoneParse`: arbitrary positions) of the round trip of documents with literal zones anywhere, keyed or BARE (C05), and
the emitter on such documents.

* `BNode.toBT` / `bforestToBT`, `BNode.toks_bridge` / `bforestToks_bridge` / `bdocToks_bridge`: the two token descriptions
  agree; `canonCols_toBT`, `metaFirstB_bridge`, `attachOk_bridge`, `noBareTop_bridge`: the side conditions;
* `BNode.node` / `bforestNodes` / `bdoc`: the document.  A bare zone is `Assignment("", zone)`; the reader positions it at the
  token AFTER the close fence (`bcanonBarePos`: line of the close fence, column `2·d + |marker| + 1`);
* `bforestAttachOk` — **the attachment-rule guard** (no sibling list has an EMPTY block immediately followed by a bare
  zone) — and `bnoBareTop` (no bare zone directly under the envelope);
* `parse_bdoc` / `parseWithWarnings_bdoc`: **lexer ∘ parser** on the text `bdocText` through the real entry points;
* `BNode.emitLines`, `emitNode_btree`, `emit_bdoc_lines`, `emit_bdoc`: the emitter writes exactly `bdocText` (guard
  `bforestNoEmptyLine`: no zone content is the single empty line, finding C05N1; the tag text is what `strip` returns; a bare
  zone is written as fences only when it is a BLOCK child — at top level `emit` would write a `::` line with an empty key).
-/
namespace Octave
open Lexer Emitter BareZoneParse

/-- the bare zone at depth `d` whose open line is text line `l`, with the positions the lexer gives to its four tokens. -/
def bareAt (env : Env) (marker trailing : Str) (C : List Str) (d l : Nat) : BZone :=
  { content := joinWith ['\n'] C, tag := tagOf env trailing, marker := marker,
    ol := l, oc := 1 + 2 * d, ll := l + 1, lc := 1, cl := l + C.length + 1, cc := 1,
    nl := l + C.length + 1, nc := 2 * d + marker.length + 1 }

mutual
def BNode.toBT (env : Env) (d l : Nat) : BNode → BT
  | .line ln => .leaf (linePos ln d l) (.line (BlockParse.mkLine ln.key ln.v.toP (linePos ln d l)))
  | .zone key marker trailing C => .leaf (headerPos key d l) (.zone (zoneItemAt env key marker trailing C d l))
  | .bare marker trailing C => .bare (bareAt env marker trailing C d l)
  | .block key cs => .block (headerPos key d l) key (bforestToBT env (d + 1) (l + 1) cs)
def bforestToBT (env : Env) (d l : Nat) : List BNode → List BT
  | [] => []
  | n :: ns => n.toBT env d l :: bforestToBT env d (l + n.nlines) ns
end
mutual
/-- **a node**: its tokens in reading order are its INDENT followed by `body`. -/
theorem BNode.toks_bridge (env : Env) : ∀ (n : BNode) (d l : Nat),
    (n.toksRev env d l).reverse = (n.toBT env d l).lead d ++ (n.toBT env d l).body d
  | .line ln, d, l => by
    simp only [BNode.toksRev, FLine.toksRevAt, FLine.toksRev, List.reverse_append, indentToksRev_reverse, BNode.toBT, BT.lead,
      BT.body, ZoneParse.Item.toks]
    rw [indentToks_bridge d l (linePos ln d l) rfl rfl, ← line_body_bridge]
    simp only [List.reverse_cons, List.reverse_nil, List.nil_append, List.cons_append]
  | .zone key marker trailing C, d, l => by
    simp only [BNode.toksRev, zoneToksRevAt, zkeyToksRev, List.reverse_append, indentToksRev_reverse, BNode.toBT, BT.lead, BT.body,
      ZoneParse.Item.toks]
    rw [indentToks_bridge d l (headerPos key d l) rfl rfl, ← zone_body_bridge]
    simp only [List.reverse_cons, List.reverse_nil, List.nil_append, List.cons_append, List.append_assoc]
  | .bare marker trailing C, d, l => rfl
  | .block key cs, d, l => by
    simp only [BNode.toksRev, headerToksRev, List.reverse_append, indentToksRev_reverse, BNode.toBT, BT.lead, BT.body,
      bforestToks_bridge env cs (d + 1) (l + 1)]
    rw [indentToks_bridge d l (headerPos key d l) rfl rfl]
    simp only [List.reverse_cons, List.reverse_nil, List.nil_append, List.cons_append, List.append_assoc]
    rfl
/-- **a forest.** -/
theorem bforestToks_bridge (env : Env) : ∀ (ns : List BNode) (d l : Nat),
    (bforestToksRev env d l ns).reverse = toksList (bforestToBT env d l ns) d
  | [], d, l => rfl
  | n :: ns, d, l => by
    simp only [bforestToksRev, List.reverse_append, bforestToBT, toksList, BNode.toks_bridge env n d l,
      bforestToks_bridge env ns d (l + n.nlines), List.append_assoc]
end

/-- **the two descriptions of the token list of the whole document agree.** -/
theorem bdocToks_bridge (env : Env) (name : Str) (nodes : List BNode) :
    bdocToks env name nodes
      = btreeToks (treeFrame name (bforestNLines nodes)) name (bforestToBT env 0 2 nodes) := by
  simp only [bdocToks, bdocToksRev, List.reverse_cons, List.reverse_append, bforestToks_bridge, btreeToks]
  simp [treeFrame, flatFrame, FlatParse.Frame.envTok, FlatParse.Frame.nl0Tok, FlatParse.Frame.endTok, FlatParse.Frame.nl1Tok,
    FlatParse.Frame.eofTok, tEof, tNewline, tEnvEnd, tEnvStart]

mutual
theorem BNode.canonCols_toBT (env : Env) : ∀ (n : BNode) (d l : Nat), (n.toBT env d l).canonCols d = true
  | .line ln, d, l => rfl
  | .zone key marker trailing C, d, l => rfl
  | .bare marker trailing C, d, l => by simp only [BNode.toBT, BT.canonCols, bareAt, decide_eq_true_eq]; omega
  | .block key cs, d, l => by
    simp only [BNode.toBT, BT.canonCols, headerPos, bforestCanonCols_toBT env cs (d + 1) (l + 1), Bool.and_true, decide_eq_true_eq]
    omega
theorem bforestCanonCols_toBT (env : Env) : ∀ (ns : List BNode) (d l : Nat), canonColsList (bforestToBT env d l ns) d = true
  | [], d, l => rfl
  | n :: ns, d, l => by
    simp only [bforestToBT, canonColsList, BNode.canonCols_toBT env n d l, bforestCanonCols_toBT env ns d (l + n.nlines), Bool.and_self]
end

def BNode.key : BNode → Str
  | .line ln => ln.key
  | .zone key _ _ _ => key
  | .bare _ _ _ => []
  | .block key _ => key

/-- the first top-level key (of a line, a zone assignment or a block) is `META`. -/
def bfirstKeyIsMeta : List BNode → Bool
  | n :: _ => n.key == "META".toList
  | [] => false

theorem metaFirstB_bridge (env : Env) (nodes : List BNode) (l : Nat) :
    metaFirstB (bforestToBT env 0 l nodes) = bfirstKeyIsMeta nodes := by
  cases nodes with
  | nil => rfl
  | cons n ns => cases n <;> rfl

/-! ### the guards: the attachment rule, and no bare zone at top level -/

def BNode.isBare : BNode → Bool
  | .bare _ _ _ => true
  | _ => false

def BNode.isEmptyBlock : BNode → Bool
  | .block _ [] => true
  | _ => false

def bheadBare : List BNode → Bool
  | .bare _ _ _ :: _ => true
  | _ => false

mutual
/-- **the attachment-rule guard** (Issue #259, `column - 1 >= block_indent`): in no sibling list is an EMPTY block (`KEY:` with
no children) IMMEDIATELY followed by a bare zone — the reader would make that zone the CHILD of the empty block.  (Exact: an
empty block deeper inside the preceding sibling is harmless, and so is anything between the empty block and the zone.) -/
def BNode.attachOk : BNode → Bool
  | .block _ cs => bforestAttachOk cs
  | _ => true
def bforestAttachOk : List BNode → Bool
  | [] => true
  | n :: ns => n.attachOk && !(n.isEmptyBlock && bheadBare ns) && bforestAttachOk ns
end

/-- no bare zone directly under the envelope (the reader DROPS it: `docLoop` has no fence branch). -/
def bnoBareTop : List BNode → Bool
  | [] => true
  | n :: ns => !n.isBare && bnoBareTop ns

theorem bheadBare_bridge (env : Env) (ns : List BNode) (d l : Nat) : headBare (bforestToBT env d l ns) = bheadBare ns := by
  cases ns with
  | nil => rfl
  | cons n r => cases n <;> rfl

theorem isEmptyBlock_bridge (env : Env) (n : BNode) (d l : Nat) : (n.toBT env d l).isEmptyBlock = n.isEmptyBlock := by
  cases n with
  | block key cs => cases cs <;> rfl
  | _ => rfl

mutual
theorem BNode.attachOk_bridge (env : Env) : ∀ (n : BNode) (d l : Nat), (n.toBT env d l).attachOk = n.attachOk
  | .line _, _, _ => rfl
  | .zone _ _ _ _, _, _ => rfl
  | .bare _ _ _, _, _ => rfl
  | .block key cs, d, l => by simp only [BNode.toBT, BT.attachOk, BNode.attachOk, attachOk_bridge env cs (d + 1) (l + 1)]
theorem attachOk_bridge (env : Env) : ∀ (ns : List BNode) (d l : Nat), attachOkList (bforestToBT env d l ns) = bforestAttachOk ns
  | [], _, _ => rfl
  | n :: ns, d, l => by
    simp only [bforestToBT, attachOkList, bforestAttachOk, BNode.attachOk_bridge env n d l, isEmptyBlock_bridge,
      bheadBare_bridge, attachOk_bridge env ns d (l + n.nlines)]
end

theorem noBareTop_bridge (env : Env) : ∀ (ns : List BNode) (d l : Nat), noBareTop (bforestToBT env d l ns) = bnoBareTop ns
  | [], _, _ => rfl
  | n :: ns, d, l => by
    have : (n.toBT env d l).isBare = n.isBare := by cases n <;> rfl
    simp only [bforestToBT, noBareTop, bnoBareTop, this, noBareTop_bridge env ns d (l + n.nlines)]

/-! ### the document -/

/-- how node positions are chosen: for a keyed node (line, zone assignment, block) from its first text line and depth; for
a bare zone from its first text line, depth, number of content lines and marker length. -/
structure BPosFn where
  key : Nat → Nat → Nat × Nat
  bare : Nat → Nat → Nat → Nat → Nat × Nat

mutual
/-- the AST of a node at depth `d` whose first line is text line `l`; node positions chosen by `pos`.  A zone
assignment carries the content lines joined by line breaks, the tag and the marker. -/
def BNode.node (env : Env) (pos : BPosFn) (d l : Nat) : BNode → Node
  | .line ln => .assign ln.key ln.v.value (pos.key l d).1 (pos.key l d).2 [] none
  | .zone key marker trailing C =>
    .assign key (.zone (joinWith ['\n'] C) (tagOf env trailing) marker) (pos.key l d).1 (pos.key l d).2 [] none
  | .bare marker trailing C =>
    .assign [] (.zone (joinWith ['\n'] C) (tagOf env trailing) marker) (pos.bare l d C.length marker.length).1
      (pos.bare l d C.length marker.length).2 [] none
  | .block key cs => .block key (bforestNodes env pos (d + 1) (l + 1) cs) (pos.key l d).1 (pos.key l d).2 [] none
def bforestNodes (env : Env) (pos : BPosFn) (d l : Nat) : List BNode → List Node
  | [] => []
  | n :: ns => n.node env pos d l :: bforestNodes env pos d (l + n.nlines) ns
end

/-- the positions the reader stores for the canonical text: a node whose first line is text line `l`, at depth `d`, is at
line `l`, column `1 + 2·d`; a BARE zone is at the token after its close fence: line `l + n + 1` (the close line), column
`2·d + |marker| + 1`. -/
def bcanonPos : BPosFn :=
  { key := fun l d => (l, 1 + 2 * d), bare := fun l d n m => (l + n + 1, 2 * d + m + 1) }

def bdoc (env : Env) (name : Str) (pos : BPosFn) (nodes : List BNode) : Document :=
  { name := name, sections := bforestNodes env pos 0 2 nodes }

mutual
theorem BNode.node_bridge (env : Env) : ∀ (n : BNode) (d l : Nat), (n.toBT env d l).node = n.node env bcanonPos d l
  | .line ln, d, l => by
    simp only [BNode.toBT, BT.node, ZoneParse.Item.node, FlatParse.Line.node, BlockParse.mkLine, linePos, BNode.node, bcanonPos,
      FScalar.val_toP]
  | .zone key marker trailing C, d, l => rfl
  | .bare marker trailing C, d, l => rfl
  | .block key cs, d, l => by
    simp only [BNode.toBT, BT.node, BNode.node, headerPos, bcanonPos, bnodeList_bridge env cs (d + 1) (l + 1)]
theorem bnodeList_bridge (env : Env) : ∀ (ns : List BNode) (d l : Nat),
    nodeList (bforestToBT env d l ns) = bforestNodes env bcanonPos d l ns
  | [], d, l => rfl
  | n :: ns, d, l => by
    simp only [bforestToBT, nodeList, bforestNodes, BNode.node_bridge env n d l, bnodeList_bridge env ns d (l + n.nlines)]
end

theorem btreeDoc_bridge (env : Env) (name : Str) (nodes : List BNode) :
    btreeDoc name (bforestToBT env 0 2 nodes) = bdoc env name bcanonPos nodes := by
  simp only [btreeDoc, bdoc, bnodeList_bridge]

theorem stripFrontmatter_bdoc (env : Env) (name : Str) (nodes : List BNode) :
    Parser.stripFrontmatter env (bdocText name nodes) = (bdocText name nodes, none) := by
  unfold Parser.stripFrontmatter
  have : startsWith "---".toList (bdocText name nodes) = false := by
    simp [bdocText, envLine, startsWith, List.isPrefixOf]
  rw [this]; rfl

/-- parser warnings of the document (duplicate keys per block and at top level — zone assignments included —, bare words
under `PATTERN` / `REGEX`; never anything from inside a zone). -/
def bdocWarns (env : Env) (nodes : List BNode) : List Parser.Warning := warnsList (bforestToBT env 0 2 nodes) []

/-- **Lexer ∘ parser, strict entry point, on a document with literal zones anywhere**: `Parser.parse` returns exactly the
document — every zone assignment at its place (top level or inside any block), carrying its content lines joined by line
breaks, its tag and its marker; every line and block as without the zones.  Hypotheses: those of `tokenize_btree` and: the
first top-level key is not `META`. -/
theorem parse_bdoc (env : Env) (name : Str) (nodes : List BNode)
    (hn : isEnvName name = true) (hne : name ≠ "END".toList) (hok : bforestOK nodes)
    (hmeta : bfirstKeyIsMeta nodes = false) (hatt : bforestAttachOk nodes = true) (htop : bnoBareTop nodes = true)
    (hnfc : ∀ l ∈ bdocNfcLines name nodes, env.nfc l = l) :
    Parser.parse env (bdocText name nodes) = .ok (bdoc env name bcanonPos nodes) := by
  have hlex := tokenize_btree env false name nodes hn hne hok hnfc
  rw [bdocToks_bridge] at hlex
  have hp := parseDocument_btree (treeFrame name (bforestNLines nodes)) name (bforestToBT env 0 2 nodes)
    (Parser.initState env (btreeToks (treeFrame name (bforestNLines nodes)) name (bforestToBT env 0 2 nodes)) true)
    (by rw [metaFirstB_bridge]; exact hmeta) (colsOkList_of_canon _ 0 (bforestCanonCols_toBT env nodes 0 2))
    (by rw [attachOk_bridge]; exact hatt) (by rw [noBareTop_bridge]; exact htop) rfl
  unfold Parser.parse
  simp only [stripFrontmatter_bdoc, hlex, bind, Except.bind, StateT.run, hp, pure, Except.pure, btreeDoc_bridge]
  rfl

/-- … and the lenient entry point: the same document, the receipts (identifier notes of keys and bare words outside the
zones — none from inside a zone), the parser warnings `bdocWarns`. -/
theorem parseWithWarnings_bdoc (env : Env) (name : Str) (nodes : List BNode)
    (hn : isEnvName name = true) (hne : name ≠ "END".toList) (hok : bforestOK nodes)
    (hmeta : bfirstKeyIsMeta nodes = false) (hatt : bforestAttachOk nodes = true) (htop : bnoBareTop nodes = true)
    (hnfc : ∀ l ∈ bdocNfcLines name nodes, env.nfc l = l) :
    Parser.parseWithWarnings env (bdocText name nodes) =
      .ok (bdoc env name bcanonPos nodes, (bforestRepsRev 0 2 nodes).reverse, bdocWarns env nodes) := by
  have hlex := tokenize_btree env false name nodes hn hne hok hnfc
  rw [bdocToks_bridge] at hlex
  have hp := parseDocument_btree (treeFrame name (bforestNLines nodes)) name (bforestToBT env 0 2 nodes)
    (Parser.initState env (btreeToks (treeFrame name (bforestNLines nodes)) name (bforestToBT env 0 2 nodes)) false)
    (by rw [metaFirstB_bridge]; exact hmeta) (colsOkList_of_canon _ 0 (bforestCanonCols_toBT env nodes 0 2))
    (by rw [attachOk_bridge]; exact hatt) (by rw [noBareTop_bridge]; exact htop) rfl
  unfold Parser.parseWithWarnings
  simp only [stripFrontmatter_bdoc, hlex, bind, Except.bind, StateT.run, hp, pure, Except.pure, btreeDoc_bridge, bdocWarns]
  simp [Parser.initState]
  rfl


mutual
/-- what the emitter needs beyond `BNode.OK` to write the lines `BNode.emitLines`: scalars spelled its way; the text after
the backticks is what `strip` returns (it is re-written from the tag that was read). -/
def BNode.EmitOK (env : Env) : BNode → Prop
  | .line ln => ln.EmitOK
  | .zone _ _ trailing _ => env.strip trailing = trailing
  | .bare _ trailing _ => env.strip trailing = trailing
  | .block _ cs => bforestEmitOK env cs
def bforestEmitOK (env : Env) : List BNode → Prop
  | [] => True
  | n :: ns => n.EmitOK env ∧ bforestEmitOK env ns
end

mutual
/-- the guard of finding C05N1: no zone content is the single empty line (a zone with content `""` is written as the EMPTY
zone, so the text with one empty content line is not what the emitter writes). -/
def BNode.NoEmptyLine : BNode → Prop
  | .line _ => True
  | .zone _ _ _ C => C ≠ [[]]
  | .bare _ _ C => C ≠ [[]]
  | .block _ cs => bforestNoEmptyLine cs
def bforestNoEmptyLine : List BNode → Prop
  | [] => True
  | n :: ns => n.NoEmptyLine ∧ bforestNoEmptyLine ns
end
mutual
/-- the lines the emitter produces for a node at depth `d` (a zone content is ONE entry, line breaks inside). -/
def BNode.emitLines (d : Nat) : BNode → List Str
  | .line ln => [indentStr d ++ ln.text]
  | .zone key marker trailing C =>
    [indentStr d ++ key ++ "::".toList, indentStr d ++ marker ++ trailing] ++ contentPart C ++ [indentStr d ++ marker]
  | .bare marker trailing C => [indentStr d ++ marker ++ trailing] ++ contentPart C ++ [indentStr d ++ marker]
  | .block key cs => (indentStr d ++ key ++ [':']) :: bforestEmitLines (d + 1) cs
def bforestEmitLines (d : Nat) : List BNode → List Str
  | [] => []
  | n :: ns => n.emitLines d ++ bforestEmitLines d ns
end
mutual
theorem emitNode_btree (env : Env) (pos : BPosFn) : ∀ (n : BNode) (d l : Nat) (b : Bool), n.OK → n.EmitOK env →
    (n.isBare = true → b = true) →
    emitNode env (n.node env pos d l) d b = some (n.emitLines d)
  | .line ln, d, l, b, _, he, _ => by
    simp only [BNode.node, BNode.emitLines]
    exact emitNode_line env ln _ _ d b (by simpa [BNode.EmitOK] using he)
  | .zone key marker trailing C, d, l, b, hok, he, _ => by
    obtain ⟨hk, _⟩ := hok
    have ht : env.strip trailing = trailing := he
    have hke := isIdentifierText_ne_nil key hk
    simp only [BNode.node, BNode.emitLines, emitNode, hke, Bool.and_false, Bool.false_eq_true, if_false, emitAssignment, leadingLines,
      List.map_nil, List.nil_append, fenceLines_tagOf env d _ trailing marker ht, contentPart, List.append_assoc,
      List.cons_append]
  | .bare marker trailing C, d, l, b, _, he, hb => by
    have ht : env.strip trailing = trailing := he
    have hbt : b = true := hb rfl
    subst hbt
    simp only [BNode.node, BNode.emitLines, emitNode, List.isEmpty_nil, Bool.and_self, if_true, leadingLines,
      List.map_nil, List.nil_append, fenceLines_tagOf env d _ trailing marker ht, contentPart, List.append_assoc,
      List.cons_append]
  | .block key cs, d, l, b, hok, he, _ => by
    simp only [BNode.OK] at hok
    simp only [BNode.EmitOK] at he
    have ih := emitChildren_btree env pos cs (d + 1) (l + 1) true hok.2.2 he (Or.inl rfl)
    simp only [BNode.node, BNode.emitLines, emitNode, ih, Option.map_some, leadingLines, List.map_nil, List.nil_append, List.append_nil,
      List.cons_append, List.append_assoc]
theorem emitChildren_btree (env : Env) (pos : BPosFn) : ∀ (ns : List BNode) (d l : Nat) (b : Bool),
    bforestOK ns → bforestEmitOK env ns → (b = true ∨ bnoBareTop ns = true) →
    emitChildren env (bforestNodes env pos d l ns) d b = some (bforestEmitLines d ns)
  | [], d, l, b, _, _, _ => rfl
  | n :: ns, d, l, b, hok, he, hb => by
    simp only [bforestOK] at hok
    simp only [bforestEmitOK] at he
    have hb1 : n.isBare = true → b = true := by
      intro h
      rcases hb with h' | h'
      · exact h'
      · simp [bnoBareTop, h] at h'
    have hb2 : b = true ∨ bnoBareTop ns = true := by
      rcases hb with h' | h'
      · exact Or.inl h'
      · simp only [bnoBareTop, Bool.and_eq_true] at h'; exact Or.inr h'.2
    simp only [bforestNodes, emitChildren, emitNode_btree env pos n d l b hok.1 he.1 hb1,
      emitChildren_btree env pos ns d (l + n.nlines) b hok.2 he.2 hb2, bforestEmitLines]
end

theorem emitTop_btree (env : Env) (pos : BPosFn) : ∀ (ns : List BNode) (l : Nat),
    bforestOK ns → bforestEmitOK env ns → bnoBareTop ns = true →
    emitTop env (bforestNodes env pos 0 l ns) = some (bforestEmitLines 0 ns)
  | [], l, _, _, _ => rfl
  | n :: ns, l, hok, he, htop => by
    simp only [bforestOK] at hok
    simp only [bforestEmitOK] at he
    simp only [bnoBareTop, Bool.and_eq_true, Bool.not_eq_true'] at htop
    have hn := emitNode_btree env pos n 0 l false hok.1 he.1 (by rw [htop.1]; intro h; cases h)
    have ih := emitTop_btree env pos ns (l + n.nlines) hok.2 he.2 htop.2
    cases n with
    | bare marker trailing C => simp [BNode.isBare] at htop
    | line ln => simp only [bforestNodes, BNode.node] at hn ⊢; simp only [emitTop, hn, ih, bforestEmitLines]
    | zone key marker trailing C => simp only [bforestNodes, BNode.node] at hn ⊢; simp only [emitTop, hn, ih, bforestEmitLines]
    | block key cs => simp only [bforestNodes, BNode.node] at hn ⊢; simp only [emitTop, hn, ih, bforestEmitLines]
mutual
theorem BNode.unlines_emitLines : ∀ (n : BNode) (d : Nat), n.NoEmptyLine → unlines (n.emitLines d) = n.text d
  | .line ln, d, _ => by simp [BNode.emitLines, BNode.text, unlines]
  | .zone key marker trailing C, d, hg => by
    simp only [BNode.emitLines, unlines_append, unlines_contentPart C hg, BNode.text, unlines, zoneSpanText, fenceOpenLine,
      fenceCloseLine, spaces_eq_indentStr]
    simp [List.append_assoc]
  | .bare marker trailing C, d, hg => by
    simp only [BNode.emitLines, unlines_append, unlines_contentPart C hg, BNode.text, unlines, zoneSpanText, fenceOpenLine,
      fenceCloseLine, spaces_eq_indentStr]
    simp [List.append_assoc]
  | .block key cs, d, hg => by
    simp only [BNode.NoEmptyLine] at hg
    simp [BNode.emitLines, BNode.text, unlines, bforest_unlines_emitLines cs (d + 1) hg]
theorem bforest_unlines_emitLines : ∀ (ns : List BNode) (d : Nat), bforestNoEmptyLine ns →
    unlines (bforestEmitLines d ns) = bforestText d ns
  | [], d, _ => rfl
  | n :: ns, d, hg => by
    simp only [bforestNoEmptyLine] at hg
    simp only [bforestEmitLines, unlines_append, BNode.unlines_emitLines n d hg.1, bforest_unlines_emitLines ns d hg.2,
      bforestText]
end

/-- the emitter's output in terms of its lines — NO guard on the contents. -/
theorem emit_bdoc_lines (env : Env) (name : Str) (pos : BPosFn) (nodes : List BNode)
    (hok : bforestOK nodes) (he : bforestEmitOK env nodes) (htop : bnoBareTop nodes = true) :
    emit env (bdoc env name pos nodes) =
      some (envLine name ++ '\n' :: (unlines (bforestEmitLines 0 nodes) ++ ("===END===".toList ++ ['\n']))) := by
  have ht := emitTop_btree env pos nodes 2 hok he htop
  have hj := joinWith_unlines (bforestEmitLines 0 nodes) "===END===".toList
  unfold emit emitBody
  simp only [bdoc, emitMetaLines, ht, leadingLines, List.map_nil, List.isEmpty_nil, Bool.true_or, if_true,
    Bool.false_eq_true, if_false, List.nil_append, List.append_nil, bind, Option.bind, pure, Option.map]
  show some (finishText (joinWith ['\n'] (("===".toList ++ name ++ "===".toList) :: (bforestEmitLines 0 nodes ++ ["===END===".toList])))) = _
  have hne : bforestEmitLines 0 nodes ++ ["===END===".toList] ≠ [] := by simp
  obtain ⟨x, xs, hx⟩ := List.exists_cons_of_ne_nil hne
  rw [hx, joinWith, ← hx, hj]
  have hlast : (("===".toList ++ name ++ "===".toList) ++ ['\n'] ++ (unlines (bforestEmitLines 0 nodes) ++ "===END===".toList)).getLast? = some '=' := by
    rw [List.getLast?_append, List.getLast?_append]; rfl
  simp only [finishText, hlast]
  simp [envLine]

/-- **The emitter on a document with literal zones anywhere** writes exactly `bdocText`, whatever positions the nodes
carry: every zone as `indent KEY::`, `indent marker tag`, the content verbatim, `indent marker`.  Guard `bforestNoEmptyLine`:
finding C05N1. -/
theorem emit_bdoc (env : Env) (name : Str) (pos : BPosFn) (nodes : List BNode)
    (hok : bforestOK nodes) (he : bforestEmitOK env nodes) (htop : bnoBareTop nodes = true) (hg : bforestNoEmptyLine nodes) :
    emit env (bdoc env name pos nodes) = some (bdocText name nodes) := by
  rw [emit_bdoc_lines env name pos nodes hok he htop, bforest_unlines_emitLines nodes 0 hg]
  rfl

end Octave
