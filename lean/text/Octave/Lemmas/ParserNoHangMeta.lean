import Octave.Lemmas.ParserNoHang
/-!
C20, parser side: **no hang** — `parse_meta_only`.  Its fuel (`2·budget + 10`) is computed AFTER the grammar sentinel,
the envelope line and the surrounding blank / comment lines have been skipped, so the argument needs the bracket
counts of the remaining suffix: none of the skipped tokens is a bracket, hence the suffix still has as many `]` as `[`.
-/
namespace Octave
namespace Parser

-- the proofs below execute every path of large `do` blocks symbolically: 5× the default budget, so that no proof
-- sits at the edge of the deterministic timeout
set_option maxHeartbeats 1000000

/-- `advance` with the bracket counts. -/
structure AdvRel2 (r r' : List Token) : Prop where
  rel : AdvRel r r'
  s : nS r' + (if (hd r).type = .listStart then 1 else 0) = nS r
  e : nE r' + (if (hd r).type = .listEnd then 1 else 0) = nE r

theorem adv_rel2 {r : List Token} (h : EofEnd r) : AdvRel2 r (tl r) := by
  refine ⟨adv_rel h, ?_, ?_⟩
  · cases r with
    | nil => exact absurd rfl h.ne_nil
    | cons t r => cases r with
      | nil => have := h.single; simp [hd, tl, nS, this]
      | cons u r => exact Nat.add_comm _ _
  · cases r with
    | nil => exact absurd rfl h.ne_nil
    | cons t r => cases r with
      | nil => have := h.single; simp [hd, tl, nE, this]
      | cons u r => exact Nat.add_comm _ _

theorem wpr_advance2 {r : List Token} {Q : Token → List Token → Prop} (he : EofEnd r)
    (h : ∀ r', AdvRel2 r r' → Q (hd r) r') : wpr advance r Q := by
  intro st hst; subst hst
  obtain ⟨st', h1, h2⟩ := advance_run st he.ne_nil
  rw [h1]
  show Q _ st'.rest
  rw [h2]; exact h _ (adv_rel2 he)

/-- skipping blank lines / comments consumes no bracket. -/
theorem skipWs_spec2 {sc : Bool} : ∀ {fuel : Nat} {r : List Token}, (EofEnd r ∧ cB r < fuel) →
    wpr (skipWs sc fuel) r (fun _ r' => Le r r' ∧ nS r' = nS r ∧ nE r' = nE r) := by
  intro fuel
  induction fuel with
  | zero => intro r h; omega
  | succ n ih =>
    intro r h
    obtain ⟨he, hf⟩ := h
    unfold skipWs
    apply wpr_bind; refine wpr_curType he ?_
    split
    · rename_i hc
      have hty : (hd r).type = .newline ∨ (hd r).type = .comment := by
        simp only [Bool.or_eq_true, Bool.and_eq_true, beq_iff_eq] at hc
        rcases hc with h | ⟨_, h⟩
        · exact .inl h
        · exact .inr h
      have hS : ¬ (hd r).type = .listStart := by rcases hty with h | h <;> simp [h]
      have hE : ¬ (hd r).type = .listEnd := by rcases hty with h | h <;> simp [h]
      have hB : wtB (hd r).type = 1 := by rcases hty with h | h <;> simp [h, wtB]
      apply wpr_bind; refine wpr_get ?_; intro st hst
      apply wpr_bind; refine wpr_advance2 he ?_; intro r1 h1
      obtain ⟨⟨h1e, h1a, h1b⟩, h1s, h1n⟩ := h1
      simp only [hS, hE, if_false, Nat.add_zero] at h1s h1n
      dsimp only
      split
      · rename_i hl
        rw [hst] at hl
        exact absurd (two_le_length he (by omega)) (by omega)
      · refine wpr_mono (ih ⟨h1e, by omega⟩) ?_
        intro _ r2 h2
        obtain ⟨⟨h2e, h2a, h2b⟩, h2s, h2n⟩ := h2
        exact ⟨⟨h2e, by omega, by omega⟩, by omega, by omega⟩
    · exact wpr_pure ⟨Le.refl he, rfl, rfl⟩

theorem skipWhitespace_spec2 {sc : Bool} {r : List Token} (h : EofEnd r) :
    wpr (skipWhitespace sc) r (fun _ r' => Le r r' ∧ nS r' = nS r ∧ nE r' = nE r) := by
  unfold skipWhitespace
  apply wpr_bind; refine wpr_budget_le ?_; intro b hb
  exact skipWs_spec2 ⟨h, by omega⟩

/-- `advance` over a token that is not a bracket. -/
theorem wpr_advance_nb {r : List Token} {Q : Token → List Token → Prop} (he : EofEnd r)
    (hS : (hd r).type ≠ .listStart) (hE : (hd r).type ≠ .listEnd)
    (h : ∀ r', EofEnd r' → nS r' = nS r → nE r' = nE r → Q (hd r) r') : wpr advance r Q := by
  refine wpr_advance2 he ?_
  intro r' h2
  obtain ⟨⟨h1e, _, _⟩, h1s, h1n⟩ := h2
  simp only [hS, hE, if_false, Nat.add_zero] at h1s h1n
  exact h r' h1e h1s h1n

/-- the META block with the fuel `parse_meta_only` computes on the spot. -/
theorem parseMetaBlock_budget_spec {r : List Token} (h : EofEnd r ∧ nS r ≤ nE r) :
    wpr (do let b ← budget; parseMetaBlock (2 * b + 10)) r (fun _ r' => Le r r') := by
  have := cA_bound r
  apply wpr_bind; apply wpr_budget
  exact parseMetaBlock_spec ⟨h.1, by omega⟩

syntax "wp_step2" : tactic
macro_rules | `(tactic| wp_step2) => `(tactic| first
  | (cases ‹_ ∧ _›)
  | (cases ‹Le _ _›)
  | with_reducible refine wpr_mono (skipWhitespace_spec2 ?_) (fun _ _ _ => ?_)
  | with_reducible refine wpr_mono (parseMetaBlock_budget_spec ?_) (fun _ _ _ => ?_)
  | ((with_reducible refine wpr_advance_nb ?_ ?_ ?_ ?_)
     · assumption
     · tt_tac
     · tt_tac
     intro _ _ _ _)
  | wp_step)

/-- the program that `parse_meta_only` runs on the token list never runs out of fuel. -/
theorem parseMetaOnly_no_fuel (env : Env) (content : Str) : parseMetaOnly env content ≠ .error .fuel := by
  intro h
  unfold parseMetaOnly at h
  split at h
  rcases except_bind_error h with ht | ⟨⟨toks, reps⟩, ht, h2⟩
  · exact tokenize_ne_fuel _ _ _ ht
  · dsimp only at h2
    rcases except_bind_error h2 with hd | ⟨⟨m, st⟩, -, h3⟩
    · have he : EofEnd toks := tokenize_eofEnd _ _ _ _ _ ht
      have hb : nS toks = nE toks := tokenize_balanced _ _ _ _ _ ht
      refine absurd hd (wpr_run (Q := fun _ _ => True) ?_)
      show wpr _ toks _
      repeat' wp_step2
      all_goals wp_fin
    · cases h3

end Parser
end Octave
