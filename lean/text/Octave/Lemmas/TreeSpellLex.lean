/-
C03 on NESTED BLOCKS, all line-level freedoms together — LEXER half (content model and parser half: `TreeSpellParse`).

`sdocText name nodes`: the text of a spelled tree (`SNode`): envelope line, the forest (a `KEY::value` line is
`Spell.lineText` with the indentation the tree prescribes; a block header is `spaces d ++ KEY ++ ":" ++ spaces trail`, a line
end, its blank lines, then its children at the base indentation `d + w`, child `c` with `d + w + c.x` leading spaces), `===END===`.
`tokenize_stree`: the lexer reads it as exactly `sdocToks` (the token list the parser half is proved on).
-/
import Octave.Lemmas.TreeSpellParse
namespace Octave.C03.TreeSpell
open Octave Lexer Scan Emitter Spell SpellParse

mutual
/-- text of a node written with `d` leading spaces, followed by `rest`. -/
def SNode.text (d : Nat) : SNode → Str → Str
  | .line _ ln sp, rest => lineText ln (withInd sp d) rest
  | .block _ key w tr bl cs, rest =>
    (spaces d ++ (key ++ ':' :: spaces tr)) ++ '\n' :: blanksText bl (stext (d + w) cs rest)
def stext (d : Nat) : List SNode → Str → Str
  | [], rest => rest
  | c :: cs, rest => c.text (d + c.x) (stext d cs rest)
end

/-- the whole spelled document (canonical frame). -/
def sdocText (name : Str) (nodes : List SNode) : Str :=
  ("===".toList ++ name ++ "===".toList) ++ '\n' :: stext 0 nodes ("===END===".toList ++ ['\n'])

def hdrToksRev (key : Str) (tr d l : Nat) : List Token :=
  [tNewline l (1 + d + key.length + 1 + tr), tBlock l (1 + d + key.length), tIdent key l (1 + d)] ++ Spell.indentToksRev d l

mutual
def SNode.toksRev (d l : Nat) : SNode → List Token
  | .line _ ln sp => lineToksRev ln (withInd sp d) l
  | .block _ key w tr bl cs => stoksRev (d + w) (l + (1 + bl.length)) cs ++ (blankToksRev (l + 1) bl ++ hdrToksRev key tr d l)
def stoksRev (d l : Nat) : List SNode → List Token
  | [] => []
  | c :: cs => stoksRev d (l + c.height) cs ++ c.toksRev (d + c.x) l
end

mutual
def SNode.repsRev (d l : Nat) : SNode → List Repair
  | .line _ ln sp => lineRepsRev ln (withInd sp d) l
  | .block _ key w _ bl cs => srepsRev (d + w) (l + (1 + bl.length)) cs ++ (identifierRepairs key l (1 + d)).reverse
def srepsRev (d l : Nat) : List SNode → List Repair
  | [] => []
  | c :: cs => srepsRev d (l + c.height) cs ++ c.repsRev (d + c.x) l
end

theorem key_solid' (key : Str) (h : isIdentifierText key = true) (rest : Str) : Solid (key ++ rest) := by
  have hne : key ≠ [] := by
    intro e; rw [e] at h; simp [isIdentifierText] at h
  obtain ⟨k, t, hk⟩ := List.exists_cons_of_ne_nil hne
  have hh := identText_head key h k (by rw [hk]; rfl)
  exact ⟨k, t ++ rest, by rw [hk]; rfl, hh.1, (identText_clean key h k (by rw [hk]; simp)).1⟩

theorem head_spaces_nl (n : Nat) (rest : Str) : (spaces n ++ '\n' :: rest).head? ≠ some ':' := by
  cases n with
  | zero => simp [spaces]
  | succ k => simp [spaces, List.replicate_succ]

/-- **a block header** with `d` leading spaces, `tr` trailing spaces, and its blank lines. -/
theorem run_sheader (env : Env) (lenient : Bool) (st : LState) (key : Str) (tr d : Nat) (bl : List Nat) (rest : Str) (hr : Ready st)
    (hcol : st.col = 1) (hid : isIdentifierText key = true) (hres : hasReservedPrefix key = false) :
    ∃ n st', Run env lenient n st ((spaces d ++ (key ++ ':' :: spaces tr)) ++ '\n' :: blanksText bl rest) st' rest ∧
      AdvL st st' (blankToksRev (st.line + 1) bl ++ hdrToksRev key tr d st.line) (identifierRepairs key st.line (1 + d)).reverse
        (1 + bl.length) := by
  have hshape : (spaces d ++ (key ++ ':' :: spaces tr)) ++ '\n' :: blanksText bl rest
      = spaces d ++ (key ++ ':' :: (spaces tr ++ '\n' :: blanksText bl rest)) := by simp
  rw [hshape]
  obtain ⟨n1, s1, r1, a1⟩ := Spell.run_indent env lenient st d (key ++ ':' :: (spaces tr ++ '\n' :: blanksText bl rest)) hr hcol
    (key_solid' key hid _)
  obtain ⟨s2, e2, a2⟩ := step_ident env lenient s1 key (':' :: (spaces tr ++ '\n' :: blanksText bl rest)) a1.ready hid hres
    (termOK_colon env _)
  obtain ⟨s3, e3, a3⟩ := step_block env lenient s2 (spaces tr ++ '\n' :: blanksText bl rest) a2.ready (head_spaces_nl tr _)
  have c1 : s1.col = 1 + d := a1.col
  have c2 : s2.col = 1 + d + key.length := by rw [a2.col, c1]
  have c3 : s3.col = 1 + d + key.length + 1 := by rw [a3.col, c2]
  obtain ⟨s4, r4, a4⟩ := Spell.run_spaces env lenient tr s3 ('\n' :: blanksText bl rest) a3.ready (by omega)
  obtain ⟨s5, e5, a5⟩ := step_newline env lenient s4 (blanksText bl rest) a4.ready
  obtain ⟨n6, s6, r6, a6⟩ := run_blanks env lenient bl s5 rest a5.ready a5.col
  have hne : key ++ ':' :: (spaces tr ++ '\n' :: blanksText bl rest) ≠ [] := by
    obtain ⟨k, t, hk, _⟩ := key_solid' key hid (':' :: (spaces tr ++ '\n' :: blanksText bl rest))
    rw [hk]; simp
  refine ⟨_, s6, Run.trans r1 (Run.trans (Run.cons' hne e2 (Run.cons e3 (Run.trans r4 (Run.one e5)))) r6), ?_⟩
  have l1 : s1.line = st.line := by rw [a1.line]; rfl
  have l2 : s2.line = st.line := by rw [a2.line, l1]; rfl
  have l3 : s3.line = st.line := by rw [a3.line, l2]; rfl
  have l4 : s4.line = st.line := by rw [a4.line, l3]; rfl
  have l5 : s5.line = st.line + 1 := by rw [a5.line, l4]
  have c4 : s4.col = 1 + d + key.length + 1 + tr := by rw [a4.col, c3]
  refine ⟨a6.ready, ?_, ?_, ?_, ?_, a6.col⟩
  · rw [a6.toks, a5.toks, a4.toks, a3.toks, a2.toks, a1.toks, l5, l4, l2, l1, c4, c2, c1]
    simp [hdrToksRev]
  · rw [a6.repairs, a5.repairs, a4.repairs, a3.repairs, a2.repairs, a1.repairs, l1, c1]
    simp
  · rw [a6.stack, a5.stack, a4.stack, a3.stack, a2.stack, a1.stack]
  · rw [a6.line, l5]; omega

mutual
theorem run_snode (env : Env) (lenient : Bool) : ∀ (c : SNode) (d : Nat) (st : LState) (rest : Str),
    Ready st → st.col = 1 → c.erase.OK →
    ∃ n st', Run env lenient n st (c.text d rest) st' rest ∧ AdvL st st' (c.toksRev d st.line) (c.repsRev d st.line) c.height
  | .line xo ln sp, d, st, rest, hr, hc, hok => by
    obtain ⟨n, s1, r1, a1⟩ := run_sline env lenient st ln (withInd sp d) rest hr hc (by simpa [SNode.erase, TNode.OK] using hok)
    exact ⟨n, s1, by simpa [SNode.text] using r1, by simpa [SNode.toksRev, SNode.repsRev, SNode.height, withInd] using a1⟩
  | .block xo key w tr bl cs, d, st, rest, hr, hc, hok => by
    simp only [SNode.erase, TNode.OK] at hok
    obtain ⟨n1, s1, r1, a1⟩ := run_sheader env lenient st key tr d bl (stext (d + w) cs rest) hr hc hok.1 hok.2.1
    obtain ⟨n2, s2, r2, a2⟩ := run_stree env lenient cs (d + w) s1 rest a1.ready a1.col hok.2.2
    refine ⟨_, s2, by simpa [SNode.text] using Run.trans r1 r2, ?_⟩
    have h := a1.trans a2
    rw [a1.line] at h
    simpa [SNode.toksRev, SNode.repsRev, SNode.height, List.append_assoc, Nat.add_assoc] using h
theorem run_stree (env : Env) (lenient : Bool) : ∀ (cs : List SNode) (d : Nat) (st : LState) (rest : Str),
    Ready st → st.col = 1 → treeOK (eraseList cs) →
    ∃ n st', Run env lenient n st (stext d cs rest) st' rest ∧ AdvL st st' (stoksRev d st.line cs) (srepsRev d st.line cs) (heightList cs)
  | [], d, st, rest, hr, hc, _ => ⟨0, st, Run.refl st rest, ⟨hr, by simp [stoksRev], by simp [srepsRev], rfl, by simp [heightList], hc⟩⟩
  | c :: cs, d, st, rest, hr, hc, hok => by
    simp only [eraseList, treeOK] at hok
    obtain ⟨n1, s1, r1, a1⟩ := run_snode env lenient c (d + c.x) st (stext d cs rest) hr hc hok.1
    obtain ⟨n2, s2, r2, a2⟩ := run_stree env lenient cs d s1 rest a1.ready a1.col hok.2
    refine ⟨_, s2, by simpa [stext] using Run.trans r1 r2, ?_⟩
    have h := a1.trans a2
    rw [a1.line] at h
    simpa [stoksRev, srepsRev, heightList] using h
end

/-! ### the token list in reading order is the one of the parser half -/

theorem hdr_reverse (key : Str) (tr d l : Nat) :
    (hdrToksRev key tr d l).reverse = (indPos d l).map indAt ++ [hKey key d l, hBlock key d l, hNl key tr d l] := by
  simp only [hdrToksRev, Spell.indentToks_bridge, List.reverse_cons, List.nil_append,
    List.cons_append, List.append_assoc]
  rfl

mutual
theorem SNode.toksRev_reverse : ∀ (c : SNode) (d l : Nat), (c.toksRev d l).reverse = (indPos d l).map indAt ++ c.body d l
  | .line xo ln sp, d, l => by
    simp only [SNode.toksRev, sline_toks_bridge, SLine.toks, SLine.cutToks, SNode.body, sline, List.append_assoc]
    rfl
  | .block xo key w tr bl cs, d, l => by
    simp only [SNode.toksRev, List.reverse_append, stoksRev_reverse cs (d + w) (l + (1 + bl.length)), blankToks_bridge,
      hdr_reverse, SNode.body, List.append_assoc, List.cons_append, List.nil_append]
theorem stoksRev_reverse : ∀ (cs : List SNode) (d l : Nat), (stoksRev d l cs).reverse = stoks d l cs
  | [], _, _ => rfl
  | c :: cs, d, l => by
    simp only [stoksRev, stoks, List.reverse_append, SNode.toksRev_reverse c (d + c.x) l, stoksRev_reverse cs d (l + c.height),
      List.append_assoc]
end

/-! ### the whole document -/

theorem run_sdoc (env : Env) (lenient : Bool) (name : Str) (nodes : List SNode)
    (hn : isEnvName name = true) (hne : name ≠ "END".toList) (hok : treeOK (eraseList nodes)) :
    ∃ n st', Run env lenient n ({ spans := [] } : LState) (sdocText name nodes) st' [] ∧
      (tEof st'.line st'.col :: st'.toks).reverse = sdocToks (treeFrame name (heightList nodes)) name 2 nodes ∧
      st'.repairs.reverse = (srepsRev 0 2 nodes).reverse ∧ st'.stack = [] := by
  let st0 : LState := { spans := [] }
  obtain ⟨s1, e1, a1⟩ := step_envStart env lenient st0 name ('\n' :: stext 0 nodes ("===END===".toList ++ ['\n'])) rfl hn hne
  obtain ⟨s2, e2, a2⟩ := step_newline env lenient s1 (stext 0 nodes ("===END===".toList ++ ['\n'])) a1.ready
  obtain ⟨n3, s3, r3, a3⟩ := run_stree env lenient nodes 0 s2 ("===END===".toList ++ ['\n']) a2.ready a2.col hok
  obtain ⟨s4, e4, a4⟩ := step_envEnd env lenient s3 ['\n'] a3.ready
  obtain ⟨s5, e5, a5⟩ := step_newline env lenient s4 [] a4.ready
  have run : Run env lenient (n3 + 2 + 1 + 1) st0 (sdocText name nodes) s5 [] := by
    have tail : Run env lenient (n3 + 2) s2 (stext 0 nodes ("===END===".toList ++ ['\n'])) s5 [] :=
      Run.trans r3 (Run.cons' (by simp) e4 (Run.one e5))
    exact Run.cons' (by simp [sdocText]) (by simpa [sdocText] using e1) (Run.cons e2 tail)
  have l1 : s1.line = 1 := by rw [a1.line]
  have l2 : s2.line = 2 := by rw [a2.line, l1]
  have l3 : s3.line = heightList nodes + 2 := by rw [a3.line, l2]; omega
  have l4 : s4.line = heightList nodes + 2 := by rw [a4.line, l3]
  have l5 : s5.line = heightList nodes + 3 := by rw [a5.line, l4]
  have c1 : s1.col = 1 + (name.length + 6) := a1.col
  have c3 : s3.col = 1 := a3.col
  have c4 : s4.col = 10 := by rw [a4.col, c3]
  refine ⟨_, s5, run, ?_, ?_, ?_⟩
  · rw [a5.toks, a4.toks, a3.toks, a2.toks, a1.toks, l1, l2, l3, l4, l5, c1, c3, c4, a5.col]
    simp only [List.reverse_cons, List.reverse_append, stoksRev_reverse, List.nil_append, List.append_assoc,
      List.cons_append, sdocToks]
    rfl
  · rw [a5.repairs, a4.repairs, a3.repairs, a2.repairs, a1.repairs, l2]; simp; rfl
  · rw [a5.stack, a4.stack, a3.stack, a2.stack, a1.stack]

/-! ### every line of the text is free of fences and tabs -/

theorem header_clean (key : Str) (tr d : Nat) (hid : isIdentifierText key = true) : Clean (spaces d ++ (key ++ ':' :: spaces tr)) :=
  Clean.append (Spell.spaces_clean d) (Clean.append (identText_clean key hid)
    (Clean.append (a := [':']) (clean_lit _ (by decide)) (Spell.spaces_clean tr)))

theorem header_fine (key : Str) (tr d : Nat) (hid : isIdentifierText key = true) : LineFine (spaces d ++ (key ++ ':' :: spaces tr)) :=
  ⟨fenceLine_indented d _ (by
      intro c hc
      cases key with
      | nil => simp [isIdentifierText] at hid
      | cons k t => exact identText_head (k :: t) hid c (by simpa using hc)),
   fun x hx => (header_clean key tr d hid x hx).2⟩

mutual
theorem snode_fine : ∀ (c : SNode) (d : Nat) (rest : Str), c.erase.OK → AllLines LineFine rest → AllLines LineFine (c.text d rest)
  | .line xo ln sp, d, rest, hok, hr => by
    have hl : ln.OK := by simpa [SNode.erase, TNode.OK] using hok
    exact allLines_cons LineFine (lineBody ln (withInd sp d)) _ (lineBody_clean ln _ hl) (lineBody_fine ln _ hl)
      (allLines_blanks LineFine spaces_fine _ _ hr)
  | .block xo key w tr bl cs, d, rest, hok, hr => by
    simp only [SNode.erase, TNode.OK] at hok
    exact allLines_cons LineFine _ _ (header_clean key tr d hok.1) (header_fine key tr d hok.1)
      (allLines_blanks LineFine spaces_fine _ _ (stree_fine cs (d + w) rest hok.2.2 hr))
theorem stree_fine : ∀ (cs : List SNode) (d : Nat) (rest : Str), treeOK (eraseList cs) → AllLines LineFine rest →
    AllLines LineFine (stext d cs rest)
  | [], _, _, _, hr => hr
  | c :: cs, d, rest, hok, hr => by
    simp only [eraseList, treeOK] at hok
    exact snode_fine c (d + c.x) _ hok.1 (stree_fine cs d rest hok.2 hr)
end

theorem sdoc_fine (name : Str) (nodes : List SNode) (hn : isEnvName name = true) (hok : treeOK (eraseList nodes)) :
    AllLines LineFine (sdocText name nodes) := by
  have hend : AllLines LineFine ("===END===".toList ++ ['\n']) := by
    have := allLines_cons LineFine "===END===".toList [] (clean_lit _ (by decide))
      ⟨by decide, fun d hd => (clean_lit "===END===".toList (by decide) d hd).2⟩ (allLines_nil LineFine (spaces_fine 0))
    simpa using this
  have h0 := envLine_fine name 0 hn
  have c0 := envLine_clean' name 0 hn
  simp only [spaces, List.replicate_zero, List.append_nil] at h0 c0
  exact allLines_cons LineFine _ _ c0 h0 (stree_fine nodes 0 _ hok hend)

/-- **The lexer on every spelling of a block tree** (widths, spaces around `::`, trailing spaces, blank lines, quote styles;
both modes): exactly `sdocToks`, the token list the parser half reads. -/
theorem tokenize_stree (env : Env) (lenient : Bool) (name : Str) (nodes : List SNode)
    (hn : isEnvName name = true) (hne : name ≠ "END".toList) (hok : treeOK (eraseList nodes))
    (hnfc : ∀ l ∈ splitLines (sdocText name nodes), env.nfc l = l) :
    tokenize env (sdocText name nodes) lenient
      = .ok (sdocToks (treeFrame name (heightList nodes)) name 2 nodes, (srepsRev 0 2 nodes).reverse) :=
  tokenize_of_run env lenient _ _ _ (sdoc_fine name nodes hn hok) hnfc (run_sdoc env lenient name nodes hn hne hok)

theorem stripFrontmatter_sdoc (env : Env) (name : Str) (nodes : List SNode) :
    Parser.stripFrontmatter env (sdocText name nodes) = (sdocText name nodes, none) := by
  unfold Parser.stripFrontmatter
  have : startsWith "---".toList (sdocText name nodes) = false := by
    simp [sdocText, startsWith, List.isPrefixOf]
  rw [this]; rfl

/-! ### the document read back carries the erased tree -/

mutual
theorem SNode.node_matches : ∀ (c : SNode) (d l : Nat), c.erase.Matches (c.node d l)
  | .line xo ln sp, d, l => by
    simp only [SNode.erase, SNode.node, TNode.Matches, sline, snode_bridge, FLine.node]
    exact ⟨_, _, rfl⟩
  | .block xo key w tr bl cs, d, l => by
    simp only [SNode.erase, SNode.node, TNode.Matches]
    exact ⟨_, _, _, rfl, snodes_matches cs (d + w) (l + (1 + bl.length))⟩
theorem snodes_matches : ∀ (cs : List SNode) (d l : Nat), treeMatches (eraseList cs) (snodes d l cs)
  | [], _, _ => by simp [eraseList, snodes, treeMatches]
  | c :: cs, d, l => by
    simp only [eraseList, snodes, treeMatches]
    exact ⟨_, _, rfl, SNode.node_matches c (d + c.x) l, snodes_matches cs d (l + c.height)⟩
end

/-! ### … with a spelled frame (`DSpell` of `FlatSpell`, `===END===` not indented) -/

/-- the spelled document with a spelled frame: trailing spaces / blank lines after the envelope line; `===END===` present
(trailing spaces, final newline present or not, blank lines after it) or omitted. -/
def fdocText (name : Str) (nodes : List SNode) (ds : DSpell) : Str := frontText name [] ds (stext 0 nodes (endText ds))

theorem run_fdoc (env : Env) (lenient : Bool) (name : Str) (nodes : List SNode) (ds : DSpell)
    (hn : isEnvName name = true) (hne : name ≠ "END".toList) (hok : treeOK (eraseList nodes)) (hds : ds.endIndent = 0) :
    ∃ e tail, (e.type = .envelopeEnd ∨ e.type = .eof) ∧
    ∃ n st', Run env lenient n ({ spans := [] } : LState) (fdocText name nodes ds) st' [] ∧
      (tEof st'.line st'.col :: st'.toks).reverse
        = fdocToks name 1 1 (1, 1 + (name.length + 6) + ds.envTrail) (blankPos 2 ds.envBlank) (firstLine ds) nodes e tail ∧
      st'.repairs.reverse = (srepsRev 0 (firstLine ds) nodes).reverse ∧ st'.stack = [] := by
  obtain ⟨n5, s5, r5, hr5, t5, p5, k5, l5, c5⟩ := run_front env lenient name [] ds (stext 0 nodes (endText ds)) hn hne (by simp)
  have l5' : s5.line = firstLine ds := by rw [l5]; rfl
  obtain ⟨n6, s6, r6, a6⟩ := run_stree env lenient nodes 0 s5 (endText ds) hr5 c5 hok
  obtain ⟨n7, s7, r7, h7t, h7r, h7s⟩ := run_end env lenient ds s6 a6.ready a6.col
  obtain ⟨e, tail, hsh, he⟩ := endToks_shape ds s6.line
  refine ⟨e, tail, he, _, s7, Run.trans (Run.trans r5 r6) r7, ?_, ?_, ?_⟩
  · have hend : (endIndOf ds s6.line).map indAt = [] := by
      unfold endIndOf; split <;> simp [hds, indPos]
    rw [h7t, List.reverse_append, hsh, hend, a6.toks, t5, l5', List.reverse_append, stoksRev_reverse, List.append_assoc,
      frontToks_bridge]
    simp only [toSLines, List.flatMap_nil, List.nil_append, fdocToks]
  · rw [h7r, a6.repairs, p5, l5']; simp [slinesRepsRev]
  · rw [h7s, a6.stack, k5]

theorem fdoc_fine (name : Str) (nodes : List SNode) (ds : DSpell) (hn : isEnvName name = true) (hok : treeOK (eraseList nodes)) :
    AllLines LineFine (fdocText name nodes ds) :=
  front_fine name [] ds _ hn (by simp) (stree_fine nodes 0 _ hok (end_fine ds))

/-- **the lexer on every spelling of a block tree in every spelling of the frame.** -/
theorem tokenize_framed (env : Env) (lenient : Bool) (name : Str) (nodes : List SNode) (ds : DSpell)
    (hn : isEnvName name = true) (hne : name ≠ "END".toList) (hok : treeOK (eraseList nodes)) (hds : ds.endIndent = 0)
    (hnfc : ∀ l ∈ splitLines (fdocText name nodes ds), env.nfc l = l) :
    ∃ e tail, (e.type = .envelopeEnd ∨ e.type = .eof) ∧
      tokenize env (fdocText name nodes ds) lenient
        = .ok (fdocToks name 1 1 (1, 1 + (name.length + 6) + ds.envTrail) (blankPos 2 ds.envBlank) (firstLine ds) nodes e tail,
               (srepsRev 0 (firstLine ds) nodes).reverse) := by
  obtain ⟨e, tail, he, hrun⟩ := run_fdoc env lenient name nodes ds hn hne hok hds
  exact ⟨e, tail, he, tokenize_of_run env lenient _ _ _ (fdoc_fine name nodes ds hn hok) hnfc hrun⟩

theorem stripFrontmatter_fdoc (env : Env) (name : Str) (nodes : List SNode) (ds : DSpell) :
    Parser.stripFrontmatter env (fdocText name nodes ds) = (fdocText name nodes ds, none) :=
  stripFrontmatter_front env name [] ds _

end Octave.C03.TreeSpell
