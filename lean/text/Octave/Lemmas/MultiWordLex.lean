import Octave.Lemmas.ExprLex
/-!
MULTI-WORD BARE VALUES (`K::two words here`) as values of a flat document — lexer half.

A multi-word value is a head word and `n ≥ 1` further words, each preceded by `gap + 1` spaces (`MWords`; `gap = 0`
everywhere is the single-space spelling).  Every word is `Expr.wordOK`: identifier-shaped, no reserved prefix.

* `mw_run_tail`    the words after the head: per word the spaces are skipped and ONE IDENTIFIER token is produced at the
                   word's own column (reuses `step_ident`, `run_spaces`);
* `mw_run_line`    one line `KEY::value` (value a scalar of `FlatLex` or a multi-word value) with its line end;
* `mw_run_lines`, `mw_run_doc`, `tokenize_mwdoc`   the whole document: `tokenize` (both modes, every environment whose
                   NFC leaves the lines alone) succeeds with exactly `mwdocToks` and `mwdocReps` (the latter holds only the
                   non-normalisation identifier notes: wrong case / missing `vs` boundary).
-/
namespace Octave.MW
open Octave Lexer Scan Emitter Spell Expr

/-- a multi-word bare value: the head word and the further words, each with the number of EXTRA spaces in front of it
(the word is preceded by `gap + 1` spaces). -/
structure MWords where
  head : Str
  tail : List (Nat × Str)
  deriving Repr, DecidableEq

/-- the words after the head as written. -/
def mwTailSpell : List (Nat × Str) → Str
  | [] => []
  | (g, w) :: r => spaces (g + 1) ++ (w ++ mwTailSpell r)

/-- the value as written. -/
def MWords.spell (m : MWords) : Str := m.head ++ mwTailSpell m.tail

/-- the words. -/
def MWords.words (m : MWords) : List Str := m.head :: m.tail.map Prod.snd

/-- what the reader makes of it: the words joined by ONE space each (whatever the spacing was). -/
def MWords.result (m : MWords) : Str := Parser.spaceJoin m.words

/-- every word is identifier-shaped without reserved prefix; there are at least two words (decidable). -/
def MWords.OK (m : MWords) : Prop := wordOK m.head ∧ (∀ p ∈ m.tail, wordOK p.2) ∧ m.tail ≠ []

instance (m : MWords) : Decidable m.OK := by unfold MWords.OK; infer_instance

/-- tokens of the words after the head, newest first; `c` is the column right after the previous word. -/
def mwTailToksRev (l : Nat) : Nat → List (Nat × Str) → List Token
  | _, [] => []
  | c, (g, w) :: r => mwTailToksRev l (c + (g + 1) + w.length) r ++ [tIdent w l (c + (g + 1))]

/-- (non-normalisation) identifier notes of the words after the head, newest first. -/
def mwTailRepsRev (l : Nat) : Nat → List (Nat × Str) → List Repair
  | _, [] => []
  | c, (g, w) :: r => mwTailRepsRev l (c + (g + 1) + w.length) r ++ (identifierRepairs w l (c + (g + 1))).reverse

theorem mwTermOK_tail (env : Env) (tail : List (Nat × Str)) (rest : Str) :
    TermOK env (mwTailSpell tail ++ '\n' :: rest) := by
  cases tail with
  | nil => exact termOK_nl env rest
  | cons q r =>
    obtain ⟨g, w⟩ := q
    simp only [mwTailSpell, spaces_succ]
    exact termOK_space env _

/-- **the words after the head**: per word its spaces are skipped and one IDENTIFIER token is produced. -/
theorem mw_run_tail (env : Env) (lenient : Bool) (tail : List (Nat × Str)) :
    ∀ (st : LState) (rest : Str), Ready st → 2 ≤ st.col → (∀ p ∈ tail, wordOK p.2) →
    ∃ n st' p, Run env lenient n st (mwTailSpell tail ++ '\n' :: rest) st' ('\n' :: rest) ∧
      Adv st st' (mwTailToksRev st.line st.col tail) (mwTailRepsRev st.line st.col tail) 0
        (st.col + (mwTailSpell tail).length) p := by
  induction tail with
  | nil =>
    intro st rest hr _ _
    exact ⟨0, st, st.prev, Run.refl _ _, ⟨hr, rfl, rfl, rfl, rfl, rfl, rfl⟩⟩
  | cons q r ih =>
    intro st rest hr hc hok
    obtain ⟨g, w⟩ := q
    have hw : wordOK w := hok (g, w) (by simp)
    let R2 := mwTailSpell r ++ '\n' :: rest
    obtain ⟨s1, r1, a1⟩ := run_spaces env lenient (g + 1) st (w ++ R2) hr hc
    obtain ⟨s2, e2, a2⟩ := step_ident env lenient s1 w R2 a1.ready hw.1 hw.2 (mwTermOK_tail env r rest)
    have c1 : s1.col = st.col + (g + 1) := a1.col
    have c2 : s2.col = st.col + (g + 1) + w.length := by rw [a2.col, c1]
    have l1 : s1.line = st.line := by rw [a1.line]; rfl
    have l2 : s2.line = st.line := by rw [a2.line, l1]; rfl
    obtain ⟨n3, s3, p3, r3, a3⟩ := ih s2 rest a2.ready (by rw [c2]; omega) (fun p hp => hok p (by simp [hp]))
    have hne : w ++ R2 ≠ [] := by simp [wordOK_ne_nil hw]
    have run := Run.trans (Run.trans r1 (Run.step1 e2 hne)) r3
    have hshape : mwTailSpell ((g, w) :: r) ++ '\n' :: rest = spaces (g + 1) ++ (w ++ R2) := by
      simp [mwTailSpell, R2, List.append_assoc]
    refine ⟨_, s3, p3, by rw [hshape]; exact run, ?_⟩
    refine ⟨a3.ready, ?_, ?_, ?_, ?_, ?_, a3.prev⟩
    · rw [a3.toks, a2.toks, a1.toks, l2, c2, l1, c1]; simp [mwTailToksRev]
    · rw [a3.repairs, a2.repairs, a1.repairs, l2, c2, l1, c1]; simp [mwTailRepsRev]
    · rw [a3.stack, a2.stack, a1.stack]
    · rw [a3.line, l2]
    · rw [a3.col, c2]; simp [mwTailSpell, spaces]; omega

/-! ### lines `KEY::value` whose value is a scalar or a multi-word value -/

inductive MVal where
  | sc (v : FScalar)
  | mw (m : MWords)
  deriving Repr, DecidableEq

structure MLine where
  key : Str
  v : MVal
  deriving Repr, DecidableEq

def MVal.OK : MVal → Prop
  | .sc v => v.OK
  | .mw m => m.OK

def MLine.OK (ln : MLine) : Prop := isIdentifierText ln.key = true ∧ hasReservedPrefix ln.key = false ∧ ln.v.OK

/-- the value as written. -/
def MVal.spell : MVal → Str
  | .sc v => v.text
  | .mw m => m.spell

/-- `KEY::value` (without the line end). -/
def MLine.spell (ln : MLine) : Str := ln.key ++ (':' :: ':' :: ln.v.spell)

/-- tokens of the value (newest first); `c` is the value's column. -/
def MVal.toksRev (l c : Nat) : MVal → List Token
  | .sc v => [v.tok l c]
  | .mw m => mwTailToksRev l (c + m.head.length) m.tail ++ [tIdent m.head l c]

def MVal.repsRev (l c : Nat) : MVal → List Repair
  | .sc v => (v.reps l c).reverse
  | .mw m => mwTailRepsRev l (c + m.head.length) m.tail ++ (identifierRepairs m.head l c).reverse

/-- tokens of a line that starts at line `l`, column `c`, newest first. -/
def MLine.toksRev (ln : MLine) (l c : Nat) : List Token :=
  tNewline l (c + ln.key.length + 2 + ln.v.spell.length) ::
    (ln.v.toksRev l (c + ln.key.length + 2) ++ [tAssign l (c + ln.key.length), tIdent ln.key l c])

def MLine.repsRev (ln : MLine) (l c : Nat) : List Repair :=
  ln.v.repsRev l (c + ln.key.length + 2) ++ (identifierRepairs ln.key l c).reverse

/-- **one multi-word value** after `::`, before the line end: one IDENTIFIER token per word. -/
theorem mw_run_words (env : Env) (lenient : Bool) (st : LState) (m : MWords) (rest : Str)
    (hr : Ready st) (hc : 2 ≤ st.col) (hok : m.OK) :
    ∃ n st' p, Run env lenient n st (m.spell ++ '\n' :: rest) st' ('\n' :: rest) ∧
      Adv st st' ((MVal.mw m).toksRev st.line st.col) ((MVal.mw m).repsRev st.line st.col) 0
        (st.col + m.spell.length) p := by
  obtain ⟨hh, ht, hne⟩ := hok
  let R1 := mwTailSpell m.tail ++ '\n' :: rest
  obtain ⟨s1, e1, a1⟩ := step_ident env lenient st m.head R1 hr hh.1 hh.2 (mwTermOK_tail env m.tail rest)
  have c1 : s1.col = st.col + m.head.length := a1.col
  have l1 : s1.line = st.line := by rw [a1.line]; rfl
  obtain ⟨n2, s2, p2, r2, a2⟩ := mw_run_tail env lenient m.tail s1 rest a1.ready (by rw [c1]; omega) ht
  have hne1 : m.head ++ R1 ≠ [] := by simp [wordOK_ne_nil hh]
  have run := Run.trans (Run.step1 e1 hne1) r2
  have hshape : m.spell ++ '\n' :: rest = m.head ++ R1 := by simp [MWords.spell, R1, List.append_assoc]
  refine ⟨_, s2, p2, by rw [hshape]; exact run, ?_⟩
  refine ⟨a2.ready, ?_, ?_, ?_, ?_, ?_, a2.prev⟩
  · rw [a2.toks, a1.toks, l1, c1]; simp [MVal.toksRev]
  · rw [a2.repairs, a1.repairs, l1, c1]; simp [MVal.repsRev]
  · rw [a2.stack, a1.stack]
  · rw [a2.line, l1]
  · rw [a2.col, c1]; simp [MWords.spell]; omega

/-- **one line** `KEY::value` with its line end: the tokens of the line, next line, column 1. -/
theorem mw_run_line (env : Env) (lenient : Bool) (st : LState) (ln : MLine) (rest : Str)
    (hr : Ready st) (hok : ln.OK) :
    ∃ n st', Run env lenient n st (ln.spell ++ '\n' :: rest) st' rest ∧
      Adv st st' (ln.toksRev st.line st.col) (ln.repsRev st.line st.col) 1 1 (some '\n') := by
  obtain ⟨key, v⟩ := ln
  obtain ⟨hk1, hk2, hv⟩ := hok
  cases v with
  | sc v =>
    obtain ⟨s4, r4, a4⟩ := run_line env lenient st ⟨key, v⟩ rest hr ⟨hk1, hk2, hv⟩
    exact ⟨4, s4, r4, a4⟩
  | mw m =>
    let R3 := m.spell ++ '\n' :: rest
    obtain ⟨s1, e1, a1⟩ := step_ident env lenient st key (':' :: ':' :: R3) hr hk1 hk2 (termOK_colon env _)
    obtain ⟨s2, e2, a2⟩ := step_assign env lenient s1 R3 a1.ready
    have l1 : s1.line = st.line := by rw [a1.line]; rfl
    have l2 : s2.line = st.line := by rw [a2.line, l1]; rfl
    have c1 : s1.col = st.col + key.length := a1.col
    have c2 : s2.col = st.col + key.length + 2 := by rw [a2.col, c1]
    obtain ⟨n3, s3, p3, r3, a3⟩ := mw_run_words env lenient s2 m rest a2.ready (by rw [c2]; omega) hv
    obtain ⟨s4, e4, a4⟩ := step_newline env lenient s3 rest a3.ready
    have l3 : s3.line = st.line := by rw [a3.line, l2]; rfl
    have c3 : s3.col = st.col + key.length + 2 + m.spell.length := by rw [a3.col, c2]
    have hne : key ≠ [] := by intro h; rw [h] at hk1; simp [isIdentifierText] at hk1
    have run := Run.trans (Run.trans (Run.trans (Run.step1 e1 (by simp [hne])) (Run.one e2)) r3) (Run.one e4)
    have hshape : (MLine.mk key (.mw m)).spell ++ '\n' :: rest = key ++ (':' :: ':' :: R3) := by
      simp [MLine.spell, MVal.spell, R3]
    refine ⟨_, s4, by rw [hshape]; exact run, ?_⟩
    refine ⟨a4.ready, ?_, ?_, ?_, ?_, a4.col, a4.prev⟩
    · rw [a4.toks, a3.toks, a2.toks, a1.toks, l3, c3, l2, c2, l1, c1]; simp [MLine.toksRev, MVal.spell]
    · rw [a4.repairs, a3.repairs, a2.repairs, a1.repairs, l2, c2]; simp [MLine.repsRev]
    · rw [a4.stack, a3.stack, a2.stack, a1.stack]
    · rw [a4.line, l3]

/-! ### all lines, the whole document -/

def mwLinesText : List MLine → Str
  | [] => []
  | x :: r => x.spell ++ '\n' :: mwLinesText r

def mwLinesToksRev (l : Nat) : List MLine → List Token
  | [] => []
  | x :: r => mwLinesToksRev (l + 1) r ++ x.toksRev l 1

def mwLinesRepsRev (l : Nat) : List MLine → List Repair
  | [] => []
  | x :: r => mwLinesRepsRev (l + 1) r ++ x.repsRev l 1

theorem mw_run_lines (env : Env) (lenient : Bool) (sl : List MLine) :
    ∀ (st : LState) (rest : Str), Ready st → st.col = 1 → (∀ x ∈ sl, x.OK) →
    ∃ n st', Run env lenient n st (mwLinesText sl ++ rest) st' rest ∧
      AdvL st st' (mwLinesToksRev st.line sl) (mwLinesRepsRev st.line sl) sl.length := by
  induction sl with
  | nil =>
    intro st rest hr hc _
    exact ⟨0, st, Run.refl _ _, ⟨hr, rfl, rfl, rfl, rfl, hc⟩⟩
  | cons x r ih =>
    intro st rest hr hc hok
    obtain ⟨n1, s1, r1, a1⟩ := mw_run_line env lenient st x (mwLinesText r ++ rest) hr (hok x (by simp))
    obtain ⟨n2, s2, r2, a2⟩ := ih s1 rest a1.ready a1.col (fun y hy => hok y (by simp [hy]))
    refine ⟨n1 + n2, s2, ?_, ?_⟩
    · have := Run.trans r1 r2
      simpa [mwLinesText, List.append_assoc] using this
    · have hl : s1.line = st.line + 1 := a1.line
      rw [hl] at a2
      rw [hc] at a1
      refine ⟨a2.ready, ?_, ?_, ?_, ?_, a2.col⟩
      · rw [a2.toks, a1.toks]; simp [mwLinesToksRev, List.append_assoc]
      · rw [a2.repairs, a1.repairs]; simp [mwLinesRepsRev, List.append_assoc]
      · rw [a2.stack, a1.stack]
      · rw [a2.line, hl]; simp; omega

/-- **the text of the document as written**: envelope line, the lines, `===END===`. -/
def mwdocText (name : Str) (sl : List MLine) : Str :=
  "===".toList ++ name ++ "===".toList ++ '\n' :: (mwLinesText sl ++ ("===END===".toList ++ ['\n']))

/-- its tokens, newest first, EOF included. -/
def mwdocToksRev (name : Str) (sl : List MLine) : List Token :=
  [tEof (sl.length + 3) 1, tNewline (sl.length + 2) 10, tEnvEnd (sl.length + 2) 1] ++ mwLinesToksRev 2 sl ++
    [tNewline 1 (1 + (name.length + 6)), tEnvStart name 1 1]

/-- **the tokens of the document**, in reading order. -/
def mwdocToks (name : Str) (sl : List MLine) : List Token := (mwdocToksRev name sl).reverse

/-- its lexer repair log, in order (identifier notes only). -/
def mwdocReps (sl : List MLine) : List Repair := (mwLinesRepsRev 2 sl).reverse

theorem mw_run_doc (env : Env) (lenient : Bool) (name : Str) (sl : List MLine)
    (hn : isEnvName name = true) (hne : name ≠ "END".toList) (hok : ∀ x ∈ sl, x.OK) :
    ∃ n st', Run env lenient n ({ spans := [] } : LState) (mwdocText name sl) st' [] ∧
      (tEof st'.line st'.col :: st'.toks).reverse = mwdocToks name sl ∧ st'.repairs.reverse = mwdocReps sl ∧ st'.stack = [] := by
  let st0 : LState := { spans := [] }
  let T2 := mwLinesText sl ++ ("===END===".toList ++ ['\n'])
  obtain ⟨s1, e1, a1⟩ := step_envStart env lenient st0 name ('\n' :: T2) rfl hn hne
  obtain ⟨s2, e2, a2⟩ := step_newline env lenient s1 T2 a1.ready
  obtain ⟨n3, s3, r3, a3⟩ := mw_run_lines env lenient sl s2 ("===END===".toList ++ ['\n']) a2.ready a2.col hok
  obtain ⟨s4, e4, a4⟩ := step_envEnd env lenient s3 ['\n'] a3.ready
  obtain ⟨s5, e5, a5⟩ := step_newline env lenient s4 [] a4.ready
  have e4' : step env lenient s3 ('=' :: ("==END===".toList ++ ['\n'])) = .ok (s4, ['\n']) := e4
  have hne1 : "===".toList ++ name ++ "===".toList ++ '\n' :: T2 ≠ [] := by simp
  have run := Run.trans (Run.trans (Run.step1 e1 hne1) (Run.one e2)) (Run.trans r3 (Run.cons e4' (Run.one e5)))
  have l1 : s1.line = 1 := by rw [a1.line]
  have l2 : s2.line = 2 := by rw [a2.line, l1]
  have l3 : s3.line = sl.length + 2 := by rw [a3.line, l2]; omega
  have l4 : s4.line = sl.length + 2 := by rw [a4.line, l3]
  have l5 : s5.line = sl.length + 3 := by rw [a5.line, l4]
  have c1 : s1.col = 1 + (name.length + 6) := a1.col
  have c3 : s3.col = 1 := a3.col
  have c4 : s4.col = 10 := by rw [a4.col, c3]
  refine ⟨_, s5, run, ?_, ?_, ?_⟩
  · rw [a5.toks, a4.toks, a3.toks, a2.toks, a1.toks, l5, a5.col, l1, l2, l3, l4, c1, c3, c4]
    simp [mwdocToks, mwdocToksRev, st0]
  · rw [a5.repairs, a4.repairs, a3.repairs, a2.repairs, a1.repairs, l2]
    simp [mwdocReps, st0]
  · rw [a5.stack, a4.stack, a3.stack, a2.stack, a1.stack]

/-! ### `normalize` and the tab check: every line is fence-free and tab-free -/

theorem mwTailSpell_clean (tail : List (Nat × Str)) : (∀ p ∈ tail, wordOK p.2) → Clean (mwTailSpell tail) := by
  induction tail with
  | nil => intro _ d hd; simp [mwTailSpell] at hd
  | cons q r ih =>
    intro hok
    obtain ⟨g, w⟩ := q
    exact Clean.append (spaces_clean _) (Clean.append (identText_clean w (hok (g, w) (by simp)).1)
      (ih (fun p hp => hok p (by simp [hp]))))

theorem mwspell_clean (ln : MLine) (h : ln.OK) : Clean ln.spell := by
  obtain ⟨key, v⟩ := ln
  obtain ⟨hk1, _, hv⟩ := h
  have hval : Clean v.spell := by
    cases v with
    | sc v => exact scalar_clean v hv
    | mw m => exact Clean.append (identText_clean m.head hv.1.1) (mwTailSpell_clean m.tail hv.2.1)
  have h2 : Clean (':' :: ':' :: v.spell) := by
    have := Clean.append (clean_lit "::".toList (by decide)) hval
    simpa using this
  exact Clean.append (identText_clean key hk1) h2

theorem mwspell_fine (ln : MLine) (h : ln.OK) : LineFine ln.spell := by
  refine ⟨fenceLine_none_of_head _ ?_, fun d hd => (mwspell_clean ln h d hd).2⟩
  intro c hc
  apply identText_head ln.key h.1 c
  have hne : ln.key ≠ [] := by
    intro e; have := h.1; rw [e] at this; simp [isIdentifierText] at this
  obtain ⟨k, t, hk⟩ := List.exists_cons_of_ne_nil hne
  simp only [MLine.spell, hk, List.cons_append, List.head?_cons] at hc ⊢
  exact hc

theorem mwlines_fine (sl : List MLine) (rest : Str) (hok : ∀ x ∈ sl, x.OK) (hr : AllLines LineFine rest) :
    AllLines LineFine (mwLinesText sl ++ rest) := by
  induction sl with
  | nil => exact hr
  | cons x r ih =>
    have := allLines_cons LineFine x.spell (mwLinesText r ++ rest) (mwspell_clean x (hok x (by simp)))
      (mwspell_fine x (hok x (by simp))) (ih (fun y hy => hok y (by simp [hy])))
    simpa [mwLinesText, List.append_assoc] using this

theorem mwdoc_fine (name : Str) (sl : List MLine) (hn : isEnvName name = true) (hok : ∀ x ∈ sl, x.OK) :
    AllLines LineFine (mwdocText name sl) := by
  have hend : AllLines LineFine ("===END===".toList ++ ['\n']) :=
    allLines_cons LineFine "===END===".toList [] (clean_lit _ (by decide)) ⟨by decide, by decide⟩
      (allLines_nil LineFine ⟨by decide, by decide⟩)
  have henv : LineFine ("===".toList ++ name ++ "===".toList) := by
    have := envLine_fine name 0 hn
    simpa [spaces] using this
  exact allLines_cons LineFine _ _ (envLine_clean name hn) henv (mwlines_fine sl _ hok hend)

/-- **The lexer on a flat document with multi-word bare values** (any name, any lines, any number of words, any positive
number of spaces between them, both lexer modes, every environment whose NFC leaves the lines alone): `tokenize`
succeeds with exactly `mwdocToks` — one IDENTIFIER token per word, at the word's own column — and `mwdocReps`. -/
theorem tokenize_mwdoc (env : Env) (lenient : Bool) (name : Str) (sl : List MLine)
    (hn : isEnvName name = true) (hne : name ≠ "END".toList) (hok : ∀ x ∈ sl, x.OK)
    (hnfc : ∀ l ∈ splitLines (mwdocText name sl), env.nfc l = l) :
    tokenize env (mwdocText name sl) lenient = .ok (mwdocToks name sl, mwdocReps sl) :=
  tokenize_of_run env lenient _ _ _ (mwdoc_fine name sl hn hok) hnfc (mw_run_doc env lenient name sl hn hne hok)

end Octave.MW
