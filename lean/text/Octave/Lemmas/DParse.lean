/-
Parser half of the UNIFIED document read theorem (C01 / C02): META block, `KEY::scalar` lines, `KEY:` blocks, `§ID::NAME`
sections and COMMENTS (leading comment lines of every node — sections included —, trailing comments of assignments, the
document's trailing comments) at once, any depth / width / number of comments, token positions ARBITRARY.

Content model `ANode` ("annotated node"): the content of `D.DNode` in the parser's vocabulary (`FlatParse.Scalar`,
`SectParse.PId`) where EVERY source line carries its own record of positions — `CommentParse.CPos` for a comment line, a
`KEY::scalar` line and a block header, `SectParse.SPos` for a section header (marker, id, letter, `::`, name, NEWLINE columns and
the marker's `normFrom` mark).  All of them are arbitrary: the theorems quantify over every annotation.  Token rendering:

    comment line of a node at depth d:   [INDENT(2·d) if d > 0]  COMMENT(text) NEWLINE        directly above the node's own line
    line    at depth d:  comment lines,  [INDENT(2·d)]  IDENTIFIER(key) ASSIGN scalar [COMMENT(trail)] NEWLINE
    block   at depth d:  comment lines,  [INDENT(2·d)]  IDENTIFIER(key) BLOCK NEWLINE                   children at depth d+1
    section at depth d:  comment lines,  [INDENT(2·d)]  SECTION id ASSIGN IDENTIFIER(name) NEWLINE      children at depth d+1
    document:  ENVELOPE_START NEWLINE  [IDENTIFIER(META) BLOCK NEWLINE (INDENT(2) IDENTIFIER ASSIGN scalar NEWLINE)+]
               forest(depth 0)  (COMMENT NEWLINE)*  ENVELOPE_END NEWLINE EOF                                     (`dToks`)

What is proved about the model's parser (`parseSection`, `parseSectionMarker`, `blockLoop`, `sectionLoop`,
`preIndentComments`, `commentBelongsOuter`, `docLoop`, `parseMetaBlock`, `parseDocument`) — one new
`HdrOK` / `ChildOK` / `LoopOK` scheme over `ANode`, both child loops handled together (`SectParse.childLoop b`), reusing
`CommentParse.parseSection_cline` for assignment lines, `CommentParse.stopsL` / `cmtRun` / `preOK` / `scanOuter_mono` /
`preIndentComments_stopsL` / `blockLoop_stopL` for "whose comment is it", `MetaParse.parseMetaBlock_fields` for META:

* `sectionLoop_stopL`, `childLoop_stopL`   a child loop ends at a context that `stopsL` its child indentation;
* `childLoop_lead`          the remaining comment lines of the next child: texts appended to `pending`;
* `hdr_block`, `hdr_sect_nil`, `hdr_sect_cons`, `hdr_of` / `child_of` / `loop_of`, `all_ok`;
* `parseSection_hdr`, `childLoop_forest`   block / section with ITS leading comments (a section gets them through
                            `withLeading`), exactly the children, every comment at its node; cursor at the context;
* `docLoop_lead`, `docLoop_d`   the body loop of `parse_document`;
* `parseDocument_d`         the whole `parse_document` with the parser's own fuel, with or without the META block.

Conditions found in the code (decidable): `ANode.wf` (column of a block key / a section marker = the node's indentation;
`str.isalpha` of a `§2b` letter), `stopsL` (what may follow a node; canonical contexts always satisfy it: `cont_head`,
`cont_head0`), `metaFirstA` (only WITHOUT META fields: the first body node has no leading comment and is a line or block
keyed `META`).  Everything lives in `namespace Octave.DParse`.
-/
import Octave.Lemmas.CommentParse
import Octave.Lemmas.SectParse
import Octave.Lemmas.MetaParse
namespace Octave.DParse
open Octave Parser FlatParse
open Octave.BlockParse (indentVal ok_pos_congr set_mk preIndentComments_stop LPos)
open Octave.CommentParse (CPos cmtTok keyTok assignTok blockTok nlTok trailToks trailLen lineWarns lineWarns_reverse
  parseSection_cline commentBelongsOuter_ge commentBelongsOuter_lt cmtRun preOK stopsL scanOuter_mono preOK_mono stopsL_mono
  cmtRun_scanOuter cmtRun_preOK stopsL_cmt blockLoop_stopL skipWhitespace_false_nl preIndentComments_stopsL stopsL_ne_nil)
open Octave.SectParse (PId SPos secTok secAssignTok secNameTok idNumTok idNameTok idLetterTok hdrNlTok childLoop childLoop_true
  childLoop_false consumeBracketAnnotation_none pyStrVal_int)

/-! ## Content model -/

/-- document content below the envelope (and the META block), every source line annotated with its token positions. -/
inductive ANode where
  | line (key : Str) (v : Scalar) (lead : List (Str × CPos)) (trail : Option Str) (p : CPos)
  | block (key : Str) (children : List ANode) (lead : List (Str × CPos)) (p : CPos)
  | sect (id : PId) (key : Str) (children : List ANode) (lead : List (Str × CPos)) (p : SPos)

/-- the leading comment lines (text and positions). -/
def ANode.lead : ANode → List (Str × CPos)
  | .line _ _ lead _ _ => lead
  | .block _ _ lead _ => lead
  | .sect _ _ _ lead _ => lead

/-- line and column of the INDENT token in front of the node's own line. -/
def ANode.ipos : ANode → Nat × Nat
  | .line _ _ _ _ p => (p.li, p.ci)
  | .block _ _ _ p => (p.li, p.ci)
  | .sect _ _ _ _ p => (p.li, p.ci)

/-- the comment texts. -/
def texts (lead : List (Str × CPos)) : List Str := lead.map Prod.fst

/-- the INDENT token of a line at depth `d`: its VALUE `2 * d` is content. -/
def indT (d : Nat) (lc : Nat × Nat) : Token := { type := .indent, value := .nat (2 * d), line := lc.1, col := lc.2 }

/-- a line at depth 0 has no INDENT token; at depth `d > 0` it starts with `INDENT(2 * d)`. -/
def indTs : Nat → Nat × Nat → List Token
  | 0, _ => []
  | d + 1, lc => [indT (d + 1) lc]

/-- comment lines at depth `d`: `[INDENT(2·d)] COMMENT NEWLINE` each. -/
def leadT (d : Nat) : List (Str × CPos) → List Token
  | [] => []
  | (s, q) :: r => indTs d (q.li, q.ci) ++ (cmtTok s q.l q.c1 :: nlTok q :: leadT d r)

mutual
/-- tokens of a node at depth `d` from its first own token on (key / marker), i.e. WITHOUT the leading comment lines and
without the INDENT of its own line. -/
def ANode.core : ANode → Nat → List Token
  | .line key v _ trail p, _ => keyTok key p :: assignTok p :: v.tok p.l p.c3 :: (trailToks trail p ++ [nlTok p])
  | .block key cs _ p, d => keyTok key p :: blockTok p :: nlTok p :: toksF cs (d + 1)
  | .sect id key cs _ p, d =>
    secTok p :: (id.toks p ++ secAssignTok p :: secNameTok key p :: hdrNlTok p :: toksF cs (d + 1))
/-- tokens of a forest at depth `d`: every node with its leading comment lines (indented like the node) and its INDENT. -/
def toksF : List ANode → Nat → List Token
  | [], _ => []
  | c :: cs, d => leadT d c.lead ++ (indTs d c.ipos ++ (c.core d ++ toksF cs d))
end

mutual
/-- the AST node the reader must produce (positions: those of the key token / of the section marker). -/
def ANode.node : ANode → Node
  | .line key v lead trail p => .assign key v.val p.l p.c1 (texts lead) trail
  | .block key cs lead p => .block key (nodesF cs) p.l p.c1 (texts lead) none
  | .sect id key cs lead p => .sect id.str key none (nodesF cs) p.l p.c0 (texts lead)
def nodesF : List ANode → List Node
  | [] => []
  | c :: cs => c.node :: nodesF cs
end

/-- duplicate-key bookkeeping of a child loop: only Assignment children are tracked. -/
def trackA (kp : KeyPos) : ANode → KeyPos × List Warning
  | .line key _ _ _ p => trackPure kp key p.l
  | .block _ _ _ _ => (kp, [])
  | .sect _ _ _ _ _ => (kp, [])

mutual
/-- warnings `parseSection` emits on the node, in emission order. -/
def ANode.warns : ANode → List Warning
  | .line key v _ _ p => lineWarns key v p
  | .block _ cs _ _ => warnsF cs []
  | .sect _ _ cs _ _ => warnsF cs []
/-- warnings of a child loop (block / section body, document body) on a forest, starting from key table `kp`. -/
def warnsF : List ANode → KeyPos → List Warning
  | [], _ => []
  | c :: cs, kp => c.warns ++ ((trackA kp c).2 ++ warnsF cs (trackA kp c).1)
end

mutual
/-- the conditions the code imposes on positions and letters.  The COLUMN of a block key / of a section marker is read as the
node's own indentation `+ 1`: a node with children needs that indentation `<` its children's indentation `2 * (d + 1)` (else
the first child is not "indented": the node is read as empty and the children are re-parented to the enclosing level); a node
without children needs it `≥ 2 * d` (else a following sibling is taken as its child).  The lexer always gives column
`2 * d + 1`.  And the letter of a `§2b` id must be alphabetic for the parser.  No position of a COMMENT token is read. -/
def ANode.wf (al : Char → Bool) : ANode → Nat → Bool
  | .line _ _ _ _ _, _ => true
  | .block _ cs _ p, d =>
    (if cs.isEmpty then decide (2 * d ≤ p.c1 - 1) else decide (p.c1 - 1 < 2 * (d + 1))) && wfF al cs (d + 1)
  | .sect id _ cs _ p, d =>
    id.letterOk al && (if cs.isEmpty then decide (2 * d ≤ p.c0 - 1) else decide (p.c0 - 1 < 2 * (d + 1))) && wfF al cs (d + 1)
def wfF (al : Char → Bool) : List ANode → Nat → Bool
  | [], _ => true
  | c :: cs, d => c.wf al d && wfF al cs d
end

/-- a block or a section (a node with a header line). -/
def ANode.isHdr : ANode → Bool
  | .line _ _ _ _ _ => false
  | _ => true

/-! ## Evaluation on explicit states -/

/-- evaluation of the parser monad on explicit states (as in `Lemmas/FlatParse.lean`). -/
local macro "step_simp" "[" ts:Lean.Parser.Tactic.simpLemma,* "]" : tactic =>
  `(tactic| simp only [bind, StateT.bind, Except.bind, pure, StateT.pure, Except.pure, current_mk, peek_mk, advance_mk,
      curType_mk, isAdjacentBracket_mk, budget_mk, warn_mk, get, getThe, MonadStateOf.get, StateT.get,
      Bool.false_eq_true, if_false, if_true, Bool.false_and, Bool.and_false, Bool.or_false, Bool.false_or,
      List.length_cons, List.length_nil, beq_iff_eq, bne_iff_ne, ne_eq, reduceCtorEq, not_true_eq_false, not_false_eq_true,
      Bool.and_eq_true, Bool.or_eq_true, Bool.not_eq_true', beq_eq_false_iff_ne, false_and, and_false, true_and, and_true,
      false_or, or_false, true_or, or_true, decide_eq_true_eq,
      beq_self_eq_true, Bool.true_or, Bool.or_true, Bool.true_and, Bool.and_true, Bool.not_true, Bool.not_false, $ts,*])

/-- the child loop of a SECTION stops at a follow context that `stopsL` its child indentation (on a fresh line:
`lineIndent = 0`); comments still pending become orphan `Comment` children.  (Counterpart of `CommentParse.blockLoop_stopL`;
the section loop has one more way to stop — a SECTION token on a less indented line — which only helps.) -/
theorem sectionLoop_stopL (fuel ci : Nat) (hci : 0 < ci) (pd : List Str) (acc : List Node) (kp : KeyPos) (e : Token) (r : List Token)
    (p : Option Token) (n : Nat) (la : Token) (w : List Warning) (d : Nat) (wd : List Nat) (s : Bool) (th : Nat) (al : Char → Bool)
    (hs : stopsL ci (e :: r) = true) :
    sectionLoop (fuel + 1) ci 0 pd acc kp { rest := e :: r, prev := p, pos := n, last := la, warnings := w, depth := d, warned := wd, strict := s, threshold := th, alpha := al }
      = .ok (acc ++ pd.map Node.comment, { rest := e :: r, prev := p, pos := n, last := la, warnings := w, depth := d, warned := wd, strict := s, threshold := th, alpha := al }) := by
  simp only [stopsL, Bool.and_eq_true, Bool.or_eq_true, bne_iff_ne, ne_eq, decide_eq_true_eq] at hs
  obtain ⟨⟨⟨h1, h3⟩, h4⟩, h2⟩ := hs
  rw [sectionLoop]
  step_simp []
  by_cases he : e.type = TT.eof ∨ e.type = TT.envelopeEnd
  · rw [if_pos he]; rfl
  · rw [if_neg he]
    by_cases hi : e.type = TT.indent
    · have h5 : indentVal e < ci := by
        rcases h4 with h | h
        · exact absurd hi h
        · exact h
      obtain ⟨ty, val, l, c, nf, raw⟩ := e
      simp only at hi
      subst hi
      cases val <;> simp only [indentVal] at h5 <;> step_simp [h5] <;> (try (rw [if_pos hci]))
    · by_cases hc : e.type = TT.comment
      · have h6 : scanOuter ci r 0 = true := by
          rcases h2 with h | h
          · exact absurd hc h
          · exact h.1
        have h7 : scanOuter ci (e :: r) 0 = true := by
          rw [scanOuter]
          simp only [hc, beq_self_eq_true, if_true]
          exact h6
        step_simp [hi, hc, commentBelongsOuter_lt 0 ci hci, h7]
      · step_simp [hi, h1, hc, hci, ite_self]

/-- either child loop stops at a context that `stopsL`. -/
theorem childLoop_stopL (b : Bool) (fuel ci : Nat) (hci : 0 < ci) (pd : List Str) (acc : List Node) (kp : KeyPos) (e : Token) (r : List Token)
    (p : Option Token) (n : Nat) (la : Token) (w : List Warning) (d : Nat) (wd : List Nat) (s : Bool) (th : Nat) (al : Char → Bool)
    (hs : stopsL ci (e :: r) = true) :
    childLoop b (fuel + 1) ci 0 pd acc kp { rest := e :: r, prev := p, pos := n, last := la, warnings := w, depth := d, warned := wd, strict := s, threshold := th, alpha := al }
      = .ok (acc ++ pd.map Node.comment, { rest := e :: r, prev := p, pos := n, last := la, warnings := w, depth := d, warned := wd, strict := s, threshold := th, alpha := al }) := by
  cases b
  · exact blockLoop_stopL fuel ci hci pd acc kp e r p n la w d wd s th al hs
  · exact sectionLoop_stopL fuel ci hci pd acc kp e r p n la w d wd s th al hs

/-! ## the leading comment lines of a child -/

/-- position of the first INDENT of an indented node with its comment lines: that of the first comment line, or the node's own. -/
def firstInd : List (Str × CPos) → Nat × Nat → Nat × Nat
  | [], fin => fin
  | (_, q) :: _, _ => (q.li, q.ci)

/-- what follows the first INDENT of an indented node with leading comments `lead`: `(COMMENT NEWLINE INDENT)*` — the node's
first own token comes next (`fin`: position of the INDENT of the node's own line). -/
def afterInd (d : Nat) : List (Str × CPos) → Nat × Nat → List Token
  | [], _ => []
  | (s, q) :: r, fin => cmtTok s q.l q.c1 :: nlTok q :: indT d (firstInd r fin) :: afterInd d r fin

theorem afterInd_length (d : Nat) (fin : Nat × Nat) : ∀ (lead : List (Str × CPos)), (afterInd d lead fin).length = 3 * lead.length
  | [] => rfl
  | (_, _) :: r => by simp only [afterInd, List.length_cons, afterInd_length d fin r]; omega

/-- the comment lines of an indented node and its own INDENT, regrouped: first INDENT, then `afterInd`. -/
theorem lead_indent_eq (d : Nat) (fin : Nat × Nat) (X : List Token) : ∀ (lead : List (Str × CPos)),
    leadT (d + 1) lead ++ (indTs (d + 1) fin ++ X) = indT (d + 1) (firstInd lead fin) :: (afterInd (d + 1) lead fin ++ X)
  | [] => by simp only [leadT, indTs, afterInd, firstInd, List.nil_append, List.cons_append]
  | (s, q) :: r => by
    have h := lead_indent_eq d fin X r
    simp only [indTs, List.cons_append, List.nil_append] at h
    simp only [leadT, indTs, afterInd, firstInd, List.cons_append, List.nil_append, h]

theorem afterInd_append_ne_nil (d : Nat) (lead : List (Str × CPos)) (fin : Nat × Nat) (X : List Token) (hX : X ≠ []) :
    afterInd d lead fin ++ X ≠ [] := by
  cases lead with
  | nil => exact hX
  | cons sq r => obtain ⟨s, q⟩ := sq; simp [afterInd]

/-- a child loop right after an INDENT of its children's indentation, on the remaining comment lines of the next child: the
comment texts are appended to `pending`, in order (`commentBelongsOuter` answers "inner": `lineIndent ≥ childIndent`). -/
theorem childLoop_lead (b : Bool) (d : Nat) (fin : Nat × Nat) (X : List Token) (hX : X ≠ []) (G : Nat) (acc : List Node) (kp : KeyPos)
    (la : Token) (w : List Warning) (dp : Nat) (wd : List Nat) (s : Bool) (th : Nat) (al : Char → Bool) :
    ∀ (lead : List (Str × CPos)) (pd : List Str) (p : Option Token) (n : Nat), ∃ p' : Option Token,
    childLoop b (3 * lead.length + G) (2 * (d + 1)) (2 * (d + 1)) pd acc kp
        { rest := afterInd (d + 1) lead fin ++ X, prev := p, pos := n, last := la, warnings := w, depth := dp, warned := wd, strict := s, threshold := th, alpha := al }
      = childLoop b G (2 * (d + 1)) (2 * (d + 1)) (pd ++ texts lead) acc kp
        { rest := X, prev := p', pos := n + 3 * lead.length, last := la, warnings := w, depth := dp, warned := wd, strict := s, threshold := th, alpha := al }
  | [], pd, p, n => ⟨p, by simp only [afterInd, texts, List.map_nil, List.length_nil, Nat.mul_zero, Nat.zero_add, Nat.add_zero, List.nil_append, List.append_nil]⟩
  | (c, q) :: r, pd, p, n => by
    obtain ⟨p', ih⟩ := childLoop_lead b d fin X hX G acc kp la w dp wd s th al r (pd ++ [c]) (some (indT (d + 1) (firstInd r fin))) (n + 1 + 1 + 1)
    refine ⟨p', ?_⟩
    have hf : 3 * ((c, q) :: r).length + G = (3 * r.length + G) + 1 + 1 + 1 := by simp only [List.length_cons]; omega
    have hp : n + 1 + 1 + 1 + 3 * r.length = n + 3 * ((c, q) :: r).length := by simp only [List.length_cons]; omega
    rw [hf]
    simp only [afterInd, List.cons_append]
    cases b
    · rw [childLoop_false] at ih ⊢
      rw [blockLoop]
      step_simp [cmtTok, commentBelongsOuter_ge _ _ (Nat.le_refl _), pyStrVal_str]
      rw [blockLoop]
      step_simp [nlTok, indT]
      rw [blockLoop]
      step_simp [indT, Nat.lt_irrefl]
      rw [advance_ne (h := afterInd_append_ne_nil (d + 1) r fin X hX)]
      simp only []
      simp only [indT] at ih
      rw [ih, hp]
      simp only [texts, List.map_cons, List.append_assoc, List.singleton_append, List.length_cons]
    · rw [childLoop_true] at ih ⊢
      rw [sectionLoop]
      step_simp [cmtTok, commentBelongsOuter_ge _ _ (Nat.le_refl _), pyStrVal_str]
      rw [sectionLoop]
      step_simp [nlTok, indT]
      rw [sectionLoop]
      step_simp [indT, Nat.lt_irrefl]
      rw [advance_ne (h := afterInd_append_ne_nil (d + 1) r fin X hX)]
      simp only []
      simp only [indT] at ih
      rw [ih, hp]
      simp only [texts, List.map_cons, List.append_assoc, List.singleton_append, List.length_cons]


/-! ## single steps of either child loop -/

/-- an INDENT at least as deep as the children: consumed, `lineIndent` := its value. -/
theorem childLoop_indent (b : Bool) (F ci li v : Nat) (hv : ¬ v < ci) (pd : List Str) (acc : List Node) (kp : KeyPos)
    (l c : Nat) (R : List Token) (hR : R ≠ [])
    (p : Option Token) (n : Nat) (la : Token) (w : List Warning) (d : Nat) (wd : List Nat) (s : Bool) (th : Nat) (al : Char → Bool) :
    childLoop b (F + 1) ci li pd acc kp
        { rest := { type := .indent, value := .nat v, line := l, col := c } :: R, prev := p, pos := n, last := la, warnings := w, depth := d, warned := wd, strict := s, threshold := th, alpha := al }
      = childLoop b F ci v pd acc kp
        { rest := R, prev := some { type := .indent, value := .nat v, line := l, col := c }, pos := n + 1, last := la, warnings := w, depth := d, warned := wd, strict := s, threshold := th, alpha := al } := by
  cases b
  · rw [childLoop_false, blockLoop]
    step_simp [hv]
    rw [advance_ne (h := hR)]
  · rw [childLoop_true, sectionLoop]
    step_simp [hv]
    rw [advance_ne (h := hR)]

/-- a NEWLINE: consumed, `lineIndent` := 0. -/
theorem childLoop_newline (b : Bool) (F ci li : Nat) (pd : List Str) (acc : List Node) (kp : KeyPos)
    (t : Token) (ht : t.type = TT.newline) (R : List Token) (hR : R ≠ [])
    (p : Option Token) (n : Nat) (la : Token) (w : List Warning) (d : Nat) (wd : List Nat) (s : Bool) (th : Nat) (al : Char → Bool) :
    childLoop b (F + 1) ci li pd acc kp
        { rest := t :: R, prev := p, pos := n, last := la, warnings := w, depth := d, warned := wd, strict := s, threshold := th, alpha := al }
      = childLoop b F ci 0 pd acc kp
        { rest := R, prev := some t, pos := n + 1, last := la, warnings := w, depth := d, warned := wd, strict := s, threshold := th, alpha := al } := by
  cases b
  · rw [childLoop_false, blockLoop]
    step_simp [ht]
    rw [advance_ne (h := hR)]
  · rw [childLoop_true, sectionLoop]
    step_simp [ht]
    rw [advance_ne (h := hR)]

/-- the cursor on the first token of a child (an IDENTIFIER or a SECTION token) on a line indented like the children:
`parse_section` is called with the pending comments; a Block / Section child is appended, nothing is tracked. -/
theorem childLoop_call_hdr (b : Bool) (F ci li : Nat) (hli : ¬ li < ci) (pd : List Str) (acc : List Node) (kp : KeyPos)
    (X : List Token) (t : Token) (R : List Token) (hX : X = t :: R) (ht : t.type = TT.identifier ∨ t.type = TT.section)
    (p : Option Token) (n : Nat) (la : Token) (w : List Warning) (d : Nat) (wd : List Nat) (s : Bool) (th : Nat) (al : Char → Bool)
    (child : Node) (hk : nodeAssignKey? child = none) (st' : PState)
    (hsec : parseSection F pd { rest := X, prev := p, pos := n, last := la, warnings := w, depth := d, warned := wd, strict := s, threshold := th, alpha := al }
      = .ok (some child, st')) :
    childLoop b (F + 1) ci li pd acc kp
        { rest := X, prev := p, pos := n, last := la, warnings := w, depth := d, warned := wd, strict := s, threshold := th, alpha := al }
      = childLoop b F ci 0 [] (acc ++ [child]) kp st' := by
  subst hX
  have h1 : t.type ≠ TT.eof := by rcases ht with h | h <;> rw [h] <;> decide
  have h2 : t.type ≠ TT.envelopeEnd := by rcases ht with h | h <;> rw [h] <;> decide
  have h3 : t.type ≠ TT.indent := by rcases ht with h | h <;> rw [h] <;> decide
  have h4 : t.type ≠ TT.comment := by rcases ht with h | h <;> rw [h] <;> decide
  have h5 : t.type ≠ TT.newline := by rcases ht with h | h <;> rw [h] <;> decide
  have h6 : t.type ≠ TT.fenceOpen := by rcases ht with h | h <;> rw [h] <;> decide
  cases b
  · rw [childLoop_false, blockLoop]
    step_simp [h1, h2, h3, h4, h5, h6, hli]
    rw [hsec]
    step_simp [hk]
  · rw [childLoop_true, sectionLoop]
    step_simp [h1, h2, h3, h4, h5, h6, hli]
    rw [hsec]
    step_simp [hk]

/-- … an Assignment child is appended and its key tracked (duplicate-key warning of this level). -/
theorem childLoop_call_assign (b : Bool) (F ci li : Nat) (hli : ¬ li < ci) (pd : List Str) (acc : List Node) (kp : KeyPos)
    (t : Token) (R : List Token) (ht : t.type = TT.identifier)
    (p : Option Token) (n : Nat) (la : Token) (w : List Warning) (d : Nat) (wd : List Nat) (s : Bool) (th : Nat) (al : Char → Bool)
    (key : Str) (v : Value) (l c : Nat) (ld : List Str) (tr : Option Str) (st' : PState)
    (hsec : parseSection F pd { rest := t :: R, prev := p, pos := n, last := la, warnings := w, depth := d, warned := wd, strict := s, threshold := th, alpha := al }
      = .ok (some (.assign key v l c ld tr), st')) :
    childLoop b (F + 1) ci li pd acc kp
        { rest := t :: R, prev := p, pos := n, last := la, warnings := w, depth := d, warned := wd, strict := s, threshold := th, alpha := al }
      = childLoop b F ci 0 [] (acc ++ [.assign key v l c ld tr]) (trackPure kp key l).1
          { st' with warnings := (trackPure kp key l).2 ++ st'.warnings } := by
  cases b
  · rw [childLoop_false, blockLoop]
    step_simp [ht, hli]
    rw [hsec]
    step_simp [nodeAssignKey?, trackKey_eq]
  · rw [childLoop_true, sectionLoop]
    step_simp [ht, hli]
    rw [hsec]
    step_simp [nodeAssignKey?, trackKey_eq]


/-! ## The three mutually dependent statements, indexed by the fuel -/

/-- `parseSection` on a block or a section at depth `d` (cursor on its first own token, INDENT consumed, its leading comments
already collected and passed in), followed by a context that `stopsL` depth `d`: the node with exactly the children and
exactly these leading comments; cursor at the context; only warnings added. -/
def HdrOK (F : Nat) : Prop :=
  ∀ (c : ANode) (d : Nat) (st : PState) (fl : List Token),
    c.isHdr = true →
    st.rest = c.core d ++ fl →
    stopsL (2 * d + 1) fl = true →
    c.wf st.alpha d = true →
    (c.core d).length ≤ F →
    ∃ p' : Option Token, parseSection F (texts c.lead) st = .ok (some c.node,
      { st with rest := fl, prev := p', pos := st.pos + (c.core d).length, warnings := c.warns.reverse ++ st.warnings })

/-- a child loop right after the first INDENT of child `c` (`lineIndent = childIndent`, nothing pending): the remaining
tokens of its comment lines, the child itself, further children `cs` behind it. -/
def ChildOK (F : Nat) : Prop :=
  ∀ (b : Bool) (c : ANode) (cs : List ANode) (d : Nat) (st : PState) (fl : List Token) (acc : List Node) (kp : KeyPos),
    st.rest = afterInd (d + 1) c.lead c.ipos ++ (c.core (d + 1) ++ (toksF cs (d + 1) ++ fl)) →
    stopsL (2 * (d + 1)) fl = true →
    c.wf st.alpha (d + 1) = true → wfF st.alpha cs (d + 1) = true →
    3 * c.lead.length + (c.core (d + 1)).length + (toksF cs (d + 1)).length + 1 ≤ F →
    ∃ p' : Option Token, childLoop b F (2 * (d + 1)) (2 * (d + 1)) [] acc kp st = .ok (acc ++ nodesF (c :: cs),
      { st with rest := fl, prev := p',
                pos := st.pos + (3 * c.lead.length + (c.core (d + 1)).length + (toksF cs (d + 1)).length),
                warnings := (warnsF (c :: cs) kp).reverse ++ st.warnings })

/-- a child loop at the start of a line (`lineIndent = 0`, nothing pending), children `cs` (each with its comment lines and
INDENTs) ahead. -/
def LoopOK (F : Nat) : Prop :=
  ∀ (b : Bool) (cs : List ANode) (d : Nat) (st : PState) (fl : List Token) (acc : List Node) (kp : KeyPos),
    st.rest = toksF cs (d + 1) ++ fl →
    stopsL (2 * (d + 1)) fl = true →
    wfF st.alpha cs (d + 1) = true →
    (toksF cs (d + 1)).length + 1 ≤ F →
    ∃ p' : Option Token, childLoop b F (2 * (d + 1)) 0 [] acc kp st = .ok (acc ++ nodesF cs,
      { st with rest := fl, prev := p', pos := st.pos + (toksF cs (d + 1)).length,
                warnings := (warnsF cs kp).reverse ++ st.warnings })

theorem core_ne_nil (c : ANode) (d : Nat) (r : List Token) : c.core d ++ r ≠ [] := by
  cases c <;> simp [ANode.core]

/-- an indented forest with a first node, regrouped: first INDENT, the rest of its comment lines, the node, the others. -/
theorem toksF_cons_succ (c : ANode) (cs : List ANode) (d : Nat) (fl : List Token) :
    toksF (c :: cs) (d + 1) ++ fl
      = indT (d + 1) (firstInd c.lead c.ipos) :: (afterInd (d + 1) c.lead c.ipos ++ (c.core (d + 1) ++ (toksF cs (d + 1) ++ fl))) := by
  rw [toksF, List.append_assoc, List.append_assoc, List.append_assoc, lead_indent_eq]

theorem toksF_cons_succ_length (c : ANode) (cs : List ANode) (d : Nat) :
    (toksF (c :: cs) (d + 1)).length = 3 * c.lead.length + (c.core (d + 1)).length + (toksF cs (d + 1)).length + 1 := by
  have h := congrArg List.length (toksF_cons_succ c cs d [])
  simp only [List.append_nil, List.length_cons, List.length_append, afterInd_length] at h
  omega

theorem loop_of (F : Nat) (ih : ∀ F' < F, ChildOK F') : LoopOK F := by
  intro b cs d st fl acc kp hr hs hc hF
  obtain ⟨rest, p, n, la, w, dp, wd, s, th, al⟩ := st
  simp only at hr hc
  subst hr
  obtain ⟨F', rfl⟩ : ∃ F', F = F' + 1 := ⟨F - 1, by omega⟩
  cases cs with
  | nil =>
    obtain ⟨e, r, rfl⟩ : ∃ e r, fl = e :: r := by
      cases fl with
      | nil => exact absurd rfl (stopsL_ne_nil hs)
      | cons e r => exact ⟨e, r, rfl⟩
    refine ⟨p, ?_⟩
    simp only [toksF, List.nil_append]
    rw [childLoop_stopL (hci := by omega) (hs := hs)]
    simp only [nodesF, List.map_nil, List.append_nil, List.length_nil, Nat.add_zero, warnsF, List.reverse_nil, List.nil_append]
  | cons c cs =>
    rw [toksF_cons_succ_length] at hF
    simp only [wfF, Bool.and_eq_true] at hc
    obtain ⟨p', hch⟩ := ih F' (Nat.lt_succ_self _) b c cs d
      { rest := afterInd (d + 1) c.lead c.ipos ++ (c.core (d + 1) ++ (toksF cs (d + 1) ++ fl)),
        prev := some (indT (d + 1) (firstInd c.lead c.ipos)), pos := n + 1, last := la, warnings := w, depth := dp,
        warned := wd, strict := s, threshold := th, alpha := al }
      fl acc kp rfl hs hc.1 hc.2 (by omega)
    refine ⟨p', ?_⟩
    simp only [toksF_cons_succ, toksF_cons_succ_length]
    simp only [indT] at hch ⊢
    rw [childLoop_indent (hv := Nat.lt_irrefl _)
      (hR := afterInd_append_ne_nil (d + 1) c.lead c.ipos _ (core_ne_nil c (d + 1) _)), hch]
    apply ok_pos_congr
    omega

/-- what follows a node at depth `d + 1` inside a block / a section (a sibling's first INDENT, or what follows the forest)
`stopsL` the node's own depth. -/
theorem cont_head (cs : List ANode) (d : Nat) (fl : List Token)
    (hs : stopsL (2 * (d + 1)) fl = true) : stopsL (2 * (d + 1) + 1) (toksF cs (d + 1) ++ fl) = true := by
  cases cs with
  | nil => exact stopsL_mono (by omega) hs
  | cons c cs =>
    rw [toksF_cons_succ]
    simp [stopsL, indT, indentVal]

/-- the first token of a block or a section: an IDENTIFIER or a SECTION token. -/
theorem hdr_head (c : ANode) (d : Nat) (hh : c.isHdr = true) :
    ∃ t r, c.core d = t :: r ∧ (t.type = TT.identifier ∨ t.type = TT.section) := by
  cases c with
  | line key v lead trail p => cases hh
  | block key cs lead p => exact ⟨_, _, rfl, Or.inl rfl⟩
  | sect id key cs lead p => exact ⟨_, _, rfl, Or.inr rfl⟩

theorem hdr_node_key (c : ANode) (hh : c.isHdr = true) : nodeAssignKey? c.node = none := by
  cases c with
  | line key v lead trail p => cases hh
  | block key cs lead p => rfl
  | sect id key cs lead p => rfl

theorem hdr_track (kp : KeyPos) (c : ANode) (hh : c.isHdr = true) : trackA kp c = (kp, []) := by
  cases c with
  | line key v lead trail p => cases hh
  | block key cs lead p => rfl
  | sect id key cs lead p => rfl

theorem child_of (F : Nat) (ihS : ∀ F' < F, HdrOK F') (ihL : ∀ F' < F, LoopOK F') : ChildOK F := by
  intro b c cs d st fl acc kp hr hs hc hcs hF
  obtain ⟨rest, p, n, la, w, dp, wd, s, th, al⟩ := st
  simp only at hr hc hcs
  subst hr
  obtain ⟨G, rfl⟩ : ∃ G, F = 3 * c.lead.length + G := ⟨F - 3 * c.lead.length, by omega⟩
  obtain ⟨p1, hlead⟩ := childLoop_lead b d c.ipos (c.core (d + 1) ++ (toksF cs (d + 1) ++ fl))
    (core_ne_nil c (d + 1) _) G acc kp la w dp wd s th al c.lead [] p n
  rw [hlead, List.nil_append]
  have hfl := stopsL_ne_nil hs
  by_cases hh : c.isHdr = true
  · -- a block or a section
    have hs' := cont_head cs d fl hs
    obtain ⟨G', rfl⟩ : ∃ G', G = G' + 1 := ⟨G - 1, by omega⟩
    obtain ⟨t, R, hb, ht⟩ := hdr_head c (d + 1) hh
    have hlen1 : 1 ≤ (c.core (d + 1)).length := by rw [hb]; simp
    obtain ⟨p2, hsec⟩ := ihS G' (by omega) c (d + 1)
      { rest := c.core (d + 1) ++ (toksF cs (d + 1) ++ fl), prev := p1, pos := n + 3 * c.lead.length, last := la, warnings := w,
        depth := dp, warned := wd, strict := s, threshold := th, alpha := al } _ hh rfl hs' hc (by omega)
    obtain ⟨p3, hL⟩ := ihL G' (by omega) b cs d
      { rest := toksF cs (d + 1) ++ fl, prev := p2, pos := n + 3 * c.lead.length + (c.core (d + 1)).length, last := la,
        warnings := c.warns.reverse ++ w, depth := dp, warned := wd, strict := s, threshold := th, alpha := al }
      fl (acc ++ [c.node]) kp rfl hs hcs (by omega)
    refine ⟨p3, ?_⟩
    rw [childLoop_call_hdr b G' _ _ (Nat.lt_irrefl _) (texts c.lead) acc kp _ t (R ++ (toksF cs (d + 1) ++ fl))
      (by rw [hb]; rfl) ht p1 _ la w dp wd s th al c.node (hdr_node_key c hh) _ hsec, hL]
    simp only [nodesF, warnsF, hdr_track kp c hh, List.append_assoc, List.cons_append, List.nil_append, List.reverse_append]
    apply ok_pos_congr
    omega
  · cases c with
    | block key cs' lead q => exact absurd rfl hh
    | sect id key cs' lead q => exact absurd rfl hh
    | line key v lead trail q =>
      simp only [ANode.lead] at hF ⊢
      have hlen : ((ANode.line key v lead trail q).core (d + 1)).length = 4 + trailLen trail := by
        cases trail <;> simp [ANode.core, trailToks, trailLen]
      rw [hlen] at hF ⊢
      obtain ⟨g, rfl⟩ : ∃ g, G = g + 5 := ⟨G - 5, by omega⟩
      simp only [ANode.core, List.cons_append, List.nil_append, List.append_assoc]
      have hsec := parseSection_cline
        { rest := keyTok key q :: assignTok q :: v.tok q.l q.c3 :: (trailToks trail q ++ nlTok q :: (toksF cs (d + 1) ++ fl)),
          prev := p1, pos := n + 3 * lead.length, last := la, warnings := w, depth := dp, warned := wd, strict := s,
          threshold := th, alpha := al }
        key v (texts lead) trail q (toksF cs (d + 1) ++ fl) (g + 1) rfl
      obtain ⟨p3, hL⟩ := ihL (g + 3) (by omega) b cs d
        { rest := toksF cs (d + 1) ++ fl, prev := some (nlTok q), pos := n + 3 * lead.length + 3 + trailLen trail + 1, last := la,
          warnings := (trackPure kp key q.l).2 ++ (lineWarns key v q ++ w), depth := dp, warned := wd, strict := s,
          threshold := th, alpha := al }
        fl (acc ++ [Node.assign key v.val q.l q.c1 (texts lead) trail]) (trackPure kp key q.l).1 rfl hs hcs (by omega)
      refine ⟨p3, ?_⟩
      rw [childLoop_call_assign b (g + 4) _ _ (Nat.lt_irrefl _) (texts lead) acc kp (keyTok key q) _ rfl p1 _ la w dp wd s th al
        key v.val q.l q.c1 (texts lead) trail _ hsec]
      simp only []
      rw [childLoop_newline b (g + 3) _ _ [] _ _ (nlTok q) rfl _ (by simp [hfl]), hL]
      simp only [nodesF, ANode.node, warnsF, ANode.warns, trackA, List.append_assoc, List.cons_append, List.nil_append,
        List.reverse_append, trackPure_warns_reverse, lineWarns_reverse]
      apply ok_pos_congr
      omega


/-! ## headers -/

theorem wf_block_nil {al : Char → Bool} {key : Str} {lead : List (Str × CPos)} {q : CPos} {d : Nat}
    (h : (ANode.block key [] lead q).wf al d = true) : 2 * d ≤ q.c1 - 1 := by
  simpa [ANode.wf, wfF] using h

theorem wf_block_cons {al : Char → Bool} {key : Str} {c : ANode} {cs : List ANode} {lead : List (Str × CPos)} {q : CPos} {d : Nat}
    (h : (ANode.block key (c :: cs) lead q).wf al d = true) :
    q.c1 - 1 < 2 * (d + 1) ∧ c.wf al (d + 1) = true ∧ wfF al cs (d + 1) = true := by
  simpa [ANode.wf, wfF, and_assoc] using h

theorem wf_sect_nil {al : Char → Bool} {id : PId} {key : Str} {lead : List (Str × CPos)} {q : SPos} {d : Nat}
    (h : (ANode.sect id key [] lead q).wf al d = true) : id.letterOk al = true ∧ 2 * d ≤ q.c0 - 1 := by
  simpa [ANode.wf, wfF] using h

theorem wf_sect_cons {al : Char → Bool} {id : PId} {key : Str} {c : ANode} {cs : List ANode} {lead : List (Str × CPos)} {q : SPos} {d : Nat}
    (h : (ANode.sect id key (c :: cs) lead q).wf al d = true) :
    id.letterOk al = true ∧ q.c0 - 1 < 2 * (d + 1) ∧ c.wf al (d + 1) = true ∧ wfF al cs (d + 1) = true := by
  simpa [ANode.wf, wfF, and_assoc] using h

/-- `advance` over a token followed by the (rest of the comment lines and the) tokens of a node. -/
theorem advance_afterInd (c : ANode) (d' : Nat) (X : List Token) (t : Token) (p : Option Token) (n : Nat) (la : Token)
    (w : List Warning) (d : Nat) (wd : List Nat) (s : Bool) (th : Nat) (al : Char → Bool) :
    advance { rest := t :: (afterInd d' c.lead c.ipos ++ (c.core d' ++ X)), prev := p, pos := n, last := la, warnings := w, depth := d, warned := wd, strict := s, threshold := th, alpha := al }
      = .ok (t, { rest := afterInd d' c.lead c.ipos ++ (c.core d' ++ X), prev := some t, pos := n + 1, last := la, warnings := w, depth := d, warned := wd, strict := s, threshold := th, alpha := al }) :=
  advance_ne (h := afterInd_append_ne_nil d' c.lead c.ipos _ (core_ne_nil c d' X)) ..

/-- **a block header** called with leading comments `L`: an EMPTY block before a context that `stopsL` (the comment lines that
may follow at column 0 are looked at by `preIndentComments` and given back: `self.pos = pre_indent_pos`), or a block with
children (`ChildOK` at smaller fuel). -/
theorem hdr_block (F : Nat) (ih : ∀ F' < F, ChildOK F') (key : Str) (cs : List ANode) (lead : List (Str × CPos)) (q : CPos)
    (d : Nat) (fl : List Token) (L : List Str)
    (p : Option Token) (n : Nat) (la : Token) (w : List Warning) (dp : Nat) (wd : List Nat) (s : Bool) (th : Nat) (al : Char → Bool)
    (hs : stopsL (2 * d + 1) fl = true)
    (hc : (ANode.block key cs lead q).wf al d = true)
    (hF : ((ANode.block key cs lead q).core d).length ≤ F) :
    ∃ p' : Option Token,
    parseSection F L ({ rest := (ANode.block key cs lead q).core d ++ fl, prev := p, pos := n, last := la, warnings := w, depth := dp, warned := wd, strict := s, threshold := th, alpha := al } : PState)
      = .ok (some (.block key (nodesF cs) q.l q.c1 L none),
         { rest := fl, prev := p', pos := n + ((ANode.block key cs lead q).core d).length, last := la,
           warnings := (warnsF cs []).reverse ++ w, depth := dp, warned := wd, strict := s, threshold := th, alpha := al }) := by
  cases cs with
  | nil =>
    have hc := wf_block_nil hc
    simp only [ANode.core, toksF, List.cons_append, List.nil_append, List.length_cons, List.length_nil] at hF ⊢
    obtain ⟨F', rfl⟩ : ∃ F', F = F' + 1 := ⟨F - 1, by omega⟩
    obtain ⟨e, r, rfl⟩ : ∃ e r, fl = e :: r := by
      cases fl with
      | nil => exact absurd rfl (stopsL_ne_nil hs)
      | cons e r => exact ⟨e, r, rfl⟩
    obtain ⟨acc', c0, k', p', n', hpre, hfc, hic⟩ := preIndentComments_stopsL (2 * d + 1) la w dp wd s th al (e :: r)
      ((e :: r).length + 2) (some (nlTok q)) (n + 1 + 1 + 1) hs (by omega)
    simp only [stopsL, Bool.and_eq_true, Bool.or_eq_true, bne_iff_ne, ne_eq, decide_eq_true_eq] at hs
    obtain ⟨⟨⟨h1, h3⟩, h4⟩, h2⟩ := hs
    refine ⟨some (nlTok q), ?_⟩
    rw [parseSection]
    step_simp [keyTok, blockTok, nlTok, pyStrVal_str]
    rw [skipWhitespace_false_nl (h := rfl) (h1 := h1)]
    step_simp []
    simp only [nlTok, List.length_cons] at hpre
    rw [hpre]
    step_simp []
    have hfin : n + 1 + 1 + 1 = n + (0 + 1 + 1 + 1) := by omega
    by_cases hi : c0.type = TT.indent
    · have h5 := hic hi
      cases hv : c0.value with
      | nat m =>
        simp only [indentVal, hv] at h5
        have h6 : ¬ (m > q.c1 - 1) := by omega
        step_simp [hi, hfc, h3, h6, set_mk, decide_false, eq_self, Option.isSome_none]
        simp only [nodesF, warnsF, List.reverse_nil, List.nil_append, hfin]
      | _ =>
        step_simp [hi, hfc, h3, set_mk, decide_false, eq_self, Option.isSome_none, gt_iff_lt, Nat.not_lt_zero]
        simp only [nodesF, warnsF, List.reverse_nil, List.nil_append, hfin]
    · have hib : (c0.type == TT.indent) = false := by simp [hi]
      step_simp [hi, hib, hfc, h3, set_mk, decide_false, eq_self, Option.isSome_none]
      simp only [nodesF, warnsF, List.reverse_nil, List.nil_append, hfin]
  | cons c cs =>
    obtain ⟨hc1, hc2, hc3⟩ := wf_block_cons hc
    simp only [ANode.core, List.cons_append, List.length_cons, toksF_cons_succ, toksF_cons_succ_length] at hF ⊢
    obtain ⟨F', rfl⟩ : ∃ F', F = F' + 1 := ⟨F - 1, by omega⟩
    obtain ⟨p', hch⟩ := ih F' (Nat.lt_succ_self _) false c cs d
      { rest := afterInd (d + 1) c.lead c.ipos ++ (c.core (d + 1) ++ (toksF cs (d + 1) ++ fl)),
        prev := some (indT (d + 1) (firstInd c.lead c.ipos)), pos := n + 1 + 1 + 1 + 1, last := la, warnings := w, depth := dp,
        warned := wd, strict := s, threshold := th, alpha := al }
      fl [] [] rfl (stopsL_mono (by omega) hs) hc2 hc3 (by omega)
    rw [childLoop_false] at hch
    simp only [indT] at hch
    refine ⟨p', ?_⟩
    rw [parseSection]
    step_simp [keyTok, blockTok, nlTok, pyStrVal_str]
    rw [skipWhitespace_newline (h := rfl) (h1 := by simp [indT]) (h2 := by simp [indT])]
    step_simp []
    rw [preIndentComments_stop (h1 := by simp [indT]) (h2 := by simp [indT])]
    have h6 : 2 * (d + 1) > q.c1 - 1 := hc1
    step_simp [indT, h6, decide_true, Option.isSome_none, advance_afterInd]
    rw [hch]
    simp only [List.nil_append]
    apply ok_pos_congr
    omega


/-- a section's leading comments: `parse_section` hands the comments collected above the marker to the Section node
(`withLeading`); with no comment the node is left as `parse_section_marker` built it. -/
theorem sect_withLeading (id k : Str) (a : Option Str) (ch : List Node) (l c : Nat) (L : List Str) :
    (if L.isEmpty = true then Node.sect id k a ch l c [] else withLeading (Node.sect id k a ch l c []) L) = Node.sect id k a ch l c L := by
  cases L <;> rfl

/-- the header line of a section up to (not including) the NEWLINE. -/
local macro "sect_hdr" "[" ts:Lean.Parser.Tactic.simpLemma,* "]" : tactic =>
  `(tactic| (rw [parseSection]; step_simp [secTok]; rw [parseSectionMarker];
             step_simp [expect, idNumTok, idNameTok, idLetterTok, secAssignTok, secNameTok, hdrNlTok, pyStrVal_str, pyStrVal_int, $ts,*];
             rw [consumeBracketAnnotation_none (h := by simp)]; step_simp []))

set_option hygiene false in
/-- a section without children before a context that `stopsL`: the comment lines that may follow at column 0 are looked at
by `preIndentComments` and given back to the enclosing level (`self.pos = pre_indent_pos`). -/
local macro "sect_nil_tail" : tactic =>
  `(tactic| (
    rw [skipWhitespace_false_nl (h := rfl) (h1 := h1)]
    step_simp []
    rw [hpre]
    step_simp []
    by_cases hi : c0.type = TT.indent
    · have h5 := hic hi
      cases hv : c0.value with
      | nat m =>
        simp only [indentVal, hv] at h5
        have h6 : ¬ (m > q.c0 - 1) := by omega
        step_simp [hi, h6, set_mk, sect_withLeading]
        simp only [nodesF, warnsF, List.reverse_nil, List.nil_append, PId.str]
      | _ =>
        step_simp [hi, set_mk, gt_iff_lt, Nat.not_lt_zero, sect_withLeading]
        simp only [nodesF, warnsF, List.reverse_nil, List.nil_append, PId.str]
    · step_simp [hi, set_mk, sect_withLeading]
      simp only [nodesF, warnsF, List.reverse_nil, List.nil_append, PId.str]))

/-- **a section header without children**, called with leading comments `L`. -/
theorem hdr_sect_nil (F : Nat) (id : PId) (key : Str) (lead : List (Str × CPos)) (q : SPos) (d : Nat) (fl : List Token) (L : List Str)
    (p : Option Token) (n : Nat) (la : Token) (w : List Warning) (dp : Nat) (wd : List Nat) (s : Bool) (th : Nat) (al : Char → Bool)
    (hs : stopsL (2 * d + 1) fl = true)
    (hc : (ANode.sect id key [] lead q).wf al d = true)
    (hF : ((ANode.sect id key [] lead q).core d).length ≤ F) :
    ∃ p' : Option Token,
    parseSection F L ({ rest := (ANode.sect id key [] lead q).core d ++ fl, prev := p, pos := n, last := la, warnings := w, depth := dp, warned := wd, strict := s, threshold := th, alpha := al } : PState)
      = .ok (some (.sect id.str key none [] q.l q.c0 L),
         { rest := fl, prev := p', pos := n + ((ANode.sect id key [] lead q).core d).length, last := la,
           warnings := w, depth := dp, warned := wd, strict := s, threshold := th, alpha := al }) := by
  obtain ⟨hlet, hcol⟩ := wf_sect_nil hc
  obtain ⟨e, r, rfl⟩ : ∃ e r, fl = e :: r := by
    cases fl with
    | nil => exact absurd rfl (stopsL_ne_nil hs)
    | cons e r => exact ⟨e, r, rfl⟩
  have hs0 := hs
  simp only [stopsL, Bool.and_eq_true, Bool.or_eq_true, bne_iff_ne, ne_eq, decide_eq_true_eq] at hs0
  obtain ⟨⟨⟨h1, h3⟩, h4⟩, h2⟩ := hs0
  refine ⟨some (hdrNlTok q), ?_⟩
  cases id with
  | num i0 raw =>
    simp only [ANode.core, PId.toks, toksF, List.cons_append, List.nil_append, List.length_cons, List.length_nil] at hF ⊢
    obtain ⟨F', rfl⟩ : ∃ F', F = F' + 2 := ⟨F - 2, by omega⟩
    obtain ⟨acc', c0, k', p', n', hpre, hfc, hic⟩ := preIndentComments_stopsL (2 * d + 1) la w dp wd s th al (e :: r)
      ((e :: r).length + 2) (some (hdrNlTok q)) (n + 1 + 1 + 1 + 1 + 1) hs (by omega)
    simp only [hdrNlTok, List.length_cons] at hpre
    sect_hdr []
    sect_nil_tail
  | name s0 =>
    simp only [ANode.core, PId.toks, toksF, List.cons_append, List.nil_append, List.length_cons, List.length_nil] at hF ⊢
    obtain ⟨F', rfl⟩ : ∃ F', F = F' + 2 := ⟨F - 2, by omega⟩
    obtain ⟨acc', c0, k', p', n', hpre, hfc, hic⟩ := preIndentComments_stopsL (2 * d + 1) la w dp wd s th al (e :: r)
      ((e :: r).length + 2) (some (hdrNlTok q)) (n + 1 + 1 + 1 + 1 + 1) hs (by omega)
    simp only [hdrNlTok, List.length_cons] at hpre
    sect_hdr []
    sect_nil_tail
  | numLetter i0 raw ch =>
    simp only [PId.letterOk] at hlet
    simp only [ANode.core, PId.toks, toksF, List.cons_append, List.nil_append, List.length_cons, List.length_nil] at hF ⊢
    obtain ⟨F', rfl⟩ : ∃ F', F = F' + 2 := ⟨F - 2, by omega⟩
    obtain ⟨acc', c0, k', p', n', hpre, hfc, hic⟩ := preIndentComments_stopsL (2 * d + 1) la w dp wd s th al (e :: r)
      ((e :: r).length + 2) (some (hdrNlTok q)) (n + 1 + 1 + 1 + 1 + 1 + 1) hs (by omega)
    simp only [hdrNlTok, List.length_cons] at hpre
    sect_hdr [hlet]
    sect_nil_tail


set_option hygiene false in
/-- a section with children: the first INDENT after the header is deeper than the marker; the section loop does the rest. -/
local macro "sect_cons_tail" : tactic =>
  `(tactic| (
    rw [skipWhitespace_newline (h := rfl) (h1 := by simp [indT]) (h2 := by simp [indT])]
    step_simp []
    rw [preIndentComments_stop (h1 := by simp [indT]) (h2 := by simp [indT])]
    have h6 : 2 * (d + 1) > q.c0 - 1 := hcol
    step_simp [indT, h6, advance_afterInd]
    rw [hch]
    step_simp [sect_withLeading]
    simp only [List.nil_append, PId.str]
    apply ok_pos_congr
    omega))

/-- **a section header with children**, called with leading comments `L`. -/
theorem hdr_sect_cons (F : Nat) (ih : ∀ F' < F, ChildOK F') (id : PId) (key : Str) (c : ANode) (cs : List ANode)
    (lead : List (Str × CPos)) (q : SPos) (d : Nat) (fl : List Token) (L : List Str)
    (p : Option Token) (n : Nat) (la : Token) (w : List Warning) (dp : Nat) (wd : List Nat) (s : Bool) (th : Nat) (al : Char → Bool)
    (hs : stopsL (2 * d + 1) fl = true)
    (hc : (ANode.sect id key (c :: cs) lead q).wf al d = true)
    (hF : ((ANode.sect id key (c :: cs) lead q).core d).length ≤ F) :
    ∃ p' : Option Token,
    parseSection F L ({ rest := (ANode.sect id key (c :: cs) lead q).core d ++ fl, prev := p, pos := n, last := la, warnings := w, depth := dp, warned := wd, strict := s, threshold := th, alpha := al } : PState)
      = .ok (some (.sect id.str key none (nodesF (c :: cs)) q.l q.c0 L),
         { rest := fl, prev := p', pos := n + ((ANode.sect id key (c :: cs) lead q).core d).length, last := la,
           warnings := (warnsF (c :: cs) []).reverse ++ w, depth := dp, warned := wd, strict := s, threshold := th, alpha := al }) := by
  obtain ⟨hlet, hcol, hc2, hc3⟩ := wf_sect_cons hc
  cases id with
  | num i0 raw =>
    simp only [ANode.core, PId.toks, List.cons_append, List.nil_append, List.length_cons, toksF_cons_succ,
      toksF_cons_succ_length] at hF ⊢
    obtain ⟨F', rfl⟩ : ∃ F', F = F' + 2 := ⟨F - 2, by omega⟩
    obtain ⟨p', hch⟩ := ih F' (by omega) true c cs d
      { rest := afterInd (d + 1) c.lead c.ipos ++ (c.core (d + 1) ++ (toksF cs (d + 1) ++ fl)),
        prev := some (indT (d + 1) (firstInd c.lead c.ipos)), pos := n + 1 + 1 + 1 + 1 + 1 + 1, last := la, warnings := w, depth := dp,
        warned := wd, strict := s, threshold := th, alpha := al }
      fl [] [] rfl (stopsL_mono (by omega) hs) hc2 hc3 (by omega)
    rw [childLoop_true] at hch
    simp only [indT] at hch
    refine ⟨p', ?_⟩
    sect_hdr []
    sect_cons_tail
  | name s0 =>
    simp only [ANode.core, PId.toks, List.cons_append, List.nil_append, List.length_cons, toksF_cons_succ,
      toksF_cons_succ_length] at hF ⊢
    obtain ⟨F', rfl⟩ : ∃ F', F = F' + 2 := ⟨F - 2, by omega⟩
    obtain ⟨p', hch⟩ := ih F' (by omega) true c cs d
      { rest := afterInd (d + 1) c.lead c.ipos ++ (c.core (d + 1) ++ (toksF cs (d + 1) ++ fl)),
        prev := some (indT (d + 1) (firstInd c.lead c.ipos)), pos := n + 1 + 1 + 1 + 1 + 1 + 1, last := la, warnings := w, depth := dp,
        warned := wd, strict := s, threshold := th, alpha := al }
      fl [] [] rfl (stopsL_mono (by omega) hs) hc2 hc3 (by omega)
    rw [childLoop_true] at hch
    simp only [indT] at hch
    refine ⟨p', ?_⟩
    sect_hdr []
    sect_cons_tail
  | numLetter i0 raw ch =>
    simp only [PId.letterOk] at hlet
    simp only [ANode.core, PId.toks, List.cons_append, List.nil_append, List.length_cons, toksF_cons_succ,
      toksF_cons_succ_length] at hF ⊢
    obtain ⟨F', rfl⟩ : ∃ F', F = F' + 2 := ⟨F - 2, by omega⟩
    obtain ⟨p', hch⟩ := ih F' (by omega) true c cs d
      { rest := afterInd (d + 1) c.lead c.ipos ++ (c.core (d + 1) ++ (toksF cs (d + 1) ++ fl)),
        prev := some (indT (d + 1) (firstInd c.lead c.ipos)), pos := n + 1 + 1 + 1 + 1 + 1 + 1 + 1, last := la, warnings := w, depth := dp,
        warned := wd, strict := s, threshold := th, alpha := al }
      fl [] [] rfl (stopsL_mono (by omega) hs) hc2 hc3 (by omega)
    rw [childLoop_true] at hch
    simp only [indT] at hch
    refine ⟨p', ?_⟩
    sect_hdr [hlet]
    sect_cons_tail

theorem hdr_of (F : Nat) (ih : ∀ F' < F, ChildOK F') : HdrOK F := by
  intro c d st fl hh hr hs hc hF
  obtain ⟨rest, p, n, la, w, dp, wd, s, th, al⟩ := st
  simp only at hr hc
  subst hr
  cases c with
  | line key v lead trail q => cases hh
  | block key cs lead q => exact hdr_block F ih key cs lead q d fl (texts lead) p n la w dp wd s th al hs hc hF
  | sect id key cs lead q =>
    cases cs with
    | nil => exact hdr_sect_nil F id key lead q d fl (texts lead) p n la w dp wd s th al hs hc hF
    | cons c cs => exact hdr_sect_cons F ih id key c cs lead q d fl (texts lead) p n la w dp wd s th al hs hc hF

/-- all three statements hold for every fuel (strong induction on the fuel; the fuel bounds inside the statements make every
recursive call land on a smaller fuel that is still large enough). -/
theorem all_ok (F : Nat) : HdrOK F ∧ ChildOK F ∧ LoopOK F := by
  induction F using Nat.strongRecOn with
  | _ F ih =>
    have hC : ∀ F' < F, ChildOK F' := fun F' h => (ih F' h).2.1
    exact ⟨hdr_of F hC, child_of F (fun F' h => (ih F' h).1) (fun F' h => (ih F' h).2.2), loop_of F hC⟩

/-- **`parse_section` on a block or a section with comments** (any depth `d`, any children, any comments below it), called
with the node's own leading comments, followed by a context `fl` that `stopsL` the node's depth, with fuel at least the number
of the node's tokens: the Block / Section node with exactly the children, every comment at its node (a Section receives its
leading comments too); cursor at `fl`; only warnings added. -/
theorem parseSection_hdr (c : ANode) (d : Nat) (st : PState) (fl : List Token) (F : Nat)
    (hh : c.isHdr = true) (hr : st.rest = c.core d ++ fl) (hs : stopsL (2 * d + 1) fl = true)
    (hc : c.wf st.alpha d = true) (hF : (c.core d).length ≤ F) :
    ∃ p' : Option Token, parseSection F (texts c.lead) st = .ok (some c.node,
      { st with rest := fl, prev := p', pos := st.pos + (c.core d).length, warnings := c.warns.reverse ++ st.warnings }) :=
  (all_ok F).1 c d st fl hh hr hs hc hF

/-- **the child loop of a section (`b = true`) or of a block (`b = false`)** from the start of a line, on any forest of
children (with comments) at depth `d + 1`. -/
theorem childLoop_forest (b : Bool) (cs : List ANode) (d : Nat) (st : PState) (fl : List Token) (acc : List Node) (kp : KeyPos) (F : Nat)
    (hr : st.rest = toksF cs (d + 1) ++ fl) (hs : stopsL (2 * (d + 1)) fl = true)
    (hc : wfF st.alpha cs (d + 1) = true) (hF : (toksF cs (d + 1)).length + 1 ≤ F) :
    ∃ p' : Option Token, childLoop b F (2 * (d + 1)) 0 [] acc kp st = .ok (acc ++ nodesF cs,
      { st with rest := fl, prev := p', pos := st.pos + (toksF cs (d + 1)).length,
                warnings := (warnsF cs kp).reverse ++ st.warnings }) :=
  (all_ok F).2.2 b cs d st fl acc kp hr hs hc hF


/-! ## The body loop of `parseDocument`: comments at depth 0 -/

theorem docLoop_newline (vf F : Nat) (pd : List Str) (acc : List Node) (kp : KeyPos)
    (t : Token) (ht : t.type = TT.newline) (R : List Token) (hR : R ≠ [])
    (p : Option Token) (n : Nat) (la : Token) (w : List Warning) (d : Nat) (wd : List Nat) (s : Bool) (th : Nat) (al : Char → Bool) :
    docLoop vf (F + 1) pd acc kp
        { rest := t :: R, prev := p, pos := n, last := la, warnings := w, depth := d, warned := wd, strict := s, threshold := th, alpha := al }
      = docLoop vf F pd acc kp
        { rest := R, prev := some t, pos := n + 1, last := la, warnings := w, depth := d, warned := wd, strict := s, threshold := th, alpha := al } := by
  rw [docLoop]
  step_simp [ht]
  rw [advance_ne (h := hR)]

theorem docLoop_call_hdr (vf F : Nat) (pd : List Str) (acc : List Node) (kp : KeyPos)
    (X : List Token) (t : Token) (R : List Token) (hX : X = t :: R) (ht : t.type = TT.identifier ∨ t.type = TT.section)
    (p : Option Token) (n : Nat) (la : Token) (w : List Warning) (d : Nat) (wd : List Nat) (s : Bool) (th : Nat) (al : Char → Bool)
    (child : Node) (hk : nodeAssignKey? child = none) (st' : PState)
    (hsec : parseSection vf pd { rest := X, prev := p, pos := n, last := la, warnings := w, depth := d, warned := wd, strict := s, threshold := th, alpha := al }
      = .ok (some child, st')) :
    docLoop vf (F + 1) pd acc kp
        { rest := X, prev := p, pos := n, last := la, warnings := w, depth := d, warned := wd, strict := s, threshold := th, alpha := al }
      = docLoop vf F [] (acc ++ [child]) kp st' := by
  subst hX
  have h1 : t.type ≠ TT.eof := by rcases ht with h | h <;> rw [h] <;> decide
  have h2 : t.type ≠ TT.envelopeEnd := by rcases ht with h | h <;> rw [h] <;> decide
  have h3 : t.type ≠ TT.indent := by rcases ht with h | h <;> rw [h] <;> decide
  have h4 : t.type ≠ TT.comment := by rcases ht with h | h <;> rw [h] <;> decide
  have h5 : t.type ≠ TT.newline := by rcases ht with h | h <;> rw [h] <;> decide
  rw [docLoop]
  step_simp [h1, h2, h3, h4, h5]
  rw [hsec]
  step_simp [hk]

theorem docLoop_call_assign (vf F : Nat) (pd : List Str) (acc : List Node) (kp : KeyPos)
    (t : Token) (R : List Token) (ht : t.type = TT.identifier)
    (p : Option Token) (n : Nat) (la : Token) (w : List Warning) (d : Nat) (wd : List Nat) (s : Bool) (th : Nat) (al : Char → Bool)
    (key : Str) (v : Value) (l c : Nat) (ld : List Str) (tr : Option Str) (st' : PState)
    (hsec : parseSection vf pd { rest := t :: R, prev := p, pos := n, last := la, warnings := w, depth := d, warned := wd, strict := s, threshold := th, alpha := al }
      = .ok (some (.assign key v l c ld tr), st')) :
    docLoop vf (F + 1) pd acc kp
        { rest := t :: R, prev := p, pos := n, last := la, warnings := w, depth := d, warned := wd, strict := s, threshold := th, alpha := al }
      = docLoop vf F [] (acc ++ [.assign key v l c ld tr]) (trackPure kp key l).1
          { st' with warnings := (trackPure kp key l).2 ++ st'.warnings } := by
  rw [docLoop]
  step_simp [ht]
  rw [hsec]
  step_simp [nodeAssignKey?, trackKey_eq]

theorem leadT0_length : ∀ (lead : List (Str × CPos)), (leadT 0 lead).length = 2 * lead.length
  | [] => rfl
  | (_, _) :: r => by simp only [leadT, indTs, List.nil_append, List.length_cons, leadT0_length r]; omega

theorem leadT0_append_ne_nil (lead : List (Str × CPos)) (X : List Token) (hX : X ≠ []) : leadT 0 lead ++ X ≠ [] := by
  cases lead with
  | nil => exact hX
  | cons sq r => obtain ⟨s, q⟩ := sq; simp [leadT, indTs]

/-- the body loop on unindented comment lines: the texts are appended to `pending`, in order. -/
theorem docLoop_lead (vf : Nat) (X : List Token) (hX : X ≠ []) (G : Nat) (acc : List Node) (kp : KeyPos)
    (la : Token) (w : List Warning) (dp : Nat) (wd : List Nat) (s : Bool) (th : Nat) (al : Char → Bool) :
    ∀ (lead : List (Str × CPos)) (pd : List Str) (p : Option Token) (n : Nat), ∃ p' : Option Token,
    docLoop vf (2 * lead.length + G) pd acc kp
        { rest := leadT 0 lead ++ X, prev := p, pos := n, last := la, warnings := w, depth := dp, warned := wd, strict := s, threshold := th, alpha := al }
      = docLoop vf G (pd ++ texts lead) acc kp
        { rest := X, prev := p', pos := n + 2 * lead.length, last := la, warnings := w, depth := dp, warned := wd, strict := s, threshold := th, alpha := al }
  | [], pd, p, n => ⟨p, by simp only [leadT, texts, List.map_nil, List.length_nil, Nat.mul_zero, Nat.zero_add, Nat.add_zero, List.nil_append, List.append_nil]⟩
  | (c, q) :: r, pd, p, n => by
    obtain ⟨p', ih⟩ := docLoop_lead vf X hX G acc kp la w dp wd s th al r (pd ++ [c]) (some (nlTok q)) (n + 1 + 1)
    refine ⟨p', ?_⟩
    have hf : 2 * ((c, q) :: r).length + G = (2 * r.length + G) + 1 + 1 := by simp only [List.length_cons]; omega
    have hp : n + 1 + 1 + 2 * r.length = n + 2 * ((c, q) :: r).length := by simp only [List.length_cons]; omega
    rw [hf]
    simp only [leadT, indTs, List.nil_append, List.cons_append]
    rw [docLoop]
    step_simp [cmtTok, pyStrVal_str]
    rw [docLoop_newline (ht := rfl) (hR := leadT0_append_ne_nil r X hX), ih, hp]
    simp only [texts, List.map_cons, List.append_assoc, List.singleton_append, List.length_cons]

theorem cmtRun_lead0 (x : Token) (X : List Token)
    (h1 : x.type ≠ TT.comment) (h2 : x.type ≠ TT.newline) (h3 : x.type ≠ TT.indent) (h4 : x.type ≠ TT.fenceOpen) :
    ∀ (lead : List (Str × CPos)), cmtRun (leadT 0 lead ++ x :: X) = true
  | [] => by simp [leadT, cmtRun, h1, h2, h3, h4]
  | (s, q) :: r => by
    have := cmtRun_lead0 x X h1 h2 h3 h4 r
    simp only [leadT, indTs, List.nil_append, List.cons_append]
    rw [cmtRun]
    simp only [cmtTok, beq_self_eq_true, Bool.true_or, if_true]
    rw [cmtRun]
    simp only [nlTok, beq_self_eq_true, Bool.or_true, if_true]
    exact this

/-- unindented comment lines followed by the first token of an unindented line: `stopsL` every (positive) indentation. -/
theorem stopsL_lead0 (ci : Nat) (hci : 0 < ci) (x : Token) (X : List Token)
    (h1 : x.type ≠ TT.comment) (h2 : x.type ≠ TT.newline) (h3 : x.type ≠ TT.indent) (h4 : x.type ≠ TT.fenceOpen)
    (lead : List (Str × CPos)) : stopsL ci (leadT 0 lead ++ x :: X) = true := by
  cases lead with
  | nil => simp [leadT, stopsL, h1, h2, h3, h4]
  | cons sq r =>
    obtain ⟨s, q⟩ := sq
    have := cmtRun_lead0 x X h1 h2 h3 h4 r
    simp only [leadT, indTs, List.nil_append, List.cons_append]
    apply stopsL_cmt ci hci _ _ rfl
    rw [cmtRun]
    simp only [nlTok, beq_self_eq_true, Bool.or_true, if_true]
    exact this

/-- an unindented forest with a first node, regrouped. -/
theorem toksF_cons_zero (c : ANode) (cs : List ANode) (fl : List Token) :
    toksF (c :: cs) 0 ++ fl = leadT 0 c.lead ++ (c.core 0 ++ (toksF cs 0 ++ fl)) := by
  rw [toksF]
  simp only [indTs, List.nil_append, List.append_assoc]

theorem toksF_cons_zero_length (c : ANode) (cs : List ANode) :
    (toksF (c :: cs) 0).length = 2 * c.lead.length + (c.core 0).length + (toksF cs 0).length := by
  have h := congrArg List.length (toksF_cons_zero c cs [])
  simp only [List.append_nil, List.length_append, leadT0_length] at h
  omega

/-- the core of a node starts with its key (an IDENTIFIER) or its marker (a SECTION token). -/
theorem core_head (c : ANode) (d : Nat) (X : List Token) :
    ∃ t K, c.core d ++ X = t :: K ∧ (t.type = TT.identifier ∨ t.type = TT.section) := by
  cases c with
  | line key v lead trail p => exact ⟨_, _, rfl, Or.inl rfl⟩
  | block key cs lead p => exact ⟨_, _, rfl, Or.inl rfl⟩
  | sect id key cs lead p => exact ⟨_, _, rfl, Or.inr rfl⟩

/-- what follows a top-level node (the next top-level node with its comment lines, or the document's trailing comment lines
and `===END===` / EOF) `stopsL` every indentation. -/
theorem cont_head0 (ci : Nat) (hci : 0 < ci) (cs : List ANode) (trailing : List (Str × CPos)) (e : Token) (tail : List Token)
    (he : e.type = .envelopeEnd ∨ e.type = .eof) :
    stopsL ci (toksF cs 0 ++ (leadT 0 trailing ++ e :: tail)) = true := by
  cases cs with
  | nil =>
    simp only [toksF, List.nil_append]
    apply stopsL_lead0 (hci := hci) <;> rcases he with h | h <;> simp [h]
  | cons c cs =>
    rw [toksF_cons_zero]
    obtain ⟨t, K, hK, ht⟩ := core_head c 0 (toksF cs 0 ++ (leadT 0 trailing ++ e :: tail))
    rw [hK]
    apply stopsL_lead0 (hci := hci) <;> rcases ht with h | h <;> simp [h]

/-- **the body loop of `parse_document`** on a forest of lines, blocks and sections with comments, followed by the document's
trailing comment lines and `===END===` (or EOF): the nodes, every comment at its node, and the trailing comments returned as
`pending`. -/
theorem docLoop_d (vf : Nat) (trailing : List (Str × CPos)) (e : Token) (tail : List Token)
    (he : e.type = .envelopeEnd ∨ e.type = .eof) :
    ∀ (nodes : List ANode) (st : PState) (acc : List Node) (kp : KeyPos) (fuel : Nat),
    st.rest = toksF nodes 0 ++ (leadT 0 trailing ++ e :: tail) →
    wfF st.alpha nodes 0 = true →
    (toksF nodes 0).length + 3 ≤ vf →
    (toksF nodes 0).length + 2 * trailing.length + 1 ≤ fuel →
    ∃ p' : Option Token, docLoop vf fuel [] acc kp st
      = .ok ((acc ++ nodesF nodes, texts trailing),
             { st with rest := e :: tail, prev := p',
                       pos := st.pos + ((toksF nodes 0).length + 2 * trailing.length),
                       warnings := (warnsF nodes kp).reverse ++ st.warnings })
  | [], st, acc, kp, fuel, hr, _, _, hfuel => by
    obtain ⟨rest, p, n, la, w, dp, wd, s, th, al⟩ := st
    simp only [toksF, List.nil_append] at hr
    subst hr
    simp only [toksF, List.length_nil, Nat.zero_add] at hfuel ⊢
    obtain ⟨G, rfl⟩ : ∃ G, fuel = 2 * trailing.length + (G + 1) := ⟨fuel - 2 * trailing.length - 1, by omega⟩
    obtain ⟨p', h⟩ := docLoop_lead vf (e :: tail) (by simp) (G + 1) acc kp la w dp wd s th al trailing [] p n
    refine ⟨p', ?_⟩
    rw [h, docLoop]
    step_simp [he]
    simp only [nodesF, List.append_nil, List.nil_append, warnsF, List.reverse_nil]
  | c :: r, st, acc, kp, fuel, hr, hc, hvf, hfuel => by
    obtain ⟨rest, p, n, la, w, dp, wd, s, th, al⟩ := st
    simp only at hr hc
    subst hr
    simp only [wfF, Bool.and_eq_true] at hc
    rw [toksF_cons_zero_length] at hvf hfuel
    obtain ⟨G, rfl⟩ : ∃ G, fuel = 2 * c.lead.length + (G + 1) := ⟨fuel - 2 * c.lead.length - 1, by omega⟩
    obtain ⟨p1, hl⟩ := docLoop_lead vf (c.core 0 ++ (toksF r 0 ++ (leadT 0 trailing ++ e :: tail)))
      (core_ne_nil c 0 _) (G + 1) acc kp la w dp wd s th al c.lead [] p n
    rw [toksF_cons_zero, hl, List.nil_append]
    have hfl : toksF r 0 ++ (leadT 0 trailing ++ e :: tail) ≠ [] := by simp
    by_cases hh : c.isHdr = true
    · have hs' := cont_head0 1 (by omega) r trailing e tail he
      obtain ⟨t, R, hb, ht⟩ := hdr_head c 0 hh
      have hlen1 : 1 ≤ (c.core 0).length := by rw [hb]; simp
      obtain ⟨p2, hsec⟩ := parseSection_hdr c 0
        { rest := c.core 0 ++ (toksF r 0 ++ (leadT 0 trailing ++ e :: tail)), prev := p1, pos := n + 2 * c.lead.length, last := la,
          warnings := w, depth := dp, warned := wd, strict := s, threshold := th, alpha := al } _ vf hh rfl hs' hc.1 (by omega)
      obtain ⟨p3, ih⟩ := docLoop_d vf trailing e tail he r
        { rest := toksF r 0 ++ (leadT 0 trailing ++ e :: tail), prev := p2, pos := n + 2 * c.lead.length + (c.core 0).length, last := la,
          warnings := c.warns.reverse ++ w, depth := dp, warned := wd, strict := s, threshold := th, alpha := al }
        (acc ++ [c.node]) kp G rfl hc.2 (by omega) (by omega)
      refine ⟨p3, ?_⟩
      rw [docLoop_call_hdr vf G (texts c.lead) acc kp _ t (R ++ (toksF r 0 ++ (leadT 0 trailing ++ e :: tail)))
        (by rw [hb]; rfl) ht p1 _ la w dp wd s th al c.node (hdr_node_key c hh) _ hsec, ih]
      simp only [nodesF, warnsF, hdr_track kp c hh, toksF_cons_zero_length, List.append_assoc, List.cons_append, List.nil_append,
        List.reverse_append]
      apply ok_pos_congr
      omega
    · cases c with
      | block key cs' lead q => exact absurd rfl hh
      | sect id key cs' lead q => exact absurd rfl hh
      | line key v lead trail q =>
        simp only [ANode.lead] at hvf hfuel ⊢
        have hlen : ((ANode.line key v lead trail q).core 0).length = 4 + trailLen trail := by
          cases trail <;> simp [ANode.core, trailToks, trailLen]
        rw [hlen] at hvf hfuel
        obtain ⟨vf0, rfl⟩ : ∃ vf0, vf = vf0 + 3 := ⟨vf - 3, by omega⟩
        obtain ⟨G', rfl⟩ : ∃ G', G = G' + 1 := ⟨G - 1, by omega⟩
        simp only [ANode.core, List.cons_append, List.nil_append, List.append_assoc]
        have hsec := parseSection_cline
          { rest := keyTok key q :: assignTok q :: v.tok q.l q.c3 :: (trailToks trail q ++ nlTok q ::
              (toksF r 0 ++ (leadT 0 trailing ++ e :: tail))),
            prev := p1, pos := n + 2 * lead.length, last := la, warnings := w, depth := dp, warned := wd, strict := s,
            threshold := th, alpha := al }
          key v (texts lead) trail q _ vf0 rfl
        obtain ⟨p3, ih⟩ := docLoop_d (vf0 + 3) trailing e tail he r
          { rest := toksF r 0 ++ (leadT 0 trailing ++ e :: tail), prev := some (nlTok q),
            pos := n + 2 * lead.length + 3 + trailLen trail + 1, last := la,
            warnings := (trackPure kp key q.l).2 ++ (lineWarns key v q ++ w), depth := dp, warned := wd, strict := s,
            threshold := th, alpha := al }
          (acc ++ [Node.assign key v.val q.l q.c1 (texts lead) trail]) (trackPure kp key q.l).1 G' rfl hc.2 (by omega) (by omega)
        refine ⟨p3, ?_⟩
        rw [docLoop_call_assign (vf0 + 3) (G' + 1) (texts lead) acc kp (keyTok key q) _ rfl p1 _ la w dp wd s th al
          key v.val q.l q.c1 (texts lead) trail _ hsec]
        simp only []
        rw [docLoop_newline (ht := rfl) (hR := hfl), ih]
        simp only [nodesF, ANode.node, ANode.lead, warnsF, ANode.warns, trackA, toksF_cons_zero_length, hlen, List.append_assoc,
          List.cons_append, List.nil_append, List.reverse_append, trackPure_warns_reverse, lineWarns_reverse]
        apply ok_pos_congr
        omega


/-! ## `parseDocument` on a whole unified document -/

/-- the tokens of the META block (in the vocabulary of `MetaParse`: `mpos 0` positions the header `META:`, `mpos (1 + j)` the
`j`-th field line): nothing without fields (an empty `meta` is never written), else `IDENTIFIER(META) BLOCK NEWLINE` and one
`INDENT(2) IDENTIFIER ASSIGN scalar NEWLINE` per field. -/
def metaPart (mpos : Nat → LPos) : List (Str × Scalar) → List Token
  | [] => []
  | f :: fs => BlockParse.hdrKeyTok "META".toList (mpos 0) :: BlockParse.hdrBlockTok (mpos 0) :: BlockParse.hdrNlTok (mpos 0) ::
      BlockParse.toksList mpos (MetaParse.fieldNodes (f :: fs)) 1 1

theorem metaPart_length (mpos : Nat → LPos) (fields : List (Str × Scalar)) :
    (metaPart mpos fields).length = if fields.isEmpty then 0 else 3 + 5 * fields.length := by
  cases fields with
  | nil => rfl
  | cons f fs =>
    simp only [metaPart, List.length_cons, MetaParse.fieldToks_length, List.isEmpty_cons, Bool.false_eq_true, if_false]
    omega

/-- the token list of a unified document: envelope line, the META block (if any field), the forest at depth 0 with all its
comment lines, the document's trailing comment lines, `===END===`. -/
def dToks (f : Frame) (name : Str) (mpos : Nat → LPos) (fields : List (Str × Scalar)) (nodes : List ANode)
    (trailing : List (Str × CPos)) : List Token :=
  f.envTok name :: f.nl0Tok :: (metaPart mpos fields ++ (toksF nodes 0 ++ (leadT 0 trailing ++ [f.endTok, f.nl1Tok, f.eofTok])))

/-- the document it denotes: `meta` is the Python dict built field by field (`MetaParse.metaDict`), `sections` the forest with
every comment at its node, `trailing_comments` the document's trailing comments. -/
def dDocP (name : Str) (fields : List (Str × Scalar)) (nodes : List ANode) (trailing : List (Str × CPos)) : Document :=
  { name := name, metaKv := MetaParse.metaDict [] fields, sections := nodesF nodes, trailingComments := texts trailing }

/-- the first body node is a line or a block keyed `META` AND no comment line precedes it (then, when there is no META block
in front, `parse_document` reads it as the META block; a comment in front hides it; a section never is the META block). -/
def metaFirstA : List ANode → Bool
  | .line key _ lead _ _ :: _ => lead.isEmpty && key == "META".toList
  | .block key _ lead _ :: _ => lead.isEmpty && key == "META".toList
  | _ => false

/-- what follows the envelope line / the META block: a comment, the first key, a section marker, or `===END===`. -/
theorem body_head (f : Frame) (nodes : List ANode) (trailing : List (Str × CPos)) :
    ∃ u K, toksF nodes 0 ++ (leadT 0 trailing ++ [f.endTok, f.nl1Tok, f.eofTok]) = u :: K ∧
      u.type ≠ TT.newline ∧ u.type ≠ TT.indent ∧ u.type ≠ TT.separator ∧ u.type ≠ TT.grammarSentinel ∧
      u.type ≠ TT.envelopeStart ∧ (metaFirstA nodes = false → ¬(u.type = TT.identifier ∧ u.value = TVal.str "META".toList)) := by
  cases nodes with
  | nil =>
    cases trailing with
    | nil => exact ⟨f.endTok, _, rfl, by simp [Frame.endTok], by simp [Frame.endTok], by simp [Frame.endTok], by simp [Frame.endTok], by simp [Frame.endTok], fun _ h => by cases h.1⟩
    | cons sq t =>
      obtain ⟨s, q⟩ := sq
      exact ⟨cmtTok s _ _, _, rfl, by simp [cmtTok], by simp [cmtTok], by simp [cmtTok], by simp [cmtTok], by simp [cmtTok], fun _ h => by cases h.1⟩
  | cons c r =>
    rw [toksF_cons_zero]
    cases hl : c.lead with
    | cons sq t =>
      obtain ⟨s, q⟩ := sq
      exact ⟨cmtTok s _ _, _, rfl, by simp [cmtTok], by simp [cmtTok], by simp [cmtTok], by simp [cmtTok], by simp [cmtTok], fun _ h => by cases h.1⟩
    | nil =>
      simp only [leadT, List.nil_append]
      cases c with
      | line key v lead trail q =>
        simp only [ANode.lead] at hl
        refine ⟨keyTok key q, _, rfl, by simp [keyTok], by simp [keyTok], by simp [keyTok], by simp [keyTok], by simp [keyTok], fun hm h => ?_⟩
        have := h.2
        simp only [keyTok, TVal.str.injEq] at this
        simp only [metaFirstA, hl, List.isEmpty_nil, Bool.true_and, beq_eq_false_iff_ne, ne_eq] at hm
        exact hm this
      | block key cs lead q =>
        simp only [ANode.lead] at hl
        refine ⟨keyTok key q, _, rfl, by simp [keyTok], by simp [keyTok], by simp [keyTok], by simp [keyTok], by simp [keyTok], fun hm h => ?_⟩
        have := h.2
        simp only [keyTok, TVal.str.injEq] at this
        simp only [metaFirstA, hl, List.isEmpty_nil, Bool.true_and, beq_eq_false_iff_ne, ne_eq] at hm
        exact hm this
      | sect id key cs lead q =>
        exact ⟨secTok q, _, rfl, by simp [secTok], by simp [secTok], by simp [secTok], by simp [secTok], by simp [secTok], fun _ h => by cases h.1⟩

/-- `skip_whitespace(skip_comments=False)` stops at once on anything but a NEWLINE — a COMMENT included. -/
theorem skipWhitespace_false_stop (t : Token) (r : List Token) (p : Option Token) (n : Nat) (la : Token)
    (w : List Warning) (d : Nat) (wd : List Nat) (s : Bool) (th : Nat) (al : Char → Bool) (h1 : t.type ≠ TT.newline) :
    skipWhitespace false { rest := t :: r, prev := p, pos := n, last := la, warnings := w, depth := d, warned := wd, strict := s, threshold := th, alpha := al }
      = .ok ((), { rest := t :: r, prev := p, pos := n, last := la, warnings := w, depth := d, warned := wd, strict := s, threshold := th, alpha := al }) := by
  unfold skipWhitespace
  step_simp []
  rw [skipWs]
  step_simp [h1]

/-- **`parse_document` on a whole unified document**, with the parser's own fuel (`2·(tokens+2)+10`): exactly `dDocP` — the
META fields in `meta`, every node with its comments, the document's trailing comments —, the cursor after `===END===`, and
exactly the warnings of the META loop followed by those of the body. -/
theorem parseDocument_d (f : Frame) (name : Str) (mpos : Nat → LPos) (fields : List (Str × Scalar)) (nodes : List ANode)
    (trailing : List (Str × CPos)) (st : PState)
    (hm : (fields.isEmpty && metaFirstA nodes) = false) (hc : wfF st.alpha nodes 0 = true)
    (hr : st.rest = dToks f name mpos fields nodes trailing) :
    parseDocument st
      = .ok (dDocP name fields nodes trailing,
             { st with rest := [f.nl1Tok, f.eofTok], prev := some f.endTok,
                       pos := st.pos + ((metaPart mpos fields).length + ((toksF nodes 0).length + 2 * trailing.length)) + 3,
                       warnings := (warnsF nodes []).reverse ++ ((MetaParse.metaWarns mpos [] fields 1).reverse ++ st.warnings) }) := by
  obtain ⟨u, K, hK, h1, hind, h3, h4, h5, h6⟩ := body_head f nodes trailing
  have hlen : (toksF nodes 0).length + 2 * trailing.length + 2 = K.length := by
    have := congrArg List.length hK
    simp only [List.length_append, List.length_cons, List.length_nil, leadT0_length] at this
    omega
  obtain ⟨rest, p, n0, la, w, dp, wd, s, th, al⟩ := st
  simp only at hr hc
  subst hr
  cases fields with
  | nil =>
    simp only [List.isEmpty_nil, Bool.true_and] at hm
    have h6 := h6 hm
    simp only [dToks, metaPart, List.nil_append]
    rw [hK]
    unfold parseDocument
    simp (config := {zeta := false}) only [bind, StateT.bind, Except.bind, budget_mk]
    extract_lets n doc0 jp5 jp4 jp3 jp2 jp1
    obtain ⟨p', hdoc⟩ := docLoop_d n trailing f.endTok [f.nl1Tok, f.eofTok] (Or.inl rfl) nodes
      { rest := u :: K, prev := some f.nl0Tok, pos := n0 + 1 + 1, last := la, warnings := w, depth := dp, warned := wd, strict := s, threshold := th, alpha := al }
      [] [] (2 * n) hK.symm hc
      (by simp only [n, List.length_cons]; omega) (by simp only [n, List.length_cons]; omega)
    step_simp [Frame.envTok, Frame.nl0Tok, skipWhitespace_stop]
    simp only [jp1]
    step_simp []
    simp only [jp2]
    step_simp [skipWhitespace_false_nl, pyStrVal_str, h1]
    simp only [jp3]
    step_simp [h6]
    simp only [jp4]
    step_simp [h3]
    simp only [jp5]
    step_simp []
    simp only [Frame.nl0Tok] at hdoc
    rw [hdoc]
    step_simp [Frame.endTok]
    simp only [dDocP, MetaParse.metaDict, MetaParse.metaWarns, List.reverse_nil, List.nil_append]
    apply ok_pos_congr
    omega
  | cons fd fs =>
    have hstop : MetaParse.metaStops (2 * (0 + 1)) u = true := by
      simp [MetaParse.metaStops, h1, hind]
    simp only [dToks, metaPart, List.cons_append, MetaParse.fieldToks_length, List.length_cons]
    rw [hK]
    unfold parseDocument
    simp (config := {zeta := false}) only [bind, StateT.bind, Except.bind, budget_mk]
    extract_lets n doc0 jp5 jp4 jp3 jp2 jp1
    have hmb := MetaParse.parseMetaBlock_fields mpos n 0 0 "META".toList fd fs u K
      (some { type := TT.newline, value := TVal.str "\n".toList, line := f.nl0L, col := f.nl0C }) (n0 + 1 + 1) la w dp wd s th al
      hstop (by simp only [n]; omega)
    simp only [BlockParse.hdrKeyTok, Nat.zero_add] at hmb
    obtain ⟨p', hdoc⟩ := docLoop_d n trailing f.endTok [f.nl1Tok, f.eofTok] (Or.inl rfl) nodes
      { rest := u :: K,
        prev := BlockParse.prevAfterList mpos
          (some { type := TT.newline, value := TVal.str "\n".toList, line := f.nl0L, col := f.nl0C }) (MetaParse.fieldNodes (fd :: fs)) 1,
        pos := n0 + 1 + 1 + 3 + 5 * (fs.length + 1), last := la,
        warnings := (MetaParse.metaWarns mpos [] (fd :: fs) 1).reverse ++ w, depth := dp, warned := wd, strict := s, threshold := th, alpha := al }
      [] [] (2 * n) hK.symm hc
      (by simp only [n, List.length_cons, List.length_append, MetaParse.fieldToks_length]; omega)
      (by simp only [n, List.length_cons, List.length_append, MetaParse.fieldToks_length]; omega)
    step_simp [Frame.envTok, Frame.nl0Tok, skipWhitespace_stop]
    simp only [jp1]
    step_simp []
    simp only [jp2]
    step_simp [skipWhitespace_newline, pyStrVal_str, BlockParse.hdrKeyTok]
    simp only [jp3]
    step_simp [BlockParse.hdrKeyTok]
    rw [hmb]
    step_simp [skipWhitespace_false_stop, h1]
    simp only [jp4]
    step_simp [h3]
    simp only [jp5]
    step_simp []
    rw [hdoc]
    step_simp [Frame.endTok]
    simp only [dDocP, List.nil_append]
    apply ok_pos_congr
    omega


/-! ## When the reader is silent -/

/-- keys of the Assignment children of a forest (the keys the duplicate-key check of that level sees). -/
def lineKeys : List ANode → List Str
  | [] => []
  | .line key _ _ _ _ :: cs => key :: lineKeys cs
  | .block _ _ _ _ :: cs => lineKeys cs
  | .sect _ _ _ _ _ :: cs => lineKeys cs

mutual
/-- no warning arises below the node: no bare word under `PATTERN`/`REGEX`, no Assignment key repeated within one block or
section (comments never warn). -/
def ANode.quiet : ANode → Bool
  | .line key v _ _ _ => !(v.isWord && (key == "PATTERN".toList || key == "REGEX".toList))
  | .block _ cs _ _ => quietF cs && decide (lineKeys cs).Nodup
  | .sect _ _ cs _ _ => quietF cs && decide (lineKeys cs).Nodup
def quietF : List ANode → Bool
  | [] => true
  | c :: cs => c.quiet && quietF cs
end

mutual
theorem warns_eq_nil : ∀ (c : ANode), c.quiet = true → c.warns = []
  | .line key v _ _ p, h => by
    simp only [ANode.warns, lineWarns]
    exact (Line.warns_eq_nil_iff _).2 (by simpa [Line.plain, ANode.quiet] using h)
  | .block _ cs _ _, h => by
    simp only [ANode.quiet, Bool.and_eq_true, decide_eq_true_eq] at h
    simp only [ANode.warns]
    exact warnsF_eq_nil cs [] h.1 h.2 (fun _ _ => rfl)
  | .sect _ _ cs _ _, h => by
    simp only [ANode.quiet, Bool.and_eq_true, decide_eq_true_eq] at h
    simp only [ANode.warns]
    exact warnsF_eq_nil cs [] h.1 h.2 (fun _ _ => rfl)
theorem warnsF_eq_nil : ∀ (cs : List ANode) (kp : KeyPos), quietF cs = true →
    (lineKeys cs).Nodup → (∀ key ∈ lineKeys cs, kp.lookup key = none) → warnsF cs kp = []
  | [], _, _, _, _ => rfl
  | .line key v lead trail p :: cs, kp, hq, hnd, hkp => by
    simp only [quietF, Bool.and_eq_true] at hq
    simp only [lineKeys, List.nodup_cons] at hnd
    have h0 : kp.lookup key = none := hkp key (by simp [lineKeys])
    have htp : ∀ l, trackPure kp key l = (kp ++ [(key, [l])], []) := by
      intro l; unfold trackPure; rw [h0]
    simp only [warnsF, trackA, htp, warns_eq_nil _ hq.1, List.nil_append]
    apply warnsF_eq_nil cs _ hq.2 hnd.2
    intro x hx
    apply lookup_append_none _ _ _ (hkp x (by simp [lineKeys, hx]))
    have hne : x ≠ key := fun h => hnd.1 (h ▸ hx)
    simp only [List.lookup_cons, List.lookup_nil]
    rw [beq_eq_false_iff_ne.2 hne]
  | .block key cs' lead p :: cs, kp, hq, hnd, hkp => by
    simp only [quietF, Bool.and_eq_true] at hq
    simp only [lineKeys] at hnd hkp
    simp only [warnsF, trackA, warns_eq_nil _ hq.1, List.nil_append]
    exact warnsF_eq_nil cs kp hq.2 hnd hkp
  | .sect id key cs' lead p :: cs, kp, hq, hnd, hkp => by
    simp only [quietF, Bool.and_eq_true] at hq
    simp only [lineKeys] at hnd hkp
    simp only [warnsF, trackA, warns_eq_nil _ hq.1, List.nil_append]
    exact warnsF_eq_nil cs kp hq.2 hnd hkp
end

/-! ## Boolean equality on unified documents (for closed `decide` checks; `Document` has no `DecidableEq`) -/

/-- scalar META values, assignments / blocks / sections with their comments (`SectParse.nodesEqS` compares `leading` and
`trailing` too), the document's trailing comments. -/
def docEqD (a b : Document) : Bool :=
  a.name == b.name && MetaParse.metaKvEqB a.metaKv b.metaKv && a.hasSeparator == b.hasSeparator &&
  SectParse.nodesEqS a.sections b.sections && a.grammarVersion == b.grammarVersion &&
  a.rawFrontmatter == b.rawFrontmatter && a.trailingComments == b.trailingComments

theorem docEqD_sound {a b : Document} (h : docEqD a b = true) : a = b := by
  obtain ⟨n, m, hs, s, g, rf, tc⟩ := a
  obtain ⟨n', m', hs', s', g', rf', tc'⟩ := b
  simp only [docEqD, Bool.and_eq_true, beq_iff_eq] at h
  obtain ⟨⟨⟨⟨⟨⟨h1, h2⟩, h3⟩, h4⟩, h5⟩, h6⟩, h7⟩ := h
  rw [h1, MetaParse.metaKvEqB_sound h2, h3, SectParse.nodesEqS_sound h4, h5, h6, h7]

/-- Boolean test `r = .ok d`. -/
def isOkDocD (r : Except Exc Document) (d : Document) : Bool :=
  match r with | .ok x => docEqD x d | .error _ => false

theorem isOkDocD_sound {r : Except Exc Document} {d : Document} (h : isOkDocD r d = true) : r = .ok d := by
  cases r with
  | error e => simp [isOkDocD] at h
  | ok x => rw [docEqD_sound (a := x) (b := d) h]

end Octave.DParse
