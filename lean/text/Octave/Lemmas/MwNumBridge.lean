import Octave.Lemmas.MwNumParse
import Octave.Lemmas.MultiWordBridge
/-!
NUMBER-HEADED MULTI-WORD VALUES as values of a flat document — emitter half and glue (port of `MultiWordBridge`).

* the canonical line of a multi-word line with either head: `KEY::"h w1 … wn"` (`NWLine.canon`, an `FLine` with a QUOTED
  string; for an integer head `h` is the raw lexeme: `K::3 blind mice` → `K::"3 blind mice"`; for a string head `h` is
  `"` + content + `"`, so `K::"a b" c d` → `K::"\"a b\" c d"`);
* `needsQuotes_nw`: the emitter quotes EVERY joined string of the class (it contains a space);
* the glue between the lexer half (`MwNumLex`) and the parser half (`MwNumParse`);
* the receipts owed (`mwnReceipts`: one `multi_word_coalesce` record per multi-word line, context `number_identifier` when
  the head is a NUMBER) and `mwnWarns_filter`.
-/
namespace Octave.MWN
open Octave Lexer Emitter Parser FlatParse Spell Expr MW

theorem mwn_identText_quote (t : Str) : isIdentifierText ('"' :: t) = false := by
  simp only [isIdentifierText, show isIdentStartA '"' = false by decide, Bool.false_and]

theorem needsQuotes_head_quote (s : Str) : needsQuotes ('"' :: s) = true := by
  have hvar : isVariableText ('"' :: s) = false := by
    unfold isVariableText
    split
    · rename_i h; simp at h
    · rfl
  have hann : isAnnotationText ('"' :: s) = false := by
    simp only [isAnnotationText, breakAt, show (('"' : Char) == '<') = false by decide, Bool.false_eq_true, if_false]
    split
    · simp only [mwn_identText_quote, Bool.false_and]
    · rfl
  have hexp : isExpressionText ('"' :: s) = false := by
    have hq : isUnicodeOp '"' = false := by decide
    simp only [isExpressionText, splitOn, hq, Bool.false_eq_true, if_false]
    cases splitOn isUnicodeOp s with
    | nil => rfl
    | cons l ls => simp only [List.all_cons, mwn_identText_quote, Bool.false_and, Bool.and_false]
  unfold needsQuotes
  simp only [hvar, hann, hexp, mwn_identText_quote, Bool.false_eq_true, if_false, Bool.not_false]
  repeat' split
  all_goals rfl

/-- every character of a word / integer head's text is an identifier-body character (digits and `-` included). -/
theorem mwn_head_body (h : NHead) (hok : h.OK) (hs : h.isStr = false) : ∀ d ∈ h.part, isIdentBodyA d = true := by
  cases h with
  | word w => exact identText_body w hok.1
  | int i =>
    intro d hd
    rcases intStr_mem i d hd with rfl | hdig
    · decide
    · simp only [isIdentBodyA, isAlnumA, hdig, Bool.or_true, Bool.true_or]
  | str sv => simp [NHead.isStr] at hs

theorem mwn_head_pwf (h : NHead) (hok : h.OK) : h.PWF := by
  cases h with
  | word w => exact hasAnnotation_word w hok.1
  | int i => trivial
  | str sv => trivial

theorem mwn_head_part_ne_nil (h : NHead) (hok : h.OK) : h.part ≠ [] := by
  cases h with
  | word w => exact wordOK_ne_nil hok
  | int i => exact intStr_ne_nil i
  | str sv => simp [NHead.part]

/-- **the emitter quotes every joined multi-word string of the class** (any head). -/
theorem needsQuotes_nw (m : NWords) (h : m.OK) : needsQuotes m.result = true := by
  obtain ⟨hh, ht, hne⟩ := h
  obtain ⟨q, r, hqr⟩ := List.exists_cons_of_ne_nil hne
  cases hs : m.head.isStr with
  | true =>
    obtain ⟨sv, hsv⟩ : ∃ sv, m.head = .str sv := by
      cases hm : m.head with
      | word w => rw [hm] at hs; simp [NHead.isStr] at hs
      | int i => rw [hm] at hs; simp [NHead.isStr] at hs
      | str sv => exact ⟨sv, rfl⟩
    have hres : m.result = '"' :: (sv ++ '"' :: ' ' :: spaceJoin (q.2 :: r.map Prod.snd)) := by
      simp [NWords.result, NWords.words, hsv, NHead.part, hqr, spaceJoin, joinWith]
    rw [hres]; exact needsQuotes_head_quote _
  | false =>
    have hch : ∀ d ∈ m.result, d = ' ' ∨ isIdentBodyA d = true := by
      intro d hd
      rcases mem_spaceJoin m.words d hd with h1 | ⟨w, hw, hdw⟩
      · exact Or.inl h1
      · simp only [NWords.words, List.mem_cons, List.mem_map] at hw
        rcases hw with rfl | ⟨p, hp, rfl⟩
        · exact Or.inr (mwn_head_body m.head hh hs d hdw)
        · exact Or.inr (identText_body _ (ht p hp).1 d hdw)
    obtain ⟨c, t, hct⟩ := List.exists_cons_of_ne_nil (mwn_head_part_ne_nil m.head hh)
    have hres : m.result = c :: (t ++ ' ' :: spaceJoin (q.2 :: r.map Prod.snd)) := by
      simp [NWords.result, NWords.words, hct, hqr, spaceJoin, joinWith]
    have hc : isIdentBodyA c = true := mwn_head_body m.head hh hs c (by rw [hct]; simp)
    apply needsQuotes_plain
    · rw [hres]; simp only [List.head?_cons, ne_eq, Option.some.injEq]
      intro e; subst e; revert hc; decide
    · intro d hd
      rcases hch d hd with rfl | hb
      · decide
      · rw [beq_eq_false_iff_ne]; intro e; subst e; revert hb; decide
    · intro d hd
      rcases hch d hd with rfl | hb
      · decide
      · exact identBody_not_unicodeOp d hb
    · rw [hres]
      have : (t ++ ' ' :: spaceJoin (q.2 :: r.map Prod.snd)).all isIdentBodyA = false := by
        rw [List.all_eq_false]
        exact ⟨' ', by simp, by decide⟩
      simp only [isIdentifierText, this, Bool.and_false, Bool.false_and]

/-! ### the canonical line, the document -/

/-- the canonical form of a value: a multi-word value becomes the QUOTED string of its words joined by one space. -/
def NVal.canon : NVal → FScalar
  | .sc v => v
  | .nw m => .qstr m.result

/-- the canonical line `KEY::"w0 w1 … wn"` (a scalar line is its own canonical form). -/
def NWLine.canon (ln : NWLine) : FLine := ⟨ln.key, ln.v.canon⟩

/-- the lines of the canonical flat document. -/
def mwnCanonLines (sl : List NWLine) : List FLine := sl.map NWLine.canon

/-- when the emitter spells the line the way its canonical text does (decidable): as `FLine.EmitOK` for a scalar line;
ALWAYS for a multi-word line (`needsQuotes_nw`). -/
def NWLine.EmitOK (ln : NWLine) : Prop :=
  match ln.v with
  | .sc v => FLine.EmitOK ⟨ln.key, v⟩
  | .nw _ => True

theorem mwncanon_emitOK (ln : NWLine) (hok : ln.OK) (h : ln.EmitOK) : ln.canon.EmitOK := by
  obtain ⟨key, v⟩ := ln
  cases v with
  | sc v => exact h
  | nw m => exact needsQuotes_nw m hok.2.2

/-- first key is not `META`. -/
def mwnFirstNotMeta (sl : List NWLine) : Bool :=
  match sl with | ln :: _ => !(ln.key == "META".toList) | [] => true

/-! ### glue between the lexer half (concrete positions) and the parser half (arbitrary positions) -/

/-- the line written at text line `l` as the parser half describes it. -/
def toNQLine (x : NWLine) (l : Nat) : NQLine :=
  match x.v with
  | .sc v => .sc ((FLine.mk x.key v).toP l)
  | .nw m => .nw { key := x.key, l := l, c1 := 1, c2 := 1 + x.key.length, hd := m.head, hl := l, hc := 1 + x.key.length + 2,
                   ws := m.tail.map Prod.snd,
                   ts := (mwTailToksRev l (1 + x.key.length + 2 + m.head.text.length) m.tail).reverse,
                   nlL := l, nlC := 1 + x.key.length + 2 + m.spell.length }

def toNQLines (l : Nat) : List NWLine → List NQLine
  | [] => []
  | x :: r => toNQLine x l :: toNQLines (l + 1) r

theorem toNQLines_length (sl : List NWLine) : ∀ l, (toNQLines l sl).length = sl.length := by
  induction sl with
  | nil => intro l; rfl
  | cons x r ih => intro l; simp [toNQLines, ih]

theorem toNQLine_wf (x : NWLine) (l : Nat) (h : x.OK) : (toNQLine x l).WF := by
  obtain ⟨key, v⟩ := x
  cases v with
  | sc v => trivial
  | nw m =>
    obtain ⟨hh, ht, hne⟩ := h.2.2
    refine ⟨mwTailToks_bridge l m.tail _, ?_, mwn_head_pwf m.head hh, ?_⟩
    · simpa using hne
    · intro w hw
      obtain ⟨p, hp, rfl⟩ := List.mem_map.mp hw
      exact hasAnnotation_word _ (ht p hp).1

theorem toNQLines_wf (sl : List NWLine) (hok : ∀ x ∈ sl, x.OK) : ∀ l, ∀ ln ∈ toNQLines l sl, ln.WF := by
  induction sl with
  | nil => intro l ln h; simp [toNQLines] at h
  | cons x r ih =>
    intro l ln h
    simp only [toNQLines, List.mem_cons] at h
    rcases h with rfl | h
    · exact toNQLine_wf x l (hok x (by simp))
    · exact ih (fun y hy => hok y (by simp [hy])) (l + 1) ln h

theorem mwnline_toks_bridge (x : NWLine) (l : Nat) : (x.toksRev l 1).reverse = (toNQLine x l).toks := by
  obtain ⟨key, v⟩ := x
  cases v with
  | sc v => exact line_toks_bridge ⟨key, v⟩ l
  | nw m =>
    simp only [NWLine.toksRev, NVal.toksRev, NVal.spell, toNQLine, NQLine.toks, NTLine.toks, NTLine.nlTok, List.reverse_cons,
      List.reverse_append, List.reverse_nil, List.nil_append, List.cons_append, List.append_assoc]

theorem mwnlines_toks_bridge (sl : List NWLine) : ∀ l, (mwnLinesToksRev l sl).reverse = (toNQLines l sl).flatMap NQLine.toks := by
  induction sl with
  | nil => intro l; rfl
  | cons x r ih =>
    intro l
    simp only [mwnLinesToksRev, toNQLines, List.reverse_append, List.flatMap_cons, mwnline_toks_bridge, ih]

/-- the two descriptions of the token list agree. -/
theorem mwndocToks_bridge (name : Str) (sl : List NWLine) :
    mwndocToks name sl = mwnToks (flatFrame name sl.length) name (toNQLines 2 sl) := by
  simp only [mwndocToks, mwndocToksRev, mwnToks, List.reverse_cons, List.reverse_append, mwnlines_toks_bridge]
  simp [flatFrame, Frame.envTok, Frame.nl0Tok, Frame.endTok, Frame.nl1Tok, Frame.eofTok, tEof, tNewline, tEnvEnd, tEnvStart]

/-- the node read from the line IS the node of its canonical line (same key, same value, same position). -/
theorem mwn_qnode_bridge (x : NWLine) (l : Nat) : (toNQLine x l).node = x.canon.node l 1 := by
  obtain ⟨key, v⟩ := x
  cases v with
  | sc v => exact node_bridge ⟨key, v⟩ l
  | nw m => rfl

theorem mwn_qnodes_bridge (sl : List NWLine) : ∀ (i : Nat),
    (toNQLines (i + 2) sl).map NQLine.node = flatNodes (fun i => (i + 2, 1)) i (mwnCanonLines sl) := by
  induction sl with
  | nil => intro i; rfl
  | cons x r ih =>
    intro i
    simp only [toNQLines, List.map_cons, mwnCanonLines, flatNodes, mwn_qnode_bridge]
    rw [show i + 2 + 1 = (i + 1) + 2 by omega, ih (i + 1)]
    rfl

theorem mwn_qkey_bridge (x : NWLine) (l : Nat) : (toNQLine x l).key = x.key := by
  obtain ⟨key, v⟩ := x
  cases v <;> rfl

theorem mwn_ql_bridge (x : NWLine) (l : Nat) : (toNQLine x l).l = l := by
  obtain ⟨key, v⟩ := x
  cases v <;> rfl

theorem mwnMetaFirst_bridge (sl : List NWLine) (l : Nat) (h : mwnFirstNotMeta sl = true) :
    mwnMetaFirst (toNQLines l sl) = false := by
  cases sl with
  | nil => rfl
  | cons x r =>
    simp only [toNQLines, mwnMetaFirst, mwn_qkey_bridge]
    simpa [mwnFirstNotMeta] using h

theorem stripFrontmatter_mwndoc (env : Env) (name : Str) (sl : List NWLine) :
    Parser.stripFrontmatter env (mwndocText name sl) = (mwndocText name sl, none) := by
  unfold Parser.stripFrontmatter
  have : startsWith "---".toList (mwndocText name sl) = false := by
    simp [mwndocText, startsWith, List.isPrefixOf]
  rw [this]; rfl

/-! ### the receipts owed -/

/-- the receipt owed to the line written at text line `l`: for a multi-word line ONE `multi_word_coalesce` record —
the parts as written (head lexeme, words), the string they became, the context (`number_identifier` for a NUMBER head,
none for a word head), the line, and the column of the head (right after `KEY::`); a scalar line: none. -/
def mwnLineReceipt (l : Nat) (x : NWLine) : List Warning :=
  match x.v with
  | .nw m => [.multiWord m.words m.result m.head.ctx l (1 + x.key.length + 2)]
  | .sc _ => []

/-- the receipts owed to the document, in reading order (first body line = text line `l`). -/
def mwnReceipts (l : Nat) : List NWLine → List Warning
  | [] => []
  | x :: r => mwnLineReceipt l x ++ mwnReceipts (l + 1) r

/-- number of multi-word lines. -/
def mwnCount : List NWLine → Nat
  | [] => 0
  | x :: r => (match x.v with | .nw _ => 1 | .sc _ => 0) + mwnCount r

/-- exactly one receipt per multi-word line. -/
theorem mwnReceipts_length (sl : List NWLine) : ∀ l, (mwnReceipts l sl).length = mwnCount sl := by
  induction sl with
  | nil => intro l; rfl
  | cons x r ih =>
    intro l
    obtain ⟨key, v⟩ := x
    cases v <;> simp [mwnReceipts, mwnLineReceipt, mwnCount, ih] <;> omega

theorem mwn_qline_warns_filter (x : NWLine) (l : Nat) : (toNQLine x l).warns.filter isMultiWord = mwnLineReceipt l x := by
  obtain ⟨key, v⟩ := x
  cases v with
  | sc v => exact line_warns_filter _
  | nw m =>
    have hf : ∀ (b : Bool) (val : Str), (if b = true then [] else autoquote key val l 1).filter isMultiWord = [] := by
      intro b val; cases b
      · exact autoquote_filter key val l 1
      · rfl
    simp only [toNQLine, NQLine.warns, NTLine.warnsRev, List.reverse_append, List.reverse_cons, List.reverse_nil, List.nil_append,
      List.filter_append, List.filter_reverse, hf, List.append_nil]
    rfl

/-- **the `multi_word_coalesce` records among the parser warnings** are, in reading order, exactly `mwnReceipts` — whatever
other warnings (duplicate keys, `PATTERN` auto-quote) the lines raise. -/
theorem mwnWarns_filter (sl : List NWLine) : ∀ (l : Nat) (kp : KeyPos),
    (mwnWarns kp (toNQLines l sl)).filter isMultiWord = mwnReceipts l sl := by
  induction sl with
  | nil => intro l kp; rfl
  | cons x r ih =>
    intro l kp
    simp only [toNQLines, mwnWarns, List.filter_append, mwn_qline_warns_filter, trackPure_filter, List.append_nil, ih, mwnReceipts]

end Octave.MWN
