/-
`parse_section` / the body loop / `parse_document` on lines `KEY :: value NEWLINE` whose value MAY DRAW WARNINGS while it is
read (inline-map items under constructor names: `constructor_misuse`, `pattern_autoquote`).  `ListDocParse.VLine.OK` demands
that reading the value moves nothing but the cursor; `VLine.OKW` only demands that it moves the cursor and ADDS warnings.
`docLoop_vlinesW`, `parseDocument_vlinesW`: the same document `vdoc name lines` (the warnings are not tracked here: the strict
entry point discards them; `parseValue_mlistToks` has them exactly, and `ListDocParse.parseDocument_vlines` has them exactly
for documents whose values draw none).
-/
import Octave.Lemmas.MapParse
set_option linter.unusedSimpArgs false
namespace Octave.Maps
open Octave Parser
open Octave.ListParse hiding Scalar
open Octave.FlatParse (endsValue)
open Octave.ListDocParse
open Octave.FlatParse (current_mk peek_mk advance_mk curType_mk isAdjacentBracket_mk budget_mk warn_mk pyStrVal_str)
open Octave.FlatParse (trackPure trackKey_eq trackPure_warns_reverse)
open Octave.FlatParse (Frame skipWhitespace_stop skipWhitespace_newline)

local macro "step_simp" "[" ts:Lean.Parser.Tactic.simpLemma,* "]" : tactic =>
  `(tactic| simp only [bind, StateT.bind, Except.bind, pure, StateT.pure, Except.pure, current_mk, peek_mk, advance_mk,
      curType_mk, isAdjacentBracket_mk, budget_mk, warn_mk, get, getThe, MonadStateOf.get, StateT.get,
      Bool.false_eq_true, if_false, if_true, Bool.false_and, Bool.and_false, Bool.or_false, Bool.false_or,
      List.length_cons, List.length_nil, beq_iff_eq, bne_iff_ne, ne_eq, reduceCtorEq, not_true_eq_false, not_false_eq_true,
      Bool.and_eq_true, Bool.or_eq_true, Bool.not_eq_true', beq_eq_false_iff_ne, false_and, and_false, true_and, and_true,
      false_or, or_false, true_or, or_true, decide_eq_true_eq,
      beq_self_eq_true, Bool.true_or, Bool.or_true, Bool.true_and, Bool.and_true, Bool.not_true, Bool.not_false, $ts,*])

/-- the line is well formed: token types, and `parse_value` (with fuel ≥ `F`) reads the value tokens as `v`, stops on the
NEWLINE, moves the cursor and may add warnings — nothing else. -/
structure _root_.Octave.ListDocParse.VLine.OKW (ln : VLine) (F : Nat) : Prop where
  kt : ln.kt.type = .identifier
  kv : ln.kt.value = .str ln.key
  a : ln.a.type = .assign
  nl : ln.nl.type = .newline
  reads : ∀ (st : PState) (k : List Token) (fuel : Nat), Top st → st.rest = ln.vt :: (ln.vr ++ ln.nl :: k) → F ≤ fuel →
    ∃ ws, parseValue fuel st = .ok (ln.v, { st with rest := ln.nl :: k, prev := (ln.vt :: ln.vr).getLast?, pos := st.pos + (ln.vr.length + 1), warnings := ws ++ st.warnings })

theorem _root_.Octave.ListDocParse.VLine.OKW.mono {ln : VLine} {F F' : Nat} (h : ln.OKW F) (hle : F ≤ F') : ln.OKW F' :=
  ⟨h.kt, h.kv, h.a, h.nl, fun st k fuel ht hr hf => h.reads st k fuel ht hr (Nat.le_trans hle hf)⟩

theorem _root_.Octave.ListDocParse.VLine.OK.toW {ln : VLine} {F : Nat} (h : ln.OK F) : ln.OKW F :=
  ⟨h.kt, h.kv, h.a, h.nl, fun st k fuel ht hr hf => ⟨[], by rw [h.reads st k fuel ht hr hf]; rfl⟩⟩

theorem docLoop_vlinesW (vf F : Nat) (hF : F + 1 ≤ vf) (lines : List VLine) (e : Token) (tail : List Token)
    (he : e.type = .envelopeEnd ∨ e.type = .eof) :
    ∀ (st : PState) (acc : List Node) (kp : KeyPos) (extra : Nat), (∀ ln ∈ lines, ln.OKW F) → Top st →
    st.rest = lines.flatMap VLine.toks ++ e :: tail →
    ∃ st', docLoop vf (2 * lines.length + 1 + extra) [] acc kp st = .ok ((acc ++ lines.map VLine.node, []), st') ∧
      st'.rest = e :: tail := by
  induction lines with
  | nil =>
    intro st acc kp extra _ _ hr
    have hr : st.rest = e :: tail := hr
    have hst : st = { st with rest := e :: tail } := by rw [← hr]
    refine ⟨st, ?_, hr⟩
    have hf : 2 * ([] : List VLine).length + 1 + extra = extra + 1 := by simp only [List.length_nil]; omega
    rw [hf, docLoop]
    conv => lhs; rw [hst]
    step_simp [he]
    rw [← hst]
    simp
  | cons ln r ih =>
    intro st acc kp extra hok htop hr
    have h := hok ln (by simp)
    obtain ⟨f', rfl⟩ : ∃ f', vf = f' + 1 := ⟨vf - 1, by omega⟩
    obtain ⟨u, K', hK⟩ : ∃ u K', r.flatMap VLine.toks ++ e :: tail = u :: K' := by
      cases hx : r.flatMap VLine.toks ++ e :: tail with
      | nil => simp at hx
      | cons u K' => exact ⟨u, K', rfl⟩
    have hr' : st.rest = ln.kt :: ln.a :: ln.vt :: (ln.vr ++ ln.nl :: u :: K') := by
      rw [hr, List.flatMap_cons, ← hK]; simp [VLine.toks]
    have htop2 : Top ({ st with rest := ln.vt :: (ln.vr ++ ln.nl :: u :: K'), prev := some ln.a, pos := st.pos + 1 + 1 } : PState) := htop
    obtain ⟨ws, hv⟩ := h.reads _ (u :: K') f' htop2 rfl (by omega)
    have hps := parseSection_value st _ ln.kt ln.a ln.vt (ln.vr ++ ln.nl :: u :: K') (u :: K') ln.key ln.v ln.nl f'
      h.kt h.kv h.a hr' hv rfl h.nl
    have hf : 2 * (ln :: r).length + 1 + extra = (2 * r.length + 1 + extra) + 2 := by simp only [List.length_cons]; omega
    let s4 : PState := { st with rest := u :: K', prev := some ln.nl, pos := st.pos + 1 + 1 + (ln.vr.length + 1) + 1,
                                 warnings := (trackPure kp ln.key ln.kt.line).2 ++ (ln.warns ++ (ws ++ st.warnings)) }
    have hiter : docLoop (f' + 1) ((2 * r.length + 1 + extra) + 2) [] acc kp st
        = docLoop (f' + 1) (2 * r.length + 1 + extra) [] (acc ++ [ln.node]) (trackPure kp ln.key ln.kt.line).1 s4 :=
      docLoop_iter (f' + 1) _ st _ ln.kt _ _ ln.key ln.kt.line acc kp ln.nl u K' hr' h.kt hps rfl rfl h.nl
    obtain ⟨st', h1, h2⟩ := ih s4 (acc ++ [VLine.node ln]) (trackPure kp ln.key ln.kt.line).1 extra
      (fun x hx => hok x (by simp [hx])) htop hK.symm
    refine ⟨st', ?_, h2⟩
    rw [hf, hiter, h1]; simp

theorem docLoop_vlinesW' (vf fuel F : Nat) (hF : F + 1 ≤ vf) (lines : List VLine) (hfuel : 2 * lines.length + 1 ≤ fuel)
    (e : Token) (tail : List Token) (he : e.type = .envelopeEnd ∨ e.type = .eof)
    (st : PState) (acc : List Node) (kp : KeyPos) (hok : ∀ ln ∈ lines, ln.OKW F) (htop : Top st)
    (hr : st.rest = lines.flatMap VLine.toks ++ e :: tail) :
    ∃ st', docLoop vf fuel [] acc kp st = .ok ((acc ++ lines.map VLine.node, []), st') ∧ st'.rest = e :: tail := by
  obtain ⟨extra, rfl⟩ : ∃ extra, fuel = 2 * lines.length + 1 + extra := ⟨fuel - (2 * lines.length + 1), by omega⟩
  exact docLoop_vlinesW vf F hF lines e tail he st acc kp extra hok htop hr

theorem vbody_headW (f : Frame) (lines : List VLine) (F : Nat) (hok : ∀ ln ∈ lines, ln.OKW F) (hm : vmetaFirst lines = false) :
    ∃ u K, lines.flatMap VLine.toks ++ [f.endTok, f.nl1Tok, f.eofTok] = u :: K ∧
      u.type ≠ TT.newline ∧ u.type ≠ TT.comment ∧ u.type ≠ TT.separator ∧ u.type ≠ TT.grammarSentinel ∧
      u.type ≠ TT.envelopeStart ∧ ¬(u.type = TT.identifier ∧ u.value = TVal.str "META".toList) := by
  cases lines with
  | nil => exact ⟨f.endTok, _, rfl, by simp [Frame.endTok], by simp [Frame.endTok], by simp [Frame.endTok], by simp [Frame.endTok], by simp [Frame.endTok], fun h => by cases h.1⟩
  | cons ln r =>
    have h := hok ln (by simp)
    refine ⟨ln.kt, _, rfl, by simp [h.kt], by simp [h.kt], by simp [h.kt], by simp [h.kt], by simp [h.kt], fun hh => ?_⟩
    have h2 : ln.key = "META".toList := by
      have := hh.2; rw [h.kv] at this; simpa using this
    simp only [vmetaFirst, beq_eq_false_iff_ne, ne_eq] at hm
    exact hm h2

/-- **`parse_document` on any number of lines whose values may draw warnings**: exactly `vdoc name lines`. -/
theorem parseDocument_vlinesW (f : Frame) (name : Str) (lines : List VLine) (F : Nat) (st : PState)
    (hok : ∀ ln ∈ lines, ln.OKW F) (hF : F ≤ 2 * (vdocToks f name lines).length) (htop : Top st)
    (hm : vmetaFirst lines = false) (hr : st.rest = vdocToks f name lines) :
    ∃ st', parseDocument st = .ok (vdoc name lines, st') := by
  obtain ⟨u, K, hK, h1, h2, h3, h4, h5, h6⟩ := vbody_headW f lines F hok hm
  have hlen : (vdocToks f name lines).length = K.length + 3 := by
    have := congrArg List.length hK
    simp only [vdocToks, List.length_cons, List.length_append, List.length_nil] at this ⊢
    omega
  have hlines : lines.length ≤ K.length + 1 := by
    have := congrArg List.length hK
    have h' := vlines_length_le lines
    simp only [List.length_cons, List.length_append, List.length_nil] at this
    omega
  have hst : st = { st with rest := f.envTok name :: f.nl0Tok :: u :: K } := by rw [← hK, ← vdocToks, ← hr]
  have t1 : (f.envTok name).type = .envelopeStart := rfl
  have t2 : (f.nl0Tok).type = .newline := rfl
  have t3 : (f.envTok name).value = .str name := rfl
  have t4 : (f.endTok).type = .envelopeEnd := rfl
  obtain ⟨stD, hD1, hD2⟩ := docLoop_vlinesW' (2 * ((f.envTok name :: f.nl0Tok :: u :: K).length + 2) + 10)
    (2 * (2 * ((f.envTok name :: f.nl0Tok :: u :: K).length + 2) + 10)) F
    (by simp only [List.length_cons]; omega) lines (by simp only [List.length_cons]; omega) f.endTok [f.nl1Tok, f.eofTok] (Or.inl rfl)
    { st with rest := u :: K, prev := some f.nl0Tok, pos := st.pos + 1 + 1 } [] [] hok htop hK.symm
  have hsD : stD = { stD with rest := [f.endTok, f.nl1Tok, f.eofTok] } := by rw [← hD2]
  refine ⟨{ stD with rest := [f.nl1Tok, f.eofTok], prev := some f.endTok, pos := stD.pos + 1 }, ?_⟩
  rw [hst]
  unfold parseDocument
  simp (config := {zeta := false}) only [bind, StateT.bind, Except.bind, budget_mk]
  extract_lets n doc0 jp5 jp4 jp3 jp2 jp1
  step_simp [t1, t2, skipWhitespace_stop]
  simp only [jp1]
  step_simp [t1]
  simp only [jp2]
  step_simp [skipWhitespace_newline, pyStrVal_str, h1, h2, t1, t2, t3]
  simp only [jp3]
  step_simp [h6]
  simp only [jp4]
  step_simp [h3]
  simp only [jp5]
  step_simp []
  simp only [n]
  rw [hD1]
  simp only []
  rw [hsD]
  step_simp [t4, List.nil_append]
  rfl

/-- `KEY :: [ … ] NEWLINE` for a list of scalars and inline-map items in any layout — NO condition on warnings. -/
theorem vline_mlist_okW (kt a nl : Token) (key : Str) (vs : List PItem) (vt : Token) (vr : List Token)
    (h : MListToks vs (vt :: vr))
    (hkt : kt.type = .identifier) (hkv : kt.value = .str key) (ha : a.type = .assign) (hnl : nl.type = .newline) :
    VLine.OKW ⟨kt, key, a, vt, vr, .list (vs.map PItem.val), nl⟩ (vs.length + 6) := by
  refine ⟨hkt, hkv, ha, hnl, ?_⟩
  intro st k fuel htop hr hf
  have hr' : st.rest = (vt :: vr) ++ nl :: k := hr
  refine ⟨(itemsWarns vs).reverse, ?_⟩
  rw [parseValue_mlistToks h st nl k fuel hr' hf (by rw [htop.1]; omega) (by rw [htop.1]; simpa using htop.2)]
  rfl

/-! ## the same with the warnings tracked exactly -/

/-- like `VLine.OK`, but reading the value files exactly the warnings `vw` (emission order). -/
structure _root_.Octave.ListDocParse.VLine.OKX (ln : VLine) (F : Nat) (vw : List Warning) : Prop where
  kt : ln.kt.type = .identifier
  kv : ln.kt.value = .str ln.key
  a : ln.a.type = .assign
  nl : ln.nl.type = .newline
  reads : ∀ (st : PState) (k : List Token) (fuel : Nat), Top st → st.rest = ln.vt :: (ln.vr ++ ln.nl :: k) → F ≤ fuel →
    parseValue fuel st = .ok (ln.v, { st with rest := ln.nl :: k, prev := (ln.vt :: ln.vr).getLast?, pos := st.pos + (ln.vr.length + 1), warnings := vw.reverse ++ st.warnings })

theorem _root_.Octave.ListDocParse.VLine.OKX.mono {ln : VLine} {F F' : Nat} {vw : List Warning} (h : ln.OKX F vw) (hle : F ≤ F') :
    ln.OKX F' vw :=
  ⟨h.kt, h.kv, h.a, h.nl, fun st k fuel ht hr hf => h.reads st k fuel ht hr (Nat.le_trans hle hf)⟩

theorem _root_.Octave.ListDocParse.VLine.OKX.toW {ln : VLine} {F : Nat} {vw : List Warning} (h : ln.OKX F vw) : ln.OKW F :=
  ⟨h.kt, h.kv, h.a, h.nl, fun st k fuel ht hr hf => ⟨vw.reverse, h.reads st k fuel ht hr hf⟩⟩

theorem _root_.Octave.ListDocParse.VLine.OK.toX {ln : VLine} {F : Nat} (h : ln.OK F) : ln.OKX F [] :=
  ⟨h.kt, h.kv, h.a, h.nl, fun st k fuel ht hr hf => by rw [h.reads st k fuel ht hr hf]; rfl⟩

/-- a line with the warnings its value draws. -/
abbrev XLine := VLine × List Warning

/-- all parser warnings of the body loop, in emission order: per line the value's own, `parse_section`'s, the duplicate-key one. -/
def xdocWarns : KeyPos → List XLine → List Warning
  | _, [] => []
  | kp, x :: r => x.2 ++ x.1.warns ++ (trackPure kp x.1.key x.1.kt.line).2 ++ xdocWarns (trackPure kp x.1.key x.1.kt.line).1 r

theorem docLoop_vlinesX (vf F : Nat) (hF : F + 1 ≤ vf) (lines : List XLine) (e : Token) (tail : List Token)
    (he : e.type = .envelopeEnd ∨ e.type = .eof) :
    ∀ (st : PState) (acc : List Node) (kp : KeyPos) (extra : Nat), (∀ x ∈ lines, x.1.OKX F x.2) → Top st →
    st.rest = (lines.map Prod.fst).flatMap VLine.toks ++ e :: tail →
    ∃ st', docLoop vf (2 * lines.length + 1 + extra) [] acc kp st = .ok ((acc ++ (lines.map Prod.fst).map VLine.node, []), st') ∧
      st'.rest = e :: tail ∧ st'.warnings = (xdocWarns kp lines).reverse ++ st.warnings := by
  induction lines with
  | nil =>
    intro st acc kp extra _ _ hr
    have hr : st.rest = e :: tail := hr
    have hst : st = { st with rest := e :: tail } := by rw [← hr]
    refine ⟨st, ?_, hr, by simp [xdocWarns]⟩
    have hf : 2 * ([] : List XLine).length + 1 + extra = extra + 1 := by simp only [List.length_nil]; omega
    rw [hf, docLoop]
    conv => lhs; rw [hst]
    step_simp [he]
    rw [← hst]
    simp
  | cons x r ih =>
    intro st acc kp extra hok htop hr
    obtain ⟨ln, vw⟩ := x
    have h : ln.OKX F vw := hok (ln, vw) (by simp)
    obtain ⟨f', rfl⟩ : ∃ f', vf = f' + 1 := ⟨vf - 1, by omega⟩
    obtain ⟨u, K', hK⟩ : ∃ u K', (r.map Prod.fst).flatMap VLine.toks ++ e :: tail = u :: K' := by
      cases hx : (r.map Prod.fst).flatMap VLine.toks ++ e :: tail with
      | nil => simp at hx
      | cons u K' => exact ⟨u, K', rfl⟩
    have hr' : st.rest = ln.kt :: ln.a :: ln.vt :: (ln.vr ++ ln.nl :: u :: K') := by
      rw [hr, List.map_cons, List.flatMap_cons, List.append_assoc, hK]; simp [VLine.toks]
    have htop2 : Top ({ st with rest := ln.vt :: (ln.vr ++ ln.nl :: u :: K'), prev := some ln.a, pos := st.pos + 1 + 1 } : PState) := htop
    have hv := h.reads _ (u :: K') f' htop2 rfl (by omega)
    have hps := parseSection_value st _ ln.kt ln.a ln.vt (ln.vr ++ ln.nl :: u :: K') (u :: K') ln.key ln.v ln.nl f'
      h.kt h.kv h.a hr' hv rfl h.nl
    have hf : 2 * ((ln, vw) :: r).length + 1 + extra = (2 * r.length + 1 + extra) + 2 := by simp only [List.length_cons]; omega
    let s4 : PState := { st with rest := u :: K', prev := some ln.nl, pos := st.pos + 1 + 1 + (ln.vr.length + 1) + 1,
                                 warnings := (trackPure kp ln.key ln.kt.line).2 ++ (ln.warns ++ (vw.reverse ++ st.warnings)) }
    have hiter : docLoop (f' + 1) ((2 * r.length + 1 + extra) + 2) [] acc kp st
        = docLoop (f' + 1) (2 * r.length + 1 + extra) [] (acc ++ [ln.node]) (trackPure kp ln.key ln.kt.line).1 s4 :=
      docLoop_iter (f' + 1) _ st _ ln.kt _ _ ln.key ln.kt.line acc kp ln.nl u K' hr' h.kt hps rfl rfl h.nl
    obtain ⟨st', h1, h2, h3⟩ := ih s4 (acc ++ [VLine.node ln]) (trackPure kp ln.key ln.kt.line).1 extra
      (fun y hy => hok y (by simp [hy])) htop hK.symm
    refine ⟨st', ?_, h2, ?_⟩
    · rw [hf, hiter, h1]; simp
    · rw [h3]
      simp only [s4, xdocWarns, List.reverse_append, trackPure_warns_reverse, VLine.warns, lineWarns_reverse, List.append_assoc]

/-- **`parse_document` with the exact warnings**, for lines whose values draw warnings. -/
theorem parseDocument_vlinesX (f : Frame) (name : Str) (lines : List XLine) (F : Nat) (st : PState)
    (hok : ∀ x ∈ lines, x.1.OKX F x.2) (hF : F ≤ 2 * (vdocToks f name (lines.map Prod.fst)).length) (htop : Top st)
    (hm : vmetaFirst (lines.map Prod.fst) = false) (hr : st.rest = vdocToks f name (lines.map Prod.fst)) :
    ∃ st', parseDocument st = .ok (vdoc name (lines.map Prod.fst), st') ∧ st'.warnings = (xdocWarns [] lines).reverse ++ st.warnings := by
  have hokW : ∀ ln ∈ lines.map Prod.fst, ln.OKW F := by
    intro ln hln
    obtain ⟨x, hx, rfl⟩ := List.mem_map.mp hln
    exact (hok x hx).toW
  obtain ⟨u, K, hK, h1, h2, h3, h4, h5, h6⟩ := vbody_headW f (lines.map Prod.fst) F hokW hm
  have hlen : (vdocToks f name (lines.map Prod.fst)).length = K.length + 3 := by
    have := congrArg List.length hK
    simp only [vdocToks, List.length_cons, List.length_append, List.length_nil] at this ⊢
    omega
  have hlines : lines.length ≤ K.length + 1 := by
    have := congrArg List.length hK
    have h' := vlines_length_le (lines.map Prod.fst)
    simp only [List.length_cons, List.length_append, List.length_nil, List.length_map] at this h'
    omega
  have hst : st = { st with rest := f.envTok name :: f.nl0Tok :: u :: K } := by rw [← hK, ← vdocToks, ← hr]
  have t1 : (f.envTok name).type = .envelopeStart := rfl
  have t2 : (f.nl0Tok).type = .newline := rfl
  have t3 : (f.envTok name).value = .str name := rfl
  have t4 : (f.endTok).type = .envelopeEnd := rfl
  obtain ⟨extra, hextra⟩ : ∃ extra, 2 * (2 * ((f.envTok name :: f.nl0Tok :: u :: K).length + 2) + 10) = 2 * lines.length + 1 + extra :=
    ⟨2 * (2 * ((f.envTok name :: f.nl0Tok :: u :: K).length + 2) + 10) - (2 * lines.length + 1), by simp only [List.length_cons]; omega⟩
  obtain ⟨stD, hD1, hD2, hD3⟩ := docLoop_vlinesX (2 * ((f.envTok name :: f.nl0Tok :: u :: K).length + 2) + 10) F
    (by simp only [List.length_cons]; omega) lines f.endTok [f.nl1Tok, f.eofTok] (Or.inl rfl)
    { st with rest := u :: K, prev := some f.nl0Tok, pos := st.pos + 1 + 1 } [] [] extra hok htop hK.symm
  rw [← hextra] at hD1
  have hsD : stD = { stD with rest := [f.endTok, f.nl1Tok, f.eofTok] } := by rw [← hD2]
  refine ⟨{ stD with rest := [f.nl1Tok, f.eofTok], prev := some f.endTok, pos := stD.pos + 1 }, ?_, by rw [hD3]⟩
  rw [hst]
  unfold parseDocument
  simp (config := {zeta := false}) only [bind, StateT.bind, Except.bind, budget_mk]
  extract_lets n doc0 jp5 jp4 jp3 jp2 jp1
  step_simp [t1, t2, skipWhitespace_stop]
  simp only [jp1]
  step_simp [t1]
  simp only [jp2]
  step_simp [skipWhitespace_newline, pyStrVal_str, h1, h2, t1, t2, t3]
  simp only [jp3]
  step_simp [h6]
  simp only [jp4]
  step_simp [h3]
  simp only [jp5]
  step_simp []
  simp only [n]
  rw [hD1]
  simp only []
  rw [hsD]
  step_simp [t4, List.nil_append]
  rfl

/-- `KEY :: [ … ] NEWLINE` for a list of scalars and inline-map items in any layout, with exactly the items' warnings. -/
theorem vline_mlist_okX (kt a nl : Token) (key : Str) (vs : List PItem) (vt : Token) (vr : List Token)
    (h : MListToks vs (vt :: vr))
    (hkt : kt.type = .identifier) (hkv : kt.value = .str key) (ha : a.type = .assign) (hnl : nl.type = .newline) :
    VLine.OKX ⟨kt, key, a, vt, vr, .list (vs.map PItem.val), nl⟩ (vs.length + 6) (itemsWarns vs) := by
  refine ⟨hkt, hkv, ha, hnl, ?_⟩
  intro st k fuel htop hr hf
  have hr' : st.rest = (vt :: vr) ++ nl :: k := hr
  rw [parseValue_mlistToks h st nl k fuel hr' hf (by rw [htop.1]; omega) (by rw [htop.1]; simpa using htop.2)]
  rfl

end Octave.Maps
