import Octave.Lemmas.ZoneTreeLex
/-!
The lexer on documents whose body is a FOREST of `KEY::scalar` lines, `KEY:` blocks, ZONE ASSIGNMENTS (`KEY::` + a literal
zone) and BARE ZONES (a fence directly as a child, no key) in any order and at any depth (C05: "zones as assignment values
and as bare block children at every indent depth; several zones per document, adjacent to every other node kind").

A bare zone at depth `d` is written the way the emitter writes it: `indent marker tag`, the content lines VERBATIM (not
indented), `indent marker`.  It is ONE segment (`Seg.zone`) of `Lemmas/ZoneTreeLex.lean`, so `normalize_segs` (one span per
zone, text unchanged, contents not passed through NFC) and `tabCheck_segs` (tabs accepted inside every span) apply as they
are; the main loop consumes it by ONE fence-span step (`step_zone`) that yields FENCE_OPEN / LITERAL_CONTENT / FENCE_CLOSE /
NEWLINE — FENCE_OPEN at the column of the first backtick (`1 + 2·d`) and NO INDENT token before it.

The lexer does not care where a bare zone stands: everything here holds for bare zones at depth 0 too (the PARSER drops a
bare zone directly under the envelope; that restriction appears in `Lemmas/BareZoneParse.lean` only).

* `BNode`, `BNode.text`, `BNode.segs` (`BNode.text_segs`), `BNode.toksRev`, …: the forest, its text, its tokens;
* `run_bnode` / `run_bforest`: the main loop on any forest; `tokenize_btree`: the whole document.
-/
namespace Octave
open Lexer Scan Emitter

/-! ### forests of lines, blocks and zone assignments -/

/-- content of a document body: `KEY::scalar` lines, `KEY:` blocks with children, ZONE ASSIGNMENTS `KEY::` + literal
zone, and BARE zones — the fence lines alone (marker, the text `trailing` after the backticks of the open line, content LINES `C`: `C = []` is the empty zone,
`C = [[]]` the zone whose content is one empty line; for a content string `c`, `C = splitLines c`). -/
inductive BNode where
  | line (ln : FLine)
  | zone (key marker trailing : Str) (C : List Str)
  | bare (marker trailing : Str) (C : List Str)
  | block (key : Str) (children : List BNode)

mutual
def BNode.OK : BNode → Prop
  | .line ln => ln.OK
  | .zone key marker trailing C => isIdentifierText key = true ∧ hasReservedPrefix key = false ∧ isMarker marker = true ∧
      tagTextOK trailing = true ∧ ∀ l ∈ C, NoNl l ∧ contentLineOK marker l = true
  | .bare marker trailing C => isMarker marker = true ∧ tagTextOK trailing = true ∧ ∀ l ∈ C, NoNl l ∧ contentLineOK marker l = true
  | .block key cs => isIdentifierText key = true ∧ hasReservedPrefix key = false ∧ bforestOK cs
def bforestOK : List BNode → Prop
  | [] => True
  | n :: ns => n.OK ∧ bforestOK ns
end

mutual
/-- canonical text of a node at depth `d`: a zone is `indent KEY::`, `indent marker trailing`, the content lines verbatim,
`indent marker`. -/
def BNode.text (d : Nat) : BNode → Str
  | .line ln => indentStr d ++ (ln.text ++ ['\n'])
  | .zone key marker trailing C => indentStr d ++ (key ++ ':' :: ':' :: '\n' :: (zoneSpanText C (2 * d) marker trailing ++ ['\n']))
  | .bare marker trailing C => zoneSpanText C (2 * d) marker trailing ++ ['\n']
  | .block key cs => indentStr d ++ (key ++ ':' :: '\n' :: bforestText (d + 1) cs)
def bforestText (d : Nat) : List BNode → Str
  | [] => []
  | n :: ns => n.text d ++ bforestText d ns
end

mutual
def BNode.segs (d : Nat) : BNode → List Seg
  | .line ln => [.plain (indentStr d ++ ln.text)]
  | .zone key marker trailing C => [.plain (indentStr d ++ keyLine key), .zone C (2 * d) marker trailing]
  | .bare marker trailing C => [.zone C (2 * d) marker trailing]
  | .block key cs => .plain (indentStr d ++ (key ++ [':'])) :: bforestSegs (d + 1) cs
def bforestSegs (d : Nat) : List BNode → List Seg
  | [] => []
  | n :: ns => n.segs d ++ bforestSegs d ns
end

mutual
theorem BNode.text_segs : ∀ (n : BNode) (d : Nat), n.text d = segsText (n.segs d)
  | .line ln, d => by simp [BNode.text, BNode.segs, segsText, Seg.text]
  | .zone key marker trailing C, d => by simp [BNode.text, BNode.segs, segsText, Seg.text, keyLine]
  | .bare marker trailing C, d => by simp [BNode.text, BNode.segs, segsText, Seg.text]
  | .block key cs, d => by simp [BNode.text, BNode.segs, segsText, Seg.text, bforestText_segs cs (d + 1)]
theorem bforestText_segs : ∀ (ns : List BNode) (d : Nat), bforestText d ns = segsText (bforestSegs d ns)
  | [], d => rfl
  | n :: ns, d => by simp [bforestText, bforestSegs, segsText_append, BNode.text_segs n d, bforestText_segs ns d]
end

mutual
/-- number of text lines of a node. -/
def BNode.nlines : BNode → Nat
  | .line _ => 1
  | .zone _ _ _ C => C.length + 3
  | .bare _ _ C => C.length + 2
  | .block _ cs => 1 + bforestNLines cs
def bforestNLines : List BNode → Nat
  | [] => 0
  | n :: ns => n.nlines + bforestNLines ns
end
/-- tokens of a BARE zone at depth `d` whose open line is line `l`, newest first: FENCE_OPEN at the column of the first
backtick (`1 + 2·d`), NO INDENT token before it; the content lines joined by line breaks — exactly. -/
def bareToksRevAt (env : Env) (marker trailing : Str) (C : List Str) (d l : Nat) : List Token :=
  [tNewline (l + C.length + 1) (2 * d + marker.length + 1), tFenceClose marker (l + C.length + 1) 1,
   tLiteral (joinWith ['\n'] C) (l + 1) 1, tFenceOpen marker (tagOf env trailing) l (1 + 2 * d)]

mutual
def BNode.toksRev (env : Env) (d l : Nat) : BNode → List Token
  | .line ln => ln.toksRevAt d l
  | .zone key marker trailing C => zoneToksRevAt env key marker trailing C d l
  | .bare marker trailing C => bareToksRevAt env marker trailing C d l
  | .block key cs => bforestToksRev env (d + 1) (l + 1) cs ++ headerToksRev key d l
def bforestToksRev (env : Env) (d l : Nat) : List BNode → List Token
  | [] => []
  | n :: ns => bforestToksRev env d (l + n.nlines) ns ++ n.toksRev env d l
end

mutual
/-- receipts (identifier notes only — NONE from inside a zone), newest first. -/
def BNode.repsRev (d l : Nat) : BNode → List Repair
  | .line ln => ln.repsRev l (1 + 2 * d)
  | .zone key _ _ _ => (identifierRepairs key l (1 + 2 * d)).reverse
  | .bare _ _ _ => []
  | .block key cs => bforestRepsRev (d + 1) (l + 1) cs ++ (identifierRepairs key l (1 + 2 * d)).reverse
def bforestRepsRev (d l : Nat) : List BNode → List Repair
  | [] => []
  | n :: ns => bforestRepsRev d (l + n.nlines) ns ++ n.repsRev d l
end

mutual
/-- **one node at depth `d`**, with the spans of its zones (and `more`) pending: a line and a block header run through
the frame lemma, a zone assignment is its `KEY::` line (frame lemma) followed by ONE fence-span step that yields
FENCE_OPEN / LITERAL_CONTENT / FENCE_CLOSE / NEWLINE with the content verbatim and consumes the span. -/
theorem run_bnode (env : Env) (lenient : Bool) : ∀ (n : BNode) (d : Nat) (st : LState) (rest : Str) (more : List Span),
    st.blank = false → st.col = 1 → n.OK →
    st.spans = segSpans env st.pos (n.segs d) ++ more →
    (∀ sp ∈ more.head?, st.pos + (n.text d).length ≤ sp.start) →
    ∃ k st', Run env lenient k st (n.text d ++ rest) st' rest ∧
      AdvLS st st' (n.toksRev env d st.line) (n.repsRev d st.line) n.nlines (n.text d).length more
  | .line ln, d, st, rest, more, hb, hc, hok, hsp, hmore => by
    simp only [BNode.segs, segSpans, List.nil_append] at hsp
    obtain ⟨s1, r1, a1⟩ := run_tline env lenient (setSpans st []) ln d rest ⟨rfl, hb⟩ hc (by simpa [BNode.OK] using hok)
    have hlen : (indentStr d ++ (ln.text ++ '\n' :: rest)).length - rest.length = ((BNode.line ln).text d).length := by
      simp [BNode.text]; omega
    obtain ⟨f1, f2, _⟩ := framed r1 (by rw [hlen, hsp]; exact hmore)
    refine ⟨_, setSpans s1 st.spans, by simpa [BNode.text, List.append_assoc] using f1, ?_⟩
    have := a1.framed (dpos := ((BNode.line ln).text d).length) (by
      simp only [BNode.text, List.length_append, List.length_cons, List.length_nil] at f2 ⊢; omega)
    exact ⟨by rw [this.spans, hsp], this.blank, this.pos, by rw [this.toks]; simp only [BNode.toksRev]; rfl,
      by rw [this.repairs]; simp only [BNode.repsRev]; rfl, this.stack, by rw [this.line]; rfl, this.col⟩
  | .zone key marker trailing C, d, st, rest, more, hb, hc, hok, hsp, hmore => by
    obtain ⟨hk1, hk2, hm, ht, hC⟩ := hok
    -- the `KEY::` line
    obtain ⟨s1, r1, a1⟩ := run_zkeyline env lenient (setSpans st []) key d
      (zoneSpanText C (2 * d) marker trailing ++ '\n' :: rest) ⟨rfl, hb⟩ hc hk1 hk2
    have hklen : (indentStr d ++ keyLine key).length + 1 = 2 * d + key.length + 3 := by
      simp [keyLine, indentStr_length]; omega
    simp only [BNode.segs, segSpans, List.cons_append, List.nil_append] at hsp
    obtain ⟨f1, f2, _⟩ := framed r1 (by
      rw [hsp]
      intro sp hsp'
      simp only [List.head?_cons, Option.mem_def, Option.some.injEq] at hsp'
      subst hsp'
      simp only [List.length_append, List.length_cons, indentStr_length] at hklen ⊢
      omega)
    have p1 : s1.pos = st.pos + ((indentStr d ++ keyLine key).length + 1) := by
      simp only [List.length_append, List.length_cons, indentStr_length] at f2 hklen ⊢
      omega
    have ak := a1.framed (dpos := (indentStr d ++ keyLine key).length + 1) p1
    -- the zone
    obtain ⟨s2, e2, a2⟩ := step_zone env lenient (setSpans s1 st.spans)
      { start := st.pos + ((indentStr d ++ keyLine key).length + 1),
        stop := st.pos + ((indentStr d ++ keyLine key).length + 1) + (zoneSpanText C (2 * d) marker trailing).length,
        marker := marker, tag := tagOf env trailing }
      more C (2 * d) marker trailing rest (by rw [setSpans_spans, hsp]) (by rw [setSpans_pos, p1]) rfl hm ht (fun l hl => (hC l hl).1)
    have hne : zoneSpanText C (2 * d) marker trailing ++ '\n' :: rest ≠ [] := by simp
    refine ⟨indentSteps d + 3 + 1, s2, ?_, ?_⟩
    · have := Run.trans f1 (Run.one' hne e2)
      simpa [BNode.text, List.append_assoc] using this
    · have l1 : (setSpans s1 st.spans).line = st.line + 1 := ak.line
      have c1 : (setSpans s1 st.spans).col = 1 := ak.col
      rw [l1, c1] at a2
      refine ⟨a2.spans, a2.blank, ?_, ?_, ?_, ?_, ?_, a2.col⟩
      · rw [a2.pos, ak.pos]
        have e2 : ("::".toList).length = 2 := rfl
        simp only [BNode.text, keyLine, List.length_append, List.length_cons, List.length_nil, e2]; omega
      · rw [a2.toks, ak.toks]
        simp only [BNode.toksRev, zoneToksRevAt, List.cons_append, List.nil_append]
        rfl
      · rw [a2.repairs, ak.repairs]; rfl
      · rw [a2.stack, ak.stack]
      · rw [a2.line, l1]; simp only [BNode.nlines]; omega
  | .bare marker trailing C, d, st, rest, more, hb, hc, hok, hsp, hmore => by
    obtain ⟨hm, ht, hC⟩ := hok
    simp only [BNode.segs, segSpans, List.cons_append, List.nil_append] at hsp
    obtain ⟨s2, e2, a2⟩ := step_zone env lenient st
      { start := st.pos, stop := st.pos + (zoneSpanText C (2 * d) marker trailing).length,
        marker := marker, tag := tagOf env trailing }
      more C (2 * d) marker trailing rest hsp rfl rfl hm ht (fun l hl => (hC l hl).1)
    have hne : zoneSpanText C (2 * d) marker trailing ++ '\n' :: rest ≠ [] := by simp
    refine ⟨1, s2, ?_, ?_⟩
    · have := Run.one' hne e2
      simpa [BNode.text, List.append_assoc] using this
    · rw [hc] at a2
      refine ⟨a2.spans, a2.blank, ?_, ?_, ?_, a2.stack, ?_, a2.col⟩
      · rw [a2.pos]
        simp only [BNode.text, List.length_append, List.length_cons, List.length_nil]
      · rw [a2.toks]
        simp only [BNode.toksRev, bareToksRevAt, List.cons_append, List.nil_append]
      · rw [a2.repairs]; rfl
      · rw [a2.line]; simp only [BNode.nlines]
  | .block key cs, d, st, rest, more, hb, hc, hok, hsp, hmore => by
    simp only [BNode.OK] at hok
    obtain ⟨s1, r1, a1⟩ := run_header env lenient (setSpans st []) key d (bforestText (d + 1) cs ++ rest) ⟨rfl, hb⟩ hc hok.1 hok.2.1
    have hhlen : (indentStr d ++ (key ++ [':'])).length + 1 = 2 * d + key.length + 2 := by
      simp [indentStr_length]; omega
    simp only [BNode.segs, segSpans] at hsp
    have htext : ((BNode.block key cs).text d).length = (indentStr d ++ (key ++ [':'])).length + 1 + (bforestText (d + 1) cs).length := by
      simp [BNode.text]; omega
    have hmore' : ∀ sp ∈ more.head?, st.pos + ((indentStr d ++ (key ++ [':'])).length + 1) + (segsText (bforestSegs (d + 1) cs)).length ≤ sp.start := by
      intro sp h
      have := hmore sp h
      rw [htext, bforestText_segs] at this
      omega
    obtain ⟨f1, f2, _⟩ := framed r1 (by
      rw [hsp]
      intro sp hsp'
      have := segSpans_ahead env (bforestSegs (d + 1) cs) _ more hmore' sp hsp'
      simp only [List.length_append, List.length_cons, List.length_nil, indentStr_length] at this hhlen ⊢
      omega)
    have p1 : s1.pos = st.pos + ((indentStr d ++ (key ++ [':'])).length + 1) := by
      simp only [List.length_append, List.length_cons, List.length_nil, indentStr_length] at f2 hhlen ⊢
      omega
    have ah := a1.framed (dpos := (indentStr d ++ (key ++ [':'])).length + 1) p1
    obtain ⟨k2, s2, r2, a2⟩ := run_bforest env lenient cs (d + 1) (setSpans s1 st.spans) rest more ah.blank ah.col hok.2.2
      (by rw [setSpans_spans, hsp, setSpans_pos, p1])
      (by rw [setSpans_pos, p1, bforestText_segs]; exact hmore')
    refine ⟨indentSteps d + 3 + k2, s2, ?_, ?_⟩
    · have := Run.trans f1 r2
      simpa [BNode.text, List.append_assoc] using this
    · have h := ah.trans a2
      rw [ah.line] at h
      refine ⟨h.spans, h.blank, ?_, ?_, ?_, h.stack, ?_, h.col⟩
      · rw [h.pos, htext]
      · rw [h.toks]; rfl
      · rw [h.repairs]; rfl
      · rw [h.line]; rfl
/-- **a list of sibling nodes at depth `d`**, any depth and width below, any number of zones. -/
theorem run_bforest (env : Env) (lenient : Bool) : ∀ (ns : List BNode) (d : Nat) (st : LState) (rest : Str) (more : List Span),
    st.blank = false → st.col = 1 → bforestOK ns →
    st.spans = segSpans env st.pos (bforestSegs d ns) ++ more →
    (∀ sp ∈ more.head?, st.pos + (bforestText d ns).length ≤ sp.start) →
    ∃ k st', Run env lenient k st (bforestText d ns ++ rest) st' rest ∧
      AdvLS st st' (bforestToksRev env d st.line ns) (bforestRepsRev d st.line ns) (bforestNLines ns) (bforestText d ns).length more
  | [], d, st, rest, more, hb, hc, _, hsp, _ =>
    ⟨0, st, by simpa [bforestText] using Run.refl st rest,
      ⟨by simpa [bforestSegs, segSpans] using hsp, hb, by simp [bforestText], by simp [bforestToksRev], by simp [bforestRepsRev], rfl,
       by simp [bforestNLines], hc⟩⟩
  | n :: ns, d, st, rest, more, hb, hc, hok, hsp, hmore => by
    simp only [bforestOK] at hok
    simp only [bforestSegs, segSpans_append, List.append_assoc] at hsp
    have htext : (bforestText d (n :: ns)).length = (n.text d).length + (bforestText d ns).length := by
      simp [bforestText]
    have hmore1 : ∀ sp ∈ (segSpans env (st.pos + (segsText (n.segs d)).length) (bforestSegs d ns) ++ more).head?,
        st.pos + (n.text d).length ≤ sp.start := by
      rw [BNode.text_segs]
      apply segSpans_ahead
      intro sp h
      have := hmore sp h
      rw [htext, BNode.text_segs, bforestText_segs] at this
      omega
    obtain ⟨k1, s1, r1, a1⟩ := run_bnode env lenient n d st (bforestText d ns ++ rest) _ hb hc hok.1 hsp hmore1
    obtain ⟨k2, s2, r2, a2⟩ := run_bforest env lenient ns d s1 rest more a1.blank a1.col hok.2
      (by rw [a1.spans, a1.pos, BNode.text_segs])
      (by intro sp h; have := hmore sp h; rw [htext] at this; rw [a1.pos]; omega)
    refine ⟨k1 + k2, s2, ?_, ?_⟩
    · have := Run.trans r1 r2
      simpa [bforestText, List.append_assoc] using this
    · have h := a1.trans a2
      rw [a1.line] at h
      refine ⟨h.spans, h.blank, by rw [h.pos, htext], ?_, ?_, h.stack, ?_, h.col⟩
      · rw [h.toks]; rfl
      · rw [h.repairs]; rfl
      · rw [h.line]; rfl
end

mutual
theorem BNode.segs_wf : ∀ (n : BNode) (d : Nat), n.OK → ∀ s ∈ n.segs d, s.WF
  | .line ln, d, hok, s, hs => by
    simp only [BNode.segs, List.mem_singleton] at hs
    subst hs; exact plain_wf d _ (bodyOK_line ln (by simpa [BNode.OK] using hok))
  | .zone key marker trailing C, d, hok, s, hs => by
    obtain ⟨hk1, _, hm, ht, hC⟩ := hok
    simp only [BNode.segs, List.mem_cons, List.mem_nil_iff, or_false] at hs
    rcases hs with h | h
    · subst h; exact plain_wf d _ (bodyOK_zkey key hk1)
    · subst h; exact ⟨hm, ht, hC⟩
  | .bare marker trailing C, d, hok, s, hs => by
    simp only [BNode.segs, List.mem_singleton] at hs
    subst hs; exact hok
  | .block key cs, d, hok, s, hs => by
    simp only [BNode.OK] at hok
    simp only [BNode.segs, List.mem_cons] at hs
    rcases hs with h | h
    · subst h; exact plain_wf d _ (bodyOK_header key hok.1)
    · exact bforestSegs_wf cs (d + 1) hok.2.2 s h
theorem bforestSegs_wf : ∀ (ns : List BNode) (d : Nat), bforestOK ns → ∀ s ∈ bforestSegs d ns, s.WF
  | [], d, _, s, hs => by simp [bforestSegs] at hs
  | n :: ns, d, hok, s, hs => by
    simp only [bforestOK] at hok
    simp only [bforestSegs, List.mem_append] at hs
    rcases hs with h | h
    · exact BNode.segs_wf n d hok.1 s h
    · exact bforestSegs_wf ns d hok.2 s h
end

/-! ### the whole document -/

/-- canonical text of a document whose body is a forest of lines, blocks and zone assignments. -/
def bdocText (name : Str) (nodes : List BNode) : Str :=
  envLine name ++ '\n' :: (bforestText 0 nodes ++ ("===END===".toList ++ ['\n']))

def bdocSegs (name : Str) (nodes : List BNode) : List Seg :=
  .plain (envLine name) :: (bforestSegs 0 nodes ++ [.plain "===END===".toList])

theorem bdocText_segs (name : Str) (nodes : List BNode) : bdocText name nodes = segsText (bdocSegs name nodes) := by
  simp [bdocText, bdocSegs, segsText, segsText_append, Seg.text, bforestText_segs]

/-- the lines of the document that are passed through NFC (all but the zone contents), and the empty last line. -/
def bdocNfcLines (name : Str) (nodes : List BNode) : List Str := segsNfcLines (bdocSegs name nodes) ++ [[]]

/-- its tokens, newest first (without EOF). -/
def bdocToksRev (env : Env) (name : Str) (nodes : List BNode) : List Token :=
  [tNewline (bforestNLines nodes + 2) 10, tEnvEnd (bforestNLines nodes + 2) 1] ++ bforestToksRev env 0 2 nodes ++
  [tNewline 1 (1 + (name.length + 6)), tEnvStart name 1 1]

/-- its tokens in reading order, EOF included. -/
def bdocToks (env : Env) (name : Str) (nodes : List BNode) : List Token :=
  (tEof (bforestNLines nodes + 3) 1 :: bdocToksRev env name nodes).reverse

theorem bdocSegs_wf (name : Str) (nodes : List BNode) (hn : isEnvName name = true) (hok : bforestOK nodes) :
    ∀ s ∈ bdocSegs name nodes, s.WF := by
  intro s hs
  simp only [bdocSegs, List.mem_cons, List.mem_append, List.mem_nil_iff, or_false] at hs
  rcases hs with h | h | h
  · subst h; exact ⟨envLine_clean name hn, envLine_fenceFree name⟩
  · exact bforestSegs_wf nodes 0 hok s h
  · subst h; exact ⟨clean_lit _ (by decide), by decide⟩

/-- **the main loop on the whole document**: from the initial state, with ONE SPAN PER ZONE pending, the iterations
consume the text. -/
theorem run_bdoc (env : Env) (lenient : Bool) (name : Str) (nodes : List BNode)
    (hn : isEnvName name = true) (hne : name ≠ "END".toList) (hok : bforestOK nodes) :
    ∃ k st', Run env lenient k ({ spans := segSpans env 0 (bdocSegs name nodes) } : LState) (bdocText name nodes) st' [] ∧
      st'.toks = bdocToksRev env name nodes ∧ st'.repairs = bforestRepsRev 0 2 nodes ∧ st'.stack = [] ∧
      st'.line = bforestNLines nodes + 3 ∧ st'.col = 1 := by
  let st0 : LState := { spans := segSpans env 0 (bdocSegs name nodes) }
  let tail : Str := bforestText 0 nodes ++ ("===END===".toList ++ ['\n'])
  have hspans : st0.spans = segSpans env ((envLine name).length + 1) (bforestSegs 0 nodes) := by
    show segSpans env 0 (bdocSegs name nodes) = _
    simp only [bdocSegs, segSpans, segSpans_append, Nat.zero_add, List.append_nil]
  -- `===NAME===`, line break: through the frame lemma
  obtain ⟨s1, e1, a1⟩ := step_envStart env lenient (setSpans st0 []) name ('\n' :: tail) rfl hn hne
  obtain ⟨s2, e2, a2⟩ := step_newline env lenient s1 tail a1.ready
  have r12 : Run env lenient 2 (setSpans st0 []) (envLine name ++ '\n' :: tail) s2 tail :=
    Run.cons' (by simp [envLine]) (by simpa [envLine] using e1) (Run.one e2)
  have hlen : (envLine name ++ '\n' :: tail).length - tail.length = (envLine name).length + 1 := by
    simp only [List.length_append, List.length_cons]; omega
  obtain ⟨f1, f2, _⟩ := framed r12 (by
    rw [hlen, hspans]
    intro sp hsp
    have := segSpans_ahead env (bforestSegs 0 nodes) ((envLine name).length + 1) [] (by simp) sp (by simpa using hsp)
    show 0 + _ ≤ _
    omega)
  have p2 : s2.pos = (envLine name).length + 1 := by
    have : st0.pos = 0 := rfl
    simp only [List.length_append, List.length_cons, this] at f2 ⊢; omega
  have a12 := a1.trans a2
  -- the forest
  obtain ⟨k3, s3, r3, a3⟩ := run_bforest env lenient nodes 0 (setSpans s2 st0.spans) ("===END===".toList ++ ['\n']) []
    a2.ready.blank a2.col hok (by rw [setSpans_spans, setSpans_pos, p2, hspans, List.append_nil]) (by simp)
  have hr3 : Ready s3 := ⟨a3.spans, a3.blank⟩
  -- `===END===`, line break
  obtain ⟨s4, e4, a4⟩ := step_envEnd env lenient s3 ['\n'] hr3
  obtain ⟨s5, e5, a5⟩ := step_newline env lenient s4 [] a4.ready
  have run : Run env lenient (2 + (k3 + 2)) st0 (bdocText name nodes) s5 [] :=
    Run.trans f1 (Run.trans r3 (Run.cons' (by simp) e4 (Run.one e5)))
  refine ⟨_, s5, run, ?_, ?_, ?_, ?_, a5.col⟩
  · have l2 : (setSpans s2 st0.spans).line = 2 := by
      show s2.line = 2
      rw [a12.line]; rfl
    have l3 : s3.line = bforestNLines nodes + 2 := by rw [a3.line, l2]; omega
    have l4 : s4.line = bforestNLines nodes + 2 := by rw [a4.line, l3]
    have c3 : s3.col = 1 := a3.col
    have c4 : s4.col = 10 := by rw [a4.col, c3]
    have t2 : (setSpans s2 st0.spans).toks = [tNewline 1 (1 + (name.length + 6)), tEnvStart name 1 1] := by
      show s2.toks = _
      rw [a12.toks]
      have l1 : s1.line = 1 := by rw [a1.line]; rfl
      have c1 : s1.col = 1 + (name.length + 6) := a1.col
      rw [l1, c1]; rfl
    rw [a5.toks, a4.toks, a3.toks, t2, l2, l3, l4, c3, c4]
    simp [bdocToksRev]
  · have l2 : (setSpans s2 st0.spans).line = 2 := by
      show s2.line = 2
      rw [a12.line]; rfl
    have rp2 : (setSpans s2 st0.spans).repairs = [] := by
      show s2.repairs = _
      rw [a12.repairs]; rfl
    rw [a5.repairs, a4.repairs, a3.repairs, rp2, l2]; simp
  · rw [a5.stack, a4.stack, a3.stack]
    show s2.stack = []
    rw [a12.stack]; rfl
  · rw [a5.line, a4.line, a3.line]
    have l2 : (setSpans s2 st0.spans).line = 2 := by
      show s2.line = 2
      rw [a12.line]; rfl
    rw [l2]; omega

/-- **The lexer on the canonical text of a document with literal zones anywhere, keyed or BARE** — a forest of
`KEY::scalar` lines, `KEY:` blocks, zone assignments and bare zones in ANY order, at ANY depth, ANY number of zones, each
with ANY marker of three or more backticks, any tag text and ANY content lines none of which closes its fence; both lexer
modes; every environment whose NFC leaves the lines OUTSIDE the zone contents alone (nothing is assumed about NFC, or
anything else in `env`, on the contents): `tokenize` succeeds with exactly `bdocToks` — for every zone FENCE_OPEN (marker,
tag, column of the first backtick; for a bare zone NO INDENT token before it) / LITERAL_CONTENT (the content lines joined
by line breaks, exactly) / FENCE_CLOSE / NEWLINE, every other line tokenised as without the zones, on the right line
numbers — and the only receipts are the identifier notes of keys and bare words outside the zones. -/
theorem tokenize_btree (env : Env) (lenient : Bool) (name : Str) (nodes : List BNode)
    (hn : isEnvName name = true) (hne : name ≠ "END".toList) (hok : bforestOK nodes)
    (hnfc : ∀ l ∈ bdocNfcLines name nodes, env.nfc l = l) :
    tokenize env (bdocText name nodes) lenient = .ok (bdocToks env name nodes, (bforestRepsRev 0 2 nodes).reverse) := by
  have hwf := bdocSegs_wf name nodes hn hok
  have hall : ∀ s ∈ bdocSegs name nodes, s.OK env ∧ s.noTab := fun s hs =>
    Seg.ok_of_wf env s (hwf s hs) (fun l hl => hnfc l (by
      simp only [bdocNfcLines, List.mem_append]; exact Or.inl (mem_segsNfcLines hs l hl)))
  have hnorm := normalize_segs env (bdocSegs name nodes) (fun s hs => (hall s hs).1) (hnfc [] (by simp [bdocNfcLines]))
  have htab := tabCheck_segsText env (bdocSegs name nodes) (fun s hs => (hall s hs).2)
  obtain ⟨k, st', run, ht, hr, hs, hl, hc⟩ := run_bdoc env lenient name nodes hn hne hok
  have hloop := loop_of_run env lenient _ _ st' (bdocText name nodes) run (segSpans_ok env _ 0)
  rw [← bdocText_segs] at hnorm htab
  unfold tokenize
  simp only [hnorm, htab, hloop, bind, Except.bind, hs, List.getLast?_nil, ht, hr, hl, hc]
  rfl

end Octave
