/-
C03 on NESTED BLOCKS — an INDENTED `===END===` behind a block tree: the LEXER half (parser half: `EndIndentParse`).

`run_fdoc` / `tokenize_framed` of `TreeSpellLex` without the hypothesis `ds.endIndent = 0`: the spaces in front of `===END===`
become ONE `INDENT(endIndent)` token at column 1 of that line (none when `endIndent = 0` or when `===END===` is omitted), exactly as
in front of a key; everything else is the token list of `TreeSpellLex`.
-/
import Octave.Lemmas.TreeSpellLex
import Octave.Lemmas.EndIndentParse
namespace Octave.C03.TreeSpell
open Octave Lexer Scan Emitter Spell SpellParse

/-- exactly when the INDENT token is there: `===END===` present and indented. -/
def endIndShape (ds : DSpell) (il : Nat) (e : Token) (tail R : List Token) : Prop :=
  (R = e :: tail ∧ (ds.endIndent = 0 ∨ ds.endOmitted = true)) ∨
  (R = indAt (ds.endIndent, il, 1) :: e :: tail ∧ 0 < ds.endIndent ∧ ds.endOmitted = false)

theorem endIndShape.toR {ds : DSpell} {il : Nat} {e : Token} {tail R : List Token} (h : endIndShape ds il e tail R) :
    endIndR ds.endIndent il 1 e tail R := by
  rcases h with h | h
  · exact Or.inl h.1
  · exact Or.inr h.1

/-- the tokens behind the forest are of the shape the parser half reads. -/
theorem endIndR_of_shape (ds : DSpell) (l : Nat) (e : Token) (tail : List Token) :
    ∃ e0 k0, (endIndOf ds l).map indAt ++ e :: tail = e0 :: k0 ∧ endIndShape ds l e tail (e0 :: k0) := by
  unfold endIndOf indPos
  by_cases ho : ds.endOmitted = true
  · exact ⟨e, tail, by simp [ho], Or.inl ⟨rfl, Or.inr ho⟩⟩
  · by_cases h0 : ds.endIndent = 0
    · exact ⟨e, tail, by simp [ho, h0], Or.inl ⟨rfl, Or.inl h0⟩⟩
    · exact ⟨indAt (ds.endIndent, l, 1), e :: tail, by simp [ho, h0], Or.inr ⟨rfl, Nat.pos_of_ne_zero h0, by simpa using ho⟩⟩

theorem endInd_run_fdoc (env : Env) (lenient : Bool) (name : Str) (nodes : List SNode) (ds : DSpell)
    (hn : isEnvName name = true) (hne : name ≠ "END".toList) (hok : treeOK (eraseList nodes)) :
    ∃ e tail il e0 k0, (e.type = .envelopeEnd ∨ e.type = .eof) ∧ endIndShape ds il e tail (e0 :: k0) ∧
    ∃ n st', Run env lenient n ({ spans := [] } : LState) (fdocText name nodes ds) st' [] ∧
      (tEof st'.line st'.col :: st'.toks).reverse
        = endIndDocToks name 1 1 (1, 1 + (name.length + 6) + ds.envTrail) (blankPos 2 ds.envBlank) (firstLine ds) nodes (e0 :: k0) ∧
      st'.repairs.reverse = (srepsRev 0 (firstLine ds) nodes).reverse ∧ st'.stack = [] := by
  obtain ⟨n5, s5, r5, hr5, t5, p5, k5, l5, c5⟩ := run_front env lenient name [] ds (stext 0 nodes (endText ds)) hn hne (by simp)
  have l5' : s5.line = firstLine ds := by rw [l5]; rfl
  obtain ⟨n6, s6, r6, a6⟩ := run_stree env lenient nodes 0 s5 (endText ds) hr5 c5 hok
  obtain ⟨n7, s7, r7, h7t, h7r, h7s⟩ := run_end env lenient ds s6 a6.ready a6.col
  obtain ⟨e, tail, hsh, he⟩ := endToks_shape ds s6.line
  obtain ⟨e0, k0, hek, hR⟩ := endIndR_of_shape ds s6.line e tail
  refine ⟨e, tail, s6.line, e0, k0, he, hR, _, s7, Run.trans (Run.trans r5 r6) r7, ?_, ?_, ?_⟩
  · rw [h7t, List.reverse_append, hsh, hek, a6.toks, t5, l5', List.reverse_append, stoksRev_reverse, List.append_assoc,
      frontToks_bridge]
    simp only [toSLines, List.flatMap_nil, List.nil_append, endIndDocToks]
  · rw [h7r, a6.repairs, p5, l5']; simp [slinesRepsRev]
  · rw [h7s, a6.stack, k5]

/-- **the lexer on every spelling of a block tree in every spelling of the frame, `===END===` indented or not.** -/
theorem endInd_tokenize_framed (env : Env) (lenient : Bool) (name : Str) (nodes : List SNode) (ds : DSpell)
    (hn : isEnvName name = true) (hne : name ≠ "END".toList) (hok : treeOK (eraseList nodes))
    (hnfc : ∀ l ∈ splitLines (fdocText name nodes ds), env.nfc l = l) :
    ∃ e tail il e0 k0, (e.type = .envelopeEnd ∨ e.type = .eof) ∧ endIndShape ds il e tail (e0 :: k0) ∧
      tokenize env (fdocText name nodes ds) lenient
        = .ok (endIndDocToks name 1 1 (1, 1 + (name.length + 6) + ds.envTrail) (blankPos 2 ds.envBlank) (firstLine ds) nodes (e0 :: k0),
               (srepsRev 0 (firstLine ds) nodes).reverse) := by
  obtain ⟨e, tail, il, e0, k0, he, hR, hrun⟩ := endInd_run_fdoc env lenient name nodes ds hn hne hok
  exact ⟨e, tail, il, e0, k0, he, hR, tokenize_of_run env lenient _ _ _ (fdoc_fine name nodes ds hn hok) hnfc hrun⟩

end Octave.C03.TreeSpell
