/-
Glue between the lexer half (`Lemmas/ULex`: concrete positions, any spelling) and the parser half (`Lemmas/UParse`: arbitrary
positions, generic values) of the UNIFIED round trip.

* `lineToQ`, `UT.toQ` / `utToQ`   the lexer's description of a spelled forest in the vocabulary of the parser half;
* `lineToQ_ok`                     every line — scalar, list in either layout, expression in any spelling — satisfies `QLine.OK`
                                   (instances `qline_scalar_ok` / `qline_list_ok` / `qline_expr_ok`);
* `utToks_toQ`, `utDocToks_bridge` the two descriptions of the token list agree;
* `utWf_toQ`                       the lexer's columns satisfy the parser half's conditions `wf`;
* `UT.nodeAt` / `utNodesAt`, `nodeList_toQ`   the AST read back: every node at its text line, column `1 + 2·depth`;
* `UT.content`, `utNodesAt_match`  … which carries exactly the content of the forest, whatever the spelling;
* `uDoc`, `utNodesAt_canon`        for the canonical spelling: the document `uDoc name canonPos nodes`.
* `UNode.vcontent`, `unodesVContent_of_matches`   position-free content (`SContent`): an AST determines the content it carries.
-/
import Octave.Lemmas.ULex
import Octave.Lemmas.UParse
import Octave.Lemmas.SectBridge
namespace Octave.U
open Octave Lexer Emitter
open Octave.UParse (QLine QNode toksList nodeList wfList metaFirstQ docToks qdoc qline_scalar_ok qline_list_ok qline_expr_ok)
open Octave.ListDoc (tLb tRb tComma indToks inlineToks needsMulti)
open Octave.ListDocParse (AllWs HeadToks ListToks)
open Octave.Expr (tailToksRev)

/-! ### one line -/

/-- the warnings `parse_value` raises on the value (newest first): only an expression draws any (`bare_flow` per `→`,
`constraint_outside_brackets` per `∧`, `chained_tension`). -/
def UValue.pwarns (sp : VSp) (l c : Nat) : UValue → List Parser.Warning
  | .expr e => Expr.exprWarnsRev (tailToksRev l (c + e.head.length) e.tail sp.ops).reverse
  | _ => []

theorem UValue.toks_ne_nil (v : UValue) (sp : VSp) (l c : Nat) : v.toks sp l c ≠ [] := by
  cases v with
  | scalar s => simp [UValue.toks]
  | list items =>
    obtain ⟨lay, ops⟩ := sp
    cases lay <;> cases items <;> simp [UValue.toks, inlineToks, cmultiToks]
  | expr e => simp [UValue.toks]

/-- the line `KEY::value` at depth `d`, text line `l`, as the parser half describes it. -/
def lineToQ (key : Str) (v : UValue) (sp : VSp) (d l : Nat) : QLine :=
  { il := l, ic := 1, kt := tIdent key l (1 + 2 * d), key := key, a := tAssign l (1 + 2 * d + key.length),
    vt := (v.toks sp l (1 + 2 * d + key.length + 2)).headD default,
    vr := (v.toks sp l (1 + 2 * d + key.length + 2)).tail,
    v := v.value, vw := v.pwarns sp l (1 + 2 * d + key.length + 2),
    nl := tNewline (l + v.height sp) (v.endCol sp (1 + 2 * d + key.length + 2)) }

theorem lineToQ_vtoks (key : Str) (v : UValue) (sp : VSp) (d l : Nat) :
    (lineToQ key v sp d l).vt :: (lineToQ key v sp d l).vr = v.toks sp l (1 + 2 * d + key.length + 2) := by
  obtain ⟨t, r, h⟩ := List.exists_cons_of_ne_nil (UValue.toks_ne_nil v sp l (1 + 2 * d + key.length + 2))
  simp only [lineToQ, h, List.headD_cons, List.tail_cons]

theorem lineToQ_toks (key : Str) (v : UValue) (sp : VSp) (d l : Nat) :
    (lineToQ key v sp d l).toks = tIdent key l (1 + 2 * d) :: tAssign l (1 + 2 * d + key.length) ::
      (v.toks sp l (1 + 2 * d + key.length + 2) ++ [tNewline (l + v.height sp) (v.endCol sp (1 + 2 * d + key.length + 2))]) := by
  have h := lineToQ_vtoks key v sp d l
  simp only [QLine.toks]
  rw [← List.cons_append, h]
  rfl

theorem allWs_nil : AllWs [] := fun _ h => by cases h
theorem allWs_nl_ind (ind l c l' : Nat) : AllWs (tNewline l c :: indToks ind l') := ListDoc.allWs_nl_ind ind l c l'

theorem headToks_cmulti (ind cind : Nat) (r : List FScalar) : ∀ (x : FScalar) (ws : List Token) (l c l' c' : Nat), AllWs ws →
    HeadToks ((x :: r).map FScalar.toP) (ws ++ x.tok l c :: cmultiTailToks ind cind l' c' r) := by
  induction r with
  | nil =>
    intro x ws l c l' c' hws
    have := HeadToks.last ws x.toP l c (tNewline l' c' :: indToks cind (l' + 1)) (tRb (l' + 1) (1 + cind)) hws (allWs_nl_ind _ _ _ _) rfl
    simpa [cmultiTailToks, closeToks, FScalar.tok_toP] using this
  | cons y r ih =>
    intro x ws l c l' c' hws
    have := HeadToks.more ws x.toP l c (tComma l' c') _ _ hws rfl
      (ih y (tNewline l' (c' + 1) :: indToks ind (l' + 1)) (l' + 1) (1 + ind) (l' + 1) (1 + ind + y.text.length) (allWs_nl_ind _ _ _ _))
    simpa [cmultiTailToks, FScalar.tok_toP] using this

/-- the lexer's tokens of a list value in the multi-line layout with an indented closing bracket are a `ListToks`: the
NEWLINE and INDENT tokens between the brackets are list whitespace. -/
theorem cmultiToks_ok (ind cind l c : Nat) (items : List FScalar) :
    ListToks (items.map FScalar.toP) (cmultiToks ind cind l c items) := by
  cases items with
  | nil =>
    have := ListToks.empty (tLb l c) (tNewline l (c + 1) :: indToks cind (l + 1)) (tRb (l + 1) (1 + cind)) rfl (allWs_nl_ind _ _ _ _) rfl
    simpa [cmultiToks, closeToks] using this
  | cons x r =>
    exact ListToks.items (tLb l c) _ _ rfl
      (headToks_cmulti ind cind r x (tNewline l (c + 1) :: indToks ind (l + 1)) (l + 1) (1 + ind) (l + 1) (1 + ind + x.text.length)
        (allWs_nl_ind _ _ _ _))

/-- **every line of the class satisfies the parser half's `QLine.OK`** — the scalar, list (either layout) and expression
(any spelling) instances of the generic scheme. -/
theorem lineToQ_ok (key : Str) (v : UValue) (sp : VSp) (d l : Nat) (hv : v.OK) : (lineToQ key v sp d l).OK := by
  cases v with
  | scalar s =>
    have := qline_scalar_ok l 1 (tIdent key l (1 + 2 * d)) (tAssign l (1 + 2 * d + key.length))
      (tNewline (l + 0) ((1 + 2 * d + key.length + 2) + s.text.length)) key s.toP l (1 + 2 * d + key.length + 2) rfl rfl rfl rfl
    rw [← FScalar.tok_toP, FScalar.val_toP] at this
    exact this
  | list items =>
    have hl : ListToks (items.map FScalar.toP)
        ((lineToQ key (.list items) sp d l).vt :: (lineToQ key (.list items) sp d l).vr) := by
      rw [lineToQ_vtoks]
      obtain ⟨lay, ops⟩ := sp
      cases lay with
      | inline => exact ListDoc.listToks_ok .inline l _ items
      | multi ind cind => exact cmultiToks_ok ind cind l _ items
    have := qline_list_ok l 1 (tIdent key l (1 + 2 * d)) (tAssign l (1 + 2 * d + key.length))
      (tNewline (l + (UValue.list items).height sp) ((UValue.list items).endCol sp (1 + 2 * d + key.length + 2))) key
      (items.map FScalar.toP) _ _ hl rfl rfl rfl rfl
    have e : (items.map FScalar.toP).map FlatParse.Scalar.val = items.map FScalar.value := by
      rw [List.map_map]; congr 1; funext x; exact FScalar.val_toP x
    rw [e] at this
    exact this
  | expr e =>
    exact qline_expr_ok l 1 (tIdent key l (1 + 2 * d)) (tAssign l (1 + 2 * d + key.length))
      (tNewline (l + 0) ((1 + 2 * d + key.length + 2) + (e.spell sp.ops).length)) key e hv.2.2 l (1 + 2 * d + key.length + 2) _
      (Expr.tailToks_bridge l e.tail _ sp.ops) rfl rfl rfl rfl

/-! ### forests -/

mutual
/-- the node at depth `d`, first text line `l`, as the parser half describes it. -/
def UT.toQ (hash : Bool) (d l : Nat) : UT → QNode
  | .line key v sp => .line (lineToQ key v sp d l)
  | .block key cs => .block (headerPosS key d l) key (utToQ hash (d + 1) (l + 1) cs)
  | .sect id key cs => .sect (sheaderPosS hash id key d l) id.toP key (utToQ hash (d + 1) (l + 1) cs)
def utToQ (hash : Bool) (d l : Nat) : List UT → List QNode
  | [] => []
  | n :: ns => n.toQ hash d l :: utToQ hash d (l + n.nlines) ns
end

theorem indent_bridge (c : QNode) (d l : Nat) (h : c.ipos = (l, 1)) : indentToks d l = c.indent d := by
  cases d with
  | zero => rfl
  | succ k => simp [indentToks, QNode.indent, QNode.itok, Octave.tIndent, h]

theorem UT.toQ_ipos (hash : Bool) (n : UT) (d l : Nat) : (n.toQ hash d l).ipos = (l, 1) := by
  cases n <;> rfl

mutual
theorem UT.toks_toQ (hash : Bool) : ∀ (n : UT) (d l : Nat),
    n.toks hash d l = (n.toQ hash d l).indent d ++ (n.toQ hash d l).body d
  | .line key v sp, d, l => by
    rw [← indent_bridge _ d l (UT.toQ_ipos hash _ d l)]
    simp only [UT.toks, lineToks, UT.toQ, QNode.body, lineToQ_toks]
  | .block key cs, d, l => by
    rw [← indent_bridge _ d l (UT.toQ_ipos hash _ d l)]
    simp only [UT.toks, headerToks, UT.toQ, QNode.body, utToks_toQ hash cs (d + 1) (l + 1), List.append_assoc]
    rfl
  | .sect id key cs, d, l => by
    rw [← indent_bridge _ d l (UT.toQ_ipos hash _ d l)]
    simp only [UT.toks, sheaderToks, UT.toQ, QNode.body, utToks_toQ hash cs (d + 1) (l + 1), List.append_assoc]
    have := sheader_body_bridge hash id key d l (toksList (utToQ hash (d + 1) (l + 1) cs) (d + 1))
    simp only [List.append_assoc] at this
    rw [this]
theorem utToks_toQ (hash : Bool) : ∀ (ns : List UT) (d l : Nat), utToks hash d l ns = toksList (utToQ hash d l ns) d
  | [], d, l => rfl
  | n :: ns, d, l => by
    simp only [utToks, utToQ, toksList, UT.toks_toQ hash n d l, utToks_toQ hash ns d (l + n.nlines), List.append_assoc]
end

/-- the two descriptions of the document's token list agree. -/
theorem utDocToks_bridge (hash : Bool) (name : Str) (ts : List UT) :
    utDocToks hash name ts = docToks (flatFrame name (utNLines ts)) name (utToQ hash 0 2 ts) := by
  simp only [utDocToks, docToks, utToks_toQ]
  simp [flatFrame, FlatParse.Frame.envTok, FlatParse.Frame.nl0Tok, FlatParse.Frame.endTok, FlatParse.Frame.nl1Tok, FlatParse.Frame.eofTok,
    tEof, tNewline, tEnvEnd, tEnvStart]

theorem utToQ_isEmpty (hash : Bool) (d l : Nat) (cs : List UT) : (utToQ hash d l cs).isEmpty = cs.isEmpty := by
  cases cs <;> rfl

mutual
/-- the lexer's columns satisfy the conditions of the parser half, and every line is `QLine.OK`. -/
theorem UT.wf_toQ (hash : Bool) (al : Char → Bool) (hal : AlphaOK al) : ∀ (n : UT) (d l : Nat), n.OK →
    (n.toQ hash d l).wf al d
  | .line key v sp, d, l, hok => by
    simp only [UT.OK] at hok
    simp only [UT.toQ, QNode.wf]
    exact lineToQ_ok key v sp d l hok.2.2
  | .block key cs, d, l, hok => by
    simp only [UT.OK] at hok
    simp only [UT.toQ, QNode.wf, utToQ_isEmpty]
    refine ⟨?_, utWf_toQ hash al hal cs (d + 1) (l + 1) hok.2.2⟩
    split <;> simp only [headerPosS] <;> omega
  | .sect id key cs, d, l, hok => by
    simp only [UT.OK] at hok
    simp only [UT.toQ, QNode.wf, utToQ_isEmpty]
    refine ⟨SecId.letterOk_toP al hal id hok.1, ?_, utWf_toQ hash al hal cs (d + 1) (l + 1) hok.2.2.2⟩
    split <;> simp only [sheaderPosS] <;> omega
theorem utWf_toQ (hash : Bool) (al : Char → Bool) (hal : AlphaOK al) : ∀ (ns : List UT) (d l : Nat), utOK ns →
    wfList al (utToQ hash d l ns) d
  | [], d, l, _ => by simp only [utToQ, wfList]
  | n :: ns, d, l, hok => by
    simp only [utOK] at hok
    simp only [utToQ, wfList]
    exact ⟨UT.wf_toQ hash al hal n d l hok.1, utWf_toQ hash al hal ns d (l + n.nlines) hok.2⟩
end

/-! ### the AST read back -/

mutual
/-- the AST node read back from the text: positioned at its first text line `l`, column `1 + 2·depth`. -/
def UT.nodeAt (d l : Nat) : UT → Node
  | .line key v _ => .assign key v.value l (1 + 2 * d) [] none
  | .block key cs => .block key (utNodesAt (d + 1) (l + 1) cs) l (1 + 2 * d) [] none
  | .sect id key cs => .sect id.text key none (utNodesAt (d + 1) (l + 1) cs) l (1 + 2 * d) []
def utNodesAt (d l : Nat) : List UT → List Node
  | [] => []
  | n :: ns => n.nodeAt d l :: utNodesAt d (l + n.nlines) ns
end

mutual
theorem UT.node_toQ (hash : Bool) : ∀ (n : UT) (d l : Nat), (n.toQ hash d l).node = n.nodeAt d l
  | .line key v sp, d, l => rfl
  | .block key cs, d, l => by
    simp only [UT.toQ, QNode.node, UT.nodeAt, nodeList_toQ hash cs (d + 1) (l + 1)]
    rfl
  | .sect id key cs, d, l => by
    simp only [UT.toQ, QNode.node, UT.nodeAt, nodeList_toQ hash cs (d + 1) (l + 1), SecId.str_toP]
    rfl
theorem nodeList_toQ (hash : Bool) : ∀ (ns : List UT) (d l : Nat), nodeList (utToQ hash d l ns) = utNodesAt d l ns
  | [], d, l => rfl
  | n :: ns, d, l => by
    simp only [utToQ, nodeList, utNodesAt, UT.node_toQ hash n d l, nodeList_toQ hash ns d (l + n.nlines)]
end

/-- the first top-level node is a line or a block keyed `META`. -/
def utFirstKeyIsMeta : List UT → Bool
  | .line key _ _ :: _ => key == "META".toList
  | .block key _ :: _ => key == "META".toList
  | _ => false

theorem metaFirstQ_bridge (hash : Bool) (ts : List UT) (l : Nat) : metaFirstQ (utToQ hash 0 l ts) = utFirstKeyIsMeta ts := by
  cases ts with
  | nil => rfl
  | cons n ns => cases n <;> rfl

theorem stripFrontmatter_ut (env : Env) (hash : Bool) (name : Str) (ts : List UT) :
    Parser.stripFrontmatter env (utDocText hash name ts) = (utDocText hash name ts, none) := by
  unfold Parser.stripFrontmatter
  have : startsWith "---".toList (utDocText hash name ts) = false := by
    simp [utDocText, startsWith, List.isPrefixOf]
  rw [this]; rfl

/-! ### content: the spelling forgotten -/

mutual
def UT.content : UT → UNode
  | .line key v _ => .line key v
  | .block key cs => .block key (utContent cs)
  | .sect id key cs => .sect id key (utContent cs)
def utContent : List UT → List UNode
  | [] => []
  | n :: ns => n.content :: utContent ns
end

mutual
/-- whatever the spelling, the AST read back carries exactly the content of the forest. -/
theorem UT.nodeAt_match : ∀ (n : UT) (d l : Nat), n.content.Matches (n.nodeAt d l)
  | .line key v sp, d, l => by simp only [UT.content, UT.nodeAt, UNode.Matches]; exact ⟨_, _, rfl⟩
  | .block key cs, d, l => by
    simp only [UT.content, UT.nodeAt, UNode.Matches]
    exact ⟨_, _, _, rfl, utNodesAt_match cs (d + 1) (l + 1)⟩
  | .sect id key cs, d, l => by
    simp only [UT.content, UT.nodeAt, UNode.Matches]
    exact ⟨_, _, _, rfl, utNodesAt_match cs (d + 1) (l + 1)⟩
theorem utNodesAt_match : ∀ (ns : List UT) (d l : Nat), unodesMatch (utContent ns) (utNodesAt d l ns)
  | [], d, l => by simp [utContent, utNodesAt, unodesMatch]
  | n :: ns, d, l => by
    simp only [utContent, utNodesAt, unodesMatch]
    exact ⟨_, _, rfl, UT.nodeAt_match n d l, utNodesAt_match ns d (l + n.nlines)⟩
end

mutual
theorem UT.content_ok : ∀ (n : UT), n.OK → n.content.OK
  | .line key v sp, h => by simpa [UT.content, UT.OK, UNode.OK] using h
  | .block key cs, h => by
    simp only [UT.OK] at h
    simp only [UT.content, UNode.OK]
    exact ⟨h.1, h.2.1, utContent_ok cs h.2.2⟩
  | .sect id key cs, h => by
    simp only [UT.OK] at h
    simp only [UT.content, UNode.OK]
    exact ⟨h.1, h.2.1, h.2.2.1, utContent_ok cs h.2.2.2⟩
theorem utContent_ok : ∀ (ns : List UT), utOK ns → unodesOK (utContent ns)
  | [], _ => trivial
  | n :: ns, h => by
    simp only [utOK] at h
    simp only [utContent, unodesOK]
    exact ⟨UT.content_ok n h.1, utContent_ok ns h.2⟩
end

mutual
theorem UNode.content_canonT : ∀ (n : UNode) (d : Nat), (n.canonT d).content = n
  | .line key v, d => rfl
  | .block key cs, d => by simp only [UNode.canonT, UT.content, utContent_canonTs cs (d + 1)]
  | .sect id key cs, d => by simp only [UNode.canonT, UT.content, utContent_canonTs cs (d + 1)]
theorem utContent_canonTs : ∀ (ns : List UNode) (d : Nat), utContent (canonTs d ns) = ns
  | [], d => rfl
  | n :: ns, d => by simp only [canonTs, utContent, UNode.content_canonT n d, utContent_canonTs ns d]
end

/-! ### the canonical spelling: `uDoc` -/

/-- line breaks inside the canonical spelling of the value. -/
def UValue.cheight : UValue → Nat
  | .list items => if needsMulti items then items.length + 1 else 0
  | _ => 0

mutual
/-- number of physical lines of the canonical text of a node. -/
def UNode.nlines : UNode → Nat
  | .line _ v => 1 + v.cheight
  | .block _ cs => 1 + unodesNLines cs
  | .sect _ _ cs => 1 + unodesNLines cs
def unodesNLines : List UNode → Nat
  | [] => 0
  | n :: ns => n.nlines + unodesNLines ns
end

theorem UValue.height_canonSp (v : UValue) (d : Nat) : v.height (v.canonSp d) = v.cheight := by
  cases v with
  | scalar s => rfl
  | list items =>
    simp only [UValue.canonSp, UValue.cheight]
    cases needsMulti items <;> rfl
  | expr e => rfl

mutual
theorem UNode.nlines_canonT : ∀ (n : UNode) (d : Nat), (n.canonT d).nlines = n.nlines
  | .line key v, d => by simp only [UNode.canonT, UT.nlines, UNode.nlines, UValue.height_canonSp]
  | .block key cs, d => by simp only [UNode.canonT, UT.nlines, UNode.nlines, utNLines_canonTs cs (d + 1)]
  | .sect id key cs, d => by simp only [UNode.canonT, UT.nlines, UNode.nlines, utNLines_canonTs cs (d + 1)]
theorem utNLines_canonTs : ∀ (ns : List UNode) (d : Nat), utNLines (canonTs d ns) = unodesNLines ns
  | [], d => rfl
  | n :: ns, d => by simp only [canonTs, utNLines, unodesNLines, UNode.nlines_canonT n d, utNLines_canonTs ns d]
end

mutual
/-- the AST of a forest with positions chosen by `pos` from the (0-based) index of the node's first physical line in the body
of the canonical text and its depth. -/
def UNode.node (pos : Nat → Nat → Nat × Nat) (i d : Nat) : UNode → Node
  | .line key v => .assign key v.value (pos i d).1 (pos i d).2 [] none
  | .block key cs => .block key (unodeNodes pos (i + 1) (d + 1) cs) (pos i d).1 (pos i d).2 [] none
  | .sect id key cs => .sect id.text key none (unodeNodes pos (i + 1) (d + 1) cs) (pos i d).1 (pos i d).2 []
def unodeNodes (pos : Nat → Nat → Nat × Nat) (i d : Nat) : List UNode → List Node
  | [] => []
  | n :: ns => n.node pos i d :: unodeNodes pos (i + n.nlines) d ns
end

mutual
theorem UNode.node_matches (pos : Nat → Nat → Nat × Nat) : ∀ (t : UNode) (i d : Nat), t.Matches (t.node pos i d)
  | .line key v, i, d => by simp only [UNode.Matches, UNode.node]; exact ⟨_, _, rfl⟩
  | .block key cs, i, d => by
    simp only [UNode.Matches, UNode.node]
    exact ⟨_, _, _, rfl, unodeNodes_matches pos cs (i + 1) (d + 1)⟩
  | .sect id key cs, i, d => by
    simp only [UNode.Matches, UNode.node]
    exact ⟨_, _, _, rfl, unodeNodes_matches pos cs (i + 1) (d + 1)⟩
theorem unodeNodes_matches (pos : Nat → Nat → Nat × Nat) : ∀ (ts : List UNode) (i d : Nat), unodesMatch ts (unodeNodes pos i d ts)
  | [], i, d => by simp [unodesMatch, unodeNodes]
  | t :: ts, i, d => by
    simp only [unodesMatch, unodeNodes]
    exact ⟨_, _, rfl, UNode.node_matches pos t i d, unodeNodes_matches pos ts (i + t.nlines) d⟩
end

/-- the unified document as an AST (positions stored in the nodes: arbitrary). -/
def uDoc (name : Str) (pos : Nat → Nat → Nat × Nat) (nodes : List UNode) : Document :=
  { name := name, sections := unodeNodes pos 0 0 nodes }

mutual
theorem UNode.nodeAt_canon : ∀ (n : UNode) (d i : Nat), (n.canonT d).nodeAt d (i + 2) = n.node canonPos i d
  | .line key v, d, i => rfl
  | .block key cs, d, i => by
    simp only [UNode.canonT, UT.nodeAt, UNode.node, canonPos]
    rw [show i + 2 + 1 = (i + 1) + 2 by omega, utNodesAt_canon cs (d + 1) (i + 1)]
  | .sect id key cs, d, i => by
    simp only [UNode.canonT, UT.nodeAt, UNode.node, canonPos]
    rw [show i + 2 + 1 = (i + 1) + 2 by omega, utNodesAt_canon cs (d + 1) (i + 1)]
theorem utNodesAt_canon : ∀ (ns : List UNode) (d i : Nat), utNodesAt d (i + 2) (canonTs d ns) = unodeNodes canonPos i d ns
  | [], d, i => rfl
  | n :: ns, d, i => by
    simp only [canonTs, utNodesAt, unodeNodes, UNode.nodeAt_canon n d i, UNode.nlines_canonT]
    rw [show i + 2 + n.nlines = (i + n.nlines) + 2 by omega, utNodesAt_canon ns d (i + n.nlines)]
end

/-- the first top-level node is a line or a block keyed `META`. -/
def firstKeyIsMetaU : List UNode → Bool
  | .line key _ :: _ => key == "META".toList
  | .block key _ :: _ => key == "META".toList
  | _ => false

theorem utFirstKeyIsMeta_canon (ns : List UNode) (d : Nat) : utFirstKeyIsMeta (canonTs d ns) = firstKeyIsMetaU ns := by
  cases ns with
  | nil => rfl
  | cons n ns => cases n <;> rfl

theorem utFirstKeyIsMeta_content (ts : List UT) : firstKeyIsMetaU (utContent ts) = utFirstKeyIsMeta ts := by
  cases ts with
  | nil => rfl
  | cons n ns => cases n <;> rfl

/-! ### position-free content (for the injectivity of the emitter) -/

mutual
/-- the content of a forest with every position forgotten (`SContent` of `Lemmas/SectBridge`): ids, names, keys, nesting,
order, values with their types — a list as the list of its items' values, an expression as the string of its text. -/
def UNode.vcontent : UNode → SContent
  | .line key v => .line key v.value
  | .block key cs => .block key (unodesVContent cs)
  | .sect id key cs => .sect id.text key (unodesVContent cs)
def unodesVContent : List UNode → List SContent
  | [] => []
  | n :: ns => n.vcontent :: unodesVContent ns
end

mutual
/-- an AST node determines the content of every node that `Matches` it. -/
theorem UNode.vcontent_of_matches : ∀ (t t' : UNode) (n : Node), t.Matches n → t'.Matches n → t.vcontent = t'.vcontent
  | .line key v, .line key' v', n, h, h' => by
    simp only [UNode.Matches] at h h'
    obtain ⟨l, c, rfl⟩ := h
    obtain ⟨l', c', e⟩ := h'
    simp only [Node.assign.injEq] at e
    simp only [UNode.vcontent, e.1, e.2.1]
  | .line key v, .block key' cs', n, h, h' => by
    simp only [UNode.Matches] at h h'
    obtain ⟨l, c, rfl⟩ := h
    obtain ⟨ch, l', c', e, _⟩ := h'
    cases e
  | .line key v, .sect id' key' cs', n, h, h' => by
    simp only [UNode.Matches] at h h'
    obtain ⟨l, c, rfl⟩ := h
    obtain ⟨ch, l', c', e, _⟩ := h'
    cases e
  | .block key cs, .line key' v', n, h, h' => by
    simp only [UNode.Matches] at h h'
    obtain ⟨ch, l, c, rfl, _⟩ := h
    obtain ⟨l', c', e⟩ := h'
    cases e
  | .block key cs, .sect id' key' cs', n, h, h' => by
    simp only [UNode.Matches] at h h'
    obtain ⟨ch, l, c, rfl, _⟩ := h
    obtain ⟨ch', l', c', e, _⟩ := h'
    cases e
  | .block key cs, .block key' cs', n, h, h' => by
    simp only [UNode.Matches] at h h'
    obtain ⟨ch, l, c, rfl, hm⟩ := h
    obtain ⟨ch', l', c', e, hm'⟩ := h'
    simp only [Node.block.injEq] at e
    obtain ⟨ek, ec, _⟩ := e
    subst ec
    simp only [UNode.vcontent, ek, unodesVContent_of_matches cs cs' ch hm hm']
  | .sect id key cs, .line key' v', n, h, h' => by
    simp only [UNode.Matches] at h h'
    obtain ⟨ch, l, c, rfl, _⟩ := h
    obtain ⟨l', c', e⟩ := h'
    cases e
  | .sect id key cs, .block key' cs', n, h, h' => by
    simp only [UNode.Matches] at h h'
    obtain ⟨ch, l, c, rfl, _⟩ := h
    obtain ⟨ch', l', c', e, _⟩ := h'
    cases e
  | .sect id key cs, .sect id' key' cs', n, h, h' => by
    simp only [UNode.Matches] at h h'
    obtain ⟨ch, l, c, rfl, hm⟩ := h
    obtain ⟨ch', l', c', e, hm'⟩ := h'
    simp only [Node.sect.injEq] at e
    obtain ⟨ei, ek, _, ec, _⟩ := e
    subst ec
    simp only [UNode.vcontent, ei, ek, unodesVContent_of_matches cs cs' ch hm hm']
theorem unodesVContent_of_matches : ∀ (ts ts' : List UNode) (ns : List Node), unodesMatch ts ns → unodesMatch ts' ns →
    unodesVContent ts = unodesVContent ts'
  | [], [], _, _, _ => rfl
  | [], t' :: ts', ns, h, h' => by
    simp only [unodesMatch] at h h'
    obtain ⟨n, ns', e, _⟩ := h'
    rw [h] at e; cases e
  | t :: ts, [], ns, h, h' => by
    simp only [unodesMatch] at h h'
    obtain ⟨n, ns', e, _⟩ := h
    rw [h'] at e; cases e
  | t :: ts, t' :: ts', ns, h, h' => by
    simp only [unodesMatch] at h h'
    obtain ⟨n, ns1, rfl, hm, hr⟩ := h
    obtain ⟨n', ns1', e, hm', hr'⟩ := h'
    simp only [List.cons.injEq] at e
    obtain ⟨e1, e2⟩ := e
    subst e1; subst e2
    simp only [unodesVContent, UNode.vcontent_of_matches t t' n hm hm', unodesVContent_of_matches ts ts' ns1 hr hr']
end

end Octave.U
