import Octave.Lemmas.NumberLex
/-!
The lexer on the canonical text of a *flat* document, part 2: scalar values (strings, bare words, booleans, null, integers),
lines, whole documents, `tokenize_flat`.  Part 1 (`FlatLexBase`) has the `Run` / `Adv` infrastructure and the per-token steps;
`NumberLex` has the number steps.
-/
namespace Octave
open Lexer Scan Emitter

/-! ### scalar values, lines -/

/-- scalar values of a flat document as the emitter spells them: a quoted string, a bare word, a boolean, null. -/
inductive FScalar where
  | qstr (s : Str)
  | bare (s : Str)
  | bool (b : Bool)
  | null
  | int (i : Int)
  deriving Repr, DecidableEq

/-- conditions under which the emitter produces that spelling (decidable). -/
def FScalar.OK : FScalar → Prop
  | .qstr _ => True
  | .bare s => isIdentifierText s = true ∧ hasReservedPrefix s = false
  | .bool _ => True
  | .null => True
  | .int i => (natStr i.natAbs).length ≤ 4300

def FScalar.text : FScalar → Str
  | .qstr s => quoted s
  | .bare s => s
  | .bool b => if b then "true".toList else "false".toList
  | .null => "null".toList
  | .int i => intStr i

def FScalar.tok (l c : Nat) : FScalar → Token
  | .qstr s => tString s l c
  | .bare s => tIdent s l c
  | .bool b => tBool b l c
  | .null => tNull l c
  | .int i => tInt i l c

def FScalar.reps (l c : Nat) : FScalar → List Repair
  | .bare s => identifierRepairs s l c
  | _ => []

def FScalar.value : FScalar → Value
  | .qstr s => .str s
  | .bare s => .str s
  | .bool b => .bool b
  | .null => .null
  | .int i => .int i

theorem termOK_nl (env : Env) (rest : Str) : TermOK env ('\n' :: rest) := by
  intro d hd
  have : d = '\n' := by simpa using hd.symm
  subst this
  refine ⟨?_, by decide, by decide, by decide⟩
  simp [Env.idChar, isAscii, isAlnumA, isAlphaA, isDigitA, isUpper, isLower]

theorem termOK_colon (env : Env) (rest : Str) : TermOK env (':' :: rest) := by
  intro d hd
  have : d = ':' := by simpa using hd.symm
  subst this
  refine ⟨?_, by decide, by decide, by decide⟩
  simp [Env.idChar, isAscii, isAlnumA, isAlphaA, isDigitA, isUpper, isLower]

/-- the value of a line, right after `::` and before the line end. -/
theorem step_scalar (env : Env) (lenient : Bool) (st : LState) (v : FScalar) (rest : Str) (hr : Ready st)
    (hp : st.prev = some ':') (hv : v.OK) :
    ∃ st' p, step env lenient st (v.text ++ '\n' :: rest) = .ok (st', '\n' :: rest) ∧
      Adv st st' [v.tok st.line st.col] (v.reps st.line st.col).reverse 0 (st.col + v.text.length) p := by
  cases v with
  | qstr s =>
    obtain ⟨st', h1, h2⟩ := step_quoted env lenient st s ('\n' :: rest) hr (by simp)
    exact ⟨st', _, h1, h2⟩
  | bare s =>
    obtain ⟨st', h1, h2⟩ := step_ident env lenient st s ('\n' :: rest) hr hv.1 hv.2 (termOK_nl env rest)
    exact ⟨st', _, h1, h2⟩
  | bool b =>
    obtain ⟨st', h1, h2⟩ := step_bool env lenient st b rest hr hp
    refine ⟨st', some 'e', h1, ?_⟩
    cases b <;> exact h2
  | null =>
    obtain ⟨st', h1, h2⟩ := step_null env lenient st rest hr hp
    exact ⟨st', _, h1, h2⟩
  | int i => exact step_int_line env lenient st i rest hr hv

structure FLine where
  key : Str
  v : FScalar
  deriving Repr, DecidableEq

def FLine.OK (ln : FLine) : Prop := isIdentifierText ln.key = true ∧ hasReservedPrefix ln.key = false ∧ ln.v.OK

/-- `KEY::value` (without the line end). -/
def FLine.text (ln : FLine) : Str := ln.key ++ (':' :: ':' :: ln.v.text)

/-- tokens of a line starting at line `l`, column `c`, newest first (as `LState.toks` keeps them). -/
def FLine.toksRev (ln : FLine) (l c : Nat) : List Token :=
  [tNewline l (c + ln.key.length + 2 + ln.v.text.length), ln.v.tok l (c + ln.key.length + 2), tAssign l (c + ln.key.length), tIdent ln.key l c]

def FLine.repsRev (ln : FLine) (l c : Nat) : List Repair :=
  (ln.v.reps l (c + ln.key.length + 2)).reverse ++ (identifierRepairs ln.key l c).reverse

/-- **one line**: four iterations of the main loop, four tokens, next line, column 1. -/
theorem run_line (env : Env) (lenient : Bool) (st : LState) (ln : FLine) (rest : Str) (hr : Ready st) (hok : ln.OK) :
    ∃ st', Run env lenient 4 st (ln.text ++ '\n' :: rest) st' rest ∧
      Adv st st' (ln.toksRev st.line st.col) (ln.repsRev st.line st.col) 1 1 (some '\n') := by
  obtain ⟨hk1, hk2, hv⟩ := hok
  -- key
  obtain ⟨s1, e1, a1⟩ := step_ident env lenient st ln.key (':' :: ':' :: ln.v.text ++ '\n' :: rest) hr hk1 hk2 (termOK_colon env _)
  -- ::
  obtain ⟨s2, e2, a2⟩ := step_assign env lenient s1 (ln.v.text ++ '\n' :: rest) a1.ready
  -- value
  obtain ⟨s3, p3, e3, a3⟩ := step_scalar env lenient s2 ln.v rest a2.ready a2.prev hv
  -- line end
  obtain ⟨s4, e4, a4⟩ := step_newline env lenient s3 rest a3.ready
  have hne : ln.key ≠ [] := by
    intro h; rw [h] at hk1; simp [isIdentifierText] at hk1
  obtain ⟨kc, kt, hkey⟩ := List.exists_cons_of_ne_nil hne
  have hshape : ln.text ++ '\n' :: rest = kc :: (kt ++ (':' :: ':' :: ln.v.text ++ '\n' :: rest)) := by
    simp [FLine.text, hkey]
  have e1' : step env lenient st (kc :: (kt ++ (':' :: ':' :: ln.v.text ++ '\n' :: rest))) = .ok (s1, ':' :: ':' :: ln.v.text ++ '\n' :: rest) := by
    rw [← hshape]; rw [show ln.text ++ '\n' :: rest = ln.key ++ (':' :: ':' :: ln.v.text ++ '\n' :: rest) by simp [FLine.text]]; exact e1
  have hvne : ln.v.text ++ '\n' :: rest ≠ [] := by simp
  obtain ⟨vc, vt, hvt⟩ := List.exists_cons_of_ne_nil hvne
  have run : Run env lenient 4 st (ln.text ++ '\n' :: rest) s4 rest := by
    rw [hshape]
    refine Run.cons e1' (Run.cons e2 ?_)
    rw [hvt] at e3 ⊢
    exact Run.cons e3 (Run.cons e4 (Run.refl _ _))
  refine ⟨s4, run, ?_⟩
  have h := ((a1.trans a2).trans a3).trans a4
  -- rewrite the intermediate positions in terms of `st`
  have l1 : s1.line = st.line := by rw [a1.line]; rfl
  have l2 : s2.line = st.line := by rw [a2.line, l1]; rfl
  have l3 : s3.line = st.line := by rw [a3.line, l2]; rfl
  have c1 : s1.col = st.col + ln.key.length := a1.col
  have c2 : s2.col = st.col + ln.key.length + 2 := by rw [a2.col, c1]
  have c3 : s3.col = st.col + ln.key.length + 2 + ln.v.text.length := by rw [a3.col, c2]
  rw [l1, l2, l3, c1, c2, c3] at h
  exact ⟨h.ready, by rw [h.toks]; rfl, by rw [h.repairs]; simp [FLine.repsRev], h.stack, by rw [h.line], h.col, h.prev⟩

end Octave

namespace Octave
open Lexer Scan Emitter

/-! ### all lines, the whole document -/

def linesText : List FLine → Str
  | [] => []
  | ln :: ls => ln.text ++ '\n' :: linesText ls

/-- tokens of the lines (first line at line `l`, every line at column 1), newest first. -/
def linesToksRev (l : Nat) : List FLine → List Token
  | [] => []
  | ln :: ls => linesToksRev (l + 1) ls ++ ln.toksRev l 1

def linesRepsRev (l : Nat) : List FLine → List Repair
  | [] => []
  | ln :: ls => linesRepsRev (l + 1) ls ++ ln.repsRev l 1

/-- the tracked parts after several whole lines (the last consumed char is not tracked). -/
structure AdvL (st st' : LState) (newToks : List Token) (newReps : List Repair) (dline : Nat) : Prop where
  ready : Ready st'
  toks : st'.toks = newToks ++ st.toks
  repairs : st'.repairs = newReps ++ st.repairs
  stack : st'.stack = st.stack
  line : st'.line = st.line + dline
  col : st'.col = 1

theorem run_lines (env : Env) (lenient : Bool) (lines : List FLine) :
    ∀ (st : LState) (rest : Str), Ready st → st.col = 1 → (∀ ln ∈ lines, ln.OK) →
    ∃ st', Run env lenient (4 * lines.length) st (linesText lines ++ rest) st' rest ∧
      AdvL st st' (linesToksRev st.line lines) (linesRepsRev st.line lines) lines.length := by
  induction lines with
  | nil =>
    intro st rest hr hc _
    exact ⟨st, by simpa [linesText] using Run.refl st rest, ⟨hr, by simp [linesToksRev], by simp [linesRepsRev], rfl, by simp, hc⟩⟩
  | cons ln ls ih =>
    intro st rest hr hc hok
    obtain ⟨s1, r1, a1⟩ := run_line env lenient st ln (linesText ls ++ rest) hr (hok ln (by simp))
    obtain ⟨s2, r2, a2⟩ := ih s1 rest a1.ready a1.col (fun l hl => hok l (by simp [hl]))
    refine ⟨s2, ?_, ?_⟩
    · have := Run.trans r1 r2
      have hlen : 4 + 4 * ls.length = 4 * (ln :: ls).length := by simp; omega
      rw [hlen] at this
      simpa [linesText, List.append_assoc] using this
    · have hl : s1.line = st.line + 1 := a1.line
      rw [hl] at a2
      rw [hc] at a1
      refine ⟨a2.ready, ?_, ?_, ?_, ?_, a2.col⟩
      · rw [a2.toks, a1.toks]; simp [linesToksRev, List.append_assoc]
      · rw [a2.repairs, a1.repairs]; simp [linesRepsRev, List.append_assoc]
      · rw [a2.stack, a1.stack]
      · rw [a2.line, hl]; simp; omega

/-- canonical text of a flat document. -/
def flatText (name : Str) (lines : List FLine) : Str :=
  "===".toList ++ name ++ "===".toList ++ '\n' :: (linesText lines ++ ("===END===".toList ++ ['\n']))

/-- its tokens, newest first (without EOF). -/
def flatToksRev (name : Str) (lines : List FLine) : List Token :=
  [tNewline (lines.length + 2) 10, tEnvEnd (lines.length + 2) 1] ++ linesToksRev 2 lines ++
  [tNewline 1 (1 + (name.length + 6)), tEnvStart name 1 1]

/-- **the whole flat document**: `4·n + 4` iterations from the initial state consume the text and leave exactly the
expected tokens, the (non-normalisation) identifier receipts, an empty bracket stack, line `n + 3`, column 1. -/
theorem run_flat (env : Env) (lenient : Bool) (name : Str) (lines : List FLine)
    (hn : isEnvName name = true) (hne : name ≠ "END".toList) (hok : ∀ ln ∈ lines, ln.OK) :
    ∃ st', Run env lenient (4 * lines.length + 4) ({ spans := [] } : LState) (flatText name lines) st' [] ∧
      st'.toks = flatToksRev name lines ∧ st'.repairs = linesRepsRev 2 lines ∧ st'.stack = [] ∧
      st'.line = lines.length + 3 ∧ st'.col = 1 := by
  let st0 : LState := { spans := [] }
  obtain ⟨s1, e1, a1⟩ := step_envStart env lenient st0 name ('\n' :: (linesText lines ++ ("===END===".toList ++ ['\n']))) rfl hn hne
  obtain ⟨s2, e2, a2⟩ := step_newline env lenient s1 (linesText lines ++ ("===END===".toList ++ ['\n'])) a1.ready
  obtain ⟨s3, r3, a3⟩ := run_lines env lenient lines s2 ("===END===".toList ++ ['\n']) a2.ready a2.col hok
  obtain ⟨s4, e4, a4⟩ := step_envEnd env lenient s3 ['\n'] a3.ready
  obtain ⟨s5, e5, a5⟩ := step_newline env lenient s4 [] a4.ready
  have hshape : flatText name lines = '=' :: ("==".toList ++ name ++ "===".toList ++ '\n' :: (linesText lines ++ ("===END===".toList ++ ['\n']))) := by
    simp [flatText]
  have e1' : step env lenient st0 ('=' :: ("==".toList ++ name ++ "===".toList ++ '\n' :: (linesText lines ++ ("===END===".toList ++ ['\n']))))
      = .ok (s1, '\n' :: (linesText lines ++ ("===END===".toList ++ ['\n']))) := by
    rw [← hshape]; simpa [flatText] using e1
  have e4' : step env lenient s3 ('=' :: ("==END===".toList ++ ['\n'])) = .ok (s4, ['\n']) := e4
  have run : Run env lenient (4 * lines.length + 4) st0 (flatText name lines) s5 [] := by
    rw [hshape]
    have tail : Run env lenient (4 * lines.length + 2) s2 (linesText lines ++ ("===END===".toList ++ ['\n'])) s5 [] :=
      Run.trans r3 (Run.cons e4' (Run.one e5))
    have := Run.cons e1' (Run.cons e2 tail)
    exact this
  refine ⟨s5, run, ?_, ?_, ?_, ?_, a5.col⟩
  · -- tokens
    have l1 : s1.line = 1 := by rw [a1.line]
    have l2 : s2.line = 2 := by rw [a2.line, l1]
    have l3 : s3.line = lines.length + 2 := by rw [a3.line, l2]; omega
    have l4 : s4.line = lines.length + 2 := by rw [a4.line, l3]
    have c1 : s1.col = 1 + (name.length + 6) := a1.col
    have c3 : s3.col = 1 := a3.col
    have c4 : s4.col = 10 := by rw [a4.col, c3]
    rw [a5.toks, a4.toks, a3.toks, a2.toks, a1.toks, l1, l2, l3, l4, c1, c3, c4]
    simp [flatToksRev]
    exact ⟨rfl, rfl⟩
  · have l2 : s2.line = 2 := by rw [a2.line, a1.line]
    rw [a5.repairs, a4.repairs, a3.repairs, a2.repairs, a1.repairs, l2]; simp; rfl
  · rw [a5.stack, a4.stack, a3.stack, a2.stack, a1.stack]
  · rw [a5.line, a4.line, a3.line, a2.line, a1.line]
    show (1 : Nat) + 0 + 1 + lines.length + 0 + 1 = lines.length + 3
    omega

end Octave

namespace Octave
open Lexer Scan Emitter

/-! ### fuel does not matter -/

theorem loop_agree (env : Env) (lenient : Bool) : ∀ (f1 : Nat) (st : LState) (s : Str) (r : LState),
    loop env lenient f1 st s = .ok r → ∀ f2, loop env lenient f2 st s = .ok r ∨ loop env lenient f2 st s = .error .fuel := by
  intro f1
  induction f1 with
  | zero =>
    intro st s r h f2
    cases s with
    | nil =>
      have : loop env lenient f2 st [] = .ok st := by cases f2 <;> rfl
      have h0 : loop env lenient 0 st [] = .ok st := rfl
      rw [h0] at h; cases h; exact Or.inl this
    | cons c cs => simp [loop] at h
  | succ n ih =>
    intro st s r h f2
    cases s with
    | nil =>
      have : loop env lenient f2 st [] = .ok st := by cases f2 <;> rfl
      have h0 : loop env lenient (n + 1) st [] = .ok st := rfl
      rw [h0] at h; cases h; exact Or.inl this
    | cons c cs =>
      cases f2 with
      | zero => exact Or.inr rfl
      | succ m =>
        rw [loop] at h ⊢
        simp only [bind, Except.bind] at h ⊢
        cases hs : step env lenient st (c :: cs) with
        | error e => rw [hs] at h; cases h
        | ok p =>
          obtain ⟨st', s'⟩ := p
          rw [hs] at h
          simp only at h ⊢
          exact ih st' s' r h m

/-- a run that consumes the whole input determines the result of `loop` with the fuel `tokenize` passes. -/
theorem loop_of_run (env : Env) (lenient : Bool) (n : Nat) (st st' : LState) (s : Str)
    (h : Run env lenient n st s st' []) (hok : SpansOK st.spans) :
    loop env lenient (s.length + 1) st s = .ok st' := by
  have h1 : loop env lenient (0 + n) st s = .ok st' := by
    rw [h.loop 0]; cases st'; rfl
  rcases loop_agree env lenient (0 + n) st s st' h1 (s.length + 1) with h2 | h2
  · exact h2
  · exact absurd h2 (loop_never_out_of_fuel env lenient (s.length + 1) st s (by omega) hok)

end Octave

namespace Octave
open Lexer Scan Emitter

/-! ### `normalize` and the tab check on fence-free, NFC-stable, tab-free text -/

theorem splitLines_ne_nil (s : Str) : splitLines s ≠ [] := by
  induction s with
  | nil => simp [splitLines]
  | cons c cs ih =>
    unfold splitLines
    cases h : splitLines cs with
    | nil => simp
    | cons l ls => simp only; split <;> simp

theorem joinWith_splitLines (s : Str) : joinWith ['\n'] (splitLines s) = s := by
  induction s with
  | nil => rfl
  | cons c cs ih =>
    unfold splitLines
    cases h : splitLines cs with
    | nil => exact absurd h (splitLines_ne_nil cs)
    | cons l ls =>
      rw [h] at ih
      simp only
      by_cases hc : c = '\n'
      · subst hc
        simp only [beq_self_eq_true, if_true]
        show ([] : Str) ++ ['\n'] ++ joinWith ['\n'] (l :: ls) = '\n' :: cs
        rw [ih]; rfl
      · have : (c == '\n') = false := by simpa using hc
        simp only [this, Bool.false_eq_true, if_false]
        cases ls with
        | nil =>
          simp only [joinWith] at ih ⊢
          rw [ih]
        | cons m ms =>
          simp only [joinWith] at ih ⊢
          rw [← ih]; simp

theorem splitLines_append_nl (a rest : Str) (h : ∀ d ∈ a, d ≠ '\n') : splitLines (a ++ '\n' :: rest) = a :: splitLines rest := by
  induction a with
  | nil =>
    show splitLines ('\n' :: rest) = [] :: splitLines rest
    simp only [splitLines]
    cases hr : splitLines rest with
    | nil => exact absurd hr (splitLines_ne_nil rest)
    | cons l ls => simp
  | cons c cs ih =>
    have hc : (c == '\n') = false := by
      have := h c (by simp); simpa using this
    have := ih (fun d hd => h d (by simp [hd]))
    show splitLines (c :: (cs ++ '\n' :: rest)) = (c :: cs) :: splitLines rest
    simp only [splitLines, this, hc, Bool.false_eq_true, if_false]

theorem splitLines_nil' : splitLines [] = [[]] := rfl

theorem normLines_plain (env : Env) : ∀ (ls : List Str) (st : NState) (n : Nat), st.inFence = false →
    (∀ l ∈ ls, fenceLine l = none ∧ env.nfc l = l) →
    ∃ st', normLines env st n ls = .ok st' ∧ st'.out = ls.reverse ++ st.out ∧ st'.spans = st.spans ∧ st'.inFence = false := by
  intro ls
  induction ls with
  | nil => intro st n hf _; exact ⟨st, rfl, by simp, rfl, hf⟩
  | cons l ls ih =>
    intro st n hf h
    obtain ⟨h1, h2⟩ := h l (by simp)
    have hstep : normLine env st n l = .ok { st with out := l :: st.out, offset := st.offset + l.length + 1 } := by
      unfold normLine
      rw [h1, hf]
      simp only [h2]
    obtain ⟨st', e, o, sp, inf⟩ := ih { st with out := l :: st.out, offset := st.offset + l.length + 1 } (n + 1) hf
      (fun x hx => h x (by simp [hx]))
    refine ⟨st', ?_, ?_, sp, inf⟩
    · rw [normLines]; simp only [hstep, bind, Except.bind]; exact e
    · rw [o]; simp

theorem normalize_plain (env : Env) (s : Str) (h : ∀ l ∈ splitLines s, fenceLine l = none ∧ env.nfc l = l) :
    normalize env s = .ok (s, []) := by
  obtain ⟨st', e, o, sp, inf⟩ := normLines_plain env (splitLines s) {} 1 rfl h
  unfold normalize
  simp only [e, bind, Except.bind, inf, Bool.false_eq_true, if_false]
  rw [o, sp]
  simp [joinWith_splitLines]

theorem tabCheck_noTab (spans : List Span) : ∀ (s : Str) (pos line col : Nat), (∀ d ∈ s, d ≠ '\t') →
    tabCheck spans s pos line col = .ok () := by
  intro s
  induction s with
  | nil => intros; rfl
  | cons c cs ih =>
    intro pos line col h
    have hc : (c == '\t') = false := by have := h c (by simp); simpa using this
    unfold tabCheck
    simp only [hc, Bool.false_and, Bool.false_eq_true, if_false]
    split <;> exact ih _ _ _ (fun d hd => h d (by simp [hd]))

theorem fenceLine_none_of_head (line : Str) (h : ∀ c, line.head? = some c → c ≠ ' ' ∧ c ≠ '`') : fenceLine line = none := by
  cases line with
  | nil => simp [fenceLine, takeWhile]
  | cons c r =>
    obtain ⟨h1, h2⟩ := h c rfl
    have e1 : (c == ' ') = false := by simpa using h1
    have e2 : (c == '`') = false := by simpa using h2
    simp [fenceLine, takeWhile, e1, e2]

end Octave

namespace Octave
open Lexer Scan Emitter

/-! ### the pieces of a flat text contain neither a line break nor a tab -/

def Clean (p : Str) : Prop := ∀ d ∈ p, d ≠ '\n' ∧ d ≠ '\t'

theorem Clean.append {a b : Str} (ha : Clean a) (hb : Clean b) : Clean (a ++ b) := by
  intro d hd
  rcases List.mem_append.mp hd with h | h
  · exact ha d h
  · exact hb d h

theorem clean_lit (p : Str) (h : p.all (fun d => d != '\n' && d != '\t') = true) : Clean p := by
  intro d hd
  have := (List.all_eq_true.mp h) d hd
  simpa using this

theorem identBody_clean (d : Char) (h : isIdentBodyA d = true) : d ≠ '\n' ∧ d ≠ '\t' := by
  constructor <;> (intro he; subst he; revert h; decide)

theorem identStart_body (c : Char) (hc : isIdentStartA c = true) : isIdentBodyA c = true := by
  simp only [isIdentStartA, Bool.or_eq_true] at hc
  simp only [isIdentBodyA, Bool.or_eq_true]
  rcases hc with h | h
  · exact Or.inl (Or.inl (Or.inl (by simp [isAlnumA, h])))
  · exact Or.inl (Or.inl (Or.inr h))

theorem identText_clean (s : Str) (h : isIdentifierText s = true) : Clean s := by
  cases s with
  | nil => simp [isIdentifierText] at h
  | cons c t =>
    simp only [isIdentifierText, Bool.and_eq_true] at h
    obtain ⟨⟨hc, ht⟩, _⟩ := h
    intro d hd
    rcases List.mem_cons.mp hd with h' | h'
    · subst h'; exact identBody_clean _ (identStart_body _ hc)
    · exact identBody_clean _ ((List.all_eq_true.mp ht) d h')

theorem identText_head (s : Str) (h : isIdentifierText s = true) : ∀ c, s.head? = some c → c ≠ ' ' ∧ c ≠ '`' := by
  cases s with
  | nil => simp [isIdentifierText] at h
  | cons c t =>
    simp only [isIdentifierText, Bool.and_eq_true] at h
    obtain ⟨⟨hc, _⟩, _⟩ := h
    intro x hx
    have : x = c := by simpa using hx.symm
    subst this
    constructor <;> (intro he; subst he; revert hc; decide)

theorem quoted_clean (s : Str) : Clean (quoted s) := by
  intro d hd
  have : d = '"' ∨ d ∈ escape s := by
    simp only [quoted, List.mem_cons, List.mem_append, List.mem_nil_iff, or_false] at hd
    rcases hd with (h | h) | h
    · exact Or.inl h
    · exact Or.inr h
    · exact Or.inl h
  rcases this with h | h
  · subst h; decide
  · exact escape_no_raw s d h

theorem scalar_clean (v : FScalar) (hv : v.OK) : Clean v.text := by
  cases v with
  | qstr s => exact quoted_clean s
  | bare s => exact identText_clean s hv.1
  | bool b => cases b <;> exact clean_lit _ (by decide)
  | null => exact clean_lit _ (by decide)
  | int i => exact intStr_clean i

theorem line_clean (ln : FLine) (h : ln.OK) : Clean ln.text := by
  have h1 := identText_clean ln.key h.1
  have h2 : Clean (':' :: ':' :: ln.v.text) := by
    have := Clean.append (clean_lit "::".toList (by decide)) (scalar_clean ln.v h.2.2)
    simpa using this
  exact Clean.append h1 h2

theorem line_head (ln : FLine) (h : ln.OK) : ∀ c, ln.text.head? = some c → c ≠ ' ' ∧ c ≠ '`' := by
  intro c hc
  apply identText_head ln.key h.1 c
  have hne : ln.key ≠ [] := by
    intro e; have := h.1; rw [e] at this; simp [isIdentifierText] at this
  obtain ⟨k, t, hk⟩ := List.exists_cons_of_ne_nil hne
  simp only [FLine.text, hk, List.cons_append, List.head?_cons] at hc ⊢
  exact hc

theorem envLine_clean (name : Str) (hn : isEnvName name = true) : Clean ("===".toList ++ name ++ "===".toList) := by
  have hname : Clean name := by
    cases name with
    | nil => simp [isEnvName] at hn
    | cons c b =>
      simp only [isEnvName, Bool.and_eq_true] at hn
      intro d hd
      have hb : isEnvBody d = true := by
        rcases List.mem_cons.mp hd with h' | h'
        · subst h'; exact envStart_body _ hn.1
        · exact (List.all_eq_true.mp hn.2) d h'
      constructor <;> (intro he; subst he; revert hb; decide)
  exact Clean.append (Clean.append (clean_lit _ (by decide)) hname) (clean_lit _ (by decide))

/-- the lines of the body. -/
theorem splitLines_linesText (lines : List FLine) (tail : Str) (hok : ∀ ln ∈ lines, ln.OK) :
    splitLines (linesText lines ++ tail) = lines.map FLine.text ++ splitLines tail := by
  induction lines with
  | nil => rfl
  | cons ln ls ih =>
    have := splitLines_append_nl ln.text (linesText ls ++ tail) (fun d hd => (line_clean ln (hok ln (by simp)) d hd).1)
    simp only [linesText, List.cons_append, List.append_assoc, List.map_cons] at this ⊢
    rw [this, ih (fun l hl => hok l (by simp [hl]))]

theorem splitLines_flatText (name : Str) (lines : List FLine) (hn : isEnvName name = true) (hok : ∀ ln ∈ lines, ln.OK) :
    splitLines (flatText name lines) =
      ("===".toList ++ name ++ "===".toList) :: (lines.map FLine.text ++ ["===END===".toList, []]) := by
  have h1 := splitLines_append_nl ("===".toList ++ name ++ "===".toList) (linesText lines ++ ("===END===".toList ++ ['\n']))
    (fun d hd => (envLine_clean name hn d hd).1)
  have h2 := splitLines_linesText lines ("===END===".toList ++ ['\n']) hok
  have h3 : splitLines ("===END===".toList ++ ['\n']) = ["===END===".toList, []] := by decide
  unfold flatText
  rw [h1, h2, h3]

theorem flatText_noTab (name : Str) (lines : List FLine) (hn : isEnvName name = true) (hok : ∀ ln ∈ lines, ln.OK) :
    ∀ d ∈ flatText name lines, d ≠ '\t' := by
  have hl : ∀ (ls : List FLine), (∀ ln ∈ ls, ln.OK) → ∀ d ∈ linesText ls, d ≠ '\t' := by
    intro ls
    induction ls with
    | nil => intro _ d hd; simp [linesText] at hd
    | cons ln ls ih =>
      intro h d hd
      simp only [linesText, List.mem_append, List.mem_cons] at hd
      rcases hd with h' | h' | h'
      · exact (line_clean ln (h ln (by simp)) d h').2
      · subst h'; decide
      · exact ih (fun l hl => h l (by simp [hl])) d h'
  intro d hd
  simp only [flatText, List.mem_append, List.mem_cons] at hd
  rcases hd with h' | h' | h' | h' | h'
  · exact (envLine_clean name hn d (by simp only [List.mem_append]; exact h')).2
  · subst h'; decide
  · exact hl lines hok d h'
  · intro he; subst he; revert h'; decide
  · intro he; subst he; simp at h'

end Octave

namespace Octave
open Lexer Scan Emitter

def tEof (l c : Nat) : Token := { type := .eof, value := .none, line := l, col := c }

/-- tokens of a flat document in reading order, EOF included. -/
def flatToks (name : Str) (lines : List FLine) : List Token :=
  (tEof (lines.length + 3) 1 :: flatToksRev name lines).reverse

/-- **The lexer on the canonical text of a flat document** (any name, any number of lines, any keys and scalar values
satisfying the emitter's own conditions, both lexer modes, every environment whose NFC leaves the lines alone):
`tokenize` succeeds with exactly the expected tokens, positions included, and with no receipt other than the
(non-normalisation) identifier notes of the keys and bare words. -/
theorem tokenize_flat (env : Env) (lenient : Bool) (name : Str) (lines : List FLine)
    (hn : isEnvName name = true) (hne : name ≠ "END".toList) (hok : ∀ ln ∈ lines, ln.OK)
    (hnfc : ∀ l ∈ splitLines (flatText name lines), env.nfc l = l) :
    tokenize env (flatText name lines) lenient = .ok (flatToks name lines, (linesRepsRev 2 lines).reverse) := by
  have hsplit := splitLines_flatText name lines hn hok
  have hfence : ∀ l ∈ splitLines (flatText name lines), fenceLine l = none ∧ env.nfc l = l := by
    intro l hl
    refine ⟨?_, hnfc l hl⟩
    rw [hsplit] at hl
    simp only [List.mem_cons, List.mem_append, List.mem_map, List.mem_nil_iff, or_false] at hl
    rcases hl with h | ⟨ln, hln, rfl⟩ | h | h
    · subst h; exact fenceLine_none_of_head _ (by intro c hc; have : c = '=' := by simpa using hc.symm
                                                  subst this; decide)
    · exact fenceLine_none_of_head _ (line_head ln (hok ln hln))
    · subst h; decide
    · subst h; decide
  have hnorm := normalize_plain env (flatText name lines) hfence
  have htab := tabCheck_noTab [] (flatText name lines) 0 1 1 (flatText_noTab name lines hn hok)
  obtain ⟨st', run, ht, hr, hs, hl, hc⟩ := run_flat env lenient name lines hn hne hok
  have hloop := loop_of_run env lenient _ _ st' (flatText name lines) run (by intro sp hsp; simp at hsp)
  unfold tokenize
  simp only [hnorm, htab, hloop, bind, Except.bind, hs, List.getLast?_nil, ht, hr, hl, hc]
  rfl

end Octave
