import Octave.Lemmas.FlatLex
/-!
The lexer on flat documents whose values are scalars or LISTS OF SCALARS, in either list layout
(one line `[a,b,c]`, or one item per line behind any number of spaces, zero included; closing bracket at column 1).

* `FValue`, `LLine`, `Layout`; texts `inlineText` / `multiText` / `LLine.text` / `ldocText`; tokens (reading order, concrete
  positions) `inlineToks` / `multiToks` / `LLine.toks` / `ldocToks`;
* `At` (where the lexer is: line, column, bracket stack) and `Lexes` (some number of main-loop iterations read a prefix
  as a given token list; receipts are a function of the tokens: `toksReps`);
* `pattern_step_push` / `pattern_step_pop`: the pattern-branch step on LIST_START / LIST_END (the two token types
  `pattern_step_eq` excludes because they change the bracket stack), proved from the definition of `step`;
* per-token steps in that format: `lex_lb` (pushes the bracket stack), `lex_rb` (pops it), `lex_comma`, `lex_nl`,
  `lex_indent`, `lex_item` (any scalar, any separator before, terminator `,` `]` or line end; `step_bool'` / `step_null'`
  are the general-terminator variants of `step_bool` / `step_null`);
* `FF0` / `FFmid`: no line of the text is a fence line, walked along the text (the item lines are indented, so
  `fenceLine_none_of_head` does not apply); `NoTab`;
* runs: `lex_inline`, `lex_multi`, `lex_value`, `lex_lline`, `lex_llines`, and the result `tokenize_ldoc`.

Everything lives in `namespace Octave.ListDoc` (also `Lemmas/ListBridge`).  Case splits that NAME the constructors of `FScalar`
(a new constructor needs a new case there): `step_item`, `scalar_text_ne_nil`, `scalar_text_head`; all other case splits are
`cases v <;> rfl` / `simp`.
-/
namespace Octave.ListDoc
open Lexer Scan Emitter

/-! ### values, lines, layouts -/

/-- value of a line: a scalar or a list of scalars. -/
inductive FValue where
  | scalar (s : FScalar)
  | list (items : List FScalar)
  deriving Repr, DecidableEq

structure LLine where
  key : Str
  v : FValue
  deriving Repr, DecidableEq

/-- how a list is laid out: on one line, or one item per line behind `ind` spaces, `ind ≥ 0` (the closing bracket at
column 1). -/
inductive Layout where
  | inline
  | multi (ind : Nat)
  deriving Repr, DecidableEq

def spacesL (n : Nat) : Str := List.replicate n ' '

/-! ### texts -/

/-- after an item of a one-line list: `,item` … `]`. -/
def inlineTail : List FScalar → Str
  | [] => [']']
  | x :: r => ',' :: (x.text ++ inlineTail r)

/-- `[a,b,c]`; `[]`. -/
def inlineText : List FScalar → Str
  | [] => ['[', ']']
  | x :: r => '[' :: (x.text ++ inlineTail r)

/-- after an item of a multi-line list: `,⏎␣␣item` … `⏎]`. -/
def multiTail (ind : Nat) : List FScalar → Str
  | [] => ['\n', ']']
  | x :: r => ',' :: '\n' :: (spacesL ind ++ (x.text ++ multiTail ind r))

/-- `[⏎␣␣a,⏎␣␣b⏎]`; `[⏎]`. -/
def multiText (ind : Nat) : List FScalar → Str
  | [] => ['[', '\n', ']']
  | x :: r => '[' :: '\n' :: (spacesL ind ++ (x.text ++ multiTail ind r))

def listText (lay : Layout) (items : List FScalar) : Str :=
  match lay with
  | .inline => inlineText items
  | .multi ind => multiText ind items

def FValue.text (lay : Layout) : FValue → Str
  | .scalar s => s.text
  | .list items => listText lay items

/-- `KEY::value` without the final line end. -/
def LLine.text (ln : LLine) (lay : Layout) : Str := ln.key ++ (':' :: ':' :: ln.v.text lay)

/-- a line with its layout. -/
abbrev LL := LLine × Layout

def llinesText : List LL → Str
  | [] => []
  | x :: r => x.1.text x.2 ++ '\n' :: llinesText r

def ldocText (name : Str) (ls : List LL) : Str :=
  "===".toList ++ name ++ "===".toList ++ '\n' :: (llinesText ls ++ ("===END===".toList ++ ['\n']))

/-! ### tokens (reading order) -/

def tLb (l c : Nat) : Token := { type := .listStart, value := .str ['['], line := l, col := c }
def tRb (l c : Nat) : Token := { type := .listEnd, value := .str [']'], line := l, col := c }
def tComma (l c : Nat) : Token := { type := .comma, value := .str [','], line := l, col := c }
def tIndent (n l c : Nat) : Token := { type := .indent, value := .nat n, line := l, col := c }

/-- the INDENT token of an item line (none when the items are not indented). -/
def indToks (ind l : Nat) : List Token := if ind = 0 then [] else [tIndent ind l 1]

/-- tokens after an item that ended at column `c` of line `l`. -/
def inlineTailToks (l c : Nat) : List FScalar → List Token
  | [] => [tRb l c]
  | x :: r => tComma l c :: x.tok l (c + 1) :: inlineTailToks l (c + 1 + x.text.length) r

def inlineToks (l c : Nat) : List FScalar → List Token
  | [] => [tLb l c, tRb l (c + 1)]
  | x :: r => tLb l c :: x.tok l (c + 1) :: inlineTailToks l (c + 1 + x.text.length) r

def multiTailToks (ind l c : Nat) : List FScalar → List Token
  | [] => [tNewline l c, tRb (l + 1) 1]
  | x :: r => tComma l c :: tNewline l (c + 1) :: (indToks ind (l + 1) ++ x.tok (l + 1) (1 + ind)
      :: multiTailToks ind (l + 1) (1 + ind + x.text.length) r)

def multiToks (ind l c : Nat) : List FScalar → List Token
  | [] => [tLb l c, tNewline l (c + 1), tRb (l + 1) 1]
  | x :: r => tLb l c :: tNewline l (c + 1) :: (indToks ind (l + 1) ++ x.tok (l + 1) (1 + ind)
      :: multiTailToks ind (l + 1) (1 + ind + x.text.length) r)

def listToks (lay : Layout) (l c : Nat) (items : List FScalar) : List Token :=
  match lay with
  | .inline => inlineToks l c items
  | .multi ind => multiToks ind l c items

def FValue.toks (lay : Layout) (l c : Nat) : FValue → List Token
  | .scalar s => [s.tok l c]
  | .list items => listToks lay l c items

/-- number of line breaks inside the value. -/
def FValue.height (lay : Layout) : FValue → Nat
  | .scalar _ => 0
  | .list items => match lay with
    | .inline => 0
    | .multi _ => items.length + 1

/-- column right after the value. -/
def FValue.endCol (lay : Layout) (c : Nat) : FValue → Nat
  | .scalar s => c + s.text.length
  | .list items => match lay with
    | .inline => c + (inlineText items).length
    | .multi _ => 2

/-- tokens of a line starting at line `l`, column 1, its NEWLINE included. -/
def LLine.toks (ln : LLine) (lay : Layout) (l : Nat) : List Token :=
  tIdent ln.key l 1 :: tAssign l (1 + ln.key.length) :: (ln.v.toks lay l (1 + ln.key.length + 2)
    ++ [tNewline (l + ln.v.height lay) (ln.v.endCol lay (1 + ln.key.length + 2))])

/-- physical lines a line occupies. -/
def LLine.height (ln : LLine) (lay : Layout) : Nat := ln.v.height lay + 1

def llinesToks (l : Nat) : List LL → List Token
  | [] => []
  | x :: r => x.1.toks x.2 l ++ llinesToks (l + x.1.height x.2) r

def llinesHeight : List LL → Nat
  | [] => 0
  | x :: r => x.1.height x.2 + llinesHeight r

/-- all tokens of the document, EOF included. -/
def ldocToks (name : Str) (ls : List LL) : List Token :=
  tEnvStart name 1 1 :: tNewline 1 (1 + (name.length + 6)) :: (llinesToks 2 ls ++
    [tEnvEnd (llinesHeight ls + 2) 1, tNewline (llinesHeight ls + 2) 10, tEof (llinesHeight ls + 3) 1])

/-! ### receipts are a function of the tokens -/

/-- the (non-normalisation) notes the identifier branch files for an IDENTIFIER token. -/
def tokReps (t : Token) : List Repair :=
  if t.type == .identifier then identifierRepairs (tvalStr t.value) t.line t.col else []

def toksReps (ts : List Token) : List Repair := ts.flatMap tokReps

theorem toksReps_append (a b : List Token) : toksReps (a ++ b) = toksReps a ++ toksReps b := by
  simp [toksReps, List.flatMap_append]

theorem toksReps_cons (t : Token) (ts : List Token) : toksReps (t :: ts) = tokReps t ++ toksReps ts := by
  simp [toksReps, List.flatMap_cons]

theorem scalar_tokReps (v : FScalar) (l c : Nat) : tokReps (v.tok l c) = v.reps l c := by
  cases v <;> rfl

/-! ### where the lexer is; reading a prefix -/

/-- between tokens at line `l`, column `c`, with open brackets `stk`. -/
structure At (st : LState) (l c : Nat) (stk : List (Nat × Nat)) : Prop where
  ready : Ready st
  line : st.line = l
  col : st.col = c
  stack : st.stack = stk

/-- some iterations of the main loop take `(st, s)` to `(st', s')` and append exactly `toks` (and their notes). -/
def Lexes (env : Env) (lenient : Bool) (st : LState) (s : Str) (st' : LState) (s' : Str) (toks : List Token) : Prop :=
  ∃ n, Run env lenient n st s st' s' ∧ st'.toks = toks.reverse ++ st.toks ∧
    st'.repairs = (toksReps toks).reverse ++ st.repairs

theorem Lexes.refl (env : Env) (lenient : Bool) (st : LState) (s : Str) : Lexes env lenient st s st s [] :=
  ⟨0, Run.refl _ _, by simp, by simp [toksReps]⟩

theorem Lexes.trans {env : Env} {lenient : Bool} {a b c : LState} {s t u : Str} {t1 t2 : List Token}
    (h1 : Lexes env lenient a s b t t1) (h2 : Lexes env lenient b t c u t2) : Lexes env lenient a s c u (t1 ++ t2) := by
  obtain ⟨n, r1, e1, p1⟩ := h1
  obtain ⟨m, r2, e2, p2⟩ := h2
  refine ⟨n + m, Run.trans r1 r2, ?_, ?_⟩
  · rw [e2, e1, List.reverse_append, List.append_assoc]
  · rw [p2, p1, toksReps_append, List.reverse_append, List.append_assoc]

theorem Lexes.step {env : Env} {lenient : Bool} {st st' : LState} {s s' : Str} {toks : List Token} (hne : s ≠ [])
    (h : Lexer.step env lenient st s = .ok (st', s')) (ht : st'.toks = toks.reverse ++ st.toks)
    (hr : st'.repairs = (toksReps toks).reverse ++ st.repairs) : Lexes env lenient st s st' s' toks := by
  obtain ⟨c, r, rfl⟩ := List.exists_cons_of_ne_nil hne
  exact ⟨1, Run.one h, ht, hr⟩

/-- from the `Adv` format of `FlatLexBase` (one step, tokens newest first, positions relative to the state). -/
theorem lexes_of_adv {env : Env} {lenient : Bool} {st st' : LState} {s s' : Str} {toks : List Token} {reps : List Repair}
    {d c' : Nat} {p : Option Char} {l c : Nat} {stk : List (Nat × Nat)} (hne : s ≠ [])
    (h : Lexer.step env lenient st s = .ok (st', s')) (ha : Adv st st' toks reps d c' p) (hat : At st l c stk)
    (hreps : reps = (toksReps toks.reverse).reverse) :
    Lexes env lenient st s st' s' toks.reverse ∧ At st' (l + d) c' stk ∧ st'.prev = p := by
  refine ⟨Lexes.step hne h (by rw [ha.toks, List.reverse_reverse]) (by rw [ha.repairs, hreps]),
    ⟨ha.ready, by rw [ha.line, hat.line], ha.col, by rw [ha.stack, hat.stack]⟩, ha.prev⟩

/-! ### the bracket and comma patterns -/

def mPunct (t : TT) (c : Char) (rest : Str) : Match := { type := t, value := .str [c], text := [c], rest := rest }

theorem matchPattern_lb (env : Env) (prev : Option Char) (rest : Str) :
    matchPattern env false prev ('[' :: rest) = .ok (some (mPunct .listStart '[' rest)) := by
  unfold matchPattern
  have hd : env.isDigit '[' = false := isDigit_ascii_false env '[' (by decide) (by decide)
  simp only [Bool.false_eq_true, if_false, hd]
  rfl

theorem matchPattern_rb (env : Env) (prev : Option Char) (rest : Str) :
    matchPattern env false prev (']' :: rest) = .ok (some (mPunct .listEnd ']' rest)) := by
  unfold matchPattern
  have hd : env.isDigit ']' = false := isDigit_ascii_false env ']' (by decide) (by decide)
  simp only [Bool.false_eq_true, if_false, hd]
  rfl

theorem matchPattern_comma (env : Env) (prev : Option Char) (rest : Str) :
    matchPattern env false prev (',' :: rest) = .ok (some (mPunct .comma ',' rest)) := by
  unfold matchPattern
  have hd : env.isDigit ',' = false := isDigit_ascii_false env ',' (by decide) (by decide)
  simp only [Bool.false_eq_true, if_false, hd]
  rfl

/-- a pattern-branch step on LIST_START pushes the bracket's position. -/
theorem pattern_step_push (env : Env) (lenient : Bool) (st : LState) (c : Char) (r : Str) (m : Match)
    (hspan : atSpanStart st = false) (hc : c ≠ ' ')
    (hm : matchPattern env st.blank st.prev (c :: r) = .ok (some m)) (ht : m.type = .listStart) :
    step env lenient st (c :: r) = .ok ({ patNext st m with stack := (st.line, st.col) :: st.stack }, m.rest) := by
  have hc' : (c == ' ') = false := by simpa using hc
  unfold step
  simp only [hspan, hc', hm, Bool.false_eq_true, if_false, bind, Except.bind, ht, pure, Except.pure, patNext]
  rfl

theorem pattern_step_pop (env : Env) (lenient : Bool) (st : LState) (c : Char) (r : Str) (m : Match)
    (top : Nat × Nat) (stk : List (Nat × Nat))
    (hspan : atSpanStart st = false) (hc : c ≠ ' ')
    (hm : matchPattern env st.blank st.prev (c :: r) = .ok (some m)) (ht : m.type = .listEnd) (hs : st.stack = top :: stk) :
    step env lenient st (c :: r) = .ok ({ patNext st m with stack := stk }, m.rest) := by
  have hc' : (c == ' ') = false := by simpa using hc
  unfold step
  simp only [hspan, hc', hm, Bool.false_eq_true, if_false, bind, Except.bind, ht, hs, pure, Except.pure, patNext]
  rfl

/-! ### single steps in the `At` / `Lexes` format -/

theorem tokReps_nonIdent (t : Token) (h : t.type ≠ .identifier) : tokReps t = [] := by
  simp [tokReps, h]

theorem lex_lb (env : Env) (lenient : Bool) (st : LState) (rest : Str) (l c : Nat) (stk : List (Nat × Nat)) (h : At st l c stk) :
    ∃ st', Lexes env lenient st ('[' :: rest) st' rest [tLb l c] ∧ At st' l (c + 1) ((l, c) :: stk) ∧ st'.prev = some '[' := by
  have hm : matchPattern env st.blank st.prev ('[' :: rest) = .ok (some (mPunct .listStart '[' rest)) := by
    rw [h.ready.blank]; exact matchPattern_lb env st.prev rest
  have hs := pattern_step_push env lenient st '[' rest _ h.ready.noSpan (by decide) hm rfl
  refine ⟨_, Lexes.step (by simp) hs ?_ ?_, ⟨⟨h.ready.spans, ?_⟩, ?_, ?_, ?_⟩, rfl⟩
  · simp [patNext, mPunct, tLb, h.line, h.col]
  · simp [patNext, mPunct, toksReps, tokReps, tLb]
  · simp [patNext, mPunct, h.ready.blank]
  · simp [patNext, mPunct, advancePos, h.line]
  · simp [patNext, mPunct, advancePos, h.col]
  · simp [h.line, h.col, h.stack]

theorem lex_rb (env : Env) (lenient : Bool) (st : LState) (rest : Str) (l c : Nat) (top : Nat × Nat) (stk : List (Nat × Nat))
    (h : At st l c (top :: stk)) :
    ∃ st', Lexes env lenient st (']' :: rest) st' rest [tRb l c] ∧ At st' l (c + 1) stk ∧ st'.prev = some ']' := by
  have hm : matchPattern env st.blank st.prev (']' :: rest) = .ok (some (mPunct .listEnd ']' rest)) := by
    rw [h.ready.blank]; exact matchPattern_rb env st.prev rest
  have hs := pattern_step_pop env lenient st ']' rest _ top stk h.ready.noSpan (by decide) hm rfl h.stack
  refine ⟨_, Lexes.step (by simp) hs ?_ ?_, ⟨⟨h.ready.spans, ?_⟩, ?_, ?_, ?_⟩, rfl⟩
  · simp [patNext, mPunct, tRb, h.line, h.col]
  · simp [patNext, mPunct, toksReps, tokReps, tRb]
  · simp [patNext, mPunct, h.ready.blank]
  · simp [patNext, mPunct, advancePos, h.line]
  · simp [patNext, mPunct, advancePos, h.col]
  · rfl

theorem lex_comma (env : Env) (lenient : Bool) (st : LState) (rest : Str) (l c : Nat) (stk : List (Nat × Nat)) (h : At st l c stk) :
    ∃ st', Lexes env lenient st (',' :: rest) st' rest [tComma l c] ∧ At st' l (c + 1) stk ∧ st'.prev = some ',' := by
  have hm : matchPattern env st.blank st.prev (',' :: rest) = .ok (some (mPunct .comma ',' rest)) := by
    rw [h.ready.blank]; exact matchPattern_comma env st.prev rest
  have hs := pattern_step_eq env lenient st ',' rest _ h.ready.noSpan (by decide) hm (by simp [mPunct]) (by simp [mPunct])
  refine ⟨_, Lexes.step (by simp) hs ?_ ?_, ⟨⟨h.ready.spans, ?_⟩, ?_, ?_, ?_⟩, rfl⟩
  · simp [patNext, mPunct, tComma, h.line, h.col]
  · simp [patNext, mPunct, toksReps, tokReps, tComma]
  · simp [patNext, mPunct, h.ready.blank]
  · simp [patNext, mPunct, advancePos, h.line]
  · simp [patNext, mPunct, advancePos, h.col]
  · simp [patNext, h.stack]

theorem lex_nl (env : Env) (lenient : Bool) (st : LState) (rest : Str) (l c : Nat) (stk : List (Nat × Nat)) (h : At st l c stk) :
    ∃ st', Lexes env lenient st ('\n' :: rest) st' rest [tNewline l c] ∧ At st' (l + 1) 1 stk ∧ st'.prev = some '\n' := by
  obtain ⟨st', e, a⟩ := step_newline env lenient st rest h.ready
  rw [h.line, h.col] at a
  exact ⟨st', lexes_of_adv (by simp) e a h rfl⟩

theorem lex_assign (env : Env) (lenient : Bool) (st : LState) (rest : Str) (l c : Nat) (stk : List (Nat × Nat)) (h : At st l c stk) :
    ∃ st', Lexes env lenient st (':' :: ':' :: rest) st' rest [tAssign l c] ∧ At st' l (c + 2) stk ∧ st'.prev = some ':' := by
  obtain ⟨st', e, a⟩ := step_assign env lenient st rest h.ready
  rw [h.line, h.col] at a
  exact ⟨st', lexes_of_adv (by simp) e a h rfl⟩

theorem lex_ident (env : Env) (lenient : Bool) (st : LState) (s rest : Str) (l c : Nat) (stk : List (Nat × Nat)) (h : At st l c stk)
    (hid : isIdentifierText s = true) (hres : hasReservedPrefix s = false) (hterm : TermOK env rest) :
    ∃ st', Lexes env lenient st (s ++ rest) st' rest [tIdent s l c] ∧ At st' l (c + s.length) stk := by
  obtain ⟨st', e, a⟩ := step_ident env lenient st s rest h.ready hid hres hterm
  rw [h.line, h.col] at a
  have hne : s ++ rest ≠ [] := by
    intro h0; have : s = [] := (List.append_eq_nil_iff.mp h0).1
    rw [this] at hid; simp [isIdentifierText] at hid
  have := lexes_of_adv hne e a h (by simp [toksReps, tokReps, tIdent, tvalStr])
  exact ⟨st', this.1, this.2.1⟩

theorem lex_envEnd (env : Env) (lenient : Bool) (st : LState) (rest : Str) (l c : Nat) (stk : List (Nat × Nat)) (h : At st l c stk) :
    ∃ st', Lexes env lenient st ("===END===".toList ++ rest) st' rest [tEnvEnd l c] ∧ At st' l (c + 9) stk := by
  obtain ⟨st', e, a⟩ := step_envEnd env lenient st rest h.ready
  rw [h.line, h.col] at a
  have := lexes_of_adv (by simp) e a h rfl
  exact ⟨st', this.1, this.2.1⟩

theorem takeWhile_spaces (n : Nat) (d : Char) (r : Str) (hd : d ≠ ' ') :
    takeWhile (· == ' ') (spacesL n ++ d :: r) = (spacesL n, d :: r) :=
  takeWhile_append_stop _ _ _ (fun x hx => by simp [spacesL, List.mem_replicate] at hx; simp [hx.2])
    (fun e he => by have : e = d := by simpa using he.symm
                    subst this; simpa using hd)

/-- leading spaces of an item line: one INDENT token carrying their number. -/
theorem lex_indent (env : Env) (lenient : Bool) (st : LState) (n : Nat) (d : Char) (r : Str) (l : Nat) (stk : List (Nat × Nat))
    (h : At st l 1 stk) (hn : 0 < n) (hd1 : d ≠ ' ') (hd2 : d ≠ '\n') :
    ∃ st', Lexes env lenient st (spacesL n ++ d :: r) st' (d :: r) [tIndent n l 1] ∧ At st' l (1 + n) stk ∧ st'.prev = some ' ' := by
  obtain ⟨m, rfl⟩ : ∃ m, n = m + 1 := ⟨n - 1, by omega⟩
  have htw := takeWhile_spaces (m + 1) d r hd1
  have hshape : spacesL (m + 1) ++ d :: r = ' ' :: (spacesL m ++ d :: r) := by simp [spacesL, List.replicate_succ]
  have hd2' : (d != '\n') = true := by simpa using hd2
  have hs : step env lenient st (spacesL (m + 1) ++ d :: r) =
      .ok ({ st with pos := st.pos + (m + 1), prev := some ' ', col := st.col + (m + 1), blank := false,
                     toks := { type := .indent, value := .nat (m + 1), line := st.line, col := st.col } :: st.toks }, d :: r) := by
    rw [hshape] at htw ⊢
    unfold step
    simp only [h.ready.noSpan, Bool.false_eq_true, if_false, beq_self_eq_true, if_true, h.col, htw, hd2']
    simp [spacesL]
  refine ⟨_, Lexes.step (by simp [spacesL, List.replicate_succ]) hs ?_ ?_, ⟨⟨h.ready.spans, rfl⟩, h.line, ?_, h.stack⟩, rfl⟩
  · simp [tIndent, h.line, h.col]
  · simp [toksReps, tokReps, tIndent]
  · simp [h.col]

/-! ### a scalar item: any separator before, `,` `]` or the line end after -/

/-- the char before a value: `[`, `,`, the last space of the indentation, the second `:` of `::`, or a line break. -/
def SepChar (p : Char) : Prop := p = '[' ∨ p = ',' ∨ p = ' ' ∨ p = ':' ∨ p = '\n'
/-- the char after a value. -/
def TermChar (d : Char) : Prop := d = ',' ∨ d = ']' ∨ d = '\n'

theorem word_sep (env : Env) (p : Char) (h : SepChar p) : env.word p = false := by
  rcases h with h | h | h | h | h <;> subst h <;> simp [Env.word, isAscii, isAlnumA, isAlphaA, isDigitA, isUpper, isLower]

theorem word_term (env : Env) (d : Char) (h : TermChar d) : env.word d = false := by
  rcases h with h | h | h <;> subst h <;> simp [Env.word, isAscii, isAlnumA, isAlphaA, isDigitA, isUpper, isLower]

theorem termOK_term (env : Env) (d : Char) (r : Str) (h : TermChar d) : TermOK env (d :: r) := by
  intro e he
  have : e = d := by simpa using he.symm
  subst this
  rcases h with h | h | h <;> subst h <;>
    exact ⟨by simp [Env.idChar, isAscii, isAlnumA, isAlphaA, isDigitA, isUpper, isLower], by decide, by decide, by decide⟩

theorem numTerm_term (env : Env) (d : Char) (r : Str) (h : TermChar d) : NumTerm env (d :: r) := by
  intro e he
  have : e = d := by simpa using he.symm
  subst this
  rcases h with h | h | h <;> subst h <;>
    exact ⟨isDigit_ascii_false env _ (by decide) (by decide), by decide, by decide, by decide⟩

theorem matchPattern_true' (env : Env) (p d : Char) (rest : Str) (hp : env.word p = false) (hd : env.word d = false) :
    matchPattern env false (some p) ("true".toList ++ d :: rest) = .ok (some (mBool true (d :: rest))) := by
  have hdg : env.isDigit 't' = false := isDigit_ascii_false env 't' (by decide) (by decide)
  show matchPattern env false (some p) ('t' :: ("rue".toList ++ d :: rest)) = _
  unfold matchPattern
  simp only [Bool.false_eq_true, if_false, hdg]
  have hk : kw env (some p) "true".toList ('t' :: ("rue".toList ++ d :: rest)) = some (d :: rest) := by
    unfold kw
    have hl : lit "true".toList ('t' :: ("rue".toList ++ d :: rest)) = some (d :: rest) := lit_append "true".toList _
    rw [hl]
    simp [Env.boundary, hp, hd, word_lower env 't' (by decide), word_lower env 'e' (by decide)]
  have : matchKeyword env (some p) 't' ('t' :: ("rue".toList ++ d :: rest)) = some (mBool true (d :: rest)) := by
    unfold matchKeyword
    simp only [hk]
    rfl
  rw [if_neg (by decide), if_neg (by decide), if_neg (by decide), if_pos (by decide), this]

theorem matchPattern_false' (env : Env) (p d : Char) (rest : Str) (hp : env.word p = false) (hd : env.word d = false) :
    matchPattern env false (some p) ("false".toList ++ d :: rest) = .ok (some (mBool false (d :: rest))) := by
  have hdg : env.isDigit 'f' = false := isDigit_ascii_false env 'f' (by decide) (by decide)
  show matchPattern env false (some p) ('f' :: ("alse".toList ++ d :: rest)) = _
  unfold matchPattern
  simp only [Bool.false_eq_true, if_false, hdg]
  have hk : kw env (some p) "false".toList ('f' :: ("alse".toList ++ d :: rest)) = some (d :: rest) := by
    unfold kw
    have hl : lit "false".toList ('f' :: ("alse".toList ++ d :: rest)) = some (d :: rest) := lit_append "false".toList _
    rw [hl]
    simp [Env.boundary, hp, hd, word_lower env 'f' (by decide), word_lower env 'e' (by decide)]
  have : matchKeyword env (some p) 'f' ('f' :: ("alse".toList ++ d :: rest)) = some (mBool false (d :: rest)) := by
    unfold matchKeyword
    simp only [hk]
    rfl
  rw [if_neg (by decide), if_neg (by decide), if_neg (by decide), if_pos (by decide), this]

theorem matchPattern_null' (env : Env) (p d : Char) (rest : Str) (hp : env.word p = false) (hd : env.word d = false) :
    matchPattern env false (some p) ("null".toList ++ d :: rest) = .ok (some (mNull (d :: rest))) := by
  have hdg : env.isDigit 'n' = false := isDigit_ascii_false env 'n' (by decide) (by decide)
  show matchPattern env false (some p) ('n' :: ("ull".toList ++ d :: rest)) = _
  unfold matchPattern
  simp only [Bool.false_eq_true, if_false, hdg]
  have hk : kw env (some p) "null".toList ('n' :: ("ull".toList ++ d :: rest)) = some (d :: rest) := by
    unfold kw
    have hl : lit "null".toList ('n' :: ("ull".toList ++ d :: rest)) = some (d :: rest) := lit_append "null".toList _
    rw [hl]
    simp [Env.boundary, hp, hd, word_lower env 'n' (by decide), word_lower env 'l' (by decide)]
  have : matchKeyword env (some p) 'n' ('n' :: ("ull".toList ++ d :: rest)) = some (mNull (d :: rest)) := by
    unfold matchKeyword
    simp only [hk]
    rfl
  rw [if_neg (by decide), if_neg (by decide), if_neg (by decide), if_pos (by decide), this]

/-- `true` / `false` after any non-word char and before any non-word char. -/
theorem step_bool' (env : Env) (lenient : Bool) (st : LState) (b : Bool) (p d : Char) (rest : Str) (hr : Ready st)
    (hp : st.prev = some p) (hwp : env.word p = false) (hwd : env.word d = false) :
    ∃ st', step env lenient st ((if b then "true".toList else "false".toList) ++ d :: rest) = .ok (st', d :: rest) ∧
      Adv st st' [tBool b st.line st.col] [] 0 (st.col + (if b then 4 else 5)) (some 'e') := by
  cases b with
  | true =>
    have hm : matchPattern env st.blank st.prev ('t' :: ("rue".toList ++ d :: rest)) = .ok (some (mBool true (d :: rest))) := by
      rw [hr.blank, hp]; exact matchPattern_true' env p d rest hwp hwd
    refine ⟨_, pattern_step_eq env lenient st 't' _ (mBool true (d :: rest)) hr.noSpan (by decide) hm (by simp [mBool]) (by simp [mBool]), ?_⟩
    refine ⟨⟨hr.spans, by simp [patNext, hr.blank]⟩, rfl, rfl, rfl, ?_, ?_, rfl⟩
    · simp [patNext, mBool, advancePos]
    · simp [patNext, mBool, advancePos]
  | false =>
    have hm : matchPattern env st.blank st.prev ('f' :: ("alse".toList ++ d :: rest)) = .ok (some (mBool false (d :: rest))) := by
      rw [hr.blank, hp]; exact matchPattern_false' env p d rest hwp hwd
    refine ⟨_, pattern_step_eq env lenient st 'f' _ (mBool false (d :: rest)) hr.noSpan (by decide) hm (by simp [mBool]) (by simp [mBool]), ?_⟩
    refine ⟨⟨hr.spans, by simp [patNext, hr.blank]⟩, rfl, rfl, rfl, ?_, ?_, rfl⟩
    · simp [patNext, mBool, advancePos]
    · simp [patNext, mBool, advancePos]

theorem step_null' (env : Env) (lenient : Bool) (st : LState) (p d : Char) (rest : Str) (hr : Ready st)
    (hp : st.prev = some p) (hwp : env.word p = false) (hwd : env.word d = false) :
    ∃ st', step env lenient st ("null".toList ++ d :: rest) = .ok (st', d :: rest) ∧
      Adv st st' [tNull st.line st.col] [] 0 (st.col + 4) (some 'l') := by
  have hm : matchPattern env st.blank st.prev ('n' :: ("ull".toList ++ d :: rest)) = .ok (some (mNull (d :: rest))) := by
    rw [hr.blank, hp]; exact matchPattern_null' env p d rest hwp hwd
  refine ⟨_, pattern_step_eq env lenient st 'n' _ (mNull (d :: rest)) hr.noSpan (by decide) hm (by simp [mNull]) (by simp [mNull]), ?_⟩
  refine ⟨⟨hr.spans, by simp [patNext, hr.blank]⟩, rfl, rfl, rfl, ?_, ?_, rfl⟩
  · simp [patNext, mNull, advancePos]
  · simp [patNext, mNull, advancePos]

/-- **one scalar as a value or list item**: after `::`, `[`, `,` or the indentation; before `,`, `]` or the line end. -/
theorem step_item (env : Env) (lenient : Bool) (st : LState) (v : FScalar) (p d : Char) (rest : Str) (hr : Ready st)
    (hp : st.prev = some p) (hsep : SepChar p) (hterm : TermChar d) (hv : v.OK) :
    ∃ st' q, step env lenient st (v.text ++ d :: rest) = .ok (st', d :: rest) ∧
      Adv st st' [v.tok st.line st.col] (v.reps st.line st.col).reverse 0 (st.col + v.text.length) q := by
  cases v with
  | qstr s =>
    obtain ⟨st', h1, h2⟩ := step_quoted env lenient st s (d :: rest) hr (by
      rcases hterm with h | h | h <;> subst h <;> simp)
    exact ⟨st', _, h1, h2⟩
  | bare s =>
    obtain ⟨st', h1, h2⟩ := step_ident env lenient st s (d :: rest) hr hv.1 hv.2 (termOK_term env d rest hterm)
    exact ⟨st', _, h1, h2⟩
  | bool b =>
    obtain ⟨st', h1, h2⟩ := step_bool' env lenient st b p d rest hr hp (word_sep env p hsep) (word_term env d hterm)
    refine ⟨st', some 'e', h1, ?_⟩
    cases b <;> exact h2
  | null =>
    obtain ⟨st', h1, h2⟩ := step_null' env lenient st p d rest hr hp (word_sep env p hsep) (word_term env d hterm)
    exact ⟨st', _, h1, h2⟩
  | int i =>
    obtain ⟨st', h1, h2⟩ := step_int env lenient st i (d :: rest) hr (numTerm_term env d rest hterm) hv
    exact ⟨st', _, h1, h2⟩

theorem scalar_text_ne_nil (v : FScalar) (hv : v.OK) : v.text ≠ [] := by
  cases v with
  | qstr s => simp [FScalar.text, quoted]
  | bare s =>
    intro h
    have := hv.1
    simp only [FScalar.text] at h
    rw [h] at this; simp [isIdentifierText] at this
  | bool b => cases b <;> simp [FScalar.text]
  | null => simp [FScalar.text]
  | int i => exact intStr_ne_nil i

/-- what follows an item: `,`, `]` or a line end. -/
def ItemTerm (R : Str) : Prop := ∃ d r, R = d :: r ∧ TermChar d

theorem lex_item (env : Env) (lenient : Bool) (st : LState) (v : FScalar) (p : Char) (R : Str) (l c : Nat)
    (stk : List (Nat × Nat)) (h : At st l c stk) (hp : st.prev = some p) (hsep : SepChar p) (hterm : ItemTerm R) (hv : v.OK) :
    ∃ st', Lexes env lenient st (v.text ++ R) st' R [v.tok l c] ∧ At st' l (c + v.text.length) stk := by
  obtain ⟨d, rest, rfl, hd⟩ := hterm
  obtain ⟨st', q, e, a⟩ := step_item env lenient st v p d rest h.ready hp hsep hd hv
  rw [h.line, h.col] at a
  have := lexes_of_adv (by simp) e a h (by simp [toksReps, scalar_tokReps])
  exact ⟨st', this.1, this.2.1⟩

/-! ### list values -/

theorem At.cast {st : LState} {l c l' c' : Nat} {stk : List (Nat × Nat)} (h : At st l c stk) (hl : l = l') (hc : c = c') :
    At st l' c' stk := by subst hl; subst hc; exact h

/-- the first char of a scalar's text: not a space, not a backtick, not a line break. -/
theorem scalar_text_head (v : FScalar) (hv : v.OK) : ∃ c t, v.text = c :: t ∧ c ≠ ' ' ∧ c ≠ '`' ∧ c ≠ '\n' := by
  obtain ⟨c, t, hct⟩ := List.exists_cons_of_ne_nil (scalar_text_ne_nil v hv)
  have hnl : c ≠ '\n' := (scalar_clean v hv c (by rw [hct]; simp)).1
  have h2 : c ≠ ' ' ∧ c ≠ '`' := by
    cases v with
    | qstr s =>
      simp only [FScalar.text, quoted, List.cons_append, List.cons.injEq] at hct; rw [← hct.1]; decide
    | bare s => exact (identText_head s hv.1) c (by simp only [FScalar.text] at hct; rw [hct]; rfl)
    | bool b =>
      cases b <;> (simp only [FScalar.text, if_true, Bool.false_eq_true, if_false] at hct; have := (List.cons.inj hct).1; rw [← this]; decide)
    | null => simp only [FScalar.text] at hct; have := (List.cons.inj hct).1; rw [← this]; decide
    | int i =>
      have hm : c ∈ intStr i := by simp only [FScalar.text] at hct; rw [hct]; simp
      exact ⟨intStr_not i _ (by decide) (by decide) c hm, intStr_not i _ (by decide) (by decide) c hm⟩
  exact ⟨c, t, hct, h2.1, h2.2, hnl⟩

theorem itemTerm_inlineTail (r : List FScalar) (rest : Str) : ItemTerm (inlineTail r ++ rest) := by
  cases r with
  | nil => exact ⟨']', rest, rfl, Or.inr (Or.inl rfl)⟩
  | cons x r => exact ⟨',', _, rfl, Or.inl rfl⟩

theorem itemTerm_multiTail (ind : Nat) (r : List FScalar) (rest : Str) : ItemTerm (multiTail ind r ++ rest) := by
  cases r with
  | nil => exact ⟨'\n', _, rfl, Or.inr (Or.inr rfl)⟩
  | cons x r => exact ⟨',', _, rfl, Or.inl rfl⟩

theorem itemTerm_nl (rest : Str) : ItemTerm ('\n' :: rest) := ⟨'\n', rest, rfl, Or.inr (Or.inr rfl)⟩

theorem lex_inlineTail (env : Env) (lenient : Bool) (items : List FScalar) :
    ∀ (st : LState) (rest : Str) (l c : Nat) (top : Nat × Nat) (stk : List (Nat × Nat)), At st l c (top :: stk) →
    (∀ x ∈ items, x.OK) →
    ∃ st', Lexes env lenient st (inlineTail items ++ rest) st' rest (inlineTailToks l c items) ∧
      At st' l (c + (inlineTail items).length) stk := by
  induction items with
  | nil =>
    intro st rest l c top stk h _
    obtain ⟨s1, x1, a1, _⟩ := lex_rb env lenient st rest l c top stk h
    exact ⟨s1, x1, a1⟩
  | cons x r ih =>
    intro st rest l c top stk h hok
    obtain ⟨s1, x1, a1, p1⟩ := lex_comma env lenient st (x.text ++ (inlineTail r ++ rest)) l c _ h
    obtain ⟨s2, x2, a2⟩ := lex_item env lenient s1 x ',' (inlineTail r ++ rest) l (c + 1) _ a1 p1 (Or.inr (Or.inl rfl))
      (itemTerm_inlineTail r rest) (hok x (by simp))
    obtain ⟨s3, x3, a3⟩ := ih s2 rest l (c + 1 + x.text.length) top stk a2 (fun y hy => hok y (by simp [hy]))
    refine ⟨s3, ?_, a3.cast rfl (by simp [inlineTail]; omega)⟩
    have := (x1.trans x2).trans x3
    simpa [inlineTail, inlineTailToks, List.append_assoc] using this

theorem lex_inline (env : Env) (lenient : Bool) (items : List FScalar) (st : LState) (rest : Str) (l c : Nat)
    (stk : List (Nat × Nat)) (h : At st l c stk) (hok : ∀ x ∈ items, x.OK) :
    ∃ st', Lexes env lenient st (inlineText items ++ rest) st' rest (inlineToks l c items) ∧
      At st' l (c + (inlineText items).length) stk := by
  cases items with
  | nil =>
    obtain ⟨s1, x1, a1, _⟩ := lex_lb env lenient st (']' :: rest) l c stk h
    obtain ⟨s2, x2, a2, _⟩ := lex_rb env lenient s1 rest l (c + 1) _ _ a1
    exact ⟨s2, by simpa [inlineText, inlineToks] using x1.trans x2, a2.cast rfl (by simp [inlineText])⟩
  | cons x r =>
    obtain ⟨s1, x1, a1, p1⟩ := lex_lb env lenient st (x.text ++ (inlineTail r ++ rest)) l c stk h
    obtain ⟨s2, x2, a2⟩ := lex_item env lenient s1 x '[' (inlineTail r ++ rest) l (c + 1) _ a1 p1 (Or.inl rfl)
      (itemTerm_inlineTail r rest) (hok x (by simp))
    obtain ⟨s3, x3, a3⟩ := lex_inlineTail env lenient r s2 rest l (c + 1 + x.text.length) _ stk a2 (fun y hy => hok y (by simp [hy]))
    refine ⟨s3, ?_, a3.cast rfl (by simp [inlineText]; omega)⟩
    have := (x1.trans x2).trans x3
    simpa [inlineText, inlineToks, List.append_assoc] using this

/-- an item line of a multi-line list, from column 1: INDENT (when indented), the item. -/
theorem lex_itemLine (env : Env) (lenient : Bool) (st : LState) (ind : Nat) (x : FScalar) (R : Str) (l : Nat)
    (stk : List (Nat × Nat)) (h : At st l 1 stk) (hp : st.prev = some '\n') (hterm : ItemTerm R) (hx : x.OK) :
    ∃ st', Lexes env lenient st (spacesL ind ++ (x.text ++ R)) st' R (indToks ind l ++ [x.tok l (1 + ind)]) ∧
      At st' l (1 + ind + x.text.length) stk := by
  by_cases hind : ind = 0
  · subst hind
    obtain ⟨s2, x2, a2⟩ := lex_item env lenient st x '\n' R l 1 stk h hp (Or.inr (Or.inr (Or.inr (Or.inr rfl)))) hterm hx
    exact ⟨s2, by simpa [spacesL, indToks] using x2, a2.cast rfl (by omega)⟩
  · obtain ⟨c0, t0, hct, h1, _, h3⟩ := scalar_text_head x hx
    have e : x.text ++ R = c0 :: (t0 ++ R) := by rw [hct]; simp
    obtain ⟨s1, x1, a1, p1⟩ := lex_indent env lenient st ind c0 (t0 ++ R) l stk h (by omega) h1 h3
    rw [← e] at x1
    obtain ⟨s2, x2, a2⟩ := lex_item env lenient s1 x ' ' R l (1 + ind) stk a1 p1 (Or.inr (Or.inr (Or.inl rfl))) hterm hx
    exact ⟨s2, by simpa [indToks, hind] using x1.trans x2, a2⟩

theorem lex_multiTail (env : Env) (lenient : Bool) (ind : Nat) (items : List FScalar) :
    ∀ (st : LState) (rest : Str) (l c : Nat) (top : Nat × Nat) (stk : List (Nat × Nat)), At st l c (top :: stk) →
    (∀ x ∈ items, x.OK) →
    ∃ st', Lexes env lenient st (multiTail ind items ++ rest) st' rest (multiTailToks ind l c items) ∧
      At st' (l + items.length + 1) 2 stk := by
  induction items with
  | nil =>
    intro st rest l c top stk h _
    obtain ⟨s1, x1, a1, _⟩ := lex_nl env lenient st (']' :: rest) l c _ h
    obtain ⟨s2, x2, a2, _⟩ := lex_rb env lenient s1 rest (l + 1) 1 top stk a1
    exact ⟨s2, by simpa [multiTail, multiTailToks] using x1.trans x2, a2.cast (by simp) rfl⟩
  | cons x r ih =>
    intro st rest l c top stk h hok
    obtain ⟨s1, x1, a1, _⟩ := lex_comma env lenient st ('\n' :: (spacesL ind ++ (x.text ++ (multiTail ind r ++ rest)))) l c _ h
    obtain ⟨s2, x2, a2, p2⟩ := lex_nl env lenient s1 (spacesL ind ++ (x.text ++ (multiTail ind r ++ rest))) l (c + 1) _ a1
    obtain ⟨s3, x3, a3⟩ := lex_itemLine env lenient s2 ind x (multiTail ind r ++ rest) (l + 1) _ a2 p2
      (itemTerm_multiTail ind r rest) (hok x (by simp))
    obtain ⟨s4, x4, a4⟩ := ih s3 rest (l + 1) (1 + ind + x.text.length) top stk a3 (fun y hy => hok y (by simp [hy]))
    refine ⟨s4, ?_, a4.cast (by simp; omega) rfl⟩
    have := ((x1.trans x2).trans x3).trans x4
    simpa [multiTail, multiTailToks, List.append_assoc] using this

theorem lex_multi (env : Env) (lenient : Bool) (ind : Nat) (items : List FScalar) (st : LState) (rest : Str)
    (l c : Nat) (stk : List (Nat × Nat)) (h : At st l c stk) (hok : ∀ x ∈ items, x.OK) :
    ∃ st', Lexes env lenient st (multiText ind items ++ rest) st' rest (multiToks ind l c items) ∧
      At st' (l + items.length + 1) 2 stk := by
  cases items with
  | nil =>
    obtain ⟨s1, x1, a1, _⟩ := lex_lb env lenient st ('\n' :: ']' :: rest) l c stk h
    obtain ⟨s2, x2, a2, _⟩ := lex_nl env lenient s1 (']' :: rest) l (c + 1) _ a1
    obtain ⟨s3, x3, a3, _⟩ := lex_rb env lenient s2 rest (l + 1) 1 _ _ a2
    exact ⟨s3, by simpa [multiText, multiToks] using (x1.trans x2).trans x3, a3.cast (by simp) rfl⟩
  | cons x r =>
    obtain ⟨s1, x1, a1, _⟩ := lex_lb env lenient st ('\n' :: (spacesL ind ++ (x.text ++ (multiTail ind r ++ rest)))) l c stk h
    obtain ⟨s2, x2, a2, p2⟩ := lex_nl env lenient s1 (spacesL ind ++ (x.text ++ (multiTail ind r ++ rest))) l (c + 1) _ a1
    obtain ⟨s3, x3, a3⟩ := lex_itemLine env lenient s2 ind x (multiTail ind r ++ rest) (l + 1) _ a2 p2
      (itemTerm_multiTail ind r rest) (hok x (by simp))
    obtain ⟨s4, x4, a4⟩ := lex_multiTail env lenient ind r s3 rest (l + 1) (1 + ind + x.text.length) _ stk a3 (fun y hy => hok y (by simp [hy]))
    refine ⟨s4, ?_, a4.cast (by simp; omega) rfl⟩
    have := ((x1.trans x2).trans x3).trans x4
    simpa [multiText, multiToks, List.append_assoc] using this


/-! ### values, lines, the whole document -/

def FValue.OK : FValue → Prop
  | .scalar s => s.OK
  | .list items => ∀ x ∈ items, x.OK

def LLine.OK (ln : LLine) : Prop := isIdentifierText ln.key = true ∧ hasReservedPrefix ln.key = false ∧ ln.v.OK

/-- the value of a line, right after `::`, up to the line end. -/
theorem lex_value (env : Env) (lenient : Bool) (v : FValue) (lay : Layout) (st : LState) (rest : Str) (l c : Nat)
    (stk : List (Nat × Nat)) (h : At st l c stk) (hp : st.prev = some ':') (hv : v.OK) :
    ∃ st', Lexes env lenient st (v.text lay ++ '\n' :: rest) st' ('\n' :: rest) (v.toks lay l c) ∧
      At st' (l + v.height lay) (v.endCol lay c) stk := by
  cases v with
  | scalar s =>
    obtain ⟨s1, x1, a1⟩ := lex_item env lenient st s ':' ('\n' :: rest) l c stk h hp (Or.inr (Or.inr (Or.inr (Or.inl rfl)))) (itemTerm_nl rest) hv
    exact ⟨s1, x1, a1⟩
  | list items =>
    cases lay with
    | inline =>
      obtain ⟨s1, x1, a1⟩ := lex_inline env lenient items st ('\n' :: rest) l c stk h hv
      exact ⟨s1, x1, a1⟩
    | multi ind =>
      obtain ⟨s1, x1, a1⟩ := lex_multi env lenient ind items st ('\n' :: rest) l c stk h hv
      exact ⟨s1, x1, a1⟩

/-- **one line** `KEY::value⏎` from column 1. -/
theorem lex_lline (env : Env) (lenient : Bool) (ln : LLine) (lay : Layout) (st : LState) (rest : Str) (l : Nat)
    (stk : List (Nat × Nat)) (h : At st l 1 stk) (hok : ln.OK) :
    ∃ st', Lexes env lenient st (ln.text lay ++ '\n' :: rest) st' rest (ln.toks lay l) ∧ At st' (l + ln.height lay) 1 stk := by
  obtain ⟨hk1, hk2, hv⟩ := hok
  obtain ⟨s1, x1, a1⟩ := lex_ident env lenient st ln.key (':' :: ':' :: (ln.v.text lay ++ '\n' :: rest)) l 1 stk h hk1 hk2 (termOK_colon env _)
  obtain ⟨s2, x2, a2, p2⟩ := lex_assign env lenient s1 (ln.v.text lay ++ '\n' :: rest) l (1 + ln.key.length) stk a1
  obtain ⟨s3, x3, a3⟩ := lex_value env lenient ln.v lay s2 rest l (1 + ln.key.length + 2) stk a2 p2 hv
  obtain ⟨s4, x4, a4, _⟩ := lex_nl env lenient s3 rest _ _ stk a3
  refine ⟨s4, ?_, a4.cast (by simp [LLine.height]; omega) rfl⟩
  have := ((x1.trans x2).trans x3).trans x4
  simpa [LLine.text, LLine.toks, List.append_assoc] using this

theorem lex_llines (env : Env) (lenient : Bool) (ls : List LL) :
    ∀ (st : LState) (rest : Str) (l : Nat) (stk : List (Nat × Nat)), At st l 1 stk → (∀ x ∈ ls, x.1.OK) →
    ∃ st', Lexes env lenient st (llinesText ls ++ rest) st' rest (llinesToks l ls) ∧ At st' (l + llinesHeight ls) 1 stk := by
  induction ls with
  | nil =>
    intro st rest l stk h _
    exact ⟨st, by simpa [llinesText, llinesToks] using Lexes.refl env lenient st rest, h.cast (by simp [llinesHeight]) rfl⟩
  | cons x r ih =>
    intro st rest l stk h hok
    obtain ⟨s1, x1, a1⟩ := lex_lline env lenient x.1 x.2 st (llinesText r ++ rest) l stk h (hok x (by simp))
    obtain ⟨s2, x2, a2⟩ := ih s1 rest _ stk a1 (fun y hy => hok y (by simp [hy]))
    refine ⟨s2, ?_, a2.cast (by simp [llinesHeight]; omega) rfl⟩
    have := x1.trans x2
    simpa [llinesText, llinesToks, List.append_assoc] using this

/-- **the whole document** from the initial state. -/
theorem lex_ldoc (env : Env) (lenient : Bool) (name : Str) (ls : List LL)
    (hn : isEnvName name = true) (hne : name ≠ "END".toList) (hok : ∀ x ∈ ls, x.1.OK) :
    ∃ st', Lexes env lenient ({ spans := [] } : LState) (ldocText name ls) st' [] (ldocToks name ls).dropLast ∧
      At st' (llinesHeight ls + 3) 1 [] := by
  let st0 : LState := { spans := [] }
  obtain ⟨s1, e1, a1⟩ := step_envStart env lenient st0 name ('\n' :: (llinesText ls ++ ("===END===".toList ++ ['\n']))) rfl hn hne
  have h1 : Lexes env lenient st0 (ldocText name ls) s1 ('\n' :: (llinesText ls ++ ("===END===".toList ++ ['\n']))) [tEnvStart name 1 1] := by
    refine Lexes.step (by simp [ldocText]) (by simpa [ldocText] using e1) (by rw [a1.toks]; rfl) (by rw [a1.repairs]; rfl)
  have at1 : At s1 1 (1 + (name.length + 6)) [] := ⟨a1.ready, by rw [a1.line], a1.col, by rw [a1.stack]⟩
  obtain ⟨s2, x2, a2, _⟩ := lex_nl env lenient s1 (llinesText ls ++ ("===END===".toList ++ ['\n'])) _ _ _ at1
  obtain ⟨s3, x3, a3⟩ := lex_llines env lenient ls s2 ("===END===".toList ++ ['\n']) 2 [] a2 hok
  obtain ⟨s4, x4, a4⟩ := lex_envEnd env lenient s3 ['\n'] _ _ _ a3
  obtain ⟨s5, x5, a5, _⟩ := lex_nl env lenient s4 [] _ _ _ a4
  refine ⟨s5, ?_, a5.cast (by omega) rfl⟩
  have := (((h1.trans x2).trans x3).trans x4).trans x5
  have e : (ldocToks name ls).dropLast = [tEnvStart name 1 1] ++ [tNewline 1 (1 + (name.length + 6))] ++ llinesToks 2 ls ++
      [tEnvEnd (2 + llinesHeight ls) 1] ++ [tNewline (2 + llinesHeight ls) (1 + 9)] := by
    have : ldocToks name ls = ([tEnvStart name 1 1] ++ [tNewline 1 (1 + (name.length + 6))] ++ llinesToks 2 ls ++
      [tEnvEnd (2 + llinesHeight ls) 1] ++ [tNewline (2 + llinesHeight ls) (1 + 9)]) ++ [tEof (llinesHeight ls + 3) 1] := by
      simp [ldocToks, Nat.add_comm]
    rw [this, List.dropLast_concat]
  rw [e]; exact this

/-! ### no line of the text is a fence line; no tab -/

def NoNl (s : Str) : Prop := ∀ d ∈ s, d ≠ '\n'

/-- a line prefix holding a first non-space char that is not a backtick: whatever follows, the line is no fence line. -/
def SafePre (pre : Str) : Prop := ∃ n c t, pre = spacesL n ++ c :: t ∧ c ≠ ' ' ∧ c ≠ '`'

theorem fenceLine_safe (pre x : Str) (h : SafePre pre) : fenceLine (pre ++ x) = none := by
  obtain ⟨n, c, t, rfl, h1, h2⟩ := h
  have e : spacesL n ++ c :: t ++ x = spacesL n ++ c :: (t ++ x) := by simp
  have h2' : (c == '`') = false := by simpa using h2
  rw [e]
  unfold fenceLine
  rw [takeWhile_spaces n c (t ++ x) h1]
  simp [takeWhile, h2']

theorem SafePre.append {pre : Str} (h : SafePre pre) (x : Str) : SafePre (pre ++ x) := by
  obtain ⟨n, c, t, rfl, h1, h2⟩ := h
  exact ⟨n, c, t ++ x, by simp, h1, h2⟩

theorem splitLines_noNl (a : Str) (h : NoNl a) : splitLines a = [a] := by
  induction a with
  | nil => rfl
  | cons c cs ih =>
    have hc : (c == '\n') = false := by have := h c (by simp); simpa using this
    have := ih (fun d hd => h d (by simp [hd]))
    simp only [splitLines, this, hc, Bool.false_eq_true, if_false]

/-- in the middle of a safe line: every line of `pre ++ s` is fence-free, whatever safe `pre` came before on this line. -/
def FFmid (s : Str) : Prop := ∀ pre, NoNl pre → SafePre pre → ∀ l ∈ splitLines (pre ++ s), fenceLine l = none
/-- at a line start. -/
def FF0 (s : Str) : Prop := ∀ l ∈ splitLines s, fenceLine l = none

theorem FF0_nil : FF0 [] := by
  intro l hl
  have : l = [] := by simpa [splitLines] using hl
  subst this; decide

theorem FFmid_nil : FFmid [] := by
  intro pre h1 h2 l hl
  rw [List.append_nil, splitLines_noNl pre h1] at hl
  have : l = pre := by simpa using hl
  subst this
  simpa using fenceLine_safe l [] h2

theorem FFmid_cons (c : Char) (s : Str) (hc : c ≠ '\n') (h : FFmid s) : FFmid (c :: s) := by
  intro pre h1 h2 l hl
  have e : pre ++ c :: s = (pre ++ [c]) ++ s := by simp
  rw [e] at hl
  refine h (pre ++ [c]) ?_ (h2.append [c]) l hl
  intro d hd
  rcases List.mem_append.mp hd with h' | h'
  · exact h1 d h'
  · have : d = c := by simpa using h'
    subst this; exact hc

theorem FFmid_append (a s : Str) (ha : NoNl a) (h : FFmid s) : FFmid (a ++ s) := by
  induction a with
  | nil => exact h
  | cons c cs ih => exact FFmid_cons c (cs ++ s) (ha c (by simp)) (ih (fun d hd => ha d (by simp [hd])))

theorem FFmid_nl (s : Str) (h : FF0 s) : FFmid ('\n' :: s) := by
  intro pre h1 h2 l hl
  rw [splitLines_append_nl pre s h1] at hl
  rcases List.mem_cons.mp hl with h' | h'
  · subst h'; simpa using fenceLine_safe l [] h2
  · exact h l h'

theorem FF0_start (n : Nat) (c : Char) (t : Str) (h1 : c ≠ ' ') (h2 : c ≠ '`') (h3 : c ≠ '\n') (h : FFmid t) :
    FF0 (spacesL n ++ c :: t) := by
  intro l hl
  have e : spacesL n ++ c :: t = (spacesL n ++ [c]) ++ t := by simp
  rw [e] at hl
  refine h (spacesL n ++ [c]) ?_ ⟨n, c, [], rfl, h1, h2⟩ l hl
  intro d hd
  rcases List.mem_append.mp hd with h' | h'
  · have : d = ' ' := by simp [spacesL, List.mem_replicate] at h'; exact h'.2
    subst this; decide
  · have : d = c := by simpa using h'
    subst this; exact h3

theorem scalar_noNl (x : FScalar) (hx : x.OK) : NoNl x.text := fun d hd => (scalar_clean x hx d hd).1

/-- an item line (indentation, item) followed by a fence-free rest of the line. -/
theorem FF0_item (ind : Nat) (x : FScalar) (R : Str) (hx : x.OK) (h : FFmid R) : FF0 (spacesL ind ++ (x.text ++ R)) := by
  obtain ⟨c0, t0, hct, h1, h2, h3⟩ := scalar_text_head x hx
  have hn : NoNl t0 := fun d hd => scalar_noNl x hx d (by rw [hct]; simp [hd])
  rw [hct]
  exact FF0_start ind c0 (t0 ++ R) h1 h2 h3 (FFmid_append t0 R hn h)

theorem FFmid_multiTail (ind : Nat) (r : List FScalar) (Y : Str) (hr : ∀ x ∈ r, x.OK) (hY : FFmid Y) : FFmid (multiTail ind r ++ Y) := by
  induction r with
  | nil =>
    show FFmid ('\n' :: ']' :: Y)
    exact FFmid_nl _ (FF0_start 0 ']' Y (by decide) (by decide) (by decide) hY)
  | cons x r ih =>
    show FFmid (',' :: '\n' :: (spacesL ind ++ (x.text ++ multiTail ind r)) ++ Y)
    have e : ',' :: '\n' :: (spacesL ind ++ (x.text ++ multiTail ind r)) ++ Y
        = ',' :: '\n' :: (spacesL ind ++ (x.text ++ (multiTail ind r ++ Y))) := by simp
    rw [e]
    exact FFmid_cons _ _ (by decide) (FFmid_nl _ (FF0_item ind x _ (hr x (by simp)) (ih (fun y hy => hr y (by simp [hy])))))

theorem inlineTail_clean (r : List FScalar) (hr : ∀ x ∈ r, x.OK) : Clean (inlineTail r) := by
  induction r with
  | nil => exact clean_lit _ (by decide)
  | cons x r ih =>
    have := Clean.append (clean_lit [','] (by decide)) (Clean.append (scalar_clean x (hr x (by simp))) (ih (fun y hy => hr y (by simp [hy]))))
    simpa [inlineTail] using this

theorem inlineText_clean (items : List FScalar) (h : ∀ x ∈ items, x.OK) : Clean (inlineText items) := by
  cases items with
  | nil => exact clean_lit _ (by decide)
  | cons x r =>
    have := Clean.append (clean_lit ['['] (by decide)) (Clean.append (scalar_clean x (h x (by simp))) (inlineTail_clean r (fun y hy => h y (by simp [hy]))))
    simpa [inlineText] using this

theorem FFmid_value (v : FValue) (lay : Layout) (Y : Str) (hv : v.OK) (hY : FFmid Y) : FFmid (v.text lay ++ Y) := by
  cases v with
  | scalar s => exact FFmid_append _ _ (scalar_noNl s hv) hY
  | list items =>
    cases lay with
    | inline => exact FFmid_append _ _ (fun d hd => (inlineText_clean items hv d hd).1) hY
    | multi ind =>
      cases items with
      | nil =>
        show FFmid ('[' :: '\n' :: ']' :: Y)
        exact FFmid_cons _ _ (by decide) (FFmid_nl _ (FF0_start 0 ']' Y (by decide) (by decide) (by decide) hY))
      | cons x r =>
        show FFmid ('[' :: '\n' :: (spacesL ind ++ (x.text ++ multiTail ind r)) ++ Y)
        have e : '[' :: '\n' :: (spacesL ind ++ (x.text ++ multiTail ind r)) ++ Y
            = '[' :: '\n' :: (spacesL ind ++ (x.text ++ (multiTail ind r ++ Y))) := by simp
        rw [e]
        exact FFmid_cons _ _ (by decide) (FFmid_nl _ (FF0_item ind x _ (hv x (by simp))
          (FFmid_multiTail ind r Y (fun y hy => hv y (by simp [hy])) hY)))

theorem FF0_lline (ln : LLine) (lay : Layout) (Y : Str) (hok : ln.OK) (hY : FF0 Y) : FF0 (ln.text lay ++ '\n' :: Y) := by
  obtain ⟨hk1, _, hv⟩ := hok
  have hne : ln.key ≠ [] := by intro e; rw [e] at hk1; simp [isIdentifierText] at hk1
  obtain ⟨kc, kt, hkey⟩ := List.exists_cons_of_ne_nil hne
  have hh := identText_head ln.key hk1 kc (by rw [hkey]; rfl)
  have hcl := identText_clean ln.key hk1
  have e : ln.text lay ++ '\n' :: Y = spacesL 0 ++ kc :: (kt ++ (':' :: ':' :: (ln.v.text lay ++ '\n' :: Y))) := by
    simp [LLine.text, hkey, spacesL]
  rw [e]
  refine FF0_start 0 kc _ hh.1 hh.2 (hcl kc (by rw [hkey]; simp)).1 ?_
  refine FFmid_append kt _ (fun d hd => (hcl d (by rw [hkey]; simp [hd])).1) ?_
  exact FFmid_cons _ _ (by decide) (FFmid_cons _ _ (by decide) (FFmid_value ln.v lay _ hv (FFmid_nl _ hY)))

theorem FF0_llines (ls : List LL) (Y : Str) (hok : ∀ x ∈ ls, x.1.OK) (hY : FF0 Y) : FF0 (llinesText ls ++ Y) := by
  induction ls with
  | nil => exact hY
  | cons x r ih =>
    have := FF0_lline x.1 x.2 (llinesText r ++ Y) (hok x (by simp)) (ih (fun y hy => hok y (by simp [hy])))
    simpa [llinesText, List.append_assoc] using this

theorem FF0_ldoc (name : Str) (ls : List LL) (hn : isEnvName name = true) (hok : ∀ x ∈ ls, x.1.OK) :
    FF0 (ldocText name ls) := by
  have hend : FF0 ("===END===".toList ++ ['\n']) := by
    intro l hl
    have h3 : splitLines ("===END===".toList ++ ['\n']) = ["===END===".toList, []] := by decide
    rw [h3] at hl
    simp only [List.mem_cons, List.mem_nil_iff, or_false] at hl
    rcases hl with h | h <;> subst h <;> decide
  have hbody := FF0_llines ls _ hok hend
  have hcl := envLine_clean name hn
  have e : ldocText name ls = spacesL 0 ++ '=' :: ("==".toList ++ name ++ "===".toList ++ '\n' :: (llinesText ls ++ ("===END===".toList ++ ['\n']))) := by
    simp [ldocText, spacesL]
  rw [e]
  refine FF0_start 0 '=' _ (by decide) (by decide) (by decide) ?_
  have e2 : "==".toList ++ name ++ "===".toList ++ '\n' :: (llinesText ls ++ ("===END===".toList ++ ['\n']))
      = ("==".toList ++ name ++ "===".toList) ++ '\n' :: (llinesText ls ++ ("===END===".toList ++ ['\n'])) := by simp
  rw [e2]
  refine FFmid_append _ _ ?_ (FFmid_nl _ hbody)
  intro d hd
  have e3 : "==".toList = ['=', '='] := rfl
  have e4 : "===".toList = ['=', '=', '='] := rfl
  refine (hcl d ?_).1
  rw [e3, e4] at hd; rw [e4]
  simp only [List.mem_append, List.mem_cons, List.mem_nil_iff, or_false, or_self] at hd ⊢
  rcases hd with (h | h) | h
  · exact Or.inl (Or.inl h)
  · exact Or.inl (Or.inr h)
  · exact Or.inr h

def NoTab (s : Str) : Prop := ∀ d ∈ s, d ≠ '\t'

theorem NoTab.append {a b : Str} (ha : NoTab a) (hb : NoTab b) : NoTab (a ++ b) := by
  intro d hd
  rcases List.mem_append.mp hd with h | h
  · exact ha d h
  · exact hb d h

theorem NoTab.cons {c : Char} {s : Str} (hc : c ≠ '\t') (hs : NoTab s) : NoTab (c :: s) := by
  intro d hd
  rcases List.mem_cons.mp hd with h | h
  · subst h; exact hc
  · exact hs d h

theorem noTab_of_clean {s : Str} (h : Clean s) : NoTab s := fun d hd => (h d hd).2

theorem noTab_spaces (n : Nat) : NoTab (spacesL n) := by
  intro d hd
  have : d = ' ' := by simp [spacesL, List.mem_replicate] at hd; exact hd.2
  subst this; decide

theorem noTab_multiTail (ind : Nat) (r : List FScalar) (hr : ∀ x ∈ r, x.OK) : NoTab (multiTail ind r) := by
  induction r with
  | nil => exact noTab_of_clean (clean_lit [']'] (by decide)) |> NoTab.cons (by decide)
  | cons x r ih =>
    exact NoTab.cons (by decide) (NoTab.cons (by decide) ((noTab_spaces ind).append
      ((noTab_of_clean (scalar_clean x (hr x (by simp)))).append (ih (fun y hy => hr y (by simp [hy]))))))

theorem noTab_value (v : FValue) (lay : Layout) (hv : v.OK) : NoTab (v.text lay) := by
  cases v with
  | scalar s => exact noTab_of_clean (scalar_clean s hv)
  | list items =>
    cases lay with
    | inline => exact noTab_of_clean (inlineText_clean items hv)
    | multi ind =>
      cases items with
      | nil => exact fun d hd => by simp [FValue.text, listText, multiText] at hd; rcases hd with h | h | h <;> subst h <;> decide
      | cons x r =>
        exact NoTab.cons (by decide) (NoTab.cons (by decide) ((noTab_spaces ind).append
          ((noTab_of_clean (scalar_clean x (hv x (by simp)))).append (noTab_multiTail ind r (fun y hy => hv y (by simp [hy]))))))

theorem noTab_llines (ls : List LL) (hok : ∀ x ∈ ls, x.1.OK) : NoTab (llinesText ls) := by
  induction ls with
  | nil => intro d hd; simp [llinesText] at hd
  | cons x r ih =>
    have hx := hok x (by simp)
    have h1 : NoTab (x.1.text x.2) :=
      (noTab_of_clean (identText_clean x.1.key hx.1)).append (NoTab.cons (by decide) (NoTab.cons (by decide) (noTab_value x.1.v x.2 hx.2.2)))
    exact h1.append (NoTab.cons (by decide) (ih (fun y hy => hok y (by simp [hy]))))

theorem noTab_ldoc (name : Str) (ls : List LL) (hn : isEnvName name = true) (hok : ∀ x ∈ ls, x.1.OK) :
    NoTab (ldocText name ls) := by
  have h1 : NoTab ("===".toList ++ name ++ "===".toList) := noTab_of_clean (envLine_clean name hn)
  have h2 : NoTab ("===END===".toList ++ ['\n']) := fun d hd => by
    intro e; subst e; revert hd; decide
  exact h1.append (NoTab.cons (by decide) ((noTab_llines ls hok).append h2))

/-! ### `tokenize` -/

theorem ldocToks_eq (name : Str) (ls : List LL) :
    ldocToks name ls = (ldocToks name ls).dropLast ++ [tEof (llinesHeight ls + 3) 1] := by
  have : ldocToks name ls = (tEnvStart name 1 1 :: tNewline 1 (1 + (name.length + 6)) :: (llinesToks 2 ls ++
    [tEnvEnd (llinesHeight ls + 2) 1, tNewline (llinesHeight ls + 2) 10])) ++ [tEof (llinesHeight ls + 3) 1] := by
    simp [ldocToks]
  rw [this, List.dropLast_concat]

/-- **The lexer on a flat document with list values** (any name, any number of lines, scalar values and lists of scalars of
any length, each list in either layout, both lexer modes, every environment whose NFC leaves the lines alone): `tokenize`
succeeds with exactly `ldocToks`, positions included, and with no receipt other than the notes of identifier tokens. -/
theorem tokenize_ldoc (env : Env) (lenient : Bool) (name : Str) (ls : List LL)
    (hn : isEnvName name = true) (hne : name ≠ "END".toList) (hok : ∀ x ∈ ls, x.1.OK)
    (hnfc : ∀ l ∈ splitLines (ldocText name ls), env.nfc l = l) :
    tokenize env (ldocText name ls) lenient = .ok (ldocToks name ls, toksReps (ldocToks name ls)) := by
  have hfence : ∀ l ∈ splitLines (ldocText name ls), fenceLine l = none ∧ env.nfc l = l :=
    fun l hl => ⟨FF0_ldoc name ls hn hok l hl, hnfc l hl⟩
  have hnorm := normalize_plain env (ldocText name ls) hfence
  have htab := tabCheck_noTab [] (ldocText name ls) 0 1 1 (noTab_ldoc name ls hn hok)
  obtain ⟨st', ⟨n, run, ht, hr⟩, hat⟩ := lex_ldoc env lenient name ls hn hne hok
  have hloop := loop_of_run env lenient _ _ st' (ldocText name ls) run (by intro sp hsp; simp at hsp)
  have hreps : toksReps (ldocToks name ls) = toksReps (ldocToks name ls).dropLast := by
    conv => lhs; rw [ldocToks_eq, toksReps_append]
    simp [toksReps, tokReps, tEof]
  unfold tokenize
  simp only [hnorm, htab, hloop, bind, Except.bind, hat.stack, List.getLast?_nil, ht, hr, hat.line, hat.col]
  rw [hreps]
  conv => rhs; rw [ldocToks_eq]
  simp [tEof]

end Octave.ListDoc
