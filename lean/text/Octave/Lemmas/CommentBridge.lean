import Octave.Lemmas.BlockBridge
import Octave.Lemmas.CommentLex
import Octave.Lemmas.CommentParse
/-!
Glue between the lexer half (`CommentLex`, concrete positions) and the parser half (`CommentParse`, arbitrary positions) of the
round trip of documents with nested blocks AND COMMENTS — the analogue of `BlockBridge` for trees whose nodes carry leading
comment lines, whose assignments carry an optional trailing comment, followed by the document's trailing comment lines.

* `CNode.toP` / `ctreeToP`         the content of the lexer half as the parser half describes it (scalars by `FScalar.toP`);
* `cmtPos` / `clinePos` / `cheaderPos`, `leadPos`, `CNode.cpos` / `cposList d l`
                                   the positions the lexer gives to every source line, COMMENT LINES INCLUDED (one
                                   `CommentParse.CPos` per line, reading order): a comment line at depth `d` on text line `l` has
                                   `li = l, ci = 1, l = l, c1 = 1 + 2·d, c4 = 1 + 2·d + |cmtText c|`; a trailing comment has
                                   `c5 = c3 + |value text| + 1`, and then the NEWLINE is at `c4 = c3 + |value text| + |trailText|`;
* `cposOf nodes trailing`          the position function of the parser half (`i` ↦ positions of the `i`-th body line; the
                                   document's trailing comment lines come last); `cFrame`: envelope and end tokens;
* `CAgree pos L i`                 `pos` coincides with the list `L` on the window `[i, i + |L|)`;
* `leadToks_agree`, `CNode.toks_agree` / `ctreeToks_agree` (mutual)
                                   the two token descriptions coincide for every `pos` that agrees with the positions on the window
                                   of the comment run / node / forest; `cToks_bridge`: the whole document;
* `canonCols_cposOf`, `metaFirstC_bridge`, `cTreeDoc_bridge`, `ctreeToP_nodeList_matches`
                                   the side conditions and the document of the parser half in the vocabulary of the lexer half
                                   (the last one for ARBITRARY positions: whatever the parser half returns `ctreeMatches`);
* `CContent` / `ctreeContent`      position-free content of a tree with comments, determined by any AST that `ctreeMatches` it;
* `CommentOK.ascii`, `ctreeOK_ascii`   the conditions on comment texts transfer from any environment to `Env.ascii`.
-/
namespace Octave
open Lexer Emitter

/-! ### content and positions in the vocabulary of the parser half -/

mutual
/-- the node as the parser half describes it. -/
def CNode.toP : CNode → CommentParse.CNode
  | .line ln lead trail => .line ln.key ln.v.toP lead trail
  | .block key cs lead => .block key (ctreeToP cs) lead
def ctreeToP : List CNode → List CommentParse.CNode
  | [] => []
  | n :: ns => n.toP :: ctreeToP ns
end

def CNode.lead : CNode → List Str
  | .line _ lead _ => lead
  | .block _ _ lead => lead

def CNode.key : CNode → Str
  | .line ln _ _ => ln.key
  | .block key _ _ => key

theorem CNode.lead_toP (n : CNode) : n.toP.lead = n.lead := by
  cases n <;> rfl

theorem CNode.key_toP (n : CNode) : n.toP.key = n.key := by
  cases n <;> rfl

/-- positions of the tokens of a comment line `indent // text` at depth `d`, text line `l` (`c2`, `c3`, `c5` are not used). -/
def cmtPos (c : Str) (d l : Nat) : CommentParse.CPos :=
  { li := l, ci := 1, l := l, c1 := 1 + 2 * d, c2 := 0, c3 := 0, c4 := 1 + 2 * d + (cmtText c).length, c5 := 0 }

/-- positions of the tokens of a `KEY::value [// text]` line at depth `d`, text line `l`: the trailing COMMENT token one
column after the end of the value, the NEWLINE after the whole ` // text`. -/
def clinePos (ln : FLine) (trail : Option Str) (d l : Nat) : CommentParse.CPos :=
  { li := l, ci := 1, l := l, c1 := 1 + 2 * d, c2 := 1 + 2 * d + ln.key.length, c3 := 1 + 2 * d + ln.key.length + 2,
    c4 := 1 + 2 * d + ln.key.length + 2 + ln.v.text.length + (trailText trail).length,
    c5 := 1 + 2 * d + ln.key.length + 2 + ln.v.text.length + 1 }

/-- positions of the tokens of a block header `KEY:` at depth `d`, text line `l` (`c3`, `c5` are not used). -/
def cheaderPos (key : Str) (d l : Nat) : CommentParse.CPos :=
  { li := l, ci := 1, l := l, c1 := 1 + 2 * d, c2 := 1 + 2 * d + key.length, c3 := 0, c4 := 1 + 2 * d + key.length + 1, c5 := 0 }

/-- positions of a run of comment lines at depth `d`, the first at text line `l`. -/
def leadPos (d l : Nat) : List Str → List CommentParse.CPos
  | [] => []
  | c :: cs => cmtPos c d l :: leadPos d (l + 1) cs

mutual
/-- positions of the source lines of a node at depth `d` whose first line (its first leading comment, if any) is text line
`l`, in reading order. -/
def CNode.cpos (d l : Nat) : CNode → List CommentParse.CPos
  | .line ln lead trail => leadPos d l lead ++ [clinePos ln trail d (l + lead.length)]
  | .block key cs lead =>
    leadPos d l lead ++ (cheaderPos key d (l + lead.length) :: cposList (d + 1) (l + lead.length + 1) cs)
def cposList (d l : Nat) : List CNode → List CommentParse.CPos
  | [] => []
  | n :: ns => n.cpos d l ++ cposList d (l + n.nlines) ns
end

/-- all positions of the body: the forest (first line = text line 2), then the document's trailing comment lines. -/
def cposAll (nodes : List CNode) (trailing : List Str) : List CommentParse.CPos :=
  cposList 0 2 nodes ++ leadPos 0 (ctreeNLines nodes + 2) trailing

/-- the position function of the parser half for the canonical text: body line `i` (0-based) is text line `i + 2`. -/
def cposOf (nodes : List CNode) (trailing : List Str) : Nat → CommentParse.CPos :=
  fun i => (cposAll nodes trailing).getD i default

/-- the frame (envelope and end tokens) of the canonical text. -/
def cFrame (name : Str) (nodes : List CNode) (trailing : List Str) : FlatParse.Frame :=
  flatFrame name (cDocNLines nodes trailing)

mutual
theorem CNode.lines_toP : ∀ (n : CNode), n.toP.lines = n.nlines
  | .line ln lead trail => rfl
  | .block key cs lead => by
    simp only [CNode.toP, CommentParse.CNode.lines, CNode.nlines, clinesList_toP cs]
theorem clinesList_toP : ∀ (ns : List CNode), CommentParse.linesList (ctreeToP ns) = ctreeNLines ns
  | [] => rfl
  | n :: ns => by
    simp only [ctreeToP, CommentParse.linesList, ctreeNLines, CNode.lines_toP n, clinesList_toP ns]
end

theorem leadPos_length (d : Nat) : ∀ (cs : List Str) (l : Nat), (leadPos d l cs).length = cs.length
  | [], _ => rfl
  | c :: cs, l => by simp only [leadPos, List.length_cons, leadPos_length d cs (l + 1)]

mutual
theorem CNode.cpos_length : ∀ (n : CNode) (d l : Nat), (n.cpos d l).length = n.nlines
  | .line ln lead trail, d, l => by
    simp only [CNode.cpos, CNode.nlines, List.length_append, leadPos_length, List.length_cons, List.length_nil]
  | .block key cs lead, d, l => by
    simp only [CNode.cpos, CNode.nlines, List.length_append, leadPos_length, List.length_cons,
      cposList_length cs (d + 1) (l + lead.length + 1)]
    omega
theorem cposList_length : ∀ (ns : List CNode) (d l : Nat), (cposList d l ns).length = ctreeNLines ns
  | [], d, l => rfl
  | n :: ns, d, l => by
    simp only [cposList, ctreeNLines, List.length_append, CNode.cpos_length n d l, cposList_length ns d (l + n.nlines)]
end

theorem cposAll_length (nodes : List CNode) (trailing : List Str) :
    (cposAll nodes trailing).length = cDocNLines nodes trailing := by
  simp only [cposAll, cDocNLines, List.length_append, cposList_length, leadPos_length]

/-! ### a position function that agrees with a list of positions on a window -/

/-- `pos` coincides with `L` on the index window `[i, i + L.length)`. -/
def CAgree (pos : Nat → CommentParse.CPos) (L : List CommentParse.CPos) (i : Nat) : Prop :=
  ∀ j p, L[j]? = some p → pos (i + j) = p

theorem CAgree.head {pos : Nat → CommentParse.CPos} {p : CommentParse.CPos} {L : List CommentParse.CPos} {i : Nat}
    (h : CAgree pos (p :: L) i) : pos i = p := h 0 p rfl

theorem CAgree.tail {pos : Nat → CommentParse.CPos} {p : CommentParse.CPos} {L : List CommentParse.CPos} {i : Nat}
    (h : CAgree pos (p :: L) i) : CAgree pos L (i + 1) := by
  intro j q hq
  have := h (j + 1) q (by simpa using hq)
  rw [← this]; congr 1; omega

theorem CAgree.left {pos : Nat → CommentParse.CPos} {A B : List CommentParse.CPos} {i : Nat}
    (h : CAgree pos (A ++ B) i) : CAgree pos A i := by
  intro j q hq
  have hj : j < A.length := by
    rcases Nat.lt_or_ge j A.length with h' | h'
    · exact h'
    · rw [List.getElem?_eq_none h'] at hq; cases hq
  exact h j q (by rw [List.getElem?_append_left hj]; exact hq)

theorem CAgree.right {pos : Nat → CommentParse.CPos} {A B : List CommentParse.CPos} {i : Nat}
    (h : CAgree pos (A ++ B) i) : CAgree pos B (i + A.length) := by
  intro j q hq
  have := h (A.length + j) q (by rw [List.getElem?_append_right (by omega)]; simpa using hq)
  rw [← this]; congr 1; omega

theorem cagree_cposOf (nodes : List CNode) (trailing : List Str) :
    CAgree (cposOf nodes trailing) (cposAll nodes trailing) 0 := by
  intro j p hp
  simp only [cposOf, Nat.zero_add, List.getD_eq_getElem?_getD, hp, Option.getD_some]

/-- on the window of the forest … -/
theorem cagree_cposOf_nodes (nodes : List CNode) (trailing : List Str) :
    CAgree (cposOf nodes trailing) (cposList 0 2 nodes) 0 :=
  (cagree_cposOf nodes trailing).left

/-- … and on the window of the document's trailing comment lines. -/
theorem cagree_cposOf_trailing (nodes : List CNode) (trailing : List Str) :
    CAgree (cposOf nodes trailing) (leadPos 0 (ctreeNLines nodes + 2) trailing) (ctreeNLines nodes) := by
  have := (cagree_cposOf nodes trailing).right
  rw [cposList_length, Nat.zero_add] at this
  exact this

/-! ### the two descriptions of the token list agree -/

theorem indToks_bridge (d l : Nat) (p : CommentParse.CPos) (h1 : p.li = l) (h2 : p.ci = 1) :
    indentToks d l = CommentParse.indToks d p := by
  cases d with
  | zero => rfl
  | succ k =>
    simp only [indentToks, CommentParse.indToks, CommentParse.indTok, tIndent, h1, h2, Nat.succ_ne_zero, if_false]

/-- the COMMENT and NEWLINE tokens of a comment line. -/
theorem cmtLine_body_bridge (c : Str) (d l : Nat) :
    [tComment c l (1 + 2 * d), tNewline l (1 + 2 * d + (cmtText c).length)]
      = [CommentParse.cmtTok c (cmtPos c d l).l (cmtPos c d l).c1, CommentParse.nlTok (cmtPos c d l)] := rfl

/-- **a run of comment lines at depth `d`** (the leading comments of a node, the trailing comments of the document). -/
theorem leadToks_agree (d : Nat) : ∀ (cs : List Str) (l : Nat) (pos : Nat → CommentParse.CPos) (i : Nat),
    CAgree pos (leadPos d l cs) i → leadToks d l cs = CommentParse.leadToks pos d cs i
  | [], _, _, _, _ => rfl
  | c :: cs, l, pos, i, h => by
    simp only [leadPos] at h
    have hp : pos i = cmtPos c d l := h.head
    simp only [leadToks, cmtLineToks, CommentParse.leadToks, hp, leadToks_agree d cs (l + 1) pos (i + 1) h.tail]
    rw [indToks_bridge d l (cmtPos c d l) rfl rfl, cmtLine_body_bridge]
    simp only [List.append_assoc, List.cons_append, List.nil_append]

/-- the tokens of a `KEY::value [// text]` line after its INDENT. -/
theorem cline_body_bridge (ln : FLine) (lead : List Str) (trail : Option Str) (d l : Nat) (pos : Nat → CommentParse.CPos)
    (dd j : Nat) (hp : pos j = clinePos ln trail d l) :
    [tIdent ln.key l (1 + 2 * d), tAssign l (1 + 2 * d + ln.key.length), ln.v.tok l (1 + 2 * d + ln.key.length + 2)] ++
      trailToksRev l (1 + 2 * d + ln.key.length + 2 + ln.v.text.length) trail ++
      [tNewline l (1 + 2 * d + ln.key.length + 2 + ln.v.text.length + (trailText trail).length)]
      = (CommentParse.CNode.line ln.key ln.v.toP lead trail).core pos dd j := by
  simp only [CommentParse.CNode.core, hp, FScalar.tok_toP]
  cases trail <;> rfl

/-- the tokens of a block header after its INDENT. -/
theorem cheader_body_bridge (key : Str) (d l : Nat) :
    [tIdent key l (1 + 2 * d), tBlock l (1 + 2 * d + key.length), tNewline l (1 + 2 * d + key.length + 1)]
      = [CommentParse.keyTok key (cheaderPos key d l), CommentParse.blockTok (cheaderPos key d l),
         CommentParse.nlTok (cheaderPos key d l)] := rfl

mutual
/-- **a node**: its tokens are its leading comment lines, its INDENT and its `core`, for every `pos` that agrees with the
node's positions on the window of its lines. -/
theorem CNode.toks_agree : ∀ (n : CNode) (d l : Nat) (pos : Nat → CommentParse.CPos) (i : Nat),
    CAgree pos (n.cpos d l) i →
    n.toks d l = CommentParse.leadToks pos d n.lead i ++
      (CommentParse.indToks d (pos (i + n.lead.length)) ++ n.toP.core pos d (i + n.lead.length))
  | .line ln lead trail, d, l, pos, i, h => by
    simp only [CNode.cpos] at h
    have h2 := h.right
    rw [leadPos_length] at h2
    have hp : pos (i + lead.length) = clinePos ln trail d (l + lead.length) := h2.head
    simp only [CNode.toks, CNode.lead, CNode.toP, cLineToks, leadToks_agree d lead l pos i h.left, List.append_assoc]
    rw [indToks_bridge d (l + lead.length) (pos (i + lead.length)) (by rw [hp]; rfl) (by rw [hp]; rfl)]
    rw [← cline_body_bridge ln lead trail d (l + lead.length) pos d (i + lead.length) hp]
    simp only [List.append_assoc]
  | .block key cs lead, d, l, pos, i, h => by
    simp only [CNode.cpos] at h
    have h2 := h.right
    rw [leadPos_length] at h2
    have hp : pos (i + lead.length) = cheaderPos key d (l + lead.length) := h2.head
    have ih := ctreeToks_agree cs (d + 1) (l + lead.length + 1) pos (i + lead.length + 1) h2.tail
    simp only [CNode.toks, CNode.lead, CNode.toP, CommentParse.CNode.core, headerToks, leadToks_agree d lead l pos i h.left,
      ih, List.append_assoc]
    rw [indToks_bridge d (l + lead.length) (pos (i + lead.length)) (by rw [hp]; rfl) (by rw [hp]; rfl), hp,
      cheader_body_bridge]
    simp only [List.cons_append, List.nil_append]
/-- **a forest**: for every `pos` that agrees with `cposList d l ns` on the window `[i, i + lines)`. -/
theorem ctreeToks_agree : ∀ (ns : List CNode) (d l : Nat) (pos : Nat → CommentParse.CPos) (i : Nat),
    CAgree pos (cposList d l ns) i → ctreeToks d l ns = CommentParse.toksList pos (ctreeToP ns) d i
  | [], d, l, pos, i, _ => rfl
  | n :: ns, d, l, pos, i, h => by
    simp only [cposList] at h
    have h2 := h.right
    rw [CNode.cpos_length] at h2
    simp only [ctreeToks, ctreeToP, CommentParse.toksList, CNode.toks_agree n d l pos i h.left,
      ctreeToks_agree ns d (l + n.nlines) pos (i + n.nlines) h2, CNode.lines_toP, CNode.lead_toP, List.append_assoc]
end

/-- **the two descriptions of the token list of the whole document agree.** -/
theorem cToks_bridge (name : Str) (nodes : List CNode) (trailing : List Str) :
    cDocToks name nodes trailing
      = CommentParse.cTreeToks (cFrame name nodes trailing) name (cposOf nodes trailing) (ctreeToP nodes) trailing := by
  rw [cDocToks_eq, ctreeToks_agree nodes 0 2 (cposOf nodes trailing) 0 (cagree_cposOf_nodes nodes trailing),
    leadToks_agree 0 trailing (ctreeNLines nodes + 2) (cposOf nodes trailing) (ctreeNLines nodes)
      (cagree_cposOf_trailing nodes trailing)]
  simp only [CommentParse.cTreeToks, clinesList_toP]
  rfl

/-! ### the side conditions of the parser half -/

mutual
theorem CNode.canonCols_agree : ∀ (n : CNode) (d l : Nat) (pos : Nat → CommentParse.CPos) (i : Nat),
    CAgree pos (n.cpos d l) i → n.toP.canonCols pos d (i + n.lead.length) = true
  | .line ln lead trail, d, l, pos, i, _ => rfl
  | .block key cs lead, d, l, pos, i, h => by
    simp only [CNode.cpos] at h
    have h2 := h.right
    rw [leadPos_length] at h2
    have hp : pos (i + lead.length) = cheaderPos key d (l + lead.length) := h2.head
    simp only [CNode.toP, CNode.lead, CommentParse.CNode.canonCols, hp,
      ccanonColsList_agree cs (d + 1) (l + lead.length + 1) pos (i + lead.length + 1) h2.tail,
      Bool.and_true, decide_eq_true_eq, cheaderPos]
    omega
theorem ccanonColsList_agree : ∀ (ns : List CNode) (d l : Nat) (pos : Nat → CommentParse.CPos) (i : Nat),
    CAgree pos (cposList d l ns) i → CommentParse.canonColsList pos (ctreeToP ns) d i = true
  | [], d, l, pos, i, _ => rfl
  | n :: ns, d, l, pos, i, h => by
    simp only [cposList] at h
    have h2 := h.right
    rw [CNode.cpos_length] at h2
    simp only [ctreeToP, CommentParse.canonColsList, CNode.lead_toP, CNode.canonCols_agree n d l pos i h.left,
      CNode.lines_toP, ccanonColsList_agree ns d (l + n.nlines) pos (i + n.nlines) h2, Bool.and_self]
end

/-- every block key of the canonical text sits at column `2·d + 1`. -/
theorem canonCols_cposOf (nodes : List CNode) (trailing : List Str) :
    CommentParse.canonColsList (cposOf nodes trailing) (ctreeToP nodes) 0 0 = true :=
  ccanonColsList_agree nodes 0 2 (cposOf nodes trailing) 0 (cagree_cposOf_nodes nodes trailing)

theorem colsOk_cposOf (nodes : List CNode) (trailing : List Str) :
    CommentParse.colsOkList (cposOf nodes trailing) (ctreeToP nodes) 0 0 = true :=
  CommentParse.colsOkList_of_canon _ _ 0 0 (canonCols_cposOf nodes trailing)

/-- the first top-level node is keyed `META` and has NO leading comment (then `parse_document` reads a META block). -/
def firstIsBareMeta : List CNode → Bool
  | n :: _ => n.lead.isEmpty && n.key == "META".toList
  | [] => false

theorem metaFirstC_bridge (nodes : List CNode) : CommentParse.metaFirstC (ctreeToP nodes) = firstIsBareMeta nodes := by
  cases nodes with
  | nil => rfl
  | cons n ns => simp only [ctreeToP, CommentParse.metaFirstC, firstIsBareMeta, CNode.lead_toP, CNode.key_toP]

/-! ### the document -/

mutual
theorem CNode.node_agree : ∀ (n : CNode) (d : Nat) (pos : Nat → CommentParse.CPos) (i : Nat),
    CAgree pos (n.cpos d (i + 2)) i → n.toP.node pos (i + n.lead.length) = n.node canonPos i d
  | .line ln lead trail, d, pos, i, h => by
    simp only [CNode.cpos] at h
    have h2 := h.right
    rw [leadPos_length] at h2
    have hp : pos (i + lead.length) = clinePos ln trail d (i + 2 + lead.length) := h2.head
    simp only [CNode.toP, CNode.lead, CommentParse.CNode.node, CNode.node, hp, clinePos, canonPos, FScalar.val_toP,
      Node.assign.injEq, true_and, and_true]
    omega
  | .block key cs lead, d, pos, i, h => by
    simp only [CNode.cpos] at h
    have h2 := h.right
    rw [leadPos_length] at h2
    have hp : pos (i + lead.length) = cheaderPos key d (i + 2 + lead.length) := h2.head
    have ht := h2.tail
    rw [show i + 2 + lead.length + 1 = (i + lead.length + 1) + 2 by omega] at ht
    simp only [CNode.toP, CNode.lead, CommentParse.CNode.node, CNode.node, hp, cheaderPos, canonPos,
      cnodeList_agree cs (d + 1) pos (i + lead.length + 1) ht, Node.block.injEq, true_and, and_true]
    omega
theorem cnodeList_agree : ∀ (ns : List CNode) (d : Nat) (pos : Nat → CommentParse.CPos) (i : Nat),
    CAgree pos (cposList d (i + 2) ns) i → CommentParse.nodeList pos (ctreeToP ns) i = ctreeNodes canonPos i d ns
  | [], d, pos, i, _ => rfl
  | n :: ns, d, pos, i, h => by
    simp only [cposList] at h
    have h2 := h.right
    rw [CNode.cpos_length, show i + 2 + n.nlines = (i + n.nlines) + 2 by omega] at h2
    simp only [ctreeToP, CommentParse.nodeList, ctreeNodes, CNode.lead_toP, CNode.node_agree n d pos i h.left,
      CNode.lines_toP, cnodeList_agree ns d pos (i + n.nlines) h2]
end

/-- **the document of the parser half is the document of the lexer half** at the canonical positions (every node at the
text line of its key, column `1 + 2·depth`; comment lines count as lines). -/
theorem cTreeDoc_bridge (name : Str) (nodes : List CNode) (trailing : List Str) :
    CommentParse.cTreeDoc name (cposOf nodes trailing) (ctreeToP nodes) trailing = cDoc name canonPos nodes trailing := by
  simp only [CommentParse.cTreeDoc, cDoc,
    cnodeList_agree nodes 0 (cposOf nodes trailing) 0 (cagree_cposOf_nodes nodes trailing)]

mutual
/-- whatever positions the parser half is given, the AST it describes carries the tree of the lexer half: keys, values,
children, `leading_comments`, `trailing_comment`. -/
theorem CNode.toP_node_matches (pos : Nat → CommentParse.CPos) : ∀ (n : CNode) (j : Nat), n.Matches (n.toP.node pos j)
  | .line ln lead trail, j => by
    simp only [CNode.Matches, CNode.toP, CommentParse.CNode.node, FScalar.val_toP]
    exact ⟨_, _, rfl⟩
  | .block key cs lead, j => by
    simp only [CNode.Matches, CNode.toP, CommentParse.CNode.node]
    exact ⟨_, _, _, rfl, ctreeToP_nodeList_matches pos cs (j + 1)⟩
theorem ctreeToP_nodeList_matches (pos : Nat → CommentParse.CPos) : ∀ (ns : List CNode) (i : Nat),
    ctreeMatches ns (CommentParse.nodeList pos (ctreeToP ns) i)
  | [], i => by simp only [ctreeMatches, ctreeToP, CommentParse.nodeList]
  | n :: ns, i => by
    simp only [ctreeMatches, ctreeToP, CommentParse.nodeList]
    exact ⟨_, _, rfl, CNode.toP_node_matches pos n _, ctreeToP_nodeList_matches pos ns _⟩
end

/-- the sections of the document of the parser half `ctreeMatches` the tree (so that `emit_ctree_matches` applies to it). -/
theorem cTreeDoc_matches (name : Str) (pos : Nat → CommentParse.CPos) (nodes : List CNode) (trailing : List Str) :
    ctreeMatches nodes (CommentParse.cTreeDoc name pos (ctreeToP nodes) trailing).sections :=
  ctreeToP_nodeList_matches pos nodes 0

theorem stripFrontmatter_ctree (env : Env) (name : Str) (nodes : List CNode) (trailing : List Str) :
    Parser.stripFrontmatter env (cDocText name nodes trailing) = (cDocText name nodes trailing, none) := by
  unfold Parser.stripFrontmatter
  have : startsWith "---".toList (cDocText name nodes trailing) = false := by
    simp [cDocText, startsWith, List.isPrefixOf]
  rw [this]; rfl

/-! ### position-free content -/

/-- the content of a tree with comments with every position forgotten: keys, nesting, order, values with their types, the
leading comments of every node and the trailing comment of every assignment (texts and order). -/
inductive CContent where
  | line (key : Str) (v : Value) (lead : List Str) (trail : Option Str)
  | block (key : Str) (children : List CContent) (lead : List Str)

mutual
def CNode.content : CNode → CContent
  | .line ln lead trail => .line ln.key ln.v.value lead trail
  | .block key cs lead => .block key (ctreeContent cs) lead
def ctreeContent : List CNode → List CContent
  | [] => []
  | n :: ns => n.content :: ctreeContent ns
end

mutual
/-- an AST node determines the content of every tree node that `Matches` it. -/
theorem CNode.content_of_matches : ∀ (t t' : CNode) (n : Node), t.Matches n → t'.Matches n → t.content = t'.content
  | .line ln lead trail, .line ln' lead' trail', n, h, h' => by
    simp only [CNode.Matches] at h h'
    obtain ⟨l, c, rfl⟩ := h
    obtain ⟨l', c', e⟩ := h'
    simp only [Node.assign.injEq] at e
    simp only [CNode.content, e.1, e.2.1, e.2.2.2.2.1, e.2.2.2.2.2]
  | .line ln lead trail, .block key' cs' lead', n, h, h' => by
    simp only [CNode.Matches] at h h'
    obtain ⟨l, c, rfl⟩ := h
    obtain ⟨ch, l', c', e, _⟩ := h'
    cases e
  | .block key cs lead, .line ln' lead' trail', n, h, h' => by
    simp only [CNode.Matches] at h h'
    obtain ⟨ch, l, c, rfl, _⟩ := h
    obtain ⟨l', c', e⟩ := h'
    cases e
  | .block key cs lead, .block key' cs' lead', n, h, h' => by
    simp only [CNode.Matches] at h h'
    obtain ⟨ch, l, c, rfl, hm⟩ := h
    obtain ⟨ch', l', c', e, hm'⟩ := h'
    simp only [Node.block.injEq] at e
    obtain ⟨ek, ec, _, _, el, _⟩ := e
    subst ec
    simp only [CNode.content, ek, el, ctreeContent_of_matches cs cs' ch hm hm']
theorem ctreeContent_of_matches : ∀ (ts ts' : List CNode) (ns : List Node), ctreeMatches ts ns → ctreeMatches ts' ns →
    ctreeContent ts = ctreeContent ts'
  | [], [], _, _, _ => rfl
  | [], t' :: ts', ns, h, h' => by
    simp only [ctreeMatches] at h h'
    obtain ⟨n, ns', e, _⟩ := h'
    rw [h] at e; cases e
  | t :: ts, [], ns, h, h' => by
    simp only [ctreeMatches] at h h'
    obtain ⟨n, ns', e, _⟩ := h
    rw [h'] at e; cases e
  | t :: ts, t' :: ts', ns, h, h' => by
    simp only [ctreeMatches] at h h'
    obtain ⟨n, ns1, rfl, hm, hr⟩ := h
    obtain ⟨n', ns1', e, hm', hr'⟩ := h'
    simp only [List.cons.injEq] at e
    obtain ⟨e1, e2⟩ := e
    subst e1; subst e2
    simp only [ctreeContent, CNode.content_of_matches t t' n hm hm', ctreeContent_of_matches ts ts' ns1 hr hr']
end

/-! ### the conditions on comment texts do not depend on the environment's non-ASCII classification

`CommentOK env c` says `env.strip c = c`; every ASCII white-space char is white space in every environment, so a text that
`env.strip` leaves alone is left alone by `Env.ascii.strip` too.  (Used to re-read a text in the ASCII environment.) -/

theorem isSpace_ascii_of (env : Env) (x : Char) (h : env.isSpace x = false) : Env.ascii.isSpace x = false := by
  unfold Env.isSpace at h ⊢
  by_cases ha : isAscii x = true
  · rw [if_pos ha] at h ⊢; exact h
  · rw [if_neg ha]; rfl

/-- a strip-stable text does not start with a white-space character. -/
theorem strip_stable_head (env : Env) (c : Str) (h : env.strip c = c) :
    ∀ x, c.head? = some x → env.isSpace x = false := by
  intro x hx
  cases c with
  | nil => cases hx
  | cons y ys =>
    have hy : y = x := by simpa using hx
    subst hy
    cases hs : env.isSpace y with
    | false => rfl
    | true =>
      exfalso
      have hlen := congrArg List.length h
      have h1 : (env.strip (y :: ys)).length ≤ ys.length := by
        unfold Env.strip Env.rstrip Env.lstrip
        rw [List.dropWhile_cons_of_pos hs, List.length_reverse]
        refine Nat.le_trans (List.dropWhile_sublist _).length_le ?_
        rw [List.length_reverse]
        exact (List.dropWhile_sublist _).length_le
      simp only [List.length_cons] at hlen
      omega

/-- a text that neither starts nor ends with white space is strip-stable. -/
theorem strip_of_ends (env : Env) (c : Str) (hh : ∀ x, c.head? = some x → env.isSpace x = false)
    (hl : ∀ x, c.getLast? = some x → env.isSpace x = false) : env.strip c = c := by
  cases c with
  | nil => rfl
  | cons y ys =>
    have hy : env.isSpace y = false := hh y rfl
    unfold Env.strip Env.lstrip
    rw [List.dropWhile_cons_of_neg (by simp [hy])]
    exact rstrip_append_stable env [] (y :: ys) (by simp) hl

theorem CommentOK.ascii {env : Env} {c : Str} (h : CommentOK env c) : CommentOK Env.ascii c :=
  ⟨strip_of_ends Env.ascii c (fun x hx => isSpace_ascii_of env x (strip_stable_head env c h.1 x hx))
      (fun x hx => isSpace_ascii_of env x (strip_stable_last env c h.1 x hx)), h.2⟩

theorem TrailOK.ascii {env : Env} {trail : Option Str} (h : TrailOK env trail) : TrailOK Env.ascii trail := by
  cases trail with
  | none => trivial
  | some c => exact CommentOK.ascii (env := env) h

mutual
theorem CNode.OK_ascii (env : Env) : ∀ (n : CNode), n.OK env → n.OK Env.ascii
  | .line ln lead trail, h => by
    simp only [CNode.OK] at h ⊢
    exact ⟨h.1, fun c hc => (h.2.1 c hc).ascii, h.2.2.ascii⟩
  | .block key cs lead, h => by
    simp only [CNode.OK] at h ⊢
    exact ⟨h.1, h.2.1, fun c hc => (h.2.2.1 c hc).ascii, ctreeOK_ascii env cs h.2.2.2⟩
theorem ctreeOK_ascii (env : Env) : ∀ (ns : List CNode), ctreeOK env ns → ctreeOK Env.ascii ns
  | [], _ => trivial
  | n :: ns, h => by
    simp only [ctreeOK] at h ⊢
    exact ⟨CNode.OK_ascii env n h.1, ctreeOK_ascii env ns h.2⟩
end

end Octave
