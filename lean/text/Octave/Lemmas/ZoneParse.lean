/-
Parser half of the "document with literal zones" read theorem (C05), extending `Lemmas/FlatParse.lean`.

A top-level zone assignment is lexed (`Lemmas/ZoneLex.lean`) to SEVEN tokens

    IDENTIFIER(key) ASSIGN NEWLINE FENCE_OPEN({marker, tag}) LITERAL_CONTENT(content) FENCE_CLOSE(marker) NEWLINE   (`Zone.toks`)

Here every token position is an arbitrary number (`ZPos`), and the content, the tag and the marker are arbitrary
strings: the parser never looks inside them.  Function by function:

* `parseLiteralZone_content`   FENCE_OPEN LITERAL_CONTENT FENCE_CLOSE → `.zone content tag marker`, three tokens consumed
* `parseLiteralZone_noContent` FENCE_OPEN FENCE_CLOSE (no content token) → `.zone "" tag marker`
* `parseLiteralZone_unclosed`  FENCE_OPEN [LITERAL_CONTENT] followed by anything but FENCE_CLOSE → E006 at the FENCE_OPEN
* `parseValue_zone`            NEWLINE FENCE_OPEN … → the zone (the branch of `parse_value` that accepts a fence on the next line)
* `parseSection_zone`          the seven tokens minus the last, followed by ANY token that is not a COMMENT → `some (Assignment key
                               (zone …))`, cursor left ON that token; `parseSection_zone_comment`: a COMMENT there is taken as
                               the assignment's trailing comment (the lexer never produces that: the close line ends the span)
* `Item` (a flat line `KEY::scalar` or a zone assignment), `docLoop_items` (generalises `docLoop_flat`: any number of items in any
  order), `parseDocument_items`, `parseDocument_items_meta_first` (the excluded case), exact warnings `itemWarns`
* `nodeEqZ` … `isOkDocZ_sound`  Boolean equality on documents with zones, for closed `decide` checks

Conditions the code imposes: none on key / marker / tag / content for the document itself; a zone under `PATTERN` / `REGEX`
gives NO W_PATTERN_AUTOQUOTE (the value is not a `str`); the FIRST item's key must not be `META`; a repeated key gives the
duplicate-key warning.  Everything lives in `namespace Octave.ZoneParse`.
-/
import Octave.Lemmas.FlatParse
namespace Octave.ZoneParse
open Octave Parser FlatParse

/-- evaluation of the parser monad on explicit states (same macro as in `FlatParse`, which keeps it local). -/
local macro "step_simp" "[" ts:Lean.Parser.Tactic.simpLemma,* "]" : tactic =>
  `(tactic| simp only [bind, StateT.bind, Except.bind, pure, StateT.pure, Except.pure, current_mk, peek_mk, advance_mk,
      curType_mk, isAdjacentBracket_mk, budget_mk, warn_mk, get, getThe, MonadStateOf.get, StateT.get,
      Bool.false_eq_true, if_false, if_true, Bool.false_and, Bool.and_false, Bool.or_false, Bool.false_or,
      List.length_cons, List.length_nil, beq_iff_eq, bne_iff_ne, ne_eq, reduceCtorEq, not_true_eq_false, not_false_eq_true,
      Bool.and_eq_true, Bool.or_eq_true, Bool.not_eq_true', beq_eq_false_iff_ne, false_and, and_false, true_and, and_true,
      false_or, or_false, true_or, or_true, decide_eq_true_eq,
      beq_self_eq_true, Bool.true_or, Bool.or_true, Bool.true_and, Bool.and_true, Bool.not_true, Bool.not_false, $ts,*])

/-! ### `parse_literal_zone` -/

/-- FENCE_OPEN, LITERAL_CONTENT, FENCE_CLOSE (and at least one more token): the zone value carries the content token's
value, the tag and the marker of the FENCE_OPEN token — copied, never inspected.  The FENCE_CLOSE token's value is not
read at all. -/
theorem parseLiteralZone_content (o li c next : Token) (k : List Token) (m : Str) (tg : Option Str)
    (p : Option Token) (n : Nat) (la : Token) (w : List Warning) (d : Nat) (wd : List Nat) (s : Bool) (th : Nat) (al : Char → Bool)
    (ho : o.type = TT.fenceOpen) (hv : o.value = .fence m tg) (hl : li.type = TT.literalContent) (hc : c.type = TT.fenceClose) :
    parseLiteralZone { rest := o :: li :: c :: next :: k, prev := p, pos := n, last := la, warnings := w, depth := d, warned := wd, strict := s, threshold := th, alpha := al }
      = .ok (.zone (pyStrVal li.value) tg m,
             { rest := next :: k, prev := some c, pos := n + 1 + 1 + 1, last := la, warnings := w, depth := d, warned := wd, strict := s, threshold := th, alpha := al }) := by
  unfold parseLiteralZone
  step_simp [expect_eq (h := ho), hv, hl, hc]

/-- no LITERAL_CONTENT token between the fences: the content is `""`. -/
theorem parseLiteralZone_noContent (o c next : Token) (k : List Token) (m : Str) (tg : Option Str)
    (p : Option Token) (n : Nat) (la : Token) (w : List Warning) (d : Nat) (wd : List Nat) (s : Bool) (th : Nat) (al : Char → Bool)
    (ho : o.type = TT.fenceOpen) (hv : o.value = .fence m tg) (hc : c.type = TT.fenceClose) :
    parseLiteralZone { rest := o :: c :: next :: k, prev := p, pos := n, last := la, warnings := w, depth := d, warned := wd, strict := s, threshold := th, alpha := al }
      = .ok (.zone [] tg m,
             { rest := next :: k, prev := some c, pos := n + 1 + 1, last := la, warnings := w, depth := d, warned := wd, strict := s, threshold := th, alpha := al }) := by
  have hl : c.type ≠ TT.literalContent := by rw [hc]; decide
  unfold parseLiteralZone
  step_simp [expect_eq (h := ho), hv, hl, hc]

/-- a content token that is not followed by FENCE_CLOSE: E006, reported at the FENCE_OPEN token. -/
theorem parseLiteralZone_unclosed (o li x : Token) (k : List Token) (m : Str) (tg : Option Str)
    (p : Option Token) (n : Nat) (la : Token) (w : List Warning) (d : Nat) (wd : List Nat) (s : Bool) (th : Nat) (al : Char → Bool)
    (ho : o.type = TT.fenceOpen) (hv : o.value = .fence m tg) (hl : li.type = TT.literalContent) (hx : x.type ≠ TT.fenceClose) :
    parseLiteralZone { rest := o :: li :: x :: k, prev := p, pos := n, last := la, warnings := w, depth := d, warned := wd, strict := s, threshold := th, alpha := al }
      = .error (.parser "E006".toList o.line o.col) := by
  unfold parseLiteralZone
  cases k with
  | nil =>
    have hadv : advance { rest := [li, x], prev := some o, pos := n + 1, last := la, warnings := w, depth := d, warned := wd, strict := s, threshold := th, alpha := al }
        = .ok (li, { rest := [x], prev := some li, pos := n + 1 + 1, last := la, warnings := w, depth := d, warned := wd, strict := s, threshold := th, alpha := al }) := rfl
    have hcur : curType { rest := [x], prev := some li, pos := n + 1 + 1, last := la, warnings := w, depth := d, warned := wd, strict := s, threshold := th, alpha := al }
        = .ok (x.type, { rest := [x], prev := some li, pos := n + 1 + 1, last := la, warnings := w, depth := d, warned := wd, strict := s, threshold := th, alpha := al }) := rfl
    step_simp [expect_eq (h := ho), hv, hl, hadv, hcur, hx, throw_mk, parserError]
  | cons y k => step_simp [expect_eq (h := ho), hv, hl, hx, throw_mk, parserError]

/-! ### `parse_value` at a line break followed by a fence -/

/-- **`parse_value` on NEWLINE FENCE_OPEN LITERAL_CONTENT FENCE_CLOSE**: the zone; four tokens consumed, nothing else
changes (no warning, same depth).  Fuel 1 suffices (no recursion). -/
theorem parseValue_zone (fuel : Nat) (nl o li c next : Token) (k : List Token) (m : Str) (tg : Option Str)
    (p : Option Token) (n : Nat) (la : Token) (w : List Warning) (d : Nat) (wd : List Nat) (s : Bool) (th : Nat) (al : Char → Bool)
    (hn : nl.type = TT.newline)
    (ho : o.type = TT.fenceOpen) (hv : o.value = .fence m tg) (hl : li.type = TT.literalContent) (hc : c.type = TT.fenceClose) :
    parseValue (fuel + 1) { rest := nl :: o :: li :: c :: next :: k, prev := p, pos := n, last := la, warnings := w, depth := d, warned := wd, strict := s, threshold := th, alpha := al }
      = .ok (.zone (pyStrVal li.value) tg m,
             { rest := next :: k, prev := some c, pos := n + 1 + 1 + 1 + 1, last := la, warnings := w, depth := d, warned := wd, strict := s, threshold := th, alpha := al }) := by
  rw [parseValue]
  step_simp [hn, ho]
  rw [parseLiteralZone_content (ho := ho) (hv := hv) (hl := hl) (hc := hc)]

/-- the same with the fence directly at the cursor (`parse_value`'s FENCE_OPEN branch). -/
theorem parseValue_zone_direct (fuel : Nat) (o li c next : Token) (k : List Token) (m : Str) (tg : Option Str)
    (p : Option Token) (n : Nat) (la : Token) (w : List Warning) (d : Nat) (wd : List Nat) (s : Bool) (th : Nat) (al : Char → Bool)
    (ho : o.type = TT.fenceOpen) (hv : o.value = .fence m tg) (hl : li.type = TT.literalContent) (hc : c.type = TT.fenceClose) :
    parseValue (fuel + 1) { rest := o :: li :: c :: next :: k, prev := p, pos := n, last := la, warnings := w, depth := d, warned := wd, strict := s, threshold := th, alpha := al }
      = .ok (.zone (pyStrVal li.value) tg m,
             { rest := next :: k, prev := some c, pos := n + 1 + 1 + 1, last := la, warnings := w, depth := d, warned := wd, strict := s, threshold := th, alpha := al }) := by
  rw [parseValue]
  step_simp [ho]
  rw [parseLiteralZone_content (ho := ho) (hv := hv) (hl := hl) (hc := hc)]


/-! ### a zone assignment: seven tokens at arbitrary positions -/

/-- positions (line, column) of the seven tokens: all arbitrary. -/
structure ZPos where
  kl : Nat
  kc : Nat
  al : Nat
  ac : Nat
  n0l : Nat
  n0c : Nat
  ol : Nat
  oc : Nat
  ll : Nat
  lc : Nat
  cl : Nat
  cc : Nat
  n1l : Nat
  n1c : Nat
  deriving DecidableEq, Repr, Inhabited

/-- `KEY::` + line break + open fence (marker, tag) + content + close fence + line break.  `content`, `tag`, `marker`
are ARBITRARY strings. -/
structure Zone where
  key : Str
  content : Str
  tag : Option Str
  marker : Str
  p : ZPos
  deriving DecidableEq, Repr, Inhabited

def Zone.keyTok (z : Zone) : Token := { type := .identifier, value := .str z.key, line := z.p.kl, col := z.p.kc }
def Zone.assignTok (z : Zone) : Token := { type := .assign, value := .str "::".toList, line := z.p.al, col := z.p.ac }
def Zone.nl0Tok (z : Zone) : Token := { type := .newline, value := .str "\n".toList, line := z.p.n0l, col := z.p.n0c }
def Zone.openTok (z : Zone) : Token := { type := .fenceOpen, value := .fence z.marker z.tag, line := z.p.ol, col := z.p.oc }
def Zone.litTok (z : Zone) : Token := { type := .literalContent, value := .str z.content, line := z.p.ll, col := z.p.lc }
def Zone.closeTok (z : Zone) : Token := { type := .fenceClose, value := .str z.marker, line := z.p.cl, col := z.p.cc }
def Zone.nlTok (z : Zone) : Token := { type := .newline, value := .str "\n".toList, line := z.p.n1l, col := z.p.n1c }

/-- the six tokens `parse_section` consumes. -/
def Zone.head (z : Zone) : List Token := [z.keyTok, z.assignTok, z.nl0Tok, z.openTok, z.litTok, z.closeTok]

/-- … and the line break after the close fence. -/
def Zone.toks (z : Zone) : List Token := z.head ++ [z.nlTok]

/-- the Assignment the reader must produce: key, `LiteralZoneValue(content, info_tag, fence_marker)`, position of the key. -/
def Zone.node (z : Zone) (leading : List Str := []) (trailing : Option Str := none) : Node :=
  .assign z.key (.zone z.content z.tag z.marker) z.p.kl z.p.kc leading trailing

/-! ### `parse_section` on a zone assignment -/

/-- **`parse_section` on a zone assignment** (any key — `PATTERN` and `REGEX` included —, any marker, tag, content, any
positions, any pending leading comments), followed by ANY token `next` that is not a COMMENT and any continuation:
exactly `Assignment(key, zone(content, tag, marker))`; six tokens consumed, the cursor is left ON `next` (for the lexer's
output: the NEWLINE after the close fence, where `docLoop` / `blockLoop` expect it); no warning, nothing else changes. -/
theorem parseSection_zone (st : PState) (z : Zone) (leading : List Str) (next : Token) (k : List Token) (fuel : Nat)
    (hnext : next.type ≠ TT.comment) (hr : st.rest = z.head ++ next :: k) :
    parseSection (fuel + 2) leading st
      = .ok (some (z.node leading none), { st with rest := next :: k, prev := some z.closeTok, pos := st.pos + 6 }) := by
  have hst : st = { st with rest := z.head ++ next :: k } := by rw [← hr]
  rw [hst]
  obtain ⟨key, content, tag, marker, p⟩ := z
  rw [parseSection]
  step_simp [Zone.head, Zone.keyTok, Zone.assignTok, Zone.nl0Tok, Zone.openTok, Zone.litTok, Zone.closeTok, List.cons_append,
    List.nil_append, pyStrVal_str]
  rw [parseValue_zone (m := marker) (tg := tag) (hn := rfl) (ho := rfl) (hv := rfl) (hl := rfl) (hc := rfl)]
  step_simp [hnext, Zone.node, pyStrVal_str]

/-- what may NOT follow silently: a COMMENT token right after FENCE_CLOSE is taken as the assignment's trailing comment
(and consumed).  The lexer never produces this sequence — the close line must be blank after the backticks and the span
step consumes the line break — so this path is dead for lexed text. -/
theorem parseSection_zone_comment (st : PState) (z : Zone) (leading : List Str) (cm next : Token) (k : List Token) (fuel : Nat)
    (hcm : cm.type = TT.comment) (hr : st.rest = z.head ++ cm :: next :: k) :
    parseSection (fuel + 2) leading st
      = .ok (some (z.node leading (some (pyStrVal cm.value))), { st with rest := next :: k, prev := some cm, pos := st.pos + 7 }) := by
  have hst : st = { st with rest := z.head ++ cm :: next :: k } := by rw [← hr]
  rw [hst]
  obtain ⟨key, content, tag, marker, p⟩ := z
  rw [parseSection]
  step_simp [Zone.head, Zone.keyTok, Zone.assignTok, Zone.nl0Tok, Zone.openTok, Zone.litTok, Zone.closeTok, List.cons_append,
    List.nil_append, pyStrVal_str]
  rw [parseValue_zone (m := marker) (tg := tag) (hn := rfl) (ho := rfl) (hv := rfl) (hl := rfl) (hc := rfl)]
  step_simp [hcm, Zone.node, pyStrVal_str]


/-! ### items: flat lines and zone assignments in any order -/

/-- one top-level item of the body: a flat line `KEY::scalar` or a zone assignment. -/
inductive Item where
  | line (ln : Line)
  | zone (z : Zone)
  deriving DecidableEq, Repr, Inhabited

def Item.toks : Item → List Token
  | .line ln => ln.toks
  | .zone z => z.toks

def Item.node : Item → Node
  | .line ln => ln.node
  | .zone z => z.node

def Item.key : Item → Str
  | .line ln => ln.key
  | .zone z => z.key

/-- line of the key token (what the duplicate-key table records). -/
def Item.l : Item → Nat
  | .line ln => ln.l
  | .zone z => z.p.kl

/-- column of the key token. -/
def Item.kc : Item → Nat
  | .line ln => ln.c1
  | .zone z => z.p.kc

def Item.keyTok (it : Item) : Token := { type := .identifier, value := .str it.key, line := it.l, col := it.kc }

/-- position of the `::` token (where a leading `META` is rejected). -/
def Item.assignPos : Item → Nat × Nat
  | .line ln => (ln.l, ln.c2)
  | .zone z => (z.p.al, z.p.ac)

/-- the last token of the item (a NEWLINE), consumed by the body loop. -/
def Item.nlTok : Item → Token
  | .line ln => ln.nlTok
  | .zone z => z.nlTok

/-- the last token `parse_section` consumes. -/
def Item.lastValTok : Item → Token
  | .line ln => ln.valTok
  | .zone z => z.closeTok

/-- warnings `parse_section` emits on the item: a zone never gives one (not even under `PATTERN` / `REGEX`). -/
def Item.warns : Item → List Warning
  | .line ln => ln.warns
  | .zone _ => []

theorem Item.warns_reverse (it : Item) : it.warns.reverse = it.warns := by
  cases it with
  | line ln => exact Line.warns_reverse ln
  | zone z => rfl

theorem Item.toks_length_pos (it : Item) : 1 ≤ it.toks.length := by
  cases it <;> simp [Item.toks, Line.toks, Zone.toks, Zone.head]

/-- all parser warnings of the body loop on `items`, in emission order, starting from key table `kp`. -/
def itemWarns : KeyPos → List Item → List Warning
  | _, [] => []
  | kp, it :: r => it.warns ++ (trackPure kp it.key it.l).2 ++ itemWarns (trackPure kp it.key it.l).1 r

/-- `prev` token after the loop went through `items`. -/
def prevAfterI (p : Option Token) : List Item → Option Token
  | [] => p
  | it :: r => prevAfterI (some it.nlTok) r

/-- number of tokens of the items. -/
def ntoks (items : List Item) : Nat := (items.flatMap Item.toks).length

theorem ntoks_cons (it : Item) (r : List Item) : ntoks (it :: r) = it.toks.length + ntoks r := by
  simp [ntoks]

theorem length_le_ntoks (items : List Item) : items.length ≤ ntoks items := by
  induction items with
  | nil => simp [ntoks]
  | cons it r ih => rw [ntoks_cons, List.length_cons]; have := it.toks_length_pos; omega

/-- **one turn of the body loop** on an item followed by at least one more token: `parse_section` reads the item, the key
is recorded (duplicate-key bookkeeping), the next turn consumes the item's NEWLINE.  Two units of loop fuel. -/
theorem docLoop_item (vf fuel : Nat) (it : Item) (u : Token) (r : List Token) (st : PState) (acc : List Node) (kp : KeyPos)
    (hr : st.rest = it.toks ++ u :: r) :
    docLoop (vf + 3) (fuel + 1 + 1) [] acc kp st
      = docLoop (vf + 3) fuel [] (acc ++ [it.node]) (trackPure kp it.key it.l).1
          { st with rest := u :: r, prev := some it.nlTok, pos := st.pos + it.toks.length,
                    warnings := (trackPure kp it.key it.l).2 ++ (it.warns ++ st.warnings) } := by
  cases it with
  | line ln =>
    have hst : st = { st with rest := ln.keyTok :: ([ln.assignTok, ln.valTok, ln.nlTok] ++ (u :: r)) } := by
      have : ln.keyTok :: ([ln.assignTok, ln.valTok, ln.nlTok] ++ (u :: r)) = (Item.line ln).toks ++ u :: r := rfl
      rw [this, ← hr]
    rw [docLoop, hst]
    step_simp [Line.keyTok]
    rw [parseSection_flat_line (ln := ln) (k := u :: r) (hr := rfl)]
    step_simp [Line.node, nodeAssignKey?, trackKey_eq]
    rw [docLoop]
    step_simp [Line.nlTok]
    simp only [Item.node, Item.key, Item.l, Item.warns, Item.nlTok, Item.toks, Line.node, Line.nlTok, Line.toks,
      List.length_cons, List.length_nil]
  | zone z =>
    have hst : st = { st with rest := z.keyTok :: ([z.assignTok, z.nl0Tok, z.openTok, z.litTok, z.closeTok] ++ (z.nlTok :: u :: r)) } := by
      have : z.keyTok :: ([z.assignTok, z.nl0Tok, z.openTok, z.litTok, z.closeTok] ++ (z.nlTok :: u :: r)) = (Item.zone z).toks ++ u :: r := rfl
      rw [this, ← hr]
    rw [docLoop, hst]
    step_simp [Zone.keyTok]
    rw [parseSection_zone (z := z) (next := z.nlTok) (k := u :: r) (fuel := vf + 1) (hnext := by simp [Zone.nlTok]) (hr := rfl)]
    step_simp [Zone.node, nodeAssignKey?, trackKey_eq]
    rw [docLoop]
    step_simp [Zone.nlTok]
    simp only [Item.node, Item.key, Item.l, Item.warns, Item.nlTok, Item.toks, Zone.node, Zone.nlTok, Zone.toks, Zone.head,
      List.length_cons, List.length_nil, List.cons_append, List.nil_append]

/-- **The body loop of `parse_document` on any number of items** — flat lines and zone assignments in any order — followed
by `===END===` or EOF: one node per item, in order; the cursor ends on the terminator; the warnings are exactly
`itemWarns`.  No condition on keys, markers, tags, contents, positions. -/
theorem docLoop_items (vf : Nat) (items : List Item) (e : Token) (tail : List Token)
    (he : e.type = .envelopeEnd ∨ e.type = .eof) (st : PState) (acc : List Node) (kp : KeyPos) (extra : Nat)
    (hr : st.rest = items.flatMap Item.toks ++ e :: tail) :
    docLoop (vf + 3) (2 * items.length + 1 + extra) [] acc kp st
      = .ok ((acc ++ items.map Item.node, []),
             { st with rest := e :: tail, prev := prevAfterI st.prev items, pos := st.pos + ntoks items,
                       warnings := (itemWarns kp items).reverse ++ st.warnings }) := by
  induction items generalizing st acc kp with
  | nil =>
    have hst : st = { st with rest := e :: tail } := by rw [← List.nil_append (e :: tail), ← List.flatMap_nil (f := Item.toks), ← hr]
    rw [hst]
    have hf : 2 * ([] : List Item).length + 1 + extra = extra + 1 := by simp only [List.length_nil]; omega
    rw [hf, docLoop]
    step_simp [he]
    simp only [List.map_nil, List.append_nil, prevAfterI, itemWarns, List.reverse_nil, List.nil_append, ntoks, List.flatMap_nil,
      List.length_nil, Nat.add_zero]
  | cons it r ih =>
    have hf : 2 * (it :: r).length + 1 + extra = (2 * r.length + 1 + extra) + 1 + 1 := by
      simp only [List.length_cons]; omega
    obtain ⟨u, K, hK⟩ : ∃ u K, r.flatMap Item.toks ++ e :: tail = u :: K := by
      cases h : r.flatMap Item.toks ++ e :: tail with
      | nil => simp at h
      | cons u K => exact ⟨u, K, rfl⟩
    have hr2 : st.rest = it.toks ++ u :: K := by rw [hr, List.flatMap_cons, List.append_assoc, hK]
    rw [hf, docLoop_item vf _ it u K st acc kp hr2]
    rw [ih (hr := hK.symm)]
    simp only [List.map_cons, List.append_assoc, List.cons_append, List.nil_append, prevAfterI, itemWarns,
      List.reverse_append, trackPure_warns_reverse, Item.warns_reverse, ntoks_cons, Nat.add_assoc]

/-- `docLoop_items` with fuel given by lower bounds. -/
theorem docLoop_items' (vf fuel : Nat) (items : List Item) (e : Token) (tail : List Token)
    (he : e.type = .envelopeEnd ∨ e.type = .eof) (st : PState) (acc : List Node) (kp : KeyPos)
    (hvf : 3 ≤ vf) (hfuel : 2 * items.length + 1 ≤ fuel)
    (hr : st.rest = items.flatMap Item.toks ++ e :: tail) :
    docLoop vf fuel [] acc kp st
      = .ok ((acc ++ items.map Item.node, []),
             { st with rest := e :: tail, prev := prevAfterI st.prev items, pos := st.pos + ntoks items,
                       warnings := (itemWarns kp items).reverse ++ st.warnings }) := by
  obtain ⟨vf0, rfl⟩ : ∃ vf0, vf = vf0 + 3 := ⟨vf - 3, by omega⟩
  obtain ⟨extra, rfl⟩ : ∃ extra, fuel = 2 * items.length + 1 + extra := ⟨fuel - (2 * items.length + 1), by omega⟩
  exact docLoop_items vf0 items e tail he st acc kp extra hr


/-! ### `parseDocument` on a whole document of items -/

/-- the token list: `ENVELOPE_START(name) NEWLINE item* ENVELOPE_END NEWLINE EOF` (frame positions arbitrary). -/
def itemToks (f : Frame) (name : Str) (items : List Item) : List Token :=
  f.envTok name :: f.nl0Tok :: (items.flatMap Item.toks ++ [f.endTok, f.nl1Tok, f.eofTok])

/-- the document it denotes (all other fields at their defaults). -/
def itemDoc (name : Str) (items : List Item) : Document := { name := name, sections := items.map Item.node }

/-- the first item's key is `META` (then `parse_document` takes it for the META block header). -/
def metaFirstI : List Item → Bool
  | it :: _ => it.key == "META".toList
  | [] => false

/-- the first two tokens of an item: IDENTIFIER(key), ASSIGN. -/
theorem Item.toks_head (it : Item) : ∃ a K, it.toks = it.keyTok :: a :: K
    ∧ a.type = TT.assign ∧ (a.line, a.col) = it.assignPos := by
  cases it with
  | line ln => exact ⟨ln.assignTok, _, rfl, rfl, rfl⟩
  | zone z => exact ⟨z.assignTok, _, rfl, rfl, rfl⟩

/-- what follows the envelope line: the first key (not `META`) or `===END===`. -/
theorem items_body_head (f : Frame) (items : List Item) (hm : metaFirstI items = false) :
    ∃ u K, items.flatMap Item.toks ++ [f.endTok, f.nl1Tok, f.eofTok] = u :: K ∧
      u.type ≠ TT.newline ∧ u.type ≠ TT.comment ∧ u.type ≠ TT.separator ∧ u.type ≠ TT.grammarSentinel ∧
      u.type ≠ TT.envelopeStart ∧ ¬(u.type = TT.identifier ∧ u.value = TVal.str "META".toList) := by
  cases items with
  | nil => exact ⟨f.endTok, _, rfl, by simp [Frame.endTok], by simp [Frame.endTok], by simp [Frame.endTok], by simp [Frame.endTok], by simp [Frame.endTok], fun h => by cases h.1⟩
  | cons it r =>
    obtain ⟨a, K, hK, -, -⟩ := it.toks_head
    refine ⟨it.keyTok, a :: (K ++ (r.flatMap Item.toks ++ [f.endTok, f.nl1Tok, f.eofTok])), ?_, by simp [Item.keyTok], by simp [Item.keyTok],
      by simp [Item.keyTok], by simp [Item.keyTok], by simp [Item.keyTok], fun h => ?_⟩
    · rw [List.flatMap_cons, hK]; simp
    · have h2 : it.key = "META".toList := by
        have := h.2; simp only [Item.keyTok, TVal.str.injEq] at this; exact this
      simp only [metaFirstI, beq_eq_false_iff_ne, ne_eq] at hm
      exact hm h2

/-- **`parse_document` on a document of items**, from any state positioned on its tokens: exactly `itemDoc`; the cursor
ends on the NEWLINE after `===END===`; the warnings are `itemWarns [] items`.  Only condition: the first item's key is
not `META`.  The parser's own fuel (`2·(tokens+2)+10`) is shown to suffice. -/
theorem parseDocument_items (f : Frame) (name : Str) (items : List Item) (st : PState)
    (hm : metaFirstI items = false) (hr : st.rest = itemToks f name items) :
    parseDocument st
      = .ok (itemDoc name items,
             { st with rest := [f.nl1Tok, f.eofTok], prev := some f.endTok, pos := st.pos + ntoks items + 3,
                       warnings := (itemWarns [] items).reverse ++ st.warnings }) := by
  obtain ⟨u, K, hK, h1, h2, h3, h4, h5, h6⟩ := items_body_head f items hm
  have hlen : ntoks items + 2 = K.length := by
    have := congrArg List.length hK
    simp only [List.length_append, List.length_cons, List.length_nil] at this
    simp only [ntoks]; omega
  have hle := length_le_ntoks items
  have hst : st = { st with rest := f.envTok name :: f.nl0Tok :: u :: K } := by rw [← hK, ← itemToks, ← hr]
  rw [hst]
  unfold parseDocument
  simp (config := {zeta := false}) only [bind, StateT.bind, Except.bind, budget_mk]
  extract_lets n doc0 jp5 jp4 jp3 jp2 jp1
  step_simp [Frame.envTok, Frame.nl0Tok, skipWhitespace_stop]
  simp only [jp1]
  step_simp []
  simp only [jp2]
  step_simp [skipWhitespace_newline, pyStrVal_str, h1, h2]
  simp only [jp3]
  step_simp [h6]
  simp only [jp4]
  step_simp [h3]
  simp only [jp5]
  step_simp []
  rw [docLoop_items' (items := items) (e := f.endTok) (tail := [f.nl1Tok, f.eofTok]) (he := Or.inl rfl) (hr := hK.symm)
    (hvf := by simp only [n]; omega) (hfuel := by simp only [n, List.length_cons]; omega)]
  step_simp [Frame.endTok]
  have hp : st.pos + 1 + 1 + ntoks items + 1 = st.pos + ntoks items + 3 := by omega
  rw [hp, List.nil_append]
  rfl

/-- The hypothesis `metaFirstI items = false` is necessary: when the first item is keyed `META` — a flat line OR a zone
assignment — `parse_document` takes it for the header of the META block and `parse_meta_block` raises E001 at the `::`
(it expects `:`). -/
theorem parseDocument_items_meta_first (f : Frame) (name : Str) (it : Item) (r : List Item) (st : PState)
    (hm : metaFirstI (it :: r) = true) (hr : st.rest = itemToks f name (it :: r)) :
    parseDocument st = .error (.parser "E001".toList it.assignPos.1 it.assignPos.2) := by
  have hk : it.key = "META".toList := by simpa [metaFirstI] using hm
  obtain ⟨a, K, hK, ha, hpos⟩ := it.toks_head
  have hst : st = { st with rest := f.envTok name :: f.nl0Tok ::
      it.keyTok :: a ::
      (K ++ (r.flatMap Item.toks ++ [f.endTok, f.nl1Tok, f.eofTok])) } := by
    have : f.envTok name :: f.nl0Tok ::
        it.keyTok :: a ::
        (K ++ (r.flatMap Item.toks ++ [f.endTok, f.nl1Tok, f.eofTok])) = itemToks f name (it :: r) := by
      simp only [itemToks, List.flatMap_cons, hK, List.cons_append, List.append_assoc]
    rw [this, ← hr]
  rw [hst]
  unfold parseDocument
  simp (config := {zeta := false}) only [bind, StateT.bind, Except.bind, budget_mk]
  extract_lets n doc0 jp5 jp4 jp3 jp2 jp1
  step_simp [Frame.envTok, Frame.nl0Tok, skipWhitespace_stop]
  simp only [jp1]
  step_simp []
  simp only [jp2]
  step_simp [skipWhitespace_newline, pyStrVal_str, Item.keyTok]
  simp only [jp3]
  step_simp [hk]
  rw [parseMetaBlock_no_block (ht := rfl) (hu := by rw [ha]; decide)]
  have h1 : a.line = it.assignPos.1 := by rw [← hpos]
  have h2 : a.col = it.assignPos.2 := by rw [← hpos]
  rw [parserError, h1, h2]

/-! ### when the body loop is silent -/

/-- an item that produces no W_PATTERN_AUTOQUOTE: every zone, every plain line. -/
def Item.plain : Item → Bool
  | .line ln => ln.plain
  | .zone _ => true

theorem Item.warns_eq_nil_iff (it : Item) : it.warns = [] ↔ it.plain = true := by
  cases it with
  | line ln => exact Line.warns_eq_nil_iff ln
  | zone z => simp [Item.warns, Item.plain]

/-- no warnings at all when every item is plain and no key occurs twice (nor is already in the table). -/
theorem itemWarns_eq_nil (kp : KeyPos) (items : List Item)
    (hp : ∀ it ∈ items, it.plain = true) (hnd : (items.map Item.key).Nodup)
    (hkp : ∀ it ∈ items, kp.lookup it.key = none) : itemWarns kp items = [] := by
  induction items generalizing kp with
  | nil => rfl
  | cons it r ih =>
    have h0 : kp.lookup it.key = none := hkp it (List.mem_cons_self ..)
    have htp : trackPure kp it.key it.l = (kp ++ [(it.key, [it.l])], []) := by
      unfold trackPure; rw [h0]
    rw [List.map_cons, List.nodup_cons] at hnd
    rw [itemWarns, htp, (Item.warns_eq_nil_iff it).2 (hp it (List.mem_cons_self ..))]
    simp only [List.nil_append]
    apply ih _ (fun x hx => hp x (List.mem_cons_of_mem _ hx)) hnd.2
    intro x hx
    apply lookup_append_none _ _ _ (hkp x (List.mem_cons_of_mem _ hx))
    have hne : x.key ≠ it.key := fun h => hnd.1 (h ▸ List.mem_map_of_mem hx)
    simp only [List.lookup_cons, List.lookup_nil]
    rw [beq_eq_false_iff_ne.2 hne]

/-- a line-only item list is the flat case: same tokens, same nodes, same warnings. -/
theorem itemWarns_lines (kp : KeyPos) (lines : List Line) : itemWarns kp (lines.map Item.line) = docWarns kp lines := by
  induction lines generalizing kp with
  | nil => rfl
  | cons ln r ih => simp only [List.map_cons, itemWarns, docWarns, Item.warns, Item.key, Item.l, ih]

/-! ### Boolean equality on documents with zones (for closed `decide` checks; `Document` has no `DecidableEq`) -/

/-- scalar values and zones. -/
def valEqZ : Value → Value → Bool
  | .zone c t m, .zone c' t' m' => c == c' && t == t' && m == m'
  | a, b => valEqB a b

def nodeEqZ : Node → Node → Bool
  | .assign k v l c ld tr, .assign k' v' l' c' ld' tr' =>
    k == k' && valEqZ v v' && l == l' && c == c' && ld == ld' && tr == tr'
  | _, _ => false

def nodesEqZ : List Node → List Node → Bool
  | [], [] => true
  | a :: as, b :: bs => nodeEqZ a b && nodesEqZ as bs
  | _, _ => false

def docEqZ (a b : Document) : Bool :=
  a.name == b.name && a.metaKv.isEmpty && b.metaKv.isEmpty && a.hasSeparator == b.hasSeparator &&
  nodesEqZ a.sections b.sections && a.grammarVersion == b.grammarVersion &&
  a.rawFrontmatter == b.rawFrontmatter && a.trailingComments == b.trailingComments

theorem valEqZ_sound {a b : Value} (h : valEqZ a b = true) : a = b := by
  cases a <;> cases b <;> first
    | exact valEqB_sound h
    | (simp only [valEqZ, Bool.and_eq_true, beq_iff_eq] at h; obtain ⟨⟨h1, h2⟩, h3⟩ := h; rw [h1, h2, h3])

theorem nodeEqZ_sound {a b : Node} (h : nodeEqZ a b = true) : a = b := by
  cases a <;> cases b <;> simp only [nodeEqZ, Bool.and_eq_true, beq_iff_eq, Bool.false_eq_true] at h
  obtain ⟨⟨⟨⟨⟨h1, h2⟩, h3⟩, h4⟩, h5⟩, h6⟩ := h
  rw [h1, valEqZ_sound h2, h3, h4, h5, h6]

theorem nodesEqZ_sound : ∀ {a b : List Node}, nodesEqZ a b = true → a = b
  | [], [], _ => rfl
  | [], _ :: _, h => by simp [nodesEqZ] at h
  | _ :: _, [], h => by simp [nodesEqZ] at h
  | a :: as, b :: bs, h => by
    simp only [nodesEqZ, Bool.and_eq_true] at h
    rw [nodeEqZ_sound h.1, nodesEqZ_sound h.2]

theorem docEqZ_sound {a b : Document} (h : docEqZ a b = true) : a = b := by
  obtain ⟨n, m, hs, s, g, rf, tc⟩ := a
  obtain ⟨n', m', hs', s', g', rf', tc'⟩ := b
  simp only [docEqZ, Bool.and_eq_true, beq_iff_eq, List.isEmpty_iff] at h
  obtain ⟨⟨⟨⟨⟨⟨⟨h1, h2⟩, h3⟩, h4⟩, h5⟩, h6⟩, h7⟩, h8⟩ := h
  rw [h1, h2, h3, h4, nodesEqZ_sound h5, h6, h7, h8]

/-- Boolean test `r = .ok d`. -/
def isOkDocZ (r : Except Exc Document) (d : Document) : Bool :=
  match r with | .ok x => docEqZ x d | .error _ => false

theorem isOkDocZ_sound {r : Except Exc Document} {d : Document} (h : isOkDocZ r d = true) : r = .ok d := by
  cases r with
  | error e => simp [isOkDocZ] at h
  | ok x => rw [docEqZ_sound (a := x) (b := d) h]

end Octave.ZoneParse
