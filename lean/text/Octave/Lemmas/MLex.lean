/-
Lexer half (and the emitter) of the MASTER document class `M`: the structure of the unified class `D` (`Lemmas/DLex`: META block,
lines / blocks / sections, leading comment lines on every node, a trailing comment on assignment lines, the document's trailing
comments) with the values of the unified class `U` (`Lemmas/ULex`: scalars, LISTS of scalars, operator EXPRESSIONS) and, as a fourth kind of
value, NUMBER lexemes of ANY representable spelling (`MValue.num s sc`: `s` is a full match of the NUMBER pattern
`-?\\d+\\.?\\d*(?:[eE][+-]?\\d+)?`, representable — an int lexeme of at most 4300 digits, a float lexeme that does not overflow —,
and `sc = C13.numScalar env s` is the scalar it denotes: `int(s)` or the float `repr(float(s))`; `C13.step_numParts`).  The
emitter writes a float as its `repr`: the CANONICAL spellings are the float lexemes that are their own `repr`
(`mlineEmitOK`: `sc = .float s s`, i.e. `env.floatRepr s = s`).

* content: `MValue := u (v : UValue) | num (s : Str) (sc : FlatParse.Scalar)`, `MNode := line key (v : MValue) lead trail | block key children lead | sect id key children lead`; META fields are
  scalar-valued `FLine`s; the text is the CANONICAL one (what the emitter writes): the list layout `UValue.canonSp d` at the
  node's depth, Unicode operators, `§`, the trailing comment ` // text` after the value — after the closing `]` of a list,
  also when the list is laid out one item per line;
* `lex_mvalue` (a value followed by a line end OR by the blank before a trailing comment: `U.lex_uvalue`, `CommentLex.step_scalar_sp`,
  `ListDoc.lex_inline`, `U.lex_cmulti`, `run_expr_sp`), `lex_mline` (INDENT? IDENTIFIER ASSIGN value COMMENT? NEWLINE), and ONE mutual
  induction `lex_mnode` / `lex_mforest` (comment lines by `run_lead`, block headers by `run_header`, section headers by
  `run_sheader`); `mforest_fine` (every physical line is fence-free and tab-free); `tokenize_mdoc`: the whole text;
* the emitter: `emitNode_mline` (leading comments and trailing comment lifted over `U.emitNode_uline`), `emitNode_m` /
  `emitChildren_m` / `emitTop_m`, `emit_mdoc_matches`, `emit_mDoc`: exactly `mDocText`, whatever positions the AST carries.
-/
import Octave.Lemmas.ULex
import Octave.Lemmas.DLex
import Octave.Lemmas.NumberLex
import Octave.Lemmas.C13Reader
set_option linter.unusedSimpArgs false
set_option linter.unusedVariables false
namespace Octave.M
open Octave Lexer Scan Emitter Spell
open Octave.ListDoc (At Lexes toksReps tokReps toksReps_append toksReps_cons tLb tRb tComma indToks spacesL inlineText inlineTail
  inlineToks lex_inline lex_item lex_nl lex_comma lex_lb lex_rb lex_indent lex_itemLine lex_ident lex_assign itemTerm_nl ItemTerm
  scalar_tokReps)
open Octave.Expr (Expr OpSp OpEnv run_expr EVal tailToksRev tailRepsRev run_tail TermX termX_opText step_operand tailSpell wordOK_ne_nil)
open Octave.U (UValue ULay VSp ULexes ulexes_of_adv ulexes_of_advL lex_uvalue lex_uindent lex_cmulti cmultiText cmultiTail
  cmultiToks)

/-! ### values -/

/-- the value of a line: a value of the unified class `U` (scalar, list of scalars, operator expression) or a NUMBER written
with the lexeme `s`, denoting the scalar `sc` (an `int`, or a float carried — as in the model's AST — as its `repr` text). -/
inductive MValue where
  | u (v : UValue)
  | num (s : Str) (sc : FlatParse.Scalar)
  deriving Repr, DecidableEq

/-- `UValue.OK`; a NUMBER lexeme is a full match of the lexer's NUMBER pattern (`C13.pyNumberFull`), is representable
(`C13.Representable`: an int lexeme has at most 4300 digits, a float lexeme does not overflow to `inf`), and `sc` is what it
denotes (`C13.numScalar env s`: `int(s)` without `.`/`e`/`E`, else `repr(float(s))`, asked of `Env`). -/
def MValue.OK (env : Env) : MValue → Prop
  | .u v => v.OK
  | .num s sc => C13.pyNumberFull s = true ∧ C13.Representable env s ∧ sc = C13.numScalar env s

def MValue.isExpr : MValue → Bool
  | .u v => v.isExpr
  | .num _ _ => false

def MValue.canonSp (d : Nat) : MValue → VSp
  | .u v => v.canonSp d
  | .num _ _ => {}

def MValue.text (sp : VSp) : MValue → Str
  | .u v => v.text sp
  | .num s _ => s

def MValue.toks (sp : VSp) (l c : Nat) : MValue → List Token
  | .u v => v.toks sp l c
  | .num _ sc => [sc.tok l c]

def MValue.reps (sp : VSp) (l c : Nat) : MValue → List Repair
  | .u v => v.reps sp l c
  | .num _ _ => []

def MValue.height (sp : VSp) : MValue → Nat
  | .u v => v.height sp
  | .num _ _ => 0

def MValue.endCol (sp : VSp) (c : Nat) : MValue → Nat
  | .u v => v.endCol sp c
  | .num s _ => c + s.length

/-- the AST value: `int(s)`, or `Value.float (repr(float(s)))` (the model carries a float as its `repr` text). -/
def MValue.value : MValue → Value
  | .u v => v.value
  | .num _ sc => sc.val

/-- receipts of a line (reading order): the notes of the key, then those of the value. -/
def mlineReps (key : Str) (v : MValue) (d l : Nat) : List Repair :=
  identifierRepairs key l (1 + 2 * d) ++ v.reps (v.canonSp d) l (1 + 2 * d + key.length + 2)

/-! ### content -/

/-- content of a document body: a `KEY::value` line (scalar, list of scalars, operator expression) with leading comment lines
and an optional trailing comment; a `KEY:` block and a `§ID::NAME` section with leading comment lines and children. -/
inductive MNode where
  | line (key : Str) (v : MValue) (lead : List Str) (trail : Option Str)
  | block (key : Str) (children : List MNode) (lead : List Str)
  | sect (id : SecId) (key : Str) (children : List MNode) (lead : List Str)
  deriving Repr

mutual
/-- the lexer's conditions: keys / names identifier-shaped without reserved prefix, `UValue.OK`, `SecId.OK`, every comment
`CommentOK` (strip-stable, no line break, no tab; the empty comment allowed). -/
def MNode.OK (env : Env) : MNode → Prop
  | .line key v lead trail =>
    isIdentifierText key = true ∧ hasReservedPrefix key = false ∧ v.OK env ∧ (∀ c ∈ lead, CommentOK env c) ∧ TrailOK env trail
  | .block key cs lead =>
    isIdentifierText key = true ∧ hasReservedPrefix key = false ∧ (∀ c ∈ lead, CommentOK env c) ∧ mforestOK env cs
  | .sect id key cs lead =>
    id.OK ∧ isIdentifierText key = true ∧ hasReservedPrefix key = false ∧ (∀ c ∈ lead, CommentOK env c) ∧ mforestOK env cs
def mforestOK (env : Env) : List MNode → Prop
  | [] => True
  | n :: ns => n.OK env ∧ mforestOK env ns
end

mutual
def MNode.hasExpr : MNode → Bool
  | .line _ v _ _ => v.isExpr
  | .block _ cs _ => mforestHasExpr cs
  | .sect _ _ cs _ => mforestHasExpr cs
def mforestHasExpr : List MNode → Bool
  | [] => false
  | n :: ns => n.hasExpr || mforestHasExpr ns
end

/-- text of the line `KEY::value[ // trail]` at depth `d`, without indentation and without the final line end (a multi-line
list holds line breaks). -/
def mlineBody (key : Str) (v : MValue) (trail : Option Str) (d : Nat) : Str :=
  key ++ (':' :: ':' :: (v.text (v.canonSp d) ++ trailText trail))

mutual
/-- canonical text of a node at depth `d` (with its line ends): the leading comments, then the node. -/
def MNode.text (d : Nat) : MNode → Str
  | .line key v lead trail => leadText d lead ++ (indentStr d ++ (mlineBody key v trail d ++ ['\n']))
  | .block key cs lead => leadText d lead ++ (indentStr d ++ (key ++ ':' :: '\n' :: mforestText (d + 1) cs))
  | .sect id key cs lead => leadText d lead ++ (indentStr d ++ (sheaderText false id key ++ '\n' :: mforestText (d + 1) cs))
def mforestText (d : Nat) : List MNode → Str
  | [] => []
  | n :: ns => n.text d ++ mforestText d ns
end

mutual
/-- number of physical text lines of a node (comment lines and the lines of a multi-line list included). -/
def MNode.nlines (d : Nat) : MNode → Nat
  | .line _ v lead _ => lead.length + (1 + v.height (v.canonSp d))
  | .block _ cs lead => lead.length + 1 + mforestNLines (d + 1) cs
  | .sect _ _ cs lead => lead.length + 1 + mforestNLines (d + 1) cs
def mforestNLines (d : Nat) : List MNode → Nat
  | [] => 0
  | n :: ns => n.nlines d + mforestNLines d ns
end

/-- tokens of the line `KEY::value[ // trail]` at depth `d` whose first physical line is line `l` (reading order): the trailing
COMMENT sits one column after the end of the value — after the closing bracket of a list — on the value's LAST line. -/
def mlineToks (key : Str) (v : MValue) (trail : Option Str) (d l : Nat) : List Token :=
  indentToks d l ++ (tIdent key l (1 + 2 * d) :: tAssign l (1 + 2 * d + key.length) ::
    (v.toks (v.canonSp d) l (1 + 2 * d + key.length + 2) ++
      (trailToksRev (l + v.height (v.canonSp d)) (v.endCol (v.canonSp d) (1 + 2 * d + key.length + 2)) trail ++
        [tNewline (l + v.height (v.canonSp d))
          (v.endCol (v.canonSp d) (1 + 2 * d + key.length + 2) + (trailText trail).length)])))

mutual
/-- tokens of a node at depth `d` whose first line (its first leading comment, if any) is text line `l`, in reading order. -/
def MNode.toks (d l : Nat) : MNode → List Token
  | .line key v lead trail => leadToks d l lead ++ mlineToks key v trail d (l + lead.length)
  | .block key cs lead =>
    leadToks d l lead ++ (headerToks key d (l + lead.length) ++ mforestToks (d + 1) (l + lead.length + 1) cs)
  | .sect id key cs lead =>
    leadToks d l lead ++ (sheaderToks false id key d (l + lead.length) ++ mforestToks (d + 1) (l + lead.length + 1) cs)
def mforestToks (d l : Nat) : List MNode → List Token
  | [] => []
  | n :: ns => n.toks d l ++ mforestToks d (l + n.nlines d) ns
end

mutual
/-- receipts in reading order (identifier notes only: comments, `§`, canonical operators produce none). -/
def MNode.reps (d l : Nat) : MNode → List Repair
  | .line key v lead _ => mlineReps key v d (l + lead.length)
  | .block key cs lead => identifierRepairs key (l + lead.length) (1 + 2 * d) ++ mforestReps (d + 1) (l + lead.length + 1) cs
  | .sect id key cs lead => (sheaderRepsRev false id key d (l + lead.length)).reverse ++ mforestReps (d + 1) (l + lead.length + 1) cs
def mforestReps (d l : Nat) : List MNode → List Repair
  | [] => []
  | n :: ns => n.reps d l ++ mforestReps d (l + n.nlines d) ns
end

/-! ### values followed by a line end or by the blank before a trailing comment -/

/-- **one expression value** after `::`, before a blank. -/
theorem run_expr_sp (env : Env) (he : OpEnv env) (lenient : Bool) (st : LState) (e : Expr) (sps : List OpSp) (rest : Str)
    (hr : Ready st) (hc : 2 ≤ st.col) (hok : e.OK) :
    ∃ n st' p, Run env lenient n st (e.spell sps ++ ' ' :: rest) st' (' ' :: rest) ∧
      Adv st st' ((EVal.ex e).toksRev st.line st.col sps) ((EVal.ex e).repsRev st.line st.col sps) 0
        (st.col + (e.spell sps).length) p := by
  obtain ⟨hh, ht, hne⟩ := hok
  let R1 := tailSpell e.tail sps ++ ' ' :: rest
  have hR1 : TermX env R1 := by
    cases htl : e.tail with
    | nil => exact absurd htl hne
    | cons q r =>
      obtain ⟨o, w⟩ := q
      simp only [R1, htl, tailSpell, List.append_assoc]
      exact termX_opText env he o _ _
  obtain ⟨s1, e1, a1⟩ := step_operand env lenient st e.head R1 hr hh.1 hh.2 hR1
  have c1 : s1.col = st.col + e.head.length := a1.col
  have l1 : s1.line = st.line := by rw [a1.line]; rfl
  obtain ⟨n2, s2, p2, r2, a2⟩ := run_tail env he lenient e.tail sps s1 (' ' :: rest) a1.ready (by rw [c1]; omega) ht
    (Or.inl (termOK_space env rest))
  have hne1 : e.head ++ R1 ≠ [] := by simp [wordOK_ne_nil hh]
  have run := Run.trans (Run.step1 e1 hne1) r2
  have hshape : e.spell sps ++ ' ' :: rest = e.head ++ R1 := by simp [Expr.spell, R1, List.append_assoc]
  refine ⟨_, s2, p2, by rw [hshape]; exact run, ?_⟩
  refine ⟨a2.ready, ?_, ?_, ?_, ?_, ?_, a2.prev⟩
  · rw [a2.toks, a1.toks, l1, c1]; simp [EVal.toksRev]
  · rw [a2.repairs, a1.repairs, l1, c1]; simp [EVal.repsRev]
  · rw [a2.stack, a1.stack]
  · rw [a2.line, l1]
  · rw [a2.col, c1]; simp [Expr.spell]; omega

/-- **the value of a line**, right after `::`, followed by the blank before a trailing comment — the three kinds. -/
theorem lex_uvalue_sp (env : Env) (lenient : Bool) (v : UValue) (sp : VSp) (st : LState) (rest : Str) (l c : Nat)
    (stk : List (Nat × Nat)) (h : At st l c stk) (hp : st.prev = some ':') (hc : 2 ≤ c) (hv : v.OK)
    (he : v.isExpr = true → OpEnv env) :
    ∃ st', ULexes env lenient st (v.text sp ++ ' ' :: rest) st' (' ' :: rest) (v.toks sp l c) (v.reps sp l c) ∧
      At st' (l + v.height sp) (v.endCol sp c) stk := by
  cases v with
  | scalar s =>
    obtain ⟨s1, p1, e1, a1⟩ := step_scalar_sp env lenient st s rest h.ready hp hv
    rw [h.line, h.col] at a1
    have hne : s.text ++ ' ' :: rest ≠ [] := by simp
    have := ulexes_of_adv (Run.step1 e1 hne) a1 h
    refine ⟨s1, ?_, this.2.1⟩
    simpa [UValue.text, UValue.toks, UValue.reps, toksReps, scalar_tokReps] using this.1
  | list items =>
    obtain ⟨lay, ops⟩ := sp
    cases lay with
    | inline =>
      obtain ⟨s1, x1, a1⟩ := lex_inline env lenient items st (' ' :: rest) l c stk h hv
      exact ⟨s1, ULexes.of_lexes x1, a1⟩
    | multi ind cind =>
      obtain ⟨s1, x1, a1⟩ := lex_cmulti env lenient ind cind items st (' ' :: rest) l c stk h hv
      exact ⟨s1, ULexes.of_lexes x1, a1⟩
  | expr e =>
    obtain ⟨n, s1, p1, r1, a1⟩ := run_expr_sp env (he rfl) lenient st e sp.ops rest h.ready (by rw [h.col]; exact hc) hv
    rw [h.line, h.col] at a1
    have := ulexes_of_adv r1 a1 h
    refine ⟨s1, ?_, this.2.1⟩
    simpa [UValue.text, UValue.toks, UValue.reps, EVal.toksRev, EVal.repsRev] using this.1

theorem uendCol_ge (v : UValue) (sp : VSp) (c : Nat) (hc : 2 ≤ c) : 2 ≤ v.endCol sp c := by
  cases v with
  | scalar s => simp only [UValue.endCol]; omega
  | list items =>
    obtain ⟨lay, ops⟩ := sp
    cases lay <;> simp only [UValue.endCol] <;> omega
  | expr e => simp only [UValue.endCol]; omega

theorem endCol_ge (v : MValue) (sp : VSp) (c : Nat) (hc : 2 ≤ c) : 2 ≤ v.endCol sp c := by
  cases v with
  | u v => exact uendCol_ge v sp c hc
  | num s sc => simp only [MValue.endCol]; omega

/-- **the value of a line**, right after `::`, followed by a line end (`sp = false`) or by the blank before a trailing comment
(`sp = true`) — the four kinds. -/
theorem lex_mvalue (env : Env) (lenient : Bool) (v : MValue) (sp : VSp) (st : LState) (T : Str) (l c : Nat)
    (stk : List (Nat × Nat)) (h : At st l c stk) (hp : st.prev = some ':') (hc : 2 ≤ c) (hv : v.OK env)
    (he : v.isExpr = true → OpEnv env) (hT : (∃ r, T = '\n' :: r) ∨ (∃ r, T = ' ' :: r)) :
    ∃ st', ULexes env lenient st (v.text sp ++ T) st' T (v.toks sp l c) (v.reps sp l c) ∧
      At st' (l + v.height sp) (v.endCol sp c) stk := by
  cases v with
  | u v =>
    rcases hT with ⟨r, rfl⟩ | ⟨r, rfl⟩
    · exact lex_uvalue env lenient v sp st r l c stk h hp hc hv he
    · exact lex_uvalue_sp env lenient v sp st r l c stk h hp hc hv he
  | num s sc =>
    have hterm : FloatTerm env T := by
      rcases hT with ⟨q, rfl⟩ | ⟨q, rfl⟩
      · exact floatTerm_nl env q
      · exact floatTerm_space env q
    obtain ⟨hfull, hrep, rfl⟩ := hv
    obtain ⟨p, hp, rfl⟩ := C13.pyNumberFull_shape s hfull
    obtain ⟨s1, e1, a1⟩ := C13.step_numParts env lenient st p hp T h.ready hterm hrep
    rw [h.line, h.col] at a1
    have hne : p.text ++ T ≠ [] := by simp [p.ne_nil hp]
    have := ulexes_of_adv (Run.step1 e1 hne) a1 h
    refine ⟨s1, ?_, this.2.1⟩
    simpa [MValue.text, MValue.toks, MValue.reps] using this.1

/-- the trailing comment (if any) and the line end after a value. -/
theorem lex_trail_nl (env : Env) (lenient : Bool) (trail : Option Str) (st : LState) (rest : Str) (l c : Nat)
    (stk : List (Nat × Nat)) (h : At st l c stk) (hc : 2 ≤ c) (ht : TrailOK env trail) :
    ∃ st', ULexes env lenient st (trailText trail ++ '\n' :: rest) st' rest
        (trailToksRev l c trail ++ [tNewline l (c + (trailText trail).length)]) [] ∧ At st' (l + 1) 1 stk := by
  cases trail with
  | none =>
    obtain ⟨s1, x1, a1, _⟩ := lex_nl env lenient st rest l c stk h
    refine ⟨s1, ?_, a1⟩
    have := ULexes.of_lexes x1
    simpa [trailText, trailToksRev, toksReps, tokReps, tNewline] using this
  | some cm =>
    have hcok : CommentOK env cm := ht
    obtain ⟨s1, e1, a1⟩ := step_inner_space env lenient st ('/' :: '/' :: (cmtBody cm ++ '\n' :: rest)) h.ready (by rw [h.col]; omega)
    rw [h.col] at a1
    obtain ⟨x1, b1, _⟩ := ulexes_of_adv (Run.one e1) a1 h
    obtain ⟨s2, p2, e2, a2⟩ := step_comment env lenient s1 (cmtBody cm) ('\n' :: rest) b1.ready
      (fun x hx => (cmtBody_clean cm hcok.2 x hx).1) (by simp)
    rw [b1.line, b1.col, strip_cmtBody env cm hcok.1] at a2
    obtain ⟨x2, b2, _⟩ := ulexes_of_adv (Run.one e2) a2 b1
    obtain ⟨s3, x3, a3, _⟩ := lex_nl env lenient s2 rest _ _ stk b2
    refine ⟨s3, ?_, a3.cast (by omega) rfl⟩
    have := (x1.trans x2).trans (ULexes.of_lexes x3)
    have e : ∀ a b, toksReps [tNewline a b] = [] := fun _ _ => rfl
    rw [e] at this
    have hlen : c + ((cmtBody cm).length + 1 + 1 + 1) = c + 1 + (2 + (cmtBody cm).length) := by omega
    simpa [trailText, trailToksRev, hlen, List.append_assoc] using this

/-- **one line `KEY::value[ // trail]` at depth `d`** in the canonical layout, whatever the kind of value. -/
theorem lex_mline (env : Env) (lenient : Bool) (key : Str) (v : MValue) (trail : Option Str) (d : Nat) (st : LState)
    (rest : Str) (l : Nat) (stk : List (Nat × Nat)) (h : At st l 1 stk)
    (hk1 : isIdentifierText key = true) (hk2 : hasReservedPrefix key = false) (hv : v.OK env) (he : v.isExpr = true → OpEnv env)
    (ht : TrailOK env trail) :
    ∃ st', ULexes env lenient st (indentStr d ++ (mlineBody key v trail d ++ '\n' :: rest)) st' rest
        (mlineToks key v trail d l) (mlineReps key v d l) ∧ At st' (l + (1 + v.height (v.canonSp d))) 1 stk := by
  obtain ⟨kc, kt, hkey, h1, h2, _⟩ := identText_cons key hk1
  let sp := v.canonSp d
  let T : Str := trailText trail ++ '\n' :: rest
  have hbody : mlineBody key v trail d ++ '\n' :: rest = key ++ (':' :: ':' :: (v.text sp ++ T)) := by
    simp [mlineBody, sp, T, List.append_assoc]
  have hshape : key ++ (':' :: ':' :: (v.text sp ++ T)) = kc :: (kt ++ (':' :: ':' :: (v.text sp ++ T))) := by
    rw [hkey]; rfl
  obtain ⟨s1, x1, a1⟩ := lex_uindent env lenient st d kc (kt ++ (':' :: ':' :: (v.text sp ++ T))) l stk h h1 h2
  rw [← hshape] at x1
  obtain ⟨s2, x2, a2⟩ := lex_ident env lenient s1 key (':' :: ':' :: (v.text sp ++ T)) l (1 + 2 * d) stk a1 hk1 hk2 (termOK_colon env _)
  obtain ⟨s3, x3, a3, p3⟩ := lex_assign env lenient s2 (v.text sp ++ T) l (1 + 2 * d + key.length) stk a2
  have hval : ∃ s4, ULexes env lenient s3 (v.text sp ++ T) s4 T (v.toks sp l (1 + 2 * d + key.length + 2))
      (v.reps sp l (1 + 2 * d + key.length + 2)) ∧ At s4 (l + v.height sp) (v.endCol sp (1 + 2 * d + key.length + 2)) stk := by
    cases trail with
    | none => exact lex_mvalue env lenient v sp s3 _ l _ stk a3 p3 (by omega) hv he (Or.inl ⟨rest, rfl⟩)
    | some cm => exact lex_mvalue env lenient v sp s3 _ l _ stk a3 p3 (by omega) hv he (Or.inr ⟨_, rfl⟩)
  obtain ⟨s4, x4, a4⟩ := hval
  obtain ⟨s5, x5, a5⟩ := lex_trail_nl env lenient trail s4 rest _ _ stk a4 (endCol_ge v sp _ (by omega)) ht
  refine ⟨s5, ?_, a5.cast (by simp only [sp]; omega) rfl⟩
  have := (((x1.trans (ULexes.of_lexes x2)).trans (ULexes.of_lexes x3)).trans x4).trans x5
  have e1 : toksReps [tAssign l (1 + 2 * d + key.length)] = [] := rfl
  rw [U.toksReps_ident, e1] at this
  rw [hbody]
  simpa [mlineToks, mlineReps, sp, List.append_assoc] using this

/-! ### the forest -/

mutual
/-- **one node at depth `d`** with its comments (a line with any value, or a block / a section with all its descendants). -/
theorem lex_mnode (env : Env) (lenient : Bool) (hsec : env.isDigit '§' = false) :
    ∀ (n : MNode) (d : Nat) (st : LState) (rest : Str) (l : Nat) (stk : List (Nat × Nat)), At st l 1 stk → n.OK env →
    (n.hasExpr = true → OpEnv env) →
    ∃ st', ULexes env lenient st (n.text d ++ rest) st' rest (n.toks d l) (n.reps d l) ∧ At st' (l + n.nlines d) 1 stk
  | .line key v lead trail, d, st, rest, l, stk, h, hok, he => by
    simp only [MNode.OK] at hok
    obtain ⟨s1, r1, a1⟩ := run_lead env lenient d lead st (indentStr d ++ (mlineBody key v trail d ++ '\n' :: rest))
      h.ready h.col hok.2.2.2.1
    rw [h.line] at a1
    obtain ⟨x1, b1⟩ := ulexes_of_advL r1 a1 h
    rw [leadToksRev_reverse] at x1
    obtain ⟨s2, x2, a2⟩ := lex_mline env lenient key v trail d s1 rest (l + lead.length) stk b1 hok.1 hok.2.1 hok.2.2.1 he hok.2.2.2.2
    refine ⟨s2, ?_, a2.cast (by simp only [MNode.nlines]; omega) rfl⟩
    have := x1.trans x2
    simpa [MNode.text, MNode.toks, MNode.reps, List.append_assoc] using this
  | .block key cs lead, d, st, rest, l, stk, h, hok, he => by
    simp only [MNode.OK] at hok
    obtain ⟨s1, r1, a1⟩ := run_lead env lenient d lead st (indentStr d ++ (key ++ ':' :: '\n' :: (mforestText (d + 1) cs ++ rest)))
      h.ready h.col hok.2.2.1
    rw [h.line] at a1
    obtain ⟨x1, b1⟩ := ulexes_of_advL r1 a1 h
    rw [leadToksRev_reverse] at x1
    obtain ⟨s2, r2, a2⟩ := run_header env lenient s1 key d (mforestText (d + 1) cs ++ rest) b1.ready b1.col hok.1 hok.2.1
    rw [b1.line] at a2
    obtain ⟨x2, b2⟩ := ulexes_of_advL r2 a2 b1
    rw [U.headerToksRev_reverse, List.reverse_reverse] at x2
    obtain ⟨s3, x3, a3⟩ := lex_mforest env lenient hsec cs (d + 1) s2 rest (l + lead.length + 1) stk b2 hok.2.2.2
      (fun hh => he (by simpa [MNode.hasExpr] using hh))
    refine ⟨s3, ?_, a3.cast (by simp only [MNode.nlines]; omega) rfl⟩
    have := (x1.trans x2).trans x3
    simpa [MNode.text, MNode.toks, MNode.reps, List.append_assoc] using this
  | .sect id key cs lead, d, st, rest, l, stk, h, hok, he => by
    simp only [MNode.OK] at hok
    obtain ⟨s1, r1, a1⟩ := run_lead env lenient d lead st
      (indentStr d ++ (sheaderText false id key ++ '\n' :: (mforestText (d + 1) cs ++ rest))) h.ready h.col hok.2.2.2.1
    rw [h.line] at a1
    obtain ⟨x1, b1⟩ := ulexes_of_advL r1 a1 h
    rw [leadToksRev_reverse] at x1
    obtain ⟨s2, r2, a2⟩ := run_sheader env lenient s1 false id key d (mforestText (d + 1) cs ++ rest) b1.ready b1.col
      (fun _ => hsec) hok.1 hok.2.1 hok.2.2.1
    rw [b1.line] at a2
    obtain ⟨x2, b2⟩ := ulexes_of_advL r2 a2 b1
    rw [U.sheaderToksRev_reverse] at x2
    obtain ⟨s3, x3, a3⟩ := lex_mforest env lenient hsec cs (d + 1) s2 rest (l + lead.length + 1) stk b2 hok.2.2.2.2
      (fun hh => he (by simpa [MNode.hasExpr] using hh))
    refine ⟨s3, ?_, a3.cast (by simp only [MNode.nlines]; omega) rfl⟩
    have := (x1.trans x2).trans x3
    simpa [MNode.text, MNode.toks, MNode.reps, List.append_assoc] using this
/-- **a list of sibling nodes at depth `d`**, any depth and width below, any number of comments. -/
theorem lex_mforest (env : Env) (lenient : Bool) (hsec : env.isDigit '§' = false) :
    ∀ (ns : List MNode) (d : Nat) (st : LState) (rest : Str) (l : Nat) (stk : List (Nat × Nat)), At st l 1 stk → mforestOK env ns →
    (mforestHasExpr ns = true → OpEnv env) →
    ∃ st', ULexes env lenient st (mforestText d ns ++ rest) st' rest (mforestToks d l ns) (mforestReps d l ns) ∧
      At st' (l + mforestNLines d ns) 1 stk
  | [], d, st, rest, l, stk, h, _, _ =>
    ⟨st, by simpa [mforestText, mforestToks, mforestReps] using ULexes.refl env lenient st rest, h.cast (by simp [mforestNLines]) rfl⟩
  | n :: ns, d, st, rest, l, stk, h, hok, he => by
    simp only [mforestOK] at hok
    obtain ⟨s1, x1, a1⟩ := lex_mnode env lenient hsec n d st (mforestText d ns ++ rest) l stk h hok.1
      (fun hh => he (by simp [mforestHasExpr, hh]))
    obtain ⟨s2, x2, a2⟩ := lex_mforest env lenient hsec ns d s1 rest (l + n.nlines d) stk a1 hok.2
      (fun hh => he (by simp [mforestHasExpr, hh]))
    refine ⟨s2, ?_, a2.cast (by simp only [mforestNLines]; omega) rfl⟩
    have := x1.trans x2
    simpa [mforestText, mforestToks, mforestReps, List.append_assoc] using this
end


/-! ### every physical line of the text is fence-free and tab-free -/

open Octave.U (Safe fine_line safe_close safe_item safe_start spacesL_clean espell_clean' fine_row)
open Octave.ListDoc (inlineText_clean)

theorem fine_cmultiTail_sfx (ind cind : Nat) (r : List FScalar) (sfx Y : Str) (hr : ∀ x ∈ r, x.OK) (hs : Clean sfx)
    (hY : AllLines LineFine Y) :
    ∀ (pre : Str), Safe pre → AllLines LineFine (pre ++ (cmultiTail ind cind r ++ (sfx ++ '\n' :: Y))) := by
  induction r with
  | nil =>
    intro pre hpre
    have := fine_line pre _ hpre (fine_line _ Y ((safe_close cind).append hs) hY)
    simpa [cmultiTail, List.append_assoc] using this
  | cons x r ih =>
    intro pre hpre
    have h2 := ih (fun y hy => hr y (by simp [hy])) (spacesL ind ++ x.text) (safe_item ind x (hr x (by simp)))
    have := fine_line (pre ++ [',']) _ (hpre.append (clean_lit [','] (by decide))) h2
    simpa [cmultiTail, List.append_assoc] using this

theorem fine_cmulti_sfx (ind cind : Nat) (items : List FScalar) (sfx Y : Str) (hr : ∀ x ∈ items, x.OK) (hs : Clean sfx)
    (hY : AllLines LineFine Y) (pre : Str) (hpre : Safe pre) :
    AllLines LineFine (pre ++ (cmultiText ind cind items ++ (sfx ++ '\n' :: Y))) := by
  cases items with
  | nil =>
    have := fine_line (pre ++ ['[']) _ (hpre.append (clean_lit ['['] (by decide))) (fine_line _ Y ((safe_close cind).append hs) hY)
    simpa [cmultiText, List.append_assoc] using this
  | cons x r =>
    have h2 := fine_cmultiTail_sfx ind cind r sfx Y (fun y hy => hr y (by simp [hy])) hs hY (spacesL ind ++ x.text)
      (safe_item ind x (hr x (by simp)))
    have := fine_line (pre ++ ['[']) _ (hpre.append (clean_lit ['['] (by decide))) h2
    simpa [cmultiText, List.append_assoc] using this

/-- the value of a line behind a safe prefix, a clean suffix (the trailing comment), the line end, fence-free lines. -/
theorem fine_uvalue_sfx (v : UValue) (sp : VSp) (pre sfx Y : Str) (hv : v.OK) (hpre : Safe pre) (hs : Clean sfx)
    (hY : AllLines LineFine Y) : AllLines LineFine (pre ++ (v.text sp ++ (sfx ++ '\n' :: Y))) := by
  cases v with
  | scalar s =>
    have := fine_line (pre ++ s.text ++ sfx) Y ((hpre.append (scalar_clean s hv)).append hs) hY
    simpa [UValue.text, List.append_assoc] using this
  | list items =>
    obtain ⟨lay, ops⟩ := sp
    cases lay with
    | inline =>
      have := fine_line (pre ++ inlineText items ++ sfx) Y ((hpre.append (inlineText_clean items hv)).append hs) hY
      simpa [UValue.text, List.append_assoc] using this
    | multi ind cind => exact fine_cmulti_sfx ind cind items sfx Y hv hs hY pre hpre
  | expr e =>
    have := fine_line (pre ++ e.spell sp.ops ++ sfx) Y ((hpre.append (espell_clean' e sp.ops hv)).append hs) hY
    simpa [UValue.text, List.append_assoc] using this

theorem fine_value_sfx (env : Env) (v : MValue) (sp : VSp) (pre sfx Y : Str) (hv : v.OK env) (hpre : Safe pre) (hs : Clean sfx)
    (hY : AllLines LineFine Y) : AllLines LineFine (pre ++ (v.text sp ++ (sfx ++ '\n' :: Y))) := by
  cases v with
  | u v => exact fine_uvalue_sfx v sp pre sfx Y hv hpre hs hY
  | num s sc =>
    obtain ⟨p, hp, rfl⟩ := C13.pyNumberFull_shape s hv.1
    have := fine_line (pre ++ p.text ++ sfx) Y ((hpre.append (p.clean hp)).append hs) hY
    simpa [MValue.text, List.append_assoc] using this

theorem fine_lead (env : Env) (d : Nat) : ∀ (cs : List Str) (Y : Str), (∀ c ∈ cs, CommentOK env c) → AllLines LineFine Y →
    AllLines LineFine (leadText d cs ++ Y)
  | [], Y, _, hY => by simpa [leadText] using hY
  | c :: cs, Y, h, hY => by
    have hb : BodyOK (cmtText c) := leadRows_ok env d [c] (fun x hx => h x (by simp at hx; simp [hx])) (d, cmtText c) (by simp [leadRows])
    have := fine_row d (cmtText c) _ hb (fine_lead env d cs Y (fun x hx => h x (by simp [hx])) hY)
    simpa [leadText, List.append_assoc] using this

mutual
theorem mnode_fine (env : Env) : ∀ (n : MNode) (d : Nat) (Y : Str), n.OK env → AllLines LineFine Y →
    AllLines LineFine (n.text d ++ Y)
  | .line key v lead trail, d, Y, hok, hY => by
    simp only [MNode.OK] at hok
    obtain ⟨kc, kt, hkey, h1, _, h3⟩ := identText_cons key hok.1
    have hck := identText_clean key hok.1
    have hpre : Safe (indentStr d ++ (key ++ [':', ':'])) := by
      have hc : Clean (kc :: (kt ++ [':', ':'])) := by
        have := Clean.append hck (clean_lit [':', ':'] (by decide))
        rw [hkey] at this; exact this
      have := safe_start (2 * d) kc (kt ++ [':', ':']) h1 h3 hc
      rw [hkey]; exact this
    have h2 := fine_value_sfx env v (v.canonSp d) _ (trailText trail) Y hok.2.2.1 hpre (trailText_clean env trail hok.2.2.2.2) hY
    have := fine_lead env d lead _ hok.2.2.2.1 h2
    simpa [MNode.text, mlineBody, List.append_assoc] using this
  | .block key cs lead, d, Y, hok, hY => by
    simp only [MNode.OK] at hok
    have h2 := fine_row d (key ++ [':']) _ (bodyOK_header key hok.1) (mforest_fine env cs (d + 1) Y hok.2.2.2 hY)
    have := fine_lead env d lead _ hok.2.2.1 h2
    simpa [MNode.text, List.append_assoc] using this
  | .sect id key cs lead, d, Y, hok, hY => by
    simp only [MNode.OK] at hok
    have h2 := fine_row d (sheaderText false id key) _ (bodyOK_sheader false id key hok.1 hok.2.1)
      (mforest_fine env cs (d + 1) Y hok.2.2.2.2 hY)
    have := fine_lead env d lead _ hok.2.2.2.1 h2
    simpa [MNode.text, List.append_assoc] using this
theorem mforest_fine (env : Env) : ∀ (ns : List MNode) (d : Nat) (Y : Str), mforestOK env ns → AllLines LineFine Y →
    AllLines LineFine (mforestText d ns ++ Y)
  | [], d, Y, _, hY => by simpa [mforestText] using hY
  | n :: ns, d, Y, hok, hY => by
    simp only [mforestOK] at hok
    have := mnode_fine env n d _ hok.1 (mforest_fine env ns d Y hok.2 hY)
    simpa [mforestText, List.append_assoc] using this
end

/-! ### the whole document (body forest + the document's trailing comments) -/

/-- canonical text of a document whose body is the forest `nodes`, followed by the document's trailing comments. -/
def docText (name : Str) (nodes : List MNode) (trailing : List Str) : Str :=
  "===".toList ++ name ++ "===".toList ++ '\n' :: (mforestText 0 nodes ++ (leadText 0 trailing ++ ("===END===".toList ++ ['\n'])))

/-- number of physical lines of the body. -/
def docNLines (nodes : List MNode) (trailing : List Str) : Nat := mforestNLines 0 nodes + trailing.length

/-- the tokens before EOF, in reading order. -/
def docToksBody (name : Str) (nodes : List MNode) (trailing : List Str) : List Token :=
  tEnvStart name 1 1 :: tNewline 1 (1 + (name.length + 6)) :: (mforestToks 0 2 nodes ++ (leadToks 0 (mforestNLines 0 nodes + 2) trailing ++
    [tEnvEnd (docNLines nodes trailing + 2) 1, tNewline (docNLines nodes trailing + 2) 10]))

/-- the tokens of the document in reading order, EOF included. -/
def docToks (name : Str) (nodes : List MNode) (trailing : List Str) : List Token :=
  docToksBody name nodes trailing ++ [tEof (docNLines nodes trailing + 3) 1]

theorem doc_fine (env : Env) (name : Str) (nodes : List MNode) (trailing : List Str) (hn : isEnvName name = true)
    (hok : mforestOK env nodes) (htr : ∀ c ∈ trailing, CommentOK env c) : AllLines LineFine (docText name nodes trailing) := by
  have hend : AllLines LineFine ("===END===".toList ++ ['\n']) :=
    allLines_cons LineFine "===END===".toList [] (clean_lit _ (by decide)) ⟨by decide, by decide⟩
      (allLines_nil LineFine ⟨by decide, by decide⟩)
  have henv : LineFine ("===".toList ++ name ++ "===".toList) := by
    have := Spell.envLine_fine name 0 hn
    simpa [Spell.spaces] using this
  exact allLines_cons LineFine _ _ (envLine_clean name hn) henv (mforest_fine env nodes 0 _ hok (fine_lead env 0 trailing _ htr hend))

/-- **the whole document** from the initial state. -/
theorem lex_doc (env : Env) (lenient : Bool) (name : Str) (nodes : List MNode) (trailing : List Str)
    (he : mforestHasExpr nodes = true → OpEnv env) (hsec : env.isDigit '§' = false)
    (hn : isEnvName name = true) (hne : name ≠ "END".toList) (hok : mforestOK env nodes)
    (htr : ∀ c ∈ trailing, CommentOK env c) :
    ∃ st', ULexes env lenient ({ spans := [] } : LState) (docText name nodes trailing) st' [] (docToksBody name nodes trailing)
        (mforestReps 0 2 nodes) ∧ At st' (docNLines nodes trailing + 3) 1 [] := by
  let st0 : LState := { spans := [] }
  let endT : Str := "===END===".toList ++ ['\n']
  obtain ⟨s1, e1, a1⟩ := step_envStart env lenient st0 name ('\n' :: (mforestText 0 nodes ++ (leadText 0 trailing ++ endT))) rfl hn hne
  have h1 : Lexes env lenient st0 (docText name nodes trailing) s1 ('\n' :: (mforestText 0 nodes ++ (leadText 0 trailing ++ endT)))
      [tEnvStart name 1 1] := by
    refine Lexes.step (by simp [docText]) (by simpa [docText, endT] using e1) (by rw [a1.toks]; rfl) (by rw [a1.repairs]; rfl)
  have at1 : At s1 1 (1 + (name.length + 6)) [] := ⟨a1.ready, by rw [a1.line], a1.col, by rw [a1.stack]⟩
  obtain ⟨s2, x2, a2, _⟩ := lex_nl env lenient s1 (mforestText 0 nodes ++ (leadText 0 trailing ++ endT)) _ _ _ at1
  obtain ⟨s3, x3, a3⟩ := lex_mforest env lenient hsec nodes 0 s2 (leadText 0 trailing ++ endT) 2 [] a2 hok he
  obtain ⟨s3', r3', a3'⟩ := run_lead env lenient 0 trailing s3 endT a3.ready a3.col htr
  rw [a3.line] at a3'
  obtain ⟨x3', b3'⟩ := ulexes_of_advL r3' a3' a3
  rw [leadToksRev_reverse] at x3'
  obtain ⟨s4, x4, a4⟩ := ListDoc.lex_envEnd env lenient s3' ['\n'] _ _ _ b3'
  obtain ⟨s5, x5, a5, _⟩ := lex_nl env lenient s4 [] _ _ _ a4
  refine ⟨s5, ?_, a5.cast (by simp only [docNLines]; omega) rfl⟩
  have := (((((ULexes.of_lexes h1).trans (ULexes.of_lexes x2)).trans x3).trans x3').trans (ULexes.of_lexes x4)).trans (ULexes.of_lexes x5)
  have r0 : toksReps [tEnvStart name 1 1] = [] := rfl
  have r1 : ∀ a b, toksReps [tNewline a b] = [] := fun _ _ => rfl
  have r2 : ∀ a b, toksReps [tEnvEnd a b] = [] := fun _ _ => rfl
  rw [r0, r1, r2, r1] at this
  have e1 : 2 + mforestNLines 0 nodes + trailing.length = docNLines nodes trailing + 2 := by simp only [docNLines]; omega
  have e2 : 2 + mforestNLines 0 nodes = mforestNLines 0 nodes + 2 := by omega
  have e3 : mforestNLines 0 nodes + 2 + trailing.length = docNLines nodes trailing + 2 := by simp only [docNLines]; omega
  simpa [docToksBody, e1, e2, e3, List.append_assoc] using this

/-- **The lexer on the canonical text of a master document body**: exactly `docToks`, positions included, both lexer modes; no
receipt other than the (non-normalisation) identifier notes. -/
theorem tokenize_doc (env : Env) (lenient : Bool) (name : Str) (nodes : List MNode) (trailing : List Str)
    (he : mforestHasExpr nodes = true → OpEnv env) (hsec : env.isDigit '§' = false)
    (hn : isEnvName name = true) (hne : name ≠ "END".toList) (hok : mforestOK env nodes)
    (htr : ∀ c ∈ trailing, CommentOK env c)
    (hnfc : ∀ l ∈ splitLines (docText name nodes trailing), env.nfc l = l) :
    tokenize env (docText name nodes trailing) lenient = .ok (docToks name nodes trailing, mforestReps 0 2 nodes) := by
  obtain ⟨st', ⟨n, run, ht, hr⟩, hat⟩ := lex_doc env lenient name nodes trailing he hsec hn hne hok htr
  refine tokenize_of_run env lenient _ _ _ (doc_fine env name nodes trailing hn hok htr) hnfc ⟨n, st', run, ?_, ?_, hat.stack⟩
  · rw [hat.line, hat.col, ht]
    simp [docToks]
  · rw [hr]; simp


/-! ### the emitter -/

open Octave.U (lineEmitOK lineCanon emitNode_uline)
open Octave.D (emitNode_sect_lead)

/-- `emit_assignment` with comments, from `emit_assignment` without: the leading comments go above the line, the trailing
comment behind the value text — behind the closing `]` of a list, also of a multi-line one (`value_str` is ONE string). -/
theorem emitNode_assign_lift (env : Env) (key : Str) (value : Value) (l c d : Nat) (b : Bool) (lead : List Str)
    (trail : Option Str) (X : Str) (h : emitNode env (.assign key value l c [] none) d b = some [X]) :
    emitNode env (.assign key value l c lead trail) d b = some (leadingLines env lead d ++ [X ++ trEmit env trail]) := by
  cases value with
  | zone ct tg mk =>
    exfalso
    simp only [emitNode, emitAssignment, leadingLines, List.map_nil, List.nil_append, fenceLines] at h
    split at h <;> simp at h
  | absent => simp [emitNode] at h
  | null | bool _ | int _ | float _ | str _ | list _ | imap _ | holo _ =>
    simp only [emitNode, emitAssignment, leadingLines, List.map_nil, List.nil_append, List.append_nil] at h ⊢
    cases hv : emitValue _ d with
    | none => rw [hv] at h; simp at h
    | some vs =>
      rw [hv] at h
      simp only [Option.map_some, Option.some.injEq, List.cons.injEq, and_true] at h
      simp only [Option.map_some, trEmit, ← h]
      cases trail <;> simp [List.append_assoc]

/-- when the emitter spells the value the way the canonical text does: `U.lineEmitOK`; a NUMBER lexeme must denote a FLOAT and be
its own `repr` (`sc = .float s s`, i.e. no int lexeme and `env.floatRepr s = s`): the emitter writes `repr`, whatever the
lexeme was (canonical integers are `FScalar.int` values of `UValue.scalar`). -/
def mlineEmitOK (key : Str) : MValue → Prop
  | .u v => lineEmitOK key v
  | .num s sc => sc = .float s s

theorem emitNode_numline (env : Env) (key r : Str) (l c d : Nat) (b : Bool) :
    emitNode env (.assign key (.float r) l c [] none) d b = some [indentStr d ++ (key ++ (':' :: ':' :: r))] := by
  simp [emitNode, emitAssignment, emitValue, forceQuote, leadingLines]

/-- an assignment line of the class with its comments, at any depth, inside or outside a block. -/
theorem emitNode_mline (env : Env) (key : Str) (v : MValue) (lead : List Str) (trail : Option Str) (l c d : Nat) (b : Bool)
    (hok : v.OK env) (h : mlineEmitOK key v) (hl : ∀ c ∈ lead, env.strip c = c) (ht : TrailEmitOK env trail) :
    emitNode env (.assign key v.value l c lead trail) d b
      = some ((leadRows d lead).map rowText ++ [indentStr d ++ mlineBody key v trail d]) := by
  cases v with
  | u v =>
    rw [MValue.value, emitNode_assign_lift env key v.value l c d b lead trail _ (emitNode_uline env key v l c d b hok h),
      leadingLines_eq env d lead hl, trEmit_eq env trail ht]
    simp [lineCanon, mlineBody, MValue.text, MValue.canonSp, List.append_assoc]
  | num s sc =>
    have hsc : sc = .float s s := h
    subst hsc
    rw [MValue.value, FlatParse.Scalar.val,
      emitNode_assign_lift env key (.float s) l c d b lead trail _ (emitNode_numline env key s l c d b),
      leadingLines_eq env d lead hl, trEmit_eq env trail ht]
    simp [mlineBody, MValue.text, List.append_assoc]

mutual
/-- when the emitter writes exactly `MNode.text`: values spelled the emitter's way (`mlineEmitOK`), every comment strip-stable,
section names printed. -/
def MNode.EmitOK (env : Env) : MNode → Prop
  | .line key v lead trail => mlineEmitOK key v ∧ (∀ c ∈ lead, env.strip c = c) ∧ TrailEmitOK env trail
  | .block _ cs lead => (∀ c ∈ lead, env.strip c = c) ∧ mforestEmitOK env cs
  | .sect _ key cs lead => isIdentifierText key = true ∧ (∀ c ∈ lead, env.strip c = c) ∧ mforestEmitOK env cs
def mforestEmitOK (env : Env) : List MNode → Prop
  | [] => True
  | n :: ns => n.EmitOK env ∧ mforestEmitOK env ns
end

mutual
/-- the AST node carries this content — key / id and name, value, children, `leading_comments`, `trailing_comment` —, with ANY
source positions (no block target, no section annotation). -/
def MNode.Matches : MNode → Node → Prop
  | .line key v lead trail, n => ∃ l c, n = .assign key v.value l c lead trail
  | .block key cs lead, n => ∃ children l c, n = .block key children l c lead none ∧ mforestMatches cs children
  | .sect id key cs lead, n => ∃ children l c, n = .sect id.text key none children l c lead ∧ mforestMatches cs children
def mforestMatches : List MNode → List Node → Prop
  | [], ns => ns = []
  | t :: ts, ns => ∃ n ns', ns = n :: ns' ∧ t.Matches n ∧ mforestMatches ts ns'
end

mutual
/-- what the emitter returns for the node at depth `d`: one string per comment line / header / assignment (the string of a line
whose value is a multi-line list holds line breaks). -/
def MNode.rows (d : Nat) : MNode → List Str
  | .line key v lead trail => (leadRows d lead).map rowText ++ [indentStr d ++ mlineBody key v trail d]
  | .block key cs lead => (leadRows d lead).map rowText ++ (indentStr d ++ (key ++ [':'])) :: mforestRows (d + 1) cs
  | .sect id key cs lead => (leadRows d lead).map rowText ++ (indentStr d ++ sheaderText false id key) :: mforestRows (d + 1) cs
def mforestRows (d : Nat) : List MNode → List Str
  | [] => []
  | n :: ns => n.rows d ++ mforestRows d ns
end

mutual
theorem MNode.text_rows : ∀ (n : MNode) (d : Nat), n.text d = unlines (n.rows d)
  | .line key v lead trail, d => by
    simp [MNode.text, MNode.rows, unlines, unlines_append, leadText_rows]
  | .block key cs lead, d => by
    simp [MNode.text, MNode.rows, unlines, unlines_append, leadText_rows, mforestText_rows cs (d + 1)]
  | .sect id key cs lead, d => by
    simp [MNode.text, MNode.rows, unlines, unlines_append, leadText_rows, mforestText_rows cs (d + 1)]
theorem mforestText_rows : ∀ (ns : List MNode) (d : Nat), mforestText d ns = unlines (mforestRows d ns)
  | [], d => rfl
  | n :: ns, d => by
    simp [mforestText, mforestRows, unlines_append, MNode.text_rows n d, mforestText_rows ns d]
end

mutual
theorem emitNode_m (env : Env) : ∀ (t : MNode) (n : Node) (d : Nat) (b : Bool), t.Matches n → t.OK env → t.EmitOK env →
    emitNode env n d b = some (t.rows d)
  | .line key v lead trail, n, d, b, hm, hok, he => by
    simp only [MNode.Matches] at hm
    obtain ⟨l, c, rfl⟩ := hm
    simp only [MNode.OK] at hok
    simp only [MNode.EmitOK] at he
    rw [emitNode_mline env key v lead trail l c d b hok.2.2.1 he.1 he.2.1 he.2.2]
    rfl
  | .block key cs lead, n, d, b, hm, hok, he => by
    simp only [MNode.Matches] at hm
    obtain ⟨children, l, c, rfl, hch⟩ := hm
    simp only [MNode.EmitOK] at he
    simp only [MNode.OK] at hok
    have ih := emitChildren_m env cs children (d + 1) true hch hok.2.2.2 he.2
    simp only [emitNode, ih, Option.map_some, leadingLines_eq env d lead he.1, List.append_nil, MNode.rows,
      List.cons_append, List.append_assoc, List.nil_append]
  | .sect id key cs lead, n, d, b, hm, hok, he => by
    simp only [MNode.Matches] at hm
    obtain ⟨children, l, c, rfl, hch⟩ := hm
    simp only [MNode.EmitOK] at he
    simp only [MNode.OK] at hok
    have ih := emitChildren_m env cs children (d + 1) false hch hok.2.2.2.2 he.2.2
    rw [emitNode_sect_lead env id.text key children l c d b lead he.1, ih]
    simp only [Option.map_some, leadingLines_eq env d lead he.2.1, MNode.rows, sheaderText, markerChar, Bool.false_eq_true, if_false]
theorem emitChildren_m (env : Env) : ∀ (ts : List MNode) (ns : List Node) (d : Nat) (b : Bool),
    mforestMatches ts ns → mforestOK env ts → mforestEmitOK env ts → emitChildren env ns d b = some (mforestRows d ts)
  | [], ns, d, b, hm, _, _ => by
    simp only [mforestMatches] at hm
    subst hm; rfl
  | t :: ts, ns, d, b, hm, hok, he => by
    simp only [mforestMatches] at hm
    obtain ⟨n, ns', rfl, h1, h2⟩ := hm
    simp only [mforestEmitOK] at he
    simp only [mforestOK] at hok
    simp only [emitChildren, emitNode_m env t n d b h1 hok.1 he.1, emitChildren_m env ts ns' d b h2 hok.2 he.2, mforestRows]
end

/-- a node that `Matches` is not a `Comment` node (the only kind `emit` skips at top level). -/
theorem emitTop_cons_of_matches (env : Env) (t : MNode) (n : Node) (ns : List Node) (hm : t.Matches n) :
    emitTop env (n :: ns) = (match emitNode env n 0 false, emitTop env ns with
      | some a, some b => some (a ++ b)
      | _, _ => none) := by
  cases t with
  | line key v lead trail =>
    simp only [MNode.Matches] at hm
    obtain ⟨l, c, rfl⟩ := hm
    rfl
  | block key cs lead =>
    simp only [MNode.Matches] at hm
    obtain ⟨children, l, c, rfl, _⟩ := hm
    rfl
  | sect id key cs lead =>
    simp only [MNode.Matches] at hm
    obtain ⟨children, l, c, rfl, _⟩ := hm
    rfl

theorem emitTop_m (env : Env) : ∀ (ts : List MNode) (ns : List Node), mforestMatches ts ns → mforestOK env ts → mforestEmitOK env ts →
    emitTop env ns = some (mforestRows 0 ts)
  | [], ns, hm, _, _ => by
    simp only [mforestMatches] at hm
    subst hm; rfl
  | t :: ts, ns, hm, hok, he => by
    simp only [mforestMatches] at hm
    obtain ⟨n, ns', rfl, h1, h2⟩ := hm
    simp only [mforestEmitOK] at he
    simp only [mforestOK] at hok
    rw [emitTop_cons_of_matches env t n ns' h1, emitNode_m env t n 0 false h1 hok.1 he.1, emitTop_m env ts ns' h2 hok.2 he.2]
    simp only [mforestRows]

/-! ### META in front: the text is the text of the body with the block `META` as first node -/

/-- the META block as a body node: the block `META` whose children are the (scalar-valued, comment-free) field lines. -/
def metaMNode (fields : List FLine) : MNode :=
  .block "META".toList (fields.map fun ln => MNode.line ln.key (.u (.scalar ln.v)) [] none) []

/-- the forest whose text is the text below the envelope line: the META block (when there are fields) and the body. -/
def withMeta (fields : List FLine) (nodes : List MNode) : List MNode :=
  if fields.isEmpty then nodes else metaMNode fields :: nodes

/-- number of text lines the META block takes. -/
def metaLines (fields : List FLine) : Nat := if fields.isEmpty then 0 else 1 + fields.length

/-- **canonical text of a master document**: envelope line, `META:` and the fields at two spaces (when there are fields), the
body forest at depth 0 with all its comments, the document's trailing comments, `===END===`. -/
def mDocText (name : Str) (fields : List FLine) (nodes : List MNode) (trailing : List Str) : Str :=
  docText name (withMeta fields nodes) trailing

/-- its tokens in reading order, EOF included. -/
def mDocToks (name : Str) (fields : List FLine) (nodes : List MNode) (trailing : List Str) : List Token :=
  docToks name (withMeta fields nodes) trailing

/-- the lexer's receipts on it (identifier notes only), in reading order. -/
def mDocReps (fields : List FLine) (nodes : List MNode) : List Repair := mforestReps 0 2 (withMeta fields nodes)

theorem mforestOK_fields (env : Env) (fields : List FLine) (h : ∀ ln ∈ fields, ln.OK) :
    mforestOK env (fields.map fun ln => MNode.line ln.key (.u (.scalar ln.v)) [] none) := by
  induction fields with
  | nil => trivial
  | cons ln ls ih =>
    simp only [List.map_cons, mforestOK, MNode.OK]
    have h1 := h ln (by simp)
    exact ⟨⟨h1.1, h1.2.1, h1.2.2, by simp, trivial⟩, ih (fun l hl => h l (by simp [hl]))⟩

theorem mforestOK_withMeta (env : Env) (fields : List FLine) (nodes : List MNode) (hf : ∀ ln ∈ fields, ln.OK)
    (hok : mforestOK env nodes) : mforestOK env (withMeta fields nodes) := by
  unfold withMeta
  split
  · exact hok
  · simp only [mforestOK, metaMNode, MNode.OK]
    exact ⟨⟨by decide, by decide, by simp, mforestOK_fields env fields hf⟩, hok⟩

theorem mforestHasExpr_fields (fields : List FLine) :
    mforestHasExpr (fields.map fun ln => MNode.line ln.key (.u (.scalar ln.v)) [] none) = false := by
  induction fields with
  | nil => rfl
  | cons ln ls ih => simp [mforestHasExpr, MNode.hasExpr, MValue.isExpr, UValue.isExpr, ih]

theorem mforestHasExpr_withMeta (fields : List FLine) (nodes : List MNode) :
    mforestHasExpr (withMeta fields nodes) = mforestHasExpr nodes := by
  unfold withMeta
  split
  · rfl
  · simp [mforestHasExpr, metaMNode, MNode.hasExpr, mforestHasExpr_fields]

/-- **The lexer on the canonical text of a master document**: exactly `mDocToks` (`META:` is lexed like a block header, every
field as `INDENT(2) IDENTIFIER ASSIGN value NEWLINE`, every comment as ONE COMMENT token — also the one behind the closing
bracket of a multi-line list —, every `§` as ONE SECTION token), positions included, both lexer modes; no receipt but the
identifier notes. -/
theorem tokenize_mdoc (env : Env) (lenient : Bool) (name : Str) (fields : List FLine) (nodes : List MNode) (trailing : List Str)
    (he : mforestHasExpr nodes = true → OpEnv env) (hsec : env.isDigit '§' = false)
    (hn : isEnvName name = true) (hne : name ≠ "END".toList) (hf : ∀ ln ∈ fields, ln.OK) (hok : mforestOK env nodes)
    (htr : ∀ c ∈ trailing, CommentOK env c)
    (hnfc : ∀ l ∈ splitLines (mDocText name fields nodes trailing), env.nfc l = l) :
    tokenize env (mDocText name fields nodes trailing) lenient = .ok (mDocToks name fields nodes trailing, mDocReps fields nodes) :=
  tokenize_doc env lenient name (withMeta fields nodes) trailing (by rw [mforestHasExpr_withMeta]; exact he) hsec hn hne
    (mforestOK_withMeta env fields nodes hf hok) htr hnfc

theorem mforestRows_fields (fields : List FLine) :
    mforestRows 1 (fields.map fun ln => MNode.line ln.key (.u (.scalar ln.v)) [] none) = fields.map fun ln => rowText (1, ln.text) := by
  induction fields with
  | nil => rfl
  | cons ln ls ih =>
    simp only [List.map_cons, mforestRows, MNode.rows, leadRows, List.map_nil, List.nil_append, List.cons_append, ih]
    simp [mlineBody, trailText, MValue.text, UValue.text, FLine.text, rowText]

/-- the rows of the text below the envelope line when there are fields: `META:`, the fields, the body. -/
theorem mforestRows_withMeta (f : FLine) (fs : List FLine) (nodes : List MNode) :
    mforestRows 0 (withMeta (f :: fs) nodes)
      = ("META:".toList :: (f :: fs).map fun ln => rowText (1, ln.text)) ++ mforestRows 0 nodes := by
  have h := mforestRows_fields (f :: fs)
  show mforestRows 0 (metaMNode (f :: fs) :: nodes) = _
  rw [mforestRows]
  have hr : (metaMNode (f :: fs)).rows 0
      = "META:".toList :: mforestRows 1 ((f :: fs).map fun ln => MNode.line ln.key (.u (.scalar ln.v)) [] none) := rfl
  rw [hr, h]

/-- all rows of the body: the forest, then the document's trailing comments. -/
def docRows (nodes : List MNode) (trailing : List Str) : List Str := mforestRows 0 nodes ++ (leadRows 0 trailing).map rowText

theorem docText_rows (name : Str) (nodes : List MNode) (trailing : List Str) :
    docText name nodes trailing =
      "===".toList ++ name ++ "===".toList ++ '\n' :: (unlines (docRows nodes trailing) ++ ("===END===".toList ++ ['\n'])) := by
  simp [docText, docRows, mforestText_rows, leadText_rows, unlines_append]

/-- **The emitter on a master document** writes exactly `mDocText`, whatever positions the nodes carry. -/
theorem emit_mdoc_matches (env : Env) (name : Str) (fields : List FLine) (nodes : List MNode) (trailing : List Str)
    (sections : List Node) (hm : mforestMatches nodes sections) (hfe : ∀ ln ∈ fields, ln.MetaEmitOK)
    (hok : mforestOK env nodes) (h : mforestEmitOK env nodes) (htr : ∀ c ∈ trailing, env.strip c = c) :
    emit env { name := name, metaKv := metaKvOf fields, sections := sections, trailingComments := trailing }
      = some (mDocText name fields nodes trailing) := by
  have ht := emitTop_m env nodes sections hm hok h
  have hml := emitMetaLines_fields fields hfe
  have hfin : ∀ (R : List Str), finishText (("===".toList ++ name ++ "===".toList) ++ ['\n'] ++ (unlines R ++ "===END===".toList))
      = "===".toList ++ name ++ "===".toList ++ '\n' :: (unlines R ++ ("===END===".toList ++ ['\n'])) := by
    intro R
    have hlast : (("===".toList ++ name ++ "===".toList) ++ ['\n'] ++ (unlines R ++ "===END===".toList)).getLast? = some '=' := by
      rw [List.getLast?_append, List.getLast?_append]; rfl
    simp only [finishText, hlast]
    simp
  cases fields with
  | nil =>
    have hj := joinWith_unlines (docRows nodes trailing) "===END===".toList
    unfold emit emitBody
    simp only [metaKvOf, List.map_nil, emitMetaLines, ht, leadingLines_eq env 0 trailing htr, List.isEmpty_nil, Bool.true_or,
      if_true, Bool.false_eq_true, if_false, List.nil_append, List.append_nil, bind, Option.bind, pure, Option.map]
    show some (finishText (joinWith ['\n'] (("===".toList ++ name ++ "===".toList) ::
      (mforestRows 0 nodes ++ (leadRows 0 trailing).map rowText ++ ["===END===".toList])))) = _
    rw [← docRows]
    have hne : docRows nodes trailing ++ ["===END===".toList] ≠ [] := by simp
    obtain ⟨x, xs, hx⟩ := List.exists_cons_of_ne_nil hne
    rw [hx, joinWith, ← hx, hj, hfin]
    simp [mDocText, withMeta, docText_rows]
  | cons f fs =>
    have hkv : (metaKvOf (f :: fs)).isEmpty = false := rfl
    have hle : ((f :: fs).map fun ln => rowText (1, ln.text)).isEmpty = false := rfl
    unfold emit emitBody
    simp only [hml, ht, hkv, hle, leadingLines_eq env 0 trailing htr, Bool.false_or, Bool.false_eq_true, if_false,
      List.nil_append, List.append_nil, bind, Option.bind, pure, Option.map]
    have hrows : docRows (withMeta (f :: fs) nodes) trailing
        = ("META:".toList :: (f :: fs).map fun ln => rowText (1, ln.text)) ++
            (mforestRows 0 nodes ++ (leadRows 0 trailing).map rowText) := by
      rw [docRows, mforestRows_withMeta, List.append_assoc]
    have hj : joinWith ['\n'] (["===".toList ++ name ++ "===".toList] ++
                  [joinWith ['\n'] ("META:".toList :: List.map (fun ln => rowText (1, ln.text)) (f :: fs))] ++
                mforestRows 0 nodes ++ List.map rowText (leadRows 0 trailing) ++ ["===END===".toList])
        = ("===".toList ++ name ++ "===".toList) ++ ['\n'] ++
            (unlines (docRows (withMeta (f :: fs) nodes) trailing) ++ "===END===".toList) := by
      simp only [List.cons_append, List.nil_append, List.append_assoc]
      rw [joinWith, joinWith_join_head _ _ _ (by simp) (by simp), hrows, ← joinWith_unlines]
      simp only [List.cons_append, List.append_assoc, List.nil_append]
    rw [hj, hfin]
    simp [mDocText, docText_rows]

mutual
/-- the AST of a forest with positions chosen by `pos` from the (0-based) index of the node's own line below the envelope
line and its depth; comments in the `leading` / `trailing` fields. -/
def MNode.node (pos : Nat → Nat → Nat × Nat) (i d : Nat) : MNode → Node
  | .line key v lead trail => .assign key v.value (pos (i + lead.length) d).1 (pos (i + lead.length) d).2 lead trail
  | .block key cs lead =>
    .block key (mforestNodes pos (i + lead.length + 1) (d + 1) cs) (pos (i + lead.length) d).1 (pos (i + lead.length) d).2 lead none
  | .sect id key cs lead =>
    .sect id.text key none (mforestNodes pos (i + lead.length + 1) (d + 1) cs) (pos (i + lead.length) d).1 (pos (i + lead.length) d).2 lead
def mforestNodes (pos : Nat → Nat → Nat × Nat) (i d : Nat) : List MNode → List Node
  | [] => []
  | n :: ns => n.node pos i d :: mforestNodes pos (i + n.nlines d) d ns
end

mutual
theorem MNode.node_matches (pos : Nat → Nat → Nat × Nat) : ∀ (t : MNode) (i d : Nat), t.Matches (t.node pos i d)
  | .line key v lead trail, i, d => by simp only [MNode.Matches, MNode.node]; exact ⟨_, _, rfl⟩
  | .block key cs lead, i, d => by
    simp only [MNode.Matches, MNode.node]
    exact ⟨_, _, _, rfl, mforestNodes_matches pos cs (i + lead.length + 1) (d + 1)⟩
  | .sect id key cs lead, i, d => by
    simp only [MNode.Matches, MNode.node]
    exact ⟨_, _, _, rfl, mforestNodes_matches pos cs (i + lead.length + 1) (d + 1)⟩
theorem mforestNodes_matches (pos : Nat → Nat → Nat × Nat) : ∀ (ts : List MNode) (i d : Nat), mforestMatches ts (mforestNodes pos i d ts)
  | [], i, d => by simp [mforestMatches, mforestNodes]
  | t :: ts, i, d => by
    simp only [mforestMatches, mforestNodes]
    exact ⟨_, _, rfl, MNode.node_matches pos t i d, mforestNodes_matches pos ts (i + t.nlines d) d⟩
end

/-- **the master document**: the fields in `meta` (in order), the forest in `sections` (the body node whose own line is physical
line `i` below the envelope line, at depth `d`, gets the position `pos i d`), the document's trailing comments. -/
def mDoc (name : Str) (pos : Nat → Nat → Nat × Nat) (fields : List FLine) (nodes : List MNode) (trailing : List Str) : Document :=
  { name := name, metaKv := metaKvOf fields, sections := mforestNodes pos (metaLines fields) 0 nodes, trailingComments := trailing }

theorem emit_mDoc (env : Env) (name : Str) (pos : Nat → Nat → Nat × Nat) (fields : List FLine) (nodes : List MNode)
    (trailing : List Str) (hfe : ∀ ln ∈ fields, ln.MetaEmitOK) (hok : mforestOK env nodes) (h : mforestEmitOK env nodes)
    (htr : ∀ c ∈ trailing, env.strip c = c) :
    emit env (mDoc name pos fields nodes trailing) = some (mDocText name fields nodes trailing) :=
  emit_mdoc_matches env name fields nodes trailing _ (mforestNodes_matches pos nodes _ 0) hfe hok h htr

end Octave.M
