import Octave.Lemmas.SectLex
import Octave.Lemmas.CommentLex
import Octave.Lemmas.MetaLex
/-!
The lexer and the emitter on UNIFIED documents: a META block, `KEY::scalar` lines, `KEY:` blocks, `§ID::NAME` sections and
COMMENTS (leading comment lines above every node — sections included —, a trailing comment after every assignment, the
document's trailing comment lines) at once, any depth, width and number of comments (`DNode`).

Nothing is re-proved about single lines: the per-line results of the construct files are reused inside ONE new mutual
induction over `DNode` — `run_lead` / `run_cline` (CommentLex), `run_header` (BlockLex), `run_sheader` (SectLex) for the
lexer, `emitNode_cline` / `leadingLines_eq` (CommentLex), `emitMetaLines_fields` / `joinWith_join_head` (MetaLex) for the
emitter.  The META block is handled by the observation of `MetaLex`: the text of a document with META fields IS the text of
the document whose first body node is the block `META` with the fields as (comment-free) line children (`withMeta`); only
`emit_meta` / `parse_document` treat it differently.

* `run_dnode` / `run_forest`   the lexer's main loop on a node / a forest at depth `d`;
* `tokenize_doc`               the whole text: exactly `docToks`, positions included, in both lexer modes;
* `emitNode_d` / `emitChildren_d` / `emitTop_d`, `emit_doc_matches`, `emit_dDoc`   the emitter writes exactly `dDocText`,
                               whatever positions the AST nodes carry; a SECTION's leading comments are written above its
                               header at the section's own indentation (`emitNode_sect_lead`); META has no comment slot.
-/
namespace Octave.D
open Octave Lexer Scan Emitter

/-- content of a document body: a `KEY::scalar` line with leading comment lines and an optional trailing comment; a `KEY:`
block with leading comment lines and children; a `§ID::NAME` section with leading comment lines and children. -/
inductive DNode where
  | line (ln : FLine) (lead : List Str) (trail : Option Str)
  | block (key : Str) (children : List DNode) (lead : List Str)
  | sect (id : SecId) (key : Str) (children : List DNode) (lead : List Str)
  deriving Repr

mutual
/-- the lexer's conditions: `FLine.OK` on every line; block keys and section names identifier-shaped without a reserved
prefix; section ids `SecId.OK`; every comment — leading or trailing, the empty one included — `CommentOK`. -/
def DNode.OK (env : Env) : DNode → Prop
  | .line ln lead trail => ln.OK ∧ (∀ c ∈ lead, CommentOK env c) ∧ TrailOK env trail
  | .block key cs lead =>
    isIdentifierText key = true ∧ hasReservedPrefix key = false ∧ (∀ c ∈ lead, CommentOK env c) ∧ forestOK env cs
  | .sect id key cs lead =>
    id.OK ∧ isIdentifierText key = true ∧ hasReservedPrefix key = false ∧ (∀ c ∈ lead, CommentOK env c) ∧ forestOK env cs
def forestOK (env : Env) : List DNode → Prop
  | [] => True
  | n :: ns => n.OK env ∧ forestOK env ns
end

mutual
/-- canonical text of a node at depth `d` (with its line ends): the leading comments, then the node. -/
def DNode.text (d : Nat) : DNode → Str
  | .line ln lead trail => leadText d lead ++ (indentStr d ++ (ln.text ++ (trailText trail ++ ['\n'])))
  | .block key cs lead => leadText d lead ++ (indentStr d ++ (key ++ ':' :: '\n' :: forestText (d + 1) cs))
  | .sect id key cs lead => leadText d lead ++ (indentStr d ++ (sheaderText false id key ++ '\n' :: forestText (d + 1) cs))
def forestText (d : Nat) : List DNode → Str
  | [] => []
  | n :: ns => n.text d ++ forestText d ns
end

mutual
/-- number of text lines of a node (comment lines included). -/
def DNode.nlines : DNode → Nat
  | .line _ lead _ => lead.length + 1
  | .block _ cs lead => lead.length + 1 + forestNLines cs
  | .sect _ _ cs lead => lead.length + 1 + forestNLines cs
def forestNLines : List DNode → Nat
  | [] => 0
  | n :: ns => n.nlines + forestNLines ns
end

mutual
/-- tokens of a node at depth `d` whose first line (its first leading comment, if any) is text line `l`, in reading order. -/
def DNode.toks (d l : Nat) : DNode → List Token
  | .line ln lead trail => leadToks d l lead ++ cLineToks ln trail d (l + lead.length)
  | .block key cs lead =>
    leadToks d l lead ++ (headerToks key d (l + lead.length) ++ forestToks (d + 1) (l + lead.length + 1) cs)
  | .sect id key cs lead =>
    leadToks d l lead ++ (sheaderToks false id key d (l + lead.length) ++ forestToks (d + 1) (l + lead.length + 1) cs)
def forestToks (d l : Nat) : List DNode → List Token
  | [] => []
  | n :: ns => n.toks d l ++ forestToks d (l + n.nlines) ns
end

mutual
/-- receipts (identifier notes only; comments and `§` produce none), newest first. -/
def DNode.repsRev (d l : Nat) : DNode → List Repair
  | .line ln lead _ => ln.repsRev (l + lead.length) (1 + 2 * d)
  | .block key cs lead =>
    forestRepsRev (d + 1) (l + lead.length + 1) cs ++ (identifierRepairs key (l + lead.length) (1 + 2 * d)).reverse
  | .sect id key cs lead =>
    forestRepsRev (d + 1) (l + lead.length + 1) cs ++ sheaderRepsRev false id key d (l + lead.length)
def forestRepsRev (d l : Nat) : List DNode → List Repair
  | [] => []
  | n :: ns => forestRepsRev d (l + n.nlines) ns ++ n.repsRev d l
end

theorem headerToksRev_reverse (key : Str) (d l : Nat) : (headerToksRev key d l).reverse = headerToks key d l := by
  simp [headerToksRev, headerToks, indentToksRev_reverse]

theorem sheaderToksRev_reverse (id : SecId) (key : Str) (d l : Nat) :
    (sheaderToksRev false id key d l).reverse = sheaderToks false id key d l := by
  simp [sheaderToksRev, sheaderToks, indentToksRev_reverse, SecId.toksRev_reverse]

mutual
/-- **one node at depth `d`** with its comments (a line, or a block / a section with all its descendants). -/
theorem run_dnode (env : Env) (lenient : Bool) (hsec : env.isDigit '§' = false) :
    ∀ (n : DNode) (d : Nat) (st : LState) (rest : Str), Ready st → st.col = 1 → n.OK env →
    ∃ k st', Run env lenient k st (n.text d ++ rest) st' rest ∧
      AdvL st st' (n.toks d st.line).reverse (n.repsRev d st.line) n.nlines
  | .line ln lead trail, d, st, rest, hr, hc, hok => by
    simp only [DNode.OK] at hok
    obtain ⟨s1, r1, a1⟩ := run_lead env lenient d lead st
      (indentStr d ++ (ln.text ++ (trailText trail ++ '\n' :: rest))) hr hc hok.2.1
    obtain ⟨s2, r2, a2⟩ := run_cline env lenient s1 ln trail d rest a1.ready a1.col hok.1 hok.2.2
    have ht : (DNode.line ln lead trail).text d ++ rest
        = leadText d lead ++ (indentStr d ++ (ln.text ++ (trailText trail ++ '\n' :: rest))) := by
      simp [DNode.text, List.append_assoc]
    rw [ht]
    refine ⟨_, s2, Run.trans r1 r2, ?_⟩
    have h := a1.trans a2
    rw [a1.line] at h
    refine ⟨h.ready, ?_, ?_, h.stack, ?_, h.col⟩
    · rw [h.toks, DNode.toks, List.reverse_append, ← leadToksRev_reverse, ← cLineToksRev_reverse, List.reverse_reverse,
        List.reverse_reverse]
    · rw [h.repairs]; simp [DNode.repsRev]
    · rw [h.line]; simp [DNode.nlines]
  | .block key cs lead, d, st, rest, hr, hc, hok => by
    simp only [DNode.OK] at hok
    obtain ⟨s1, r1, a1⟩ := run_lead env lenient d lead st
      (indentStr d ++ (key ++ ':' :: '\n' :: (forestText (d + 1) cs ++ rest))) hr hc hok.2.2.1
    obtain ⟨s2, r2, a2⟩ := run_header env lenient s1 key d (forestText (d + 1) cs ++ rest) a1.ready a1.col hok.1 hok.2.1
    obtain ⟨k3, s3, r3, a3⟩ := run_forest env lenient hsec cs (d + 1) s2 rest a2.ready a2.col hok.2.2.2
    have ht : (DNode.block key cs lead).text d ++ rest
        = leadText d lead ++ (indentStr d ++ (key ++ ':' :: '\n' :: (forestText (d + 1) cs ++ rest))) := by
      simp [DNode.text, List.append_assoc]
    rw [ht]
    refine ⟨_, s3, Run.trans r1 (Run.trans r2 r3), ?_⟩
    have h := (a1.trans a2).trans a3
    rw [a2.line, a1.line] at h
    refine ⟨h.ready, ?_, ?_, h.stack, ?_, h.col⟩
    · rw [h.toks, DNode.toks, List.reverse_append, List.reverse_append, ← leadToksRev_reverse, ← headerToksRev_reverse,
        List.reverse_reverse, List.reverse_reverse]
      simp only [List.append_assoc]
    · rw [h.repairs]; simp [DNode.repsRev]
    · rw [h.line]; simp only [DNode.nlines]
  | .sect id key cs lead, d, st, rest, hr, hc, hok => by
    simp only [DNode.OK] at hok
    obtain ⟨s1, r1, a1⟩ := run_lead env lenient d lead st
      (indentStr d ++ (sheaderText false id key ++ '\n' :: (forestText (d + 1) cs ++ rest))) hr hc hok.2.2.2.1
    obtain ⟨s2, r2, a2⟩ := run_sheader env lenient s1 false id key d (forestText (d + 1) cs ++ rest) a1.ready a1.col
      (fun _ => hsec) hok.1 hok.2.1 hok.2.2.1
    obtain ⟨k3, s3, r3, a3⟩ := run_forest env lenient hsec cs (d + 1) s2 rest a2.ready a2.col hok.2.2.2.2
    have ht : (DNode.sect id key cs lead).text d ++ rest
        = leadText d lead ++ (indentStr d ++ (sheaderText false id key ++ '\n' :: (forestText (d + 1) cs ++ rest))) := by
      simp [DNode.text, List.append_assoc]
    rw [ht]
    refine ⟨_, s3, Run.trans r1 (Run.trans r2 r3), ?_⟩
    have h := (a1.trans a2).trans a3
    rw [a2.line, a1.line] at h
    refine ⟨h.ready, ?_, ?_, h.stack, ?_, h.col⟩
    · rw [h.toks, DNode.toks, List.reverse_append, List.reverse_append, ← leadToksRev_reverse, ← sheaderToksRev_reverse,
        List.reverse_reverse, List.reverse_reverse]
      simp only [List.append_assoc]
    · rw [h.repairs]; simp [DNode.repsRev]
    · rw [h.line]; simp only [DNode.nlines]
/-- **a list of sibling nodes at depth `d`**, any depth and width below, any number of comments. -/
theorem run_forest (env : Env) (lenient : Bool) (hsec : env.isDigit '§' = false) :
    ∀ (ns : List DNode) (d : Nat) (st : LState) (rest : Str), Ready st → st.col = 1 → forestOK env ns →
    ∃ k st', Run env lenient k st (forestText d ns ++ rest) st' rest ∧
      AdvL st st' (forestToks d st.line ns).reverse (forestRepsRev d st.line ns) (forestNLines ns)
  | [], d, st, rest, hr, hc, _ =>
    ⟨0, st, by simpa [forestText] using Run.refl st rest,
      ⟨hr, by simp [forestToks], by simp [forestRepsRev], rfl, by simp [forestNLines], hc⟩⟩
  | n :: ns, d, st, rest, hr, hc, hok => by
    simp only [forestOK] at hok
    obtain ⟨k1, s1, r1, a1⟩ := run_dnode env lenient hsec n d st (forestText d ns ++ rest) hr hc hok.1
    obtain ⟨k2, s2, r2, a2⟩ := run_forest env lenient hsec ns d s1 rest a1.ready a1.col hok.2
    have ht : forestText d (n :: ns) ++ rest = n.text d ++ (forestText d ns ++ rest) := by
      simp [forestText, List.append_assoc]
    rw [ht]
    refine ⟨_, s2, Run.trans r1 r2, ?_⟩
    have h := a1.trans a2
    rw [a1.line] at h
    refine ⟨h.ready, ?_, ?_, h.stack, ?_, h.col⟩
    · rw [h.toks, forestToks, List.reverse_append]
    · rw [h.repairs, forestRepsRev]
    · rw [h.line, forestNLines]
end

/-! ### the lines of the text: (depth, body) rows -/

mutual
/-- the lines of a node as (depth, text after the indentation), comment lines included. -/
def DNode.rows (d : Nat) : DNode → List (Nat × Str)
  | .line ln lead trail => leadRows d lead ++ [(d, ln.text ++ trailText trail)]
  | .block key cs lead => leadRows d lead ++ (d, key ++ [':']) :: forestRows (d + 1) cs
  | .sect id key cs lead => leadRows d lead ++ (d, sheaderText false id key) :: forestRows (d + 1) cs
def forestRows (d : Nat) : List DNode → List (Nat × Str)
  | [] => []
  | n :: ns => n.rows d ++ forestRows d ns
end

mutual
theorem DNode.text_rows : ∀ (n : DNode) (d : Nat), n.text d = unlines ((n.rows d).map rowText)
  | .line ln lead trail, d => by
    simp [DNode.text, DNode.rows, rowText, unlines, unlines_append, leadText_rows]
  | .block key cs lead, d => by
    simp [DNode.text, DNode.rows, rowText, unlines, unlines_append, leadText_rows, forestText_rows cs (d + 1)]
  | .sect id key cs lead, d => by
    simp [DNode.text, DNode.rows, rowText, unlines, unlines_append, leadText_rows, forestText_rows cs (d + 1)]
theorem forestText_rows : ∀ (ns : List DNode) (d : Nat), forestText d ns = unlines ((forestRows d ns).map rowText)
  | [], d => rfl
  | n :: ns, d => by
    simp [forestText, forestRows, unlines_append, DNode.text_rows n d, forestText_rows ns d]
end

mutual
theorem DNode.rows_ok (env : Env) : ∀ (n : DNode) (d : Nat), n.OK env → ∀ r ∈ n.rows d, BodyOK r.2
  | .line ln lead trail, d, hok, r, hr => by
    simp only [DNode.OK] at hok
    simp only [DNode.rows, List.mem_append, List.mem_singleton] at hr
    rcases hr with h | h
    · exact leadRows_ok env d lead hok.2.1 r h
    · subst h; exact bodyOK_cline env ln trail hok.1 hok.2.2
  | .block key cs lead, d, hok, r, hr => by
    simp only [DNode.OK] at hok
    simp only [DNode.rows, List.mem_append, List.mem_cons] at hr
    rcases hr with h | h | h
    · exact leadRows_ok env d lead hok.2.2.1 r h
    · subst h; exact bodyOK_header key hok.1
    · exact forestRows_ok env cs (d + 1) hok.2.2.2 r h
  | .sect id key cs lead, d, hok, r, hr => by
    simp only [DNode.OK] at hok
    simp only [DNode.rows, List.mem_append, List.mem_cons] at hr
    rcases hr with h | h | h
    · exact leadRows_ok env d lead hok.2.2.2.1 r h
    · subst h; exact bodyOK_sheader false id key hok.1 hok.2.1
    · exact forestRows_ok env cs (d + 1) hok.2.2.2.2 r h
theorem forestRows_ok (env : Env) : ∀ (ns : List DNode) (d : Nat), forestOK env ns → ∀ r ∈ forestRows d ns, BodyOK r.2
  | [], d, _, r, hr => by simp [forestRows] at hr
  | n :: ns, d, hok, r, hr => by
    simp only [forestOK] at hok
    simp only [forestRows, List.mem_append] at hr
    rcases hr with h | h
    · exact DNode.rows_ok env n d hok.1 r h
    · exact forestRows_ok env ns d hok.2 r h
end

/-! ### the whole document (body forest + the document's trailing comments) -/

/-- canonical text of a document whose body is the forest `nodes`, followed by the document's trailing comments. -/
def docText (name : Str) (nodes : List DNode) (trailing : List Str) : Str :=
  "===".toList ++ name ++ "===".toList ++ '\n' :: (forestText 0 nodes ++ (leadText 0 trailing ++ ("===END===".toList ++ ['\n'])))

/-- all rows of the body: the forest, then the document's trailing comments. -/
def docRows (nodes : List DNode) (trailing : List Str) : List (Nat × Str) := forestRows 0 nodes ++ leadRows 0 trailing

/-- number of lines of the body. -/
def docNLines (nodes : List DNode) (trailing : List Str) : Nat := forestNLines nodes + trailing.length

/-- the tokens before EOF, in reading order. -/
def docToksBody (name : Str) (nodes : List DNode) (trailing : List Str) : List Token :=
  tEnvStart name 1 1 :: tNewline 1 (1 + (name.length + 6)) :: (forestToks 0 2 nodes ++ (leadToks 0 (forestNLines nodes + 2) trailing ++
    [tEnvEnd (docNLines nodes trailing + 2) 1, tNewline (docNLines nodes trailing + 2) 10]))

/-- the tokens of the document in reading order, EOF included. -/
def docToks (name : Str) (nodes : List DNode) (trailing : List Str) : List Token :=
  docToksBody name nodes trailing ++ [tEof (docNLines nodes trailing + 3) 1]

theorem run_doc (env : Env) (lenient : Bool) (name : Str) (nodes : List DNode) (trailing : List Str)
    (hsec : env.isDigit '§' = false)
    (hn : isEnvName name = true) (hne : name ≠ "END".toList) (hok : forestOK env nodes)
    (htr : ∀ c ∈ trailing, CommentOK env c) :
    ∃ k st', Run env lenient k ({ spans := [] } : LState) (docText name nodes trailing) st' [] ∧
      st'.toks = (docToksBody name nodes trailing).reverse ∧ st'.repairs = forestRepsRev 0 2 nodes ∧ st'.stack = [] ∧
      st'.line = docNLines nodes trailing + 3 ∧ st'.col = 1 := by
  let st0 : LState := { spans := [] }
  let endT : Str := "===END===".toList ++ ['\n']
  obtain ⟨s1, e1, a1⟩ := step_envStart env lenient st0 name ('\n' :: (forestText 0 nodes ++ (leadText 0 trailing ++ endT))) rfl hn hne
  obtain ⟨s2, e2, a2⟩ := step_newline env lenient s1 (forestText 0 nodes ++ (leadText 0 trailing ++ endT)) a1.ready
  obtain ⟨k3, s3, r3, a3⟩ := run_forest env lenient hsec nodes 0 s2 (leadText 0 trailing ++ endT) a2.ready a2.col hok
  obtain ⟨s3', r3', a3'⟩ := run_lead env lenient 0 trailing s3 endT a3.ready a3.col htr
  obtain ⟨s4, e4, a4⟩ := step_envEnd env lenient s3' ['\n'] a3'.ready
  obtain ⟨s5, e5, a5⟩ := step_newline env lenient s4 [] a4.ready
  have e1' : step env lenient st0 (docText name nodes trailing) =
      .ok (s1, '\n' :: (forestText 0 nodes ++ (leadText 0 trailing ++ endT))) := e1
  have tail := Run.trans r3 (Run.trans r3' (Run.cons' (by simp [endT]) e4 (Run.one e5)))
  have full := Run.cons' (by simp [docText]) e1' (Run.cons e2 tail)
  have l1 : s1.line = 1 := by rw [a1.line]
  have l2 : s2.line = 2 := by rw [a2.line, l1]
  have l3 : s3.line = forestNLines nodes + 2 := by rw [a3.line, l2]; omega
  have l3' : s3'.line = docNLines nodes trailing + 2 := by rw [a3'.line, l3]; simp [docNLines]; omega
  have l4 : s4.line = docNLines nodes trailing + 2 := by rw [a4.line, l3']
  refine ⟨_, s5, full, ?_, ?_, ?_, ?_, a5.col⟩
  · have c1 : s1.col = 1 + (name.length + 6) := a1.col
    have c3 : s3'.col = 1 := a3'.col
    have c4 : s4.col = 10 := by rw [a4.col, c3]
    rw [a5.toks, a4.toks, a3'.toks, a3.toks, a2.toks, a1.toks, l1, l2, l3, l3', l4, c1, c3, c4]
    simp [docToksBody, ← leadToksRev_reverse]
    exact ⟨rfl, rfl⟩
  · rw [a5.repairs, a4.repairs, a3'.repairs, a3.repairs, a2.repairs, a1.repairs, l2]; simp; rfl
  · rw [a5.stack, a4.stack, a3'.stack, a3.stack, a2.stack, a1.stack]
  · rw [a5.line, l4]

theorem docRows_ok (env : Env) (nodes : List DNode) (trailing : List Str) (hok : forestOK env nodes)
    (htr : ∀ c ∈ trailing, CommentOK env c) : ∀ r ∈ docRows nodes trailing, BodyOK r.2 := by
  intro r hr
  rcases List.mem_append.mp hr with h | h
  · exact forestRows_ok env nodes 0 hok r h
  · exact leadRows_ok env 0 trailing htr r h

theorem docText_rows (name : Str) (nodes : List DNode) (trailing : List Str) :
    docText name nodes trailing =
      "===".toList ++ name ++ "===".toList ++ '\n' :: (unlines ((docRows nodes trailing).map rowText) ++ ("===END===".toList ++ ['\n'])) := by
  simp [docText, docRows, forestText_rows, leadText_rows, unlines_append]

/-- the lines of the text. -/
theorem splitLines_docText (env : Env) (name : Str) (nodes : List DNode) (trailing : List Str) (hn : isEnvName name = true)
    (hok : forestOK env nodes) (htr : ∀ c ∈ trailing, CommentOK env c) :
    splitLines (docText name nodes trailing) =
      ("===".toList ++ name ++ "===".toList) :: ((docRows nodes trailing).map rowText ++ ["===END===".toList, []]) := by
  have h1 := splitLines_append_nl ("===".toList ++ name ++ "===".toList)
    (unlines ((docRows nodes trailing).map rowText) ++ ("===END===".toList ++ ['\n']))
    (fun d hd => (envLine_clean name hn d hd).1)
  have h2 := splitLines_unlines ((docRows nodes trailing).map rowText) ("===END===".toList ++ ['\n']) (by
    intro l hl d hd
    obtain ⟨r, hr, rfl⟩ := List.mem_map.mp hl
    exact (rowText_clean r (docRows_ok env nodes trailing hok htr r hr) d hd).1)
  have h3 : splitLines ("===END===".toList ++ ['\n']) = ["===END===".toList, []] := by decide
  rw [docText_rows, h1, h2, h3]

theorem docText_noTab (env : Env) (name : Str) (nodes : List DNode) (trailing : List Str) (hn : isEnvName name = true)
    (hok : forestOK env nodes) (htr : ∀ c ∈ trailing, CommentOK env c) :
    ∀ d ∈ docText name nodes trailing, d ≠ '\t' := by
  have hl := unlines_noTab ((docRows nodes trailing).map rowText) (by
    intro l hl d hd
    obtain ⟨r, hr, rfl⟩ := List.mem_map.mp hl
    exact (rowText_clean r (docRows_ok env nodes trailing hok htr r hr) d hd).2)
  intro d hd
  rw [docText_rows] at hd
  simp only [List.mem_append, List.mem_cons] at hd
  rcases hd with h' | h' | h' | h' | h'
  · exact (envLine_clean name hn d (by simp only [List.mem_append]; exact h')).2
  · subst h'; decide
  · exact hl d h'
  · intro he; subst he; revert h'; decide
  · intro he; subst he; simp at h'

/-- **The lexer on the canonical text of a unified document body** (any name, any forest of lines / blocks / sections — any
depth, any width —, any number of leading comments above every node, an optional trailing comment after every assignment,
any number of trailing comments of the document; both lexer modes): exactly `docToks`, positions included, and no receipt
other than the (non-normalisation) identifier notes. -/
theorem tokenize_doc (env : Env) (lenient : Bool) (name : Str) (nodes : List DNode) (trailing : List Str)
    (hsec : env.isDigit '§' = false)
    (hn : isEnvName name = true) (hne : name ≠ "END".toList) (hok : forestOK env nodes)
    (htr : ∀ c ∈ trailing, CommentOK env c)
    (hnfc : ∀ l ∈ splitLines (docText name nodes trailing), env.nfc l = l) :
    tokenize env (docText name nodes trailing) lenient =
      .ok (docToks name nodes trailing, (forestRepsRev 0 2 nodes).reverse) := by
  have hsplit := splitLines_docText env name nodes trailing hn hok htr
  have hfence : ∀ l ∈ splitLines (docText name nodes trailing), fenceLine l = none ∧ env.nfc l = l := by
    intro l hl
    refine ⟨?_, hnfc l hl⟩
    rw [hsplit] at hl
    simp only [List.mem_cons, List.mem_append, List.mem_map, List.mem_nil_iff, or_false] at hl
    rcases hl with h | ⟨r, hr, rfl⟩ | h | h
    · subst h; exact fenceLine_none_of_head _ (by intro c hc; have : c = '=' := by simpa using hc.symm
                                                  subst this; decide)
    · exact rowText_fence r (docRows_ok env nodes trailing hok htr r hr)
    · subst h; decide
    · subst h; decide
  have hnorm := normalize_plain env (docText name nodes trailing) hfence
  have htab := tabCheck_noTab [] (docText name nodes trailing) 0 1 1 (docText_noTab env name nodes trailing hn hok htr)
  obtain ⟨k, st', run, ht, hr, hs, hl, hc⟩ := run_doc env lenient name nodes trailing hsec hn hne hok htr
  have hloop := loop_of_run env lenient _ _ st' (docText name nodes trailing) run (by intro sp hsp; simp at hsp)
  unfold tokenize
  simp only [hnorm, htab, hloop, bind, Except.bind, hs, List.getLast?_nil, ht, hr, hl, hc, List.reverse_cons,
    List.reverse_reverse, docToks]
  rfl


/-! ### the emitter -/

mutual
/-- when the emitter writes exactly `DNode.text`: every scalar is spelled the way `FLine.text` spells it, every comment is
strip-stable, and the name of a section is printed (it is identifier-shaped: it does not start with a digit or `-`). -/
def DNode.EmitOK (env : Env) : DNode → Prop
  | .line ln lead trail => CNode.LineEmitOK env ln lead trail
  | .block _ cs lead => (∀ c ∈ lead, env.strip c = c) ∧ forestEmitOK env cs
  | .sect _ key cs lead => isIdentifierText key = true ∧ (∀ c ∈ lead, env.strip c = c) ∧ forestEmitOK env cs
def forestEmitOK (env : Env) : List DNode → Prop
  | [] => True
  | n :: ns => n.EmitOK env ∧ forestEmitOK env ns
end

mutual
/-- the AST node carries this content — key / id and name, value, children, `leading_comments`, `trailing_comment` —, with ANY
source positions (no block target, no section annotation). -/
def DNode.Matches : DNode → Node → Prop
  | .line ln lead trail, n => ∃ l c, n = .assign ln.key ln.v.value l c lead trail
  | .block key cs lead, n => ∃ children l c, n = .block key children l c lead none ∧ forestMatches cs children
  | .sect id key cs lead, n => ∃ children l c, n = .sect id.text key none children l c lead ∧ forestMatches cs children
def forestMatches : List DNode → List Node → Prop
  | [], ns => ns = []
  | t :: ts, ns => ∃ n ns', ns = n :: ns' ∧ t.Matches n ∧ forestMatches ts ns'
end

/-- **a section with leading comments**: the emitter writes the comments as `indent // text` lines directly above the header,
at the section's own indentation, then the header (the name printed), then the children one level deeper. -/
theorem emitNode_sect_lead (env : Env) (id key : Str) (children : List Node) (l c d : Nat) (b : Bool) (lead : List Str)
    (hk : isIdentifierText key = true) :
    emitNode env (.sect id key none children l c lead) d b
      = (emitChildren env children (d + 1) false).map fun cl =>
          leadingLines env lead d ++ (indentStr d ++ '§' :: (id ++ ':' :: ':' :: key)) :: cl := by
  cases key with
  | nil => simp [isIdentifierText] at hk
  | cons k t =>
    simp only [isIdentifierText, Bool.and_eq_true] at hk
    obtain ⟨hd1, hd2⟩ := identStart_props k hk.1.1
    have hdash : (k == '-') = false := identStart_ne k '-' hk.1.1 (by decide)
    simp [emitNode, isDigitU, hd2, hdash]

mutual
theorem emitNode_d (env : Env) : ∀ (t : DNode) (n : Node) (d : Nat) (b : Bool), t.Matches n → t.EmitOK env →
    emitNode env n d b = some ((t.rows d).map rowText)
  | .line ln lead trail, n, d, b, hm, he => by
    simp only [DNode.Matches] at hm
    obtain ⟨l, c, rfl⟩ := hm
    rw [emitNode_cline env ln lead trail l c d b (by simpa [DNode.EmitOK] using he)]
    simp [DNode.rows, rowText]
  | .block key cs lead, n, d, b, hm, he => by
    simp only [DNode.Matches] at hm
    obtain ⟨children, l, c, rfl, hch⟩ := hm
    simp only [DNode.EmitOK] at he
    have ih := emitChildren_d env cs children (d + 1) true hch he.2
    simp only [emitNode, ih, Option.map_some, leadingLines_eq env d lead he.1, List.append_nil, DNode.rows,
      List.map_cons, List.map_append, rowText, List.cons_append, List.append_assoc, List.nil_append]
  | .sect id key cs lead, n, d, b, hm, he => by
    simp only [DNode.Matches] at hm
    obtain ⟨children, l, c, rfl, hch⟩ := hm
    simp only [DNode.EmitOK] at he
    have ih := emitChildren_d env cs children (d + 1) false hch he.2.2
    rw [emitNode_sect_lead env id.text key children l c d b lead he.1, ih]
    simp only [Option.map_some, leadingLines_eq env d lead he.2.1, DNode.rows, List.map_cons, List.map_append, rowText,
      sheaderText, markerChar, Bool.false_eq_true, if_false]
theorem emitChildren_d (env : Env) : ∀ (ts : List DNode) (ns : List Node) (d : Nat) (b : Bool),
    forestMatches ts ns → forestEmitOK env ts → emitChildren env ns d b = some ((forestRows d ts).map rowText)
  | [], ns, d, b, hm, _ => by
    simp only [forestMatches] at hm
    subst hm; rfl
  | t :: ts, ns, d, b, hm, he => by
    simp only [forestMatches] at hm
    obtain ⟨n, ns', rfl, h1, h2⟩ := hm
    simp only [forestEmitOK] at he
    simp only [emitChildren, emitNode_d env t n d b h1 he.1, emitChildren_d env ts ns' d b h2 he.2, forestRows,
      List.map_append]
end

/-- a node that `Matches` is not a `Comment` node (the only kind `emit` skips at top level). -/
theorem emitTop_cons_of_matches (env : Env) (t : DNode) (n : Node) (ns : List Node) (hm : t.Matches n) :
    emitTop env (n :: ns) = (match emitNode env n 0 false, emitTop env ns with
      | some a, some b => some (a ++ b)
      | _, _ => none) := by
  cases t with
  | line ln lead trail =>
    simp only [DNode.Matches] at hm
    obtain ⟨l, c, rfl⟩ := hm
    rfl
  | block key cs lead =>
    simp only [DNode.Matches] at hm
    obtain ⟨children, l, c, rfl, _⟩ := hm
    rfl
  | sect id key cs lead =>
    simp only [DNode.Matches] at hm
    obtain ⟨children, l, c, rfl, _⟩ := hm
    rfl

theorem emitTop_d (env : Env) : ∀ (ts : List DNode) (ns : List Node), forestMatches ts ns → forestEmitOK env ts →
    emitTop env ns = some ((forestRows 0 ts).map rowText)
  | [], ns, hm, _ => by
    simp only [forestMatches] at hm
    subst hm; rfl
  | t :: ts, ns, hm, he => by
    simp only [forestMatches] at hm
    obtain ⟨n, ns', rfl, h1, h2⟩ := hm
    simp only [forestEmitOK] at he
    rw [emitTop_cons_of_matches env t n ns' h1, emitNode_d env t n 0 false h1 he.1, emitTop_d env ts ns' h2 he.2]
    simp only [forestRows, List.map_append]

/-! ### META in front: the text is the text of the body with the block `META` as first node -/

/-- the META block as a body node: the block `META` whose children are the field lines (no comments anywhere: `doc.meta` is a
dict, META has no comment slot). -/
def metaDNode (fields : List FLine) : DNode := .block "META".toList (fields.map fun ln => DNode.line ln [] none) []

/-- the forest whose text is the text below the envelope line: the META block (when there are fields) and the body.
An EMPTY `meta` is not emitted at all. -/
def withMeta (fields : List FLine) (nodes : List DNode) : List DNode :=
  if fields.isEmpty then nodes else metaDNode fields :: nodes

/-- number of text lines the META block takes: none without fields, else `META:` and one line per field. -/
def metaLines (fields : List FLine) : Nat := if fields.isEmpty then 0 else 1 + fields.length

/-- **canonical text of a unified document**: envelope line, `META:` and the fields at two spaces (when there are fields),
the body forest at depth 0 with all its comments, the document's trailing comments, `===END===`. -/
def dDocText (name : Str) (fields : List FLine) (nodes : List DNode) (trailing : List Str) : Str :=
  docText name (withMeta fields nodes) trailing

/-- its tokens in reading order, EOF included. -/
def dDocToks (name : Str) (fields : List FLine) (nodes : List DNode) (trailing : List Str) : List Token :=
  docToks name (withMeta fields nodes) trailing

/-- the lexer's receipts on it (identifier notes only), oldest first. -/
def dDocReps (fields : List FLine) (nodes : List DNode) : List Repair := (forestRepsRev 0 2 (withMeta fields nodes)).reverse

theorem forestOK_fields (env : Env) (fields : List FLine) (h : ∀ ln ∈ fields, ln.OK) :
    forestOK env (fields.map fun ln => DNode.line ln [] none) := by
  induction fields with
  | nil => trivial
  | cons ln ls ih =>
    simp only [List.map_cons, forestOK, DNode.OK]
    exact ⟨⟨h ln (by simp), by simp, trivial⟩, ih (fun l hl => h l (by simp [hl]))⟩

theorem forestOK_withMeta (env : Env) (fields : List FLine) (nodes : List DNode) (hf : ∀ ln ∈ fields, ln.OK)
    (hok : forestOK env nodes) : forestOK env (withMeta fields nodes) := by
  unfold withMeta
  split
  · exact hok
  · simp only [forestOK, metaDNode, DNode.OK]
    exact ⟨⟨by decide, by decide, by simp, forestOK_fields env fields hf⟩, hok⟩

/-- **The lexer on the canonical text of a unified document**: exactly `dDocToks` (`META:` is lexed like a block header,
every field as `INDENT(2) IDENTIFIER ASSIGN value NEWLINE`, every comment as ONE COMMENT token, every `§` as ONE SECTION
token), positions included, both lexer modes; no receipt but the identifier notes. -/
theorem tokenize_dDoc (env : Env) (lenient : Bool) (name : Str) (fields : List FLine) (nodes : List DNode) (trailing : List Str)
    (hsec : env.isDigit '§' = false)
    (hn : isEnvName name = true) (hne : name ≠ "END".toList) (hf : ∀ ln ∈ fields, ln.OK) (hok : forestOK env nodes)
    (htr : ∀ c ∈ trailing, CommentOK env c)
    (hnfc : ∀ l ∈ splitLines (dDocText name fields nodes trailing), env.nfc l = l) :
    tokenize env (dDocText name fields nodes trailing) lenient = .ok (dDocToks name fields nodes trailing, dDocReps fields nodes) :=
  tokenize_doc env lenient name (withMeta fields nodes) trailing hsec hn hne (forestOK_withMeta env fields nodes hf hok) htr hnfc

theorem forestRows_fields (fields : List FLine) :
    (forestRows 1 (fields.map fun ln => DNode.line ln [] none)).map rowText = fields.map fun ln => rowText (1, ln.text) := by
  induction fields with
  | nil => rfl
  | cons ln ls ih =>
    simp only [List.map_cons, forestRows, DNode.rows, leadRows, List.map_nil, List.nil_append, trailText, List.append_nil,
      List.cons_append, ih]

/-- the rows of the text below the envelope line when there are fields: `META:`, the fields, the body. -/
theorem forestRows_withMeta (f : FLine) (fs : List FLine) (nodes : List DNode) :
    (forestRows 0 (withMeta (f :: fs) nodes)).map rowText
      = ("META:".toList :: (f :: fs).map fun ln => rowText (1, ln.text)) ++ (forestRows 0 nodes).map rowText := by
  have h := forestRows_fields (f :: fs)
  show (forestRows 0 (metaDNode (f :: fs) :: nodes)).map rowText = _
  rw [forestRows, List.map_append]
  have hr : (metaDNode (f :: fs)).rows 0
      = (0, "META:".toList) :: forestRows 1 ((f :: fs).map fun ln => DNode.line ln [] none) := rfl
  rw [hr, List.map_cons, h]
  rfl

/-- **The emitter on a unified document** writes exactly `dDocText`, whatever positions the nodes carry: `META:` and one
line per field (nothing for an empty `meta`), every node with its leading comments above it at its own indentation (a
section's too), the trailing comment after the value, the document's trailing comments before `===END===`. -/
theorem emit_doc_matches (env : Env) (name : Str) (fields : List FLine) (nodes : List DNode) (trailing : List Str)
    (sections : List Node) (hm : forestMatches nodes sections) (hfe : ∀ ln ∈ fields, ln.MetaEmitOK)
    (h : forestEmitOK env nodes) (htr : ∀ c ∈ trailing, env.strip c = c) :
    emit env { name := name, metaKv := metaKvOf fields, sections := sections, trailingComments := trailing }
      = some (dDocText name fields nodes trailing) := by
  have ht := emitTop_d env nodes sections hm h
  have hml := emitMetaLines_fields fields hfe
  have hfin : ∀ (R : List Str), finishText (("===".toList ++ name ++ "===".toList) ++ ['\n'] ++ (unlines R ++ "===END===".toList))
      = "===".toList ++ name ++ "===".toList ++ '\n' :: (unlines R ++ ("===END===".toList ++ ['\n'])) := by
    intro R
    have hlast : (("===".toList ++ name ++ "===".toList) ++ ['\n'] ++ (unlines R ++ "===END===".toList)).getLast? = some '=' := by
      rw [List.getLast?_append, List.getLast?_append]; rfl
    simp only [finishText, hlast]
    simp
  cases fields with
  | nil =>
    have hj := joinWith_unlines ((docRows nodes trailing).map rowText) "===END===".toList
    unfold emit emitBody
    simp only [metaKvOf, List.map_nil, emitMetaLines, ht, leadingLines_eq env 0 trailing htr, List.isEmpty_nil, Bool.true_or,
      if_true, Bool.false_eq_true, if_false, List.nil_append, List.append_nil, bind, Option.bind, pure, Option.map]
    show some (finishText (joinWith ['\n'] (("===".toList ++ name ++ "===".toList) ::
      ((forestRows 0 nodes).map rowText ++ (leadRows 0 trailing).map rowText ++ ["===END===".toList])))) = _
    rw [← List.map_append, ← docRows]
    have hne : (docRows nodes trailing).map rowText ++ ["===END===".toList] ≠ [] := by simp
    obtain ⟨x, xs, hx⟩ := List.exists_cons_of_ne_nil hne
    rw [hx, joinWith, ← hx, hj, hfin]
    simp [dDocText, withMeta, docText_rows]
  | cons f fs =>
    have hkv : (metaKvOf (f :: fs)).isEmpty = false := rfl
    have hle : ((f :: fs).map fun ln => rowText (1, ln.text)).isEmpty = false := rfl
    unfold emit emitBody
    simp only [hml, ht, hkv, hle, leadingLines_eq env 0 trailing htr, Bool.false_or, Bool.false_eq_true, if_false,
      List.nil_append, List.append_nil, bind, Option.bind, pure, Option.map]
    have hrows : (docRows (withMeta (f :: fs) nodes) trailing).map rowText
        = ("META:".toList :: (f :: fs).map fun ln => rowText (1, ln.text)) ++
            ((forestRows 0 nodes).map rowText ++ (leadRows 0 trailing).map rowText) := by
      rw [docRows, List.map_append, forestRows_withMeta, List.append_assoc]
    have hj : joinWith ['\n'] (["===".toList ++ name ++ "===".toList] ++
                  [joinWith ['\n'] ("META:".toList :: List.map (fun ln => rowText (1, ln.text)) (f :: fs))] ++
                List.map rowText (forestRows 0 nodes) ++ List.map rowText (leadRows 0 trailing) ++ ["===END===".toList])
        = ("===".toList ++ name ++ "===".toList) ++ ['\n'] ++
            (unlines ((docRows (withMeta (f :: fs) nodes) trailing).map rowText) ++ "===END===".toList) := by
      simp only [List.cons_append, List.nil_append, List.append_assoc]
      rw [joinWith, joinWith_join_head _ _ _ (by simp) (by simp), hrows, ← joinWith_unlines]
      simp only [List.cons_append, List.append_assoc, List.nil_append]
    rw [hj, hfin]
    simp [dDocText, docText_rows]

mutual
/-- the AST of a forest with positions chosen by `pos` from the (0-based) index of the node's own line below the envelope
line and its depth; comments in the `leading` / `trailing` fields. -/
def DNode.node (pos : Nat → Nat → Nat × Nat) (i d : Nat) : DNode → Node
  | .line ln lead trail => .assign ln.key ln.v.value (pos (i + lead.length) d).1 (pos (i + lead.length) d).2 lead trail
  | .block key cs lead =>
    .block key (forestNodes pos (i + lead.length + 1) (d + 1) cs) (pos (i + lead.length) d).1 (pos (i + lead.length) d).2 lead none
  | .sect id key cs lead =>
    .sect id.text key none (forestNodes pos (i + lead.length + 1) (d + 1) cs) (pos (i + lead.length) d).1 (pos (i + lead.length) d).2 lead
def forestNodes (pos : Nat → Nat → Nat × Nat) (i d : Nat) : List DNode → List Node
  | [] => []
  | n :: ns => n.node pos i d :: forestNodes pos (i + n.nlines) d ns
end

mutual
theorem DNode.node_matches (pos : Nat → Nat → Nat × Nat) : ∀ (t : DNode) (i d : Nat), t.Matches (t.node pos i d)
  | .line ln lead trail, i, d => by simp only [DNode.Matches, DNode.node]; exact ⟨_, _, rfl⟩
  | .block key cs lead, i, d => by
    simp only [DNode.Matches, DNode.node]
    exact ⟨_, _, _, rfl, forestNodes_matches pos cs (i + lead.length + 1) (d + 1)⟩
  | .sect id key cs lead, i, d => by
    simp only [DNode.Matches, DNode.node]
    exact ⟨_, _, _, rfl, forestNodes_matches pos cs (i + lead.length + 1) (d + 1)⟩
theorem forestNodes_matches (pos : Nat → Nat → Nat × Nat) : ∀ (ts : List DNode) (i d : Nat), forestMatches ts (forestNodes pos i d ts)
  | [], i, d => by simp [forestMatches, forestNodes]
  | t :: ts, i, d => by
    simp only [forestMatches, forestNodes]
    exact ⟨_, _, rfl, DNode.node_matches pos t i d, forestNodes_matches pos ts (i + t.nlines) d⟩
end

/-- **the unified document**: the fields in `meta` (in order), the forest in `sections` (the body node whose own line is
line `i` below the envelope line, at depth `d`, gets the position `pos i d`), the document's trailing comments. -/
def dDoc (name : Str) (pos : Nat → Nat → Nat × Nat) (fields : List FLine) (nodes : List DNode) (trailing : List Str) : Document :=
  { name := name, metaKv := metaKvOf fields, sections := forestNodes pos (metaLines fields) 0 nodes, trailingComments := trailing }

theorem emit_dDoc (env : Env) (name : Str) (pos : Nat → Nat → Nat × Nat) (fields : List FLine) (nodes : List DNode)
    (trailing : List Str) (hfe : ∀ ln ∈ fields, ln.MetaEmitOK) (h : forestEmitOK env nodes) (htr : ∀ c ∈ trailing, env.strip c = c) :
    emit env (dDoc name pos fields nodes trailing) = some (dDocText name fields nodes trailing) :=
  emit_doc_matches env name fields nodes trailing _ (forestNodes_matches pos nodes _ 0) hfe h htr


/-! ### every hypothesis is decidable -/

instance decFScalarOK (v : FScalar) : Decidable v.OK := by
  cases v <;> (simp only [FScalar.OK]; exact inferInstance)

instance decFLineOK (ln : FLine) : Decidable ln.OK := by unfold FLine.OK; exact inferInstance

instance decSecIdOK (id : SecId) : Decidable id.OK := by
  cases id <;> (simp only [SecId.OK]; exact inferInstance)

instance decFLineEmitOK (ln : FLine) : Decidable ln.EmitOK := by
  obtain ⟨key, v⟩ := ln
  cases v <;> (simp only [FLine.EmitOK]; exact inferInstance)

instance decLineEmitOK (env : Env) (ln : FLine) (lead : List Str) (trail : Option Str) :
    Decidable (CNode.LineEmitOK env ln lead trail) := by unfold CNode.LineEmitOK; exact inferInstance

mutual
def DNode.decOK (env : Env) : (n : DNode) → Decidable (n.OK env)
  | .line ln lead trail => by simp only [DNode.OK]; exact inferInstance
  | .block key cs lead => by
    have := forestDecOK env cs
    simp only [DNode.OK]; exact inferInstance
  | .sect id key cs lead => by
    have := forestDecOK env cs
    simp only [DNode.OK]; exact inferInstance
def forestDecOK (env : Env) : (ns : List DNode) → Decidable (forestOK env ns)
  | [] => by simp only [forestOK]; exact inferInstance
  | n :: ns => by
    have := DNode.decOK env n
    have := forestDecOK env ns
    simp only [forestOK]; exact inferInstance
end

instance (env : Env) (n : DNode) : Decidable (n.OK env) := DNode.decOK env n
instance (env : Env) (ns : List DNode) : Decidable (forestOK env ns) := forestDecOK env ns

mutual
def DNode.decEmitOK (env : Env) : (n : DNode) → Decidable (n.EmitOK env)
  | .line ln lead trail => by simp only [DNode.EmitOK]; exact inferInstance
  | .block key cs lead => by
    have := forestDecEmitOK env cs
    simp only [DNode.EmitOK]; exact inferInstance
  | .sect id key cs lead => by
    have := forestDecEmitOK env cs
    simp only [DNode.EmitOK]; exact inferInstance
def forestDecEmitOK (env : Env) : (ns : List DNode) → Decidable (forestEmitOK env ns)
  | [] => by simp only [forestEmitOK]; exact inferInstance
  | n :: ns => by
    have := DNode.decEmitOK env n
    have := forestDecEmitOK env ns
    simp only [forestEmitOK]; exact inferInstance
end

instance (env : Env) (n : DNode) : Decidable (n.EmitOK env) := DNode.decEmitOK env n
instance (env : Env) (ns : List DNode) : Decidable (forestEmitOK env ns) := forestDecEmitOK env ns

end Octave.D
