/-
CONTENT of a document of the TEXT engine's AST (`Model/Ast.lean`): the document with every piece of SPELLING erased.

This is the text-engine twin of `lean/validator/Octave/Model/Doc.lean` (`Node.erase`, `Node.eraseList`, `Doc.erasePairs`,
`Doc.content`) and `lean/validator/Octave/Model/Value.lean` (`Val.erase`, `Val.eraseList`, `Val.erasePairs`).  The validator
engine proves that `validate` is a function of `Doc.content` (`C09_congr`); `Props/C09respell.lean` proves that two spellings of
one document are read as documents with the same `Document.content`.

Correspondence of the two ASTs (validator engine → text engine), constructor by constructor:

  validator `Pos {line, column, leading, trailing}`     text: the fields `line col leading trailing` of `Node.assign`,
                                                              `line col leading` of `Node.block` / `Node.sect` (the text AST
                                                              stores no trailing comment on blocks / sections)
  `Node.assign p k v`            → `.assign {} k v.erase`      `Node.assign k v l c lead tr`  → `.assign k v.erase 0 0 [] none`
  `Node.block p k t cs`          → `.block {} k t (eraseList cs)`   `Node.block k cs l c lead t`   → `.block k (eraseList cs) 0 0 [] t`
  `Node.sect p i k a cs`         → `.sect {} i k a (eraseList cs)`  `Node.sect i k a cs l c lead`  → `.sect i k a (eraseList cs) 0 0 []`
  `Node.other p id`              → `.other {} id`              `Node.comment text`           → `.comment text`  (no position
                                                              fields to erase; the payload is kept, as `id` is)
  `Val.list items sp`            → `.list (eraseList items) []`    `Value.list items`   → `.list (eraseList items)`  (the text AST
                                                              carries no token slice: nothing but the recursion is left)
  `Val.map pairs`                → `.map (erasePairs pairs)`   `Value.imap pairs`   → `.imap (erasePairs pairs)`
  every other `Val`              → itself                      every other `Value`  → itself
  `Doc.content`: `p := {}`, `metaBlock := erasePairs`, `sections := eraseList`, `trailingComments := []`;
                 `name hasSeparator frontmatter grammarVersion` kept
                                                              `Document.content`: `metaKv := MetaVal.erasePairs`, `sections :=
                                                              eraseList`, `trailingComments := []`; `name hasSeparator
                                                              rawFrontmatter grammarVersion` kept (a text `Document` has no
                                                              position of its own)
  META values: the validator engine holds `doc.meta` as `List (Str × Val)` (a nested dict is a `Val.map`); the text engine
  holds `MetaVal` (`val v` | `dict kv`, one nested level): `MetaVal.erase` erases the values on both levels.

Because the text AST's `Value` has no spelling payload, `Value.erase` is the identity (`Value.erase_id`); it is nevertheless
written as the validator's recursion so that the two files can be compared line by line.
-/
import Octave.Model.Ast
namespace Octave

-- BEGIN COPY validator/Model/Value.lean erase   (lines `mutual … end` of `Val.erase` / `eraseList` / `erasePairs`;
--   `list items _ => .list (eraseList items) []` loses its token-slice argument, `map` is `imap` here)
namespace Value
mutual
/-- Erase everything that is spelling, keep everything that is content. -/
def erase : Value → Value
  | list items => .list (eraseList items)
  | imap pairs => .imap (erasePairs pairs)
  | v => v
def eraseList : List Value → List Value
  | [] => []
  | v :: vs => erase v :: eraseList vs
def erasePairs : List (Str × Value) → List (Str × Value)
  | [] => []
  | (k, v) :: ps => (k, erase v) :: erasePairs ps
end
end Value
-- END COPY validator/Model/Value.lean erase

namespace MetaVal
/-- a META entry's value: the value, or the values of one nested dict level. -/
def erase : MetaVal → MetaVal
  | val v => .val v.erase
  | dict kv => .dict (Value.erasePairs kv)

-- mirrors `Doc.erasePairs` of validator/Model/Doc.lean on the text engine's META representation
def erasePairs : List (Str × MetaVal) → List (Str × MetaVal)
  | [] => []
  | (k, v) :: ps => (k, erase v) :: erasePairs ps
end MetaVal

-- BEGIN COPY validator/Model/Doc.lean erase   (lines `mutual … end` of `Node.erase` / `Node.eraseList`; `Pos := {}` is
--   `line := 0, col := 0, leading := [], trailing := none`; `other` is `comment`)
namespace Node
mutual
/-- Erase spelling from a node (positions, comments, token slices in values). -/
def erase : Node → Node
  | assign k v _ _ _ _ => .assign k v.erase 0 0 [] none
  | block k cs _ _ _ t => .block k (eraseList cs) 0 0 [] t
  | sect i k a cs _ _ _ => .sect i k a (eraseList cs) 0 0 []
  | comment text => .comment text
def eraseList : List Node → List Node
  | [] => []
  | n :: ns => erase n :: eraseList ns
end

/-- `Node.content`: the name the C09 statements use. -/
abbrev content (n : Node) : Node := n.erase
abbrev contentList (ns : List Node) : List Node := eraseList ns
end Node
-- END COPY validator/Model/Doc.lean erase

namespace Document
-- BEGIN COPY validator/Model/Doc.lean content   (`Doc.content`; a text `Document` has no `p`)
/-- `content d`: the document with every piece of spelling erased.  Two documents have the same
content iff `content d₁ = content d₂`. -/
def content (d : Document) : Document :=
  { d with metaKv := MetaVal.erasePairs d.metaKv, sections := Node.eraseList d.sections, trailingComments := [] }
-- END COPY validator/Model/Doc.lean content
end Document

/-! ### facts -/

namespace Value
mutual
/-- the text AST's values hold no spelling: erasure is the identity. -/
theorem erase_id : ∀ v : Value, v.erase = v
  | .null => rfl
  | .bool _ => rfl
  | .int _ => rfl
  | .float _ => rfl
  | .str _ => rfl
  | .list items => by simp only [erase, eraseList_id items]
  | .imap pairs => by simp only [erase, erasePairs_id pairs]
  | .holo _ => rfl
  | .zone _ _ _ => rfl
  | .absent => rfl
theorem eraseList_id : ∀ vs : List Value, eraseList vs = vs
  | [] => rfl
  | v :: vs => by simp only [eraseList, erase_id v, eraseList_id vs]
theorem erasePairs_id : ∀ ps : List (Str × Value), erasePairs ps = ps
  | [] => rfl
  | (k, v) :: ps => by simp only [erasePairs, erase_id v, erasePairs_id ps]
end
end Value

namespace MetaVal
theorem erase_id (m : MetaVal) : m.erase = m := by
  cases m <;> simp only [erase, Value.erase_id, Value.erasePairs_id]

theorem erasePairs_id : ∀ ps : List (Str × MetaVal), erasePairs ps = ps
  | [] => rfl
  | (k, v) :: ps => by simp only [erasePairs, erase_id v, erasePairs_id ps]
end MetaVal

namespace Node
mutual
/-- erasure is idempotent: a content is its own content. -/
theorem erase_erase : ∀ n : Node, n.erase.erase = n.erase
  | .assign k v _ _ _ _ => by simp only [erase, Value.erase_id]
  | .block k cs _ _ _ t => by simp only [erase, eraseList_eraseList cs]
  | .sect i k a cs _ _ _ => by simp only [erase, eraseList_eraseList cs]
  | .comment _ => rfl
theorem eraseList_eraseList : ∀ ns : List Node, eraseList (eraseList ns) = eraseList ns
  | [] => rfl
  | n :: ns => by simp only [eraseList, erase_erase n, eraseList_eraseList ns]
end

theorem eraseList_append : ∀ (a b : List Node), eraseList (a ++ b) = eraseList a ++ eraseList b
  | [], _ => rfl
  | n :: a, b => by simp only [List.cons_append, eraseList, eraseList_append a b]

theorem eraseList_eq_map : ∀ ns : List Node, eraseList ns = ns.map erase
  | [] => rfl
  | n :: ns => by simp only [eraseList, List.map_cons, eraseList_eq_map ns]

/-- an assignment's content: key and value; nothing of where or how it was written. -/
theorem erase_assign (k : Str) (v : Value) (l c : Nat) (lead : List Str) (tr : Option Str) :
    (Node.assign k v l c lead tr).erase = .assign k v 0 0 [] none := by
  simp only [erase, Value.erase_id]
end Node

namespace Document
theorem content_content (d : Document) : d.content.content = d.content := by
  simp only [content, MetaVal.erasePairs_id, Node.eraseList_eraseList]

/-- what `content` keeps. -/
theorem content_fields (d : Document) :
    d.content.name = d.name ∧ d.content.metaKv = d.metaKv ∧ d.content.hasSeparator = d.hasSeparator ∧
    d.content.grammarVersion = d.grammarVersion ∧ d.content.rawFrontmatter = d.rawFrontmatter ∧
    d.content.sections = Node.eraseList d.sections ∧ d.content.trailingComments = [] :=
  ⟨rfl, MetaVal.erasePairs_id _, rfl, rfl, rfl, rfl, rfl⟩
end Document

end Octave
