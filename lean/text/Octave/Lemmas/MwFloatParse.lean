import Octave.Lemmas.MwNumParse
import Octave.Lemmas.MwBoolParse
import Octave.Lemmas.MwFloatLex
/-!
NUMBER-HEADED MULTI-WORD VALUES WITH ANY NUMBER LEXEME — parser half (token lists with ARBITRARY positions).  A port of
`MwBoolParse` with the wider head type `MfHead` (one more constructor `.num s sc`).

* `parseValue_fwnum`   for ANY NUMBER token `t` (int or float value, any `raw`): `parse_value` on `t IDENTIFIER+` returns
                       `.str (tokStr t and the words joined by one space)` — `tokStr t` is the token's RAW lexeme — and
                       pushes exactly ONE warning: `multi_word_coalesce`, context `number_identifier`, at `t`;
* `parseValue_fw`      any head (`MfHead`);
* `parseSection_mwfline`, `docLoop_mwf`, `parseDocument_mwf`   lines, body loop, whole document, exact warnings `mwfWarns`.
-/
namespace Octave.MWF
open Octave Parser FlatParse Expr MW MWN MWB

local macro "step_simp" "[" ts:Lean.Parser.Tactic.simpLemma,* "]" : tactic =>
  `(tactic| simp only [bind, StateT.bind, Except.bind, pure, StateT.pure, Except.pure, current_mk, peek_mk, advance_mk,
      curType_mk, isAdjacentBracket_mk, budget_mk, warn_mk, get, getThe, MonadStateOf.get, StateT.get,
      Bool.false_eq_true, if_false, if_true, Bool.false_and, Bool.and_false, Bool.or_false, Bool.false_or,
      List.length_cons, List.length_nil, beq_iff_eq, bne_iff_ne, ne_eq, reduceCtorEq, not_true_eq_false, not_false_eq_true,
      Bool.and_eq_true, Bool.or_eq_true, Bool.not_eq_true', beq_eq_false_iff_ne, false_and, and_false, true_and, and_true,
      false_or, or_false, true_or, or_true, decide_eq_true_eq,
      beq_self_eq_true, Bool.true_or, Bool.or_true, Bool.true_and, Bool.and_true, Bool.not_true, Bool.not_false, $ts,*])

/-! ### ANY NUMBER token as head: the `number_identifier` loop -/

theorem parseValue_fwnum (t : Token) (hty : t.type = TT.number) {ws : List Str} {ts : List Token} (h : MWToks ws ts) (hne : ws ≠ [])
    (next : Token) (k : List Token) (hn : endsValue next.type = true) (fuel : Nat)
    (p : Option Token) (n : Nat) (la : Token) (w : List Warning) (d : Nat) (wd : List Nat) (s : Bool) (th : Nat) (al : Char → Bool) :
    ∃ p', parseValue (fuel + ts.length + 2)
        { rest := t :: (ts ++ next :: k), prev := p, pos := n, last := la, warnings := w, depth := d, warned := wd, strict := s, threshold := th, alpha := al }
      = .ok (.str (spaceJoin (tokStr t :: ws)),
             { rest := next :: k, prev := p', pos := n + 1 + ts.length, last := la,
               warnings := .multiWord (tokStr t :: ws) (spaceJoin (tokStr t :: ws)) "number_identifier".toList t.line t.col :: w, depth := d,
               warned := wd, strict := s, threshold := th, alpha := al }) := by
  obtain ⟨hv, he, hl', hb'⟩ := (endsValue_iff _).1 hn
  cases h with
  | nil => exact absurd rfl hne
  | cons x l1 c1 h' =>
    rename_i ws' ts'
    have hcons : MWToks (x :: ws') (tIdent x l1 c1 :: ts') := MWToks.cons x l1 c1 h'
    obtain ⟨p', hrun⟩ := numberWords_run hcons (fuel + 1) t [tokStr t] next k he hl' (some t) (n + 1) la w d wd s th al
    refine ⟨p', ?_⟩
    have ht2 : (tIdent x l1 c1).type = TT.identifier := rfl
    have hv2 : isValueTok TT.identifier = true := rfl
    have hf : fuel + (tIdent x l1 c1 :: ts').length + 2 = (fuel + 1 + (tIdent x l1 c1 :: ts').length) + 1 := by omega
    rw [hf, parseValue]
    simp only [List.cons_append, List.nil_append, List.length_cons] at hrun
    step_simp [List.cons_append, hty, ht2, hv2]
    rw [hrun, numberWords_end (hv := hv) (hl := hl')]

theorem mwfRaw_tok (sc : FlatParse.Scalar) (s : Str) (h : mwfRaw sc = some s) (l c : Nat) :
    (sc.tok l c).type = TT.number ∧ tokStr (sc.tok l c) = s ∧ (sc.tok l c).line = l ∧ (sc.tok l c).col = c := by
  cases sc with
  | int i raw => simp only [mwfRaw, Option.some.injEq] at h; subst h; exact ⟨rfl, rfl, rfl, rfl⟩
  | float r raw => simp only [mwfRaw, Option.some.injEq] at h; subst h; exact ⟨rfl, rfl, rfl, rfl⟩
  | str _ => simp [mwfRaw] at h
  | bool _ => simp [mwfRaw] at h
  | null => simp [mwfRaw] at h
  | word _ => simp [mwfRaw] at h

/-- the head is a quoted string (its token is a STRING token). -/
def MfHead.isStr : MfHead → Bool
  | .str _ => true
  | .num _ (.str _) => true
  | _ => false

theorem mwf_isStr_true (hd : MfHead) (l c : Nat) (h : hd.isStr = true) : (hd.tok l c).type = TT.string := by
  cases hd with
  | num s sc => cases sc <;> first | rfl | simp [MfHead.isStr] at h
  | _ => first | rfl | simp [MfHead.isStr] at h
theorem mwf_isStr_false (hd : MfHead) (l c : Nat) (h : hd.isStr = false) : (hd.tok l c).type ≠ TT.string := by
  cases hd with
  | word w => simp [MfHead.tok, tIdent]
  | int i => simp [MfHead.tok, tInt]
  | str sv => simp [MfHead.isStr] at h
  | bool b => simp [MfHead.tok, tBool]
  | null => simp [MfHead.tok, tNull]
  | ver d1 d2 d3 => simp [MfHead.tok, tVersion]
  | num s sc => cases sc <;> first | (simp [MfHead.isStr] at h; done) | simp [MfHead.tok, FlatParse.Scalar.tok]

/-- parser-side condition on the head: a word head carries no `<annotation>`. -/
def MfHead.PWF : MfHead → Prop
  | .word w => hasAnnotation w = false
  | .num s sc => mwfRaw sc = some s
  | _ => True

/-- **`parse_value` on a multi-word value with any head** (word, integer, string, boolean, null, version). -/
theorem parseValue_fw (hd : MfHead) (l c : Nat) {ws : List Str} {ts : List Token} (h : MWToks ws ts) (hne : ws ≠ [])
    (hah : hd.PWF) (haw : ∀ w ∈ ws, hasAnnotation w = false)
    (next : Token) (k : List Token) (hn : endsValue next.type = true) (fuel : Nat)
    (p : Option Token) (n : Nat) (la : Token) (w : List Warning) (d : Nat) (wd : List Nat) (s : Bool) (th : Nat) (al : Char → Bool) :
    ∃ p', parseValue (fuel + ts.length + 2)
        { rest := hd.tok l c :: (ts ++ next :: k), prev := p, pos := n, last := la, warnings := w, depth := d, warned := wd, strict := s, threshold := th, alpha := al }
      = .ok (.str (spaceJoin (hd.part :: ws)),
             { rest := next :: k, prev := p', pos := n + 1 + ts.length, last := la,
               warnings := .multiWord (hd.part :: ws) (spaceJoin (hd.part :: ws)) hd.ctx l c :: w, depth := d,
               warned := wd, strict := s, threshold := th, alpha := al }) := by
  cases hd with
  | word x => exact parseValue_mw x l c h hne hah haw next k hn fuel p n la w d wd s th al
  | int i => exact parseValue_nwint i l c h hne next k hn fuel p n la w d wd s th al
  | str sv => exact parseValue_nwstr sv l c h hne next k hn fuel p n la w d wd s th al
  | bool b =>
    cases b
    · exact parseValue_bwbool (tBool false l c) rfl h hne next k hn fuel p n la w d wd s th al
    · exact parseValue_bwbool (tBool true l c) rfl h hne next k hn fuel p n la w d wd s th al
  | null => exact parseValue_bwnull (tNull l c) rfl h hne next k hn fuel p n la w d wd s th al
  | ver d1 d2 d3 => exact parseValue_bwver (tVersion (verText d1 d2 d3) l c) rfl h hne next k hn fuel p n la w d wd s th al
  | num sx sc =>
    obtain ⟨e1, e2, e3, e4⟩ := mwfRaw_tok sc sx hah l c
    obtain ⟨p', hp'⟩ := parseValue_fwnum (sc.tok l c) e1 h hne next k hn fuel p n la w d wd s th al
    rw [e2, e3, e4] at hp'
    exact ⟨p', hp'⟩

/-! ### `parseSection` on one line `KEY::w0 w1 … wn` -/

/-- one line `KEY::w0 w1 … wn NEWLINE` at token level: every position arbitrary. -/
structure MfTLine where
  key : Str
  /-- line and column of the key token -/
  l : Nat
  c1 : Nat
  /-- column of `::` -/
  c2 : Nat
  /-- the first word and its position -/
  hd : MfHead
  hl : Nat
  hc : Nat
  /-- the further words and their tokens -/
  ws : List Str
  ts : List Token
  /-- position of the NEWLINE -/
  nlL : Nat
  nlC : Nat

/-- the tokens are tokens of the words; at least two words; no word carries an annotation. -/
def MfTLine.WF (x : MfTLine) : Prop :=
  MWToks x.ws x.ts ∧ x.ws ≠ [] ∧ x.hd.PWF ∧ ∀ w ∈ x.ws, hasAnnotation w = false

def MfTLine.nlTok (x : MfTLine) : Token := tNewline x.nlL x.nlC
def MfTLine.toks (x : MfTLine) : List Token :=
  tIdent x.key x.l x.c1 :: tAssign x.l x.c2 :: x.hd.tok x.hl x.hc :: (x.ts ++ [x.nlTok])
/-- the string the reader makes of the words. -/
def MfTLine.result (x : MfTLine) : Str := spaceJoin (x.hd.part :: x.ws)
/-- the Assignment node: the value is the words joined by one space, as a string. -/
def MfTLine.node (x : MfTLine) : Node := .assign x.key (.str x.result) x.l x.c1 [] none
/-- **the receipt**: `multi_word_coalesce` with the words, the result, line and column of the first word. -/
def MfTLine.receipt (x : MfTLine) : Warning := .multiWord (x.hd.part :: x.ws) x.result x.hd.ctx x.hl x.hc
/-- the parser warnings of the line, newest first (W_PATTERN_AUTOQUOTE only under the keys `PATTERN` / `REGEX`, and not
when the value starts with a quoted STRING). -/
def MfTLine.warnsRev (x : MfTLine) : List Warning :=
  (if x.hd.isStr then [] else autoquote x.key x.result x.l x.c1) ++ [x.receipt]

theorem parseSection_mwfline (x : MfTLine) (hx : x.WF) (k : List Token) (fuel : Nat)
    (p : Option Token) (n : Nat) (la : Token) (w : List Warning) (wd : List Nat) (s : Bool) (th : Nat) (al : Char → Bool) :
    ∃ p', parseSection (fuel + x.ts.length + 3) []
        { rest := x.toks ++ k, prev := p, pos := n, last := la, warnings := w, depth := 0, warned := wd, strict := s, threshold := th, alpha := al }
      = .ok (some x.node,
             { rest := x.nlTok :: k, prev := p', pos := n + 3 + x.ts.length, last := la, warnings := x.warnsRev ++ w, depth := 0,
               warned := wd, strict := s, threshold := th, alpha := al }) := by
  obtain ⟨key, l, c1, c2, hd, hl, hc, ws, ts, nlL, nlC⟩ := x
  obtain ⟨hts, hne, hah, haw⟩ := hx
  simp only at hts hne hah haw
  obtain ⟨p', hpv⟩ := parseValue_fw hd hl hc hts hne hah haw (tNewline nlL nlC) k rfl fuel (some (tAssign l c2)) (n + 1 + 1) la w 0 wd s th al
  refine ⟨p', ?_⟩
  have hshape : MfTLine.toks ⟨key, l, c1, c2, hd, hl, hc, ws, ts, nlL, nlC⟩ ++ k
      = tIdent key l c1 :: tAssign l c2 :: (hd.tok hl hc :: (ts ++ tNewline nlL nlC :: k)) := by
    simp [MfTLine.toks, MfTLine.nlTok, List.append_assoc]
  have ht1 : (tIdent key l c1).type = TT.identifier := rfl
  have ht2 : (tAssign l c2).type = TT.assign := rfl
  have ht4 : (tNewline nlL nlC).type = TT.newline := rfl
  have hv1 : (tIdent key l c1).value = TVal.str key := rfl
  have hf : fuel + ts.length + 3 = (fuel + ts.length + 2) + 1 := by omega
  dsimp only
  rw [hshape, hf, parseSection]
  cases hq : hd.isStr with
  | false =>
    have ht3 : (hd.tok hl hc).type ≠ TT.string := mwf_isStr_false hd hl hc hq
    step_simp [ht1, ht2, ht3, hv1, pyStrVal_str]
    rw [hpv]
    by_cases hk : key = "PATTERN".toList ∨ key = "REGEX".toList
    · step_simp [hk, hq, ht4, MfTLine.node, MfTLine.warnsRev, MfTLine.receipt, MfTLine.result, MfTLine.nlTok, autoquote, List.cons_append, List.nil_append]
      have hp : n + 1 + 1 + 1 + ts.length = n + 3 + ts.length := by omega
      rw [hp]; rfl
    · step_simp [hk, hq, ht4, MfTLine.node, MfTLine.warnsRev, MfTLine.receipt, MfTLine.result, MfTLine.nlTok, autoquote, List.cons_append, List.nil_append]
      have hp : n + 1 + 1 + 1 + ts.length = n + 3 + ts.length := by omega
      rw [hp]; rfl
  | true =>
    have ht3 : (hd.tok hl hc).type = TT.string := mwf_isStr_true hd hl hc hq
    step_simp [ht1, ht2, ht3, hv1, pyStrVal_str]
    rw [hpv]
    step_simp [hq, ht4, MfTLine.node, MfTLine.warnsRev, MfTLine.receipt, MfTLine.result, MfTLine.nlTok, List.cons_append, List.nil_append]
    have hp : n + 1 + 1 + 1 + ts.length = n + 3 + ts.length := by omega
    rw [hp]; rfl

/-! ### the body loop of `parseDocument` on lines with scalar or multi-word values -/

/-- a line of the body at token level: a scalar line (`FlatParse.Line`) or a multi-word line. -/
inductive MfQLine where
  | sc (ln : Line)
  | nw (x : MfTLine)

def MfQLine.toks : MfQLine → List Token
  | .sc ln => ln.toks
  | .nw x => x.toks
def MfQLine.node : MfQLine → Node
  | .sc ln => ln.node
  | .nw x => x.node
def MfQLine.key : MfQLine → Str
  | .sc ln => ln.key
  | .nw x => x.key
def MfQLine.l : MfQLine → Nat
  | .sc ln => ln.l
  | .nw x => x.l
/-- the warnings of the line's value, in emission order. -/
def MfQLine.warns : MfQLine → List Warning
  | .sc ln => ln.warns
  | .nw x => x.warnsRev.reverse
def MfQLine.WF : MfQLine → Prop
  | .sc _ => True
  | .nw x => x.WF
/-- fuel `parse_section` needs on the line. -/
def MfQLine.need : MfQLine → Nat
  | .sc _ => 3
  | .nw x => x.ts.length + 3

/-- all parser warnings of the body loop, in emission order (cf. `FlatParse.docWarns`): per line the warnings of its value,
then the duplicate-key warning if the key was seen before. -/
def mwfWarns : KeyPos → List MfQLine → List Warning
  | _, [] => []
  | kp, ln :: r => ln.warns ++ (trackPure kp ln.key ln.l).2 ++ mwfWarns (trackPure kp ln.key ln.l).1 r

theorem mwf_qline_toks_length_pos (ln : MfQLine) : 2 ≤ ln.toks.length := by
  cases ln with
  | sc ln => simp [MfQLine.toks, Line.toks]
  | nw x => simp [MfQLine.toks, MfTLine.toks]

theorem mwf_qline_need_le (ln : MfQLine) : ln.need ≤ ln.toks.length := by
  cases ln with
  | sc ln => simp [MfQLine.toks, Line.toks, MfQLine.need]
  | nw x => simp [MfQLine.toks, MfTLine.toks, MfQLine.need]

/-- **the body loop on any number of lines whose values are scalars or multi-word values**, in any order: one Assignment
per line, in order; `vf` (the fuel handed to `parse_section`) must cover the longest line. -/
theorem docLoop_mwf (vf : Nat) (lines : List MfQLine) (e : Token) (tail : List Token)
    (he : e.type = .envelopeEnd ∨ e.type = .eof) (hwf : ∀ ln ∈ lines, ln.WF) (hvf : ∀ ln ∈ lines, ln.need ≤ vf) :
    ∀ (acc : List Node) (kp : KeyPos) (extra : Nat)
      (p : Option Token) (n : Nat) (la : Token) (w : List Warning) (wd : List Nat) (s : Bool) (th : Nat) (al : Char → Bool),
    ∃ p' n', docLoop vf (2 * lines.length + 1 + extra) [] acc kp
        { rest := lines.flatMap MfQLine.toks ++ e :: tail, prev := p, pos := n, last := la, warnings := w, depth := 0, warned := wd, strict := s, threshold := th, alpha := al }
      = .ok ((acc ++ lines.map MfQLine.node, []),
             { rest := e :: tail, prev := p', pos := n', last := la, warnings := (mwfWarns kp lines).reverse ++ w, depth := 0,
               warned := wd, strict := s, threshold := th, alpha := al }) := by
  induction lines with
  | nil =>
    intro acc kp extra p n la w wd s th al
    refine ⟨p, n, ?_⟩
    have hf : 2 * ([] : List MfQLine).length + 1 + extra = extra + 1 := by simp only [List.length_nil]; omega
    rw [hf, List.flatMap_nil, List.nil_append, docLoop]
    step_simp [he]
    simp only [List.map_nil, List.append_nil, mwfWarns, List.reverse_nil, List.nil_append]
  | cons ln r ih =>
    intro acc kp extra p n la w wd s th al
    have hf : 2 * (ln :: r).length + 1 + extra = (2 * r.length + 1 + extra) + 2 := by
      simp only [List.length_cons]; omega
    have hR' : r.flatMap MfQLine.toks ++ e :: tail ≠ [] := by simp
    have hwf' : ∀ x ∈ r, x.WF := fun x hx => hwf x (List.mem_cons_of_mem _ hx)
    have hvf' : ∀ x ∈ r, x.need ≤ vf := fun x hx => hvf x (List.mem_cons_of_mem _ hx)
    have hneed := hvf ln (List.mem_cons_self ..)
    cases ln with
    | sc ln =>
      obtain ⟨vf0, rfl⟩ : ∃ vf0, vf = vf0 + 3 := ⟨vf - 3, by simp only [MfQLine.need] at hneed; omega⟩
      have hps := parseSection_flat_line
        { rest := ln.toks ++ (r.flatMap MfQLine.toks ++ e :: tail), prev := p, pos := n, last := la, warnings := w, depth := 0, warned := wd, strict := s, threshold := th, alpha := al }
        ln (r.flatMap MfQLine.toks ++ e :: tail) vf0 rfl
      obtain ⟨p', n', hih⟩ := ih hwf' hvf' (acc ++ [Node.assign ln.key ln.v.val ln.l ln.c1 [] none]) (trackPure kp ln.key ln.l).1 extra (some ln.nlTok) (n + 3 + 1) la
        ((trackPure kp ln.key ln.l).2 ++ (ln.warns ++ w)) wd s th al
      refine ⟨p', n', ?_⟩
      have hshape : (MfQLine.sc ln :: r).flatMap MfQLine.toks ++ e :: tail
          = ln.keyTok :: ([ln.assignTok, ln.valTok, ln.nlTok] ++ (r.flatMap MfQLine.toks ++ e :: tail)) := by
        simp only [List.flatMap_cons, MfQLine.toks, Line.toks, List.cons_append, List.nil_append]
      have hps' : parseSection (vf0 + 3) []
          { rest := ln.keyTok :: ([ln.assignTok, ln.valTok, ln.nlTok] ++ (r.flatMap MfQLine.toks ++ e :: tail)), prev := p, pos := n, last := la, warnings := w, depth := 0, warned := wd, strict := s, threshold := th, alpha := al }
          = .ok (some (.assign ln.key ln.v.val ln.l ln.c1 [] none),
             { rest := ln.nlTok :: (r.flatMap MfQLine.toks ++ e :: tail), prev := some ln.valTok, pos := n + 3, last := la, warnings := ln.warns ++ w, depth := 0,
               warned := wd, strict := s, threshold := th, alpha := al }) := hps
      rw [hf, hshape, docLoop_assign_step (ht := rfl) (hnl := rfl) (hR' := hR') (hps := hps'), hih]
      simp only [List.map_cons, MfQLine.node, Line.node, List.append_assoc, List.cons_append, List.nil_append, mwfWarns, MfQLine.warns,
        MfQLine.key, MfQLine.l, List.reverse_append, trackPure_warns_reverse, Line.warns_reverse]
    | nw x =>
      obtain ⟨vf0, rfl⟩ : ∃ vf0, vf = vf0 + x.ts.length + 3 := ⟨vf - (x.ts.length + 3), by simp only [MfQLine.need] at hneed; omega⟩
      obtain ⟨p1, hps⟩ := parseSection_mwfline x (hwf _ (List.mem_cons_self ..)) (r.flatMap MfQLine.toks ++ e :: tail) vf0 p n la w wd s th al
      obtain ⟨p', n', hih⟩ := ih hwf' hvf' (acc ++ [Node.assign x.key (.str x.result) x.l x.c1 [] none]) (trackPure kp x.key x.l).1 extra (some x.nlTok) (n + 3 + x.ts.length + 1) la
        ((trackPure kp x.key x.l).2 ++ (x.warnsRev ++ w)) wd s th al
      refine ⟨p', n', ?_⟩
      have hshape : (MfQLine.nw x :: r).flatMap MfQLine.toks ++ e :: tail
          = tIdent x.key x.l x.c1 :: (tAssign x.l x.c2 :: x.hd.tok x.hl x.hc :: (x.ts ++ [x.nlTok]) ++ (r.flatMap MfQLine.toks ++ e :: tail)) := by
        simp only [List.flatMap_cons, MfQLine.toks, MfTLine.toks, List.append_assoc, List.cons_append, List.nil_append]
      have hps' : parseSection (vf0 + x.ts.length + 3) []
          { rest := tIdent x.key x.l x.c1 :: (tAssign x.l x.c2 :: x.hd.tok x.hl x.hc :: (x.ts ++ [x.nlTok]) ++ (r.flatMap MfQLine.toks ++ e :: tail)), prev := p, pos := n, last := la, warnings := w, depth := 0, warned := wd, strict := s, threshold := th, alpha := al }
          = .ok (some (.assign x.key (.str x.result) x.l x.c1 [] none),
             { rest := x.nlTok :: (r.flatMap MfQLine.toks ++ e :: tail), prev := p1, pos := n + 3 + x.ts.length, last := la, warnings := x.warnsRev ++ w, depth := 0,
               warned := wd, strict := s, threshold := th, alpha := al }) := hps
      rw [hf, hshape, docLoop_assign_step (ht := rfl) (hnl := rfl) (hR' := hR') (hps := hps'), hih]
      simp only [List.map_cons, MfQLine.node, MfTLine.node, List.append_assoc, List.cons_append, List.nil_append, mwfWarns, MfQLine.warns,
        MfQLine.key, MfQLine.l, List.reverse_append, trackPure_warns_reverse, List.reverse_reverse]

/-! ### `parseDocument` on the whole document -/

/-- the token list of the document:
`ENVELOPE_START(name) NEWLINE [IDENTIFIER ASSIGN (scalar | IDENTIFIER IDENTIFIER+) NEWLINE]* ENVELOPE_END NEWLINE EOF`. -/
def mwfToks (f : Frame) (name : Str) (lines : List MfQLine) : List Token :=
  f.envTok name :: f.nl0Tok :: (lines.flatMap MfQLine.toks ++ [f.endTok, f.nl1Tok, f.eofTok])

/-- the first line's key is `META`. -/
def mwfMetaFirst : List MfQLine → Bool
  | ln :: _ => ln.key == "META".toList
  | [] => false

theorem mwf_toks_length (lines : List MfQLine) : 2 * lines.length ≤ (lines.flatMap MfQLine.toks).length := by
  induction lines with
  | nil => simp
  | cons ln r ih =>
    have := mwf_qline_toks_length_pos ln
    simp only [List.flatMap_cons, List.length_append, List.length_cons]; omega

theorem mwf_need_le (lines : List MfQLine) : ∀ ln ∈ lines, ln.need ≤ (lines.flatMap MfQLine.toks).length := by
  induction lines with
  | nil => intro ln h; simp at h
  | cons x r ih =>
    intro ln h
    simp only [List.flatMap_cons, List.length_append]
    rcases List.mem_cons.mp h with rfl | h
    · have := mwf_qline_need_le ln; omega
    · have := ih ln h; omega

theorem mwf_body_head (f : Frame) (lines : List MfQLine) (hm : mwfMetaFirst lines = false) :
    ∃ u K, lines.flatMap MfQLine.toks ++ [f.endTok, f.nl1Tok, f.eofTok] = u :: K ∧ SpellParse.BodyHead u := by
  cases lines with
  | nil => exact ⟨f.endTok, _, rfl, SpellParse.bodyHead_end _ (Or.inl rfl)⟩
  | cons ln r =>
    cases ln with
    | sc ln =>
      refine ⟨ln.keyTok, _, rfl, SpellParse.bodyHead_key ln ?_⟩
      simpa [mwfMetaFirst, MfQLine.key] using hm
    | nw x =>
      have hk : x.key ≠ "META".toList := by simpa [mwfMetaFirst, MfQLine.key] using hm
      refine ⟨tIdent x.key x.l x.c1, _, rfl, ?_⟩
      refine ⟨by simp [tIdent], by simp [tIdent], by simp [tIdent], by simp [tIdent], by simp [tIdent], fun hh => hk ?_⟩
      have := hh.2; simp only [tIdent, TVal.str.injEq] at this; exact this

/-- **`parse_document` on a flat document whose values are scalars or multi-word bare values** (token level, every
position arbitrary, strict or lenient): the document with that name and one Assignment per line — a multi-word value is
the string of its words joined by one space — and exactly the warnings `mwfWarns`. -/
theorem parseDocument_mwf (f : Frame) (name : Str) (lines : List MfQLine) (hwf : ∀ ln ∈ lines, ln.WF)
    (hm : mwfMetaFirst lines = false) (st : PState) (hd : st.depth = 0) (hr : st.rest = mwfToks f name lines) :
    ∃ st', parseDocument st = .ok ({ name := name, sections := lines.map MfQLine.node }, st') ∧
      st'.warnings = (mwfWarns [] lines).reverse ++ st.warnings := by
  obtain ⟨u, K, hK, h1, h2, h3, h4, h5, h6⟩ := mwf_body_head f lines hm
  obtain ⟨rest, prev, pos, last, warnings, depth, warned, strict, threshold, alpha⟩ := st
  simp only at hd hr
  subst hd
  have hrest : rest = f.envTok name :: f.nl0Tok :: u :: K := by rw [hr, mwfToks, hK]
  subst hrest
  have hlenK : (u :: K).length = (lines.flatMap MfQLine.toks).length + 3 := by
    have := congrArg List.length hK
    simp only [List.length_append, List.length_cons, List.length_nil] at this ⊢
    omega
  have hlen : 2 * lines.length + 3 ≤ (u :: K).length := by
    have h2 := mwf_toks_length lines
    omega
  unfold parseDocument
  simp (config := {zeta := false}) only [bind, StateT.bind, Except.bind, budget_mk]
  extract_lets n doc0 jp5 jp4 jp3 jp2 jp1
  step_simp [Frame.envTok, Frame.nl0Tok, skipWhitespace_stop]
  simp only [jp1]
  step_simp []
  simp only [jp2]
  step_simp [skipWhitespace_newline, pyStrVal_str, h1, h2]
  simp only [jp3]
  step_simp [h6]
  simp only [jp4]
  step_simp [h3]
  simp only [jp5]
  step_simp []
  obtain ⟨extra, hextra⟩ : ∃ extra, 2 * n = 2 * lines.length + 1 + extra :=
    ⟨2 * n - (2 * lines.length + 1), by simp only [n, List.length_cons] at hlen ⊢; omega⟩
  have hvf : ∀ ln ∈ lines, ln.need ≤ n := by
    intro ln hln
    have := mwf_need_le lines ln hln
    simp only [n, List.length_cons] at hlenK ⊢; omega
  obtain ⟨p', n', hdl⟩ := docLoop_mwf n lines f.endTok [f.nl1Tok, f.eofTok] (Or.inl rfl) hwf hvf [] [] extra
    (some { type := TT.newline, value := TVal.str "\n".toList, line := f.nl0L, col := f.nl0C }) (pos + 1 + 1) last warnings warned strict threshold alpha
  rw [hK, ← hextra] at hdl
  rw [hdl]
  step_simp [List.nil_append]
  exact SpellParse.finish_doc _ _ f.endTok


/-! ### non-vacuity: symbolic positions -/

/-- `true blind mice` at arbitrary positions: the value is the string `true blind mice`, one `multi_word_coalesce` warning
with context `boolean_multiword` at the BOOLEAN token. -/
example (l c l1 c1 l2 c2 l3 c3 : Nat) (k : List Token)
    (p : Option Token) (n : Nat) (la : Token) (w : List Warning) (d : Nat) (wd : List Nat) (s : Bool) (th : Nat) (al : Char → Bool) :
    ∃ p', parseValue (0 + 2 + 2)
        { rest := tBool true l c :: ([tIdent "blind".toList l1 c1, tIdent "mice".toList l2 c2] ++ tNewline l3 c3 :: k), prev := p, pos := n, last := la,
          warnings := w, depth := d, warned := wd, strict := s, threshold := th, alpha := al }
      = .ok (.str "true blind mice".toList,
             { rest := tNewline l3 c3 :: k, prev := p', pos := n + 1 + 2, last := la,
               warnings := .multiWord ["true".toList, "blind".toList, "mice".toList] "true blind mice".toList "boolean_multiword".toList l c :: w, depth := d,
               warned := wd, strict := s, threshold := th, alpha := al }) :=
  parseValue_bwbool (tBool true l c) rfl (MWToks.cons "blind".toList l1 c1 (MWToks.cons "mice".toList l2 c2 MWToks.nil)) (by simp)
    (tNewline l3 c3) k rfl 0 p n la w d wd s th al

/-- `null x` and `1.2.3 x` likewise. -/
example (l c l1 c1 l3 c3 : Nat) (k : List Token)
    (p : Option Token) (n : Nat) (la : Token) (w : List Warning) (d : Nat) (wd : List Nat) (s : Bool) (th : Nat) (al : Char → Bool) :
    ∃ p', parseValue (0 + 1 + 2)
        { rest := tNull l c :: ([tIdent "x".toList l1 c1] ++ tNewline l3 c3 :: k), prev := p, pos := n, last := la,
          warnings := w, depth := d, warned := wd, strict := s, threshold := th, alpha := al }
      = .ok (.str "null x".toList,
             { rest := tNewline l3 c3 :: k, prev := p', pos := n + 1 + 1, last := la,
               warnings := .multiWord ["null".toList, "x".toList] "null x".toList "null_multiword".toList l c :: w, depth := d,
               warned := wd, strict := s, threshold := th, alpha := al }) :=
  parseValue_bwnull (tNull l c) rfl (MWToks.cons "x".toList l1 c1 MWToks.nil) (by simp) (tNewline l3 c3) k rfl 0 p n la w d wd s th al
example (l c l1 c1 l3 c3 : Nat) (k : List Token)
    (p : Option Token) (n : Nat) (la : Token) (w : List Warning) (d : Nat) (wd : List Nat) (s : Bool) (th : Nat) (al : Char → Bool) :
    ∃ p', parseValue (0 + 1 + 2)
        { rest := tVersion "1.2.3".toList l c :: ([tIdent "x".toList l1 c1] ++ tNewline l3 c3 :: k), prev := p, pos := n, last := la,
          warnings := w, depth := d, warned := wd, strict := s, threshold := th, alpha := al }
      = .ok (.str "1.2.3 x".toList,
             { rest := tNewline l3 c3 :: k, prev := p', pos := n + 1 + 1, last := la,
               warnings := .multiWord ["1.2.3".toList, "x".toList] "1.2.3 x".toList "version_multiword".toList l c :: w, depth := d,
               warned := wd, strict := s, threshold := th, alpha := al }) :=
  parseValue_bwver (tVersion "1.2.3".toList l c) rfl (MWToks.cons "x".toList l1 c1 MWToks.nil) (by simp) (tNewline l3 c3) k rfl 0 p n la w d wd s th al

end Octave.MWF
