import Octave.Lemmas.StepProgress
/-!
Receipts (C07 / I4) on the lexer model, for every input.

`Inv st` : the normalization records of the repair log are, in order, exactly the receipts of the
tokens that carry `normFrom` (original text, replacement value, the token's own line and column).
It is preserved by every branch of `Lexer.step`, hence by `Lexer.loop`.

The only branch that REPLACES a token (the `%` merge) copies `normFrom` of the replaced NUMBER /
IDENTIFIER token while changing its value; the invariant survives because such tokens never carry
`normFrom` (`MergeOK`, a second invariant proved alongside).

The repair log is append-only: the model never patches an earlier record (the Python code patches
line/column of the `repair_candidate` records it has appended in the same iteration; the model creates
them with the final line/column, see `step`, identifier branch).
-/
namespace Octave
open Lexer Scan

/-! ### Definitions -/

/-- true exactly on `Repair.normalization ..`. -/
def isNormalization : Repair → Bool
  | .normalization .. => true
  | _ => false

/-- the receipt a token is owed: present iff the token was normalised. -/
def receiptOf (t : Token) : Option Repair :=
  t.normFrom.map (fun o => Repair.normalization o t.value t.line t.col)

/-- the loop invariant (both lists newest-first). -/
def Inv (st : LState) : Prop :=
  st.repairs.filter isNormalization = st.toks.filterMap receiptOf

/-- a token the `%` merge may replace (NUMBER / IDENTIFIER) carries no `normFrom`. -/
def TokOK (t : Token) : Prop :=
  (t.type = .number ∨ t.type = .identifier) → t.normFrom = none

/-- the auxiliary invariant: every NUMBER / IDENTIFIER token so far is un-normalised. -/
def MergeOK (st : LState) : Prop := ∀ t ∈ st.toks, TokOK t

/-- same for a pattern match. -/
def MatchOK (m : Match) : Prop :=
  m.normFrom = none ∨ (m.type ≠ .number ∧ m.type ≠ .identifier)

/-! ### No pattern produces a normalised NUMBER / IDENTIFIER -/

theorem simple_type (t : TT) (text rest : Str) : (simple t text rest).type = t := by
  unfold simple; split <;> rfl

theorem simple_MatchOK (t : TT) (text rest : Str) (h1 : t ≠ .number) (h2 : t ≠ .identifier) :
    MatchOK (simple t text rest) := by
  right; rw [simple_type]; exact ⟨h1, h2⟩

theorem numberMatch_normFrom {env : Env} {t r1 : Str} {m : Match} (h : numberMatch env t r1 = .ok (some m)) :
    m.normFrom = none := by
  unfold numberMatch at h
  split at h
  · split at h
    · cases h
    · simp only [Except.ok.injEq, Option.some.injEq] at h; subst h; rfl
  · split at h
    · simp only [Except.ok.injEq, Option.some.injEq] at h; subst h; rfl
    · cases h

theorem matchSentinel_MatchOK {env : Env} {s : Str} {m : Match} (h : matchSentinel env s = some m) : MatchOK m := by
  unfold matchSentinel at h
  split at h
  · simp only [Option.map_eq_some_iff] at h
    obtain ⟨⟨v, r1⟩, _, rfl⟩ := h
    left; rfl
  · simp at h

theorem matchDigit_MatchOK {env : Env} {s : Str} {m : Match} (h : matchDigit env s = .ok (some m)) : MatchOK m := by
  unfold matchDigit at h
  split at h
  · simp at h; subst h; left; rfl
  · split at h
    · simp at h; subst h; left; rfl
    · split at h
      · simp at h; subst h; left; rfl
      · split at h
        · left; exact numberMatch_normFrom h
        · simp at h

theorem matchEq_MatchOK {s : Str} {m : Match} (h : matchEq s = some m) : MatchOK m := by
  unfold matchEq at h
  split at h
  · simp at h; subst h; left; rfl
  · split at h
    · simp at h; subst h; left; rfl
    · simp at h

theorem matchDash_MatchOK {env : Env} {s : Str} {m : Match} (h : matchDash env s = .ok (some m)) : MatchOK m := by
  unfold matchDash at h
  split at h
  · simp at h; subst h; exact simple_MatchOK _ _ _ (by decide) (by decide)
  · split at h
    · simp at h; subst h; exact simple_MatchOK _ _ _ (by decide) (by decide)
    · split at h
      · left; exact numberMatch_normFrom h
      · simp at h

theorem matchQuote_MatchOK {s r : Str} {m : Match} (h : matchQuote s r = some m) : MatchOK m := by
  unfold matchQuote at h
  simp only at h
  split at h
  · rename_i m' hm
    simp at h; subst h
    split at hm
    · simp only [Option.map_eq_some_iff] at hm
      obtain ⟨⟨body, r1⟩, _, rfl⟩ := hm
      right; exact ⟨by simp, by simp⟩
    · simp at hm
  · split at h
    · simp at h; subst h; left; rfl
    · simp at h

theorem matchKeyword_MatchOK {env : Env} {prev : Option Char} {c : Char} {s : Str} {m : Match}
    (h : matchKeyword env prev c s = some m) : MatchOK m := by
  unfold matchKeyword at h
  split at h
  · simp only [Option.map_eq_some_iff] at h; obtain ⟨r1, _, rfl⟩ := h
    exact simple_MatchOK _ _ _ (by decide) (by decide)
  · split at h
    · simp only [Option.map_eq_some_iff] at h; obtain ⟨r1, _, rfl⟩ := h; left; rfl
    · split at h
      · simp only [Option.map_eq_some_iff] at h; obtain ⟨r1, _, rfl⟩ := h; left; rfl
      · split at h
        · simp only [Option.map_eq_some_iff] at h; obtain ⟨r1, _, rfl⟩ := h; left; rfl
        · simp at h

/-- token types the `%` merge never touches. -/
def NotMergeable (t : TT) : Prop := t ≠ .number ∧ t ≠ .identifier

theorem ite_some_imp {α : Type} {P : α → Prop} {b : Bool} {x : α} {rest : Option α} {t : α}
    (hx : P x) (hr : rest = some t → P t) (h : (if b = true then some x else rest) = some t) : P t := by
  cases b with
  | true => simp at h; subst h; exact hx
  | false => simp at h; exact hr h

theorem singleCharType_ne {c : Char} {t : TT} (h : singleCharType c = some t) : t ≠ .number ∧ t ≠ .identifier := by
  unfold singleCharType at h
  revert h
  repeat' (refine ite_some_imp (P := NotMergeable) ⟨by decide, by decide⟩ ?_)
  intro h; cases h

theorem matchPunct_MatchOK {env : Env} {c : Char} {r s : Str} {m : Match}
    (h : matchPunct env c r s = some m) : MatchOK m := by
  unfold matchPunct at h
  split at h
  · split at h
    · simp at h; subst h; left; rfl
    · simp at h
  · split at h
    · split at h
      · simp at h; subst h; exact simple_MatchOK _ _ _ (by decide) (by decide)
      · simp at h; subst h; exact simple_MatchOK _ _ _ (by decide) (by decide)
    · split at h
      · simp only [Option.map_eq_some_iff] at h; obtain ⟨r1, _, rfl⟩ := h
        exact simple_MatchOK _ _ _ (by decide) (by decide)
      · split at h
        · simp only [Option.map_eq_some_iff] at h; obtain ⟨⟨b, r1⟩, _, rfl⟩ := h
          left; rfl
        · split at h
          · simp at h; subst h; left; rfl
          · simp only [Option.map_eq_some_iff] at h; obtain ⟨t, ht, rfl⟩ := h
            have := singleCharType_ne ht
            exact simple_MatchOK _ _ _ this.1 this.2

/-- **No pattern yields a normalised NUMBER or IDENTIFIER** (so the `%` merge never inherits a receipt). -/
theorem matchPattern_MatchOK {env : Env} {z : Bool} {prev : Option Char} {s : Str} {m : Match}
    (h : matchPattern env z prev s = .ok (some m)) : MatchOK m := by
  unfold matchPattern at h
  split at h
  · simp at h
  · rename_i c r
    split at h
    · rename_i m' hs
      simp at h; subst h
      split at hs
      · exact matchSentinel_MatchOK hs
      · simp at hs
    · split at h
      · exact matchDigit_MatchOK h
      · split at h
        · simp at h; exact matchEq_MatchOK h
        · split at h
          · exact matchDash_MatchOK h
          · split at h
            · simp at h; exact matchQuote_MatchOK h
            · split at h
              · simp at h; exact matchKeyword_MatchOK h
              · simp at h; exact matchPunct_MatchOK h

/-! ### Identifier-branch records are never normalization records -/

theorem identifierRepairs_not_norm (ident : Str) (line col : Nat) :
    ∀ x ∈ identifierRepairs ident line col, isNormalization x = false := by
  intro x hx
  unfold identifierRepairs at hx
  rw [List.mem_append] at hx
  rcases hx with hx | hx
  · split at hx
    · simp only [List.mem_singleton] at hx; subst hx; rfl
    · simp at hx
  · split at hx
    · split at hx
      · simp only [List.mem_singleton] at hx; subst hx; rfl
      · simp at hx
    · simp at hx

theorem filter_norm_eq_nil {l : List Repair} (h : ∀ x ∈ l, isNormalization x = false) :
    l.filter isNormalization = [] := by
  rw [List.filter_eq_nil_iff]
  intro x hx; rw [h x hx]; simp

/-! ### The shape of one successful step -/

/-- What one successful iteration of the main loop does to the token list and the repair log:
either it PUSHES tokens `newToks` and records `d` (newest first) whose normalization records are exactly the
receipts of the pushed tokens, or it is the `%` MERGE, which replaces the last (NUMBER / IDENTIFIER) token by an
IDENTIFIER at the same position with the same `normFrom` and leaves the log alone. -/
inductive StepShape (st st' : LState) : Prop
  | push (newToks : List Token) (d : List Repair)
      (htoks : st'.toks = newToks ++ st.toks) (hreps : st'.repairs = d ++ st.repairs)
      (hrec : d.filter isNormalization = newToks.filterMap receiptOf)
      (hok : ∀ t ∈ newToks, TokOK t)
  | merge (last tok : Token) (before : List Token)
      (h1 : st.toks = last :: before) (h2 : st'.toks = tok :: before) (hreps : st'.repairs = st.repairs)
      (hty : last.type = .number ∨ last.type = .identifier)
      (htokty : tok.type = .identifier) (hnf : tok.normFrom = last.normFrom)

theorem shape_nil (st st' : LState) (h1 : st'.toks = st.toks) (h2 : st'.repairs = st.repairs) :
    StepShape st st' :=
  .push [] [] (by simpa using h1) (by simpa using h2) rfl (by simp)

/-- **Every branch of `step`** has one of the two shapes. -/
theorem step_shape (env : Env) (lenient : Bool) (st st' : LState) (s s' : Str)
    (h : step env lenient st s = .ok (st', s')) : StepShape st st' := by
  cases s with
  | nil =>
    simp only [step, Except.ok.injEq, Prod.mk.injEq] at h
    obtain ⟨rfl, _⟩ := h
    exact shape_nil _ _ rfl rfl
  | cons c r =>
    unfold step at h
    simp only at h
    split at h
    · -- fence span: FENCE_OPEN, LITERAL_CONTENT, FENCE_CLOSE (and NEWLINE), none normalised, no record
      split at h
      · simp only [Except.ok.injEq, Prod.mk.injEq] at h
        obtain ⟨rfl, _⟩ := h
        exact shape_nil _ _ rfl rfl
      · split at h
        · simp only [Except.ok.injEq, Prod.mk.injEq] at h
          obtain ⟨rfl, _⟩ := h
          refine .push [_, _, _, _] [] rfl rfl rfl ?_
          intro t ht
          simp only [List.mem_cons, List.not_mem_nil, or_false] at ht
          rcases ht with rfl | rfl | rfl | rfl <;> intro _ <;> rfl
        · simp only [Except.ok.injEq, Prod.mk.injEq] at h
          obtain ⟨rfl, _⟩ := h
          refine .push [_, _, _] [] rfl rfl rfl ?_
          intro t ht
          simp only [List.mem_cons, List.not_mem_nil, or_false] at ht
          rcases ht with rfl | rfl | rfl <;> intro _ <;> rfl
    · split at h
      · -- space: at most an INDENT token, no record
        split at h
        · split at h
          · split at h
            · simp only [Except.ok.injEq, Prod.mk.injEq] at h
              obtain ⟨rfl, _⟩ := h
              refine .push [_] [] rfl rfl rfl ?_
              intro t ht
              simp only [List.mem_cons, List.not_mem_nil, or_false] at ht
              subst ht; intro _; rfl
            · simp only [Except.ok.injEq, Prod.mk.injEq] at h
              obtain ⟨rfl, _⟩ := h
              exact shape_nil _ _ rfl rfl
          · simp only [Except.ok.injEq, Prod.mk.injEq] at h
            obtain ⟨rfl, _⟩ := h
            exact shape_nil _ _ rfl rfl
        · simp only [Except.ok.injEq, Prod.mk.injEq] at h
          obtain ⟨rfl, _⟩ := h
          exact shape_nil _ _ rfl rfl
      · simp only [bind, Except.bind] at h
        cases hmp : matchPattern env st.blank st.prev (c :: r) with
        | error e => simp [hmp] at h
        | ok v =>
          simp only [hmp] at h
          cases v with
          | some m =>
            -- pattern branch (LIST_START / LIST_END bookkeeping touches only the bracket stack)
            simp only at h
            have hmok := matchPattern_MatchOK hmp
            split at h
            · simp at h
            · simp only [Except.ok.injEq, Prod.mk.injEq] at h
              obtain ⟨rfl, _⟩ := h
              cases hnf : m.normFrom with
              | none =>
                refine .push [_] [] rfl rfl ?_ ?_
                · simp [receiptOf]
                · intro t ht
                  simp only [List.mem_cons, List.not_mem_nil, or_false] at ht
                  subst ht; intro _; rfl
              | some o =>
                refine .push [_] [Repair.normalization o m.value st.line st.col] rfl rfl ?_ ?_
                · simp [receiptOf, isNormalization]
                · intro t ht
                  simp only [List.mem_cons, List.not_mem_nil, or_false] at ht
                  subst ht
                  intro hty
                  rcases hmok with hn | ⟨h1, h2⟩
                  · rw [hnf] at hn; cases hn
                  · rcases hty with hty | hty
                    · exact absurd hty h1
                    · exact absurd hty h2
          | none =>
            simp only at h
            split at h
            · simp at h
            · split at h
              · -- `+` fallback: one normalised SYNTHESIS token, one receipt
                simp only [Except.ok.injEq, Prod.mk.injEq] at h
                obtain ⟨rfl, _⟩ := h
                refine .push [_] [Repair.normalization ['+'] (.str ['⊕']) st.line st.col] rfl rfl ?_ ?_
                · simp [receiptOf, isNormalization]
                · intro t ht
                  simp only [List.mem_cons, List.not_mem_nil, or_false] at ht
                  subst ht
                  intro hty
                  rcases hty with hty | hty <;> cases hty
              · split at h
                · -- identifier: un-normalised token; curly-brace / wrong-case / boundary records only
                  rename_i ident rest rep hmi
                  simp only [Except.ok.injEq, Prod.mk.injEq] at h
                  obtain ⟨rfl, _⟩ := h
                  refine .push [_] _ rfl rfl ?_ ?_
                  · refine (filter_norm_eq_nil ?_).trans ?_
                    · intro x hx
                      rw [List.mem_reverse, List.mem_append] at hx
                      rcases hx with hx | hx
                      · split at hx
                        · simp only [List.mem_singleton] at hx; subst hx; rfl
                        · simp at hx
                      · exact identifierRepairs_not_norm _ _ _ x hx
                    · simp [receiptOf]
                  · intro t ht
                    simp only [List.mem_cons, List.not_mem_nil, or_false] at ht
                    subst ht; intro _; rfl
                · split at h
                  · rename_i res heq
                    simp only [Except.ok.injEq] at h
                    subst h
                    -- the `%` merge
                    split at heq
                    · split at heq
                      · rename_i last before htoks
                        split at heq
                        · rename_i hcond
                          split at heq
                          · split at heq
                            · simp only [Option.some.injEq, Prod.mk.injEq] at heq
                              obtain ⟨rfl, _⟩ := heq
                              refine .merge last _ before htoks rfl rfl ?_ rfl rfl
                              simp only [Bool.and_eq_true, Bool.or_eq_true, beq_iff_eq] at hcond
                              exact hcond.1
                            · simp at heq
                          · simp at heq
                        · simp at heq
                      · simp at heq
                    · simp at heq
                  · simp at h

/-! ### Consequences of the shape: append-only log, invariant preservation -/

/-- **Append-only log**: a successful step only adds records in front of the (newest-first) log;
no earlier record is changed or removed. -/
theorem step_repairs_suffix (env : Env) (lenient : Bool) (st st' : LState) (s s' : Str)
    (h : step env lenient st s = .ok (st', s')) : ∃ d, st'.repairs = d ++ st.repairs := by
  cases step_shape env lenient st st' s s' h with
  | push newToks d _ hreps _ _ => exact ⟨d, hreps⟩
  | merge last tok before _ _ hreps _ _ _ => exact ⟨[], by simpa using hreps⟩

theorem receiptOf_none {t : Token} (h : t.normFrom = none) : receiptOf t = none := by
  simp [receiptOf, h]

/-- the two invariants are preserved by any step of either shape. -/
theorem StepShape.preserves {st st' : LState} (hs : StepShape st st') (hinv : Inv st) (hm : MergeOK st) :
    Inv st' ∧ MergeOK st' := by
  cases hs with
  | push newToks d htoks hreps hrec hok =>
    constructor
    · unfold Inv at *
      rw [htoks, hreps, List.filter_append, List.filterMap_append, hrec, hinv]
    · intro t ht
      rw [htoks, List.mem_append] at ht
      rcases ht with ht | ht
      · exact hok t ht
      · exact hm t ht
  | merge last tok before h1 h2 hreps hty htokty hnf =>
    have hlast : last.normFrom = none := hm last (by rw [h1]; simp) hty
    have htok : tok.normFrom = none := by rw [hnf, hlast]
    constructor
    · unfold Inv at *
      rw [h2, hreps, hinv, h1, List.filterMap_cons, List.filterMap_cons, receiptOf_none hlast, receiptOf_none htok]
    · intro t ht
      rw [h2] at ht
      simp only [List.mem_cons] at ht
      rcases ht with rfl | ht
      · intro _; exact htok
      · exact hm t (by rw [h1]; simp [ht])

/-- **Every branch of `step` preserves the receipt invariant** (together with `MergeOK`). -/
theorem step_Inv (env : Env) (lenient : Bool) (st st' : LState) (s s' : Str)
    (h : step env lenient st s = .ok (st', s')) (hinv : Inv st) (hm : MergeOK st) : Inv st' ∧ MergeOK st' :=
  (step_shape env lenient st st' s s' h).preserves hinv hm

/-- the main loop preserves the invariants (induction on fuel). -/
theorem loop_Inv (env : Env) (lenient : Bool) :
    ∀ (fuel : Nat) (st st' : LState) (s : Str), loop env lenient fuel st s = .ok st' →
      Inv st → MergeOK st → Inv st' ∧ MergeOK st' := by
  intro fuel
  induction fuel with
  | zero =>
    intro st st' s h hinv hm
    cases s with
    | nil => simp only [loop, Except.ok.injEq] at h; subst h; exact ⟨hinv, hm⟩
    | cons c r => simp [loop] at h
  | succ n ih =>
    intro st st' s h hinv hm
    cases s with
    | nil => simp only [loop, Except.ok.injEq] at h; subst h; exact ⟨hinv, hm⟩
    | cons c r =>
      unfold loop at h
      simp only [bind, Except.bind] at h
      cases hst : step env lenient st (c :: r) with
      | error e => simp [hst] at h
      | ok p =>
        obtain ⟨st1, s1⟩ := p
        simp only [hst] at h
        have ⟨hi, hmm⟩ := step_Inv env lenient st st1 (c :: r) s1 hst hinv hm
        exact ih st1 st' s1 h hi hmm

/-- the main loop only adds records in front of the log. -/
theorem loop_repairs_suffix (env : Env) (lenient : Bool) :
    ∀ (fuel : Nat) (st st' : LState) (s : Str), loop env lenient fuel st s = .ok st' →
      ∃ d, st'.repairs = d ++ st.repairs := by
  intro fuel
  induction fuel with
  | zero =>
    intro st st' s h
    cases s with
    | nil => simp only [loop, Except.ok.injEq] at h; subst h; exact ⟨[], rfl⟩
    | cons c r => simp [loop] at h
  | succ n ih =>
    intro st st' s h
    cases s with
    | nil => simp only [loop, Except.ok.injEq] at h; subst h; exact ⟨[], rfl⟩
    | cons c r =>
      unfold loop at h
      simp only [bind, Except.bind] at h
      cases hst : step env lenient st (c :: r) with
      | error e => simp [hst] at h
      | ok p =>
        obtain ⟨st1, s1⟩ := p
        simp only [hst] at h
        obtain ⟨d1, h1⟩ := step_repairs_suffix env lenient st st1 (c :: r) s1 hst
        obtain ⟨d2, h2⟩ := ih st1 st' s1 h
        exact ⟨d2 ++ d1, by rw [h2, h1, List.append_assoc]⟩

end Octave
