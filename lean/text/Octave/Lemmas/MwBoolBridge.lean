import Octave.Lemmas.MwBoolParse
import Octave.Lemmas.MwNumBridge
/-!
BOOLEAN-, NULL- and VERSION-HEADED MULTI-WORD VALUES as values of a flat document — emitter half and glue (port of
`MwNumBridge` with the wider head type `BHead`).

* the canonical line of a multi-word line with any head: `KEY::"h w1 … wn"` (`BWLine.canon`, an `FLine` with a QUOTED
  string): `K::true mice` → `K::"true mice"`, `K::null words` → `K::"null words"`, `K::1.2.3 rel` → `K::"1.2.3 rel"`;
* `needsQuotes_bw`: the emitter quotes EVERY joined string of the class (it contains a space);
* the glue between the lexer half (`MwBoolLex`) and the parser half (`MwBoolParse`);
* the receipts owed (`mwbReceipts`: one `multi_word_coalesce` record per multi-word line, with the context of its head) and
  `mwbWarns_filter`.
-/
namespace Octave.MWB
open Octave Lexer Emitter Parser FlatParse Spell Expr MW MWN

/-- every character of a word / integer head's text is an identifier-body character (digits and `-` included). -/
theorem mwb_head_body (h : BHead) (hok : h.OK) (hs : h.isStr = false) : ∀ d ∈ h.part, isIdentBodyA d = true := by
  cases h with
  | word w => exact identText_body w hok.1
  | int i =>
    intro d hd
    rcases intStr_mem i d hd with rfl | hdig
    · decide
    · simp only [isIdentBodyA, isAlnumA, hdig, Bool.or_true, Bool.true_or]
  | str sv => simp [BHead.isStr] at hs
  | bool b => cases b <;> exact (by decide)
  | null => exact (by decide)
  | ver d1 d2 d3 =>
    intro d hd
    rcases verText_mem d1 d2 d3 hok.1 hok.2.1 hok.2.2 d hd with rfl | hdig
    · decide
    · simp only [isIdentBodyA, isAlnumA, hdig, Bool.or_true, Bool.true_or]

theorem mwb_head_pwf (h : BHead) (hok : h.OK) : h.PWF := by
  cases h with
  | word w => exact hasAnnotation_word w hok.1
  | int i => trivial
  | str sv => trivial
  | bool b => trivial
  | null => trivial
  | ver d1 d2 d3 => trivial

theorem mwb_head_part_ne_nil (h : BHead) (hok : h.OK) : h.part ≠ [] := by
  cases h with
  | word w => exact wordOK_ne_nil hok
  | int i => exact intStr_ne_nil i
  | str sv => simp [BHead.part]
  | bool b => cases b <;> simp [BHead.part]
  | null => simp [BHead.part]
  | ver d1 d2 d3 => exact verText_ne_nil d1 d2 d3

/-- **the emitter quotes every joined multi-word string of the class** (any head). -/
theorem needsQuotes_bw (m : BWords) (h : m.OK) : needsQuotes m.result = true := by
  obtain ⟨hh, ht, hne⟩ := h
  obtain ⟨q, r, hqr⟩ := List.exists_cons_of_ne_nil hne
  cases hs : m.head.isStr with
  | true =>
    obtain ⟨sv, hsv⟩ : ∃ sv, m.head = .str sv := by
      cases hm : m.head with
      | word w => rw [hm] at hs; simp [BHead.isStr] at hs
      | int i => rw [hm] at hs; simp [BHead.isStr] at hs
      | str sv => exact ⟨sv, rfl⟩
      | bool b => rw [hm] at hs; simp [BHead.isStr] at hs
      | null => rw [hm] at hs; simp [BHead.isStr] at hs
      | ver d1 d2 d3 => rw [hm] at hs; simp [BHead.isStr] at hs
    have hres : m.result = '"' :: (sv ++ '"' :: ' ' :: spaceJoin (q.2 :: r.map Prod.snd)) := by
      simp [BWords.result, BWords.words, hsv, BHead.part, hqr, spaceJoin, joinWith]
    rw [hres]; exact needsQuotes_head_quote _
  | false =>
    have hch : ∀ d ∈ m.result, d = ' ' ∨ isIdentBodyA d = true := by
      intro d hd
      rcases mem_spaceJoin m.words d hd with h1 | ⟨w, hw, hdw⟩
      · exact Or.inl h1
      · simp only [BWords.words, List.mem_cons, List.mem_map] at hw
        rcases hw with rfl | ⟨p, hp, rfl⟩
        · exact Or.inr (mwb_head_body m.head hh hs d hdw)
        · exact Or.inr (identText_body _ (ht p hp).1 d hdw)
    obtain ⟨c, t, hct⟩ := List.exists_cons_of_ne_nil (mwb_head_part_ne_nil m.head hh)
    have hres : m.result = c :: (t ++ ' ' :: spaceJoin (q.2 :: r.map Prod.snd)) := by
      simp [BWords.result, BWords.words, hct, hqr, spaceJoin, joinWith]
    have hc : isIdentBodyA c = true := mwb_head_body m.head hh hs c (by rw [hct]; simp)
    apply needsQuotes_plain
    · rw [hres]; simp only [List.head?_cons, ne_eq, Option.some.injEq]
      intro e; subst e; revert hc; decide
    · intro d hd
      rcases hch d hd with rfl | hb
      · decide
      · rw [beq_eq_false_iff_ne]; intro e; subst e; revert hb; decide
    · intro d hd
      rcases hch d hd with rfl | hb
      · decide
      · exact identBody_not_unicodeOp d hb
    · rw [hres]
      have : (t ++ ' ' :: spaceJoin (q.2 :: r.map Prod.snd)).all isIdentBodyA = false := by
        rw [List.all_eq_false]
        exact ⟨' ', by simp, by decide⟩
      simp only [isIdentifierText, this, Bool.and_false, Bool.false_and]

/-! ### the canonical line, the document -/

/-- the canonical form of a value: a multi-word value becomes the QUOTED string of its words joined by one space. -/
def BVal.canon : BVal → FScalar
  | .sc v => v
  | .nw m => .qstr m.result

/-- the canonical line `KEY::"w0 w1 … wn"` (a scalar line is its own canonical form). -/
def BWLine.canon (ln : BWLine) : FLine := ⟨ln.key, ln.v.canon⟩

/-- the lines of the canonical flat document. -/
def mwbCanonLines (sl : List BWLine) : List FLine := sl.map BWLine.canon

/-- when the emitter spells the line the way its canonical text does (decidable): as `FLine.EmitOK` for a scalar line;
ALWAYS for a multi-word line (`needsQuotes_bw`). -/
def BWLine.EmitOK (ln : BWLine) : Prop :=
  match ln.v with
  | .sc v => FLine.EmitOK ⟨ln.key, v⟩
  | .nw _ => True

theorem mwbcanon_emitOK (ln : BWLine) (hok : ln.OK) (h : ln.EmitOK) : ln.canon.EmitOK := by
  obtain ⟨key, v⟩ := ln
  cases v with
  | sc v => exact h
  | nw m => exact needsQuotes_bw m hok.2.2

/-- first key is not `META`. -/
def mwbFirstNotMeta (sl : List BWLine) : Bool :=
  match sl with | ln :: _ => !(ln.key == "META".toList) | [] => true

/-! ### glue between the lexer half (concrete positions) and the parser half (arbitrary positions) -/

/-- the line written at text line `l` as the parser half describes it. -/
def toBQLine (x : BWLine) (l : Nat) : BQLine :=
  match x.v with
  | .sc v => .sc ((FLine.mk x.key v).toP l)
  | .nw m => .nw { key := x.key, l := l, c1 := 1, c2 := 1 + x.key.length, hd := m.head, hl := l, hc := 1 + x.key.length + 2,
                   ws := m.tail.map Prod.snd,
                   ts := (mwTailToksRev l (1 + x.key.length + 2 + m.head.text.length) m.tail).reverse,
                   nlL := l, nlC := 1 + x.key.length + 2 + m.spell.length }

def toBQLines (l : Nat) : List BWLine → List BQLine
  | [] => []
  | x :: r => toBQLine x l :: toBQLines (l + 1) r

theorem toBQLines_length (sl : List BWLine) : ∀ l, (toBQLines l sl).length = sl.length := by
  induction sl with
  | nil => intro l; rfl
  | cons x r ih => intro l; simp [toBQLines, ih]

theorem toBQLine_wf (x : BWLine) (l : Nat) (h : x.OK) : (toBQLine x l).WF := by
  obtain ⟨key, v⟩ := x
  cases v with
  | sc v => trivial
  | nw m =>
    obtain ⟨hh, ht, hne⟩ := h.2.2
    refine ⟨mwTailToks_bridge l m.tail _, ?_, mwb_head_pwf m.head hh, ?_⟩
    · simpa using hne
    · intro w hw
      obtain ⟨p, hp, rfl⟩ := List.mem_map.mp hw
      exact hasAnnotation_word _ (ht p hp).1

theorem toBQLines_wf (sl : List BWLine) (hok : ∀ x ∈ sl, x.OK) : ∀ l, ∀ ln ∈ toBQLines l sl, ln.WF := by
  induction sl with
  | nil => intro l ln h; simp [toBQLines] at h
  | cons x r ih =>
    intro l ln h
    simp only [toBQLines, List.mem_cons] at h
    rcases h with rfl | h
    · exact toBQLine_wf x l (hok x (by simp))
    · exact ih (fun y hy => hok y (by simp [hy])) (l + 1) ln h

theorem mwbline_toks_bridge (x : BWLine) (l : Nat) : (x.toksRev l 1).reverse = (toBQLine x l).toks := by
  obtain ⟨key, v⟩ := x
  cases v with
  | sc v => exact line_toks_bridge ⟨key, v⟩ l
  | nw m =>
    simp only [BWLine.toksRev, BVal.toksRev, BVal.spell, toBQLine, BQLine.toks, BTLine.toks, BTLine.nlTok, List.reverse_cons,
      List.reverse_append, List.reverse_nil, List.nil_append, List.cons_append, List.append_assoc]

theorem mwblines_toks_bridge (sl : List BWLine) : ∀ l, (mwbLinesToksRev l sl).reverse = (toBQLines l sl).flatMap BQLine.toks := by
  induction sl with
  | nil => intro l; rfl
  | cons x r ih =>
    intro l
    simp only [mwbLinesToksRev, toBQLines, List.reverse_append, List.flatMap_cons, mwbline_toks_bridge, ih]

/-- the two descriptions of the token list agree. -/
theorem mwbdocToks_bridge (name : Str) (sl : List BWLine) :
    mwbdocToks name sl = mwbToks (flatFrame name sl.length) name (toBQLines 2 sl) := by
  simp only [mwbdocToks, mwbdocToksRev, mwbToks, List.reverse_cons, List.reverse_append, mwblines_toks_bridge]
  simp [flatFrame, Frame.envTok, Frame.nl0Tok, Frame.endTok, Frame.nl1Tok, Frame.eofTok, tEof, tNewline, tEnvEnd, tEnvStart]

/-- the node read from the line IS the node of its canonical line (same key, same value, same position). -/
theorem mwb_qnode_bridge (x : BWLine) (l : Nat) : (toBQLine x l).node = x.canon.node l 1 := by
  obtain ⟨key, v⟩ := x
  cases v with
  | sc v => exact node_bridge ⟨key, v⟩ l
  | nw m => rfl

theorem mwb_qnodes_bridge (sl : List BWLine) : ∀ (i : Nat),
    (toBQLines (i + 2) sl).map BQLine.node = flatNodes (fun i => (i + 2, 1)) i (mwbCanonLines sl) := by
  induction sl with
  | nil => intro i; rfl
  | cons x r ih =>
    intro i
    simp only [toBQLines, List.map_cons, mwbCanonLines, flatNodes, mwb_qnode_bridge]
    rw [show i + 2 + 1 = (i + 1) + 2 by omega, ih (i + 1)]
    rfl

theorem mwb_qkey_bridge (x : BWLine) (l : Nat) : (toBQLine x l).key = x.key := by
  obtain ⟨key, v⟩ := x
  cases v <;> rfl

theorem mwb_ql_bridge (x : BWLine) (l : Nat) : (toBQLine x l).l = l := by
  obtain ⟨key, v⟩ := x
  cases v <;> rfl

theorem mwbMetaFirst_bridge (sl : List BWLine) (l : Nat) (h : mwbFirstNotMeta sl = true) :
    mwbMetaFirst (toBQLines l sl) = false := by
  cases sl with
  | nil => rfl
  | cons x r =>
    simp only [toBQLines, mwbMetaFirst, mwb_qkey_bridge]
    simpa [mwbFirstNotMeta] using h

theorem stripFrontmatter_mwbdoc (env : Env) (name : Str) (sl : List BWLine) :
    Parser.stripFrontmatter env (mwbdocText name sl) = (mwbdocText name sl, none) := by
  unfold Parser.stripFrontmatter
  have : startsWith "---".toList (mwbdocText name sl) = false := by
    simp [mwbdocText, startsWith, List.isPrefixOf]
  rw [this]; rfl

/-! ### the receipts owed -/

/-- the receipt owed to the line written at text line `l`: for a multi-word line ONE `multi_word_coalesce` record —
the parts as written (head lexeme, words), the string they became, the context (`number_identifier` for a NUMBER head,
none for a word head), the line, and the column of the head (right after `KEY::`); a scalar line: none. -/
def mwbLineReceipt (l : Nat) (x : BWLine) : List Warning :=
  match x.v with
  | .nw m => [.multiWord m.words m.result m.head.ctx l (1 + x.key.length + 2)]
  | .sc _ => []

/-- the receipts owed to the document, in reading order (first body line = text line `l`). -/
def mwbReceipts (l : Nat) : List BWLine → List Warning
  | [] => []
  | x :: r => mwbLineReceipt l x ++ mwbReceipts (l + 1) r

/-- number of multi-word lines. -/
def mwbCount : List BWLine → Nat
  | [] => 0
  | x :: r => (match x.v with | .nw _ => 1 | .sc _ => 0) + mwbCount r

/-- exactly one receipt per multi-word line. -/
theorem mwbReceipts_length (sl : List BWLine) : ∀ l, (mwbReceipts l sl).length = mwbCount sl := by
  induction sl with
  | nil => intro l; rfl
  | cons x r ih =>
    intro l
    obtain ⟨key, v⟩ := x
    cases v <;> simp [mwbReceipts, mwbLineReceipt, mwbCount, ih] <;> omega

theorem mwb_qline_warns_filter (x : BWLine) (l : Nat) : (toBQLine x l).warns.filter isMultiWord = mwbLineReceipt l x := by
  obtain ⟨key, v⟩ := x
  cases v with
  | sc v => exact line_warns_filter _
  | nw m =>
    have hf : ∀ (b : Bool) (val : Str), (if b = true then [] else autoquote key val l 1).filter isMultiWord = [] := by
      intro b val; cases b
      · exact autoquote_filter key val l 1
      · rfl
    simp only [toBQLine, BQLine.warns, BTLine.warnsRev, List.reverse_append, List.reverse_cons, List.reverse_nil, List.nil_append,
      List.filter_append, List.filter_reverse, hf, List.append_nil]
    rfl

/-- **the `multi_word_coalesce` records among the parser warnings** are, in reading order, exactly `mwbReceipts` — whatever
other warnings (duplicate keys, `PATTERN` auto-quote) the lines raise. -/
theorem mwbWarns_filter (sl : List BWLine) : ∀ (l : Nat) (kp : KeyPos),
    (mwbWarns kp (toBQLines l sl)).filter isMultiWord = mwbReceipts l sl := by
  induction sl with
  | nil => intro l kp; rfl
  | cons x r ih =>
    intro l kp
    simp only [toBQLines, mwbWarns, List.filter_append, mwb_qline_warns_filter, trackPure_filter, List.append_nil, ih, mwbReceipts]

end Octave.MWB
