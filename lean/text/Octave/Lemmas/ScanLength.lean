import Octave.Model.Lexer
/-! Every recogniser of Model/Scan returns a rest that is a (proper, where the pattern is non-empty)
shortening of its input.  Used by the lexer progress theorems (C20). -/
namespace Octave
namespace Scan

theorem takeWhile_append (p : Char → Bool) (s : Str) : (takeWhile p s).1 ++ (takeWhile p s).2 = s := by
  induction s with
  | nil => simp [takeWhile]
  | cons c cs ih =>
    simp only [takeWhile]
    split
    · simp [ih]
    · simp

theorem takeWhile_rest_le (p : Char → Bool) (s : Str) : (takeWhile p s).2.length ≤ s.length := by
  have h := congrArg List.length (takeWhile_append p s)
  simp only [List.length_append] at h; omega

theorem many1_rest_lt {p : Char → Bool} {s a b : Str} (h : many1 p s = some (a, b)) : b.length < s.length := by
  unfold many1 at h
  have hd := congrArg List.length (takeWhile_append p s)
  simp only [List.length_append] at hd
  split at h
  · simp at h
  · rename_i a' b' hne heq
    simp only [Option.some.injEq, Prod.mk.injEq] at h
    obtain ⟨rfl, rfl⟩ := h
    rw [heq] at hd
    have : a'.length ≠ 0 := by
      intro h0; exact hne (List.length_eq_zero_iff.mp h0)
    simp only at hd; omega

theorem stringBody_rest_lt (s : Str) : ∀ a b, stringBody s = some (a, b) → b.length < s.length := by
  fun_induction stringBody s <;> intro a b h
  all_goals simp_all
  all_goals (try (obtain ⟨x, y, hxy, rfl, rfl⟩ := h))
  all_goals first | omega | (rename_i ih; have := ih _ _ y; omega)

theorem tripleBody_rest_lt (s : Str) : ∀ a b, tripleBody s = some (a, b) → b.length < s.length := by
  fun_induction tripleBody s <;> intro a b h
  all_goals simp_all
  all_goals (try (obtain ⟨x, y, hxy, rfl, rfl⟩ := h))
  all_goals first | omega | (rename_i ih; have := ih _ _ y; omega)
theorem lit_rest {p s r : Str} (h : lit p s = some r) : r.length + p.length = s.length := by
  induction p generalizing s with
  | nil => simp [lit] at h; subst h; simp
  | cons x xs ih =>
    cases s with
    | nil => simp [lit] at h
    | cons c cs =>
      simp only [lit] at h
      split at h
      · have := ih h; simp only [List.length_cons]; omega
      · simp at h

theorem dotDigitsStar_rest_le (env : Env) (fuel : Nat) (s : Str) : (dotDigitsStar env fuel s).2.length ≤ s.length := by
  induction fuel generalizing s with
  | zero => simp [dotDigitsStar]
  | succ n ih =>
    unfold dotDigitsStar
    split
    · rename_i r
      cases hm : many1 env.isDigit r with
      | none => simp
      | some v =>
        obtain ⟨d, r'⟩ := v
        have h1 := many1_rest_lt hm
        have h2 := ih r'
        simp only [List.length_cons]; omega
    · simp

theorem prerelease_rest_lt {s a b : Str} (h : prerelease s = some (a, b)) : b.length < s.length := by
  unfold prerelease at h
  split at h
  · rename_i r
    cases hm : many1 isPreChar r with
    | none => simp [hm] at h
    | some v =>
      obtain ⟨x, y⟩ := v
      simp [hm] at h
      obtain ⟨_, rfl⟩ := h
      have := many1_rest_lt hm
      simp only [List.length_cons]; omega
  · simp at h

theorem build_rest_lt {s a b : Str} (h : build s = some (a, b)) : b.length < s.length := by
  unfold build at h
  split at h
  · rename_i r
    cases hm : many1 isBuildChar r with
    | none => simp [hm] at h
    | some v =>
      obtain ⟨x, y⟩ := v
      simp [hm] at h
      obtain ⟨_, rfl⟩ := h
      have := many1_rest_lt hm
      simp only [List.length_cons]; omega
  · simp at h

theorem opt_rest_le (f : Str → Option (Str × Str)) (hf : ∀ s a b, f s = some (a, b) → b.length < s.length) (s : Str) :
    (opt f s).2.length ≤ s.length := by
  unfold opt
  cases h : f s with
  | none => simp
  | some v => obtain ⟨a, b⟩ := v; have := hf s a b h; simp; omega

theorem twoParts_rest_lt {env : Env} {s a b : Str} (h : twoParts env s = some (a, b)) : b.length < s.length := by
  unfold twoParts at h
  cases hm1 : many1 env.isDigit s with
  | none => simp [hm1] at h
  | some v =>
    obtain ⟨d1, r⟩ := v
    simp only [hm1] at h
    cases r with
    | nil => simp at h
    | cons c r1 =>
      by_cases hc : c = '.'
      · subst hc
        simp only at h
        cases hm2 : many1 env.isDigit r1 with
        | none => simp [hm2] at h
        | some w =>
          obtain ⟨d2, r'⟩ := w
          simp [hm2] at h
          obtain ⟨_, rfl⟩ := h
          have h1 := many1_rest_lt hm1
          have h2 := many1_rest_lt hm2
          simp only [List.length_cons] at h1; omega
      · split at h
        · rename_i heq; simp at heq; exact absurd heq.2.1 hc
        · simp at h

theorem sentinelVersion_rest_lt {env : Env} {s a b : Str} (h : sentinelVersion env s = some (a, b)) : b.length < s.length := by
  unfold sentinelVersion at h
  cases hm : many1 env.isDigit s with
  | none => simp [hm] at h
  | some v =>
    obtain ⟨d, r⟩ := v
    simp only [hm] at h
    have h1 := many1_rest_lt hm
    have h2 := dotDigitsStar_rest_le env r.length r
    have h3 := opt_rest_le prerelease (fun _ _ _ => prerelease_rest_lt) (dotDigitsStar env r.length r).2
    simp only [Option.some.injEq, Prod.mk.injEq] at h
    obtain ⟨_, rfl⟩ := h
    omega

theorem version3_rest_lt {env : Env} {s a b : Str} (h : version3 env s = some (a, b)) : b.length < s.length := by
  unfold version3 at h
  cases ht : twoParts env s with
  | none => simp [ht] at h
  | some v =>
    obtain ⟨ab, r⟩ := v
    have h0 := twoParts_rest_lt ht
    simp only [ht] at h
    cases r with
    | nil => simp at h
    | cons c r0 =>
      by_cases hc : c = '.'
      · subst hc
        simp only at h
        cases hm : many1 env.isDigit r0 with
        | none => simp [hm] at h
        | some w =>
          obtain ⟨d3, r1⟩ := w
          have h1 := many1_rest_lt hm
          have h2 := dotDigitsStar_rest_le env r1.length r1
          have h3 := opt_rest_le prerelease (fun _ _ _ => prerelease_rest_lt) (dotDigitsStar env r1.length r1).2
          have h4 := opt_rest_le build (fun _ _ _ => build_rest_lt) (opt prerelease (dotDigitsStar env r1.length r1).2).2
          simp [hm] at h
          obtain ⟨_, rfl⟩ := h
          simp only [List.length_cons] at h0; omega
      · split at h
        · rename_i heq; simp at heq; exact absurd heq.2.1 hc
        · simp at h

theorem version2pre_rest_lt {env : Env} {s a b : Str} (h : version2pre env s = some (a, b)) : b.length < s.length := by
  unfold version2pre at h
  cases ht : twoParts env s with
  | none => simp [ht] at h
  | some v =>
    obtain ⟨ab, r⟩ := v
    have h0 := twoParts_rest_lt ht
    simp only [ht] at h
    cases hp : prerelease r with
    | none => simp [hp] at h
    | some w =>
      obtain ⟨p, r1⟩ := w
      have h1 := prerelease_rest_lt hp
      have h2 := opt_rest_le build (fun _ _ _ => build_rest_lt) r1
      simp [hp] at h
      obtain ⟨_, rfl⟩ := h
      omega

theorem version2build_rest_lt {env : Env} {s a b : Str} (h : version2build env s = some (a, b)) : b.length < s.length := by
  unfold version2build at h
  cases ht : twoParts env s with
  | none => simp [ht] at h
  | some v =>
    obtain ⟨ab, r⟩ := v
    have h0 := twoParts_rest_lt ht
    simp only [ht] at h
    cases hb : build r with
    | none => simp [hb] at h
    | some w =>
      obtain ⟨p, r1⟩ := w
      have h1 := build_rest_lt hb
      simp [hb] at h
      obtain ⟨_, rfl⟩ := h
      omega

theorem envelopeStart_rest_lt {s a b : Str} (h : envelopeStart s = some (a, b)) : b.length < s.length := by
  unfold envelopeStart at h
  split at h
  · rename_i c r hl
    have h0 := lit_rest hl
    split at h
    · have h1 := takeWhile_rest_le isEnvBody r
      simp only [Option.map_eq_some_iff, Prod.mk.injEq] at h
      obtain ⟨r2, hl2, _, rfl⟩ := h
      have h2 := lit_rest hl2
      have e3 : "===".toList.length = 3 := by decide
      simp only [List.length_cons, e3] at h0 h2
      omega
    · simp at h
  · simp at h

theorem optChar_rest_le (p : Char → Bool) (s : Str) : (optChar p s).2.length ≤ s.length := by
  unfold optChar
  split
  · split <;> simp
  · simp

theorem number_rest_lt {env : Env} {s a b : Str} (h : number env s = some (a, b)) : b.length < s.length := by
  unfold number at h
  have h0 := optChar_rest_le (· == '-') s
  cases hm : many1 env.isDigit (optChar (· == '-') s).2 with
  | none => simp [hm] at h
  | some v =>
    obtain ⟨d, r1⟩ := v
    have h1 := many1_rest_lt hm
    have h2 := optChar_rest_le (· == '.') r1
    have h3 := takeWhile_rest_le env.isDigit (optChar (· == '.') r1).2
    simp only [hm] at h
    split at h
    · rename_i e r4 heq
      have h4 := optChar_rest_le (fun c => c == '+' || c == '-') r4
      have h5 : r4.length < (takeWhile env.isDigit (optChar (· == '.') r1).2).2.length := by rw [heq]; simp
      split at h
      · cases hm2 : many1 env.isDigit (optChar (fun c => c == '+' || c == '-') r4).2 with
        | none => simp [hm2] at h; obtain ⟨_, rfl⟩ := h; omega
        | some w =>
          obtain ⟨ed, r6⟩ := w
          have h6 := many1_rest_lt hm2
          simp [hm2] at h; obtain ⟨_, rfl⟩ := h; omega
      · simp at h; obtain ⟨_, rfl⟩ := h; omega
    · simp at h; obtain ⟨_, rfl⟩ := h; omega
end Scan
end Octave
