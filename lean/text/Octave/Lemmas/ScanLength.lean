import Octave.Model.Lexer
/-! Every recogniser of Model/Scan returns a rest that is a (proper, where the pattern is non-empty)
shortening of its input.  Used by the lexer progress theorems (C20). -/
namespace Octave
namespace Scan

theorem takeWhile_append (p : Char → Bool) (s : Str) : (takeWhile p s).1 ++ (takeWhile p s).2 = s := by
  induction s with
  | nil => simp [takeWhile]
  | cons c cs ih =>
    simp only [takeWhile]
    split
    · simp [ih]
    · simp

theorem takeWhile_rest_le (p : Char → Bool) (s : Str) : (takeWhile p s).2.length ≤ s.length := by
  have h := congrArg List.length (takeWhile_append p s)
  simp only [List.length_append] at h; omega

theorem many1_rest_lt {p : Char → Bool} {s a b : Str} (h : many1 p s = some (a, b)) : b.length < s.length := by
  unfold many1 at h
  have hd := congrArg List.length (takeWhile_append p s)
  simp only [List.length_append] at hd
  split at h
  · simp at h
  · rename_i a' b' hne heq
    simp only [Option.some.injEq, Prod.mk.injEq] at h
    obtain ⟨rfl, rfl⟩ := h
    rw [heq] at hd
    have : a'.length ≠ 0 := by
      intro h0; exact hne (List.length_eq_zero_iff.mp h0)
    simp only at hd; omega

theorem stringBody_rest_lt (s : Str) : ∀ a b, stringBody s = some (a, b) → b.length < s.length := by
  fun_induction stringBody s <;> intro a b h
  all_goals simp_all
  all_goals (try (obtain ⟨x, y, hxy, rfl, rfl⟩ := h))
  all_goals first | omega | (rename_i ih; have := ih _ _ y; omega)

theorem tripleBody_rest_lt (s : Str) : ∀ a b, tripleBody s = some (a, b) → b.length < s.length := by
  fun_induction tripleBody s <;> intro a b h
  all_goals simp_all
  all_goals (try (obtain ⟨x, y, hxy, rfl, rfl⟩ := h))
  all_goals first | omega | (rename_i ih; have := ih _ _ y; omega)
end Scan
end Octave
