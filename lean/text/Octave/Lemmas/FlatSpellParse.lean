import Octave.Lemmas.FlatParse
/-!
Lenient SPELLINGS of a flat document — parser half.

`FlatParse` reads the token list of the canonical text (every position arbitrary).  Here the token list is the one the
lexer produces for ANY spelling (`Lemmas/FlatSpell`): each line `IDENTIFIER ASSIGN scalar NEWLINE` may be preceded by
INDENT tokens and followed by any number of further NEWLINE tokens (blank lines), the envelope line too, the scalar token
may carry any `normFrom` (triple quotes), the last line may lack its NEWLINE, and after the lines comes (INDENT tokens and)
either `===END===` followed by anything, or EOF.  The parser returns the same sections: positions, `normFrom`, INDENT
and the extra NEWLINE tokens are invisible to it.

* `parseValue_nf`          `parseValue` on a scalar token with any `normFrom` (the parser never reads `normFrom`)
* `parseSection_sline`     `IDENTIFIER ASSIGN scalar` followed by ANY token that ends the value and is not a comment
* `docLoop_skip`           the body loop steps over NEWLINE and INDENT tokens (continuation form)
* `docLoop_cutline`, `docLoop_lines`   one line / any number of lines (continuation form: `docLoop fuel … = docLoop fuel' …`)
* `docLoop_body`           the whole body up to ENVELOPE_END / EOF
* `skipWs_newlines`        `skip_whitespace` over any number of NEWLINE tokens
* `parseDocument_spelled`  the whole `parse_document` on `docToks`, with the exact warnings
-/
namespace Octave.SpellParse
open Octave Parser FlatParse

/-- evaluation of the parser monad on explicit states (same simp set as in `FlatParse`). -/
local macro "step_simp" "[" ts:Lean.Parser.Tactic.simpLemma,* "]" : tactic =>
  `(tactic| simp only [bind, StateT.bind, Except.bind, pure, StateT.pure, Except.pure, current_mk, peek_mk, advance_mk,
      curType_mk, isAdjacentBracket_mk, budget_mk, warn_mk, get, getThe, MonadStateOf.get, StateT.get,
      Bool.false_eq_true, if_false, if_true, Bool.false_and, Bool.and_false, Bool.or_false, Bool.false_or,
      List.length_cons, List.length_nil, beq_iff_eq, bne_iff_ne, ne_eq, reduceCtorEq, not_true_eq_false, not_false_eq_true,
      Bool.and_eq_true, Bool.or_eq_true, Bool.not_eq_true', beq_eq_false_iff_ne, false_and, and_false, true_and, and_true,
      false_or, or_false, true_or, or_true, decide_eq_true_eq,
      beq_self_eq_true, Bool.true_or, Bool.or_true, Bool.true_and, Bool.and_true, Bool.not_true, Bool.not_false, $ts,*])

/-- a scalar token as the lexer may deliver it: with any `normFrom`. -/
def nfTok (v : Scalar) (nf : Option Str) (l c : Nat) : Token := { v.tok l c with normFrom := nf }

theorem nfTok_none (v : Scalar) (l c : Nat) : nfTok v none l c = v.tok l c := by
  cases v <;> rfl

/-! ### `parseValue` ignores `normFrom` -/

theorem parseValue_nf_word (st : PState) (w : Str) (nf : Option Str) (l c : Nat) (next : Token) (k : List Token) (fuel : Nat)
    (hn : endsValue next.type = true) :
    parseValue (fuel + 2) { st with rest := nfTok (.word w) nf l c :: next :: k }
      = .ok (.str w, { st with rest := next :: k, prev := some (nfTok (.word w) nf l c), pos := st.pos + 1 }) := by
  obtain ⟨hv, he, hl', hb'⟩ := (endsValue_iff _).1 hn
  rw [parseValue]
  step_simp [nfTok, Scalar.tok, he, hl']
  rw [colonPath_stop (h := hb')]
  have htw : List.takeWhile (fun t => isValueTok t.type) (next :: k) = [] := by
    rw [List.takeWhile_cons]; simp only [hv, Bool.false_eq_true, if_false]
  by_cases ha : hasAnnotation w = true
  · step_simp [gt_iff_lt, Nat.zero_add, Nat.lt_irrefl, htw, List.any_nil, pyStrVal_str, ha]
    rw [annotatedLoop_stop (hv := hv) (he := he) (hl := hl')]
  · step_simp [gt_iff_lt, Nat.zero_add, Nat.lt_irrefl, htw, List.any_nil, pyStrVal_str, ha]
    rw [plainWords_stop (hv := hv) (hl := hl')]

/-- **every scalar token, whatever its `normFrom`**, followed by a token that ends the value is read as exactly its
value. -/
theorem parseValue_nf (st : PState) (v : Scalar) (nf : Option Str) (l c : Nat) (next : Token) (k : List Token) (fuel : Nat)
    (hn : endsValue next.type = true) (hr : st.rest = nfTok v nf l c :: next :: k) :
    parseValue (fuel + 2) st
      = .ok (v.val, { st with rest := next :: k, prev := some (nfTok v nf l c), pos := st.pos + 1 }) := by
  have hst : st = { st with rest := nfTok v nf l c :: next :: k } := by rw [← hr]
  rw [hst]
  obtain ⟨hv, -, hl, -⟩ := (endsValue_iff _).1 hn
  cases v with
  | str s => rw [parseValue]; step_simp [nfTok, Scalar.tok, hv, pyStrVal_str, Scalar.val]
  | int i raw => rw [parseValue]; step_simp [nfTok, Scalar.tok, hv, hl, Scalar.val]
  | float r raw => rw [parseValue]; step_simp [nfTok, Scalar.tok, hv, hl, Scalar.val]
  | bool b => rw [parseValue]; step_simp [nfTok, Scalar.tok, hv, Scalar.val]
  | null => rw [parseValue]; step_simp [nfTok, Scalar.tok, hv, Scalar.val]
  | word w => exact parseValue_nf_word st w nf l c next k fuel hn

/-! ### spelled lines at token level -/

def nlAt (p : Nat × Nat) : Token := { type := .newline, value := .str "\n".toList, line := p.1, col := p.2 }

/-- an INDENT token: (width, line, column). -/
def indAt (p : Nat × Nat × Nat) : Token := { type := .indent, value := .nat p.1, line := p.2.1, col := p.2.2 }

/-- one spelled line: INDENT tokens in front (indentation), the tokens `IDENTIFIER ASSIGN scalar` of `Line` (any
positions, any `normFrom` on the value token), the line's NEWLINE, and the positions of the further NEWLINE tokens of the
blank lines that follow. -/
structure SLine where
  base : Line
  nf : Option Str := none
  ind : List (Nat × Nat × Nat) := []
  extra : List (Nat × Nat) := []
  deriving Repr, Inhabited

def SLine.valTok (s : SLine) : Token := nfTok s.base.v s.nf s.base.l s.base.c3
def SLine.head3 (s : SLine) : List Token := [s.base.keyTok, s.base.assignTok, s.valTok]
/-- the line without its line end. -/
def SLine.cutToks (s : SLine) : List Token := s.ind.map indAt ++ s.head3
def SLine.toks (s : SLine) : List Token := s.cutToks ++ s.base.nlTok :: s.extra.map nlAt
def SLine.node (s : SLine) : Node := s.base.node

/-- `parse_section` on `IDENTIFIER ASSIGN scalar` followed by a token that ends the value and is not a comment. -/
theorem parseSection_sline (st : PState) (s : SLine) (next : Token) (k : List Token) (fuel : Nat)
    (hn : endsValue next.type = true) (hc : next.type ≠ TT.comment)
    (hr : st.rest = s.head3 ++ next :: k) :
    parseSection (fuel + 3) [] st
      = .ok (some s.node, { st with rest := next :: k, prev := some s.valTok, pos := st.pos + 3,
                                    warnings := s.base.warns ++ st.warnings }) := by
  have hst : st = { st with rest := s.head3 ++ next :: k } := by rw [← hr]
  rw [hst]
  obtain ⟨⟨key, v, l, c1, c2, c3, c4⟩, nf, ind, extra⟩ := s
  rw [parseSection]
  step_simp [SLine.head3, SLine.valTok, Line.keyTok, Line.assignTok, List.cons_append, List.nil_append, pyStrVal_str]
  rw [parseValue_nf (v := v) (nf := nf) (l := l) (c := c3) (hn := hn) (hr := rfl)]
  cases v with
  | word w =>
    simp only [Scalar.val]
    by_cases hk : key = "PATTERN".toList ∨ key = "REGEX".toList
    · have hc' : (key = "PATTERN".toList ∨ key = "REGEX".toList) ∧ ¬(nfTok (Scalar.word w) nf l c3).type = TT.string :=
        ⟨hk, by simp [nfTok, Scalar.tok]⟩
      rw [if_pos hc']
      step_simp [nfTok, Scalar.tok, SLine.node, Line.node, Line.warns, Scalar.val, hk, hc, List.nil_append, List.cons_append]
    · have hc' : ¬((key = "PATTERN".toList ∨ key = "REGEX".toList) ∧ ¬(nfTok (Scalar.word w) nf l c3).type = TT.string) :=
        fun h => hk h.1
      rw [if_neg hc']
      step_simp [nfTok, Scalar.tok, SLine.node, Line.node, Line.warns, Scalar.val, hk, hc, List.nil_append]
  | str s =>
    simp only [Scalar.val]
    have hc' : ¬((key = "PATTERN".toList ∨ key = "REGEX".toList) ∧ ¬(nfTok (Scalar.str s) nf l c3).type = TT.string) :=
      fun h => h.2 rfl
    rw [if_neg hc']
    step_simp [nfTok, Scalar.tok, SLine.node, Line.node, Line.warns, Scalar.val, hc, List.nil_append]
  | _ => step_simp [Scalar.val, nfTok, Scalar.tok, SLine.node, Line.node, Line.warns, hc, List.nil_append]

/-! ### the body loop skips NEWLINE and INDENT tokens -/

theorem docLoop_skip (vf : Nat) (ts : List Token) (R : List Token) (hR : R ≠ []) (fuel : Nat)
    (pending : List Str) (acc : List Node) (kp : KeyPos) (hts : ∀ t ∈ ts, t.type = TT.newline ∨ t.type = TT.indent) :
    ∀ (p : Option Token) (n : Nat) (la : Token) (w : List Warning) (d : Nat) (wd : List Nat) (s : Bool) (th : Nat) (al : Char → Bool),
    ∃ p' n', docLoop vf (fuel + ts.length) pending acc kp
        { rest := ts ++ R, prev := p, pos := n, last := la, warnings := w, depth := d, warned := wd, strict := s, threshold := th, alpha := al }
      = docLoop vf fuel pending acc kp
        { rest := R, prev := p', pos := n', last := la, warnings := w, depth := d, warned := wd, strict := s, threshold := th, alpha := al } := by
  induction ts with
  | nil => intro p n la w d wd s th al; exact ⟨p, n, rfl⟩
  | cons t ts ih =>
    intro p n la w d wd s th al
    obtain ⟨p', n', hih⟩ := ih (fun x hx => hts x (List.mem_cons_of_mem _ hx)) (some t) (n + 1) la w d wd s th al
    refine ⟨p', n', ?_⟩
    have hf : fuel + (t :: ts).length = (fuel + ts.length) + 1 := by simp only [List.length_cons]; omega
    rw [hf, List.cons_append, docLoop]
    rcases hts t (List.mem_cons_self ..) with h | h
    · step_simp [h]
      rw [advance_ne (h := by simp [hR])]
      exact hih
    · step_simp [h]
      rw [advance_ne (h := by simp [hR])]
      exact hih

theorem docLoop_stop (vf fuel : Nat) (pending : List Str) (acc : List Node) (kp : KeyPos) (e : Token) (tail : List Token)
    (he : e.type = .envelopeEnd ∨ e.type = .eof)
    (p : Option Token) (n : Nat) (la : Token) (w : List Warning) (d : Nat) (wd : List Nat) (s : Bool) (th : Nat) (al : Char → Bool) :
    docLoop vf (fuel + 1) pending acc kp
        { rest := e :: tail, prev := p, pos := n, last := la, warnings := w, depth := d, warned := wd, strict := s, threshold := th, alpha := al }
      = .ok ((acc, pending),
        { rest := e :: tail, prev := p, pos := n, last := la, warnings := w, depth := d, warned := wd, strict := s, threshold := th, alpha := al }) := by
  rw [docLoop]
  step_simp [he]

theorem nl_skippable (ps : List (Nat × Nat)) : ∀ t ∈ ps.map nlAt, t.type = TT.newline ∨ t.type = TT.indent := by
  intro t ht
  obtain ⟨q, _, rfl⟩ := List.mem_map.mp ht
  exact Or.inl rfl

theorem ind_skippable (ps : List (Nat × Nat × Nat)) : ∀ t ∈ ps.map indAt, t.type = TT.newline ∨ t.type = TT.indent := by
  intro t ht
  obtain ⟨q, _, rfl⟩ := List.mem_map.mp ht
  exact Or.inr rfl

/-- key table after the body loop went through `lines`. -/
def kpAfter : KeyPos → List Line → KeyPos
  | kp, [] => kp
  | kp, ln :: r => kpAfter (trackPure kp ln.key ln.l).1 r

theorem docWarns_append (a b : List Line) : ∀ kp, docWarns kp (a ++ b) = docWarns kp a ++ docWarns (kpAfter kp a) b := by
  induction a with
  | nil => intro kp; rfl
  | cons x r ih => intro kp; simp only [List.cons_append, docWarns, kpAfter, ih, List.append_assoc]

/-- **one line without its line end** in the body loop: indentation skipped, the Assignment appended. -/
theorem docLoop_cutline (vf : Nat) (ln : SLine) (next : Token) (k : List Token) (fuel : Nat)
    (hn : endsValue next.type = true) (hc : next.type ≠ TT.comment)
    (acc : List Node) (kp : KeyPos) (p : Option Token) (n : Nat) (la : Token) (w : List Warning) (d : Nat) (wd : List Nat)
    (s : Bool) (th : Nat) (al : Char → Bool) :
    ∃ p' n', docLoop (vf + 3) (fuel + 1 + ln.ind.length) [] acc kp
        { rest := ln.cutToks ++ next :: k, prev := p, pos := n, last := la, warnings := w, depth := d, warned := wd, strict := s, threshold := th, alpha := al }
      = docLoop (vf + 3) fuel [] (acc ++ [ln.node]) (trackPure kp ln.base.key ln.base.l).1
        { rest := next :: k, prev := p', pos := n', last := la,
          warnings := (docWarns kp [ln.base]).reverse ++ w, depth := d, warned := wd, strict := s, threshold := th, alpha := al } := by
  have hlen : ln.ind.length = (ln.ind.map indAt).length := by simp
  obtain ⟨p1, n1, h1⟩ := docLoop_skip (vf + 3) (ln.ind.map indAt) (ln.head3 ++ next :: k) (by simp [SLine.head3]) (fuel + 1) [] acc kp
    (ind_skippable _) p n la w d wd s th al
  refine ⟨some ln.valTok, n1 + 3, ?_⟩
  rw [SLine.cutToks, List.append_assoc, hlen, h1]
  have hshape : ln.head3 ++ next :: k = ln.base.keyTok :: ([ln.base.assignTok, ln.valTok] ++ next :: k) := rfl
  rw [hshape, docLoop]
  step_simp [Line.keyTok]
  rw [parseSection_sline (s := ln) (next := next) (k := k) (hn := hn) (hc := hc) (hr := rfl)]
  step_simp [SLine.node, Line.node, nodeAssignKey?, trackKey_eq]
  simp only [docWarns, List.append_nil, List.reverse_append, trackPure_warns_reverse, Line.warns_reverse, List.append_assoc]

/-- loop fuel a line needs: one iteration per INDENT, one for the section, one per NEWLINE. -/
def SLine.fuel (s : SLine) : Nat := s.ind.length + 2 + s.extra.length

def slFuel : List SLine → Nat
  | [] => 0
  | s :: r => s.fuel + slFuel r

theorem slFuel_le (lines : List SLine) : slFuel lines ≤ (lines.flatMap SLine.toks).length := by
  induction lines with
  | nil => simp [slFuel]
  | cons s r ih =>
    simp only [slFuel, SLine.fuel, List.flatMap_cons, List.length_append, SLine.toks, SLine.cutToks, SLine.head3, List.length_cons,
      List.length_nil, List.length_map]
    omega

/-- **the body loop on spelled lines** (continuation form): after `slFuel lines` iterations the loop stands behind the
lines with their nodes appended, their keys tracked and their warnings emitted. -/
theorem docLoop_lines (vf : Nat) (lines : List SLine) (R : List Token) (hR : R ≠ []) (fuel : Nat) :
    ∀ (acc : List Node) (kp : KeyPos) (p : Option Token) (n : Nat) (la : Token) (w : List Warning) (d : Nat) (wd : List Nat)
      (s : Bool) (th : Nat) (al : Char → Bool),
    ∃ p' n', docLoop (vf + 3) (fuel + slFuel lines) [] acc kp
        { rest := lines.flatMap SLine.toks ++ R, prev := p, pos := n, last := la, warnings := w, depth := d, warned := wd, strict := s, threshold := th, alpha := al }
      = docLoop (vf + 3) fuel [] (acc ++ lines.map SLine.node) (kpAfter kp (lines.map SLine.base))
        { rest := R, prev := p', pos := n', last := la,
          warnings := (docWarns kp (lines.map SLine.base)).reverse ++ w, depth := d, warned := wd, strict := s, threshold := th, alpha := al } := by
  induction lines with
  | nil =>
    intro acc kp p n la w d wd s th al
    exact ⟨p, n, by simp [slFuel, kpAfter, docWarns]⟩
  | cons ln r ih =>
    intro acc kp p n la w d wd s th al
    have hR' : r.flatMap SLine.toks ++ R ≠ [] := by simp [hR]
    -- the line up to its NEWLINE
    obtain ⟨p1, n1, h1⟩ := docLoop_cutline vf ln ln.base.nlTok (ln.extra.map nlAt ++ (r.flatMap SLine.toks ++ R))
      ((fuel + slFuel r) + (ln.extra.length + 1)) rfl (by simp [Line.nlTok]) acc kp p n la w d wd s th al
    -- its NEWLINE tokens
    obtain ⟨p2, n2, h2⟩ := docLoop_skip (vf + 3) (ln.base.nlTok :: ln.extra.map nlAt) (r.flatMap SLine.toks ++ R) hR' (fuel + slFuel r) []
      (acc ++ [ln.node]) (trackPure kp ln.base.key ln.base.l).1
      (by intro t ht
          rcases List.mem_cons.mp ht with h | h
          · rw [h]; exact Or.inl rfl
          · exact nl_skippable _ t h)
      p1 n1 la ((docWarns kp [ln.base]).reverse ++ w) d wd s th al
    -- the remaining lines
    obtain ⟨p3, n3, h3⟩ := ih (acc ++ [ln.node]) (trackPure kp ln.base.key ln.base.l).1 p2 n2 la
      ((docWarns kp [ln.base]).reverse ++ w) d wd s th al
    refine ⟨p3, n3, ?_⟩
    have hf : fuel + slFuel (ln :: r) = (fuel + slFuel r) + (ln.extra.length + 1) + 1 + ln.ind.length := by
      simp only [slFuel, SLine.fuel]; omega
    have hshape : (ln :: r).flatMap SLine.toks ++ R
        = ln.cutToks ++ ln.base.nlTok :: (ln.extra.map nlAt ++ (r.flatMap SLine.toks ++ R)) := by
      simp only [List.flatMap_cons, SLine.toks, List.append_assoc, List.cons_append]
    have hlen : ln.extra.length + 1 = (ln.base.nlTok :: ln.extra.map nlAt).length := by simp
    rw [hf, hshape, h1]
    rw [hlen, ← List.cons_append, h2, h3]
    simp only [List.map_cons, kpAfter, List.append_assoc, List.cons_append, List.nil_append, docWarns, List.reverse_append,
      List.append_nil]

/-- the optional last line without its line end. -/
def lastToks : Option SLine → List Token
  | none => []
  | some s => s.cutToks
def lastList : Option SLine → List SLine
  | none => []
  | some s => [s]
def lastFuel : Option SLine → Nat
  | none => 0
  | some s => 1 + s.ind.length

/-- the body of a spelled flat document: the lines, possibly a last line without its line end, possibly INDENT tokens,
then `e` = ENVELOPE_END or EOF. -/
def bodyToks (lines : List SLine) (last : Option SLine) (endInd : List (Nat × Nat × Nat)) (e : Token) (tail : List Token) : List Token :=
  lines.flatMap SLine.toks ++ (lastToks last ++ (endInd.map indAt ++ e :: tail))

def bodyFuel (lines : List SLine) (last : Option SLine) (endInd : List (Nat × Nat × Nat)) : Nat :=
  slFuel lines + lastFuel last + endInd.length + 1

theorem bodyFuel_le (lines : List SLine) (last : Option SLine) (endInd : List (Nat × Nat × Nat)) (e : Token) (tail : List Token) :
    bodyFuel lines last endInd ≤ (bodyToks lines last endInd e tail).length := by
  have := slFuel_le lines
  cases last with
  | none => simp only [bodyFuel, bodyToks, lastFuel, lastToks, List.length_append, List.length_map, List.length_cons, List.nil_append]; omega
  | some s =>
    simp only [bodyFuel, bodyToks, lastFuel, lastToks, SLine.cutToks, SLine.head3, List.length_append, List.length_map, List.length_cons,
      List.length_nil]; omega

/-- **the body loop on the body of any spelled flat document**: the same nodes and the same warnings as for the
canonical token list. -/
theorem docLoop_body (vf : Nat) (lines : List SLine) (last : Option SLine) (endInd : List (Nat × Nat × Nat)) (e : Token) (tail : List Token)
    (he : e.type = .envelopeEnd ∨ e.type = .eof) (extra : Nat)
    (acc : List Node) (kp : KeyPos) (p : Option Token) (n : Nat) (la : Token) (w : List Warning) (d : Nat) (wd : List Nat)
    (s : Bool) (th : Nat) (al : Char → Bool) :
    ∃ p' n', docLoop (vf + 3) (extra + bodyFuel lines last endInd) [] acc kp
        { rest := bodyToks lines last endInd e tail, prev := p, pos := n, last := la, warnings := w, depth := d, warned := wd, strict := s, threshold := th, alpha := al }
      = .ok ((acc ++ (lines ++ lastList last).map SLine.node, []),
             { rest := e :: tail, prev := p', pos := n', last := la,
               warnings := (docWarns kp ((lines ++ lastList last).map SLine.base)).reverse ++ w, depth := d, warned := wd, strict := s, threshold := th, alpha := al }) := by
  have hfin : ∀ (acc' : List Node) (kp' : KeyPos) (p1 : Option Token) (n1 : Nat) (w' : List Warning),
      ∃ p' n', docLoop (vf + 3) (extra + 1 + endInd.length) [] acc' kp'
        { rest := endInd.map indAt ++ e :: tail, prev := p1, pos := n1, last := la, warnings := w', depth := d, warned := wd, strict := s, threshold := th, alpha := al }
      = .ok ((acc', []),
             { rest := e :: tail, prev := p', pos := n', last := la, warnings := w', depth := d, warned := wd, strict := s, threshold := th, alpha := al }) := by
    intro acc' kp' p1 n1 w'
    obtain ⟨p2, n2, h2⟩ := docLoop_skip (vf + 3) (endInd.map indAt) (e :: tail) (by simp) (extra + 1) [] acc' kp' (ind_skippable _)
      p1 n1 la w' d wd s th al
    refine ⟨p2, n2, ?_⟩
    have : endInd.length = (endInd.map indAt).length := by simp
    rw [this, h2, docLoop_stop (he := he)]
  cases last with
  | none =>
    obtain ⟨p1, n1, h1⟩ := docLoop_lines vf lines (endInd.map indAt ++ e :: tail) (by simp) (extra + 1 + endInd.length)
      acc kp p n la w d wd s th al
    obtain ⟨p2, n2, h2⟩ := hfin (acc ++ lines.map SLine.node) (kpAfter kp (lines.map SLine.base)) p1 n1
      ((docWarns kp (lines.map SLine.base)).reverse ++ w)
    refine ⟨p2, n2, ?_⟩
    have hf : extra + bodyFuel lines none endInd = (extra + 1 + endInd.length) + slFuel lines := by
      simp only [bodyFuel, lastFuel]; omega
    rw [hf]
    simp only [bodyToks, lastToks, lastList, List.nil_append, List.append_nil]
    rw [h1, h2]
  | some ls =>
    have hnext : ∃ next k, endInd.map indAt ++ e :: tail = next :: k ∧ endsValue next.type = true ∧ next.type ≠ TT.comment := by
      cases endInd with
      | nil =>
        refine ⟨e, tail, rfl, ?_⟩
        rcases he with h | h <;> simp [h, endsValue, isValueTok, isExprOp]
      | cons q qs => exact ⟨indAt q, qs.map indAt ++ e :: tail, rfl, rfl, by simp [indAt]⟩
    obtain ⟨next, k, hk, hn, hc⟩ := hnext
    obtain ⟨p1, n1, h1⟩ := docLoop_lines vf lines (ls.cutToks ++ (endInd.map indAt ++ e :: tail)) (by simp [SLine.cutToks, SLine.head3])
      (extra + 1 + endInd.length + 1 + ls.ind.length) acc kp p n la w d wd s th al
    obtain ⟨p2, n2, h2⟩ := docLoop_cutline vf ls next k (extra + 1 + endInd.length) hn hc
      (acc ++ lines.map SLine.node) (kpAfter kp (lines.map SLine.base)) p1 n1 la
      ((docWarns kp (lines.map SLine.base)).reverse ++ w) d wd s th al
    obtain ⟨p3, n3, h3⟩ := hfin (acc ++ lines.map SLine.node ++ [ls.node]) (trackPure (kpAfter kp (lines.map SLine.base)) ls.base.key ls.base.l).1 p2 n2
      ((docWarns (kpAfter kp (lines.map SLine.base)) [ls.base]).reverse ++ ((docWarns kp (lines.map SLine.base)).reverse ++ w))
    refine ⟨p3, n3, ?_⟩
    have hf : extra + bodyFuel lines (some ls) endInd = (extra + 1 + endInd.length + 1 + ls.ind.length) + slFuel lines := by
      simp only [bodyFuel, lastFuel]; omega
    rw [hf]
    simp only [bodyToks, lastToks, lastList]
    rw [h1, hk, h2, ← hk, h3]
    simp only [List.map_append, List.map_cons, List.map_nil, List.append_assoc, docWarns_append, List.reverse_append]

/-! ### `parseDocument` on a spelled flat document -/

theorem skipWs_newlines (b : Bool) (ps : List (Nat × Nat)) (u : Token) (r : List Token)
    (h1 : u.type ≠ TT.newline) (h2 : u.type ≠ TT.comment) (fuel : Nat) :
    ∀ (p : Option Token) (n : Nat) (la : Token) (w : List Warning) (d : Nat) (wd : List Nat) (s : Bool) (th : Nat) (al : Char → Bool),
    ∃ p' n', skipWs b (fuel + ps.length + 1)
        { rest := ps.map nlAt ++ u :: r, prev := p, pos := n, last := la, warnings := w, depth := d, warned := wd, strict := s, threshold := th, alpha := al }
      = .ok ((), { rest := u :: r, prev := p', pos := n', last := la, warnings := w, depth := d, warned := wd, strict := s, threshold := th, alpha := al }) := by
  induction ps with
  | nil =>
    intro p n la w d wd s th al
    refine ⟨p, n, ?_⟩
    rw [List.map_nil, List.nil_append, skipWs]
    step_simp [h1, h2]
  | cons q qs ih =>
    intro p n la w d wd s th al
    obtain ⟨p', n', hih⟩ := ih (some (nlAt q)) (n + 1) la w d wd s th al
    refine ⟨p', n', ?_⟩
    have hf : fuel + (q :: qs).length + 1 = (fuel + qs.length + 1) + 1 := by simp only [List.length_cons]; omega
    rw [hf, List.map_cons, List.cons_append, skipWs]
    step_simp [nlAt]
    rw [advance_ne (h := by simp)]
    simp only []
    rw [if_neg (by simp only [List.length_append, List.length_map, List.length_cons]; omega)]
    simp only [nlAt] at hih
    exact hih

theorem skipWhitespace_newlines_cons (b : Bool) (q : Nat × Nat) (qs : List (Nat × Nat)) (u : Token) (r : List Token)
    (h1 : u.type ≠ TT.newline) (h2 : u.type ≠ TT.comment)
    (p : Option Token) (n : Nat) (la : Token) (w : List Warning) (d : Nat) (wd : List Nat) (s : Bool) (th : Nat) (al : Char → Bool) :
    ∃ p' n', skipWhitespace b
        { rest := nlAt q :: (qs.map nlAt ++ u :: r), prev := p, pos := n, last := la, warnings := w, depth := d, warned := wd, strict := s, threshold := th, alpha := al }
      = .ok ((), { rest := u :: r, prev := p', pos := n', last := la, warnings := w, depth := d, warned := wd, strict := s, threshold := th, alpha := al }) := by
  obtain ⟨p', n', h⟩ := skipWs_newlines b (q :: qs) u r h1 h2 (r.length + 2) p n la w d wd s th al
  refine ⟨p', n', ?_⟩
  unfold skipWhitespace
  step_simp []
  have hlen : (qs.map nlAt ++ u :: r).length + 1 + 2 = (r.length + 2) + (q :: qs).length + 1 := by
    simp only [List.length_append, List.length_map, List.length_cons]; omega
  rw [hlen]
  exact h

def envTokAt (name : Str) (l c : Nat) : Token := { type := .envelopeStart, value := .str name, line := l, col := c }

/-- the token list of a spelled flat document:
`ENVELOPE_START(name) NEWLINE+ [INDENT* IDENTIFIER ASSIGN scalar NEWLINE+]* [INDENT* IDENTIFIER ASSIGN scalar]? INDENT* e …`
where `e` is ENVELOPE_END or EOF. -/
def docToks (name : Str) (el ec : Nat) (q : Nat × Nat) (qs : List (Nat × Nat)) (lines : List SLine) (last : Option SLine)
    (endInd : List (Nat × Nat × Nat)) (e : Token) (tail : List Token) : List Token :=
  envTokAt name el ec :: nlAt q :: (qs.map nlAt ++ bodyToks lines last endInd e tail)

theorem advance_keeps (st : PState) : ∃ t st', advance st = .ok (t, st') ∧ st'.warnings = st.warnings := by
  obtain ⟨rest, prev, pos, last, warnings, depth, warned, strict, threshold, alpha⟩ := st
  rcases rest with _ | ⟨t, _ | ⟨u, r⟩⟩
  · exact ⟨_, _, rfl, rfl⟩
  · exact ⟨_, _, rfl, rfl⟩
  · exact ⟨_, _, rfl, rfl⟩

/-- the last statement of `parse_document`: step over `===END===` if it is there. -/
theorem finish_doc (doc : Document) (S : PState) (e : Token) :
    ∃ st', (if e.type = TT.envelopeEnd then StateT.bind advance fun _ => StateT.pure doc else StateT.pure doc) S = .ok (doc, st') ∧
      st'.warnings = S.warnings := by
  by_cases hend : e.type = TT.envelopeEnd
  · rw [if_pos hend]
    obtain ⟨t, st', ha, hw⟩ := advance_keeps S
    refine ⟨st', ?_, hw⟩
    simp only [StateT.bind, ha, StateT.pure, pure, Except.pure]
    rfl
  · rw [if_neg hend]
    exact ⟨_, rfl, rfl⟩

/-- a token that may start the body: an INDENT, a key that is not `META`, or the end. -/
def BodyHead (u : Token) : Prop :=
  u.type ≠ TT.newline ∧ u.type ≠ TT.comment ∧ u.type ≠ TT.separator ∧ u.type ≠ TT.grammarSentinel ∧
    u.type ≠ TT.envelopeStart ∧ ¬(u.type = TT.identifier ∧ u.value = TVal.str "META".toList)

theorem bodyHead_ind (q : Nat × Nat × Nat) : BodyHead (indAt q) := by
  refine ⟨?_, ?_, ?_, ?_, ?_, ?_⟩ <;> simp [indAt]

theorem bodyHead_key (ln : Line) (h : ln.key ≠ "META".toList) : BodyHead ln.keyTok := by
  refine ⟨by simp [Line.keyTok], by simp [Line.keyTok], by simp [Line.keyTok], by simp [Line.keyTok], by simp [Line.keyTok], fun hh => ?_⟩
  have h2 : ln.key = "META".toList := by
    have := hh.2; simp only [Line.keyTok, TVal.str.injEq] at this; exact this
  exact h h2

theorem bodyHead_end (e : Token) (he : e.type = .envelopeEnd ∨ e.type = .eof) : BodyHead e := by
  rcases he with h | h <;> (refine ⟨?_, ?_, ?_, ?_, ?_, ?_⟩ <;> simp [h])

theorem cutToks_head (s : SLine) (K : List Token) (h : s.base.key ≠ "META".toList) :
    ∃ u K', s.cutToks ++ K = u :: K' ∧ BodyHead u := by
  cases hi : s.ind with
  | nil => exact ⟨s.base.keyTok, s.base.assignTok :: s.valTok :: K, by simp [SLine.cutToks, SLine.head3, hi], bodyHead_key _ h⟩
  | cons q qs => exact ⟨indAt q, qs.map indAt ++ (s.head3 ++ K), by simp [SLine.cutToks, hi], bodyHead_ind q⟩

theorem spelled_body_head (lines : List SLine) (last : Option SLine) (endInd : List (Nat × Nat × Nat)) (e : Token) (tail : List Token)
    (he : e.type = .envelopeEnd ∨ e.type = .eof) (hm : metaFirst ((lines ++ lastList last).map SLine.base) = false) :
    ∃ u K, bodyToks lines last endInd e tail = u :: K ∧ BodyHead u := by
  cases lines with
  | cons ln r =>
    have hk : ln.base.key ≠ "META".toList := by
      simpa [metaFirst] using hm
    obtain ⟨u, K', h1, h2⟩ := cutToks_head ln (ln.base.nlTok :: ln.extra.map nlAt ++ (r.flatMap SLine.toks ++ (lastToks last ++ (endInd.map indAt ++ e :: tail)))) hk
    refine ⟨u, K', ?_, h2⟩
    rw [← h1]
    simp only [bodyToks, List.flatMap_cons, SLine.toks, List.append_assoc, List.cons_append]
  | nil =>
    cases last with
    | some s =>
      have hk : s.base.key ≠ "META".toList := by
        simpa [metaFirst, lastList] using hm
      obtain ⟨u, K', h1, h2⟩ := cutToks_head s (endInd.map indAt ++ e :: tail) hk
      exact ⟨u, K', by rw [← h1]; rfl, h2⟩
    | none =>
      cases endInd with
      | nil => exact ⟨e, tail, rfl, bodyHead_end e he⟩
      | cons q qs => exact ⟨indAt q, _, rfl, bodyHead_ind q⟩

/-- **`parse_document` on the token list of any spelling of a flat document**: the document with the same name and the
same sections as for the canonical token list, and the same warnings. -/
theorem parseDocument_spelled (name : Str) (el ec : Nat) (q : Nat × Nat) (qs : List (Nat × Nat)) (lines : List SLine)
    (last : Option SLine) (endInd : List (Nat × Nat × Nat))
    (e : Token) (tail : List Token) (he : e.type = .envelopeEnd ∨ e.type = .eof)
    (hm : metaFirst ((lines ++ lastList last).map SLine.base) = false) (st : PState)
    (hr : st.rest = docToks name el ec q qs lines last endInd e tail) :
    ∃ st', parseDocument st = .ok ({ name := name, sections := (lines ++ lastList last).map SLine.node }, st') ∧
      st'.warnings = (docWarns [] ((lines ++ lastList last).map SLine.base)).reverse ++ st.warnings := by
  obtain ⟨u, K, hK, h1, h2, h3, h4, h5, h6⟩ := spelled_body_head lines last endInd e tail he hm
  have hlen : bodyFuel lines last endInd ≤ K.length + 1 := by
    have := congrArg List.length hK
    have hle := bodyFuel_le lines last endInd e tail
    simp only [List.length_cons] at this
    omega
  have hst : st = { st with rest := envTokAt name el ec :: nlAt q :: (qs.map nlAt ++ u :: K) } := by
    rw [← hK, ← docToks, ← hr]
  rw [hst]
  obtain ⟨p0, n0, hskip⟩ := skipWhitespace_newlines_cons false q qs u K h1 h2 (some (envTokAt name el ec)) (st.pos + 1) st.last st.warnings
    st.depth st.warned st.strict st.threshold st.alpha
  unfold parseDocument
  simp (config := {zeta := false}) only [bind, StateT.bind, Except.bind, budget_mk]
  extract_lets n doc0 jp5 jp4 jp3 jp2 jp1
  step_simp [envTokAt, skipWhitespace_stop]
  simp only [jp1]
  step_simp []
  simp only [jp2]
  simp only [envTokAt] at hskip
  step_simp [hskip, pyStrVal_str, h1, h2]
  simp only [jp3]
  step_simp [h6]
  simp only [jp4]
  step_simp [h3]
  simp only [jp5]
  step_simp []
  obtain ⟨extra, hextra⟩ : ∃ extra, 2 * n = extra + bodyFuel lines last endInd :=
    ⟨2 * n - bodyFuel lines last endInd, by simp only [n, List.length_cons, List.length_append]; omega⟩
  obtain ⟨vf0, hvf⟩ : ∃ vf0, n = vf0 + 3 := ⟨n - 3, by simp only [n]; omega⟩
  obtain ⟨p', n', hdl⟩ := docLoop_body vf0 lines last endInd e tail he extra [] [] p0 n0 st.last st.warnings st.depth st.warned
    st.strict st.threshold st.alpha
  rw [hK, ← hvf, ← hextra] at hdl
  rw [hdl]
  step_simp [List.nil_append]
  exact finish_doc _ _ e

end Octave.SpellParse
