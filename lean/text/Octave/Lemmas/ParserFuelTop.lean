import Octave.Lemmas.ParserFuelDoc
/-!
C20, parser side: **no hang** — `ParserTop`: the META loops, the document loop and `parse_document`.
-/
namespace Octave
namespace Parser

-- the proofs below execute every path of large `do` blocks symbolically: 5× the default budget, so that no proof
-- sits at the edge of the deterministic timeout
set_option maxHeartbeats 1000000

theorem nestedMetaLoop_spec {vf : Nat} : ∀ {fuel : Nat} {ni : Nat} {hi : Bool} {acc : List (Str × Value)} {kp : KeyPos}
    {r : List Token}, (EofEnd r ∧ cB r < fuel ∧ cA r + 2 ≤ vf) →
    wpr (nestedMetaLoop vf fuel ni hi acc kp) r (fun _ r' => Le r r') := by
  intro fuel
  induction fuel with
  | zero => intro _ _ _ _ r h; omega
  | succ n ih =>
    intro ni hi acc kp r h
    unfold nestedMetaLoop
    wp_ind [ih]
    all_goals wp_fin
macro_rules
  | `(tactic| wp_lemma) => `(tactic| with_reducible refine wpr_mono (nestedMetaLoop_spec ?_) (fun _ _ _ => ?_))

theorem metaLoop_spec {vf : Nat} : ∀ {fuel : Nat} {il : Nat} {hi : Bool} {acc : List (Str × MetaVal)} {kp : KeyPos}
    {r : List Token}, (EofEnd r ∧ cB r < fuel ∧ cA r + 2 ≤ vf) →
    wpr (metaLoop vf fuel il hi acc kp) r (fun _ r' => Le r r') := by
  intro fuel
  induction fuel with
  | zero => intro _ _ _ _ r h; omega
  | succ n ih =>
    intro il hi acc kp r h
    unfold metaLoop
    wp_ind [ih]
    all_goals wp_fin
macro_rules
  | `(tactic| wp_lemma) => `(tactic| with_reducible refine wpr_mono (metaLoop_spec ?_) (fun _ _ _ => ?_))

theorem parseMetaBlock_spec {vf : Nat} {r : List Token} (h : EofEnd r ∧ cA r + 2 ≤ vf) :
    wpr (parseMetaBlock vf) r (fun _ r' => Le r r') := by
  unfold parseMetaBlock
  wp_run
  all_goals wp_fin
macro_rules
  | `(tactic| wp_lemma) => `(tactic| with_reducible refine wpr_mono (parseMetaBlock_spec ?_) (fun _ _ _ => ?_))

/-- the document loop: every iteration consumes a token (measure `cA + cB`). -/
theorem docLoop_spec {vf : Nat} : ∀ {fuel : Nat} {pend : List Str} {secs : List Node} {kp : KeyPos} {r : List Token},
    (EofEnd r ∧ cA r + cB r < fuel ∧ cA r + 2 ≤ vf) →
    wpr (docLoop vf fuel pend secs kp) r (fun _ r' => Le r r') := by
  intro fuel
  induction fuel with
  | zero => intro _ _ _ r h; omega
  | succ n ih =>
    intro pend secs kp r h
    unfold docLoop
    wp_ind [ih]
    all_goals try wp_fin
    all_goals first
      | contradiction
      | (exfalso; generalize (hd _).type = t at *; cases t <;> simp_all)
macro_rules
  | `(tactic| wp_lemma) => `(tactic| with_reducible refine wpr_mono (docLoop_spec ?_) (fun _ _ _ => ?_))

/-! ### `parse_document`

The `do` block of `parseDocument` is a chain of optional stages (`if … then …` without `else`, threading `let mut doc`);
each stage becomes a join point whose continuation is the whole rest of the function, so executing it symbolically
path by path doubles the work at every stage.  Instead the continuations are named (`docTail1 … docTail5`), the
model function is shown to be *definitionally equal* to the staged version (`parseDocument_eq`, by `rfl`), and every
stage gets its own specification. -/

def docTail5 (n : Nat) (doc : Document) : P Document := do
  let (sections, pending) ← docLoop n (2 * n) [] [] []
  let doc := { doc with sections := sections, trailingComments := pending }
  if (← curType) == .envelopeEnd then
    let _ ← advance
  pure doc

def docTail4 (n : Nat) (doc : Document) : P Document := do
  let mut doc := doc
  if (← curType) == .separator then
    doc := { doc with hasSeparator := true }
    let _ ← advance
    skipWhitespace false
  docTail5 n doc

def docTail3 (n : Nat) (doc : Document) : P Document := do
  let mut doc := doc
  let c ← current
  if c.type == .identifier && c.value == .str "META".toList then
    let m ← parseMetaBlock n
    doc := { doc with metaKv := m }
    skipWhitespace false
  docTail4 n doc

def docTail2 (n : Nat) (doc : Document) : P Document := do
  let mut doc := doc
  if (← curType) == .envelopeStart then
    let t ← advance
    doc := { doc with name := pyStrVal t.value }
    skipWhitespace false
  docTail3 n doc

def docTail1 (n : Nat) : P Document := do
  let mut doc : Document := {}
  if (← curType) == .grammarSentinel then
    doc := { doc with grammarVersion := some (pyStrVal (← current).value) }
    let _ ← advance
    skipWhitespace
  docTail2 n doc

def parseDocumentStaged : P Document := do
  let n := 2 * (← budget) + 10
  let st0 ← get
  skipWhitespace
  let c0 ← current
  let atMeta := c0.type == .identifier && c0.value == .str "META".toList
  if !(c0.type == .grammarSentinel || c0.type == .envelopeStart) && !atMeta then
    set st0
    skipWhitespace false
  docTail1 n

/-- the staged version IS the model function. -/
theorem parseDocument_eq : parseDocument = parseDocumentStaged := rfl

/-- what every stage needs: the value / section chain fuel `n` and the document-loop fuel `2·n` cover what is left. -/
def DocPre (n : Nat) (r : List Token) : Prop := EofEnd r ∧ cA r + 2 ≤ n ∧ cA r + cB r < 2 * n

theorem docTail5_spec {n : Nat} {doc : Document} {r : List Token} (h : DocPre n r) :
    wpr (docTail5 n doc) r (fun _ r' => Le r r') := by
  unfold DocPre at h
  unfold docTail5
  wp_run
  all_goals wp_fin
macro_rules
  | `(tactic| wp_lemma) => `(tactic| with_reducible refine wpr_mono (docTail5_spec ?_) (fun _ _ _ => ?_))

theorem docTail4_spec {n : Nat} {doc : Document} {r : List Token} (h : DocPre n r) :
    wpr (docTail4 n doc) r (fun _ r' => Le r r') := by
  unfold DocPre at h
  unfold docTail4
  wp_run
  all_goals try unfold DocPre
  all_goals wp_fin
macro_rules
  | `(tactic| wp_lemma) => `(tactic| with_reducible refine wpr_mono (docTail4_spec ?_) (fun _ _ _ => ?_))

theorem docTail3_spec {n : Nat} {doc : Document} {r : List Token} (h : DocPre n r) :
    wpr (docTail3 n doc) r (fun _ r' => Le r r') := by
  unfold DocPre at h
  unfold docTail3
  wp_run
  all_goals try unfold DocPre
  all_goals wp_fin
macro_rules
  | `(tactic| wp_lemma) => `(tactic| with_reducible refine wpr_mono (docTail3_spec ?_) (fun _ _ _ => ?_))

theorem docTail2_spec {n : Nat} {doc : Document} {r : List Token} (h : DocPre n r) :
    wpr (docTail2 n doc) r (fun _ r' => Le r r') := by
  unfold DocPre at h
  unfold docTail2
  wp_run
  all_goals try unfold DocPre
  all_goals wp_fin
macro_rules
  | `(tactic| wp_lemma) => `(tactic| with_reducible refine wpr_mono (docTail2_spec ?_) (fun _ _ _ => ?_))

theorem docTail1_spec {n : Nat} {r : List Token} (h : DocPre n r) :
    wpr (docTail1 n) r (fun _ r' => Le r r') := by
  unfold DocPre at h
  unfold docTail1
  wp_run
  all_goals try unfold DocPre
  all_goals wp_fin
macro_rules
  | `(tactic| wp_lemma) => `(tactic| with_reducible refine wpr_mono (docTail1_spec ?_) (fun _ _ _ => ?_))

/-- **`parse_document` never runs out of fuel** on a token list that ends with EOF and whose weighted size is at most
twice its length (+12) — which is what bracket balance gives (`cA_le_of_balanced`). -/
theorem parseDocument_spec {r : List Token} (h : EofEnd r ∧ cA r ≤ 2 * r.length + 12) :
    wpr parseDocument r (fun _ r' => Le r r') := by
  have hb := cB_le_length r
  rw [parseDocument_eq]
  unfold parseDocumentStaged
  apply wpr_bind; apply wpr_budget
  wp_run
  all_goals try unfold DocPre
  all_goals wp_fin

end Parser
end Octave
