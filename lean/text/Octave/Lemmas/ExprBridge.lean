import Octave.Lemmas.ExprParse
import Octave.Lemmas.Receipts
/-!
OPERATOR EXPRESSIONS as values of a flat document — emitter half and glue.

* the documents (`edoc`: one Assignment per line; an expression value is the STRING of its canonical text), the canonical
  text (`ecanonText` = the spelling that uses no freedom), `ELine.EmitOK`;
* `needsQuotes_expr`: the emitter leaves EVERY expression of the class bare (`Expr.OK e → needsQuotes e.text = false`: not
  empty, no line break / tab / CR, no reserved word, no reserved prefix at the start or after an operator, matches
  `EXPRESSION_PATTERN`), hence `emit_edoc`: the emitter writes exactly `ecanonText`;
* the glue between the lexer half (`ExprLex`: exact tokens of a spelled text, concrete positions) and the parser half
  (`ExprParse`: arbitrary positions): `edocToks_bridge`, `toMLines_wf`, `pnodes_bridge`;
* the receipts owed to a spelling (`docReceipts`: one per occurrence written with an alias) and `tailReps_norm`.
-/
namespace Octave.Expr
open Octave Lexer Emitter Parser FlatParse Spell

/-! ### the documents -/

/-- the AST value: a scalar's value; for an expression the STRING of its canonical text. -/
def evalValue : EVal → Value
  | .sc v => v.value
  | .ex e => .str e.text

def elineNode (ln : ELine) (l c : Nat) : Node := .assign ln.key (evalValue ln.v) l c [] none

def enodes (pos : Nat → Nat × Nat) : Nat → List ELine → List Node
  | _, [] => []
  | i, ln :: ls => elineNode ln (pos i).1 (pos i).2 :: enodes pos (i + 1) ls

/-- the document: an envelope with one Assignment per line (positions stored in the nodes: arbitrary). -/
def edoc (name : Str) (pos : Nat → Nat × Nat) (lines : List ELine) : Document :=
  { name := name, sections := enodes pos 0 lines }

/-- the lines of a spelled document. -/
abbrev elinesOf (sl : List SE) : List ELine := sl.map Prod.fst

/-- every operator written canonically. -/
def canonSpelling (lines : List ELine) : List SE := lines.map fun ln => (ln, [])

/-- **the canonical text**: the spelling that uses no freedom. -/
def ecanonText (name : Str) (lines : List ELine) : Str := edocText name (canonSpelling lines)

/-- first key is not `META`. -/
def efirstNotMeta (lines : List ELine) : Bool :=
  match lines with | ln :: _ => !(ln.key == "META".toList) | [] => true

/-- when the emitter spells the value the way the canonical text does (decidable): scalars as in `FLine.EmitOK`; for an
expression (which `needs_quotes` leaves bare whenever it is `Expr.OK`: `needsQuotes_expr`) the key must not force quotes
(`PATTERN` / `REGEX`). -/
def ELine.EmitOK (ln : ELine) : Prop :=
  match ln.v with
  | .sc v => FLine.EmitOK ⟨ln.key, v⟩
  | .ex _ => alwaysQuoteKey ln.key = false

/-! ### the emitter leaves every expression of the class bare: `Expr.OK e → needsQuotes e.text = false` -/

theorem unicodeOp_not_identBody (d : Char) (h : isUnicodeOp d = true) : isIdentBodyA d = false := by
  simp only [isUnicodeOp, Bool.or_eq_true, beq_iff_eq] at h
  rcases h with (((((h | h) | h) | h) | h) | h) | h <;> (subst h; decide)

theorem identBody_not_unicodeOp (d : Char) (h : isIdentBodyA d = true) : isUnicodeOp d = false := by
  cases hu : isUnicodeOp d with
  | false => rfl
  | true => rw [unicodeOp_not_identBody d hu] at h; cases h

theorem isUnicodeOp_ch (o : Op) : isUnicodeOp o.ch = true := by cases o <;> rfl

theorem identText_body (w : Str) (h : isIdentifierText w = true) : ∀ d ∈ w, isIdentBodyA d = true := by
  cases w with
  | nil => simp [isIdentifierText] at h
  | cons c t =>
    simp only [isIdentifierText, Bool.and_eq_true] at h
    intro d hd
    rcases List.mem_cons.mp hd with rfl | h'
    · exact identStart_body _ h.1.1
    · exact (List.all_eq_true.mp h.1.2) d h'

theorem reservedWords_lower : ∀ k ∈ ["true".toList, "false".toList, "null".toList, "vs".toList], ∀ d ∈ k, isLower d = true := by
  decide

/-- a word without reserved prefix keeps that property when something that does not start with a lower-case letter is
appended (an operator, or nothing). -/
theorem reservedAt_append (w t : Str) (hw : reservedAt w = false) (ht : ∀ d, t.head? = some d → isLower d = false) :
    reservedAt (w ++ t) = false := by
  unfold reservedAt at hw ⊢
  rw [List.any_eq_false] at hw ⊢
  intro k hk
  have hwk := hw k hk
  have hlow := reservedWords_lower k hk
  by_cases hp : k.isPrefixOf (w ++ t) = true
  · by_cases hp2 : k.isPrefixOf w = true
    · have hnext : ((w.drop k.length).head?.map isWordA).getD false = true := by simpa [hp2] using hwk
      obtain ⟨s', rfl⟩ := List.isPrefixOf_iff_prefix.mp hp2
      simp only [List.drop_left] at hnext
      cases s' with
      | nil => simp at hnext
      | cons d s'' =>
        simp only [List.head?_cons, Option.map_some, Option.getD_some] at hnext
        simp [List.append_assoc, hnext]
    · exfalso
      obtain ⟨r, hr⟩ := List.isPrefixOf_iff_prefix.mp hp
      rcases List.append_eq_append_iff.mp hr with ⟨a, h1, h2⟩ | ⟨a, h1, h2⟩
      · -- w = k ++ a
        apply hp2; rw [h1]; simp
      · -- k = w ++ a, t = a ++ r
        cases a with
        | nil => simp at h1; subst h1; simp at hp2
        | cons d a' =>
          have hd : isLower d = true := hlow d (by rw [h1]; simp)
          have := ht d (by rw [h2]; rfl)
          rw [hd] at this; cases this
  · simp [hp]

theorem tailText_head (r : List (Op × Str)) : ∀ d, (tailText r).head? = some d → isLower d = false := by
  intro d hd
  cases r with
  | nil => simp [tailText] at hd
  | cons q r' =>
    obtain ⟨o, x⟩ := q
    simp only [tailText, List.head?_cons, Option.some.injEq] at hd
    subst hd
    cases o <;> decide

theorem wordOK_reservedAt {w : Str} (h : wordOK w) : reservedAt w = false := by
  have := h.2
  simp only [hasReservedPrefix, Bool.or_eq_false_iff] at this
  exact this.1

theorem reservedPrefixAux_expr (tail : List (Op × Str)) : ∀ (w : Str), (∀ d ∈ w, isUnicodeOp d = false) →
    (∀ p ∈ tail, wordOK p.2) → reservedPrefixAux (w ++ tailText tail) = false := by
  induction tail with
  | nil =>
    intro w hw _
    simp only [tailText, List.append_nil]
    induction w with
    | nil => rfl
    | cons c t ih =>
      simp only [reservedPrefixAux, hw c (by simp), Bool.false_and, Bool.false_or]
      exact ih (fun d hd => hw d (by simp [hd]))
  | cons q r ih =>
    intro w hw ht
    obtain ⟨o, x⟩ := q
    have hx : wordOK x := ht (o, x) (by simp)
    have h1 := ih x (fun d hd => identBody_not_unicodeOp d (identText_body _ hx.1 d hd)) (fun p hp => ht p (by simp [hp]))
    have h2 := reservedAt_append x (tailText r) (wordOK_reservedAt hx) (tailText_head r)
    induction w with
    | nil =>
      simp only [List.nil_append, tailText, reservedPrefixAux, h1, h2, Bool.and_false, Bool.or_false]
    | cons c t ih2 =>
      simp only [List.cons_append, reservedPrefixAux, hw c (by simp), Bool.false_and, Bool.false_or]
      exact ih2 (fun d hd => hw d (by simp [hd]))

theorem hasReservedPrefix_expr (e : Expr) (h : e.OK) : hasReservedPrefix e.text = false := by
  obtain ⟨hh, ht, _⟩ := h
  unfold hasReservedPrefix Expr.text
  rw [reservedAt_append e.head _ (wordOK_reservedAt hh) (tailText_head e.tail),
    reservedPrefixAux_expr e.tail e.head (fun d hd => identBody_not_unicodeOp d (identText_body _ hh.1 d hd)) ht]
  rfl

theorem tailText_chars (tail : List (Op × Str)) (ht : ∀ p ∈ tail, wordOK p.2) :
    ∀ d ∈ tailText tail, isIdentBodyA d = true ∨ isUnicodeOp d = true := by
  induction tail with
  | nil => intro d hd; simp [tailText] at hd
  | cons q r ih =>
    obtain ⟨o, x⟩ := q
    intro d hd
    simp only [tailText, List.mem_cons, List.mem_append] at hd
    rcases hd with rfl | hd | hd
    · exact Or.inr (isUnicodeOp_ch o)
    · exact Or.inl (identText_body _ (ht (o, x) (by simp)).1 d hd)
    · exact ih (fun p hp => ht p (by simp [hp])) d hd

theorem text_chars (e : Expr) (h : e.OK) : ∀ d ∈ e.text, isIdentBodyA d = true ∨ isUnicodeOp d = true := by
  intro d hd
  simp only [Expr.text, List.mem_append] at hd
  rcases hd with hd | hd
  · exact Or.inl (identText_body _ h.1.1 d hd)
  · exact tailText_chars e.tail h.2.1 d hd

theorem text_has_op (e : Expr) (h : e.OK) : ∃ d ∈ e.text, isUnicodeOp d = true := by
  obtain ⟨_, _, hne⟩ := h
  cases htl : e.tail with
  | nil => exact absurd htl hne
  | cons q r =>
    obtain ⟨o, x⟩ := q
    exact ⟨o.ch, by simp [Expr.text, htl, tailText], isUnicodeOp_ch o⟩

/-- `re.split` on the operator characters gives back the operands. -/
theorem splitOn_expr (tail : List (Op × Str)) : ∀ (w : Str), (∀ d ∈ w, isUnicodeOp d = false) →
    (∀ p ∈ tail, ∀ d ∈ p.2, isUnicodeOp d = false) →
    splitOn isUnicodeOp (w ++ tailText tail) = w :: tail.map Prod.snd := by
  induction tail with
  | nil =>
    intro w hw _
    simp only [tailText, List.append_nil, List.map_nil]
    induction w with
    | nil => rfl
    | cons c t ih =>
      have := ih (fun d hd => hw d (by simp [hd]))
      simp only [splitOn, this, hw c (by simp), Bool.false_eq_true, if_false]
  | cons q r ih =>
    intro w hw ht
    obtain ⟨o, x⟩ := q
    have hx := ih x (fun d hd => ht (o, x) (by simp) d hd) (fun p hp => ht p (by simp [hp]))
    induction w with
    | nil =>
      simp only [List.nil_append, tailText, splitOn, hx, isUnicodeOp_ch, if_true, List.map_cons]
    | cons c t ih2 =>
      have := ih2 (fun d hd => hw d (by simp [hd]))
      simp only [List.cons_append, splitOn, this, hw c (by simp), Bool.false_eq_true, if_false]

theorem isExpressionText_expr (e : Expr) (h : e.OK) : isExpressionText e.text = true := by
  obtain ⟨hh, ht, hne⟩ := h
  have hs := splitOn_expr e.tail e.head (fun d hd => identBody_not_unicodeOp d (identText_body _ hh.1 d hd))
    (fun p hp d hd => identBody_not_unicodeOp d (identText_body _ (ht p hp).1 d hd))
  unfold isExpressionText Expr.text
  rw [hs]
  simp only [List.length_cons, List.length_map, List.all_cons, List.all_map, Bool.and_eq_true, decide_eq_true_eq, hh.1, true_and]
  constructor
  · cases htl : e.tail with
    | nil => exact absurd htl hne
    | cons a b => simp
  · rw [List.all_eq_true]
    intro p hp
    exact (ht p hp).1


/-- **the emitter leaves every expression of the class bare**: `needs_quotes` is false — the text is not empty, holds no
line break / tab / CR, is no reserved word, has no reserved prefix at its start or after an operator, and matches
`EXPRESSION_PATTERN`. -/
theorem needsQuotes_expr (e : Expr) (h : e.OK) : needsQuotes e.text = false := by
  have hne : e.text.isEmpty = false := by
    have := wordOK_ne_nil h.1
    cases hh : e.head with
    | nil => exact absurd hh this
    | cons c t => simp [Expr.text, hh]
  have hch := text_chars e h
  have hc : ∀ x, (isIdentBodyA x = false ∧ isUnicodeOp x = false) → e.text.contains x = false := by
    intro x hx
    apply contains_false
    intro d hd he
    subst he
    rcases hch d hd with h' | h'
    · rw [hx.1] at h'; cases h'
    · rw [hx.2] at h'; cases h'
  obtain ⟨d, hd, hdo⟩ := text_has_op e h
  have hw : ∀ k : Str, (∀ x ∈ k, isUnicodeOp x = false) → (e.text == k) = false := by
    intro k hk
    rw [beq_eq_false_iff_ne]
    intro he
    rw [he] at hd
    rw [hk d hd] at hdo; cases hdo
  unfold needsQuotes
  simp only [hne, hc '\n' (by decide), hc '\t' (by decide), hc '\r' (by decide), hw "true".toList (by decide), hw "false".toList (by decide),
    hw "null".toList (by decide), hw "vs".toList (by decide), hasReservedPrefix_expr e h, isExpressionText_expr e h, Bool.or_self,
    Bool.false_eq_true, if_false, if_true]
  split <;> (try rfl)
  split <;> rfl

/-! ### emitter -/

/-- the canonical line. -/
def ELine.text (ln : ELine) : Str := ln.spell []

theorem emitNode_eline (env : Env) (ln : ELine) (l c : Nat) (hok : ln.OK) (h : ln.EmitOK) :
    emitNode env (elineNode ln l c) 0 false = some [ln.text] := by
  obtain ⟨key, v⟩ := ln
  cases v with
  | sc v => exact emitNode_flat env ⟨key, v⟩ l c h
  | ex e =>
    have hq : needsQuotes e.text = false := needsQuotes_expr e hok.2.2
    have ha : alwaysQuoteKey key = false := h
    simp [elineNode, evalValue, emitNode, emitAssignment, emitValue, emitStr, hq, forceQuote, ha, leadingLines, indentStr,
      ELine.text, ELine.spell, EVal.spell, Expr.spell_nil]

theorem emitTop_enodes (env : Env) (pos : Nat → Nat × Nat) : ∀ (lines : List ELine) (i : Nat), (∀ ln ∈ lines, ln.OK) →
    (∀ ln ∈ lines, ln.EmitOK) → emitTop env (enodes pos i lines) = some (lines.map ELine.text) := by
  intro lines
  induction lines with
  | nil => intro i _ _; rfl
  | cons ln ls ih =>
    intro i hok h
    have h1 := emitNode_eline env ln (pos i).1 (pos i).2 (hok ln (by simp)) (h ln (by simp))
    have h2 := ih (i + 1) (fun l hl => hok l (by simp [hl])) (fun l hl => h l (by simp [hl]))
    simp only [enodes, emitTop, elineNode] at *
    rw [h1, h2]; rfl

theorem joinWith_elines (lines : List ELine) (tail : Str) :
    joinWith ['\n'] (lines.map ELine.text ++ [tail]) = elinesText (canonSpelling lines) ++ tail := by
  induction lines with
  | nil => rfl
  | cons ln ls ih =>
    cases ls with
    | nil => simp [joinWith, elinesText, canonSpelling, ELine.text]
    | cons m ms =>
      simp only [List.map_cons, List.cons_append, joinWith, elinesText, canonSpelling, ELine.text] at ih ⊢
      rw [ih]; simp

/-- **The emitter on a flat document with expression values** writes exactly the canonical text: the expression string
is written bare. -/
theorem emit_edoc (env : Env) (name : Str) (pos : Nat → Nat × Nat) (lines : List ELine) (hok : ∀ ln ∈ lines, ln.OK)
    (h : ∀ ln ∈ lines, ln.EmitOK) : emit env (edoc name pos lines) = some (ecanonText name lines) := by
  have ht := emitTop_enodes env pos lines 0 hok h
  have hj := joinWith_elines lines "===END===".toList
  unfold emit emitBody
  simp only [edoc, emitMetaLines, ht, leadingLines, List.map_nil, List.isEmpty_nil, Bool.true_or, if_true,
    Bool.false_eq_true, if_false, List.nil_append, List.append_nil, bind, Option.bind, pure, Option.map]
  show some (finishText (joinWith ['\n'] (("===".toList ++ name ++ "===".toList) :: (lines.map ELine.text ++ ["===END===".toList])))) = _
  have hne : lines.map ELine.text ++ ["===END===".toList] ≠ [] := by simp
  obtain ⟨x, xs, hx⟩ := List.exists_cons_of_ne_nil hne
  rw [hx, joinWith, ← hx, hj]
  have hlast : (("===".toList ++ name ++ "===".toList) ++ ['\n'] ++ (elinesText (canonSpelling lines) ++ "===END===".toList)).getLast? = some '=' := by
    rw [List.getLast?_append, List.getLast?_append]; rfl
  simp only [finishText, hlast]
  simp [ecanonText, edocText]

/-! ### glue between the lexer half (concrete positions) and the parser half (arbitrary positions) -/

theorem tailToks_bridge (l : Nat) (tail : List (Op × Str)) : ∀ (c : Nat) (sps : List OpSp),
    TailToks tail (tailToksRev l c tail sps).reverse := by
  induction tail with
  | nil => intro c sps; exact TailToks.nil
  | cons q r ih =>
    intro c sps
    obtain ⟨o, w⟩ := q
    simp only [tailToksRev, List.reverse_append, List.reverse_cons, List.reverse_nil, List.nil_append, List.cons_append]
    exact TailToks.cons o w _ _ _ _ _ (ih _ _)

/-- the spelled line at line `l` as the parser half describes it. -/
def toMLine (x : SE) (l : Nat) : PLine :=
  match x.1.v with
  | .sc v => .sc ((FLine.mk x.1.key v).toP l)
  | .ex e => .ex { key := x.1.key, l := l, c1 := 1, c2 := 1 + x.1.key.length, e := e, hl := l, hc := 1 + x.1.key.length + 2,
                   ts := (tailToksRev l (1 + x.1.key.length + 2 + e.head.length) e.tail x.2).reverse,
                   nlL := l, nlC := 1 + x.1.key.length + 2 + (e.spell x.2).length }

def toMLines (l : Nat) : List SE → List PLine
  | [] => []
  | x :: r => toMLine x l :: toMLines (l + 1) r

theorem toMLines_length (sl : List SE) : ∀ l, (toMLines l sl).length = sl.length := by
  induction sl with
  | nil => intro l; rfl
  | cons x r ih => intro l; simp [toMLines, ih]

theorem toMLine_wf (x : SE) (l : Nat) (h : x.1.OK) : (toMLine x l).WF := by
  obtain ⟨⟨key, v⟩, sps⟩ := x
  cases v with
  | sc v => trivial
  | ex e => exact ⟨tailToks_bridge l e.tail _ sps, h.2.2.2.2⟩

theorem toMLines_wf (sl : List SE) (hok : ∀ x ∈ sl, x.1.OK) : ∀ l, ∀ ln ∈ toMLines l sl, ln.WF := by
  induction sl with
  | nil => intro l ln h; simp [toMLines] at h
  | cons x r ih =>
    intro l ln h
    simp only [toMLines, List.mem_cons] at h
    rcases h with rfl | h
    · exact toMLine_wf x l (hok x (by simp))
    · exact ih (fun y hy => hok y (by simp [hy])) (l + 1) ln h

theorem eline_toks_bridge (x : SE) (l : Nat) : (x.1.toksRev x.2 l 1).reverse = (toMLine x l).toks := by
  obtain ⟨⟨key, v⟩, sps⟩ := x
  cases v with
  | sc v => exact line_toks_bridge ⟨key, v⟩ l
  | ex e =>
    simp only [ELine.toksRev, EVal.toksRev, EVal.spell, toMLine, PLine.toks, XLine.toks, XLine.nlTok, List.reverse_cons,
      List.reverse_append, List.reverse_nil, List.nil_append, List.cons_append, List.append_assoc]

theorem elines_toks_bridge (sl : List SE) : ∀ l, (elinesToksRev l sl).reverse = (toMLines l sl).flatMap PLine.toks := by
  induction sl with
  | nil => intro l; rfl
  | cons x r ih =>
    intro l
    simp only [elinesToksRev, toMLines, List.reverse_append, List.flatMap_cons, eline_toks_bridge, ih]

/-- the two descriptions of the token list agree. -/
theorem edocToks_bridge (name : Str) (sl : List SE) :
    edocToks name sl = mixedToks (flatFrame name sl.length) name (toMLines 2 sl) := by
  simp only [edocToks, edocToksRev, mixedToks, List.reverse_cons, List.reverse_append, elines_toks_bridge]
  simp [flatFrame, Frame.envTok, Frame.nl0Tok, Frame.endTok, Frame.nl1Tok, Frame.eofTok, tEof, tNewline, tEnvEnd, tEnvStart]

theorem pnode_bridge (x : SE) (l : Nat) : (toMLine x l).node = elineNode x.1 l 1 := by
  obtain ⟨⟨key, v⟩, sps⟩ := x
  cases v with
  | sc v => exact node_bridge ⟨key, v⟩ l
  | ex e => rfl

theorem pnodes_bridge (sl : List SE) : ∀ (i : Nat),
    (toMLines (i + 2) sl).map PLine.node = enodes (fun i => (i + 2, 1)) i (sl.map Prod.fst) := by
  induction sl with
  | nil => intro i; rfl
  | cons x r ih =>
    intro i
    simp only [toMLines, List.map_cons, enodes, pnode_bridge]
    rw [show i + 2 + 1 = (i + 1) + 2 by omega, ih (i + 1)]

theorem pkey_bridge (x : SE) (l : Nat) : (toMLine x l).key = x.1.key := by
  obtain ⟨⟨key, v⟩, sps⟩ := x
  cases v <;> rfl

theorem mixedMetaFirst_bridge (sl : List SE) (l : Nat) (h : efirstNotMeta (sl.map Prod.fst) = true) :
    mixedMetaFirst (toMLines l sl) = false := by
  cases sl with
  | nil => rfl
  | cons x r =>
    simp only [toMLines, mixedMetaFirst, pkey_bridge]
    simpa [efirstNotMeta] using h

theorem stripFrontmatter_edoc (env : Env) (name : Str) (sl : List SE) :
    Parser.stripFrontmatter env (edocText name sl) = (edocText name sl, none) := by
  unfold Parser.stripFrontmatter
  have : startsWith "---".toList (edocText name sl) = false := by
    simp [edocText, startsWith, List.isPrefixOf]
  rw [this]; rfl

/-! ### the normalisation receipts: exactly one per aliased occurrence -/

/-- the receipts owed to the tail at line `l` (in reading order): one per occurrence written with an alias — original
text, replacement, line, and the column of the operator itself; none for an occurrence written canonically. -/
def tailReceipts (l : Nat) : Nat → List (Op × Str) → List OpSp → List Repair
  | _, [], _ => []
  | c, (o, w) :: r, sps =>
    (opReps o (coreNf o (sps.headD {}).form) l (c + opPre o (sps.headD {}))) ++
      tailReceipts l (c + (opText o (sps.headD {})).length + w.length) r sps.tail

/-- the receipts owed to the line written at text line `l` (a scalar line: none). -/
def lineReceipts (l : Nat) (x : SE) : List Repair :=
  match x.1.v with
  | .ex e => tailReceipts l (1 + x.1.key.length + 2 + e.head.length) e.tail x.2
  | .sc _ => []

/-- the receipts owed to the document, in reading order (first body line = text line `l`). -/
def docReceipts (l : Nat) : List SE → List Repair
  | [] => []
  | x :: r => lineReceipts l x ++ docReceipts (l + 1) r

theorem filter_idReps (s : Str) (a b : Nat) : (identifierRepairs s a b).reverse.filter isNormalization = [] := by
  rw [List.filter_eq_nil_iff]
  intro r hr
  have := identifierRepairs_not_norm s a b r (List.mem_reverse.mp hr)
  simpa using this

theorem filter_opReps (o : Op) (nf : Option Str) (l c : Nat) : (opReps o nf l c).filter isNormalization = opReps o nf l c := by
  cases nf <;> simp [opReps, List.filter, isNormalization]

theorem opReps_reverse (o : Op) (nf : Option Str) (l c : Nat) : (opReps o nf l c).reverse = opReps o nf l c := by
  cases nf <;> rfl

theorem tailReps_norm (l : Nat) (tail : List (Op × Str)) : ∀ (c : Nat) (sps : List OpSp),
    ((tailRepsRev l c tail sps).filter isNormalization).reverse = tailReceipts l c tail sps := by
  induction tail with
  | nil => intro c sps; rfl
  | cons q r ih =>
    intro c sps
    obtain ⟨o, w⟩ := q
    simp only [tailRepsRev, tailReceipts, List.filter_append, List.reverse_append, filter_idReps, filter_opReps, opReps_reverse, ih,
      List.nil_append]

end Octave.Expr
