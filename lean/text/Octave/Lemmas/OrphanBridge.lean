import Octave.Lemmas.CommentBridge
import Octave.Lemmas.CommentOrphans
import Octave.Lemmas.OrphanLex
/-!
Glue between the lexer half (`OrphanLex`, concrete positions) and the parser half (`CommentOrphans`, arbitrary positions) of the
round trip of documents with nested blocks, comments AND ORPHAN COMMENTS (comment lines that end a block) — `CommentBridge` once
more, with the orphan run behind the children of every block.  Shared pieces (`cmtPos`, `clinePos`, `cheaderPos`, `leadPos`,
`CAgree`, `leadToks_agree`, `indToks_bridge`, …) come from `CommentBridge`.

* `OrphNode.toP` / `orphTreeToP`, `OrphNode.cpos` / `orphPosList` / `orphPosAll` / `orphPosOf` / `orphFrame`: an orphan line of a
  block at depth `d` has the positions `cmtPos c (d + 1) l` of a comment line at the children's depth;
* `OrphNode.toks_agree` / `orphTreeToks_agree`, `orphToks_bridge`: the two token descriptions coincide;
* `orph_canonCols_posOf`, `orph_colsOk_posOf`, `orph_metaFirst_bridge`, `orphTreeDoc_bridge`, `orph_stripFrontmatter`.
-/
namespace Octave
open Lexer Emitter

/-! ### content and positions in the vocabulary of the parser half -/

mutual
/-- the node as the parser half describes it. -/
def OrphNode.toP : OrphNode → CommentOrphans.ONode
  | .line ln lead trail => .line ln.key ln.v.toP lead trail
  | .block key cs orph lead => .block key (orphTreeToP cs) orph lead
def orphTreeToP : List OrphNode → List CommentOrphans.ONode
  | [] => []
  | n :: ns => n.toP :: orphTreeToP ns
end

def OrphNode.lead : OrphNode → List Str
  | .line _ lead _ => lead
  | .block _ _ _ lead => lead

def OrphNode.key : OrphNode → Str
  | .line ln _ _ => ln.key
  | .block key _ _ _ => key

theorem OrphNode.lead_toP (n : OrphNode) : n.toP.lead = n.lead := by
  cases n <;> rfl

theorem OrphNode.key_toP (n : OrphNode) : n.toP.key = n.key := by
  cases n <;> rfl


mutual
/-- positions of the source lines of a node at depth `d` whose first line (its first leading comment, if any) is text line
`l`, in reading order. -/
def OrphNode.cpos (d l : Nat) : OrphNode → List CommentParse.CPos
  | .line ln lead trail => leadPos d l lead ++ [clinePos ln trail d (l + lead.length)]
  | .block key cs orph lead =>
    leadPos d l lead ++ (cheaderPos key d (l + lead.length) :: (orphPosList (d + 1) (l + lead.length + 1) cs ++
      leadPos (d + 1) (l + lead.length + 1 + orphTreeNLines cs) orph))
def orphPosList (d l : Nat) : List OrphNode → List CommentParse.CPos
  | [] => []
  | n :: ns => n.cpos d l ++ orphPosList d (l + n.nlines) ns
end

/-- all positions of the body: the forest (first line = text line 2), then the document's trailing comment lines. -/
def orphPosAll (nodes : List OrphNode) (trailing : List Str) : List CommentParse.CPos :=
  orphPosList 0 2 nodes ++ leadPos 0 (orphTreeNLines nodes + 2) trailing

/-- the position function of the parser half for the canonical text: body line `i` (0-based) is text line `i + 2`. -/
def orphPosOf (nodes : List OrphNode) (trailing : List Str) : Nat → CommentParse.CPos :=
  fun i => (orphPosAll nodes trailing).getD i default

/-- the frame (envelope and end tokens) of the canonical text. -/
def orphFrame (name : Str) (nodes : List OrphNode) (trailing : List Str) : FlatParse.Frame :=
  flatFrame name (orphDocNLines nodes trailing)

mutual
theorem OrphNode.lines_toP : ∀ (n : OrphNode), n.toP.lines = n.nlines
  | .line ln lead trail => rfl
  | .block key cs orph lead => by
    simp only [OrphNode.toP, CommentOrphans.ONode.lines, OrphNode.nlines, orphLinesList_toP cs]
theorem orphLinesList_toP : ∀ (ns : List OrphNode), CommentOrphans.linesList (orphTreeToP ns) = orphTreeNLines ns
  | [] => rfl
  | n :: ns => by
    simp only [orphTreeToP, CommentOrphans.linesList, orphTreeNLines, OrphNode.lines_toP n, orphLinesList_toP ns]
end

mutual
theorem OrphNode.cpos_length : ∀ (n : OrphNode) (d l : Nat), (n.cpos d l).length = n.nlines
  | .line ln lead trail, d, l => by
    simp only [OrphNode.cpos, OrphNode.nlines, List.length_append, leadPos_length, List.length_cons, List.length_nil]
  | .block key cs orph lead, d, l => by
    simp only [OrphNode.cpos, OrphNode.nlines, List.length_append, leadPos_length, List.length_cons,
      orphPosList_length cs (d + 1) (l + lead.length + 1)]
    omega
theorem orphPosList_length : ∀ (ns : List OrphNode) (d l : Nat), (orphPosList d l ns).length = orphTreeNLines ns
  | [], d, l => rfl
  | n :: ns, d, l => by
    simp only [orphPosList, orphTreeNLines, List.length_append, OrphNode.cpos_length n d l, orphPosList_length ns d (l + n.nlines)]
end

theorem orphPosAll_length (nodes : List OrphNode) (trailing : List Str) :
    (orphPosAll nodes trailing).length = orphDocNLines nodes trailing := by
  simp only [orphPosAll, orphDocNLines, List.length_append, orphPosList_length, leadPos_length]

theorem orph_agree_posOf (nodes : List OrphNode) (trailing : List Str) :
    CAgree (orphPosOf nodes trailing) (orphPosAll nodes trailing) 0 := by
  intro j p hp
  simp only [orphPosOf, Nat.zero_add, List.getD_eq_getElem?_getD, hp, Option.getD_some]

/-- on the window of the forest … -/
theorem orph_agree_posOf_nodes (nodes : List OrphNode) (trailing : List Str) :
    CAgree (orphPosOf nodes trailing) (orphPosList 0 2 nodes) 0 :=
  (orph_agree_posOf nodes trailing).left

/-- … and on the window of the document's trailing comment lines. -/
theorem orph_agree_posOf_trailing (nodes : List OrphNode) (trailing : List Str) :
    CAgree (orphPosOf nodes trailing) (leadPos 0 (orphTreeNLines nodes + 2) trailing) (orphTreeNLines nodes) := by
  have := (orph_agree_posOf nodes trailing).right
  rw [orphPosList_length, Nat.zero_add] at this
  exact this

/-- the tokens of a `KEY::value [// text]` line after its INDENT (the line case of `ONode.core` is that of `CNode.core`). -/
theorem orph_cline_body_bridge (ln : FLine) (lead : List Str) (trail : Option Str) (d l : Nat) (pos : Nat → CommentParse.CPos)
    (dd j : Nat) (hp : pos j = clinePos ln trail d l) :
    [tIdent ln.key l (1 + 2 * d), tAssign l (1 + 2 * d + ln.key.length), ln.v.tok l (1 + 2 * d + ln.key.length + 2)] ++
      trailToksRev l (1 + 2 * d + ln.key.length + 2 + ln.v.text.length) trail ++
      [tNewline l (1 + 2 * d + ln.key.length + 2 + ln.v.text.length + (trailText trail).length)]
      = (CommentOrphans.ONode.line ln.key ln.v.toP lead trail).core pos dd j :=
  cline_body_bridge ln lead trail d l pos dd j hp


mutual
/-- **a node**: its tokens are its leading comment lines, its INDENT and its `core`, for every `pos` that agrees with the
node's positions on the window of its lines. -/
theorem OrphNode.toks_agree : ∀ (n : OrphNode) (d l : Nat) (pos : Nat → CommentParse.CPos) (i : Nat),
    CAgree pos (n.cpos d l) i →
    n.toks d l = CommentParse.leadToks pos d n.lead i ++
      (CommentParse.indToks d (pos (i + n.lead.length)) ++ n.toP.core pos d (i + n.lead.length))
  | .line ln lead trail, d, l, pos, i, h => by
    simp only [OrphNode.cpos] at h
    have h2 := h.right
    rw [leadPos_length] at h2
    have hp : pos (i + lead.length) = clinePos ln trail d (l + lead.length) := h2.head
    simp only [OrphNode.toks, OrphNode.lead, OrphNode.toP, cLineToks, leadToks_agree d lead l pos i h.left, List.append_assoc]
    rw [indToks_bridge d (l + lead.length) (pos (i + lead.length)) (by rw [hp]; rfl) (by rw [hp]; rfl)]
    rw [← orph_cline_body_bridge ln lead trail d (l + lead.length) pos d (i + lead.length) hp]
    simp only [List.append_assoc]
  | .block key cs orph lead, d, l, pos, i, h => by
    simp only [OrphNode.cpos] at h
    have h2 := h.right
    rw [leadPos_length] at h2
    have hp : pos (i + lead.length) = cheaderPos key d (l + lead.length) := h2.head
    have ih := orphTreeToks_agree cs (d + 1) (l + lead.length + 1) pos (i + lead.length + 1) h2.tail.left
    have h3 := h2.tail.right
    rw [orphPosList_length] at h3
    have io := leadToks_agree (d + 1) orph (l + lead.length + 1 + orphTreeNLines cs) pos (i + lead.length + 1 + orphTreeNLines cs) h3
    simp only [OrphNode.toks, OrphNode.lead, OrphNode.toP, CommentOrphans.ONode.core, headerToks, leadToks_agree d lead l pos i h.left,
      ih, io, orphLinesList_toP, List.append_assoc]
    rw [indToks_bridge d (l + lead.length) (pos (i + lead.length)) (by rw [hp]; rfl) (by rw [hp]; rfl), hp,
      cheader_body_bridge]
    simp only [List.cons_append, List.nil_append]
/-- **a forest**: for every `pos` that agrees with `orphPosList d l ns` on the window `[i, i + lines)`. -/
theorem orphTreeToks_agree : ∀ (ns : List OrphNode) (d l : Nat) (pos : Nat → CommentParse.CPos) (i : Nat),
    CAgree pos (orphPosList d l ns) i → orphTreeToks d l ns = CommentOrphans.toksList pos (orphTreeToP ns) d i
  | [], d, l, pos, i, _ => rfl
  | n :: ns, d, l, pos, i, h => by
    simp only [orphPosList] at h
    have h2 := h.right
    rw [OrphNode.cpos_length] at h2
    simp only [orphTreeToks, orphTreeToP, CommentOrphans.toksList, OrphNode.toks_agree n d l pos i h.left,
      orphTreeToks_agree ns d (l + n.nlines) pos (i + n.nlines) h2, OrphNode.lines_toP, OrphNode.lead_toP, List.append_assoc]
end

/-- **the two descriptions of the token list of the whole document agree.** -/
theorem orphToks_bridge (name : Str) (nodes : List OrphNode) (trailing : List Str) :
    orphDocToks name nodes trailing
      = CommentOrphans.oTreeToks (orphFrame name nodes trailing) name (orphPosOf nodes trailing) (orphTreeToP nodes) trailing := by
  rw [orphDocToks_eq, orphTreeToks_agree nodes 0 2 (orphPosOf nodes trailing) 0 (orph_agree_posOf_nodes nodes trailing),
    leadToks_agree 0 trailing (orphTreeNLines nodes + 2) (orphPosOf nodes trailing) (orphTreeNLines nodes)
      (orph_agree_posOf_trailing nodes trailing)]
  simp only [CommentOrphans.oTreeToks, orphLinesList_toP]
  rfl

/-! ### the side conditions of the parser half -/

mutual
theorem OrphNode.canonCols_agree : ∀ (n : OrphNode) (d l : Nat) (pos : Nat → CommentParse.CPos) (i : Nat),
    CAgree pos (n.cpos d l) i → n.toP.canonCols pos d (i + n.lead.length) = true
  | .line ln lead trail, d, l, pos, i, _ => rfl
  | .block key cs orph lead, d, l, pos, i, h => by
    simp only [OrphNode.cpos] at h
    have h2 := h.right
    rw [leadPos_length] at h2
    have hp : pos (i + lead.length) = cheaderPos key d (l + lead.length) := h2.head
    simp only [OrphNode.toP, OrphNode.lead, CommentOrphans.ONode.canonCols, hp,
      orphCanonColsList_agree cs (d + 1) (l + lead.length + 1) pos (i + lead.length + 1) h2.tail.left,
      Bool.and_true, decide_eq_true_eq, cheaderPos]
    omega
theorem orphCanonColsList_agree : ∀ (ns : List OrphNode) (d l : Nat) (pos : Nat → CommentParse.CPos) (i : Nat),
    CAgree pos (orphPosList d l ns) i → CommentOrphans.canonColsList pos (orphTreeToP ns) d i = true
  | [], d, l, pos, i, _ => rfl
  | n :: ns, d, l, pos, i, h => by
    simp only [orphPosList] at h
    have h2 := h.right
    rw [OrphNode.cpos_length] at h2
    simp only [orphTreeToP, CommentOrphans.canonColsList, OrphNode.lead_toP, OrphNode.canonCols_agree n d l pos i h.left,
      OrphNode.lines_toP, orphCanonColsList_agree ns d (l + n.nlines) pos (i + n.nlines) h2, Bool.and_self]
end

/-- every block key of the canonical text sits at column `2·d + 1`. -/
theorem orph_canonCols_posOf (nodes : List OrphNode) (trailing : List Str) :
    CommentOrphans.canonColsList (orphPosOf nodes trailing) (orphTreeToP nodes) 0 0 = true :=
  orphCanonColsList_agree nodes 0 2 (orphPosOf nodes trailing) 0 (orph_agree_posOf_nodes nodes trailing)

theorem orph_colsOk_posOf (nodes : List OrphNode) (trailing : List Str) :
    CommentOrphans.colsOkList (orphPosOf nodes trailing) (orphTreeToP nodes) 0 0 = true :=
  CommentOrphans.colsOkList_of_canon _ _ 0 0 (orph_canonCols_posOf nodes trailing)

/-- the first top-level node is keyed `META` and has NO leading comment (then `parse_document` reads a META block). -/
def orphFirstIsBareMeta : List OrphNode → Bool
  | n :: _ => n.lead.isEmpty && n.key == "META".toList
  | [] => false

theorem orph_metaFirst_bridge (nodes : List OrphNode) : CommentOrphans.metaFirstO (orphTreeToP nodes) = orphFirstIsBareMeta nodes := by
  cases nodes with
  | nil => rfl
  | cons n ns => simp only [orphTreeToP, CommentOrphans.metaFirstO, orphFirstIsBareMeta, OrphNode.lead_toP, OrphNode.key_toP]

/-! ### the document -/

mutual
theorem OrphNode.node_agree : ∀ (n : OrphNode) (d : Nat) (pos : Nat → CommentParse.CPos) (i : Nat),
    CAgree pos (n.cpos d (i + 2)) i → n.toP.node pos (i + n.lead.length) = n.node canonPos i d
  | .line ln lead trail, d, pos, i, h => by
    simp only [OrphNode.cpos] at h
    have h2 := h.right
    rw [leadPos_length] at h2
    have hp : pos (i + lead.length) = clinePos ln trail d (i + 2 + lead.length) := h2.head
    simp only [OrphNode.toP, OrphNode.lead, CommentOrphans.ONode.node, OrphNode.node, hp, clinePos, canonPos, FScalar.val_toP,
      Node.assign.injEq, true_and, and_true]
    omega
  | .block key cs orph lead, d, pos, i, h => by
    simp only [OrphNode.cpos] at h
    have h2 := h.right
    rw [leadPos_length] at h2
    have hp : pos (i + lead.length) = cheaderPos key d (i + 2 + lead.length) := h2.head
    have ht := h2.tail.left
    rw [show i + 2 + lead.length + 1 = (i + lead.length + 1) + 2 by omega] at ht
    simp only [OrphNode.toP, OrphNode.lead, CommentOrphans.ONode.node, OrphNode.node, hp, cheaderPos, canonPos,
      orphNodeList_agree cs (d + 1) pos (i + lead.length + 1) ht, Node.block.injEq, true_and, and_true]
    omega
theorem orphNodeList_agree : ∀ (ns : List OrphNode) (d : Nat) (pos : Nat → CommentParse.CPos) (i : Nat),
    CAgree pos (orphPosList d (i + 2) ns) i → CommentOrphans.nodeList pos (orphTreeToP ns) i = orphTreeNodes canonPos i d ns
  | [], d, pos, i, _ => rfl
  | n :: ns, d, pos, i, h => by
    simp only [orphPosList] at h
    have h2 := h.right
    rw [OrphNode.cpos_length, show i + 2 + n.nlines = (i + n.nlines) + 2 by omega] at h2
    simp only [orphTreeToP, CommentOrphans.nodeList, orphTreeNodes, OrphNode.lead_toP, OrphNode.node_agree n d pos i h.left,
      OrphNode.lines_toP, orphNodeList_agree ns d pos (i + n.nlines) h2]
end

/-- **the document of the parser half is the document of the lexer half** at the canonical positions (every node at the
text line of its key, column `1 + 2·depth`; comment lines count as lines). -/
theorem orphTreeDoc_bridge (name : Str) (nodes : List OrphNode) (trailing : List Str) :
    CommentOrphans.oTreeDoc name (orphPosOf nodes trailing) (orphTreeToP nodes) trailing = orphDoc name canonPos nodes trailing := by
  simp only [CommentOrphans.oTreeDoc, orphDoc,
    orphNodeList_agree nodes 0 (orphPosOf nodes trailing) 0 (orph_agree_posOf_nodes nodes trailing)]

theorem orph_stripFrontmatter (env : Env) (name : Str) (nodes : List OrphNode) (trailing : List Str) :
    Parser.stripFrontmatter env (orphDocText name nodes trailing) = (orphDocText name nodes trailing, none) := by
  unfold Parser.stripFrontmatter
  have : startsWith "---".toList (orphDocText name nodes trailing) = false := by
    simp [orphDocText, startsWith, List.isPrefixOf]
  rw [this]; rfl

end Octave
