import Octave.Lemmas.ParserFuelTop
import Octave.Lemmas.LexerBalance
/-!
C20, parser side: **no hang** — the entry points.  `parse_document` gets fuel `2·budget + 10` for the value / section
chain and twice that for the document loop; on a token list that ends with EOF and has balanced bracket counts
(every lexer output) that is enough.
-/
namespace Octave
namespace Parser

/-- `parse_document` never runs out of fuel from a state whose remaining tokens end with EOF and have at least as
many `]` as `[`. -/
theorem parseDocument_no_fuel (st : PState) (he : EofEnd st.rest) (hb : nS st.rest ≤ nE st.rest) :
    parseDocument.run st ≠ .error .fuel := by
  have := cA_bound st.rest
  exact wpr_run (parseDocument_spec ⟨he, by omega⟩)

theorem initState_rest (env : Env) (toks : List Token) (strict : Bool) : (initState env toks strict).rest = toks := rfl

theorem tokenize_ne_fuel (env : Env) (content : Str) (lenient : Bool) :
    Lexer.tokenize env content lenient ≠ .error .fuel := by
  intro h
  obtain ⟨c, l, k, hc⟩ := tokenize_closed env content lenient _ h
  cases hc

theorem parseWithWarnings_no_fuel (env : Env) (content : Str) : parseWithWarnings env content ≠ .error .fuel := by
  intro h
  unfold parseWithWarnings at h
  split at h
  rcases except_bind_error h with ht | ⟨⟨toks, reps⟩, ht, h2⟩
  · exact tokenize_ne_fuel _ _ _ ht
  · dsimp only at h2
    rcases except_bind_error h2 with hd | ⟨⟨m, st⟩, -, h3⟩
    · refine parseDocument_no_fuel _ ?_ ?_ hd
      · exact tokenize_eofEnd _ _ _ _ _ ht
      · exact Nat.le_of_eq (tokenize_balanced _ _ _ _ _ ht)
    · cases h3

theorem parse_no_fuel (env : Env) (content : Str) : parse env content ≠ .error .fuel := by
  intro h
  unfold parse at h
  split at h
  rcases except_bind_error h with ht | ⟨⟨toks, reps⟩, ht, h2⟩
  · exact tokenize_ne_fuel _ _ _ ht
  · dsimp only at h2
    rcases except_bind_error h2 with hd | ⟨⟨m, st⟩, -, h3⟩
    · refine parseDocument_no_fuel _ ?_ ?_ hd
      · exact tokenize_eofEnd _ _ _ _ _ ht
      · exact Nat.le_of_eq (tokenize_balanced _ _ _ _ _ ht)
    · cases h3

end Parser
end Octave
