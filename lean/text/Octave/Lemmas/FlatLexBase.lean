import Octave.Lemmas.Quoted
import Octave.Lemmas.Bare
import Octave.Lemmas.Step
import Octave.Lemmas.StepProgress
/-!
The lexer on the canonical text of a *flat* document (envelope line, `KEY::scalar` lines, `===END===`):
explicit per-token steps with the full successor state, chained through `loop`.
-/
namespace Octave
open Lexer Scan Emitter

/-- the successor state of a pattern-branch step (not a bracket). -/
def patNext (st : LState) (m : Match) : LState :=
  { st with
    pos := st.pos + m.text.length, prev := m.text.getLast?.orElse (fun _ => st.prev),
    line := (advancePos st.line st.col m.text).1, col := (advancePos st.line st.col m.text).2,
    toks := { type := m.type, value := m.value, line := st.line, col := st.col, normFrom := m.normFrom, raw := m.raw } :: st.toks,
    repairs := (match m.normFrom with
        | some o => Repair.normalization o m.value st.line st.col :: st.repairs
        | none => st.repairs),
    stack := st.stack, blank := st.blank && m.type == .newline }

theorem pattern_step_eq (env : Env) (lenient : Bool) (st : LState) (c : Char) (r : Str) (m : Match)
    (hspan : atSpanStart st = false) (hc : c ≠ ' ')
    (hm : matchPattern env st.blank st.prev (c :: r) = .ok (some m))
    (hopen : m.type ≠ .listEnd) (hnl : m.type ≠ .listStart) :
    step env lenient st (c :: r) = .ok (patNext st m, m.rest) := by
  have hc' : (c == ' ') = false := by simpa using hc
  unfold step
  simp only [hspan, hc', hm, Bool.false_eq_true, if_false, bind, Except.bind]
  rfl

theorem loop_succ (env : Env) (lenient : Bool) (f : Nat) (st st' : LState) (c : Char) (r s' : Str)
    (h : step env lenient st (c :: r) = .ok (st', s')) :
    loop env lenient (f + 1) st (c :: r) = loop env lenient f st' s' := by
  rw [loop]
  simp only [h, bind, Except.bind]

/-! ### scanners on literal prefixes -/

theorem isDigit_ascii_false (env : Env) (c : Char) (ha : isAscii c = true) (hd : isDigitA c = false) : env.isDigit c = false := by
  simp [Env.isDigit, Env.digit?, ha, hd]

theorem lit_append (p r : Str) : lit p (p ++ r) = some r := by
  induction p with
  | nil => rfl
  | cons a p ih => simp [lit, ih]

theorem lit_end_none (name rest : Str) (hne : name ≠ "END".toList) (hb : ∀ x ∈ name, x ≠ '=') :
    lit "===END===".toList ("===".toList ++ name ++ "===".toList ++ rest) = none := by
  rcases name with _ | ⟨a, _ | ⟨b, _ | ⟨c, _ | ⟨d, t⟩⟩⟩⟩
  · simp [lit]
  · have := hb a (by simp)
    simp [lit]
  · have := hb a (by simp); have := hb b (by simp)
    simp [lit]
  · have := hb a (by simp); have := hb b (by simp); have := hb c (by simp)
    simp [lit]; intro h1 h2 h3; subst h1; subst h2; subst h3; simp at hne
  · have := hb d (by simp)
    simp [lit]; intro h1 h2 h3 h4; exact absurd h4.symm this

/-- a valid envelope name: `[A-Za-z_][A-Za-z0-9_]*`. -/
def isEnvName (name : Str) : Bool :=
  match name with
  | c :: b => isEnvStart c && b.all isEnvBody
  | [] => false

theorem envBody_ne_eq (x : Char) (h : isEnvBody x = true) : x ≠ '=' := by
  intro he; subst he; revert h; decide

theorem envStart_body (x : Char) (h : isEnvStart x = true) : isEnvBody x = true := by
  simp only [isEnvStart, isEnvBody, Bool.or_eq_true] at *
  rcases h with h | h
  · exact Or.inl (by simp [isAlnumA, h])
  · exact Or.inr h

theorem envName_ne_eq (name : Str) (hn : isEnvName name = true) : ∀ x ∈ name, x ≠ '=' := by
  cases name with
  | nil => simp [isEnvName] at hn
  | cons c b =>
    simp only [isEnvName, Bool.and_eq_true] at hn
    intro x hx
    rcases List.mem_cons.mp hx with h | h
    · subst h; exact envBody_ne_eq _ (envStart_body _ hn.1)
    · exact envBody_ne_eq _ ((List.all_eq_true.mp hn.2) x h)

theorem envelopeStart_name (name rest : Str) (hn : isEnvName name = true) :
    envelopeStart ("===".toList ++ name ++ "===".toList ++ rest) = some (name, rest) := by
  cases name with
  | nil => simp [isEnvName] at hn
  | cons c b =>
    simp only [isEnvName, Bool.and_eq_true] at hn
    obtain ⟨hc, hb⟩ := hn
    have h1 : lit "===".toList ("===".toList ++ (c :: b) ++ "===".toList ++ rest) = some (c :: (b ++ "===".toList ++ rest)) := by
      have := lit_append "===".toList ((c :: b) ++ "===".toList ++ rest)
      simpa [List.append_assoc] using this
    have htw : takeWhile isEnvBody (b ++ ("===".toList ++ rest)) = (b, "===".toList ++ rest) :=
      takeWhile_append_stop isEnvBody b ("===".toList ++ rest) (fun x hx => (List.all_eq_true.mp hb) x hx)
        (fun d hd => by
          have : d = '=' := by simpa using hd.symm
          subst this; decide)
    unfold envelopeStart
    rw [h1]
    simp only [hc, if_true, List.append_assoc, htw, lit_append, Option.map_some]

/-! ### `matchPattern` on the fixed tokens of a flat document -/

def mAssign (rest : Str) : Match := { type := .assign, value := .str "::".toList, text := "::".toList, rest := rest }
def mNewline (rest : Str) : Match := { type := .newline, value := .str ['\n'], text := ['\n'], rest := rest }
def mEnvStart (name rest : Str) : Match :=
  { type := .envelopeStart, value := .str name, text := "===".toList ++ name ++ "===".toList, rest := rest }
def mEnvEnd (rest : Str) : Match := { type := .envelopeEnd, value := .str "END".toList, text := "===END===".toList, rest := rest }

theorem matchPattern_assign (env : Env) (prev : Option Char) (rest : Str) :
    matchPattern env false prev (':' :: ':' :: rest) = .ok (some (mAssign rest)) := by
  unfold matchPattern
  have hd : env.isDigit ':' = false := isDigit_ascii_false env ':' (by decide) (by decide)
  simp only [Bool.false_eq_true, if_false, hd]
  rfl

theorem matchPattern_newline (env : Env) (prev : Option Char) (rest : Str) :
    matchPattern env false prev ('\n' :: rest) = .ok (some (mNewline rest)) := by
  unfold matchPattern
  have hd : env.isDigit '\n' = false := isDigit_ascii_false env '\n' (by decide) (by decide)
  simp only [Bool.false_eq_true, if_false, hd]
  rfl

theorem matchPattern_envEnd (env : Env) (prev : Option Char) (rest : Str) :
    matchPattern env false prev ("===END===".toList ++ rest) = .ok (some (mEnvEnd rest)) := by
  have hd : env.isDigit '=' = false := isDigit_ascii_false env '=' (by decide) (by decide)
  have hl : lit "===END===".toList ("===END===".toList ++ rest) = some rest := lit_append _ _
  show matchPattern env false prev ('=' :: ("==END===".toList ++ rest)) = _
  unfold matchPattern
  simp only [Bool.false_eq_true, if_false, hd]
  have : matchEq ('=' :: ("==END===".toList ++ rest)) = some (mEnvEnd rest) := by
    unfold matchEq
    have hl' : lit "===END===".toList ('=' :: ("==END===".toList ++ rest)) = some rest := hl
    rw [hl']; rfl
  rw [this]; rfl

theorem matchSentinel_eq_none (env : Env) (r : Str) : matchSentinel env ('=' :: r) = none := by
  unfold matchSentinel
  have : lit "OCTAVE::".toList ('=' :: r) = none := by simp [lit]
  rw [this]

theorem matchPattern_envStart (env : Env) (b : Bool) (prev : Option Char) (name rest : Str)
    (hn : isEnvName name = true) (hne : name ≠ "END".toList) :
    matchPattern env b prev ("===".toList ++ name ++ "===".toList ++ rest) = .ok (some (mEnvStart name rest)) := by
  have hd : env.isDigit '=' = false := isDigit_ascii_false env '=' (by decide) (by decide)
  have hs := envelopeStart_name name rest hn
  have he := lit_end_none name rest hne (envName_ne_eq name hn)
  have hshape : "===".toList ++ name ++ "===".toList ++ rest = '=' :: ("==".toList ++ name ++ "===".toList ++ rest) := by
    simp
  rw [hshape] at hs he ⊢
  unfold matchPattern
  have hsent : (if b then matchSentinel env ('=' :: ("==".toList ++ name ++ "===".toList ++ rest)) else none) = none := by
    cases b
    · rfl
    · simp only [if_true]; exact matchSentinel_eq_none env _
  simp only [hsent, hd, Bool.false_eq_true, if_false]
  have : matchEq ('=' :: ("==".toList ++ name ++ "===".toList ++ rest)) = some (mEnvStart name rest) := by
    unfold matchEq
    rw [he, hs]; rfl
  rw [this]; rfl

end Octave

namespace Octave
open Lexer Scan Emitter

/-! ### keywords after `::` -/

def mBool (b : Bool) (rest : Str) : Match :=
  { type := .boolean, value := .bool b, text := if b then "true".toList else "false".toList, rest := rest }
def mNull (rest : Str) : Match := { type := .null, value := .none, text := "null".toList, rest := rest }

theorem word_colon (env : Env) : env.word ':' = false := by simp [Env.word, isAscii, isAlnumA, isAlphaA, isDigitA, isUpper, isLower]
theorem word_nl (env : Env) : env.word '\n' = false := by simp [Env.word, isAscii, isAlnumA, isAlphaA, isDigitA, isUpper, isLower]
theorem word_lower (env : Env) (c : Char) (h : isLower c = true) : env.word c = true := by
  have ha : isAscii c = true := by simp only [isLower, isAscii, Bool.and_eq_true, decide_eq_true_eq] at *; omega
  simp [Env.word, ha, isAlnumA, isAlphaA, h]

theorem matchPattern_true (env : Env) (rest : Str) :
    matchPattern env false (some ':') ("true".toList ++ '\n' :: rest) = .ok (some (mBool true ('\n' :: rest))) := by
  have hd : env.isDigit 't' = false := isDigit_ascii_false env 't' (by decide) (by decide)
  show matchPattern env false (some ':') ('t' :: ("rue".toList ++ '\n' :: rest)) = _
  unfold matchPattern
  simp only [Bool.false_eq_true, if_false, hd]
  have hk : kw env (some ':') "true".toList ('t' :: ("rue".toList ++ '\n' :: rest)) = some ('\n' :: rest) := by
    unfold kw
    have hl : lit "true".toList ('t' :: ("rue".toList ++ '\n' :: rest)) = some ('\n' :: rest) := lit_append "true".toList _
    rw [hl]
    simp [Env.boundary, word_colon, word_nl, word_lower env 't' (by decide), word_lower env 'e' (by decide)]
  have : matchKeyword env (some ':') 't' ('t' :: ("rue".toList ++ '\n' :: rest)) = some (mBool true ('\n' :: rest)) := by
    unfold matchKeyword
    simp only [hk]
    rfl
  rw [if_neg (by decide), if_neg (by decide), if_neg (by decide), if_pos (by decide), this]

theorem matchPattern_false (env : Env) (rest : Str) :
    matchPattern env false (some ':') ("false".toList ++ '\n' :: rest) = .ok (some (mBool false ('\n' :: rest))) := by
  have hd : env.isDigit 'f' = false := isDigit_ascii_false env 'f' (by decide) (by decide)
  show matchPattern env false (some ':') ('f' :: ("alse".toList ++ '\n' :: rest)) = _
  unfold matchPattern
  simp only [Bool.false_eq_true, if_false, hd]
  have hk : kw env (some ':') "false".toList ('f' :: ("alse".toList ++ '\n' :: rest)) = some ('\n' :: rest) := by
    unfold kw
    have hl : lit "false".toList ('f' :: ("alse".toList ++ '\n' :: rest)) = some ('\n' :: rest) := lit_append "false".toList _
    rw [hl]
    simp [Env.boundary, word_colon, word_nl, word_lower env 'f' (by decide), word_lower env 'e' (by decide)]
  have : matchKeyword env (some ':') 'f' ('f' :: ("alse".toList ++ '\n' :: rest)) = some (mBool false ('\n' :: rest)) := by
    unfold matchKeyword
    simp only [hk]
    rfl
  rw [if_neg (by decide), if_neg (by decide), if_neg (by decide), if_pos (by decide), this]

theorem matchPattern_null (env : Env) (rest : Str) :
    matchPattern env false (some ':') ("null".toList ++ '\n' :: rest) = .ok (some (mNull ('\n' :: rest))) := by
  have hd : env.isDigit 'n' = false := isDigit_ascii_false env 'n' (by decide) (by decide)
  show matchPattern env false (some ':') ('n' :: ("ull".toList ++ '\n' :: rest)) = _
  unfold matchPattern
  simp only [Bool.false_eq_true, if_false, hd]
  have hk : kw env (some ':') "null".toList ('n' :: ("ull".toList ++ '\n' :: rest)) = some ('\n' :: rest) := by
    unfold kw
    have hl : lit "null".toList ('n' :: ("ull".toList ++ '\n' :: rest)) = some ('\n' :: rest) := lit_append "null".toList _
    rw [hl]
    simp [Env.boundary, word_colon, word_nl, word_lower env 'n' (by decide), word_lower env 'l' (by decide)]
  have : matchKeyword env (some ':') 'n' ('n' :: ("ull".toList ++ '\n' :: rest)) = some (mNull ('\n' :: rest)) := by
    unfold matchKeyword
    simp only [hk]
    rfl
  rw [if_neg (by decide), if_neg (by decide), if_neg (by decide), if_pos (by decide), this]

end Octave

namespace Octave
open Lexer Scan Emitter

/-! ### chaining steps -/

/-- `Run n st s st' s'`: `n` iterations of the main loop take (state, remaining input) from `(st, s)` to `(st', s')`. -/
inductive Run (env : Env) (lenient : Bool) : Nat → LState → Str → LState → Str → Prop
  | refl (st : LState) (s : Str) : Run env lenient 0 st s st s
  | cons {n : Nat} {st st1 st' : LState} {c : Char} {r s1 s' : Str} :
      step env lenient st (c :: r) = .ok (st1, s1) → Run env lenient n st1 s1 st' s' → Run env lenient (n + 1) st (c :: r) st' s'

theorem Run.loop {env : Env} {lenient : Bool} {n : Nat} {st st' : LState} {s s' : Str}
    (h : Run env lenient n st s st' s') (f : Nat) :
    loop env lenient (f + n) st s = loop env lenient f st' s' := by
  induction h with
  | refl => rfl
  | cons hs _ ih =>
    rw [← Nat.add_assoc, loop_succ _ _ _ _ _ _ _ _ hs]
    exact ih

theorem Run.trans {env : Env} {lenient : Bool} {n m : Nat} {a b c : LState} {s t u : Str}
    (h1 : Run env lenient n a s b t) (h2 : Run env lenient m b t c u) : Run env lenient (n + m) a s c u := by
  induction h1 with
  | refl => simpa using h2
  | cons hs _ ih =>
    have := Run.cons hs (ih h2)
    rw [Nat.add_right_comm]; exact this

theorem Run.one {env : Env} {lenient : Bool} {st st1 : LState} {c : Char} {r s1 : Str}
    (h : step env lenient st (c :: r) = .ok (st1, s1)) : Run env lenient 1 st (c :: r) st1 s1 :=
  Run.cons h (Run.refl _ _)

/-- the lexer is between tokens of the body of a flat document: no fence spans, past the document start. -/
structure Ready (st : LState) : Prop where
  spans : st.spans = []
  blank : st.blank = false

theorem Ready.noSpan {st : LState} (h : Ready st) : atSpanStart st = false := by simp [atSpanStart, h.spans]

end Octave

namespace Octave
open Lexer Scan Emitter

/-! ### tokens of a flat document -/

def tIdent (s : Str) (l c : Nat) : Token := { type := .identifier, value := .str s, line := l, col := c }
def tAssign (l c : Nat) : Token := { type := .assign, value := .str "::".toList, line := l, col := c }
def tNewline (l c : Nat) : Token := { type := .newline, value := .str ['\n'], line := l, col := c }
def tString (s : Str) (l c : Nat) : Token := { type := .string, value := .str s, line := l, col := c }
def tBool (b : Bool) (l c : Nat) : Token := { type := .boolean, value := .bool b, line := l, col := c }
def tNull (l c : Nat) : Token := { type := .null, value := .none, line := l, col := c }
def tEnvStart (name : Str) (l c : Nat) : Token := { type := .envelopeStart, value := .str name, line := l, col := c }
def tEnvEnd (l c : Nat) : Token := { type := .envelopeEnd, value := .str "END".toList, line := l, col := c }

/-- what one or more steps did to the tracked parts of the state. -/
structure Adv (st st' : LState) (newToks : List Token) (newReps : List Repair) (dline col' : Nat) (prev' : Option Char) : Prop where
  ready : Ready st'
  toks : st'.toks = newToks ++ st.toks
  repairs : st'.repairs = newReps ++ st.repairs
  stack : st'.stack = st.stack
  line : st'.line = st.line + dline
  col : st'.col = col'
  prev : st'.prev = prev'

theorem advancePos_noNl (l c : Nat) (t : Str) (h : ∀ d ∈ t, d ≠ '\n') : advancePos l c t = (l, c + t.length) := by
  have : t.count '\n' = 0 := by
    rw [List.count_eq_zero]
    intro hm; exact h _ hm rfl
  simp [advancePos, this]

/-- the key (or a bare word value): one IDENTIFIER token. -/
theorem step_ident (env : Env) (lenient : Bool) (st : LState) (s rest : Str) (hr : Ready st)
    (hid : isIdentifierText s = true) (hres : hasReservedPrefix s = false) (hterm : TermOK env rest) :
    ∃ st', step env lenient st (s ++ rest) = .ok (st', rest) ∧
      Adv st st' [tIdent s st.line st.col] (identifierRepairs s st.line st.col).reverse 0 (st.col + s.length)
        (s.getLast?.orElse (fun _ => st.prev)) := by
  refine ⟨_, bare_identifier_step env lenient st s rest hid hres hterm hr.noSpan hr.blank, ?_⟩
  exact ⟨⟨hr.spans, rfl⟩, rfl, rfl, rfl, rfl, rfl, rfl⟩

/-- `::` : one ASSIGN token. -/
theorem step_assign (env : Env) (lenient : Bool) (st : LState) (rest : Str) (hr : Ready st) :
    ∃ st', step env lenient st (':' :: ':' :: rest) = .ok (st', rest) ∧
      Adv st st' [tAssign st.line st.col] [] 0 (st.col + 2) (some ':') := by
  have hm : matchPattern env st.blank st.prev (':' :: ':' :: rest) = .ok (some (mAssign rest)) := by
    rw [hr.blank]; exact matchPattern_assign env st.prev rest
  refine ⟨_, pattern_step_eq env lenient st ':' (':' :: rest) (mAssign rest) hr.noSpan (by decide) hm (by simp [mAssign]) (by simp [mAssign]), ?_⟩
  refine ⟨⟨hr.spans, by simp [patNext, hr.blank]⟩, rfl, rfl, rfl, ?_, ?_, rfl⟩
  · simp [patNext, mAssign, advancePos]
  · simp [patNext, mAssign, advancePos]

/-- the line end: one NEWLINE token; line + 1, column 1. -/
theorem step_newline (env : Env) (lenient : Bool) (st : LState) (rest : Str) (hr : Ready st) :
    ∃ st', step env lenient st ('\n' :: rest) = .ok (st', rest) ∧
      Adv st st' [tNewline st.line st.col] [] 1 1 (some '\n') := by
  have hm : matchPattern env st.blank st.prev ('\n' :: rest) = .ok (some (mNewline rest)) := by
    rw [hr.blank]; exact matchPattern_newline env st.prev rest
  refine ⟨_, pattern_step_eq env lenient st '\n' rest (mNewline rest) hr.noSpan (by decide) hm (by simp [mNewline]) (by simp [mNewline]), ?_⟩
  refine ⟨⟨hr.spans, by simp [patNext, hr.blank]⟩, rfl, rfl, rfl, ?_, ?_, rfl⟩
  · simp [patNext, mNewline, advancePos]
  · simp [patNext, mNewline, advancePos]

end Octave

namespace Octave
open Lexer Scan Emitter

theorem quoted_noNl (s : Str) : ∀ d ∈ quoted s, d ≠ '\n' := by
  intro d hd
  have : d = '"' ∨ d ∈ escape s := by
    simp only [quoted, List.mem_cons, List.mem_append, List.mem_nil_iff, or_false] at hd
    rcases hd with (h | h) | h
    · exact Or.inl h
    · exact Or.inr h
    · exact Or.inl h
  rcases this with h | h
  · subst h; decide
  · exact (escape_no_raw s d h).1

theorem quoted_getLast (s : Str) : (quoted s).getLast? = some '"' := by
  have : quoted s = ('"' :: escape s) ++ ['"'] := by simp [quoted]
  rw [this, List.getLast?_append]; rfl

/-- a quoted string: one STRING token carrying exactly `s`. -/
theorem step_quoted (env : Env) (lenient : Bool) (st : LState) (s rest : Str) (hr : Ready st)
    (hrest : rest.head? ≠ some '"') :
    ∃ st', step env lenient st (quoted s ++ rest) = .ok (st', rest) ∧
      Adv st st' [tString s st.line st.col] [] 0 (st.col + (quoted s).length) (some '"') := by
  let m : Match := { type := .string, value := .str s, text := quoted s, rest := rest }
  have hm0 : matchPattern env false st.prev (quoted s ++ rest) = .ok (some m) := by
    have h3 := lit_triple_quoted_none s rest hrest
    have hb := stringBody_escape s rest
    simp only [quoted, List.cons_append, List.append_assoc] at *
    unfold matchPattern
    simp only [Bool.false_eq_true, if_false, Env.isDigit, Env.digit?, isAscii, isDigitA]
    have e : matchQuote ('"' :: (escape s ++ '"' :: rest)) (escape s ++ '"' :: rest) =
        some { type := .string, value := .str s, text := '"' :: (escape s ++ ['"']), rest := rest } := by
      have h3' : lit "\"\"\"".toList ('"' :: (escape s ++ '"' :: rest)) = none := h3
      unfold matchQuote
      simp only [h3', hb, unescape_escape]
      rfl
    simp [e, m, quoted]
  have hm : matchPattern env st.blank st.prev ('"' :: (escape s ++ ['"'] ++ rest)) = .ok (some m) := by
    rw [hr.blank]; simpa [quoted] using hm0
  have hstep := pattern_step_eq env lenient st '"' (escape s ++ ['"'] ++ rest) m hr.noSpan (by decide) hm (by simp [m]) (by simp [m])
  have hshape : quoted s ++ rest = '"' :: (escape s ++ ['"'] ++ rest) := by simp [quoted]
  refine ⟨_, by rw [hshape]; exact hstep, ?_⟩
  have hadv := advancePos_noNl st.line st.col (quoted s) (quoted_noNl s)
  refine ⟨⟨hr.spans, by simp [patNext, hr.blank]⟩, rfl, rfl, rfl, ?_, ?_, ?_⟩
  · simp [patNext, m, hadv]
  · simp [patNext, m, hadv]
  · simp [patNext, m, quoted_getLast]

/-- `true` / `false` right after `::` and before the line end: one BOOLEAN token. -/
theorem step_bool (env : Env) (lenient : Bool) (st : LState) (b : Bool) (rest : Str) (hr : Ready st) (hp : st.prev = some ':') :
    ∃ st', step env lenient st ((if b then "true".toList else "false".toList) ++ '\n' :: rest) = .ok (st', '\n' :: rest) ∧
      Adv st st' [tBool b st.line st.col] [] 0 (st.col + (if b then 4 else 5)) (some 'e') := by
  cases b with
  | true =>
    have hm : matchPattern env st.blank st.prev ('t' :: ("rue".toList ++ '\n' :: rest)) = .ok (some (mBool true ('\n' :: rest))) := by
      rw [hr.blank, hp]; exact matchPattern_true env rest
    refine ⟨_, pattern_step_eq env lenient st 't' _ (mBool true ('\n' :: rest)) hr.noSpan (by decide) hm (by simp [mBool]) (by simp [mBool]), ?_⟩
    refine ⟨⟨hr.spans, by simp [patNext, hr.blank]⟩, rfl, rfl, rfl, ?_, ?_, rfl⟩
    · simp [patNext, mBool, advancePos]
    · simp [patNext, mBool, advancePos]
  | false =>
    have hm : matchPattern env st.blank st.prev ('f' :: ("alse".toList ++ '\n' :: rest)) = .ok (some (mBool false ('\n' :: rest))) := by
      rw [hr.blank, hp]; exact matchPattern_false env rest
    refine ⟨_, pattern_step_eq env lenient st 'f' _ (mBool false ('\n' :: rest)) hr.noSpan (by decide) hm (by simp [mBool]) (by simp [mBool]), ?_⟩
    refine ⟨⟨hr.spans, by simp [patNext, hr.blank]⟩, rfl, rfl, rfl, ?_, ?_, rfl⟩
    · simp [patNext, mBool, advancePos]
    · simp [patNext, mBool, advancePos]

/-- `null` right after `::` and before the line end: one NULL token. -/
theorem step_null (env : Env) (lenient : Bool) (st : LState) (rest : Str) (hr : Ready st) (hp : st.prev = some ':') :
    ∃ st', step env lenient st ("null".toList ++ '\n' :: rest) = .ok (st', '\n' :: rest) ∧
      Adv st st' [tNull st.line st.col] [] 0 (st.col + 4) (some 'l') := by
  have hm : matchPattern env st.blank st.prev ('n' :: ("ull".toList ++ '\n' :: rest)) = .ok (some (mNull ('\n' :: rest))) := by
    rw [hr.blank, hp]; exact matchPattern_null env rest
  refine ⟨_, pattern_step_eq env lenient st 'n' _ (mNull ('\n' :: rest)) hr.noSpan (by decide) hm (by simp [mNull]) (by simp [mNull]), ?_⟩
  refine ⟨⟨hr.spans, by simp [patNext, hr.blank]⟩, rfl, rfl, rfl, ?_, ?_, rfl⟩
  · simp [patNext, mNull, advancePos]
  · simp [patNext, mNull, advancePos]

end Octave

namespace Octave
open Lexer Scan Emitter

theorem Adv.trans {a b c : LState} {t1 t2 : List Token} {r1 r2 : List Repair} {d1 d2 c1 c2 : Nat} {p1 p2 : Option Char}
    (h1 : Adv a b t1 r1 d1 c1 p1) (h2 : Adv b c t2 r2 d2 c2 p2) : Adv a c (t2 ++ t1) (r2 ++ r1) (d1 + d2) c2 p2 :=
  ⟨h2.ready, by rw [h2.toks, h1.toks, List.append_assoc], by rw [h2.repairs, h1.repairs, List.append_assoc],
   by rw [h2.stack, h1.stack], by rw [h2.line, h1.line, Nat.add_assoc], h2.col, h2.prev⟩

/-! ### envelope lines -/

theorem envName_noNl (name : Str) (hn : isEnvName name = true) : ∀ d ∈ "===".toList ++ name ++ "===".toList, d ≠ '\n' := by
  intro d hd
  simp only [List.mem_append] at hd
  rcases hd with (h | h) | h
  · intro he; subst he; revert h; decide
  · cases name with
    | nil => simp at h
    | cons c b =>
      simp only [isEnvName, Bool.and_eq_true] at hn
      intro he; subst he
      rcases List.mem_cons.mp h with h' | h'
      · rw [← h'] at hn; exact absurd hn.1 (by decide)
      · exact absurd ((List.all_eq_true.mp hn.2) _ h') (by decide)
  · intro he; subst he; revert h; decide

/-- `===NAME===` (also at the very start of the input): one ENVELOPE_START token. -/
theorem step_envStart (env : Env) (lenient : Bool) (st : LState) (name rest : Str) (hs : st.spans = [])
    (hn : isEnvName name = true) (hne : name ≠ "END".toList) :
    ∃ st', step env lenient st ("===".toList ++ name ++ "===".toList ++ rest) = .ok (st', rest) ∧
      Adv st st' [tEnvStart name st.line st.col] [] 0 (st.col + (name.length + 6)) (some '=') := by
  have hspan : atSpanStart st = false := by simp [atSpanStart, hs]
  have hm := matchPattern_envStart env st.blank st.prev name rest hn hne
  have hshape : "===".toList ++ name ++ "===".toList ++ rest = '=' :: ("==".toList ++ name ++ "===".toList ++ rest) := by simp
  rw [hshape] at hm ⊢
  refine ⟨_, pattern_step_eq env lenient st '=' _ (mEnvStart name rest) hspan (by decide) hm (by simp [mEnvStart]) (by simp [mEnvStart]), ?_⟩
  have hadv := advancePos_noNl st.line st.col ("===".toList ++ name ++ "===".toList) (envName_noNl name hn)
  have hlen : ("===".toList ++ name ++ "===".toList).length = name.length + 6 := by simp
  have hlast : ("===".toList ++ name ++ "===".toList).getLast? = some '=' := by
    rw [List.getLast?_append]; rfl
  refine ⟨⟨hs, by simp [patNext, mEnvStart]⟩, rfl, rfl, rfl, ?_, ?_, ?_⟩
  · simp only [patNext, mEnvStart, hadv]; rfl
  · simp only [patNext, mEnvStart, hadv, hlen]
  · simp only [patNext, mEnvStart, hlast]; rfl

/-- `===END===`: one ENVELOPE_END token. -/
theorem step_envEnd (env : Env) (lenient : Bool) (st : LState) (rest : Str) (hr : Ready st) :
    ∃ st', step env lenient st ("===END===".toList ++ rest) = .ok (st', rest) ∧
      Adv st st' [tEnvEnd st.line st.col] [] 0 (st.col + 9) (some '=') := by
  have hm : matchPattern env st.blank st.prev ('=' :: ("==END===".toList ++ rest)) = .ok (some (mEnvEnd rest)) := by
    rw [hr.blank]; exact matchPattern_envEnd env st.prev rest
  refine ⟨_, pattern_step_eq env lenient st '=' _ (mEnvEnd rest) hr.noSpan (by decide) hm (by simp [mEnvEnd]) (by simp [mEnvEnd]), ?_⟩
  refine ⟨⟨hr.spans, by simp [patNext, hr.blank]⟩, rfl, rfl, rfl, ?_, ?_, rfl⟩
  · simp [patNext, mEnvEnd, advancePos]
  · simp [patNext, mEnvEnd, advancePos]

end Octave
