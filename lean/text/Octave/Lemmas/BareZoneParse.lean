/-
Parser half of the "document with literal zones anywhere, keyed or BARE" read theorem (C05): nested blocks whose children
mix `KEY::scalar` lines, zone assignments, blocks and BARE ZONES (a fence that is itself a block child), in any order, at
any depth.  Extends `Lemmas/ZoneTreeParse.lean` by the new child kind; everything about lines and zone assignments
(`parseSection_item`) and the cursor primitives is reused from there / `BlockParse` / `ZoneParse`.

Content model: `BT` = `leaf p item` | `bare z` | `block p key children`.  A bare zone is FOUR tokens at ARBITRARY
positions

    FENCE_OPEN({marker, tag}) LITERAL_CONTENT(content) FENCE_CLOSE NEWLINE

with NO INDENT token in front (the fence span starts at the line start; the lexer emits none).  This is the one place where
the parser reads the COLUMN of a FENCE_OPEN: `blockLoop` compares `column - 1` with the child indentation, and the
block-header path of `parse_section` compares it with `block_indent = key.column - 1`.  So the column of the open fence is
content, like the value of an INDENT token: `colsOk` asks `column = 2·d + 1` for a bare zone at depth `d`.

The AST node of a bare zone is `Assignment(key = "", value = LiteralZoneValue(content, tag, marker))` whose line/column are
those of the token AFTER the close fence (the NEWLINE) — `_parse_block_literal_zone` reads `self.current()` after
`parse_literal_zone()` returned.  It is NOT entered in the duplicate-key table.

THE ATTACHMENT RULE (Issue #259, `column - 1 >= block_indent`).  After a block header with no indented child, a FENCE_OPEN
whose `column - 1 ≥ key.column - 1` becomes that (otherwise empty) block's child.  Hence a bare zone written directly after
an EMPTY sibling block at the same depth is read as the CHILD of that block.  `attachOk` excludes exactly this: no sibling
list contains an empty block immediately followed by a bare zone.  (An empty block deeper in the last-child chain of the
preceding sibling is harmless: the fence column is smaller than that block's indentation.)  `SecOK` carries the matching
condition on the follower token: after an EMPTY block at depth `d` a FENCE_OPEN must have `column - 1 < 2·d`.

What may follow a forest (`stopsB`): as `BlockParse.stopsAt`, but a FENCE_OPEN is allowed when its `column - 1` is smaller
than the child indentation (`blockLoop` then leaves it to an enclosing block).

Bare zones at TOP LEVEL (directly under the envelope) are outside the model: `docLoop` has no fence branch — `parse_section`
returns `None` on FENCE_OPEN and the three fence tokens are skipped one by one, the zone is silently DROPPED (`noBareTop`).

Theorems: `SecOK` / `ChildOK` / `LoopOK`, `sec_of` / `child_of` / `loop_of`, `all_ok`; `parseSection_bblock`,
`blockLoop_bforest`, `docLoop_btree`, `parseDocument_btree`; `colsOk_of_canon`; and at the two EXCLUDED points, for every
instance: `parseSection_attach` (an empty block followed by a fence at its key's column takes the zone as its child),
`docLoop_bare_dropped` (a top-level bare zone is skipped token by token).
-/
import Octave.Lemmas.ZoneTreeParse
namespace Octave.BareZoneParse
open Octave Parser FlatParse ZoneParse BlockParse

set_option linter.unusedSimpArgs false

/-- evaluation of the parser monad on explicit states (as in `Lemmas/FlatParse.lean`). -/
local macro "step_simp" "[" ts:Lean.Parser.Tactic.simpLemma,* "]" : tactic =>
  `(tactic| simp only [bind, StateT.bind, Except.bind, pure, StateT.pure, Except.pure, current_mk, peek_mk, advance_mk,
      curType_mk, isAdjacentBracket_mk, budget_mk, warn_mk, get, getThe, MonadStateOf.get, StateT.get,
      Bool.false_eq_true, if_false, if_true, Bool.false_and, Bool.and_false, Bool.or_false, Bool.false_or,
      List.length_cons, List.length_nil, beq_iff_eq, bne_iff_ne, ne_eq, reduceCtorEq, not_true_eq_false, not_false_eq_true,
      Bool.and_eq_true, Bool.or_eq_true, Bool.not_eq_true', beq_eq_false_iff_ne, false_and, and_false, true_and, and_true,
      false_or, or_false, true_or, or_true, decide_eq_true_eq,
      beq_self_eq_true, Bool.true_or, Bool.or_true, Bool.true_and, Bool.and_true, Bool.not_true, Bool.not_false, $ts,*])

/-! ## A bare zone: four tokens at arbitrary positions -/

/-- open fence (marker, tag) + content + close fence + line break; `content`, `tag`, `marker` are ARBITRARY strings, all
eight position numbers arbitrary (the open column is constrained by `colsOk` only). -/
structure BZone where
  content : Str
  tag : Option Str
  marker : Str
  ol : Nat
  oc : Nat
  ll : Nat
  lc : Nat
  cl : Nat
  cc : Nat
  nl : Nat
  nc : Nat
  deriving DecidableEq, Repr, Inhabited

def BZone.openTok (z : BZone) : Token := { type := .fenceOpen, value := .fence z.marker z.tag, line := z.ol, col := z.oc }
def BZone.litTok (z : BZone) : Token := { type := .literalContent, value := .str z.content, line := z.ll, col := z.lc }
def BZone.closeTok (z : BZone) : Token := { type := .fenceClose, value := .str z.marker, line := z.cl, col := z.cc }
def BZone.nlTok (z : BZone) : Token := { type := .newline, value := .str "\n".toList, line := z.nl, col := z.nc }

def BZone.toks (z : BZone) : List Token := [z.openTok, z.litTok, z.closeTok, z.nlTok]

/-- the node the reader must produce: an Assignment with the EMPTY key, positioned at the token after the close fence. -/
def BZone.node (z : BZone) : Node := .assign [] (.zone z.content z.tag z.marker) z.nl z.nc [] none

/-! ## Content model -/

inductive BT where
  | leaf (p : LPos) (it : Item)
  | bare (z : BZone)
  | block (p : LPos) (key : Str) (children : List BT)

/-- the INDENT token in front of a node at depth `d`: none at depth 0, and NONE IN FRONT OF A BARE ZONE. -/
def BT.lead : BT → Nat → List Token
  | .leaf p _, d => BlockParse.indentToks d p
  | .bare _, _ => []
  | .block p _ _, d => BlockParse.indentToks d p

def BT.isBare : BT → Bool
  | .bare _ => true
  | _ => false

mutual
/-- tokens of a node at depth `d` WITHOUT its leading INDENT token. -/
def BT.body : BT → Nat → List Token
  | .leaf _ it, _ => it.toks
  | .bare z, _ => z.toks
  | .block p key cs, d => hdrKeyTok key p :: hdrBlockTok p :: hdrNlTok p :: toksList cs (d + 1)
/-- tokens of a forest at depth `d`. -/
def toksList : List BT → Nat → List Token
  | [], _ => []
  | c :: cs, d => c.lead d ++ (c.body d ++ toksList cs d)
end

mutual
/-- the AST node the reader must produce. -/
def BT.node : BT → Node
  | .leaf _ it => it.node
  | .bare z => z.node
  | .block p key cs => .block key (nodeList cs) p.l p.c1 [] none
def nodeList : List BT → List Node
  | [] => []
  | c :: cs => c.node :: nodeList cs
end

/-- duplicate-key bookkeeping of a child loop: only KEYED Assignment children are tracked — a bare zone is not. -/
def trackNode (kp : KeyPos) (c : BT) : KeyPos × List Warning :=
  match c with
  | .leaf _ it => trackPure kp it.key it.l
  | .bare _ => (kp, [])
  | .block _ _ _ => (kp, [])

mutual
def BT.warns : BT → List Warning
  | .leaf _ it => it.warns
  | .bare _ => []
  | .block _ _ cs => warnsList cs []
def warnsList : List BT → KeyPos → List Warning
  | [], _ => []
  | c :: cs, kp => c.warns ++ ((trackNode kp c).2 ++ warnsList cs (trackNode kp c).1)
end

mutual
/-- the last token the loops consume for the node: always a NEWLINE. -/
def BT.lastTok : BT → Token
  | .leaf _ it => it.nlTok
  | .bare z => z.nlTok
  | .block p _ cs => lastTokList cs (hdrNlTok p)
def lastTokList : List BT → Token → Token
  | [], dflt => dflt
  | c :: cs, _ => lastTokList cs c.lastTok
end

def prevAfterList (p : Option Token) (cs : List BT) : Option Token :=
  match cs with
  | [] => p
  | c :: cs => some (lastTokList cs c.lastTok)

mutual
/-- the conditions the code imposes on COLUMNS: of block keys (`block_indent = key.column - 1`, as in `BlockParse`) and of
the open fence of a bare zone (`column - 1` is compared with the child indentation: it must be `2·d`). -/
def BT.colsOk : BT → Nat → Bool
  | .leaf _ _, _ => true
  | .bare z, d => decide (z.oc = 2 * d + 1)
  | .block p _ cs, d =>
    (if cs.isEmpty then decide (2 * d ≤ p.c1 - 1) else decide (p.c1 - 1 < 2 * (d + 1))) && colsOkList cs (d + 1)
def colsOkList : List BT → Nat → Bool
  | [], _ => true
  | c :: cs, d => c.colsOk d && colsOkList cs d
end

def BT.isEmptyBlock : BT → Bool
  | .block _ _ [] => true
  | _ => false

def headBare : List BT → Bool
  | .bare _ :: _ => true
  | _ => false

mutual
/-- **the attachment-rule guard**: nowhere is an EMPTY block immediately followed by a bare zone among the same siblings
(that zone would be read as the empty block's child). -/
def BT.attachOk : BT → Bool
  | .block _ _ cs => attachOkList cs
  | _ => true
def attachOkList : List BT → Bool
  | [] => true
  | c :: cs => c.attachOk && !(c.isEmptyBlock && headBare cs) && attachOkList cs
end

/-- what may follow a forest whose lines are indented by at least `ci`: as `BlockParse.stopsAt`, and a FENCE_OPEN whose
`column - 1` is smaller than `ci` (a bare zone of an enclosing block). -/
def stopsB (ci : Nat) (e : Token) : Bool :=
  e.type != .newline && e.type != .comment && (e.type != .fenceOpen || decide (e.col - 1 < ci)) &&
  (e.type != .indent || decide (indentVal e < ci))

theorem stopsB_of_stopsAt {ci : Nat} {e : Token} (h : stopsAt ci e = true) : stopsB ci e = true := by
  simp only [stopsAt, Bool.and_eq_true, Bool.or_eq_true, bne_iff_ne, ne_eq, decide_eq_true_eq] at h
  simp only [stopsB, Bool.and_eq_true, Bool.or_eq_true, bne_iff_ne, ne_eq, decide_eq_true_eq]
  exact ⟨⟨⟨h.1.1.1, h.1.1.2⟩, Or.inl h.1.2⟩, h.2⟩

theorem stopsB_mono {a b : Nat} (h : a ≤ b) {e : Token} (hs : stopsB a e = true) : stopsB b e = true := by
  simp only [stopsB, Bool.and_eq_true, Bool.or_eq_true, bne_iff_ne, ne_eq, decide_eq_true_eq] at hs ⊢
  refine ⟨⟨hs.1.1, ?_⟩, ?_⟩
  · rcases hs.1.2 with h1 | h1
    · exact Or.inl h1
    · exact Or.inr (by omega)
  · rcases hs.2 with h1 | h1
    · exact Or.inl h1
    · exact Or.inr (by omega)

/-- the child loop of a block stops at a token that `stopsB` its child indentation (on a fresh line: `lineIndent = 0`). -/
theorem blockLoop_stopB (fuel ci : Nat) (hci : 0 < ci) (acc : List Node) (kp : KeyPos) (e : Token) (r : List Token)
    (p : Option Token) (n : Nat) (la : Token) (w : List Warning) (d : Nat) (wd : List Nat) (s : Bool) (th : Nat) (al : Char → Bool)
    (hs : stopsB ci e = true) :
    blockLoop (fuel + 1) ci 0 [] acc kp { rest := e :: r, prev := p, pos := n, last := la, warnings := w, depth := d, warned := wd, strict := s, threshold := th, alpha := al }
      = .ok (acc, { rest := e :: r, prev := p, pos := n, last := la, warnings := w, depth := d, warned := wd, strict := s, threshold := th, alpha := al }) := by
  simp only [stopsB, Bool.and_eq_true, Bool.or_eq_true, bne_iff_ne, ne_eq, decide_eq_true_eq] at hs
  obtain ⟨⟨⟨h1, h2⟩, h3⟩, h4⟩ := hs
  rw [blockLoop]
  step_simp [List.map_nil, List.append_nil]
  by_cases he : e.type = TT.eof ∨ e.type = TT.envelopeEnd
  · rw [if_pos he]; rfl
  · rw [if_neg he]
    by_cases hi : e.type = TT.indent
    · have h5 : indentVal e < ci := by
        rcases h4 with h | h
        · exact absurd hi h
        · exact h
      obtain ⟨ty, val, l, c, nf, raw⟩ := e
      simp only at hi
      subst hi
      cases val <;> simp only [indentVal] at h5 <;> step_simp [h5] <;> (try (rw [if_pos hci]))
    · by_cases hf : e.type = TT.fenceOpen
      · have h6 : e.col - 1 < ci := by
          rcases h3 with h | h
          · exact absurd hf h
          · exact h
        step_simp [hi, h1, h2, hf, h6]
      · step_simp [hi, h1, h2, hf, hci]

/-! ## The three mutually dependent statements, indexed by the fuel -/

def SecOK (F : Nat) : Prop :=
  ∀ (p : LPos) (key : Str) (cs : List BT) (d : Nat) (st : PState) (e : Token) (k : List Token),
    st.rest = (BT.block p key cs).body d ++ e :: k →
    stopsB (2 * d + 1) e = true →
    (cs.isEmpty = true → e.type = TT.fenceOpen → e.col - 1 < 2 * d) →
    (BT.block p key cs).colsOk d = true →
    attachOkList cs = true →
    ((BT.block p key cs).body d).length ≤ F →
    parseSection F [] st = .ok (some (BT.block p key cs).node,
      { st with rest := e :: k, prev := some (BT.block p key cs).lastTok,
                pos := st.pos + ((BT.block p key cs).body d).length,
                warnings := (BT.block p key cs).warns.reverse ++ st.warnings })

/-- the child loop with the cursor on the first token of child `c` — its key with the INDENT consumed
(`lineIndent = li ≥ childIndent`), or the open fence of a BARE zone (`li` is then irrelevant). -/
def ChildOK (F : Nat) : Prop :=
  ∀ (c : BT) (cs : List BT) (d li : Nat) (st : PState) (e : Token) (k : List Token) (acc : List Node) (kp : KeyPos),
    st.rest = c.body (d + 1) ++ (toksList cs (d + 1) ++ e :: k) →
    (c.isBare = true ∨ 2 * (d + 1) ≤ li) →
    stopsB (2 * (d + 1)) e = true →
    c.colsOk (d + 1) = true → colsOkList cs (d + 1) = true →
    attachOkList (c :: cs) = true →
    (c.body (d + 1)).length + (toksList cs (d + 1)).length + 1 ≤ F →
    blockLoop F (2 * (d + 1)) li [] acc kp st = .ok (acc ++ nodeList (c :: cs),
      { st with rest := e :: k, prev := some (lastTokList cs c.lastTok),
                pos := st.pos + ((c.body (d + 1)).length + (toksList cs (d + 1)).length),
                warnings := (warnsList (c :: cs) kp).reverse ++ st.warnings })

def LoopOK (F : Nat) : Prop :=
  ∀ (cs : List BT) (d : Nat) (st : PState) (e : Token) (k : List Token) (acc : List Node) (kp : KeyPos),
    st.rest = toksList cs (d + 1) ++ e :: k →
    stopsB (2 * (d + 1)) e = true →
    colsOkList cs (d + 1) = true →
    attachOkList cs = true →
    (toksList cs (d + 1)).length + 1 ≤ F →
    blockLoop F (2 * (d + 1)) 0 [] acc kp st = .ok (acc ++ nodeList cs,
      { st with rest := e :: k, prev := prevAfterList st.prev cs,
                pos := st.pos + (toksList cs (d + 1)).length,
                warnings := (warnsList cs kp).reverse ++ st.warnings })

theorem item_toks_eq (it : Item) : ∃ a K, it.toks = it.keyTok :: a :: (K ++ [it.nlTok]) ∧ a.type = TT.assign :=
  ZoneTreeParse.item_toks_eq it

theorem item_toks_len (it : Item) : 4 ≤ it.toks.length := ZoneTreeParse.item_toks_len it

theorem body_ne_nil (c : BT) (d : Nat) (r : List Token) : c.body d ++ r ≠ [] := by
  cases c with
  | leaf p it => obtain ⟨a, K, h, _⟩ := item_toks_eq it; simp [BT.body, h]
  | bare z => simp [BT.body, BZone.toks]
  | block p key cs => simp [BT.body]

theorem prevAfterList_some (t : Token) (cs : List BT) : prevAfterList (some t) cs = some (lastTokList cs t) := by
  cases cs <;> rfl

theorem prevAfterList_cons (p : Option Token) (c : BT) (cs : List BT) :
    prevAfterList p (c :: cs) = some (lastTokList cs c.lastTok) := rfl

theorem loop_of (F : Nat) (ih : ∀ F' < F, ChildOK F') (hC : ChildOK F) : LoopOK F := by
  intro cs d st e k acc kp hr hs hc ha hF
  cases cs with
  | nil =>
    obtain ⟨rest, p, n, la, w, dp, wd, s, th, al⟩ := st
    simp only at hr
    subst hr
    obtain ⟨F', rfl⟩ : ∃ F', F = F' + 1 := ⟨F - 1, by omega⟩
    simp only [toksList, List.nil_append]
    rw [blockLoop_stopB (hci := by omega) (hs := hs)]
    simp only [nodeList, List.append_nil, prevAfterList, List.length_nil, Nat.add_zero, warnsList, List.reverse_nil, List.nil_append]
  | cons c cs =>
    cases c with
    | bare z =>
      simp only [colsOkList, Bool.and_eq_true] at hc
      simp only [toksList, BT.lead, List.nil_append, List.length_append] at hr hF ⊢
      rw [hC (.bare z) cs d 0 st e k acc kp hr (Or.inl rfl) hs hc.1 hc.2 ha (by omega)]
      simp only [prevAfterList]
    | leaf lp it =>
      obtain ⟨rest, p, n, la, w, dp, wd, s, th, al⟩ := st
      simp only at hr
      subst hr
      obtain ⟨F', rfl⟩ : ∃ F', F = F' + 1 := ⟨F - 1, by omega⟩
      simp only [toksList, BT.lead, BlockParse.indentToks, List.cons_append, List.nil_append, List.append_assoc, colsOkList, Bool.and_eq_true,
        List.length_cons, List.length_append] at hF hc ⊢
      rw [blockLoop]
      step_simp [indentTok, Nat.lt_irrefl]
      rw [advance_ne (h := body_ne_nil (.leaf lp it) (d + 1) _)]
      simp only []
      rw [ih F' (Nat.lt_succ_self _) (.leaf lp it) cs d (2 * (d + 1)) _ e k acc kp rfl (Or.inr (Nat.le_refl _)) hs hc.1 hc.2 ha (by omega)]
      simp only [prevAfterList]
      have hp : n + 1 + (((BT.leaf lp it).body (d + 1)).length + (toksList cs (d + 1)).length)
          = n + (((BT.leaf lp it).body (d + 1)).length + (toksList cs (d + 1)).length + 1) := by omega
      rw [hp]
    | block bp key' cs' =>
      obtain ⟨rest, p, n, la, w, dp, wd, s, th, al⟩ := st
      simp only at hr
      subst hr
      obtain ⟨F', rfl⟩ : ∃ F', F = F' + 1 := ⟨F - 1, by omega⟩
      simp only [toksList, BT.lead, BlockParse.indentToks, List.cons_append, List.nil_append, List.append_assoc, colsOkList, Bool.and_eq_true,
        List.length_cons, List.length_append] at hF hc ⊢
      rw [blockLoop]
      step_simp [indentTok, Nat.lt_irrefl]
      rw [advance_ne (h := body_ne_nil (.block bp key' cs') (d + 1) _)]
      simp only []
      rw [ih F' (Nat.lt_succ_self _) (.block bp key' cs') cs d (2 * (d + 1)) _ e k acc kp rfl (Or.inr (Nat.le_refl _)) hs hc.1 hc.2 ha (by omega)]
      simp only [prevAfterList]
      have hp : n + 1 + (((BT.block bp key' cs').body (d + 1)).length + (toksList cs (d + 1)).length)
          = n + (((BT.block bp key' cs').body (d + 1)).length + (toksList cs (d + 1)).length + 1) := by omega
      rw [hp]

/-- the first token after a node at depth `d` — a sibling's INDENT, key or OPEN FENCE, or what follows the forest —
`stopsB` depth `d`; and it is a fence at column `2·d + 1` only when the next sibling is a bare zone. -/
theorem cont_head (cs : List BT) (d : Nat) (e : Token) (k : List Token) (hs : stopsB (2 * d + 1) e = true)
    (hf : e.type = TT.fenceOpen → e.col - 1 < 2 * d) (hc : colsOkList cs d = true) :
    ∃ e' k', toksList cs d ++ e :: k = e' :: k' ∧ stopsB (2 * d + 1) e' = true ∧
      (headBare cs = false → e'.type = TT.fenceOpen → e'.col - 1 < 2 * d) := by
  cases cs with
  | nil => exact ⟨e, k, rfl, hs, fun _ => hf⟩
  | cons c cs =>
    cases c with
    | bare z =>
      simp only [colsOkList, BT.colsOk, Bool.and_eq_true, decide_eq_true_eq] at hc
      refine ⟨z.openTok, _, by simp only [toksList, BT.lead, BT.body, BZone.toks, List.nil_append, List.cons_append]; rfl, ?_,
        fun h => by simp [headBare] at h⟩
      simp only [stopsB, BZone.openTok, Bool.and_eq_true, Bool.or_eq_true, bne_iff_ne, ne_eq, decide_eq_true_eq, reduceCtorEq,
        not_false_eq_true, not_true_eq_false, false_or, true_or, and_true, true_and]
      have := hc.1
      apply decide_eq_true
      omega
    | leaf p it =>
      cases d with
      | zero =>
        obtain ⟨a, K, h, _⟩ := item_toks_eq it
        exact ⟨it.keyTok, _, by simp only [toksList, BT.lead, BlockParse.indentToks, BT.body, h, List.nil_append, List.cons_append]; rfl,
          by simp [stopsB, Item.keyTok], fun _ h => by simp [Item.keyTok] at h⟩
      | succ d => exact ⟨_, _, rfl, by simp [stopsB, indentTok, indentVal], fun _ h => by simp [indentTok] at h⟩
    | block p key cs' =>
      cases d with
      | zero => exact ⟨_, _, rfl, by simp [stopsB, hdrKeyTok], fun _ h => by simp [hdrKeyTok] at h⟩
      | succ d => exact ⟨_, _, rfl, by simp [stopsB, indentTok, indentVal], fun _ h => by simp [indentTok] at h⟩

theorem stopsB_fence {ci : Nat} {e : Token} (hs : stopsB ci e = true) (hf : e.type = TT.fenceOpen) : e.col - 1 < ci := by
  simp only [stopsB, Bool.and_eq_true, Bool.or_eq_true, bne_iff_ne, ne_eq, decide_eq_true_eq] at hs
  rcases hs.1.2 with h | h
  · exact absurd hf h
  · exact h

theorem child_of (F : Nat) (ihS : ∀ F' < F, SecOK F') (ihL : ∀ F' < F, LoopOK F') : ChildOK F := by
  intro c cs d li st e k acc kp hr hli hs hc hcs ha hF
  simp only [attachOkList, Bool.and_eq_true] at ha
  obtain ⟨⟨ha1, ha2⟩, ha3⟩ := ha
  cases c with
  | leaf lp it =>
    have hnlt : ¬ li < 2 * (d + 1) := by
      rcases hli with h | h
      · simp [BT.isBare] at h
      · omega
    obtain ⟨rest, p, n, la, w, dp, wd, s, th, al⟩ := st
    simp only at hr
    subst hr
    obtain ⟨a, K, htk, ha⟩ := item_toks_eq it
    have hlen := item_toks_len it
    simp only [BT.body] at hF ⊢
    obtain ⟨G, rfl⟩ : ∃ G, F = G + 5 := ⟨F - 5, by omega⟩
    have hsec := ZoneTreeParse.parseSection_item
      { rest := it.toks ++ (toksList cs (d + 1) ++ e :: k), prev := p, pos := n, last := la, warnings := w, depth := dp, warned := wd,
        strict := s, threshold := th, alpha := al } it (toksList cs (d + 1) ++ e :: k) (G + 1) rfl
    rw [blockLoop]
    rw [htk] at hsec ⊢
    simp only [List.cons_append] at hsec ⊢
    step_simp [Item.keyTok, hnlt]
    simp only [Item.keyTok] at hsec
    rw [hsec]
    cases it with
    | line ln =>
      step_simp [Item.node, Line.node, nodeAssignKey?, trackKey_eq]
      rw [blockLoop]
      step_simp [Item.nlTok, Line.nlTok]
      rw [advance_ne (h := by simp)]
      simp only []
      rw [ihL (G + 3) (by omega) cs d _ e k _ _ rfl hs hcs ha3 (by simp only [Item.toks, Line.toks, List.length_cons, List.length_nil] at hF; omega)]
      simp only [nodeList, BT.node, BT.lastTok, Item.node, Item.nlTok, Item.key, Item.l, Item.warns, Line.node, Line.nlTok,
        warnsList, BT.warns, trackNode,
        prevAfterList_some, List.append_assoc, List.cons_append, List.nil_append, List.reverse_append,
        trackPure_warns_reverse, Line.warns_reverse]
      apply ok_pos_congr
      omega
    | zone z =>
      step_simp [Item.node, Zone.node, nodeAssignKey?, trackKey_eq]
      rw [blockLoop]
      step_simp [Item.nlTok, Zone.nlTok]
      rw [advance_ne (h := by simp)]
      simp only []
      rw [ihL (G + 3) (by omega) cs d _ e k _ _ rfl hs hcs ha3 (by simp only [Item.toks, Zone.toks, Zone.head, List.length_append, List.length_cons, List.length_nil] at hF; omega)]
      simp only [nodeList, BT.node, BT.lastTok, Item.node, Item.nlTok, Item.key, Item.l, Item.warns, Zone.node, Zone.nlTok,
        warnsList, BT.warns, trackNode,
        prevAfterList_some, List.append_assoc, List.cons_append, List.nil_append, List.reverse_append,
        trackPure_warns_reverse, List.length_cons, List.length_nil, List.length_append]
      apply ok_pos_congr
      omega
  | bare z =>
    simp only [BT.colsOk, decide_eq_true_eq] at hc
    obtain ⟨rest, p, n, la, w, dp, wd, s, th, al⟩ := st
    simp only at hr
    subst hr
    simp only [BT.body, BZone.toks, List.length_cons, List.length_nil] at hF ⊢
    obtain ⟨G, rfl⟩ : ∃ G, F = G + 2 := ⟨F - 2, by omega⟩
    have hcol : ¬ (z.oc - 1 < 2 * (d + 1)) := by omega
    rw [blockLoop]
    simp only [List.cons_append, List.nil_append]
    step_simp [BZone.openTok, hcol]
    rw [parseLiteralZone_content (m := z.marker) (tg := z.tag) (ho := rfl) (hv := rfl) (hl := rfl) (hc := rfl)]
    step_simp [BZone.nlTok, BZone.litTok, pyStrVal_str]
    rw [blockLoop]
    step_simp []
    rw [advance_ne (h := by simp)]
    simp only []
    rw [ihL G (by omega) cs d _ e k _ _ rfl hs hcs ha3 (by omega)]
    simp only [nodeList, BT.node, BT.lastTok, BZone.node, BZone.nlTok, warnsList, BT.warns, trackNode, List.map_nil, List.append_nil,
      prevAfterList_some, List.append_assoc, List.cons_append, List.nil_append, List.reverse_append, List.reverse_nil]
    apply ok_pos_congr
    omega
  | block bp key' cs' =>
    have hnlt : ¬ li < 2 * (d + 1) := by
      rcases hli with h | h
      · simp [BT.isBare] at h
      · omega
    obtain ⟨e', k', hek, hs', hf'⟩ := cont_head cs (d + 1) e k (stopsB_mono (by omega) hs) (stopsB_fence hs) hcs
    rw [hek] at hr
    obtain ⟨rest, p, n, la, w, dp, wd, s, th, al⟩ := st
    simp only at hr
    subst hr
    obtain ⟨F', rfl⟩ : ∃ F', F = F' + 1 := ⟨F - 1, by omega⟩
    have hlen3 : 3 ≤ ((BT.block bp key' cs').body (d + 1)).length := by
      simp only [BT.body, List.length_cons]; omega
    have hemp : cs'.isEmpty = true → e'.type = TT.fenceOpen → e'.col - 1 < 2 * (d + 1) := by
      intro h1
      apply hf'
      cases cs' with
      | nil => simpa [BT.isEmptyBlock] using ha2
      | cons x y => simp at h1
    have hsec := ihS F' (Nat.lt_succ_self _) bp key' cs' (d + 1)
      { rest := (BT.block bp key' cs').body (d + 1) ++ e' :: k', prev := p, pos := n, last := la, warnings := w, depth := dp,
        warned := wd, strict := s, threshold := th, alpha := al } e' k' rfl hs' hemp hc (by simpa [BT.attachOk] using ha1) (by omega)
    rw [blockLoop]
    simp only [BT.body, List.cons_append] at hsec ⊢
    step_simp [hdrKeyTok, hnlt]
    simp only [hdrKeyTok] at hsec
    rw [hsec]
    step_simp [BT.node, nodeAssignKey?]
    rw [ihL F' (Nat.lt_succ_self _) cs d _ e k _ _ hek.symm hs hcs ha3 (by omega)]
    simp only [nodeList, BT.node, BT.lastTok, warnsList, BT.warns, trackNode,
      prevAfterList_some, List.append_assoc, List.cons_append, List.nil_append, List.reverse_append, Nat.add_assoc]

/-- `advance` over a token followed by the tokens of a node. -/
theorem advance_body (c : BT) (d' : Nat) (X : List Token) (t : Token) (p : Option Token) (n : Nat) (la : Token)
    (w : List Warning) (d : Nat) (wd : List Nat) (s : Bool) (th : Nat) (al : Char → Bool) :
    advance { rest := t :: (c.body d' ++ X), prev := p, pos := n, last := la, warnings := w, depth := d, warned := wd, strict := s, threshold := th, alpha := al }
      = .ok (t, { rest := c.body d' ++ X, prev := some t, pos := n + 1, last := la, warnings := w, depth := d, warned := wd, strict := s, threshold := th, alpha := al }) :=
  advance_ne (h := body_ne_nil c d' X) ..

theorem sec_of (F : Nat) (ih : ∀ F' < F, ChildOK F') : SecOK F := by
  intro bp key cs d st e k hr hs hemp hc ha hF
  obtain ⟨rest, p, n, la, w, dp, wd, s, th, al⟩ := st
  simp only at hr
  subst hr
  have hs0 := hs
  simp only [stopsB, Bool.and_eq_true, Bool.or_eq_true, bne_iff_ne, ne_eq, decide_eq_true_eq] at hs0
  obtain ⟨⟨⟨h1, h2⟩, h3⟩, h4⟩ := hs0
  cases cs with
  | nil =>
    simp only [BT.colsOk, List.isEmpty_nil, if_true, colsOkList, Bool.and_true, decide_eq_true_eq] at hc
    simp only [BT.body, toksList, List.cons_append, List.nil_append, List.length_cons, List.length_nil] at hF ⊢
    obtain ⟨F', rfl⟩ : ∃ F', F = F' + 1 := ⟨F - 1, by omega⟩
    rw [parseSection]
    step_simp [hdrKeyTok, hdrBlockTok, hdrNlTok, pyStrVal_str]
    rw [skipWhitespace_newline (h := rfl) (h1 := h1) (h2 := h2)]
    step_simp []
    rw [preIndentComments_stop (h1 := h2) (h2 := h1)]
    step_simp []
    have hfin : n + 1 + 1 + 1 = n + (0 + 1 + 1 + 1) := by omega
    by_cases hi : e.type = TT.indent
    · have h5 : indentVal e < 2 * d + 1 := by
        rcases h4 with h | h
        · exact absurd hi h
        · exact h
      have hnf : e.type ≠ TT.fenceOpen := by rw [hi]; decide
      cases hv : e.value with
      | nat m =>
        simp only [indentVal, hv] at h5
        have h6 : ¬ (m > bp.c1 - 1) := by omega
        step_simp [hi, h6, set_mk, decide_false, eq_self, Option.isSome_none]
        simp only [BT.node, nodeList, BT.lastTok, lastTokList, BT.warns, warnsList, List.reverse_nil, List.nil_append, hdrNlTok, hfin]
      | _ =>
        step_simp [hi, set_mk, decide_false, eq_self, Option.isSome_none, gt_iff_lt, Nat.not_lt_zero]
        simp only [BT.node, nodeList, BT.lastTok, lastTokList, BT.warns, warnsList, List.reverse_nil, List.nil_append, hdrNlTok, hfin]
    · have hib : (e.type == TT.indent) = false := by simp [hi]
      by_cases hf : e.type = TT.fenceOpen
      · have h6 := hemp rfl hf
        have h7 : ¬ (e.col - 1 > bp.c1 - 1) := by omega
        have h8 : ¬ (e.col - 1 ≥ bp.c1 - 1) := by omega
        step_simp [hi, hib, hf, h7, h8, set_mk, decide_false, eq_self, Option.isSome_none, Option.isNone_none]
        simp only [BT.node, nodeList, BT.lastTok, lastTokList, BT.warns, warnsList, List.reverse_nil, List.nil_append, hdrNlTok, hfin]
      · step_simp [hi, hib, hf, set_mk, decide_false, eq_self, Option.isSome_none]
        simp only [BT.node, nodeList, BT.lastTok, lastTokList, BT.warns, warnsList, List.reverse_nil, List.nil_append, hdrNlTok, hfin]
  | cons c cs =>
    simp only [BT.colsOk, List.isEmpty_cons, Bool.false_eq_true, if_false, colsOkList, Bool.and_eq_true, decide_eq_true_eq] at hc
    obtain ⟨hc1, hc2, hc3⟩ := hc
    cases c with
    | bare z =>
      have hoc : z.oc = 2 * (d + 1) + 1 := by simpa [BT.colsOk] using hc2
      simp only [BT.body, toksList, BT.lead, BZone.toks, List.cons_append, List.nil_append, List.append_assoc, List.length_cons,
        List.length_append, List.length_nil] at hF ⊢
      obtain ⟨F', rfl⟩ : ∃ F', F = F' + 1 := ⟨F - 1, by omega⟩
      rw [parseSection]
      step_simp [hdrKeyTok, hdrBlockTok, hdrNlTok, pyStrVal_str]
      rw [skipWhitespace_newline (h := rfl) (h1 := by simp [BZone.openTok]) (h2 := by simp [BZone.openTok])]
      step_simp []
      rw [preIndentComments_stop (h1 := by simp [BZone.openTok]) (h2 := by simp [BZone.openTok])]
      have h6 : z.oc - 1 > bp.c1 - 1 := by omega
      have h7 : z.oc - 1 = 2 * (d + 1) := by omega
      step_simp [BZone.openTok, h6, decide_true, Option.isSome_some, Option.isNone_some]
      rw [h7]
      have := ih F' (Nat.lt_succ_self _) (.bare z) cs d (2 * (d + 1))
        { rest := z.openTok :: z.litTok :: z.closeTok :: z.nlTok :: (toksList cs (d + 1) ++ e :: k), prev := some (hdrNlTok bp),
          pos := n + 1 + 1 + 1, last := la, warnings := w, depth := dp, warned := wd, strict := s, threshold := th, alpha := al }
        e k [] [] (by simp [BT.body, BZone.toks]) (Or.inl rfl) (stopsB_mono (by omega) hs) hc2 hc3 ha
        (by simp only [BT.body, BZone.toks, List.length_cons, List.length_nil]; omega)
      simp only [BZone.openTok, hdrNlTok] at this
      rw [this]
      simp only [BT.node, nodeList, BT.lastTok, lastTokList, BT.warns, warnsList, List.nil_append, BT.body, BZone.toks,
        List.length_cons, List.length_nil]
      apply ok_pos_congr
      omega
    | leaf lp it =>
      simp only [BT.body, toksList, BT.lead, BlockParse.indentToks, List.cons_append, List.nil_append, List.append_assoc, List.length_cons,
        List.length_append] at hF ⊢
      obtain ⟨F', rfl⟩ : ∃ F', F = F' + 1 := ⟨F - 1, by omega⟩
      rw [parseSection]
      step_simp [hdrKeyTok, hdrBlockTok, hdrNlTok, pyStrVal_str]
      rw [skipWhitespace_newline (h := rfl) (h1 := by simp [indentTok]) (h2 := by simp [indentTok])]
      step_simp []
      rw [preIndentComments_stop (h1 := by simp [indentTok]) (h2 := by simp [indentTok])]
      have h6 : 2 * (d + 1) > bp.c1 - 1 := hc1
      have hadv := advance_body (.leaf lp it) (d + 1)
      simp only [BT.body] at hadv
      step_simp [indentTok, h6, decide_true, Option.isSome_none, hadv]
      have := ih F' (Nat.lt_succ_self _) (.leaf lp it) cs d (2 * (d + 1))
      simp only [BT.body] at this
      rw [this _ e k [] [] rfl (Or.inr (Nat.le_refl _)) (stopsB_mono (by omega) hs) hc2 hc3 ha (by omega)]
      simp only [BT.node, nodeList, BT.lastTok, lastTokList, BT.warns, warnsList, List.nil_append]
      apply ok_pos_congr
      omega
    | block cp ckey ccs =>
      simp only [toksList, BT.lead, BlockParse.indentToks, List.cons_append, List.nil_append, List.append_assoc, List.length_cons,
        List.length_append] at hF ⊢
      rw [BT.body] at hF ⊢
      simp only [toksList, BT.lead, BlockParse.indentToks, List.cons_append, List.nil_append, List.append_assoc, List.length_cons,
        List.length_append] at hF ⊢
      obtain ⟨F', rfl⟩ : ∃ F', F = F' + 1 := ⟨F - 1, by omega⟩
      rw [parseSection]
      step_simp [hdrKeyTok, hdrBlockTok, hdrNlTok, pyStrVal_str]
      rw [skipWhitespace_newline (h := rfl) (h1 := by simp [indentTok]) (h2 := by simp [indentTok])]
      step_simp []
      rw [preIndentComments_stop (h1 := by simp [indentTok]) (h2 := by simp [indentTok])]
      have h6 : 2 * (d + 1) > bp.c1 - 1 := hc1
      step_simp [indentTok, h6, decide_true, Option.isSome_none, advance_body]
      rw [ih F' (Nat.lt_succ_self _) (.block cp ckey ccs) cs d (2 * (d + 1)) _ e k [] [] rfl (Or.inr (Nat.le_refl _))
        (stopsB_mono (by omega) hs) hc2 hc3 ha (by omega)]
      simp only [BT.node, nodeList, BT.lastTok, lastTokList, BT.warns, warnsList, List.nil_append]
      apply ok_pos_congr
      omega

theorem all_ok (F : Nat) : SecOK F ∧ ChildOK F ∧ LoopOK F := by
  induction F using Nat.strongRecOn with
  | _ F ih =>
    have hC : ∀ F' < F, ChildOK F' := fun F' h => (ih F' h).2.1
    have hCF : ChildOK F := child_of F (fun F' h => (ih F' h).1) (fun F' h => (ih F' h).2.2)
    exact ⟨sec_of F hC, hCF, loop_of F hC hCF⟩

/-- **`parse_section` on a block whose descendants mix lines, zone assignments, blocks and BARE ZONES** — any depth and
width, at any depth `d`, at arbitrary token positions (columns subject to `colsOk`), under the attachment-rule guard,
followed by a token `e` that is not deeper than the block (and, after an EMPTY block, not a fence at the block's own
depth): the Block node with exactly the children — every zone, keyed or bare, carrying exactly the content, tag and
marker of its tokens —; the cursor is left on `e`; `warnings` grows by exactly `warns`. -/
theorem parseSection_bblock (p : LPos) (key : Str) (cs : List BT) (d : Nat) (st : PState) (e : Token) (k : List Token)
    (F : Nat) (hr : st.rest = (BT.block p key cs).body d ++ e :: k) (hs : stopsB (2 * d + 1) e = true)
    (hemp : cs.isEmpty = true → e.type = TT.fenceOpen → e.col - 1 < 2 * d)
    (hc : (BT.block p key cs).colsOk d = true) (ha : attachOkList cs = true) (hF : ((BT.block p key cs).body d).length ≤ F) :
    parseSection F [] st = .ok (some (BT.block p key cs).node,
      { st with rest := e :: k, prev := some (BT.block p key cs).lastTok,
                pos := st.pos + ((BT.block p key cs).body d).length,
                warnings := (BT.block p key cs).warns.reverse ++ st.warnings }) :=
  (all_ok F).1 p key cs d st e k hr hs hemp hc ha hF

/-- **the child loop of a block** from the start of a line, on any forest of children at depth `d + 1`. -/
theorem blockLoop_bforest (cs : List BT) (d : Nat) (st : PState) (e : Token) (k : List Token)
    (acc : List Node) (kp : KeyPos) (F : Nat)
    (hr : st.rest = toksList cs (d + 1) ++ e :: k) (hs : stopsB (2 * (d + 1)) e = true)
    (hc : colsOkList cs (d + 1) = true) (ha : attachOkList cs = true) (hF : (toksList cs (d + 1)).length + 1 ≤ F) :
    blockLoop F (2 * (d + 1)) 0 [] acc kp st = .ok (acc ++ nodeList cs,
      { st with rest := e :: k, prev := prevAfterList st.prev cs,
                pos := st.pos + (toksList cs (d + 1)).length,
                warnings := (warnsList cs kp).reverse ++ st.warnings }) :=
  (all_ok F).2.2 cs d st e k acc kp hr hs hc ha hF

/-! ## The body loop of `parseDocument` (no bare zone at top level) -/

/-- no bare zone directly under the envelope (`docLoop` has no fence branch: it would be dropped). -/
def noBareTop : List BT → Bool
  | [] => true
  | c :: cs => !c.isBare && noBareTop cs

theorem headBare_of_noBareTop (cs : List BT) (h : noBareTop cs = true) : headBare cs = false := by
  cases cs with
  | nil => rfl
  | cons c r => cases c <;> simp_all [noBareTop, headBare, BT.isBare]

theorem docLoop_btree (vf : Nat) (nodes : List BT) (e : Token) (tail : List Token)
    (he : e.type = .envelopeEnd ∨ e.type = .eof) (st : PState) (acc : List Node) (kp : KeyPos) (extra : Nat)
    (hr : st.rest = toksList nodes 0 ++ e :: tail)
    (hc : colsOkList nodes 0 = true) (ha : attachOkList nodes = true) (hnb : noBareTop nodes = true)
    (hvf : (toksList nodes 0).length + 3 ≤ vf) :
    docLoop vf (2 * nodes.length + 1 + extra) [] acc kp st
      = .ok ((acc ++ nodeList nodes, []),
             { st with rest := e :: tail, prev := prevAfterList st.prev nodes,
                       pos := st.pos + (toksList nodes 0).length,
                       warnings := (warnsList nodes kp).reverse ++ st.warnings }) := by
  have hse : stopsB 1 e = true := by
    rcases he with h | h <;> simp [stopsB, h]
  have hef : e.type = TT.fenceOpen → e.col - 1 < 2 * 0 := by
    intro h; rcases he with h' | h' <;> rw [h'] at h <;> cases h
  induction nodes generalizing st acc kp extra with
  | nil =>
    obtain ⟨rest, p, n, la, w, dp, wd, s, th, al⟩ := st
    simp only [toksList, List.nil_append] at hr
    subst hr
    have hf : 2 * ([] : List BT).length + 1 + extra = extra + 1 := by simp only [List.length_nil]; omega
    rw [hf, docLoop]
    step_simp [he]
    simp only [nodeList, List.append_nil, prevAfterList, toksList, List.length_nil, Nat.add_zero, warnsList, List.reverse_nil,
      List.nil_append]
  | cons c r ih =>
    have hf : 2 * (c :: r).length + 1 + extra = (2 * r.length + 1 + extra) + 1 + 1 := by
      simp only [List.length_cons]; omega
    simp only [colsOkList, Bool.and_eq_true] at hc
    simp only [attachOkList, Bool.and_eq_true] at ha
    simp only [noBareTop, Bool.and_eq_true] at hnb
    obtain ⟨⟨ha1, ha2⟩, ha3⟩ := ha
    rw [hf]
    cases c with
    | bare z => simp [BT.isBare] at hnb
    | leaf lp it =>
      obtain ⟨rest, p, n, la, w, dp, wd, s, th, al⟩ := st
      simp only at hr
      subst hr
      obtain ⟨a, K, htk, ha⟩ := item_toks_eq it
      have hlen := item_toks_len it
      simp only [toksList, BT.lead, BlockParse.indentToks, BT.body, List.nil_append, List.length_append] at hvf ⊢
      obtain ⟨vf0, rfl⟩ : ∃ vf0, vf = vf0 + 3 := ⟨vf - 3, by omega⟩
      have hsec := ZoneTreeParse.parseSection_item
        { rest := it.toks ++ (toksList r 0 ++ e :: tail), prev := p, pos := n, last := la, warnings := w, depth := dp, warned := wd,
          strict := s, threshold := th, alpha := al } it (toksList r 0 ++ e :: tail) vf0 rfl
      rw [docLoop]
      rw [htk] at hsec
      rw [List.append_assoc, htk]
      simp only [List.cons_append] at hsec ⊢
      step_simp [Item.keyTok]
      simp only [Item.keyTok] at hsec
      rw [hsec]
      cases it with
      | line ln =>
        step_simp [Item.node, Line.node, nodeAssignKey?, trackKey_eq]
        rw [docLoop]
        step_simp [Item.nlTok, Line.nlTok]
        rw [advance_ne (h := by simp)]
        simp only []
        rw [ih _ _ _ extra rfl hc.2 ha3 hnb.2 (by omega)]
        simp only [nodeList, BT.node, BT.lastTok, Item.node, Item.nlTok, Item.key, Item.l, Item.warns, Line.node, Line.nlTok,
          warnsList, BT.warns, trackNode,
          prevAfterList_some, prevAfterList_cons, List.append_assoc, List.cons_append, List.nil_append, List.reverse_append,
          trackPure_warns_reverse, Line.warns_reverse]
        apply ok_pos_congr
        simp only [List.length_cons, List.length_nil, List.length_append]
        omega
      | zone z =>
        step_simp [Item.node, Zone.node, nodeAssignKey?, trackKey_eq]
        rw [docLoop]
        step_simp [Item.nlTok, Zone.nlTok]
        rw [advance_ne (h := by simp)]
        simp only []
        rw [ih _ _ _ extra rfl hc.2 ha3 hnb.2 (by omega)]
        simp only [nodeList, BT.node, BT.lastTok, Item.node, Item.nlTok, Item.key, Item.l, Item.warns, Zone.node, Zone.nlTok,
          warnsList, BT.warns, trackNode,
          prevAfterList_some, prevAfterList_cons, List.append_assoc, List.cons_append, List.nil_append, List.reverse_append,
          trackPure_warns_reverse]
        apply ok_pos_congr
        simp only [List.length_cons, List.length_nil, List.length_append]
        omega
    | block bp key cs =>
      obtain ⟨e', k', hek, hs', hf'⟩ := cont_head r 0 e tail hse hef hc.2
      have hemp : cs.isEmpty = true → e'.type = TT.fenceOpen → e'.col - 1 < 2 * 0 :=
        fun _ => hf' (headBare_of_noBareTop r hnb.2)
      simp only [toksList, BT.lead, BlockParse.indentToks, List.nil_append, List.append_assoc] at hr hvf
      rw [hek] at hr
      obtain ⟨rest, p, n, la, w, dp, wd, s, th, al⟩ := st
      simp only at hr
      subst hr
      have hsec := parseSection_bblock bp key cs 0
        { rest := (BT.block bp key cs).body 0 ++ e' :: k', prev := p, pos := n, last := la, warnings := w, depth := dp,
          warned := wd, strict := s, threshold := th, alpha := al } e' k' vf rfl hs' hemp hc.1 (by simpa [BT.attachOk] using ha1)
          (by simp only [List.length_append] at hvf; omega)
      rw [docLoop]
      simp only [BT.body, List.cons_append] at hsec ⊢
      step_simp [hdrKeyTok]
      simp only [hdrKeyTok] at hsec
      rw [hsec]
      step_simp [BT.node, nodeAssignKey?]
      have hfm : 2 * r.length + 1 + extra + 1 = 2 * r.length + 1 + (extra + 1) := by omega
      rw [hfm, ih _ _ _ (extra + 1) hek.symm hc.2 ha3 hnb.2
        (by simp only [List.length_append] at hvf; omega)]
      simp only [nodeList, BT.node, BT.lastTok, warnsList, BT.warns, trackNode, toksList, BT.lead, BlockParse.indentToks, BT.body,
        prevAfterList_some, prevAfterList_cons, List.append_assoc, List.cons_append, List.nil_append, List.reverse_append,
        List.length_cons, List.length_append]
      apply ok_pos_congr
      omega

/-- `docLoop_btree` with fuel given by lower bounds. -/
theorem docLoop_btree' (vf fuel : Nat) (nodes : List BT) (e : Token) (tail : List Token)
    (he : e.type = .envelopeEnd ∨ e.type = .eof) (st : PState) (acc : List Node) (kp : KeyPos)
    (hr : st.rest = toksList nodes 0 ++ e :: tail)
    (hc : colsOkList nodes 0 = true) (ha : attachOkList nodes = true) (hnb : noBareTop nodes = true)
    (hvf : (toksList nodes 0).length + 3 ≤ vf) (hfuel : 2 * nodes.length + 1 ≤ fuel) :
    docLoop vf fuel [] acc kp st
      = .ok ((acc ++ nodeList nodes, []),
             { st with rest := e :: tail, prev := prevAfterList st.prev nodes,
                       pos := st.pos + (toksList nodes 0).length,
                       warnings := (warnsList nodes kp).reverse ++ st.warnings }) := by
  obtain ⟨extra, rfl⟩ : ∃ extra, fuel = 2 * nodes.length + 1 + extra := ⟨fuel - (2 * nodes.length + 1), by omega⟩
  exact docLoop_btree vf nodes e tail he st acc kp extra hr hc ha hnb hvf

/-- every node has at least one token. -/
theorem length_le_toks (nodes : List BT) (d : Nat) : nodes.length ≤ (toksList nodes d).length := by
  induction nodes with
  | nil => simp [toksList]
  | cons c r ih =>
    have hb : 1 ≤ (c.body d).length := by
      cases c with
      | leaf p it => have := item_toks_len it; simp only [BT.body]; omega
      | bare z => simp [BT.body, BZone.toks]
      | block p key cs => simp [BT.body]
    simp only [toksList, List.length_append, List.length_cons]
    omega

/-! ## `parseDocument` on a whole document -/

/-- the token list: envelope line, the forest at depth 0, `===END===`. -/
def btreeToks (f : Frame) (name : Str) (nodes : List BT) : List Token :=
  f.envTok name :: f.nl0Tok :: (toksList nodes 0 ++ [f.endTok, f.nl1Tok, f.eofTok])

/-- the document it denotes (all other fields at their defaults). -/
def btreeDoc (name : Str) (nodes : List BT) : Document := { name := name, sections := nodeList nodes }

def BT.key : BT → Str
  | .leaf _ it => it.key
  | .bare _ => []
  | .block _ key _ => key

/-- the first top-level key is `META` (then `parse_document` reads a META block, not a section). -/
def metaFirstB : List BT → Bool
  | c :: _ => c.key == "META".toList
  | [] => false

theorem btree_body_head (f : Frame) (nodes : List BT) (hm : metaFirstB nodes = false) (hnb : noBareTop nodes = true) :
    ∃ u K, toksList nodes 0 ++ [f.endTok, f.nl1Tok, f.eofTok] = u :: K ∧
      u.type ≠ TT.newline ∧ u.type ≠ TT.comment ∧ u.type ≠ TT.separator ∧ u.type ≠ TT.grammarSentinel ∧
      u.type ≠ TT.envelopeStart ∧ ¬(u.type = TT.identifier ∧ u.value = TVal.str "META".toList) := by
  cases nodes with
  | nil => exact ⟨f.endTok, _, rfl, by simp [Frame.endTok], by simp [Frame.endTok], by simp [Frame.endTok], by simp [Frame.endTok], by simp [Frame.endTok], fun h => by cases h.1⟩
  | cons c r =>
    simp only [metaFirstB, beq_eq_false_iff_ne, ne_eq] at hm
    cases c with
    | bare z => simp [noBareTop, BT.isBare] at hnb
    | leaf p it =>
      obtain ⟨a, K, htk, _⟩ := item_toks_eq it
      refine ⟨it.keyTok, _, by simp only [toksList, BT.lead, BlockParse.indentToks, BT.body, htk, List.nil_append, List.cons_append]; rfl,
        by simp [Item.keyTok], by simp [Item.keyTok], by simp [Item.keyTok], by simp [Item.keyTok], by simp [Item.keyTok], fun h => ?_⟩
      have := h.2
      simp only [Item.keyTok, TVal.str.injEq] at this
      exact hm this
    | block p key cs =>
      refine ⟨hdrKeyTok key p, _, rfl, by simp [hdrKeyTok], by simp [hdrKeyTok], by simp [hdrKeyTok], by simp [hdrKeyTok], by simp [hdrKeyTok], fun h => ?_⟩
      have := h.2
      simp only [hdrKeyTok, TVal.str.injEq] at this
      exact hm this

/-- **`parse_document` on a document whose body mixes lines, zone assignments, blocks and — inside blocks — bare zones at
any depth**, from any state positioned on its tokens: exactly `btreeDoc`; the cursor ends on the NEWLINE after
`===END===`; the warnings are `warnsList nodes []`.  Conditions: the first top-level key is not `META`; `colsOkList`
(block key columns, open-fence columns of bare zones); `attachOkList` (no bare zone directly after an empty block);
`noBareTop`.  The parser's own fuel (`2·(tokens+2)+10`) is shown to suffice. -/
theorem parseDocument_btree (f : Frame) (name : Str) (nodes : List BT) (st : PState)
    (hm : metaFirstB nodes = false) (hc : colsOkList nodes 0 = true) (ha : attachOkList nodes = true)
    (hnb : noBareTop nodes = true) (hr : st.rest = btreeToks f name nodes) :
    parseDocument st
      = .ok (btreeDoc name nodes,
             { st with rest := [f.nl1Tok, f.eofTok], prev := some f.endTok, pos := st.pos + (toksList nodes 0).length + 3,
                       warnings := (warnsList nodes []).reverse ++ st.warnings }) := by
  obtain ⟨u, K, hK, h1, h2, h3, h4, h5, h6⟩ := btree_body_head f nodes hm hnb
  have hlen : (toksList nodes 0).length + 2 = K.length := by
    have := congrArg List.length hK
    simp only [List.length_append, List.length_cons, List.length_nil] at this
    omega
  have hnl := length_le_toks nodes 0
  have hst : st = { st with rest := f.envTok name :: f.nl0Tok :: u :: K } := by rw [← hK, ← btreeToks, ← hr]
  rw [hst]
  unfold parseDocument
  simp (config := {zeta := false}) only [bind, StateT.bind, Except.bind, budget_mk]
  extract_lets n doc0 jp5 jp4 jp3 jp2 jp1
  step_simp [Frame.envTok, Frame.nl0Tok, skipWhitespace_stop]
  simp only [jp1]
  step_simp []
  simp only [jp2]
  step_simp [skipWhitespace_newline, pyStrVal_str, h1, h2]
  simp only [jp3]
  step_simp [h6]
  simp only [jp4]
  step_simp [h3]
  simp only [jp5]
  step_simp []
  rw [docLoop_btree' (nodes := nodes) (e := f.endTok) (tail := [f.nl1Tok, f.eofTok]) (he := Or.inl rfl)
    (hr := hK.symm) (hc := hc) (ha := ha) (hnb := hnb)
    (hvf := by simp only [n, List.length_cons]; omega) (hfuel := by simp only [n, List.length_cons]; omega)]
  step_simp [Frame.endTok]
  have hp : st.pos + 1 + 1 + (toksList nodes 0).length + 1 = st.pos + (toksList nodes 0).length + 3 := by omega
  rw [hp, List.nil_append]
  rfl

/-! ## The lexer's columns satisfy `colsOk` -/

mutual
/-- every block key sits right after its indentation, every bare open fence too: `column = 2·d + 1` (what the lexer
produces). -/
def BT.canonCols : BT → Nat → Bool
  | .leaf _ _, _ => true
  | .bare z, d => decide (z.oc = 2 * d + 1)
  | .block p _ cs, d => decide (p.c1 = 2 * d + 1) && canonColsList cs (d + 1)
def canonColsList : List BT → Nat → Bool
  | [], _ => true
  | c :: cs, d => c.canonCols d && canonColsList cs d
end

mutual
theorem colsOk_of_canon : ∀ (c : BT) (d : Nat), c.canonCols d = true → c.colsOk d = true
  | .leaf _ _, _, _ => rfl
  | .bare _, _, h => h
  | .block p _ cs, d, h => by
    simp only [BT.canonCols, Bool.and_eq_true, decide_eq_true_eq] at h
    simp only [BT.colsOk, Bool.and_eq_true, colsOkList_of_canon cs (d + 1) h.2, and_true]
    split <;> simp only [decide_eq_true_eq] <;> omega
theorem colsOkList_of_canon : ∀ (cs : List BT) (d : Nat), canonColsList cs d = true → colsOkList cs d = true
  | [], _, _ => rfl
  | c :: cs, d, h => by
    simp only [canonColsList, Bool.and_eq_true] at h
    simp only [colsOkList, Bool.and_eq_true]
    exact ⟨colsOk_of_canon c d h.1, colsOkList_of_canon cs d h.2⟩
end

/-! ## Outside the class, for EVERY instance: the attachment rule, and a bare zone at top level -/

/-- **the attachment rule, for every instance** (Issue #259, `column - 1 >= block_indent`): an EMPTY block header — `KEY:`,
NEWLINE, no indented child — directly followed by a bare zone whose open fence stands at the key's own column: `parse_section`
returns the block WITH THE ZONE AS ITS ONLY CHILD (any key, marker, tag, content, positions, continuation); the cursor is left
on the NEWLINE after the close fence.  So the zone that the emitter wrote as the block's next SIBLING is read as its CHILD. -/
theorem parseSection_attach (p : LPos) (key : Str) (z : BZone) (st : PState) (k : List Token) (F : Nat)
    (hr : st.rest = hdrKeyTok key p :: hdrBlockTok p :: hdrNlTok p :: (z.toks ++ k))
    (hcol : z.oc - 1 = p.c1 - 1) :
    parseSection (F + 1) [] st = .ok (some (.block key [z.node] p.l p.c1 [] none),
      { st with rest := z.nlTok :: k, prev := some z.closeTok, pos := st.pos + 6 }) := by
  obtain ⟨rest, pv, n, la, w, dp, wd, s, th, al⟩ := st
  simp only at hr
  subst hr
  have h7 : ¬ (z.oc - 1 > p.c1 - 1) := by omega
  have h8 : z.oc - 1 ≥ p.c1 - 1 := by omega
  rw [parseSection]
  simp only [BZone.toks, List.cons_append, List.nil_append]
  step_simp [hdrKeyTok, hdrBlockTok, hdrNlTok, pyStrVal_str]
  rw [skipWhitespace_newline (h := rfl) (h1 := by simp [BZone.openTok]) (h2 := by simp [BZone.openTok])]
  step_simp []
  rw [preIndentComments_stop (h1 := by simp [BZone.openTok]) (h2 := by simp [BZone.openTok])]
  step_simp [BZone.openTok, h7, h8, decide_false, decide_true, Option.isNone_none]
  rw [parseLiteralZone_content (m := z.marker) (tg := z.tag) (ho := rfl) (hv := rfl) (hl := rfl) (hc := rfl)]
  step_simp [BZone.nlTok, BZone.litTok, BZone.closeTok, BZone.node, pyStrVal_str]

/-- `parse_section` on a token that starts neither a section marker nor a key: `None`, nothing consumed. -/
theorem parseSection_none (fuel : Nat) (t : Token) (r : List Token) (p : Option Token) (n : Nat) (la : Token) (w : List Warning)
    (d : Nat) (wd : List Nat) (s : Bool) (th : Nat) (al : Char → Bool) (h1 : t.type ≠ TT.section) (h2 : t.type ≠ TT.identifier) :
    parseSection (fuel + 1) [] { rest := t :: r, prev := p, pos := n, last := la, warnings := w, depth := d, warned := wd, strict := s, threshold := th, alpha := al }
      = .ok (none, { rest := t :: r, prev := p, pos := n, last := la, warnings := w, depth := d, warned := wd, strict := s, threshold := th, alpha := al }) := by
  rw [parseSection]
  step_simp [h1, h2]

/-- one iteration of the body loop of `parse_document` on a token that is no key, no section marker, no INDENT / NEWLINE /
COMMENT and not the end: the token is SKIPPED. -/
theorem docLoop_skip (vf fuel : Nat) (t u : Token) (r : List Token) (secs : List Node) (kp : KeyPos)
    (p : Option Token) (n : Nat) (la : Token) (w : List Warning) (d : Nat) (wd : List Nat) (s : Bool) (th : Nat) (al : Char → Bool)
    (h1 : t.type ≠ TT.section) (h2 : t.type ≠ TT.identifier) (h3 : t.type ≠ TT.envelopeEnd) (h4 : t.type ≠ TT.eof)
    (h5 : t.type ≠ TT.indent) (h6 : t.type ≠ TT.comment) (h7 : t.type ≠ TT.newline) :
    docLoop (vf + 1) (fuel + 1) [] secs kp { rest := t :: u :: r, prev := p, pos := n, last := la, warnings := w, depth := d, warned := wd, strict := s, threshold := th, alpha := al }
      = docLoop (vf + 1) fuel [] secs kp { rest := u :: r, prev := some t, pos := n + 1, last := la, warnings := w, depth := d, warned := wd, strict := s, threshold := th, alpha := al } := by
  rw [docLoop]
  step_simp [h3, h4, h5, h6, h7]
  rw [parseSection_none (h1 := h1) (h2 := h2)]
  step_simp [h3, h4]
  have hb : (t.type == TT.envelopeEnd || t.type == TT.eof) = false := by simp [h3, h4]
  rw [if_pos hb]
  step_simp []

theorem docLoop_newline (vf fuel : Nat) (t u : Token) (r : List Token) (secs : List Node) (kp : KeyPos)
    (p : Option Token) (n : Nat) (la : Token) (w : List Warning) (d : Nat) (wd : List Nat) (s : Bool) (th : Nat) (al : Char → Bool)
    (h : t.type = TT.newline) :
    docLoop vf (fuel + 1) [] secs kp { rest := t :: u :: r, prev := p, pos := n, last := la, warnings := w, depth := d, warned := wd, strict := s, threshold := th, alpha := al }
      = docLoop vf fuel [] secs kp { rest := u :: r, prev := some t, pos := n + 1, last := la, warnings := w, depth := d, warned := wd, strict := s, threshold := th, alpha := al } := by
  rw [docLoop]
  step_simp [h]

/-- **a bare zone directly under the envelope is DROPPED, for every instance**: the body loop of `parse_document` has no
fence branch — on FENCE_OPEN, LITERAL_CONTENT and FENCE_CLOSE `parse_section` returns `None` and the loop skips ONE token
each time, then the NEWLINE: four iterations later the loop stands behind the zone with the SAME sections, no warning, no
error (any marker, tag, content, positions; `u :: k` is what follows). -/
theorem docLoop_bare_dropped (vf fuel : Nat) (z : BZone) (u : Token) (k : List Token) (secs : List Node) (kp : KeyPos)
    (p : Option Token) (n : Nat) (la : Token) (w : List Warning) (d : Nat) (wd : List Nat) (s : Bool) (th : Nat) (al : Char → Bool) :
    docLoop (vf + 1) (fuel + 4) [] secs kp { rest := z.toks ++ u :: k, prev := p, pos := n, last := la, warnings := w, depth := d, warned := wd, strict := s, threshold := th, alpha := al }
      = docLoop (vf + 1) fuel [] secs kp { rest := u :: k, prev := some z.nlTok, pos := n + 1 + 1 + 1 + 1, last := la, warnings := w, depth := d, warned := wd, strict := s, threshold := th, alpha := al } := by
  simp only [BZone.toks, List.cons_append, List.nil_append]
  rw [docLoop_skip (fuel := fuel + 3) (t := z.openTok) (h1 := by simp [BZone.openTok]) (h2 := by simp [BZone.openTok])
    (h3 := by simp [BZone.openTok]) (h4 := by simp [BZone.openTok]) (h5 := by simp [BZone.openTok]) (h6 := by simp [BZone.openTok])
    (h7 := by simp [BZone.openTok])]
  rw [docLoop_skip (fuel := fuel + 2) (t := z.litTok) (h1 := by simp [BZone.litTok]) (h2 := by simp [BZone.litTok])
    (h3 := by simp [BZone.litTok]) (h4 := by simp [BZone.litTok]) (h5 := by simp [BZone.litTok]) (h6 := by simp [BZone.litTok])
    (h7 := by simp [BZone.litTok])]
  rw [docLoop_skip (fuel := fuel + 1) (t := z.closeTok) (h1 := by simp [BZone.closeTok]) (h2 := by simp [BZone.closeTok])
    (h3 := by simp [BZone.closeTok]) (h4 := by simp [BZone.closeTok]) (h5 := by simp [BZone.closeTok]) (h6 := by simp [BZone.closeTok])
    (h7 := by simp [BZone.closeTok])]
  rw [docLoop_newline (fuel := fuel) (t := z.nlTok) (h := rfl)]

end Octave.BareZoneParse
