import Octave.Model.Lexer
/-! One pattern-branch step of the lexer main loop. -/
namespace Octave
open Lexer

/-- One pattern-branch step: the token carries the step's line/column and `normFrom`, and the repairs list
grows by exactly one normalization record (original, replacement, line, column) when `normFrom` is set and by
nothing otherwise.  Holds for every state and input on which the branch is taken. -/
theorem pattern_step (env : Env) (lenient : Bool) (st : LState) (c : Char) (r : Str) (m : Match)
    (hspan : atSpanStart st = false) (hc : c ≠ ' ')
    (hm : matchPattern env st.blank st.prev (c :: r) = .ok (some m))
    (hopen : m.type ≠ .listEnd) (hnl : m.type ≠ .listStart) :
    ∃ st', step env lenient st (c :: r) = .ok (st', m.rest)
      ∧ st'.toks = { type := m.type, value := m.value, line := st.line, col := st.col, normFrom := m.normFrom, raw := m.raw } :: st.toks
      ∧ st'.repairs = (match m.normFrom with
          | some o => Repair.normalization o m.value st.line st.col :: st.repairs
          | none => st.repairs) := by
  have hc' : (c == ' ') = false := by simpa using hc
  refine ⟨{ st with
      pos := st.pos + m.text.length, prev := m.text.getLast?.orElse (fun _ => st.prev),
      line := (advancePos st.line st.col m.text).1, col := (advancePos st.line st.col m.text).2,
      toks := { type := m.type, value := m.value, line := st.line, col := st.col, normFrom := m.normFrom, raw := m.raw } :: st.toks,
      repairs := (match m.normFrom with
          | some o => Repair.normalization o m.value st.line st.col :: st.repairs
          | none => st.repairs),
      stack := st.stack, blank := st.blank && m.type == .newline }, ?_, rfl, rfl⟩
  unfold step
  simp only [hspan, hc', hm, Bool.false_eq_true, if_false, bind, Except.bind]
  rfl

end Octave
