import Octave.Lemmas.MwNumLex
import Octave.Lemmas.CommentLex
/-!
BOOLEAN-, NULL- and VERSION-HEADED MULTI-WORD VALUES (`K::true mice`, `K::null words`, `K::1.2.3 words`) as values of a flat
document — lexer half.  Extends `MwNumLex` (whose class it contains; a port with a wider head type).

The head of a multi-word value (`BHead`) is an identifier-shaped word (`.word`), an INTEGER lexeme (`.int`), a QUOTED
STRING (`.str`) — the three heads of `MwNumLex` — or, new here,
  * `.bool b`        the literal `true` / `false`,
  * `.null`          the literal `null`,
  * `.ver d1 d2 d3`  a three-part VERSION lexeme `d1.d2.d3` (each part a non-empty run of ASCII digits, leading zeros
                     allowed).
It is followed by `n ≥ 1` identifier-shaped words, each preceded by `gap + 1` spaces.

* `step_bool_sp`, `step_null_sp`    the literal right after `::`, followed by a SPACE then anything: ONE BOOLEAN / NULL token;
* `version3_sp`, `matchPattern_version_sp`, `step_version_sp`   `d1.d2.d3` followed by a space: ONE VERSION token whose
                                    value is the lexeme;
* `mwb_run_words`   the value after `::`: ONE token for the head and one IDENTIFIER token per further word;
* `mwb_run_line`, `mwb_run_lines`, `mwb_run_doc`, `tokenize_mwbdoc`   the whole document, both lexer modes.
-/
namespace Octave.MWB
open Octave Lexer Scan Emitter Spell Expr MW MWN

/-! ### the new lexer steps -/

/-- **`true` / `false` right after `::` and before a SPACE (then anything)**: one BOOLEAN token. -/
theorem step_bool_sp (env : Env) (lenient : Bool) (st : LState) (b : Bool) (rest : Str) (hr : Ready st)
    (hp : st.prev = some ':') :
    ∃ st', step env lenient st ((if b then "true".toList else "false".toList) ++ ' ' :: rest) = .ok (st', ' ' :: rest) ∧
      Adv st st' [tBool b st.line st.col] [] 0 (st.col + (if b then 4 else 5)) (some 'e') :=
  step_bool_term env lenient st b ' ' rest hr hp (word_sp env)

/-- **`null` right after `::` and before a SPACE (then anything)**: one NULL token. -/
theorem step_null_sp (env : Env) (lenient : Bool) (st : LState) (rest : Str) (hr : Ready st) (hp : st.prev = some ':') :
    ∃ st', step env lenient st ("null".toList ++ ' ' :: rest) = .ok (st', ' ' :: rest) ∧
      Adv st st' [tNull st.line st.col] [] 0 (st.col + 4) (some 'l') :=
  step_null_term env lenient st ' ' rest hr hp (word_sp env)

/-- the text of a three-part version. -/
def verText (d1 d2 d3 : Str) : Str := d1 ++ '.' :: (d2 ++ '.' :: d3)

def tVersion (v : Str) (l c : Nat) : Token := { type := .version, value := .str v, line := l, col := c }
def mVersion (v rest : Str) : Match := { type := .version, value := .str v, text := v, rest := rest }

theorem isDigit_space (env : Env) : env.isDigit ' ' = false := isDigit_ascii_false env ' ' (by decide) (by decide)

/-- VERSION pattern 1 on `d1.d2.d3` followed by a space: the whole lexeme, nothing more. -/
theorem version3_sp (env : Env) (d1 d2 d3 rest : Str) (h1 : Digits d1) (h2 : Digits d2) (h3 : Digits d3) :
    version3 env (verText d1 d2 d3 ++ ' ' :: rest) = some (verText d1 d2 d3, ' ' :: rest) := by
  have hshape : verText d1 d2 d3 ++ ' ' :: rest = d1 ++ '.' :: (d2 ++ '.' :: (d3 ++ ' ' :: rest)) := by
    simp [verText, List.append_assoc]
  have htp := twoParts_dot env d1 d2 ('.' :: (d3 ++ ' ' :: rest)) h1.1 (h1.env env) h2.1 (h2.env env) (fun c hc => by
    have : c = '.' := by simpa using hc.symm
    subst this; exact isDigit_dot env)
  have hm := many1_digits env d3 (' ' :: rest) h3.1 (h3.env env) (fun c hc => by
    have : c = ' ' := by simpa using hc.symm
    subst this; exact isDigit_space env)
  have hdd : dotDigitsStar env (' ' :: rest).length (' ' :: rest) = ([], ' ' :: rest) := by
    simp [dotDigitsStar]
  have hpre : opt prerelease (' ' :: rest) = ([], ' ' :: rest) := by
    unfold opt; rw [prerelease_none _ (by simp)]
  have hbu : opt build (' ' :: rest) = ([], ' ' :: rest) := by
    unfold opt; rw [build_none _ (by simp)]
  rw [hshape]
  unfold version3
  simp only [htp, hm, hdd, hpre, hbu]
  simp [verText, List.append_assoc]

theorem verText_head_digit (env : Env) (d1 d2 d3 t : Str) (h1 : Digits d1) :
    ∀ c, (verText d1 d2 d3 ++ t).head? = some c → env.isDigit c = true := by
  obtain ⟨x, r, hx⟩ := List.exists_cons_of_ne_nil h1.1
  intro c hc
  rw [verText, hx] at hc
  simp only [List.cons_append, List.head?_cons, Option.some.injEq] at hc
  subst hc
  exact h1.env env x (by rw [hx]; simp)

/-- `matchPattern` on `d1.d2.d3` followed by a space: a VERSION match whose value is the lexeme. -/
theorem matchPattern_version_sp (env : Env) (prev : Option Char) (d1 d2 d3 rest : Str)
    (h1 : Digits d1) (h2 : Digits d2) (h3 : Digits d3) :
    matchPattern env false prev (verText d1 d2 d3 ++ ' ' :: rest) = .ok (some (mVersion (verText d1 d2 d3) (' ' :: rest))) := by
  have hv := version3_sp env d1 d2 d3 rest h1 h2 h3
  have hd := verText_head_digit env d1 d2 d3 (' ' :: rest) h1
  cases hs : verText d1 d2 d3 ++ ' ' :: rest with
  | nil => simp [verText] at hs
  | cons c r =>
    rw [hs] at hv hd
    unfold matchPattern
    simp only [Bool.false_eq_true, if_false, hd c rfl, if_true]
    unfold matchDigit
    simp only [hv]
    rfl

theorem verText_mem (d1 d2 d3 : Str) (h1 : Digits d1) (h2 : Digits d2) (h3 : Digits d3) :
    ∀ x ∈ verText d1 d2 d3, x = '.' ∨ isDigitA x = true := by
  intro x hx
  simp only [verText, List.mem_append, List.mem_cons] at hx
  rcases hx with h | h | h | h | h
  · exact Or.inr (h1.2 x h)
  · exact Or.inl h
  · exact Or.inr (h2.2 x h)
  · exact Or.inl h
  · exact Or.inr (h3.2 x h)

theorem verText_ne_nil (d1 d2 d3 : Str) : verText d1 d2 d3 ≠ [] := by simp [verText]

theorem verText_not (d1 d2 d3 : Str) (h1 : Digits d1) (h2 : Digits d2) (h3 : Digits d3) (c : Char) (hc1 : c ≠ '.')
    (hc2 : isDigitA c = false) : ∀ x ∈ verText d1 d2 d3, x ≠ c := by
  intro x hx e
  subst e
  rcases verText_mem d1 d2 d3 h1 h2 h3 x hx with h | h
  · exact hc1 h
  · rw [hc2] at h; cases h

/-- **`d1.d2.d3` followed by a SPACE (then anything)**: one VERSION token whose value is the lexeme; no receipt. -/
theorem step_version_sp (env : Env) (lenient : Bool) (st : LState) (d1 d2 d3 rest : Str) (hr : Ready st)
    (h1 : Digits d1) (h2 : Digits d2) (h3 : Digits d3) :
    ∃ st', step env lenient st (verText d1 d2 d3 ++ ' ' :: rest) = .ok (st', ' ' :: rest) ∧
      Adv st st' [tVersion (verText d1 d2 d3) st.line st.col] [] 0 (st.col + (verText d1 d2 d3).length)
        (verText d1 d2 d3).getLast? := by
  have hm := matchPattern_version_sp env st.prev d1 d2 d3 rest h1 h2 h3
  have hnl : ∀ d ∈ verText d1 d2 d3, d ≠ '\n' := verText_not d1 d2 d3 h1 h2 h3 '\n' (by decide) (by decide)
  have hsp : ∀ d ∈ verText d1 d2 d3, d ≠ ' ' := verText_not d1 d2 d3 h1 h2 h3 ' ' (by decide) (by decide)
  generalize hlex : verText d1 d2 d3 = lex at hm hnl hsp
  have hne : lex ≠ [] := by rw [← hlex]; exact verText_ne_nil d1 d2 d3
  obtain ⟨c, t, hct⟩ := List.exists_cons_of_ne_nil hne
  subst hct
  have hc : c ≠ ' ' := hsp c (by simp)
  have hm' : matchPattern env st.blank st.prev (c :: (t ++ ' ' :: rest)) = .ok (some (mVersion (c :: t) (' ' :: rest))) := by
    rw [hr.blank]; exact hm
  have hstep := pattern_step_eq env lenient st c (t ++ ' ' :: rest) (mVersion (c :: t) (' ' :: rest)) hr.noSpan hc hm'
    (by simp [mVersion]) (by simp [mVersion])
  refine ⟨_, hstep, ?_⟩
  have hadv := advancePos_noNl st.line st.col (c :: t) hnl
  obtain ⟨lc, hlc⟩ : ∃ lc, (c :: t).getLast? = some lc := by
    cases h : (c :: t).getLast? with
    | none => exact absurd (List.getLast?_eq_none_iff.mp h) hne
    | some lc => exact ⟨lc, rfl⟩
  refine ⟨⟨hr.spans, by simp [patNext, hr.blank]⟩, rfl, rfl, rfl, ?_, ?_, ?_⟩
  · simp [patNext, mVersion, hadv]
  · simp [patNext, mVersion, hadv]
  · simp only [patNext, mVersion, hlc]; rfl

/-! ### the class -/

/-- the head of a multi-word value. -/
inductive BHead where
  | word (w : Str)
  | int (i : Int)
  | str (s : Str)
  | bool (b : Bool)
  | null
  | ver (d1 d2 d3 : Str)
  deriving Repr, DecidableEq

/-- the head as written. -/
def BHead.text : BHead → Str
  | .word w => w
  | .int i => intStr i
  | .str s => quoted s
  | .bool b => if b then "true".toList else "false".toList
  | .null => "null".toList
  | .ver d1 d2 d3 => verText d1 d2 d3

/-- the string `_token_to_str` gives for the head's token: the word, the RAW number lexeme, `"` + the string's
(unescaped) CONTENT + `"`, the literal `true` / `false` / `null`, the version lexeme. -/
def BHead.part : BHead → Str
  | .word w => w
  | .int i => intStr i
  | .str s => '"' :: s ++ ['"']
  | .bool b => if b then "true".toList else "false".toList
  | .null => "null".toList
  | .ver d1 d2 d3 => verText d1 d2 d3

/-- the head's token. -/
def BHead.tok (h : BHead) (l c : Nat) : Token :=
  match h with
  | .word w => tIdent w l c
  | .int i => tInt i l c
  | .str s => tString s l c
  | .bool b => tBool b l c
  | .null => tNull l c
  | .ver d1 d2 d3 => tVersion (verText d1 d2 d3) l c

/-- lexer notes of the head (identifier notes only). -/
def BHead.reps (h : BHead) (l c : Nat) : List Repair :=
  match h with
  | .word w => identifierRepairs w l c
  | _ => []

/-- a word: `wordOK`; an integer: within Python's digit limit (4300; beyond it the lexer raises E005); a version: three
non-empty runs of ASCII digits. -/
def BHead.OK : BHead → Prop
  | .word w => wordOK w
  | .int i => (natStr i.natAbs).length ≤ 4300
  | .str _ => True
  | .bool _ => True
  | .null => True
  | .ver d1 d2 d3 => Digits d1 ∧ Digits d2 ∧ Digits d3

instance (s : Str) : Decidable (Digits s) := by unfold Digits; infer_instance
instance (h : BHead) : Decidable h.OK := by cases h <;> (unfold BHead.OK; infer_instance)

/-- the `context` field of the receipt: empty for a word head, `number_identifier` for a NUMBER head,
`string_multiword` / `boolean_multiword` / `null_multiword` / `version_multiword` for the others. -/
def BHead.ctx : BHead → Str
  | .word _ => []
  | .int _ => "number_identifier".toList
  | .str _ => "string_multiword".toList
  | .bool _ => "boolean_multiword".toList
  | .null => "null_multiword".toList
  | .ver _ _ _ => "version_multiword".toList

/-- a multi-word value with any of the six kinds of head. -/
structure BWords where
  head : BHead
  tail : List (Nat × Str)
  deriving Repr, DecidableEq

def BWords.spell (m : BWords) : Str := m.head.text ++ mwTailSpell m.tail
/-- the parts as the reader sees them. -/
def BWords.words (m : BWords) : List Str := m.head.part :: m.tail.map Prod.snd
/-- what the reader makes of it: the head's lexeme and the words joined by ONE space each. -/
def BWords.result (m : BWords) : Str := Parser.spaceJoin m.words
def BWords.OK (m : BWords) : Prop := m.head.OK ∧ (∀ p ∈ m.tail, wordOK p.2) ∧ m.tail ≠ []

instance (m : BWords) : Decidable m.OK := by unfold BWords.OK; infer_instance

inductive BVal where
  | sc (v : FScalar)
  | nw (m : BWords)
  deriving Repr, DecidableEq

structure BWLine where
  key : Str
  v : BVal
  deriving Repr, DecidableEq

def BVal.OK : BVal → Prop
  | .sc v => v.OK
  | .nw m => m.OK

def BWLine.OK (ln : BWLine) : Prop := isIdentifierText ln.key = true ∧ hasReservedPrefix ln.key = false ∧ ln.v.OK

def BVal.spell : BVal → Str
  | .sc v => v.text
  | .nw m => m.spell

def BWLine.spell (ln : BWLine) : Str := ln.key ++ (':' :: ':' :: ln.v.spell)

def BVal.toksRev (l c : Nat) : BVal → List Token
  | .sc v => [v.tok l c]
  | .nw m => mwTailToksRev l (c + m.head.text.length) m.tail ++ [m.head.tok l c]

def BVal.repsRev (l c : Nat) : BVal → List Repair
  | .sc v => (v.reps l c).reverse
  | .nw m => mwTailRepsRev l (c + m.head.text.length) m.tail ++ (m.head.reps l c).reverse

def BWLine.toksRev (ln : BWLine) (l c : Nat) : List Token :=
  tNewline l (c + ln.key.length + 2 + ln.v.spell.length) ::
    (ln.v.toksRev l (c + ln.key.length + 2) ++ [tAssign l (c + ln.key.length), tIdent ln.key l c])

def BWLine.repsRev (ln : BWLine) (l c : Nat) : List Repair :=
  ln.v.repsRev l (c + ln.key.length + 2) ++ (identifierRepairs ln.key l c).reverse

theorem mwb_numTerm_tail (env : Env) (tail : List (Nat × Str)) (rest : Str) :
    NumTerm env (mwTailSpell tail ++ '\n' :: rest) := by
  cases tail with
  | nil => exact (floatTerm_nl env rest).num
  | cons q r =>
    obtain ⟨g, w⟩ := q
    simp only [mwTailSpell, spaces_succ]
    exact (floatTerm_space env _).num

theorem mwb_head_text_ne_nil (h : BHead) (hok : h.OK) : h.text ≠ [] := by
  cases h with
  | word w => exact wordOK_ne_nil hok
  | int i => exact intStr_ne_nil i
  | str s => simp [BHead.text, quoted]
  | bool b => cases b <;> simp [BHead.text]
  | null => simp [BHead.text]
  | ver d1 d2 d3 => exact verText_ne_nil d1 d2 d3

theorem mwb_tail_head_ne_quote (tail : List (Nat × Str)) (rest : Str) :
    (mwTailSpell tail ++ '\n' :: rest).head? ≠ some '"' := by
  cases tail with
  | nil => simp [mwTailSpell]
  | cons q r =>
    obtain ⟨g, w⟩ := q
    simp [mwTailSpell, spaces_succ]

theorem mwb_tail_sp (tail : List (Nat × Str)) (rest : Str) (hne : tail ≠ []) :
    ∃ r, mwTailSpell tail ++ '\n' :: rest = ' ' :: r := by
  cases tail with
  | nil => exact absurd rfl hne
  | cons q r =>
    obtain ⟨g, w⟩ := q
    exact ⟨spaces g ++ (w ++ mwTailSpell r) ++ '\n' :: rest, by simp only [mwTailSpell, spaces_succ, List.cons_append]⟩

/-- the head: one step, one token (`prev = ':'` is what `\btrue\b` / `\bnull\b` look at). -/
theorem mwb_step_head (env : Env) (lenient : Bool) (st : LState) (h : BHead) (tail : List (Nat × Str)) (rest : Str)
    (hr : Ready st) (hp : st.prev = some ':') (hok : h.OK) (htl : tail ≠ []) :
    ∃ st' p, step env lenient st (h.text ++ (mwTailSpell tail ++ '\n' :: rest)) = .ok (st', mwTailSpell tail ++ '\n' :: rest) ∧
      Adv st st' [h.tok st.line st.col] (h.reps st.line st.col).reverse 0 (st.col + h.text.length) p := by
  cases h with
  | word w =>
    obtain ⟨s1, e1, a1⟩ := step_ident env lenient st w _ hr hok.1 hok.2 (mwTermOK_tail env tail rest)
    exact ⟨s1, _, e1, a1⟩
  | int i =>
    obtain ⟨s1, e1, a1⟩ := step_int env lenient st i _ hr (mwb_numTerm_tail env tail rest) hok
    exact ⟨s1, _, e1, a1⟩
  | str s =>
    obtain ⟨s1, e1, a1⟩ := step_quoted env lenient st s _ hr (mwb_tail_head_ne_quote tail rest)
    exact ⟨s1, _, e1, a1⟩
  | bool b =>
    obtain ⟨r, hr'⟩ := mwb_tail_sp tail rest htl
    rw [hr']
    obtain ⟨s1, e1, a1⟩ := step_bool_sp env lenient st b r hr hp
    refine ⟨s1, some 'e', e1, ?_⟩
    cases b <;> exact a1
  | null =>
    obtain ⟨r, hr'⟩ := mwb_tail_sp tail rest htl
    rw [hr']
    obtain ⟨s1, e1, a1⟩ := step_null_sp env lenient st r hr hp
    exact ⟨s1, _, e1, a1⟩
  | ver d1 d2 d3 =>
    obtain ⟨r, hr'⟩ := mwb_tail_sp tail rest htl
    rw [hr']
    obtain ⟨s1, e1, a1⟩ := step_version_sp env lenient st d1 d2 d3 r hr hok.1 hok.2.1 hok.2.2
    exact ⟨s1, _, e1, a1⟩

/-- **one multi-word value** after `::`, before the line end. -/
theorem mwb_run_words (env : Env) (lenient : Bool) (st : LState) (m : BWords) (rest : Str)
    (hr : Ready st) (hp : st.prev = some ':') (hc : 2 ≤ st.col) (hok : m.OK) :
    ∃ n st' p, Run env lenient n st (m.spell ++ '\n' :: rest) st' ('\n' :: rest) ∧
      Adv st st' ((BVal.nw m).toksRev st.line st.col) ((BVal.nw m).repsRev st.line st.col) 0
        (st.col + m.spell.length) p := by
  obtain ⟨hh, ht, hne⟩ := hok
  let R1 := mwTailSpell m.tail ++ '\n' :: rest
  obtain ⟨s1, p1, e1, a1⟩ := mwb_step_head env lenient st m.head m.tail rest hr hp hh hne
  have c1 : s1.col = st.col + m.head.text.length := a1.col
  have l1 : s1.line = st.line := by rw [a1.line]; rfl
  obtain ⟨n2, s2, p2, r2, a2⟩ := mw_run_tail env lenient m.tail s1 rest a1.ready (by rw [c1]; omega) ht
  have hne1 : m.head.text ++ R1 ≠ [] := by simp [mwb_head_text_ne_nil m.head hh]
  have run := Run.trans (Run.step1 e1 hne1) r2
  have hshape : m.spell ++ '\n' :: rest = m.head.text ++ R1 := by simp [BWords.spell, R1, List.append_assoc]
  refine ⟨_, s2, p2, by rw [hshape]; exact run, ?_⟩
  refine ⟨a2.ready, ?_, ?_, ?_, ?_, ?_, a2.prev⟩
  · rw [a2.toks, a1.toks, l1, c1]; simp [BVal.toksRev]
  · rw [a2.repairs, a1.repairs, l1, c1]; simp [BVal.repsRev]
  · rw [a2.stack, a1.stack]
  · rw [a2.line, l1]
  · rw [a2.col, c1]; simp [BWords.spell]; omega

/-- **one line** `KEY::value` with its line end. -/
theorem mwb_run_line (env : Env) (lenient : Bool) (st : LState) (ln : BWLine) (rest : Str)
    (hr : Ready st) (hok : ln.OK) :
    ∃ n st', Run env lenient n st (ln.spell ++ '\n' :: rest) st' rest ∧
      Adv st st' (ln.toksRev st.line st.col) (ln.repsRev st.line st.col) 1 1 (some '\n') := by
  obtain ⟨key, v⟩ := ln
  obtain ⟨hk1, hk2, hv⟩ := hok
  cases v with
  | sc v =>
    obtain ⟨s4, r4, a4⟩ := run_line env lenient st ⟨key, v⟩ rest hr ⟨hk1, hk2, hv⟩
    exact ⟨4, s4, r4, a4⟩
  | nw m =>
    let R3 := m.spell ++ '\n' :: rest
    obtain ⟨s1, e1, a1⟩ := step_ident env lenient st key (':' :: ':' :: R3) hr hk1 hk2 (termOK_colon env _)
    obtain ⟨s2, e2, a2⟩ := step_assign env lenient s1 R3 a1.ready
    have l1 : s1.line = st.line := by rw [a1.line]; rfl
    have l2 : s2.line = st.line := by rw [a2.line, l1]; rfl
    have c1 : s1.col = st.col + key.length := a1.col
    have c2 : s2.col = st.col + key.length + 2 := by rw [a2.col, c1]
    obtain ⟨n3, s3, p3, r3, a3⟩ := mwb_run_words env lenient s2 m rest a2.ready a2.prev (by rw [c2]; omega) hv
    obtain ⟨s4, e4, a4⟩ := step_newline env lenient s3 rest a3.ready
    have l3 : s3.line = st.line := by rw [a3.line, l2]; rfl
    have c3 : s3.col = st.col + key.length + 2 + m.spell.length := by rw [a3.col, c2]
    have hne : key ≠ [] := by intro h; rw [h] at hk1; simp [isIdentifierText] at hk1
    have run := Run.trans (Run.trans (Run.trans (Run.step1 e1 (by simp [hne])) (Run.one e2)) r3) (Run.one e4)
    have hshape : (BWLine.mk key (.nw m)).spell ++ '\n' :: rest = key ++ (':' :: ':' :: R3) := by
      simp [BWLine.spell, BVal.spell, R3]
    refine ⟨_, s4, by rw [hshape]; exact run, ?_⟩
    refine ⟨a4.ready, ?_, ?_, ?_, ?_, a4.col, a4.prev⟩
    · rw [a4.toks, a3.toks, a2.toks, a1.toks, l3, c3, l2, c2, l1, c1]; simp [BWLine.toksRev, BVal.spell]
    · rw [a4.repairs, a3.repairs, a2.repairs, a1.repairs, l2, c2]; simp [BWLine.repsRev]
    · rw [a4.stack, a3.stack, a2.stack, a1.stack]
    · rw [a4.line, l3]

/-! ### all lines, the whole document -/

def mwbLinesText : List BWLine → Str
  | [] => []
  | x :: r => x.spell ++ '\n' :: mwbLinesText r

def mwbLinesToksRev (l : Nat) : List BWLine → List Token
  | [] => []
  | x :: r => mwbLinesToksRev (l + 1) r ++ x.toksRev l 1

def mwbLinesRepsRev (l : Nat) : List BWLine → List Repair
  | [] => []
  | x :: r => mwbLinesRepsRev (l + 1) r ++ x.repsRev l 1

theorem mwb_run_lines (env : Env) (lenient : Bool) (sl : List BWLine) :
    ∀ (st : LState) (rest : Str), Ready st → st.col = 1 → (∀ x ∈ sl, x.OK) →
    ∃ n st', Run env lenient n st (mwbLinesText sl ++ rest) st' rest ∧
      AdvL st st' (mwbLinesToksRev st.line sl) (mwbLinesRepsRev st.line sl) sl.length := by
  induction sl with
  | nil =>
    intro st rest hr hc _
    exact ⟨0, st, Run.refl _ _, ⟨hr, rfl, rfl, rfl, rfl, hc⟩⟩
  | cons x r ih =>
    intro st rest hr hc hok
    obtain ⟨n1, s1, r1, a1⟩ := mwb_run_line env lenient st x (mwbLinesText r ++ rest) hr (hok x (by simp))
    obtain ⟨n2, s2, r2, a2⟩ := ih s1 rest a1.ready a1.col (fun y hy => hok y (by simp [hy]))
    refine ⟨n1 + n2, s2, ?_, ?_⟩
    · have := Run.trans r1 r2
      simpa [mwbLinesText, List.append_assoc] using this
    · have hl : s1.line = st.line + 1 := a1.line
      rw [hl] at a2
      rw [hc] at a1
      refine ⟨a2.ready, ?_, ?_, ?_, ?_, a2.col⟩
      · rw [a2.toks, a1.toks]; simp [mwbLinesToksRev, List.append_assoc]
      · rw [a2.repairs, a1.repairs]; simp [mwbLinesRepsRev, List.append_assoc]
      · rw [a2.stack, a1.stack]
      · rw [a2.line, hl]; simp; omega

/-- **the text of the document as written**: envelope line, the lines, `===END===`. -/
def mwbdocText (name : Str) (sl : List BWLine) : Str :=
  "===".toList ++ name ++ "===".toList ++ '\n' :: (mwbLinesText sl ++ ("===END===".toList ++ ['\n']))

def mwbdocToksRev (name : Str) (sl : List BWLine) : List Token :=
  [tEof (sl.length + 3) 1, tNewline (sl.length + 2) 10, tEnvEnd (sl.length + 2) 1] ++ mwbLinesToksRev 2 sl ++
    [tNewline 1 (1 + (name.length + 6)), tEnvStart name 1 1]

/-- **the tokens of the document**, in reading order. -/
def mwbdocToks (name : Str) (sl : List BWLine) : List Token := (mwbdocToksRev name sl).reverse

/-- its lexer repair log, in order (identifier notes only). -/
def mwbdocReps (sl : List BWLine) : List Repair := (mwbLinesRepsRev 2 sl).reverse

theorem mwb_run_doc (env : Env) (lenient : Bool) (name : Str) (sl : List BWLine)
    (hn : isEnvName name = true) (hne : name ≠ "END".toList) (hok : ∀ x ∈ sl, x.OK) :
    ∃ n st', Run env lenient n ({ spans := [] } : LState) (mwbdocText name sl) st' [] ∧
      (tEof st'.line st'.col :: st'.toks).reverse = mwbdocToks name sl ∧ st'.repairs.reverse = mwbdocReps sl ∧ st'.stack = [] := by
  let st0 : LState := { spans := [] }
  let T2 := mwbLinesText sl ++ ("===END===".toList ++ ['\n'])
  obtain ⟨s1, e1, a1⟩ := step_envStart env lenient st0 name ('\n' :: T2) rfl hn hne
  obtain ⟨s2, e2, a2⟩ := step_newline env lenient s1 T2 a1.ready
  obtain ⟨n3, s3, r3, a3⟩ := mwb_run_lines env lenient sl s2 ("===END===".toList ++ ['\n']) a2.ready a2.col hok
  obtain ⟨s4, e4, a4⟩ := step_envEnd env lenient s3 ['\n'] a3.ready
  obtain ⟨s5, e5, a5⟩ := step_newline env lenient s4 [] a4.ready
  have e4' : step env lenient s3 ('=' :: ("==END===".toList ++ ['\n'])) = .ok (s4, ['\n']) := e4
  have hne1 : "===".toList ++ name ++ "===".toList ++ '\n' :: T2 ≠ [] := by simp
  have run := Run.trans (Run.trans (Run.step1 e1 hne1) (Run.one e2)) (Run.trans r3 (Run.cons e4' (Run.one e5)))
  have l1 : s1.line = 1 := by rw [a1.line]
  have l2 : s2.line = 2 := by rw [a2.line, l1]
  have l3 : s3.line = sl.length + 2 := by rw [a3.line, l2]; omega
  have l4 : s4.line = sl.length + 2 := by rw [a4.line, l3]
  have l5 : s5.line = sl.length + 3 := by rw [a5.line, l4]
  have c1 : s1.col = 1 + (name.length + 6) := a1.col
  have c3 : s3.col = 1 := a3.col
  have c4 : s4.col = 10 := by rw [a4.col, c3]
  refine ⟨_, s5, run, ?_, ?_, ?_⟩
  · rw [a5.toks, a4.toks, a3.toks, a2.toks, a1.toks, l5, a5.col, l1, l2, l3, l4, c1, c3, c4]
    simp [mwbdocToks, mwbdocToksRev, st0]
  · rw [a5.repairs, a4.repairs, a3.repairs, a2.repairs, a1.repairs, l2]
    simp [mwbdocReps, st0]
  · rw [a5.stack, a4.stack, a3.stack, a2.stack, a1.stack]

/-! ### `normalize` and the tab check: every line is fence-free and tab-free -/

theorem mwb_head_clean (h : BHead) (hok : h.OK) : Clean h.text := by
  cases h with
  | word w => exact identText_clean w hok.1
  | int i => exact intStr_clean i
  | str s => exact quoted_clean s
  | bool b => cases b <;> exact clean_lit _ (by decide)
  | null => exact clean_lit _ (by decide)
  | ver d1 d2 d3 =>
    intro d hd
    exact ⟨verText_not d1 d2 d3 hok.1 hok.2.1 hok.2.2 '\n' (by decide) (by decide) d hd,
      verText_not d1 d2 d3 hok.1 hok.2.1 hok.2.2 '\t' (by decide) (by decide) d hd⟩

theorem mwbspell_clean (ln : BWLine) (h : ln.OK) : Clean ln.spell := by
  obtain ⟨key, v⟩ := ln
  obtain ⟨hk1, _, hv⟩ := h
  have hval : Clean v.spell := by
    cases v with
    | sc v => exact scalar_clean v hv
    | nw m => exact Clean.append (mwb_head_clean m.head hv.1) (mwTailSpell_clean m.tail hv.2.1)
  have h2 : Clean (':' :: ':' :: v.spell) := by
    have := Clean.append (clean_lit "::".toList (by decide)) hval
    simpa using this
  exact Clean.append (identText_clean key hk1) h2

theorem mwbspell_fine (ln : BWLine) (h : ln.OK) : LineFine ln.spell := by
  refine ⟨fenceLine_none_of_head _ ?_, fun d hd => (mwbspell_clean ln h d hd).2⟩
  intro c hc
  apply identText_head ln.key h.1 c
  have hne : ln.key ≠ [] := by
    intro e; have := h.1; rw [e] at this; simp [isIdentifierText] at this
  obtain ⟨k, t, hk⟩ := List.exists_cons_of_ne_nil hne
  simp only [BWLine.spell, hk, List.cons_append, List.head?_cons] at hc ⊢
  exact hc

theorem mwblines_fine (sl : List BWLine) (rest : Str) (hok : ∀ x ∈ sl, x.OK) (hr : AllLines LineFine rest) :
    AllLines LineFine (mwbLinesText sl ++ rest) := by
  induction sl with
  | nil => exact hr
  | cons x r ih =>
    have := allLines_cons LineFine x.spell (mwbLinesText r ++ rest) (mwbspell_clean x (hok x (by simp)))
      (mwbspell_fine x (hok x (by simp))) (ih (fun y hy => hok y (by simp [hy])))
    simpa [mwbLinesText, List.append_assoc] using this

theorem mwbdoc_fine (name : Str) (sl : List BWLine) (hn : isEnvName name = true) (hok : ∀ x ∈ sl, x.OK) :
    AllLines LineFine (mwbdocText name sl) := by
  have hend : AllLines LineFine ("===END===".toList ++ ['\n']) :=
    allLines_cons LineFine "===END===".toList [] (clean_lit _ (by decide)) ⟨by decide, by decide⟩
      (allLines_nil LineFine ⟨by decide, by decide⟩)
  have henv : LineFine ("===".toList ++ name ++ "===".toList) := by
    have := envLine_fine name 0 hn
    simpa [spaces] using this
  exact allLines_cons LineFine _ _ (envLine_clean name hn) henv (mwblines_fine sl _ hok hend)

/-- **The lexer on a flat document whose values are scalars or multi-word values with a word, INTEGER, STRING, BOOLEAN,
NULL or three-part VERSION head** (both lexer modes, every environment whose NFC leaves the lines alone): `tokenize`
succeeds with exactly `mwbdocToks` — one token for the head (a NUMBER token carrying its raw lexeme when the head is an
integer, a STRING token holding the unescaped content when it is a quoted string, a BOOLEAN / NULL token for `true` /
`false` / `null`, a VERSION token whose value is the lexeme for `d1.d2.d3`), one IDENTIFIER token per further
word at the word's own column — and `mwbdocReps`. -/
theorem tokenize_mwbdoc (env : Env) (lenient : Bool) (name : Str) (sl : List BWLine)
    (hn : isEnvName name = true) (hne : name ≠ "END".toList) (hok : ∀ x ∈ sl, x.OK)
    (hnfc : ∀ l ∈ splitLines (mwbdocText name sl), env.nfc l = l) :
    tokenize env (mwbdocText name sl) lenient = .ok (mwbdocToks name sl, mwbdocReps sl) :=
  tokenize_of_run env lenient _ _ _ (mwbdoc_fine name sl hn hok) hnfc (mwb_run_doc env lenient name sl hn hne hok)

end Octave.MWB
