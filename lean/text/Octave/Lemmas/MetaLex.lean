import Octave.Lemmas.BlockLex
/-!
The lexer and the emitter on documents with a META block — lexer+emitter half of the document-level round trip (C01 / C02)
for the content C02 calls "META fields".

Content model: `fields : List FLine` (the META fields `KEY::scalar`, `FLine` / `FScalar` of `FlatLex`) and a body forest
`nodes : List TNode` (lines and nested blocks, `BlockLex`).  Canonical text (`metaDocText`):

    ===NAME===
    META:
      KEY::scalar            one line per field, two spaces
    <body at depth 0>
    ===END===

It IS the canonical text of the tree document whose first node is the block `META` with the fields as children
(`metaDocText_eq_tree`), so the lexer part is an instance of `tokenize_tree`:

* `tokenize_metaDoc`    the lexer yields exactly `metaDocToks` (positions included): `META:` is lexed like a block header
                        (IDENTIFIER(META) BLOCK NEWLINE), every field as INDENT(2) IDENTIFIER ASSIGN value NEWLINE; no receipt but
                        the identifier notes (`metaDocReps`); `metaDocToks_tv` / `metaDocToks_plain`: the shape without positions,
                        no token normalised;
* `emit_metaDoc` / `emit_metaDoc_matches`   the emitter (`emit` → `emit_meta`) writes exactly `metaDocText` for
                        `metaKv = metaKvOf fields` and any AST that carries the forest — when `fields ≠ []`:
* `emit_metaDoc_empty`  an EMPTY `meta` is not emitted at all (then `emit_tree_matches` is the theorem).

Hypotheses: the lexer's own conditions on keys and bare words (`FLine.OK`, `treeOK`), `isEnvName`, `name ≠ END`, NFC-stable
lines (`hnfc`); for the emitter `FLine.MetaEmitOK` (the value is spelled the way `emit_value` spells it; weaker than the
body's `FLine.EmitOK`: `emit_meta` does not force quotes under `PATTERN`/`REGEX`), `treeEmitOK` for the body.
Scope: scalar META values (`MetaVal.val` of a scalar); the one nested dict level and list values are out of scope.
-/
namespace Octave
open Lexer Scan Emitter

/-! ### content, text, tokens -/

/-- the META block as a tree node: the block `META` whose children are the field lines. -/
def metaNode (fields : List FLine) : TNode := .block "META".toList (fields.map TNode.line)

/-- the field lines of the META block: two spaces, `KEY::value`, line end. -/
def metaLinesText : List FLine → Str
  | [] => []
  | ln :: ls => indentStr 1 ++ (ln.text ++ '\n' :: metaLinesText ls)

/-- canonical text of a document with a META block: envelope line, `META:`, the fields at two spaces, the body at depth 0,
`===END===`. -/
def metaDocText (name : Str) (fields : List FLine) (nodes : List TNode) : Str :=
  "===".toList ++ name ++ "===".toList ++ '\n' ::
    ("META:".toList ++ '\n' :: (metaLinesText fields ++ (treeText 0 nodes ++ ("===END===".toList ++ ['\n']))))

theorem treeText_fields (fields : List FLine) : treeText 1 (fields.map TNode.line) = metaLinesText fields := by
  induction fields with
  | nil => rfl
  | cons ln ls ih => simp [treeText, TNode.text, metaLinesText, ih]

/-- the text is the text of the tree document whose first node is the block `META`. -/
theorem metaDocText_eq_tree (name : Str) (fields : List FLine) (nodes : List TNode) :
    metaDocText name fields nodes = treeDocText name (metaNode fields :: nodes) := by
  simp [metaDocText, treeDocText, metaNode, treeText, TNode.text, treeText_fields, indentStr]

theorem treeNLines_fields (fields : List FLine) : treeNLines (fields.map TNode.line) = fields.length := by
  induction fields with
  | nil => rfl
  | cons ln ls ih => simp [treeNLines, TNode.nlines, ih]; omega

theorem metaNode_nlines (fields : List FLine) : (metaNode fields).nlines = 1 + fields.length := by
  simp [metaNode, TNode.nlines, treeNLines_fields]

/-- tokens of the field lines (first one at text line `l`), in reading order: `INDENT(2) IDENTIFIER ASSIGN value NEWLINE`. -/
def fieldToks (l : Nat) : List FLine → List Token
  | [] => []
  | ln :: ls => ln.toksAt 1 l ++ fieldToks (l + 1) ls

theorem treeToks_fields (fields : List FLine) (l : Nat) : treeToks 1 l (fields.map TNode.line) = fieldToks l fields := by
  induction fields generalizing l with
  | nil => rfl
  | cons ln ls ih => simp [treeToks, TNode.toks, TNode.nlines, fieldToks, ih]

/-- number of text lines between the envelope line and `===END===`. -/
def metaBodyLines (fields : List FLine) (nodes : List TNode) : Nat := 1 + fields.length + treeNLines nodes

/-- the tokens of the document in reading order, EOF included: `META` at line 2, the fields from line 3, the body from line
`3 + fields.length`. -/
def metaDocToks (name : Str) (fields : List FLine) (nodes : List TNode) : List Token :=
  tEnvStart name 1 1 :: tNewline 1 (1 + (name.length + 6)) ::
    tIdent "META".toList 2 1 :: tBlock 2 5 :: tNewline 2 6 ::
      (fieldToks 3 fields ++ (treeToks 0 (3 + fields.length) nodes ++
        [tEnvEnd (metaBodyLines fields nodes + 2) 1, tNewline (metaBodyLines fields nodes + 2) 10,
         tEof (metaBodyLines fields nodes + 3) 1]))

theorem metaDocToks_eq_tree (name : Str) (fields : List FLine) (nodes : List TNode) :
    metaDocToks name fields nodes = treeDocToks name (metaNode fields :: nodes) := by
  rw [treeDocToks_eq]
  have h1 : treeNLines (metaNode fields :: nodes) = metaBodyLines fields nodes := by
    simp [treeNLines, metaNode_nlines, metaBodyLines]
  have h2 : 2 + (1 + fields.length) = 3 + fields.length := by omega
  simp only [h1, metaDocToks, treeToks, metaNode_nlines, h2]
  simp [metaNode, TNode.toks, headerToks, indentToks, treeToks_fields]

/-- the lexer's receipts on the text (identifier notes of keys and bare words only), oldest first. -/
def metaDocReps (fields : List FLine) (nodes : List TNode) : List Repair :=
  (treeRepsRev 0 2 (metaNode fields :: nodes)).reverse

theorem treeOK_fields (fields : List FLine) (h : ∀ ln ∈ fields, ln.OK) : treeOK (fields.map TNode.line) := by
  induction fields with
  | nil => trivial
  | cons ln ls ih =>
    simp only [List.map_cons, treeOK, TNode.OK]
    exact ⟨h ln (by simp), ih (fun l hl => h l (by simp [hl]))⟩

theorem treeOK_meta (fields : List FLine) (nodes : List TNode) (hf : ∀ ln ∈ fields, ln.OK) (hok : treeOK nodes) :
    treeOK (metaNode fields :: nodes) := by
  simp only [treeOK, metaNode, TNode.OK]
  exact ⟨⟨by decide, by decide, treeOK_fields fields hf⟩, hok⟩

/-- **The lexer on the canonical text of a document with a META block** (any name, any fields `KEY::scalar`, any forest of
lines and nested blocks as body, both lexer modes): exactly `metaDocToks` — `META:` is lexed like a block header
(`IDENTIFIER(META) BLOCK NEWLINE`), every field as `INDENT(2) IDENTIFIER ASSIGN value NEWLINE` —, positions included, and no
receipt other than the identifier notes.  (No condition on the number of fields: `META:` alone lexes as well.) -/
theorem tokenize_metaDoc (env : Env) (lenient : Bool) (name : Str) (fields : List FLine) (nodes : List TNode)
    (hn : isEnvName name = true) (hne : name ≠ "END".toList) (hf : ∀ ln ∈ fields, ln.OK) (hok : treeOK nodes)
    (hnfc : ∀ l ∈ splitLines (metaDocText name fields nodes), env.nfc l = l) :
    tokenize env (metaDocText name fields nodes) lenient = .ok (metaDocToks name fields nodes, metaDocReps fields nodes) := by
  rw [metaDocText_eq_tree] at hnfc ⊢
  rw [metaDocToks_eq_tree]
  exact tokenize_tree env lenient name (metaNode fields :: nodes) hn hne (treeOK_meta fields nodes hf hok) hnfc


/-! ### the emitter -/

/-- the fields as entries of `Document.metaKv` (the Python dict `doc.meta`), in order. -/
def metaKvOf (fields : List FLine) : List (Str × MetaVal) := fields.map fun ln => (ln.key, MetaVal.val ln.v.value)

/-- when `emit_meta` spells the value the way `FLine.text` does.  (Stated through the emitter itself, so that it does not
depend on the list of scalar kinds; `metaEmitOK_of_emitOK` and the lemmas after it spell it out.  Unlike `emit_assignment`,
`emit_meta` does not force quotes under `PATTERN` / `REGEX`.) -/
def FLine.MetaEmitOK (ln : FLine) : Prop := emitValue ln.v.value 1 = some ln.v.text

instance (ln : FLine) : Decidable ln.MetaEmitOK := by unfold FLine.MetaEmitOK; infer_instance

theorem metaEmitOK_qstr (key s : Str) (h : needsQuotes s = true) : (FLine.mk key (.qstr s)).MetaEmitOK := by
  simp [FLine.MetaEmitOK, FScalar.value, FScalar.text, emitValue, emitStr, h]

theorem metaEmitOK_bare (key s : Str) (h : needsQuotes s = false) : (FLine.mk key (.bare s)).MetaEmitOK := by
  simp [FLine.MetaEmitOK, FScalar.value, FScalar.text, emitValue, emitStr, h]

/-- every line the body emitter spells canonically is spelled canonically in META too (the converse fails for a bare word
under `PATTERN` / `REGEX`: the body emitter force-quotes it, `emit_meta` does not). -/
theorem metaEmitOK_of_emitOK (ln : FLine) (h : ln.EmitOK) : ln.MetaEmitOK := by
  obtain ⟨key, v⟩ := ln
  cases v with
  | qstr s => exact metaEmitOK_qstr key s h
  | bare s => exact metaEmitOK_bare key s h.1
  | bool b => cases b <;> simp [FLine.MetaEmitOK, FScalar.value, FScalar.text, emitValue]
  | _ => simp [FLine.MetaEmitOK, FScalar.value, FScalar.text, emitValue]

theorem emitMetaLines_val (k : Str) (v : Value) (kvs : List (Str × MetaVal)) (vs : Str) (rest : List Str)
    (hv : emitValue v 1 = some vs) (hr : emitMetaLines kvs = some rest) :
    emitMetaLines ((k, .val v) :: kvs) = some ((indentStr 1 ++ k ++ "::".toList ++ vs) :: rest) := by
  cases v <;> first | (simp [emitValue] at hv; done) | simp only [emitMetaLines, hv, hr]

/-- `emit_meta` on the fields: one line `  KEY::value` per field, in order. -/
theorem emitMetaLines_fields (fields : List FLine) (h : ∀ ln ∈ fields, ln.MetaEmitOK) :
    emitMetaLines (metaKvOf fields) = some (fields.map fun ln => rowText (1, ln.text)) := by
  induction fields with
  | nil => rfl
  | cons ln ls ih =>
    have h1 : emitValue ln.v.value 1 = some ln.v.text := h ln (by simp)
    have h2 := ih (fun l hl => h l (by simp [hl]))
    simp only [metaKvOf, List.map_cons] at h2 ⊢
    rw [emitMetaLines_val ln.key ln.v.value _ _ _ h1 h2]
    simp [rowText, FLine.text]

theorem treeRows_fields (fields : List FLine) : treeRows 1 (fields.map TNode.line) = fields.map fun ln => (1, ln.text) := by
  induction fields with
  | nil => rfl
  | cons ln ls ih => simp [treeRows, TNode.rows, ih]

/-- joining a list whose first element is itself a join. -/
theorem joinWith_join_head (sep : Str) (L R : List Str) (hL : L ≠ []) (hR : R ≠ []) :
    joinWith sep (joinWith sep L :: R) = joinWith sep (L ++ R) := by
  obtain ⟨r, rs, rfl⟩ := List.exists_cons_of_ne_nil hR
  induction L with
  | nil => exact absurd rfl hL
  | cons x xs ih =>
    cases xs with
    | nil => rfl
    | cons y ys =>
      have := ih (by simp)
      simp only [joinWith, List.cons_append, List.append_assoc] at this ⊢
      rw [← this]


/-- **The emitter on a document with a (non-empty) META block** writes exactly `metaDocText`, whatever positions the body
nodes carry.  With NO field the META block is not emitted at all (`if doc.meta:`), and the text is `treeDocText`. -/
theorem emit_metaDoc_matches (env : Env) (name : Str) (fields : List FLine) (nodes : List TNode) (sections : List Node)
    (hne : fields ≠ []) (hm : treeMatches nodes sections) (hfe : ∀ ln ∈ fields, ln.MetaEmitOK) (h : treeEmitOK nodes) :
    emit env { name := name, metaKv := metaKvOf fields, sections := sections } = some (metaDocText name fields nodes) := by
  have ht := emitTop_tree env nodes sections hm h
  have hml := emitMetaLines_fields fields hfe
  have hkv : (metaKvOf fields).isEmpty = false := by
    cases fields with
    | nil => exact absurd rfl hne
    | cons a b => rfl
  have hle : (fields.map fun ln => rowText (1, ln.text)).isEmpty = false := by
    cases fields with
    | nil => exact absurd rfl hne
    | cons a b => rfl
  unfold emit emitBody
  simp only [hml, ht, hkv, hle, leadingLines, List.map_nil, Bool.false_or, Bool.false_eq_true, if_false,
    List.nil_append, List.append_nil, bind, Option.bind, pure, Option.map]
  have hrows : (treeRows 0 (metaNode fields :: nodes)).map rowText
      = ("META:".toList :: fields.map fun ln => rowText (1, ln.text)) ++ (treeRows 0 nodes).map rowText := by
    simp [treeRows, metaNode, TNode.rows, treeRows_fields, rowText, indentStr]
  have hj : joinWith ['\n'] (["===".toList ++ name ++ "===".toList] ++
                [joinWith ['\n'] ("META:".toList :: List.map (fun ln => rowText (1, ln.text)) fields)] ++
              List.map rowText (treeRows 0 nodes) ++ ["===END===".toList])
      = ("===".toList ++ name ++ "===".toList) ++ ['\n'] ++
          (unlines ((treeRows 0 (metaNode fields :: nodes)).map rowText) ++ "===END===".toList) := by
    simp only [List.cons_append, List.nil_append, List.append_assoc]
    rw [joinWith, joinWith_join_head _ _ _ (by simp) (by simp), hrows, ← joinWith_unlines]
    simp only [List.cons_append, List.append_assoc, List.nil_append]
  rw [hj]
  have hlast : (("===".toList ++ name ++ "===".toList) ++ ['\n'] ++
      (unlines ((treeRows 0 (metaNode fields :: nodes)).map rowText) ++ "===END===".toList)).getLast? = some '=' := by
    rw [List.getLast?_append, List.getLast?_append]; rfl
  simp only [finishText, hlast]
  rw [metaDocText_eq_tree]
  simp [treeDocText, treeText_rows]

/-- the document: the fields in `meta` (in order), the forest in `sections`; the body node whose first line is body line `i`
(0-based, after `META:` and the fields) at depth `d` gets the position `pos i d`. -/
def metaDoc (name : Str) (pos : Nat → Nat → Nat × Nat) (fields : List FLine) (nodes : List TNode) : Document :=
  { name := name, metaKv := metaKvOf fields, sections := treeNodes pos (1 + fields.length) 0 nodes }

theorem emit_metaDoc (env : Env) (name : Str) (pos : Nat → Nat → Nat × Nat) (fields : List FLine) (nodes : List TNode)
    (hne : fields ≠ []) (hfe : ∀ ln ∈ fields, ln.MetaEmitOK) (h : treeEmitOK nodes) :
    emit env (metaDoc name pos fields nodes) = some (metaDocText name fields nodes) :=
  emit_metaDoc_matches env name fields nodes _ hne (treeNodes_matches pos nodes (1 + fields.length) 0) hfe h

/-- an EMPTY `meta` is not emitted at all: the text is that of the document without META. -/
theorem emit_metaDoc_empty (env : Env) (name : Str) (nodes : List TNode) (sections : List Node)
    (hm : treeMatches nodes sections) (h : treeEmitOK nodes) :
    emit env { name := name, metaKv := metaKvOf [], sections := sections } = some (treeDocText name nodes) :=
  emit_tree_matches env name nodes sections hm h

/-! ### the tokens without positions, and none was normalised -/

/-- types and values of the tokens of the field lines. -/
def fieldShape : List FLine → List (TT × TVal)
  | [] => []
  | ln :: ls => [(.indent, .nat 2), (.identifier, .str ln.key), (.assign, .str "::".toList), ln.v.tv, (.newline, .str ['\n'])]
      ++ fieldShape ls

theorem treeShape_fields (fields : List FLine) : treeShape 1 (fields.map TNode.line) = fieldShape fields := by
  induction fields with
  | nil => rfl
  | cons ln ls ih => simp [treeShape, TNode.shape, indentShape, fieldShape, ih]

theorem metaDocToks_tv (name : Str) (fields : List FLine) (nodes : List TNode) :
    (metaDocToks name fields nodes).map Token.tv =
      (.envelopeStart, .str name) :: (.newline, .str ['\n']) ::
        (.identifier, .str "META".toList) :: (.block, .str [':']) :: (.newline, .str ['\n']) ::
          (fieldShape fields ++ (treeShape 0 nodes ++
            [(.envelopeEnd, .str "END".toList), (.newline, .str ['\n']), (.eof, .none)])) := by
  rw [metaDocToks_eq_tree, treeDocToks_tv]
  simp [treeShape, metaNode, TNode.shape, indentShape, treeShape_fields]

theorem metaDocToks_plain (name : Str) (fields : List FLine) (nodes : List TNode) : ∀ t ∈ metaDocToks name fields nodes, t.Plain := by
  rw [metaDocToks_eq_tree]
  exact treeDocToks_plain name (metaNode fields :: nodes)

/-! ### non-vacuity -/

example : metaDocText "D".toList [⟨"TYPE".toList, .bare "SPEC".toList⟩, ⟨"VERSION".toList, .qstr "1.0".toList⟩]
      [.block "B".toList [.line ⟨"X".toList, .int 1⟩], .line ⟨"Z".toList, .bool true⟩]
    = "===D===\nMETA:\n  TYPE::SPEC\n  VERSION::\"1.0\"\nB:\n  X::1\nZ::true\n===END===\n".toList := by decide

example : tokenize Env.ascii (metaDocText "D".toList [⟨"TYPE".toList, .bare "SPEC".toList⟩, ⟨"VERSION".toList, .qstr "1.0".toList⟩]
      [.block "B".toList [.line ⟨"X".toList, .int 1⟩], .line ⟨"Z".toList, .bool true⟩]) true
    = .ok (metaDocToks "D".toList [⟨"TYPE".toList, .bare "SPEC".toList⟩, ⟨"VERSION".toList, .qstr "1.0".toList⟩]
      [.block "B".toList [.line ⟨"X".toList, .int 1⟩], .line ⟨"Z".toList, .bool true⟩], []) :=
  tokenize_metaDoc Env.ascii true "D".toList _ _ (by decide) (by decide)
    (by intro ln h; simp at h; rcases h with h | h <;> subst h <;> simp only [FLine.OK, FScalar.OK] <;> decide)
    (by simp only [treeOK, TNode.OK, FLine.OK, FScalar.OK]; decide) (fun _ _ => rfl)

example : emit Env.ascii (metaDoc "D".toList (fun _ _ => (0, 0)) [⟨"TYPE".toList, .bare "SPEC".toList⟩, ⟨"VERSION".toList, .qstr "1.0".toList⟩]
      [.block "B".toList [.line ⟨"X".toList, .int 1⟩], .line ⟨"Z".toList, .bool true⟩])
    = some "===D===\nMETA:\n  TYPE::SPEC\n  VERSION::\"1.0\"\nB:\n  X::1\nZ::true\n===END===\n".toList := by
  rw [emit_metaDoc Env.ascii "D".toList _ _ _ (by simp) (by decide) (by simp only [treeEmitOK, TNode.EmitOK, FLine.EmitOK]; decide)]
  decide

end Octave
