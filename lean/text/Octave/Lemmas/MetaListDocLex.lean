/-
Lexer half for documents whose META block carries LIST values, BODY EMPTY (step (2) of what `Props/C04metalist` left open,
restricted): the canonical text

    ===NAME===
    META:
    ␣␣KEY::item          (item = `Nest.NItem` at nesting level 1: leaf, one-line list, multi-line list of any depth)
    ===END===

A field line is the analogue of `Nest.lex_nline` behind two spaces: `lex_indent` + `lex_ident` + `lex_assign` +
`Nest.lex_nitem … 1` + `lex_nl`; the header comes from `run_header` (turned into `Lexes`).

* `LField`, `LField.text` / `toks` / `height`, `lex_lfield`, `lex_lfields`
* `ldocText` / `ldocToks`, `lex_ldoc`           the main loop from the initial state
* `FF0_ldoc`, `noTab_ldoc`, `tokenize_ldoc`      `tokenize` succeeds with exactly `ldocToks` (positions included) and no
                                                 receipt other than the notes of identifier tokens
NOT covered: a non-empty body after the META block (needs `run_tree` glued behind `lex_lfields`).
Everything lives in `namespace Octave.MetaListDoc`.
-/
import Octave.Lemmas.NestLex
import Octave.Lemmas.MetaLex
set_option linter.unusedVariables false
set_option linter.unusedSimpArgs false
namespace Octave.MetaListDoc
open Octave Lexer Scan Emitter
open Octave.ListDoc
open Octave.Nest

/-- a META field `KEY::item`. -/
structure LField where
  key : Str
  v : NItem

def LField.OK (env : Env) (f : LField) : Prop :=
  isIdentifierText f.key = true ∧ hasReservedPrefix f.key = false ∧ f.v.OK env

/-- `␣␣KEY::item` without the final line end (the item at nesting level 1). -/
def LField.text (f : LField) : Str := spacesL 2 ++ (f.key ++ (':' :: ':' :: f.v.text 1))

def LField.toks (f : LField) (l : Nat) : List Token :=
  ListDoc.tIndent 2 l 1 :: tIdent f.key l 3 :: tAssign l (3 + f.key.length) ::
    (f.v.toks 1 l (3 + f.key.length + 2) ++
      [tNewline (l + nlCount (f.v.text 1)) (colAfter (f.v.text 1) (3 + f.key.length + 2))])

def LField.height (f : LField) : Nat := nlCount (f.v.text 1) + 1

theorem lex_lfield (env : Env) (lenient : Bool) (f : LField) (st : LState) (rest : Str) (l : Nat)
    (stk : List (Nat × Nat)) (h : At st l 1 stk) (hok : f.OK env) :
    ∃ st', Lexes env lenient st (f.text ++ '\n' :: rest) st' rest (f.toks l) ∧ At st' (l + f.height) 1 stk := by
  obtain ⟨hk1, hk2, hv⟩ := hok
  obtain ⟨kc, kt, hkey, h1, h2, _⟩ := identText_cons f.key hk1
  obtain ⟨s0, x0, a0, _⟩ := lex_indent env lenient st 2 kc (kt ++ (':' :: ':' :: (f.v.text 1 ++ '\n' :: rest))) l stk h
    (by decide) h1 h2
  obtain ⟨s1, x1, a1⟩ := lex_ident env lenient s0 f.key (':' :: ':' :: (f.v.text 1 ++ '\n' :: rest)) l 3 stk
    (a0.cast rfl (by decide)) hk1 hk2 (termOK_colon env _)
  obtain ⟨s2, x2, a2, p2⟩ := lex_assign env lenient s1 (f.v.text 1 ++ '\n' :: rest) l (3 + f.key.length) stk a1
  obtain ⟨s3, x3, a3⟩ := lex_nitem env lenient f.v 1 s2 ('\n' :: rest) l (3 + f.key.length + 2) stk ':' a2 p2
    (Or.inr (Or.inr (Or.inr (Or.inl rfl)))) (itemTerm_nl rest) hv
  obtain ⟨s4, x4, a4, _⟩ := lex_nl env lenient s3 rest _ _ stk a3
  refine ⟨s4, ?_, a4.cast (by simp [LField.height]; omega) rfl⟩
  have x0' : Lexes env lenient st (f.text ++ '\n' :: rest) s0 (f.key ++ (':' :: ':' :: (f.v.text 1 ++ '\n' :: rest)))
      [ListDoc.tIndent 2 l 1] := by
    have e1 : f.text ++ '\n' :: rest = spacesL 2 ++ kc :: (kt ++ (':' :: ':' :: (f.v.text 1 ++ '\n' :: rest))) := by
      simp [LField.text, hkey, List.append_assoc]
    have e2 : f.key ++ (':' :: ':' :: (f.v.text 1 ++ '\n' :: rest)) = kc :: (kt ++ (':' :: ':' :: (f.v.text 1 ++ '\n' :: rest))) := by
      simp [hkey]
    rw [e1, e2]; exact x0
  have := (((x0'.trans x1).trans x2).trans x3).trans x4
  simpa [LField.toks, List.append_assoc] using this

def lfieldsText : List LField → Str
  | [] => []
  | x :: r => x.text ++ '\n' :: lfieldsText r

def lfieldsToks (l : Nat) : List LField → List Token
  | [] => []
  | x :: r => x.toks l ++ lfieldsToks (l + x.height) r

def lfieldsHeight : List LField → Nat
  | [] => 0
  | x :: r => x.height + lfieldsHeight r

theorem lex_lfields (env : Env) (lenient : Bool) (ls : List LField) :
    ∀ (st : LState) (rest : Str) (l : Nat) (stk : List (Nat × Nat)), At st l 1 stk → (∀ x ∈ ls, x.OK env) →
    ∃ st', Lexes env lenient st (lfieldsText ls ++ rest) st' rest (lfieldsToks l ls) ∧ At st' (l + lfieldsHeight ls) 1 stk := by
  induction ls with
  | nil =>
    intro st rest l stk h _
    exact ⟨st, by simpa [lfieldsText, lfieldsToks] using Lexes.refl env lenient st rest, h.cast (by simp [lfieldsHeight]) rfl⟩
  | cons x r ih =>
    intro st rest l stk h hok
    obtain ⟨s1, x1, a1⟩ := lex_lfield env lenient x st (lfieldsText r ++ rest) l stk h (hok x (by simp))
    obtain ⟨s2, x2, a2⟩ := ih s1 rest _ stk a1 (fun y hy => hok y (by simp [hy]))
    refine ⟨s2, ?_, a2.cast (by simp [lfieldsHeight]; omega) rfl⟩
    have := x1.trans x2
    simpa [lfieldsText, lfieldsToks, List.append_assoc] using this

/-! ### the whole document -/

def ldocText (name : Str) (ls : List LField) : Str :=
  "===".toList ++ name ++ "===".toList ++ '\n' :: ("META:".toList ++ '\n' :: (lfieldsText ls ++ ("===END===".toList ++ ['\n'])))

def ldocToks (name : Str) (ls : List LField) : List Token :=
  tEnvStart name 1 1 :: tNewline 1 (1 + (name.length + 6)) :: tIdent "META".toList 2 1 :: tBlock 2 5 :: tNewline 2 6 ::
    (lfieldsToks 3 ls ++
      [tEnvEnd (lfieldsHeight ls + 3) 1, tNewline (lfieldsHeight ls + 3) 10, tEof (lfieldsHeight ls + 4) 1])

theorem lex_ldoc (env : Env) (lenient : Bool) (name : Str) (ls : List LField)
    (hn : isEnvName name = true) (hne : name ≠ "END".toList) (hok : ∀ x ∈ ls, x.OK env) :
    ∃ st', Lexes env lenient ({ spans := [] } : LState) (ldocText name ls) st' [] (ldocToks name ls).dropLast ∧
      At st' (lfieldsHeight ls + 4) 1 [] := by
  let st0 : LState := { spans := [] }
  let R : Str := lfieldsText ls ++ ("===END===".toList ++ ['\n'])
  obtain ⟨s1, e1, a1⟩ := step_envStart env lenient st0 name ('\n' :: ("META:".toList ++ '\n' :: R)) rfl hn hne
  have h1 : Lexes env lenient st0 (ldocText name ls) s1 ('\n' :: ("META:".toList ++ '\n' :: R)) [tEnvStart name 1 1] := by
    refine Lexes.step (by simp [ldocText]) (by simpa [ldocText, R] using e1) (by rw [a1.toks]; rfl) (by rw [a1.repairs]; rfl)
  have at1 : At s1 1 (1 + (name.length + 6)) [] := ⟨a1.ready, by rw [a1.line], a1.col, by rw [a1.stack]⟩
  obtain ⟨s2, x2, a2, _⟩ := lex_nl env lenient s1 ("META:".toList ++ '\n' :: R) _ _ _ at1
  obtain ⟨sh, rh, ah⟩ := run_header env lenient s2 "META".toList 0 R a2.ready a2.col (by decide) (by decide)
  have xh : Lexes env lenient s2 ("META:".toList ++ '\n' :: R) sh R [tIdent "META".toList 2 1, tBlock 2 5, tNewline 2 6] := by
    refine ⟨_, by simpa [indentStr] using rh, ?_, ?_⟩
    · rw [ah.toks, a2.line]; rfl
    · rw [ah.repairs, a2.line]; rfl
  have ath : At sh 3 1 [] := ⟨ah.ready, by rw [ah.line, a2.line], ah.col, by rw [ah.stack, a2.stack]⟩
  obtain ⟨s3, x3, a3⟩ := lex_lfields env lenient ls sh ("===END===".toList ++ ['\n']) 3 [] ath hok
  obtain ⟨s4, x4, a4⟩ := lex_envEnd env lenient s3 ['\n'] _ _ _ a3
  obtain ⟨s5, x5, a5, _⟩ := lex_nl env lenient s4 [] _ _ _ a4
  refine ⟨s5, ?_, a5.cast (by omega) rfl⟩
  have := ((((h1.trans x2).trans xh).trans x3).trans x4).trans x5
  have e : (ldocToks name ls).dropLast = [tEnvStart name 1 1] ++ [tNewline 1 (1 + (name.length + 6))] ++
      [tIdent "META".toList 2 1, tBlock 2 5, tNewline 2 6] ++ lfieldsToks 3 ls ++
      [tEnvEnd (3 + lfieldsHeight ls) 1] ++ [tNewline (3 + lfieldsHeight ls) (1 + 9)] := by
    have : ldocToks name ls = ([tEnvStart name 1 1] ++ [tNewline 1 (1 + (name.length + 6))] ++
      [tIdent "META".toList 2 1, tBlock 2 5, tNewline 2 6] ++ lfieldsToks 3 ls ++
      [tEnvEnd (3 + lfieldsHeight ls) 1] ++ [tNewline (3 + lfieldsHeight ls) (1 + 9)]) ++ [tEof (lfieldsHeight ls + 4) 1] := by
      simp [ldocToks, Nat.add_comm]
    rw [this, List.dropLast_concat]
  rw [e]; exact this

theorem FF0_lfield (env : Env) (f : LField) (Y : Str) (hok : f.OK env) (hY : FF0 Y) : FF0 (f.text ++ '\n' :: Y) := by
  obtain ⟨hk1, _, hv⟩ := hok
  have hne : f.key ≠ [] := by intro e; rw [e] at hk1; simp [isIdentifierText] at hk1
  obtain ⟨kc, kt, hkey⟩ := List.exists_cons_of_ne_nil hne
  have hh := identText_head f.key hk1 kc (by rw [hkey]; rfl)
  have hcl := identText_clean f.key hk1
  have e : f.text ++ '\n' :: Y = spacesL 2 ++ kc :: (kt ++ (':' :: ':' :: (f.v.text 1 ++ '\n' :: Y))) := by
    simp [LField.text, hkey, List.append_assoc]
  rw [e]
  refine FF0_start 2 kc _ hh.1 hh.2 (hcl kc (by rw [hkey]; simp)).1 ?_
  refine FFmid_append kt _ (fun d hd => (hcl d (by rw [hkey]; simp [hd])).1) ?_
  exact FFmid_cons _ _ (by decide) (FFmid_cons _ _ (by decide) (ff_nitem env f.v 1 _ hv (FFmid_nl _ hY)).1)

theorem FF0_lfields (env : Env) (ls : List LField) (Y : Str) (hok : ∀ x ∈ ls, x.OK env) (hY : FF0 Y) : FF0 (lfieldsText ls ++ Y) := by
  induction ls with
  | nil => exact hY
  | cons x r ih =>
    have := FF0_lfield env x (lfieldsText r ++ Y) (hok x (by simp)) (ih (fun y hy => hok y (by simp [hy])))
    simpa [lfieldsText, List.append_assoc] using this

theorem FF0_ldoc (env : Env) (name : Str) (ls : List LField) (hn : isEnvName name = true) (hok : ∀ x ∈ ls, x.OK env) :
    FF0 (ldocText name ls) := by
  have hend : FF0 ("===END===".toList ++ ['\n']) := by
    intro l hl
    have h3 : splitLines ("===END===".toList ++ ['\n']) = ["===END===".toList, []] := by decide
    rw [h3] at hl
    simp only [List.mem_cons, List.mem_nil_iff, or_false] at hl
    rcases hl with h | h <;> subst h <;> decide
  have hbody := FF0_lfields env ls _ hok hend
  have hmeta : FF0 ("META:".toList ++ '\n' :: (lfieldsText ls ++ ("===END===".toList ++ ['\n']))) := by
    have e : "META:".toList ++ '\n' :: (lfieldsText ls ++ ("===END===".toList ++ ['\n']))
        = spacesL 0 ++ 'M' :: ("ETA:".toList ++ '\n' :: (lfieldsText ls ++ ("===END===".toList ++ ['\n']))) := by
      simp [spacesL]
    rw [e]
    refine FF0_start 0 'M' _ (by decide) (by decide) (by decide) ?_
    exact FFmid_append _ _ (by intro d hd; revert hd; decide +revert) (FFmid_nl _ hbody)
  have hcl := envLine_clean name hn
  have e : ldocText name ls = spacesL 0 ++ '=' :: ("==".toList ++ name ++ "===".toList ++ '\n' ::
      ("META:".toList ++ '\n' :: (lfieldsText ls ++ ("===END===".toList ++ ['\n'])))) := by
    simp [ldocText, spacesL]
  rw [e]
  refine FF0_start 0 '=' _ (by decide) (by decide) (by decide) ?_
  have e2 : "==".toList ++ name ++ "===".toList ++ '\n' :: ("META:".toList ++ '\n' :: (lfieldsText ls ++ ("===END===".toList ++ ['\n'])))
      = ("==".toList ++ name ++ "===".toList) ++ '\n' :: ("META:".toList ++ '\n' :: (lfieldsText ls ++ ("===END===".toList ++ ['\n']))) := by
    simp
  rw [e2]
  refine FFmid_append _ _ ?_ (FFmid_nl _ hmeta)
  intro d hd
  have e3 : "==".toList = ['=', '='] := rfl
  have e4 : "===".toList = ['=', '=', '='] := rfl
  refine (hcl d ?_).1
  rw [e3, e4] at hd; rw [e4]
  simp only [List.mem_append, List.mem_cons, List.mem_nil_iff, or_false, or_self] at hd ⊢
  rcases hd with (h | h) | h
  · exact Or.inl (Or.inl h)
  · exact Or.inl (Or.inr h)
  · exact Or.inr h

theorem noTab_lfields (env : Env) (ls : List LField) (hok : ∀ x ∈ ls, x.OK env) : NoTab (lfieldsText ls) := by
  induction ls with
  | nil => intro d hd; simp [lfieldsText] at hd
  | cons x r ih =>
    have hx := hok x (by simp)
    have h1 : NoTab x.text :=
      (noTab_spaces 2).append ((noTab_of_clean (identText_clean x.key hx.1)).append
        (NoTab.cons (by decide) (NoTab.cons (by decide) (nt_nitem env x.v 1 hx.2.2))))
    exact h1.append (NoTab.cons (by decide) (ih (fun y hy => hok y (by simp [hy]))))

theorem noTab_ldoc (env : Env) (name : Str) (ls : List LField) (hn : isEnvName name = true) (hok : ∀ x ∈ ls, x.OK env) :
    NoTab (ldocText name ls) := by
  have h1 : NoTab ("===".toList ++ name ++ "===".toList) := noTab_of_clean (envLine_clean name hn)
  have h2 : NoTab ("===END===".toList ++ ['\n']) := fun d hd => by
    intro e; subst e; revert hd; decide
  have h3 : NoTab "META:".toList := fun d hd => by
    intro e; subst e; revert hd; decide
  exact h1.append (NoTab.cons (by decide) (h3.append (NoTab.cons (by decide) ((noTab_lfields env ls hok).append h2))))

theorem ldocToks_eq (name : Str) (ls : List LField) :
    ldocToks name ls = (ldocToks name ls).dropLast ++ [tEof (lfieldsHeight ls + 4) 1] := by
  have : ldocToks name ls = (tEnvStart name 1 1 :: tNewline 1 (1 + (name.length + 6)) :: tIdent "META".toList 2 1 :: tBlock 2 5 ::
    tNewline 2 6 :: (lfieldsToks 3 ls ++
    [tEnvEnd (lfieldsHeight ls + 3) 1, tNewline (lfieldsHeight ls + 3) 10])) ++ [tEof (lfieldsHeight ls + 4) 1] := by
    simp [ldocToks]
  rw [this, List.dropLast_concat]

/-- **The lexer on a document whose META block carries leaf / list values of any depth, empty body**: `tokenize` succeeds with
exactly `ldocToks`, positions included, and with no receipt other than the notes of identifier tokens. -/
theorem tokenize_ldoc (env : Env) (lenient : Bool) (name : Str) (ls : List LField)
    (hn : isEnvName name = true) (hne : name ≠ "END".toList) (hok : ∀ x ∈ ls, x.OK env)
    (hnfc : ∀ l ∈ splitLines (ldocText name ls), env.nfc l = l) :
    tokenize env (ldocText name ls) lenient = .ok (ldocToks name ls, toksReps (ldocToks name ls)) := by
  have hfence : ∀ l ∈ splitLines (ldocText name ls), fenceLine l = none ∧ env.nfc l = l :=
    fun l hl => ⟨FF0_ldoc env name ls hn hok l hl, hnfc l hl⟩
  have hnorm := normalize_plain env (ldocText name ls) hfence
  have htab := tabCheck_noTab [] (ldocText name ls) 0 1 1 (noTab_ldoc env name ls hn hok)
  obtain ⟨st', ⟨n, run, ht, hr⟩, hat⟩ := lex_ldoc env lenient name ls hn hne hok
  have hloop := loop_of_run env lenient _ _ st' (ldocText name ls) run (by intro sp hsp; simp at hsp)
  have hreps : toksReps (ldocToks name ls) = toksReps (ldocToks name ls).dropLast := by
    conv => lhs; rw [ldocToks_eq, toksReps_append]
    simp [toksReps, tokReps, tEof]
  unfold tokenize
  simp only [hnorm, htab, hloop, bind, Except.bind, hat.stack, List.getLast?_nil, ht, hr, hat.line, hat.col]
  rw [hreps]
  conv => rhs; rw [ldocToks_eq]
  simp [tEof]

end Octave.MetaListDoc
