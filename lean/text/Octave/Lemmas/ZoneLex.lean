import Octave.Lemmas.FlatLex
/-!
The lexer on a text with ONE literal zone (C05): `normalize` finds exactly one fence span and leaves the text alone
(zone lines are never passed through `env.nfc`), the tab check accepts tabs inside the span (and only there), the
span branch of `step` yields FENCE_OPEN / LITERAL_CONTENT / FENCE_CLOSE / NEWLINE with the content carried verbatim.

Texts are described by their LINES: `lineBlock ls` is every line followed by a line break; a zone is
`open line`, content lines `C` (any list of line-break-free strings; `C = []` is the EMPTY zone, `C = [[]]` the zone
whose content is one empty line), `close line`.  For a content string `content`, `C = splitLines content` and
`lineBlock C = content ++ "\n"`.  (`lineBlock` is the same function as `unlines` of `Lemmas/BlockLex.lean`, which was
written concurrently; it is defined here under its own name so that the two files can be imported together.)

Contents:
* lines: `lineBlock`, `NoNl`, `splitLines_lineBlock`, `splitLines_noNl`, `lineBlock_splitLines`;
* fence lines: `isMarker`, `tagTextOK`, `tagOf`, `fenceOpenLine`, `fenceCloseLine`, `fenceLine_fence`;
* the normaliser line by line (`contentLineOK`, `normLine_content / _open / _close`, `normLines_append / _plain_eq / _content`)
  and on a whole text with one zone: `normalize_zone`;
* the tab check: `tabCheck_skip_noTab`, `tabCheck_skip_inSpan`, `tabCheck_zone`, `tabCheck_tab_outside`;
* the fence-span branch of `step`: `span_step_eq` (explicit successor state), `step_zone` (`AdvS` format);
* states with PENDING spans: `ReadyS`, `AdvS` (= `Adv` + position + pending spans; `AdvS.trans`, `AdvS.toAdv`), and the
  per-token steps needed in front of a zone with a span pending: `stepS_ident`, `stepS_assign`, `stepS_newline`,
  `stepS_envStart`;
* whole documents: `run_zoneFlatDoc`, `tokenize_zoneFlatDoc` (zone, then flat lines), `tokenize_zoneDoc`.
-/
namespace Octave
open Lexer Scan Emitter

/-! ### lines -/

/-- every line followed by a line break. -/
def lineBlock : List Str → Str
  | [] => []
  | l :: ls => l ++ '\n' :: lineBlock ls

def NoNl (l : Str) : Prop := ∀ d ∈ l, d ≠ '\n'

instance (l : Str) : Decidable (NoNl l) := by unfold NoNl; infer_instance

theorem lineBlock_append (a b : List Str) : lineBlock (a ++ b) = lineBlock a ++ lineBlock b := by
  induction a with
  | nil => rfl
  | cons l ls ih => simp [lineBlock, ih]

theorem splitLines_lineBlock (ls : List Str) (tail : Str) (h : ∀ l ∈ ls, NoNl l) :
    splitLines (lineBlock ls ++ tail) = ls ++ splitLines tail := by
  induction ls with
  | nil => rfl
  | cons l ls ih =>
    have := splitLines_append_nl l (lineBlock ls ++ tail) (h l (by simp))
    simp only [lineBlock, List.append_assoc, List.cons_append] at this ⊢
    rw [this, ih (fun x hx => h x (by simp [hx]))]

theorem splitLines_noNl (s : Str) : ∀ l ∈ splitLines s, NoNl l := by
  induction s with
  | nil => intro l hl; simp [splitLines] at hl; subst hl; intro d hd; simp at hd
  | cons c cs ih =>
    unfold splitLines
    cases h : splitLines cs with
    | nil => exact absurd h (splitLines_ne_nil cs)
    | cons x xs =>
      rw [h] at ih
      simp only
      by_cases hc : c = '\n'
      · subst hc
        simp only [beq_self_eq_true, if_true]
        intro l hl
        rcases List.mem_cons.mp hl with e | e
        · subst e; intro d hd; simp at hd
        · exact ih l e
      · have hc' : (c == '\n') = false := by simpa using hc
        simp only [hc', Bool.false_eq_true, if_false]
        intro l hl
        rcases List.mem_cons.mp hl with e | e
        · subst e
          intro d hd
          rcases List.mem_cons.mp hd with e' | e'
          · subst e'; exact hc
          · exact ih x (by simp) d e'
        · exact ih l (by simp [e])

/-- the lines of a string, each followed by a line break, are the string plus one final line break. -/
theorem lineBlock_splitLines (s : Str) : lineBlock (splitLines s) = s ++ ['\n'] := by
  induction s with
  | nil => rfl
  | cons c cs ih =>
    unfold splitLines
    cases h : splitLines cs with
    | nil => exact absurd h (splitLines_ne_nil cs)
    | cons x xs =>
      rw [h] at ih
      simp only
      by_cases hc : c = '\n'
      · subst hc
        simp only [beq_self_eq_true, if_true]
        show '\n' :: lineBlock (x :: xs) = _
        rw [ih]; rfl
      · have hc' : (c == '\n') = false := by simpa using hc
        simp only [hc', Bool.false_eq_true, if_false]
        show c :: (x ++ '\n' :: lineBlock xs) = _
        have : x ++ '\n' :: lineBlock xs = cs ++ ['\n'] := ih
        rw [this]; rfl

/-! ### fence lines -/

def spaces (n : Nat) : Str := List.replicate n ' '

/-- a fence marker: three or more backticks. -/
def isMarker (m : Str) : Bool := decide (3 ≤ m.length) && m.all (· == '`')

/-- what `FENCE_PATTERN` allows after the backtick run: no backtick, no line break. -/
def tagTextOK (t : Str) : Bool := t.all (fun c => c != '`' && c != '\n')

/-- the info tag the normaliser records for the text after the backtick run. -/
def tagOf (env : Env) (trailing : Str) : Option Str :=
  if (env.strip trailing).isEmpty then none else some (env.strip trailing)

def fenceOpenLine (ind : Nat) (marker trailing : Str) : Str := spaces ind ++ marker ++ trailing
def fenceCloseLine (ind : Nat) (marker : Str) : Str := spaces ind ++ marker

theorem fenceLine_fence (ind : Nat) (m t : Str) (hm : isMarker m = true) (ht : tagTextOK t = true) :
    fenceLine (spaces ind ++ m ++ t) = some (m, t) := by
  simp only [isMarker, Bool.and_eq_true, decide_eq_true_eq] at hm
  obtain ⟨hlen, hall⟩ := hm
  have hall' : ∀ x ∈ m, x = '`' := fun x hx => by simpa using (List.all_eq_true.mp hall) x hx
  have ht' : ∀ x ∈ t, x ≠ '`' ∧ x ≠ '\n' := fun x hx => by simpa using (List.all_eq_true.mp ht) x hx
  obtain ⟨c, m', hmc⟩ : ∃ c m', m = c :: m' := by
    cases m with
    | nil => simp at hlen
    | cons c m' => exact ⟨c, m', rfl⟩
  have hc : c = '`' := hall' c (by rw [hmc]; simp)
  have h1 : takeWhile (· == ' ') (spaces ind ++ (m ++ t)) = (spaces ind, m ++ t) :=
    takeWhile_append_stop (· == ' ') (spaces ind) (m ++ t)
      (fun x hx => by have := List.eq_of_mem_replicate hx; simp [this])
      (fun d hd => by
        rw [hmc] at hd
        have : d = c := by simpa using hd.symm
        rw [this, hc]; decide)
  have h2 : takeWhile (· == '`') (m ++ t) = (m, t) :=
    takeWhile_append_stop (· == '`') m t
      (fun x hx => by simp [hall' x hx])
      (fun d hd => by
        cases t with
        | nil => simp at hd
        | cons e t' =>
          have : d = e := by simpa using hd.symm
          have := (ht' e (by simp)).1
          simp_all)
  have h3 : t.all (fun c => c != '`' && c != '\n') = true := ht
  unfold fenceLine
  rw [List.append_assoc, h1]
  simp only [h2, h3, Bool.and_true, ge_iff_le, decide_eq_true_eq, hlen, if_true]

theorem fenceLine_open (ind : Nat) (m t : Str) (hm : isMarker m = true) (ht : tagTextOK t = true) :
    fenceLine (fenceOpenLine ind m t) = some (m, t) := fenceLine_fence ind m t hm ht

theorem fenceLine_close (ind : Nat) (m : Str) (hm : isMarker m = true) :
    fenceLine (fenceCloseLine ind m) = some (m, []) := by
  have := fenceLine_fence ind m [] hm rfl
  simpa [fenceCloseLine] using this

/-! ### `normalize`: line by line -/

/-- a line that neither closes nor breaks a zone opened with `marker` (`_evaluate_fence_line` says "content"):
not a fence line at all, or a backtick run SHORTER than the marker (whatever follows it). -/
def contentLineOK (marker : Str) (l : Str) : Bool :=
  match fenceLine l with
  | some (ticks, _) => decide (ticks.length < marker.length)
  | none => true

theorem normLine_content (env : Env) (st : NState) (n : Nat) (l : Str)
    (hin : st.inFence = true) (hok : contentLineOK st.marker l = true) :
    normLine env st n l = .ok { st with out := l :: st.out, offset := st.offset + l.length + 1 } := by
  unfold contentLineOK at hok
  cases hf : fenceLine l with
  | none => simp [normLine, hin, hf]
  | some p =>
    obtain ⟨ticks, trailing⟩ := p
    rw [hf] at hok
    have hlt : ticks.length < st.marker.length := by simpa using hok
    have h1 : ¬ (ticks.length = st.marker.length) := by omega
    have h2 : ¬ (ticks.length ≥ st.marker.length) := by omega
    simp [normLine, hin, hf, h1, h2]

theorem normLine_open (env : Env) (st : NState) (n : Nat) (l m t : Str)
    (hin : st.inFence = false) (hf : fenceLine l = some (m, t)) (hnfc : env.nfc l = l) :
    normLine env st n l = .ok { st with out := l :: st.out, offset := st.offset + l.length + 1, inFence := true, marker := m, tag := tagOf env t, openLine := n, spanStart := st.offset } := by
  simp [normLine, hin, hf, hnfc, tagOf]

theorem normLine_close (env : Env) (st : NState) (n : Nat) (l ticks tr : Str)
    (hin : st.inFence = true) (hf : fenceLine l = some (ticks, tr)) (hlen : ticks.length = st.marker.length)
    (hblank : (env.strip tr).isEmpty = true) (hnfc : env.nfc l = l) :
    normLine env st n l = .ok { st with out := l :: st.out, offset := st.offset + l.length + 1, spans := { start := st.spanStart, stop := st.offset + l.length, marker := st.marker, tag := st.tag } :: st.spans, inFence := false, marker := [], tag := none } := by
  simp [normLine, hin, hf, hlen, hblank, hnfc]

theorem normLines_append (env : Env) : ∀ (a b : List Str) (st st1 : NState) (n : Nat),
    normLines env st n a = .ok st1 → normLines env st n (a ++ b) = normLines env st1 (n + a.length) b := by
  intro a
  induction a with
  | nil => intro b st st1 n h; simp only [normLines, Except.ok.injEq] at h; subst h; rfl
  | cons l ls ih =>
    intro b st st1 n h
    simp only [List.cons_append, normLines, bind, Except.bind] at h ⊢
    cases hl : normLine env st n l with
    | error e => rw [hl] at h; cases h
    | ok st' =>
      rw [hl] at h
      simp only at h ⊢
      rw [ih b st' st1 (n + 1) h, List.length_cons]
      rw [show n + 1 + ls.length = n + (ls.length + 1) by omega]

/-- plain lines outside a zone: copied (they are NFC-stable), offsets advanced; every other field untouched. -/
theorem normLines_plain_eq (env : Env) : ∀ (ls : List Str) (st : NState) (n : Nat), st.inFence = false →
    (∀ l ∈ ls, fenceLine l = none ∧ env.nfc l = l) →
    normLines env st n ls = .ok { st with out := ls.reverse ++ st.out, offset := st.offset + (lineBlock ls).length } := by
  intro ls
  induction ls with
  | nil => intro st n _ _; simp [normLines, lineBlock]
  | cons l ls ih =>
    intro st n hf h
    obtain ⟨h1, h2⟩ := h l (by simp)
    have hstep : normLine env st n l = .ok { st with out := l :: st.out, offset := st.offset + l.length + 1 } := by
      unfold normLine
      rw [h1, hf]
      simp only [h2]
    rw [normLines]
    simp only [hstep, bind, Except.bind]
    rw [ih { st with out := l :: st.out, offset := st.offset + l.length + 1 } (n + 1) hf (fun x hx => h x (by simp [hx]))]
    simp [lineBlock]; omega

/-- content lines inside a zone: copied VERBATIM (`env.nfc` is not consulted), offsets advanced. -/
theorem normLines_content (env : Env) : ∀ (ls : List Str) (st : NState) (n : Nat), st.inFence = true →
    (∀ l ∈ ls, contentLineOK st.marker l = true) →
    normLines env st n ls = .ok { st with out := ls.reverse ++ st.out, offset := st.offset + (lineBlock ls).length } := by
  intro ls
  induction ls with
  | nil => intro st n _ _; simp [normLines, lineBlock]
  | cons l ls ih =>
    intro st n hf h
    have hstep := normLine_content env st n l hf (h l (by simp))
    rw [normLines]
    simp only [hstep, bind, Except.bind]
    rw [ih { st with out := l :: st.out, offset := st.offset + l.length + 1 } (n + 1) hf (fun x hx => h x (by simp [hx]))]
    simp [lineBlock]; omega

/-! ### `normalize`: a text with one zone -/

/-- the text of the fence span: open line, content lines, close line (no line break after the close line). -/
def zoneSpanText (C : List Str) (ind : Nat) (marker trailing : Str) : Str :=
  fenceOpenLine ind marker trailing ++ '\n' :: (lineBlock C ++ fenceCloseLine ind marker)

/-- plain lines `B`, the zone, a line break, any further text. -/
def zonedText (B C : List Str) (ind : Nat) (marker trailing after : Str) : Str :=
  lineBlock B ++ (zoneSpanText C ind marker trailing ++ '\n' :: after)

/-- the fence span `normalize` reports for `zonedText`. -/
def zoneSpan (env : Env) (B C : List Str) (ind : Nat) (marker trailing : Str) : Span :=
  { start := (lineBlock B).length, stop := (lineBlock B).length + (zoneSpanText C ind marker trailing).length,
    marker := marker, tag := tagOf env trailing }

theorem marker_noNl (m : Str) (hm : isMarker m = true) : NoNl m := by
  simp only [isMarker, Bool.and_eq_true] at hm
  intro d hd he
  have := (List.all_eq_true.mp hm.2) d hd
  subst he; simp at this

theorem spaces_noNl (n : Nat) : NoNl (spaces n) := by
  intro d hd he
  have := List.eq_of_mem_replicate hd
  subst he; simp at this

theorem tagText_noNl (t : Str) (ht : tagTextOK t = true) : NoNl t := by
  intro d hd
  have := (List.all_eq_true.mp ht) d hd
  simp only [Bool.and_eq_true, bne_iff_ne, ne_eq] at this
  exact this.2

theorem NoNl.append {a b : Str} (ha : NoNl a) (hb : NoNl b) : NoNl (a ++ b) := by
  intro d hd
  rcases List.mem_append.mp hd with h | h
  · exact ha d h
  · exact hb d h

theorem fenceOpenLine_noNl (ind : Nat) (m t : Str) (hm : isMarker m = true) (ht : tagTextOK t = true) :
    NoNl (fenceOpenLine ind m t) :=
  ((spaces_noNl ind).append (marker_noNl m hm)).append (tagText_noNl t ht)

theorem fenceCloseLine_noNl (ind : Nat) (m : Str) (hm : isMarker m = true) : NoNl (fenceCloseLine ind m) :=
  (spaces_noNl ind).append (marker_noNl m hm)

/-- a line-break-free string is one line. -/
theorem splitLines_single : ∀ (a : Str), NoNl a → splitLines a = [a] := by
  intro a
  induction a with
  | nil => intro _; rfl
  | cons c cs ih =>
    intro hn
    have hc : (c == '\n') = false := by have := hn c (by simp); simpa using this
    have := ih (fun d hd => hn d (by simp [hd]))
    simp only [splitLines, this, hc, Bool.false_eq_true, if_false]

theorem splitLines_zoneSpanText (C : List Str) (ind : Nat) (m t : Str) (hm : isMarker m = true) (ht : tagTextOK t = true)
    (hC : ∀ l ∈ C, NoNl l) :
    splitLines (zoneSpanText C ind m t) = fenceOpenLine ind m t :: (C ++ [fenceCloseLine ind m]) := by
  unfold zoneSpanText
  rw [splitLines_append_nl _ _ (fenceOpenLine_noNl ind m t hm ht), splitLines_lineBlock C _ hC,
    splitLines_single _ (fenceCloseLine_noNl ind m hm)]

theorem splitLines_zonedText (B C : List Str) (ind : Nat) (m t after : Str) (hm : isMarker m = true) (ht : tagTextOK t = true)
    (hB : ∀ l ∈ B, NoNl l) (hC : ∀ l ∈ C, NoNl l) :
    splitLines (zonedText B C ind m t after) =
      B ++ (fenceOpenLine ind m t :: (C ++ (fenceCloseLine ind m :: splitLines after))) := by
  unfold zonedText zoneSpanText
  rw [splitLines_lineBlock B _ hB]
  simp only [List.append_assoc, List.cons_append]
  rw [splitLines_append_nl _ _ (fenceOpenLine_noNl ind m t hm ht), splitLines_lineBlock C _ hC,
    splitLines_append_nl _ _ (fenceCloseLine_noNl ind m hm)]

theorem strip_nil (env : Env) : env.strip [] = [] := rfl

/-- **`normalize` on a text with one literal zone** between plain lines: the text comes back unchanged and exactly one
fence span is reported, with the offsets of the open line's first char and of the end of the close line, the marker and
the tag.  NFC-stability is assumed ONLY for the plain lines and the two fence lines: the content lines `C` are arbitrary
(no hypothesis about `env.nfc` on them — the normaliser never calls it there). -/
theorem normalize_zone (env : Env) (B C : List Str) (ind : Nat) (marker trailing after : Str)
    (hm : isMarker marker = true) (ht : tagTextOK trailing = true)
    (hB : ∀ l ∈ B, NoNl l ∧ fenceLine l = none ∧ env.nfc l = l)
    (hC : ∀ l ∈ C, NoNl l ∧ contentLineOK marker l = true)
    (hA : ∀ l ∈ splitLines after, fenceLine l = none ∧ env.nfc l = l)
    (hopen : env.nfc (fenceOpenLine ind marker trailing) = fenceOpenLine ind marker trailing)
    (hclose : env.nfc (fenceCloseLine ind marker) = fenceCloseLine ind marker) :
    normalize env (zonedText B C ind marker trailing after) =
      .ok (zonedText B C ind marker trailing after, [zoneSpan env B C ind marker trailing]) := by
  have hsplit := splitLines_zonedText B C ind marker trailing after hm ht (fun l hl => (hB l hl).1) (fun l hl => (hC l hl).1)
  -- the plain lines before
  have e1 := normLines_plain_eq env B {} 1 rfl (fun l hl => (hB l hl).2)
  -- the open line
  have e2 := normLine_open env { ({} : NState) with out := B.reverse ++ [], offset := 0 + (lineBlock B).length } (1 + B.length)
    (fenceOpenLine ind marker trailing) marker trailing rfl (fenceLine_open ind marker trailing hm ht) hopen
  -- the content lines
  have e3 := normLines_content env C
    { out := fenceOpenLine ind marker trailing :: (B.reverse ++ []), offset := 0 + (lineBlock B).length + (fenceOpenLine ind marker trailing).length + 1,
      spans := [], inFence := true, marker := marker, tag := tagOf env trailing, openLine := 1 + B.length, spanStart := 0 + (lineBlock B).length }
    (1 + B.length + 1) rfl (fun l hl => (hC l hl).2)
  -- the close line
  have e4 := normLine_close env
    { out := C.reverse ++ fenceOpenLine ind marker trailing :: (B.reverse ++ []),
      offset := 0 + (lineBlock B).length + (fenceOpenLine ind marker trailing).length + 1 + (lineBlock C).length,
      spans := [], inFence := true, marker := marker, tag := tagOf env trailing, openLine := 1 + B.length, spanStart := 0 + (lineBlock B).length }
    (1 + B.length + 1 + C.length) (fenceCloseLine ind marker) marker [] rfl (fenceLine_close ind marker hm) rfl rfl hclose
  -- the plain lines after
  obtain ⟨st', e5, o5, sp5, in5⟩ := normLines_plain env (splitLines after)
    { out := fenceCloseLine ind marker :: (C.reverse ++ fenceOpenLine ind marker trailing :: (B.reverse ++ [])),
      offset := 0 + (lineBlock B).length + (fenceOpenLine ind marker trailing).length + 1 + (lineBlock C).length + (fenceCloseLine ind marker).length + 1,
      spans := [{ start := 0 + (lineBlock B).length,
                  stop := 0 + (lineBlock B).length + (fenceOpenLine ind marker trailing).length + 1 + (lineBlock C).length + (fenceCloseLine ind marker).length,
                  marker := marker, tag := tagOf env trailing }],
      inFence := false, marker := [], tag := none, openLine := 1 + B.length, spanStart := 0 + (lineBlock B).length }
    (1 + B.length + 1 + C.length + 1) rfl hA
  have hall : normLines env {} 1 (splitLines (zonedText B C ind marker trailing after)) = .ok st' := by
    rw [hsplit, normLines_append env B _ _ _ 1 e1, normLines]
    simp only [e2, bind, Except.bind]
    rw [normLines_append env C _ _ _ _ e3, normLines]
    simp only [e4, bind, Except.bind]
    exact e5
  unfold normalize
  simp only [hall, bind, Except.bind, in5, Bool.false_eq_true, if_false]
  rw [o5, sp5]
  have hout : (((splitLines after).reverse ++ fenceCloseLine ind marker :: (C.reverse ++ fenceOpenLine ind marker trailing :: (B.reverse ++ []))).reverse)
      = splitLines (zonedText B C ind marker trailing after) := by
    rw [hsplit]; simp
  rw [hout, joinWith_splitLines]
  have hspan : ([{ start := 0 + (lineBlock B).length, stop := 0 + (lineBlock B).length + (fenceOpenLine ind marker trailing).length + 1 + (lineBlock C).length + (fenceCloseLine ind marker).length, marker := marker, tag := tagOf env trailing }] : List Span).reverse = [zoneSpan env B C ind marker trailing] := by
    simp only [List.reverse_cons, List.reverse_nil, List.nil_append, zoneSpan, zoneSpanText, List.length_append, List.length_cons]
    congr 2 <;> omega
  rw [hspan]

/-! ### the tab check -/

def inSpans (spans : List Span) (pos : Nat) : Bool := spans.any fun s => s.start ≤ pos && pos < s.stop

/-- a tab-free stretch is skipped (only the line / column counters move). -/
theorem tabCheck_skip_noTab (spans : List Span) : ∀ (a b : Str) (pos line col : Nat), (∀ d ∈ a, d ≠ '\t') →
    ∃ l' c', tabCheck spans (a ++ b) pos line col = tabCheck spans b (pos + a.length) l' c' := by
  intro a
  induction a with
  | nil => intro b pos line col _; exact ⟨line, col, rfl⟩
  | cons c cs ih =>
    intro b pos line col h
    have hc : (c == '\t') = false := by have := h c (by simp); simpa using this
    have htail : ∀ d ∈ cs, d ≠ '\t' := fun d hd => h d (by simp [hd])
    simp only [List.cons_append, tabCheck, hc, Bool.false_and, Bool.false_eq_true, if_false, List.length_cons]
    rw [show pos + (cs.length + 1) = pos + 1 + cs.length by omega]
    split
    · exact ih b (pos + 1) (line + 1) 1 htail
    · exact ih b (pos + 1) line (col + 1) htail

/-- a stretch lying inside one fence span is skipped WHATEVER it contains (tabs included). -/
theorem tabCheck_skip_inSpan (spans : List Span) (sp : Span) (hsp : sp ∈ spans) : ∀ (a b : Str) (pos line col : Nat),
    sp.start ≤ pos → pos + a.length ≤ sp.stop →
    ∃ l' c', tabCheck spans (a ++ b) pos line col = tabCheck spans b (pos + a.length) l' c' := by
  intro a
  induction a with
  | nil => intro b pos line col _ _; exact ⟨line, col, rfl⟩
  | cons c cs ih =>
    intro b pos line col h1 h2
    simp only [List.length_cons] at h2
    have hin : (spans.any fun s => s.start ≤ pos && pos < s.stop) = true := by
      rw [List.any_eq_true]
      exact ⟨sp, hsp, by simp only [Bool.and_eq_true, decide_eq_true_eq]; omega⟩
    simp only [List.cons_append, tabCheck, hin, Bool.not_true, Bool.and_false, Bool.false_eq_true, if_false, List.length_cons]
    rw [show pos + (cs.length + 1) = pos + 1 + cs.length by omega]
    split
    · exact ih b (pos + 1) (line + 1) 1 (by omega) (by omega)
    · exact ih b (pos + 1) line (col + 1) (by omega) (by omega)

/-- **The tab check on a text with one zone**: tabs are accepted anywhere inside the fence span — the plain text before
and after the span is tab-free, the span text is ARBITRARY. -/
theorem tabCheck_zone (sp : Span) (pre mid post : Str) (hstart : sp.start = pre.length) (hstop : sp.stop = pre.length + mid.length)
    (hpre : ∀ d ∈ pre, d ≠ '\t') (hpost : ∀ d ∈ post, d ≠ '\t') :
    tabCheck [sp] (pre ++ (mid ++ post)) 0 1 1 = .ok () := by
  obtain ⟨l1, c1, e1⟩ := tabCheck_skip_noTab [sp] pre (mid ++ post) 0 1 1 hpre
  obtain ⟨l2, c2, e2⟩ := tabCheck_skip_inSpan [sp] sp (by simp) mid post (0 + pre.length) l1 c1 (by omega) (by omega)
  rw [e1, e2]
  exact tabCheck_noTab [sp] post _ _ _ hpost

/-- … and only there: the first tab outside every span is refused (E005). -/
theorem tabCheck_tab_outside (spans : List Span) (a b : Str) (ha : ∀ d ∈ a, d ≠ '\t') (hout : inSpans spans a.length = false) :
    ∃ l c, tabCheck spans (a ++ '\t' :: b) 0 1 1 = .error (.lexer "E005".toList l c) := by
  obtain ⟨l1, c1, e1⟩ := tabCheck_skip_noTab spans a ('\t' :: b) 0 1 1 ha
  refine ⟨l1, c1, ?_⟩
  rw [e1]
  have : (spans.any fun s => s.start ≤ 0 + a.length && 0 + a.length < s.stop) = false := by
    rw [Nat.zero_add]; exact hout
  simp only [tabCheck, this, beq_self_eq_true, Bool.not_false, Bool.and_self, if_true]

/-! ### the fence-span branch of `step` -/

def tFenceOpen (marker : Str) (tag : Option Str) (l c : Nat) : Token := { type := .fenceOpen, value := .fence marker tag, line := l, col := c }
def tLiteral (content : Str) (l c : Nat) : Token := { type := .literalContent, value := .str content, line := l, col := c }
def tFenceClose (marker : Str) (l c : Nat) : Token := { type := .fenceClose, value := .str marker, line := l, col := c }

/-- the successor state of the fence-span branch when the span is followed by a line break, in terms of the lines of
the span text. -/
def spanNext (st : LState) (sp : Span) (spans' : List Span) (ls : List Str) : LState :=
  { st with
    pos := sp.stop + 1, prev := some '\n', line := st.line + 1 + (ls.length - 1 - 1) + 1, col := 1,
    toks := tNewline (st.line + 1 + (ls.length - 1 - 1)) ((ls.getLast?.getD []).length + 1)
      :: tFenceClose sp.marker (st.line + 1 + (ls.length - 1 - 1)) 1
      :: tLiteral (joinWith ['\n'] (ls.drop 1).dropLast) (st.line + 1) 1
      :: tFenceOpen sp.marker sp.tag st.line (st.col + ((ls.headD []).takeWhile (· == ' ')).length) :: st.toks,
    spans := spans', blank := false }

theorem span_step_eq (env : Env) (lenient : Bool) (st : LState) (sp : Span) (spans' : List Span) (spanText rest' : Str)
    (hsp : st.spans = sp :: spans') (hpos : st.pos = sp.start) (hlen : spanText.length = sp.stop - sp.start)
    (hne : spanText ≠ []) :
    step env lenient st (spanText ++ '\n' :: rest') = .ok (spanNext st sp spans' (splitLines spanText), rest') := by
  obtain ⟨c, r, hcr⟩ := List.exists_cons_of_ne_nil hne
  have hat : atSpanStart st = true := by simp [atSpanStart, hsp, hpos]
  have htake : (c :: (r ++ '\n' :: rest')).take (sp.stop - sp.start) = spanText := by
    rw [← hlen, hcr]; exact List.take_left' (l₁ := c :: r) rfl
  have hdrop : (c :: (r ++ '\n' :: rest')).drop (sp.stop - sp.start) = '\n' :: rest' := by
    rw [← hlen, hcr]; exact List.drop_left' (l₁ := c :: r) rfl
  have hshape : spanText ++ '\n' :: rest' = c :: (r ++ '\n' :: rest') := by rw [hcr]; rfl
  rw [hshape]
  unfold step
  simp only [hat, if_true, hsp, htake, hdrop]
  rfl

/-! ### states with pending spans -/

/-- like `Ready`, but with pending fence spans: the lexer is past the document start and the next pending span (if any)
starts strictly ahead of the current position. -/
structure ReadyS (st : LState) (pending : List Span) : Prop where
  spans : st.spans = pending
  blank : st.blank = false
  ahead : ∀ sp ∈ pending.head?, st.pos < sp.start

theorem notAtSpan_of_ahead {st : LState} (h : ∀ sp ∈ st.spans.head?, st.pos < sp.start) : atSpanStart st = false := by
  unfold atSpanStart
  cases hs : st.spans with
  | nil => rfl
  | cons sp rest =>
    have := h sp (by rw [hs]; rfl)
    simp only [beq_eq_false_iff_ne]; omega

theorem ReadyS.noSpan {st : LState} {spans : List Span} (h : ReadyS st spans) : atSpanStart st = false :=
  notAtSpan_of_ahead (by rw [h.spans]; exact h.ahead)

theorem ReadyS.toReady {st : LState} (h : ReadyS st []) : Ready st := ⟨h.spans, h.blank⟩
theorem Ready.toReadyS {st : LState} (h : Ready st) : ReadyS st [] := ⟨h.spans, h.blank, by simp⟩

/-- what one or more steps did to the tracked parts of the state — `Adv` plus the position and the pending spans. -/
structure AdvS (st st' : LState) (newToks : List Token) (newReps : List Repair) (dline col' : Nat) (prev' : Option Char)
    (dpos : Nat) (spans' : List Span) : Prop where
  spans : st'.spans = spans'
  blank : st'.blank = false
  pos : st'.pos = st.pos + dpos
  toks : st'.toks = newToks ++ st.toks
  repairs : st'.repairs = newReps ++ st.repairs
  stack : st'.stack = st.stack
  line : st'.line = st.line + dline
  col : st'.col = col'
  prev : st'.prev = prev'

theorem AdvS.trans {a b c : LState} {t1 t2 : List Token} {r1 r2 : List Repair} {d1 d2 c1 c2 n1 n2 : Nat} {p1 p2 : Option Char}
    {s1 s2 : List Span}
    (h1 : AdvS a b t1 r1 d1 c1 p1 n1 s1) (h2 : AdvS b c t2 r2 d2 c2 p2 n2 s2) :
    AdvS a c (t2 ++ t1) (r2 ++ r1) (d1 + d2) c2 p2 (n1 + n2) s2 :=
  ⟨h2.spans, h2.blank, by rw [h2.pos, h1.pos, Nat.add_assoc], by rw [h2.toks, h1.toks, List.append_assoc],
   by rw [h2.repairs, h1.repairs, List.append_assoc], by rw [h2.stack, h1.stack], by rw [h2.line, h1.line, Nat.add_assoc], h2.col, h2.prev⟩

theorem AdvS.readyS {a b : LState} {t : List Token} {r : List Repair} {d c n : Nat} {p : Option Char} {s : List Span}
    (h : AdvS a b t r d c p n s) (hahead : ∀ sp ∈ s.head?, a.pos + n < sp.start) : ReadyS b s :=
  ⟨h.spans, h.blank, by rw [h.pos]; exact hahead⟩

/-- once no span is pending the existing `Ready` / `Adv` infrastructure takes over. -/
theorem AdvS.toAdv {a b : LState} {t : List Token} {r : List Repair} {d c n : Nat} {p : Option Char}
    (h : AdvS a b t r d c p n []) : Adv a b t r d c p :=
  ⟨⟨h.spans, h.blank⟩, h.toks, h.repairs, h.stack, h.line, h.col, h.prev⟩

/-! ### the per-token steps needed before a zone, with pending spans -/

theorem stepS_ident (env : Env) (lenient : Bool) (st : LState) (s rest : Str)
    (hns : atSpanStart st = false) (hb : st.blank = false)
    (hid : isIdentifierText s = true) (hres : hasReservedPrefix s = false) (hterm : TermOK env rest) :
    ∃ st', step env lenient st (s ++ rest) = .ok (st', rest) ∧
      AdvS st st' [tIdent s st.line st.col] (identifierRepairs s st.line st.col).reverse 0 (st.col + s.length)
        (s.getLast?.orElse (fun _ => st.prev)) s.length st.spans := by
  refine ⟨_, bare_identifier_step env lenient st s rest hid hres hterm hns hb, ?_⟩
  exact ⟨rfl, rfl, rfl, rfl, rfl, rfl, rfl, rfl, rfl⟩

theorem stepS_assign (env : Env) (lenient : Bool) (st : LState) (rest : Str)
    (hns : atSpanStart st = false) (hb : st.blank = false) :
    ∃ st', step env lenient st (':' :: ':' :: rest) = .ok (st', rest) ∧
      AdvS st st' [tAssign st.line st.col] [] 0 (st.col + 2) (some ':') 2 st.spans := by
  have hm : matchPattern env st.blank st.prev (':' :: ':' :: rest) = .ok (some (mAssign rest)) := by
    rw [hb]; exact matchPattern_assign env st.prev rest
  refine ⟨_, pattern_step_eq env lenient st ':' (':' :: rest) (mAssign rest) hns (by decide) hm (by simp [mAssign]) (by simp [mAssign]), ?_⟩
  refine ⟨rfl, by simp [patNext, hb], rfl, rfl, rfl, rfl, ?_, ?_, rfl⟩
  · simp [patNext, mAssign, advancePos]
  · simp [patNext, mAssign, advancePos]

theorem stepS_newline (env : Env) (lenient : Bool) (st : LState) (rest : Str)
    (hns : atSpanStart st = false) (hb : st.blank = false) :
    ∃ st', step env lenient st ('\n' :: rest) = .ok (st', rest) ∧
      AdvS st st' [tNewline st.line st.col] [] 1 1 (some '\n') 1 st.spans := by
  have hm : matchPattern env st.blank st.prev ('\n' :: rest) = .ok (some (mNewline rest)) := by
    rw [hb]; exact matchPattern_newline env st.prev rest
  refine ⟨_, pattern_step_eq env lenient st '\n' rest (mNewline rest) hns (by decide) hm (by simp [mNewline]) (by simp [mNewline]), ?_⟩
  refine ⟨rfl, by simp [patNext, hb], rfl, rfl, rfl, rfl, ?_, ?_, rfl⟩
  · simp [patNext, mNewline, advancePos]
  · simp [patNext, mNewline, advancePos]

/-- `===NAME===`, also at the very start of the input (`blank` may still be true). -/
theorem stepS_envStart (env : Env) (lenient : Bool) (st : LState) (name rest : Str)
    (hns : atSpanStart st = false) (hn : isEnvName name = true) (hne : name ≠ "END".toList) :
    ∃ st', step env lenient st ("===".toList ++ name ++ "===".toList ++ rest) = .ok (st', rest) ∧
      AdvS st st' [tEnvStart name st.line st.col] [] 0 (st.col + (name.length + 6)) (some '=') (name.length + 6) st.spans := by
  have hm := matchPattern_envStart env st.blank st.prev name rest hn hne
  have hshape : "===".toList ++ name ++ "===".toList ++ rest = '=' :: ("==".toList ++ name ++ "===".toList ++ rest) := by simp
  rw [hshape] at hm ⊢
  refine ⟨_, pattern_step_eq env lenient st '=' _ (mEnvStart name rest) hns (by decide) hm (by simp [mEnvStart]) (by simp [mEnvStart]), ?_⟩
  have hadv := advancePos_noNl st.line st.col ("===".toList ++ name ++ "===".toList) (envName_noNl name hn)
  have hlen : ("===".toList ++ name ++ "===".toList).length = name.length + 6 := by simp
  have hlast : ("===".toList ++ name ++ "===".toList).getLast? = some '=' := by
    rw [List.getLast?_append]; rfl
  refine ⟨rfl, by simp [patNext, mEnvStart], ?_, rfl, rfl, rfl, ?_, ?_, ?_⟩
  · simp only [patNext, mEnvStart, hlen]
  · simp only [patNext, mEnvStart, hadv]; rfl
  · simp only [patNext, mEnvStart, hadv, hlen]
  · simp only [patNext, mEnvStart, hlast]; rfl

/-! ### the zone step -/

theorem listTakeWhile_spaces (n : Nat) (c : Char) (r : Str) (hc : c ≠ ' ') :
    (spaces n ++ c :: r).takeWhile (· == ' ') = spaces n := by
  induction n with
  | zero =>
    have : (c == ' ') = false := by simpa using hc
    simp [spaces, this]
  | succ k ih =>
    have : spaces (k + 1) = ' ' :: spaces k := by simp [spaces, List.replicate_succ]
    rw [this, List.cons_append, List.takeWhile_cons]
    simp only [beq_self_eq_true, if_true, ih]

theorem zoneSpanText_length (C : List Str) (ind : Nat) (marker trailing : Str) :
    (zoneSpanText C ind marker trailing).length =
      (fenceOpenLine ind marker trailing).length + 1 + (lineBlock C).length + (fenceCloseLine ind marker).length := by
  simp [zoneSpanText]; omega

/-- **The fence-span step.**  At the start of a pending span whose text is `open line, C, close line`, followed by a
line break, ONE iteration of the main loop consumes the whole span and the line break and yields
FENCE_OPEN (marker and tag of the span, column of the first backtick), LITERAL_CONTENT carrying EXACTLY the content
lines joined by line breaks (no hypothesis on the lines' characters), FENCE_CLOSE, NEWLINE; the line counter advances by
the number of lines of the span, the span is consumed, no receipt is written. -/
theorem step_zone (env : Env) (lenient : Bool) (st : LState) (sp : Span) (spans' : List Span)
    (C : List Str) (ind : Nat) (marker trailing rest : Str)
    (hsp : st.spans = sp :: spans') (hpos : st.pos = sp.start)
    (hlen : sp.stop = sp.start + (zoneSpanText C ind marker trailing).length)
    (hm : isMarker marker = true) (ht : tagTextOK trailing = true) (hC : ∀ l ∈ C, NoNl l) :
    ∃ st', step env lenient st (zoneSpanText C ind marker trailing ++ '\n' :: rest) = .ok (st', rest) ∧
      AdvS st st'
        [tNewline (st.line + C.length + 1) (ind + marker.length + 1), tFenceClose sp.marker (st.line + C.length + 1) 1,
         tLiteral (joinWith ['\n'] C) (st.line + 1) 1, tFenceOpen sp.marker sp.tag st.line (st.col + ind)] []
        (C.length + 2) 1 (some '\n') ((zoneSpanText C ind marker trailing).length + 1) spans' := by
  have hne : zoneSpanText C ind marker trailing ≠ [] := by simp [zoneSpanText]
  have hstep := span_step_eq env lenient st sp spans' (zoneSpanText C ind marker trailing) rest hsp hpos (by omega) hne
  refine ⟨_, hstep, ?_⟩
  rw [splitLines_zoneSpanText C ind marker trailing hm ht hC]
  obtain ⟨mc, mr, hmc⟩ : ∃ c m', marker = c :: m' := by
    cases marker with
    | nil => simp [isMarker] at hm
    | cons c m' => exact ⟨c, m', rfl⟩
  have hmc' : mc ≠ ' ' := by
    simp only [isMarker, Bool.and_eq_true] at hm
    have := (List.all_eq_true.mp hm.2) mc (by rw [hmc]; simp)
    intro e; subst e; simp at this
  have hind : ((fenceOpenLine ind marker trailing :: (C ++ [fenceCloseLine ind marker])).headD []).takeWhile (· == ' ') = spaces ind := by
    simp only [List.headD_cons, fenceOpenLine, hmc, List.append_assoc, List.cons_append]
    exact listTakeWhile_spaces ind mc _ hmc'
  have hlast : (fenceOpenLine ind marker trailing :: (C ++ [fenceCloseLine ind marker])).getLast? = some (fenceCloseLine ind marker) := by
    rw [← List.cons_append, List.getLast?_append]; rfl
  have hmid : ((fenceOpenLine ind marker trailing :: (C ++ [fenceCloseLine ind marker])).drop 1).dropLast = C := by
    simp
  have hcnt : (fenceOpenLine ind marker trailing :: (C ++ [fenceCloseLine ind marker])).length - 1 - 1 = C.length := by
    simp
  have hclen : (fenceCloseLine ind marker).length = ind + marker.length := by simp [fenceCloseLine, spaces]
  refine ⟨rfl, rfl, ?_, ?_, rfl, rfl, ?_, rfl, rfl⟩
  · show sp.stop + 1 = st.pos + _
    rw [hpos, hlen]; omega
  · show (spanNext st sp spans' _).toks = _
    simp only [spanNext, hind, hlast, hmid, hcnt, hclen, Option.getD_some, spaces, List.length_replicate]
    simp only [List.cons_append, List.nil_append]
    rw [Nat.add_right_comm st.line 1 C.length]
  · show st.line + 1 + (_ - 1 - 1) + 1 = _
    rw [hcnt]; omega

/-! ### a whole document: one top-level zone assignment, then flat `KEY::scalar` lines -/

def envLine (name : Str) : Str := "===".toList ++ name ++ "===".toList
def keyLine (key : Str) : Str := key ++ "::".toList

/-- canonical text of `===NAME===`, `KEY::`, the zone (content lines `C`; `C = []` is the empty zone), flat lines,
`===END===`. -/
def zoneFlatDocLines (name key marker trailing : Str) (C : List Str) (lines : List FLine) : Str :=
  zonedText [envLine name, keyLine key] C 0 marker trailing (linesText lines ++ ("===END===".toList ++ ['\n']))

/-- … without following lines. -/
def zoneDocLines (name key marker trailing : Str) (C : List Str) : Str :=
  zoneFlatDocLines name key marker trailing C []

/-- the lines of the document that ARE passed through NFC (everything but the zone content and the flat lines). -/
def zoneDocPlain (name key marker trailing : Str) : List Str :=
  [envLine name, keyLine key, fenceOpenLine 0 marker trailing, fenceCloseLine 0 marker, "===END===".toList, []]

/-- the tokens, newest first, without EOF. -/
def zoneFlatDocToksRev (marker : Str) (tag : Option Str) (name key : Str) (C : List Str) (lines : List FLine) : List Token :=
  [tNewline (C.length + lines.length + 5) 10, tEnvEnd (C.length + lines.length + 5) 1] ++ linesToksRev (C.length + 5) lines ++
  [tNewline (C.length + 4) (marker.length + 1), tFenceClose marker (C.length + 4) 1,
   tLiteral (joinWith ['\n'] C) 4 1, tFenceOpen marker tag 3 1,
   tNewline 2 (key.length + 3), tAssign 2 (key.length + 1), tIdent key 2 1,
   tNewline 1 (name.length + 7), tEnvStart name 1 1]

/-- the tokens in reading order, EOF included. -/
def zoneFlatDocToks (env : Env) (name key marker trailing : Str) (C : List Str) (lines : List FLine) : List Token :=
  (tEof (C.length + lines.length + 6) 1 :: zoneFlatDocToksRev marker (tagOf env trailing) name key C lines).reverse

def zoneDocToks (env : Env) (name key marker trailing : Str) (C : List Str) : List Token :=
  zoneFlatDocToks env name key marker trailing C []

theorem lineBlock_envKey_length (name key : Str) : (lineBlock [envLine name, keyLine key]).length = name.length + 6 + 1 + key.length + 2 + 1 := by
  simp [lineBlock, envLine, keyLine]; omega

/-- **the main loop on the whole document**: from the initial state (one pending span) the iterations consume the text. -/
theorem run_zoneFlatDoc (env : Env) (lenient : Bool) (name key marker trailing : Str) (C : List Str) (lines : List FLine) (sp : Span)
    (hn : isEnvName name = true) (hne : name ≠ "END".toList)
    (hk : isIdentifierText key = true) (hkr : hasReservedPrefix key = false)
    (hm : isMarker marker = true) (ht : tagTextOK trailing = true) (hC : ∀ l ∈ C, NoNl l)
    (hok : ∀ ln ∈ lines, ln.OK)
    (hstart : sp.start = (lineBlock [envLine name, keyLine key]).length)
    (hstop : sp.stop = sp.start + (zoneSpanText C 0 marker trailing).length)
    (hmk : sp.marker = marker) :
    ∃ n st', Run env lenient n ({ spans := [sp] } : LState) (zoneFlatDocLines name key marker trailing C lines) st' [] ∧
      st'.toks = zoneFlatDocToksRev marker sp.tag name key C lines ∧
      st'.repairs = linesRepsRev (C.length + 5) lines ++ (identifierRepairs key 2 1).reverse ∧ st'.stack = [] ∧
      st'.line = C.length + lines.length + 6 ∧ st'.col = 1 := by
  let st0 : LState := { spans := [sp] }
  have hlenB := lineBlock_envKey_length name key
  let zone := zoneSpanText C 0 marker trailing
  let tail : Str := linesText lines ++ ("===END===".toList ++ ['\n'])
  have ahead : ∀ (st : LState), st.spans = [sp] → st.pos < sp.start → atSpanStart st = false := by
    intro st hs hp
    exact notAtSpan_of_ahead (by rw [hs]; intro x hx; have : x = sp := by simpa using hx.symm
                                 subst this; exact hp)
  -- ===NAME===
  obtain ⟨s1, e1, a1⟩ := stepS_envStart env lenient st0 name ('\n' :: (key ++ ':' :: ':' :: '\n' :: (zone ++ '\n' :: tail)))
    (ahead st0 rfl (by show 0 < sp.start; omega)) hn hne
  have p1 : s1.pos = name.length + 6 := by rw [a1.pos]; show 0 + _ = _; omega
  -- line break
  obtain ⟨s2, e2, a2⟩ := stepS_newline env lenient s1 (key ++ ':' :: ':' :: '\n' :: (zone ++ '\n' :: tail))
    (ahead s1 a1.spans (by omega)) a1.blank
  have p2 : s2.pos = name.length + 6 + 1 := by rw [a2.pos, p1]
  have sp2 : s2.spans = [sp] := by rw [a2.spans, a1.spans]
  -- KEY
  obtain ⟨s3, e3, a3⟩ := stepS_ident env lenient s2 key (':' :: ':' :: '\n' :: (zone ++ '\n' :: tail))
    (ahead s2 sp2 (by omega)) a2.blank hk hkr (termOK_colon env _)
  have p3 : s3.pos = name.length + 6 + 1 + key.length := by rw [a3.pos, p2]
  have sp3 : s3.spans = [sp] := by rw [a3.spans, sp2]
  -- ::
  obtain ⟨s4, e4, a4⟩ := stepS_assign env lenient s3 ('\n' :: (zone ++ '\n' :: tail)) (ahead s3 sp3 (by omega)) a3.blank
  have p4 : s4.pos = name.length + 6 + 1 + key.length + 2 := by rw [a4.pos, p3]
  have sp4 : s4.spans = [sp] := by rw [a4.spans, sp3]
  -- line break
  obtain ⟨s5, e5, a5⟩ := stepS_newline env lenient s4 (zone ++ '\n' :: tail) (ahead s4 sp4 (by omega)) a4.blank
  have p5 : s5.pos = sp.start := by rw [a5.pos, p4]; omega
  have sp5 : s5.spans = [sp] := by rw [a5.spans, sp4]
  -- the zone
  obtain ⟨s6, e6, a6⟩ := step_zone env lenient s5 sp [] C 0 marker trailing tail sp5 p5 hstop hm ht hC
  -- the flat lines (no span is pending any more: the `Ready` infrastructure applies)
  obtain ⟨s7, r7, a7⟩ := run_lines env lenient lines s6 ("===END===".toList ++ ['\n']) a6.toAdv.ready a6.col hok
  -- ===END===, line break
  obtain ⟨s8, e8, a8⟩ := step_envEnd env lenient s7 ['\n'] a7.ready
  obtain ⟨s9, e9, a9⟩ := step_newline env lenient s8 [] a8.ready
  -- shapes
  have hkne : key ≠ [] := by intro h; rw [h] at hk; simp [isIdentifierText] at hk
  obtain ⟨kc, kt, hkey⟩ := List.exists_cons_of_ne_nil hkne
  have hzne : zone ++ '\n' :: tail ≠ [] := by simp
  obtain ⟨zc, zt, hz⟩ := List.exists_cons_of_ne_nil hzne
  have hshape : zoneFlatDocLines name key marker trailing C lines =
      '=' :: ("==".toList ++ name ++ "===".toList ++ '\n' :: (key ++ ':' :: ':' :: '\n' :: (zone ++ '\n' :: tail))) := by
    simp [zoneFlatDocLines, zonedText, lineBlock, envLine, keyLine, zone, tail]
  have e1' : step env lenient st0 ('=' :: ("==".toList ++ name ++ "===".toList ++ '\n' :: (key ++ ':' :: ':' :: '\n' :: (zone ++ '\n' :: tail))))
      = .ok (s1, '\n' :: (key ++ ':' :: ':' :: '\n' :: (zone ++ '\n' :: tail))) := by
    have : "===".toList ++ name ++ "===".toList ++ '\n' :: (key ++ ':' :: ':' :: '\n' :: (zone ++ '\n' :: tail))
        = '=' :: ("==".toList ++ name ++ "===".toList ++ '\n' :: (key ++ ':' :: ':' :: '\n' :: (zone ++ '\n' :: tail))) := by simp
    rw [← this]; exact e1
  have e8' : step env lenient s7 ('=' :: ("==END===".toList ++ ['\n'])) = .ok (s8, ['\n']) := e8
  have run : Run env lenient (1 + (1 + (1 + (1 + (1 + (1 + (4 * lines.length + (1 + 1)))))))) st0
      (zoneFlatDocLines name key marker trailing C lines) s9 [] := by
    rw [hshape]
    have t3 : Run env lenient (4 * lines.length + (1 + 1)) s6 tail s9 [] := Run.trans r7 (Run.cons e8' (Run.one e9))
    have t2 : Run env lenient (1 + (4 * lines.length + (1 + 1))) s5 (zone ++ '\n' :: tail) s9 [] := by
      rw [hz] at e6 ⊢
      have := Run.cons e6 t3
      rw [Nat.add_comm] at this; exact this
    have t1 : Run env lenient (1 + (1 + (1 + (1 + (4 * lines.length + (1 + 1)))))) s2 (key ++ ':' :: ':' :: '\n' :: (zone ++ '\n' :: tail)) s9 [] := by
      rw [hkey] at e3 ⊢
      have := Run.cons e3 (Run.cons e4 (Run.cons e5 t2))
      rw [Nat.add_comm _ 1, Nat.add_comm _ 1, Nat.add_comm _ 1] at this; exact this
    have := Run.cons e1' (Run.cons e2 t1)
    rw [Nat.add_comm _ 1, Nat.add_comm _ 1] at this; exact this
  -- positions
  have l1 : s1.line = 1 := by rw [a1.line]
  have l2 : s2.line = 2 := by rw [a2.line, l1]
  have l3 : s3.line = 2 := by rw [a3.line, l2]
  have l4 : s4.line = 2 := by rw [a4.line, l3]
  have l5 : s5.line = 3 := by rw [a5.line, l4]
  have l6 : s6.line = C.length + 5 := by rw [a6.line, l5]; omega
  have l7 : s7.line = C.length + lines.length + 5 := by rw [a7.line, l6]; omega
  have l8 : s8.line = C.length + lines.length + 5 := by rw [a8.line, l7]
  have c1 : s1.col = name.length + 7 := by rw [a1.col]; show 1 + _ = _; omega
  have c2 : s2.col = 1 := a2.col
  have c3 : s3.col = key.length + 1 := by rw [a3.col, c2]; omega
  have c4 : s4.col = key.length + 3 := by rw [a4.col, c3]
  have c5 : s5.col = 1 := a5.col
  have c7 : s7.col = 1 := a7.col
  have c8 : s8.col = 10 := by rw [a8.col, c7]
  refine ⟨_, s9, run, ?_, ?_, ?_, ?_, a9.col⟩
  · rw [a9.toks, a8.toks, a7.toks, a6.toks, a5.toks, a4.toks, a3.toks, a2.toks, a1.toks, l1, l2, l3, l4, l5, l6, l7, l8, c1, c2, c3, c4, c5, c7, c8, hmk]
    simp only [List.cons_append, List.nil_append, Nat.zero_add, Nat.add_zero, zoneFlatDocToksRev]
    rw [show (3 : Nat) + C.length + 1 = C.length + 4 by omega, show (3 : Nat) + 1 = 4 by rfl]
  · rw [a9.repairs, a8.repairs, a7.repairs, a6.repairs, a5.repairs, a4.repairs, a3.repairs, a2.repairs, a1.repairs, l2, c2, l6]
    simp only [List.nil_append]
    show _ ++ (_ ++ []) = _
    rw [List.append_nil]
  · rw [a9.stack, a8.stack, a7.stack, a6.stack, a5.stack, a4.stack, a3.stack, a2.stack, a1.stack]
  · rw [a9.line, l8]

theorem keyLine_clean (key : Str) (hk : isIdentifierText key = true) : Clean (keyLine key) :=
  Clean.append (identText_clean key hk) (clean_lit "::".toList (by decide))

theorem keyLine_fenceFree (key : Str) (hk : isIdentifierText key = true) : fenceLine (keyLine key) = none := by
  apply fenceLine_none_of_head
  intro c hc
  apply identText_head key hk c
  have hne : key ≠ [] := by intro e; rw [e] at hk; simp [isIdentifierText] at hk
  obtain ⟨k, t, hkt⟩ := List.exists_cons_of_ne_nil hne
  simp only [keyLine, hkt, List.cons_append, List.head?_cons] at hc ⊢
  exact hc

theorem envLine_fenceFree (name : Str) : fenceLine (envLine name) = none :=
  fenceLine_none_of_head _ (by intro c hc; have : c = '=' := by simpa [envLine] using hc.symm
                               subst this; decide)

theorem linesText_noTab : ∀ (ls : List FLine), (∀ ln ∈ ls, ln.OK) → ∀ d ∈ linesText ls, d ≠ '\t' := by
  intro ls
  induction ls with
  | nil => intro _ d hd; simp [linesText] at hd
  | cons ln ls ih =>
    intro h d hd
    simp only [linesText, List.mem_append, List.mem_cons] at hd
    rcases hd with h' | h' | h'
    · exact (line_clean ln (h ln (by simp)) d h').2
    · subst h'; decide
    · exact ih (fun l hl => h l (by simp [hl])) d h'

/-- **The lexer on a document with one literal zone followed by flat lines** (any envelope name, key, marker of ≥ 3
backticks, tag text without backtick / line break, ANY content lines none of which is a fence line with a backtick run as
long as the marker or longer, any flat `KEY::scalar` lines after the zone; both lexer modes; every environment whose NFC
leaves the STRUCTURAL lines and the flat lines alone — nothing is assumed about NFC, or anything else in `env`, on the
content): `tokenize` succeeds, LITERAL_CONTENT carries the content lines joined by line breaks — exactly — the tokens of
the following lines sit on the right line numbers, and the only receipts are the identifier notes of the keys / bare
words outside the zone. -/
theorem tokenize_zoneFlatDoc (env : Env) (lenient : Bool) (name key marker trailing : Str) (C : List Str) (lines : List FLine)
    (hn : isEnvName name = true) (hne : name ≠ "END".toList)
    (hk : isIdentifierText key = true) (hkr : hasReservedPrefix key = false)
    (hm : isMarker marker = true) (ht : tagTextOK trailing = true)
    (hC : ∀ l ∈ C, NoNl l ∧ contentLineOK marker l = true)
    (hok : ∀ ln ∈ lines, ln.OK)
    (hnfc : ∀ l ∈ zoneDocPlain name key marker trailing ++ lines.map FLine.text, env.nfc l = l) :
    tokenize env (zoneFlatDocLines name key marker trailing C lines) lenient =
      .ok (zoneFlatDocToks env name key marker trailing C lines,
           identifierRepairs key 2 1 ++ (linesRepsRev (C.length + 5) lines).reverse) := by
  have hnfc' : ∀ l ∈ zoneDocPlain name key marker trailing, env.nfc l = l := fun l hl => hnfc l (by simp [hl])
  have hB : ∀ l ∈ [envLine name, keyLine key], NoNl l ∧ fenceLine l = none ∧ env.nfc l = l := by
    intro l hl
    simp only [List.mem_cons, List.mem_nil_iff, or_false] at hl
    rcases hl with h | h
    · subst h
      exact ⟨fun d hd => (envLine_clean name hn d hd).1, envLine_fenceFree name, hnfc' _ (by simp [zoneDocPlain])⟩
    · subst h
      exact ⟨fun d hd => (keyLine_clean key hk d hd).1, keyLine_fenceFree key hk, hnfc' _ (by simp [zoneDocPlain])⟩
  have hA : ∀ l ∈ splitLines (linesText lines ++ ("===END===".toList ++ ['\n'])), fenceLine l = none ∧ env.nfc l = l := by
    intro l hl
    have h3 : splitLines ("===END===".toList ++ ['\n']) = ["===END===".toList, []] := by decide
    rw [splitLines_linesText lines _ hok, h3] at hl
    simp only [List.mem_cons, List.mem_append, List.mem_map, List.mem_nil_iff, or_false] at hl
    rcases hl with ⟨ln, hln, rfl⟩ | h | h
    · exact ⟨fenceLine_none_of_head _ (line_head ln (hok ln hln)), hnfc _ (by simp only [List.mem_append, List.mem_map]; exact Or.inr ⟨ln, hln, rfl⟩)⟩
    · subst h; exact ⟨by decide, hnfc' _ (by simp [zoneDocPlain])⟩
    · subst h; exact ⟨by decide, hnfc' _ (by simp [zoneDocPlain])⟩
  have hnorm := normalize_zone env [envLine name, keyLine key] C 0 marker trailing (linesText lines ++ ("===END===".toList ++ ['\n'])) hm ht hB hC hA
    (hnfc' _ (by simp [zoneDocPlain])) (hnfc' _ (by simp [zoneDocPlain]))
  have hpre : ∀ d ∈ lineBlock [envLine name, keyLine key], d ≠ '\t' := by
    intro d hd
    simp only [lineBlock, List.mem_append, List.mem_cons, List.mem_nil_iff, or_false] at hd
    rcases hd with h | h | h | h
    · exact (envLine_clean name hn d h).2
    · subst h; decide
    · exact (keyLine_clean key hk d h).2
    · subst h; decide
  have hpost : ∀ d ∈ '\n' :: (linesText lines ++ ("===END===".toList ++ ['\n'])), d ≠ '\t' := by
    intro d hd
    simp only [List.mem_cons, List.mem_append] at hd
    rcases hd with h | h | h
    · subst h; decide
    · exact linesText_noTab lines hok d h
    · intro he; subst he; revert h; decide
  have htab : tabCheck [zoneSpan env [envLine name, keyLine key] C 0 marker trailing] (zoneFlatDocLines name key marker trailing C lines) 0 1 1 = .ok () :=
    tabCheck_zone _ (lineBlock [envLine name, keyLine key]) (zoneSpanText C 0 marker trailing) ('\n' :: (linesText lines ++ ("===END===".toList ++ ['\n'])))
      rfl rfl hpre hpost
  obtain ⟨n, st', run, htoks, hreps, hstack, hline, hcol⟩ :=
    run_zoneFlatDoc env lenient name key marker trailing C lines (zoneSpan env [envLine name, keyLine key] C 0 marker trailing)
      hn hne hk hkr hm ht (fun l hl => (hC l hl).1) hok rfl rfl rfl
  have hspok : SpansOK [zoneSpan env [envLine name, keyLine key] C 0 marker trailing] := by
    intro sp hsp
    have : sp = zoneSpan env [envLine name, keyLine key] C 0 marker trailing := by simpa using hsp
    subst this
    simp [zoneSpan, zoneSpanText]; omega
  have hloop := loop_of_run env lenient _ _ st' (zoneFlatDocLines name key marker trailing C lines) run hspok
  unfold tokenize
  simp only [zoneFlatDocLines] at hnorm htab hloop ⊢
  simp only [hnorm, htab, hloop, bind, Except.bind, hstack, List.getLast?_nil, htoks, hreps, hline, hcol, List.reverse_append,
    List.reverse_reverse]
  rfl

/-- the document without following lines. -/
theorem tokenize_zoneDoc (env : Env) (lenient : Bool) (name key marker trailing : Str) (C : List Str)
    (hn : isEnvName name = true) (hne : name ≠ "END".toList)
    (hk : isIdentifierText key = true) (hkr : hasReservedPrefix key = false)
    (hm : isMarker marker = true) (ht : tagTextOK trailing = true)
    (hC : ∀ l ∈ C, NoNl l ∧ contentLineOK marker l = true)
    (hnfc : ∀ l ∈ zoneDocPlain name key marker trailing, env.nfc l = l) :
    tokenize env (zoneDocLines name key marker trailing C) lenient =
      .ok (zoneDocToks env name key marker trailing C, identifierRepairs key 2 1) := by
  have h := tokenize_zoneFlatDoc env lenient name key marker trailing C [] hn hne hk hkr hm ht hC (by simp) (by simpa using hnfc)
  simpa [linesRepsRev, zoneDocLines, zoneDocToks] using h

end Octave
