import Octave.Lemmas.FlatSpellParse
import Octave.Lemmas.ExprLex
/-!
OPERATOR EXPRESSIONS as values of a flat document — parser half.

The token list of an expression value is `IDENTIFIER (OP IDENTIFIER)+` (tail: `TailToks`): every position is arbitrary and every
operator token may carry any `normFrom` (the parser never reads it), so the statements cover the canonical text and every
alias spelling alike.

* `flowLoop_tail`       the loop of `parse_flow_expression` over `(OP IDENTIFIER)*`: the parts, the tension count, the
                        first tension token, the warnings (`bare_flow` per `→`, `constraint_outside_brackets` per `∧`)
* `parseValue_expr`     `parse_value` takes the `IDENTIFIER` + expression-operator path (`parse_flow_expression`) and
                        returns `.str (canonical expression text)`; exact warnings (`exprWarnsRev`)
* `parseSection_xline`  one line `KEY::expression`
* `docLoop_mixed`       the body loop of `parse_document` on lines whose values are scalars (`FlatParse.Line`) or
                        expressions (`XLine`), any number, in any order (generalises `FlatParse.docLoop_flat`)
* `parseDocument_mixed` the whole `parse_document`, with the exact warnings
-/
namespace Octave.Expr
open Octave Parser FlatParse

/-- evaluation of the parser monad on explicit states (same simp set as in `FlatParse`). -/
local macro "step_simp" "[" ts:Lean.Parser.Tactic.simpLemma,* "]" : tactic =>
  `(tactic| simp only [bind, StateT.bind, Except.bind, pure, StateT.pure, Except.pure, current_mk, peek_mk, advance_mk,
      curType_mk, isAdjacentBracket_mk, budget_mk, warn_mk, get, getThe, MonadStateOf.get, StateT.get,
      Bool.false_eq_true, if_false, if_true, Bool.false_and, Bool.and_false, Bool.or_false, Bool.false_or,
      List.length_cons, List.length_nil, beq_iff_eq, bne_iff_ne, ne_eq, reduceCtorEq, not_true_eq_false, not_false_eq_true,
      Bool.and_eq_true, Bool.or_eq_true, Bool.not_eq_true', beq_eq_false_iff_ne, false_and, and_false, true_and, and_true,
      false_or, or_false, true_or, or_true, decide_eq_true_eq,
      beq_self_eq_true, Bool.true_or, Bool.or_true, Bool.true_and, Bool.and_true, Bool.not_true, Bool.not_false, $ts,*])

/-! ### the tokens of an expression -/

/-- the tokens of `(op w)*`: an operator token (type of the operator, value the Unicode operator, ANY `normFrom`) and an
IDENTIFIER token per occurrence, at arbitrary positions. -/
inductive TailToks : List (Op × Str) → List Token → Prop
  | nil : TailToks [] []
  | cons (o : Op) (w : Str) (nf : Option Str) (l c l' c' : Nat) {r : List (Op × Str)} {ts : List Token} :
      TailToks r ts → TailToks ((o, w) :: r) (tOp o nf l c :: tIdent w l' c' :: ts)


/-- token types at which `parse_flow_expression` stops and after which the value is complete. -/
def stopsFlow (t : TT) : Bool := endsValue t && t != .section

theorem stopsFlow_imp (t : TT) (h : stopsFlow t = true) :
    isExprOp t = false ∧ t ≠ .section ∧ t ≠ .identifier ∧ t ≠ .string ∧ t ≠ .variable ∧ t ≠ .listStart := by
  cases t <;> simp_all [stopsFlow, endsValue, isValueTok, isExprOp]

/-- the pieces `parse_flow_expression` collects for the tail. -/
def tailParts : List (Op × Str) → List Str
  | [] => []
  | (o, w) :: r => [o.ch] :: w :: tailParts r

theorem flatten_tailParts (parts : List Str) (tail : List (Op × Str)) :
    (parts ++ tailParts tail).flatten = parts.flatten ++ tailText tail := by
  induction tail generalizing parts with
  | nil => simp [tailParts, tailText]
  | cons q r ih =>
    obtain ⟨o, w⟩ := q
    have := ih (parts ++ [[o.ch], w])
    simp only [tailParts, tailText, List.append_assoc, List.cons_append, List.nil_append] at this ⊢
    rw [this]; simp

/-- the warning an operator token raises at bracket depth 0. -/
def tokWarns (t : Token) : List Warning :=
  if t.type == .flow then [.bareFlow t.line t.col]
  else if t.type == .constraint then [.constraintOutside t.line t.col]
  else []

/-- the warnings of the flow loop over `ts`, newest first. -/
def flowWarnsRev : List Token → List Warning
  | [] => []
  | t :: ts => flowWarnsRev ts ++ tokWarns t

def tensionCount (ts : List Token) : Nat := (ts.filter (fun t => t.type == .tension)).length
def firstTension (ts : List Token) : Option Token := ts.find? (fun t => t.type == .tension)

theorem tail_head_not_listStart {tail : List (Op × Str)} {ts : List Token} (h : TailToks tail ts) (next : Token) (k : List Token)
    (hn : next.type ≠ .listStart) : ∃ u K, ts ++ next :: k = u :: K ∧ u.type ≠ .listStart := by
  cases h with
  | nil => exact ⟨next, k, rfl, hn⟩
  | cons o w nf l c l' c' h' => exact ⟨_, _, rfl, by cases o <;> simp [tOp, Op.tt]⟩

theorem orElse_none' (ft : Option Token) : (ft.orElse fun _ => none) = ft := by cases ft <;> rfl

/-- one operator token in the flow loop (bracket depth 0). -/
theorem flowLoop_op (fuel : Nat) (parts : List Str) (tc : Nat) (ft : Option Token) (o : Op) (nf : Option Str) (l c : Nat)
    (u : Token) (K : List Token)
    (p : Option Token) (n : Nat) (la : Token) (w : List Warning) (wd : List Nat) (s : Bool) (th : Nat) (al : Char → Bool) :
    flowLoop (fuel + 1) parts tc ft
        { rest := tOp o nf l c :: u :: K, prev := p, pos := n, last := la, warnings := w, depth := 0, warned := wd, strict := s, threshold := th, alpha := al }
      = flowLoop fuel (parts ++ [[o.ch]]) (tc + tensionCount [tOp o nf l c]) (ft.orElse fun _ => firstTension [tOp o nf l c])
        { rest := u :: K, prev := some (tOp o nf l c), pos := n + 1, last := la, warnings := tokWarns (tOp o nf l c) ++ w, depth := 0, warned := wd, strict := s, threshold := th, alpha := al } := by
  rw [flowLoop]
  cases o <;> cases ft <;>
    (step_simp [tOp, Op.tt, Op.ch, isExprOp, pyStrVal_str, tokWarns, tensionCount, firstTension, List.filter, List.find?,
      List.nil_append, List.cons_append, Nat.add_zero, Option.orElse]) <;> rfl

/-- one operand token in the flow loop (not followed by a bracket). -/
theorem flowLoop_ident (fuel : Nat) (parts : List Str) (tc : Nat) (ft : Option Token) (x : Str) (l c : Nat)
    (u : Token) (K : List Token) (hu : u.type ≠ .listStart)
    (p : Option Token) (n : Nat) (la : Token) (w : List Warning) (d : Nat) (wd : List Nat) (s : Bool) (th : Nat) (al : Char → Bool) :
    flowLoop (fuel + 1) parts tc ft
        { rest := tIdent x l c :: u :: K, prev := p, pos := n, last := la, warnings := w, depth := d, warned := wd, strict := s, threshold := th, alpha := al }
      = flowLoop fuel (parts ++ [x]) tc ft
        { rest := u :: K, prev := some (tIdent x l c), pos := n + 1, last := la, warnings := w, depth := d, warned := wd, strict := s, threshold := th, alpha := al } := by
  have he : isExprOp TT.identifier = false := rfl
  rw [flowLoop]
  step_simp [tIdent, he, pyStrVal_str, hu]

theorem tensionCount_cons2 (t1 : Token) (x : Str) (l c : Nat) (ts : List Token) :
    tensionCount (t1 :: tIdent x l c :: ts) = tensionCount [t1] + tensionCount ts := by
  have hi : (TT.identifier == TT.tension) = false := by decide
  unfold tensionCount
  by_cases h : (t1.type == .tension) = true
  · simp only [List.filter_cons, h, tIdent, hi, if_true, Bool.false_eq_true, if_false, List.length_cons, List.filter_nil, List.length_nil]; omega
  · simp only [List.filter_cons, h, tIdent, hi, Bool.false_eq_true, if_false, List.filter_nil, List.length_nil]; omega

theorem firstTension_cons2 (ft : Option Token) (t1 : Token) (x : Str) (l c : Nat) (ts : List Token) :
    ((ft.orElse fun _ => firstTension [t1]).orElse fun _ => firstTension ts)
      = ft.orElse fun _ => firstTension (t1 :: tIdent x l c :: ts) := by
  cases ft with
  | some f => rfl
  | none =>
    have hi : (TT.identifier == TT.tension) = false := by decide
    unfold firstTension
    by_cases h : (t1.type == .tension) = true
    · simp only [List.find?_cons, h, Option.orElse]
    · have h' : (t1.type == .tension) = false := by simpa using h
      simp only [List.find?_cons, h', tIdent, hi, List.find?_nil, Option.orElse]

theorem flowWarnsRev_cons2 (t1 : Token) (x : Str) (l c : Nat) (ts : List Token) :
    flowWarnsRev (t1 :: tIdent x l c :: ts) = flowWarnsRev ts ++ tokWarns t1 := by
  have h1 : (TT.identifier == TT.flow) = false := by decide
  have h2 : (TT.identifier == TT.constraint) = false := by decide
  simp only [flowWarnsRev, tokWarns, tIdent, h1, h2, Bool.false_eq_true, if_false, List.append_nil]

/-- **the loop of `parse_flow_expression` over `(OP IDENTIFIER)*`** at bracket depth 0, up to a token that stops it: the
operator values and operand names are collected in order; `→` and `∧` raise their warnings; tensions are counted. -/
theorem flowLoop_tail {tail : List (Op × Str)} {ts : List Token} (h : TailToks tail ts) :
    ∀ (fuel : Nat) (parts : List Str) (tc : Nat) (ft : Option Token) (next : Token) (k : List Token), stopsFlow next.type = true →
    ∀ (p : Option Token) (n : Nat) (la : Token) (w : List Warning) (wd : List Nat) (s : Bool) (th : Nat) (al : Char → Bool),
    ∃ p', flowLoop (fuel + ts.length + 1) parts tc ft
        { rest := ts ++ next :: k, prev := p, pos := n, last := la, warnings := w, depth := 0, warned := wd, strict := s, threshold := th, alpha := al }
      = .ok ((parts ++ tailParts tail, tc + tensionCount ts, ft.orElse fun _ => firstTension ts),
             { rest := next :: k, prev := p', pos := n + ts.length, last := la, warnings := flowWarnsRev ts ++ w, depth := 0,
               warned := wd, strict := s, threshold := th, alpha := al }) := by
  induction h with
  | nil =>
    intro fuel parts tc ft next k hn p n la w wd s th al
    obtain ⟨h1, h2, h3, h4, h5, -⟩ := stopsFlow_imp _ hn
    refine ⟨p, ?_⟩
    rw [List.nil_append, List.length_nil, Nat.add_zero, flowLoop]
    step_simp [h1, h2, h3, h4, h5, tailParts, List.append_nil, tensionCount, firstTension, List.filter, List.find?, Nat.add_zero,
      flowWarnsRev, List.nil_append, orElse_none']
  | cons o x nf l c l' c' h' ih =>
    rename_i r ts'
    intro fuel parts tc ft next k hn p n la w wd s th al
    obtain ⟨-, -, -, -, -, h6⟩ := stopsFlow_imp _ hn
    obtain ⟨u, K, hK, hu⟩ := tail_head_not_listStart h' next k h6
    obtain ⟨p', hih⟩ := ih fuel (parts ++ [[o.ch]] ++ [x]) (tc + tensionCount [tOp o nf l c])
      (ft.orElse fun _ => firstTension [tOp o nf l c]) next k hn (some (tIdent x l' c')) (n + 1 + 1) la
      (tokWarns (tOp o nf l c) ++ w) wd s th al
    refine ⟨p', ?_⟩
    have hf : fuel + (tOp o nf l c :: tIdent x l' c' :: ts').length + 1 = ((fuel + ts'.length + 1) + 1) + 1 := by
      simp only [List.length_cons]; omega
    rw [hf, List.cons_append, List.cons_append, flowLoop_op, hK, flowLoop_ident (hu := hu), ← hK, hih,
      firstTension_cons2 ft (tOp o nf l c) x l' c' ts']
    have hp : n + 1 + 1 + ts'.length = n + (tOp o nf l c :: tIdent x l' c' :: ts').length := by
      simp only [List.length_cons]; omega
    rw [hp, tensionCount_cons2, flowWarnsRev_cons2]
    simp only [tailParts, List.append_assoc, List.cons_append, List.nil_append, Nat.add_assoc]

/-! ### `parseValue` on an expression -/

theorem isExprOp_tt (o : Op) : isExprOp o.tt = true := by cases o <;> rfl

/-- the `chained_tension` warning: more than one `⇌` in the expression, reported at the first one. -/
def chainWarn (ts : List Token) : List Warning :=
  match firstTension ts with
  | some ft => if tensionCount ts > 1 then [.chainedTension ft.line ft.col] else []
  | none => []

/-- all warnings `parse_value` raises on the expression whose tail tokens are `ts` (bracket depth 0), newest first. -/
def exprWarnsRev (ts : List Token) : List Warning := chainWarn ts ++ flowWarnsRev ts

/-- **`parse_value` on the tokens of an expression** `IDENTIFIER (OP IDENTIFIER)+` — arbitrary positions, arbitrary
`normFrom` on the operator tokens — followed by a token that stops the flow loop: the value is the STRING made of the
operand names and the Unicode operators, i.e. the canonical expression text; the cursor is left on that token. -/
theorem parseValue_expr (e : Expr) (hne : e.tail ≠ []) (l c : Nat) {ts : List Token} (h : TailToks e.tail ts)
    (next : Token) (k : List Token) (hn : stopsFlow next.type = true) (fuel : Nat)
    (p : Option Token) (n : Nat) (la : Token) (w : List Warning) (wd : List Nat) (s : Bool) (th : Nat) (al : Char → Bool) :
    ∃ p', parseValue (fuel + 1)
        { rest := tIdent e.head l c :: (ts ++ next :: k), prev := p, pos := n, last := la, warnings := w, depth := 0, warned := wd, strict := s, threshold := th, alpha := al }
      = .ok (.str e.text,
             { rest := next :: k, prev := p', pos := n + 1 + ts.length, last := la, warnings := exprWarnsRev ts ++ w, depth := 0,
               warned := wd, strict := s, threshold := th, alpha := al }) := by
  obtain ⟨-, -, -, -, -, h6⟩ := stopsFlow_imp _ hn
  obtain ⟨hd, tl⟩ := e
  cases h with
  | nil => exact absurd rfl hne
  | cons o x nf l1 c1 l2 c2 h' =>
    rename_i r ts'
    have hcons : TailToks ((o, x) :: r) (tOp o nf l1 c1 :: tIdent x l2 c2 :: ts') := TailToks.cons o x nf l1 c1 l2 c2 h'
    obtain ⟨p', hfl⟩ := flowLoop_tail hcons (k.length + 2) ([] ++ [hd]) 0 none next k hn (some (tIdent hd l c)) (n + 1) la w wd s th al
    refine ⟨p', ?_⟩
    have hty : (tOp o nf l1 c1).type ≠ TT.listStart := by cases o <;> simp [tOp, Op.tt]
    have ht1 : (tIdent hd l c).type = TT.identifier := rfl
    have ht2 : (tOp o nf l1 c1).type = o.tt := rfl
    rw [parseValue]
    step_simp [List.cons_append, ht1, ht2, isExprOp_tt]
    unfold parseFlowExpression
    step_simp []
    have hb : (ts' ++ next :: k).length + 1 + 1 + 1 + 2 = ((k.length + 2) + (tOp o nf l1 c1 :: tIdent x l2 c2 :: ts').length + 1) + 1 := by
      simp only [List.length_append, List.length_cons]; omega
    rw [hb, flowLoop_ident (hu := hty)]
    simp only [List.cons_append] at hfl
    rw [hfl]
    step_simp []
    rw [trailingBracket_stop (hl := h6)]
    simp only [Option.orElse, Nat.zero_add]
    have hflat : ([] ++ [hd] ++ tailParts ((o, x) :: r)).flatten = Expr.text ⟨hd, (o, x) :: r⟩ := by
      rw [flatten_tailParts]; simp [Expr.text]
    rw [hflat]
    unfold exprWarnsRev chainWarn
    generalize firstTension (tOp o nf l1 c1 :: tIdent x l2 c2 :: ts') = FT
    generalize tensionCount (tOp o nf l1 c1 :: tIdent x l2 c2 :: ts') = TC
    cases FT with
    | none => rfl
    | some ft =>
      by_cases hc : TC > 1
      · simp only [hc, if_true]; rfl
      · simp only [hc, if_false]; rfl

/-! ### `parseSection` on one line `KEY::expression` -/

/-- one line `KEY::expression NEWLINE` at token level: every position arbitrary. -/
structure XLine where
  key : Str
  /-- line and column of the key token -/
  l : Nat
  c1 : Nat
  /-- column of `::` -/
  c2 : Nat
  e : Expr
  /-- position of the head operand -/
  hl : Nat
  hc : Nat
  /-- the tokens of the tail `(OP IDENTIFIER)+` -/
  ts : List Token
  /-- position of the NEWLINE -/
  nlL : Nat
  nlC : Nat

/-- the tail tokens are tokens of the tail; there is at least one operator. -/
def XLine.WF (x : XLine) : Prop := TailToks x.e.tail x.ts ∧ x.e.tail ≠ []

def XLine.nlTok (x : XLine) : Token := tNewline x.nlL x.nlC
def XLine.toks (x : XLine) : List Token :=
  tIdent x.key x.l x.c1 :: tAssign x.l x.c2 :: tIdent x.e.head x.hl x.hc :: (x.ts ++ [x.nlTok])
/-- the Assignment node: the value is the canonical expression text, as a string. -/
def XLine.node (x : XLine) : Node := .assign x.key (.str x.e.text) x.l x.c1 [] none

/-- W_PATTERN_AUTOQUOTE for an (unquoted) expression under `PATTERN` / `REGEX`. -/
def autoquote (key val : Str) (l c : Nat) : List Warning :=
  if key == "PATTERN".toList || key == "REGEX".toList then [.patternAutoquote key val l c] else []

/-- the parser warnings of the line, newest first. -/
def XLine.warnsRev (x : XLine) : List Warning := autoquote x.key x.e.text x.l x.c1 ++ exprWarnsRev x.ts

theorem parseSection_xline (x : XLine) (hx : x.WF) (k : List Token) (fuel : Nat)
    (p : Option Token) (n : Nat) (la : Token) (w : List Warning) (wd : List Nat) (s : Bool) (th : Nat) (al : Char → Bool) :
    ∃ p', parseSection (fuel + 2) []
        { rest := x.toks ++ k, prev := p, pos := n, last := la, warnings := w, depth := 0, warned := wd, strict := s, threshold := th, alpha := al }
      = .ok (some x.node,
             { rest := x.nlTok :: k, prev := p', pos := n + 3 + x.ts.length, last := la, warnings := x.warnsRev ++ w, depth := 0,
               warned := wd, strict := s, threshold := th, alpha := al }) := by
  obtain ⟨key, l, c1, c2, e, hl, hc, ts, nlL, nlC⟩ := x
  obtain ⟨hts, hne⟩ := hx
  simp only at hts hne
  obtain ⟨p', hpv⟩ := parseValue_expr e hne hl hc hts (tNewline nlL nlC) k rfl fuel (some (tAssign l c2)) (n + 1 + 1) la w wd s th al
  refine ⟨p', ?_⟩
  have hshape : XLine.toks ⟨key, l, c1, c2, e, hl, hc, ts, nlL, nlC⟩ ++ k
      = tIdent key l c1 :: tAssign l c2 :: (tIdent e.head hl hc :: (ts ++ tNewline nlL nlC :: k)) := by
    simp [XLine.toks, XLine.nlTok, List.append_assoc]
  have ht1 : (tIdent key l c1).type = TT.identifier := rfl
  have ht2 : (tAssign l c2).type = TT.assign := rfl
  have ht3 : (tIdent e.head hl hc).type = TT.identifier := rfl
  have ht4 : (tNewline nlL nlC).type = TT.newline := rfl
  have hv1 : (tIdent key l c1).value = TVal.str key := rfl
  rw [hshape, parseSection]
  step_simp [ht1, ht2, ht3, hv1, pyStrVal_str]
  rw [hpv]
  by_cases hk : key = "PATTERN".toList ∨ key = "REGEX".toList
  · step_simp [hk, ht4, XLine.node, XLine.warnsRev, XLine.nlTok, autoquote, List.cons_append, List.nil_append]
    have hp : n + 1 + 1 + 1 + ts.length = n + 3 + ts.length := by omega
    rw [hp]; rfl
  · step_simp [hk, ht4, XLine.node, XLine.warnsRev, XLine.nlTok, autoquote, List.cons_append, List.nil_append]
    have hp : n + 1 + 1 + 1 + ts.length = n + 3 + ts.length := by omega
    rw [hp]; rfl

/-! ### the body loop of `parseDocument` on lines with scalar or expression values -/

/-- one iteration pair of the body loop, given what `parse_section` does on the line: the Assignment is appended, its key
tracked, the line's NEWLINE stepped over. -/
theorem docLoop_assign_step (vf fuel : Nat) (acc : List Node) (kp : KeyPos) (t : Token) (R : List Token)
    (ht : t.type = TT.identifier) (key : Str) (val : Value) (ln cn : Nat) (nl : Token) (hnl : nl.type = TT.newline)
    (R' : List Token) (hR' : R' ≠ [])
    (p p1 : Option Token) (n n1 : Nat) (la : Token) (w w1 : List Warning) (d : Nat) (wd : List Nat) (s : Bool) (th : Nat) (al : Char → Bool)
    (hps : parseSection vf []
        { rest := t :: R, prev := p, pos := n, last := la, warnings := w, depth := d, warned := wd, strict := s, threshold := th, alpha := al }
      = .ok (some (.assign key val ln cn [] none),
             { rest := nl :: R', prev := p1, pos := n1, last := la, warnings := w1, depth := d, warned := wd, strict := s, threshold := th, alpha := al })) :
    docLoop vf (fuel + 2) [] acc kp
        { rest := t :: R, prev := p, pos := n, last := la, warnings := w, depth := d, warned := wd, strict := s, threshold := th, alpha := al }
      = docLoop vf fuel [] (acc ++ [.assign key val ln cn [] none]) (trackPure kp key ln).1
        { rest := R', prev := some nl, pos := n1 + 1, last := la, warnings := (trackPure kp key ln).2 ++ w1, depth := d,
          warned := wd, strict := s, threshold := th, alpha := al } := by
  rw [docLoop]
  step_simp [ht]
  rw [hps]
  step_simp [nodeAssignKey?, trackKey_eq]
  rw [docLoop]
  step_simp [hnl]
  rw [advance_ne (h := hR')]

/-- a line of the body at token level: a scalar line (`FlatParse.Line`) or an expression line. -/
inductive PLine where
  | sc (ln : Line)
  | ex (x : XLine)

def PLine.toks : PLine → List Token
  | .sc ln => ln.toks
  | .ex x => x.toks
def PLine.node : PLine → Node
  | .sc ln => ln.node
  | .ex x => x.node
def PLine.key : PLine → Str
  | .sc ln => ln.key
  | .ex x => x.key
def PLine.l : PLine → Nat
  | .sc ln => ln.l
  | .ex x => x.l
/-- the warnings of the line's value, in emission order. -/
def PLine.warns : PLine → List Warning
  | .sc ln => ln.warns
  | .ex x => x.warnsRev.reverse
def PLine.WF : PLine → Prop
  | .sc _ => True
  | .ex x => x.WF

/-- all parser warnings of the body loop, in emission order (cf. `FlatParse.docWarns`). -/
def mixedWarns : KeyPos → List PLine → List Warning
  | _, [] => []
  | kp, ln :: r => ln.warns ++ (trackPure kp ln.key ln.l).2 ++ mixedWarns (trackPure kp ln.key ln.l).1 r

theorem pline_toks_length_pos (ln : PLine) : 2 ≤ ln.toks.length := by
  cases ln with
  | sc ln => simp [PLine.toks, Line.toks]
  | ex x => simp [PLine.toks, XLine.toks]

/-- **the body loop on any number of lines whose values are scalars or expressions**, in any order (bracket depth 0):
one Assignment per line, in order; generalises `FlatParse.docLoop_flat`. -/
theorem docLoop_mixed (vf : Nat) (lines : List PLine) (e : Token) (tail : List Token)
    (he : e.type = .envelopeEnd ∨ e.type = .eof) (hwf : ∀ ln ∈ lines, ln.WF) :
    ∀ (acc : List Node) (kp : KeyPos) (extra : Nat)
      (p : Option Token) (n : Nat) (la : Token) (w : List Warning) (wd : List Nat) (s : Bool) (th : Nat) (al : Char → Bool),
    ∃ p' n', docLoop (vf + 3) (2 * lines.length + 1 + extra) [] acc kp
        { rest := lines.flatMap PLine.toks ++ e :: tail, prev := p, pos := n, last := la, warnings := w, depth := 0, warned := wd, strict := s, threshold := th, alpha := al }
      = .ok ((acc ++ lines.map PLine.node, []),
             { rest := e :: tail, prev := p', pos := n', last := la, warnings := (mixedWarns kp lines).reverse ++ w, depth := 0,
               warned := wd, strict := s, threshold := th, alpha := al }) := by
  induction lines with
  | nil =>
    intro acc kp extra p n la w wd s th al
    refine ⟨p, n, ?_⟩
    have hf : 2 * ([] : List PLine).length + 1 + extra = extra + 1 := by simp only [List.length_nil]; omega
    rw [hf, List.flatMap_nil, List.nil_append, docLoop]
    step_simp [he]
    simp only [List.map_nil, List.append_nil, mixedWarns, List.reverse_nil, List.nil_append]
  | cons ln r ih =>
    intro acc kp extra p n la w wd s th al
    have hf : 2 * (ln :: r).length + 1 + extra = (2 * r.length + 1 + extra) + 2 := by
      simp only [List.length_cons]; omega
    have hR' : r.flatMap PLine.toks ++ e :: tail ≠ [] := by simp
    have hwf' : ∀ x ∈ r, x.WF := fun x hx => hwf x (List.mem_cons_of_mem _ hx)
    cases ln with
    | sc ln =>
      have hps := parseSection_flat_line
        { rest := ln.toks ++ (r.flatMap PLine.toks ++ e :: tail), prev := p, pos := n, last := la, warnings := w, depth := 0, warned := wd, strict := s, threshold := th, alpha := al }
        ln (r.flatMap PLine.toks ++ e :: tail) vf rfl
      obtain ⟨p', n', hih⟩ := ih hwf' (acc ++ [Node.assign ln.key ln.v.val ln.l ln.c1 [] none]) (trackPure kp ln.key ln.l).1 extra (some ln.nlTok) (n + 3 + 1) la
        ((trackPure kp ln.key ln.l).2 ++ (ln.warns ++ w)) wd s th al
      refine ⟨p', n', ?_⟩
      have hshape : (PLine.sc ln :: r).flatMap PLine.toks ++ e :: tail
          = ln.keyTok :: ([ln.assignTok, ln.valTok, ln.nlTok] ++ (r.flatMap PLine.toks ++ e :: tail)) := by
        simp only [List.flatMap_cons, PLine.toks, Line.toks, List.cons_append, List.nil_append]
      have hps' : parseSection (vf + 3) []
          { rest := ln.keyTok :: ([ln.assignTok, ln.valTok, ln.nlTok] ++ (r.flatMap PLine.toks ++ e :: tail)), prev := p, pos := n, last := la, warnings := w, depth := 0, warned := wd, strict := s, threshold := th, alpha := al }
          = .ok (some (.assign ln.key ln.v.val ln.l ln.c1 [] none),
             { rest := ln.nlTok :: (r.flatMap PLine.toks ++ e :: tail), prev := some ln.valTok, pos := n + 3, last := la, warnings := ln.warns ++ w, depth := 0,
               warned := wd, strict := s, threshold := th, alpha := al }) := hps
      rw [hf, hshape, docLoop_assign_step (ht := rfl) (hnl := rfl) (hR' := hR') (hps := hps'), hih]
      simp only [List.map_cons, PLine.node, Line.node, List.append_assoc, List.cons_append, List.nil_append, mixedWarns, PLine.warns,
        PLine.key, PLine.l, List.reverse_append, trackPure_warns_reverse, Line.warns_reverse]
    | ex x =>
      obtain ⟨p1, hps⟩ := parseSection_xline x (hwf _ (List.mem_cons_self ..)) (r.flatMap PLine.toks ++ e :: tail) (vf + 1) p n la w wd s th al
      obtain ⟨p', n', hih⟩ := ih hwf' (acc ++ [Node.assign x.key (.str x.e.text) x.l x.c1 [] none]) (trackPure kp x.key x.l).1 extra (some x.nlTok) (n + 3 + x.ts.length + 1) la
        ((trackPure kp x.key x.l).2 ++ (x.warnsRev ++ w)) wd s th al
      refine ⟨p', n', ?_⟩
      have hshape : (PLine.ex x :: r).flatMap PLine.toks ++ e :: tail
          = tIdent x.key x.l x.c1 :: (tAssign x.l x.c2 :: tIdent x.e.head x.hl x.hc :: (x.ts ++ [x.nlTok]) ++ (r.flatMap PLine.toks ++ e :: tail)) := by
        simp only [List.flatMap_cons, PLine.toks, XLine.toks, List.append_assoc, List.cons_append, List.nil_append]
      have hps' : parseSection (vf + 3) []
          { rest := tIdent x.key x.l x.c1 :: (tAssign x.l x.c2 :: tIdent x.e.head x.hl x.hc :: (x.ts ++ [x.nlTok]) ++ (r.flatMap PLine.toks ++ e :: tail)), prev := p, pos := n, last := la, warnings := w, depth := 0, warned := wd, strict := s, threshold := th, alpha := al }
          = .ok (some (.assign x.key (.str x.e.text) x.l x.c1 [] none),
             { rest := x.nlTok :: (r.flatMap PLine.toks ++ e :: tail), prev := p1, pos := n + 3 + x.ts.length, last := la, warnings := x.warnsRev ++ w, depth := 0,
               warned := wd, strict := s, threshold := th, alpha := al }) := hps
      rw [hf, hshape, docLoop_assign_step (ht := rfl) (hnl := rfl) (hR' := hR') (hps := hps'), hih]
      simp only [List.map_cons, PLine.node, XLine.node, List.append_assoc, List.cons_append, List.nil_append, mixedWarns, PLine.warns,
        PLine.key, PLine.l, List.reverse_append, trackPure_warns_reverse, List.reverse_reverse]

/-! ### `parseDocument` on the whole document -/

/-- the token list of the document:
`ENVELOPE_START(name) NEWLINE [IDENTIFIER ASSIGN (scalar | IDENTIFIER (OP IDENTIFIER)+) NEWLINE]* ENVELOPE_END NEWLINE EOF`. -/
def mixedToks (f : Frame) (name : Str) (lines : List PLine) : List Token :=
  f.envTok name :: f.nl0Tok :: (lines.flatMap PLine.toks ++ [f.endTok, f.nl1Tok, f.eofTok])

/-- the first line's key is `META`. -/
def mixedMetaFirst : List PLine → Bool
  | ln :: _ => ln.key == "META".toList
  | [] => false

theorem mixed_toks_length (lines : List PLine) : 2 * lines.length ≤ (lines.flatMap PLine.toks).length := by
  induction lines with
  | nil => simp
  | cons ln r ih =>
    have := pline_toks_length_pos ln
    simp only [List.flatMap_cons, List.length_append, List.length_cons]; omega

theorem mixed_body_head (f : Frame) (lines : List PLine) (hm : mixedMetaFirst lines = false) :
    ∃ u K, lines.flatMap PLine.toks ++ [f.endTok, f.nl1Tok, f.eofTok] = u :: K ∧ SpellParse.BodyHead u := by
  cases lines with
  | nil => exact ⟨f.endTok, _, rfl, SpellParse.bodyHead_end _ (Or.inl rfl)⟩
  | cons ln r =>
    cases ln with
    | sc ln =>
      refine ⟨ln.keyTok, _, rfl, SpellParse.bodyHead_key ln ?_⟩
      simpa [mixedMetaFirst, PLine.key] using hm
    | ex x =>
      have hk : x.key ≠ "META".toList := by simpa [mixedMetaFirst, PLine.key] using hm
      refine ⟨tIdent x.key x.l x.c1, _, rfl, ?_⟩
      refine ⟨by simp [tIdent], by simp [tIdent], by simp [tIdent], by simp [tIdent], by simp [tIdent], fun hh => hk ?_⟩
      have := hh.2; simp only [tIdent, TVal.str.injEq] at this; exact this

/-- **`parse_document` on a flat document whose values are scalars or expressions** (token level, every position
arbitrary, any `normFrom` on the operator tokens): the document with that name and one Assignment per line — an
expression value is the string of its canonical text — and exactly the warnings `mixedWarns`. -/
theorem parseDocument_mixed (f : Frame) (name : Str) (lines : List PLine) (hwf : ∀ ln ∈ lines, ln.WF)
    (hm : mixedMetaFirst lines = false) (st : PState) (hd : st.depth = 0) (hr : st.rest = mixedToks f name lines) :
    ∃ st', parseDocument st = .ok ({ name := name, sections := lines.map PLine.node }, st') ∧
      st'.warnings = (mixedWarns [] lines).reverse ++ st.warnings := by
  obtain ⟨u, K, hK, h1, h2, h3, h4, h5, h6⟩ := mixed_body_head f lines hm
  obtain ⟨rest, prev, pos, last, warnings, depth, warned, strict, threshold, alpha⟩ := st
  simp only at hd hr
  subst hd
  have hrest : rest = f.envTok name :: f.nl0Tok :: u :: K := by rw [hr, mixedToks, hK]
  subst hrest
  have hlen : 2 * lines.length + 3 ≤ (u :: K).length := by
    have := congrArg List.length hK
    have h2 := mixed_toks_length lines
    simp only [List.length_append, List.length_cons, List.length_nil] at this ⊢
    omega
  unfold parseDocument
  simp (config := {zeta := false}) only [bind, StateT.bind, Except.bind, budget_mk]
  extract_lets n doc0 jp5 jp4 jp3 jp2 jp1
  step_simp [Frame.envTok, Frame.nl0Tok, skipWhitespace_stop]
  simp only [jp1]
  step_simp []
  simp only [jp2]
  step_simp [skipWhitespace_newline, pyStrVal_str, h1, h2]
  simp only [jp3]
  step_simp [h6]
  simp only [jp4]
  step_simp [h3]
  simp only [jp5]
  step_simp []
  obtain ⟨extra, hextra⟩ : ∃ extra, 2 * n = 2 * lines.length + 1 + extra :=
    ⟨2 * n - (2 * lines.length + 1), by simp only [n, List.length_cons] at hlen ⊢; omega⟩
  obtain ⟨vf0, hvf⟩ : ∃ vf0, n = vf0 + 3 := ⟨n - 3, by simp only [n]; omega⟩
  obtain ⟨p', n', hdl⟩ := docLoop_mixed vf0 lines f.endTok [f.nl1Tok, f.eofTok] (Or.inl rfl) hwf [] [] extra
    (some { type := TT.newline, value := TVal.str "\n".toList, line := f.nl0L, col := f.nl0C }) (pos + 1 + 1) last warnings warned strict threshold alpha
  rw [hK, ← hvf, ← hextra] at hdl
  rw [hdl]
  step_simp [List.nil_append]
  exact SpellParse.finish_doc _ _ f.endTok

/-! ### non-vacuity: symbolic positions, any `normFrom` -/

/-- `A op B` with the operator token written any way (`nf`), every position arbitrary: the value is the string `A→B`,
one `bare_flow` warning at the operator. -/
example (l c l1 c1 l2 c2 l3 c3 : Nat) (nf : Option Str) (k : List Token)
    (p : Option Token) (n : Nat) (la : Token) (w : List Warning) (wd : List Nat) (s : Bool) (th : Nat) (al : Char → Bool) :
    ∃ p', parseValue 1
        { rest := tIdent "A".toList l c :: ([tOp .flow nf l1 c1, tIdent "B".toList l2 c2] ++ tNewline l3 c3 :: k), prev := p, pos := n, last := la,
          warnings := w, depth := 0, warned := wd, strict := s, threshold := th, alpha := al }
      = .ok (.str "A→B".toList,
             { rest := tNewline l3 c3 :: k, prev := p', pos := n + 1 + 2, last := la, warnings := [.bareFlow l1 c1] ++ w, depth := 0,
               warned := wd, strict := s, threshold := th, alpha := al }) :=
  parseValue_expr ⟨"A".toList, [(.flow, "B".toList)]⟩ (by simp) l c
    (TailToks.cons .flow "B".toList nf l1 c1 l2 c2 TailToks.nil) (tNewline l3 c3) k rfl 0 p n la w wd s th al

end Octave.Expr
