/-
Parser half of the "flat document" read theorem (C01 / C02).

A flat document is an envelope line, any number of lines `KEY::scalar`, and `===END===`.  This file gives
the token-level description (`Scalar`, `Line`, `Frame`, `flatToks`, `flatDoc`) — every token position is an
arbitrary number — and proves what the model's parser does on it, function by function:

* `parseValue_scalar`       one scalar token followed by a token that ends the value → exactly its value
* `parseSection_flat_line`  one line → `some (Assignment …)`, cursor left ON the line's NEWLINE
* `docLoop_flat`            the body loop of `parse_document`, by induction on the list of lines (any length)
* `parseDocument_flat`      the whole `parse_document`; `parseDocument_flat_meta_first`: the excluded case
* `docWarns` / `docWarns_eq_nil`  the exact parser warnings, and when there are none

Proof style: the parser monad is evaluated on explicit `PState.mk …` states with the `…_mk` rewrite lemmas
(`step_simp`); loops are entered with `rw [f]` on `fuel + 1`; `parseDocument`'s join points are lifted with
`extract_lets` and unfolded one at a time (plain `simp` on it blows up: each join point is used twice).
The property theorems are in `Props/C02flat.lean`.  Everything here lives in `namespace Octave.FlatParse`.
-/
import Octave.Model.ParserTop
namespace Octave.FlatParse
open Octave Parser

/-- scalar values as they appear in canonical text (one token each). `word` is a bare word: an
IDENTIFIER token, read back as a string. -/
inductive Scalar where
  | str (s : Str)
  | int (i : Int) (raw : Str)
  | float (r raw : Str)
  | bool (b : Bool)
  | null
  | word (w : Str)
  deriving DecidableEq, Repr, Inhabited

/-- the token of a scalar at line `l`, column `c`. -/
def Scalar.tok (v : Scalar) (l c : Nat) : Token :=
  match v with
  | .str s => { type := .string, value := .str s, line := l, col := c }
  | .int i raw => { type := .number, value := .int i, line := l, col := c, raw := some raw }
  | .float r raw => { type := .number, value := .float r, line := l, col := c, raw := some raw }
  | .bool b => { type := .boolean, value := .bool b, line := l, col := c }
  | .null => { type := .null, value := .none, line := l, col := c }
  | .word w => { type := .identifier, value := .str w, line := l, col := c }

/-- the AST value of a scalar. -/
def Scalar.val : Scalar → Value
  | .str s => .str s
  | .int i _ => .int i
  | .float r _ => .float r
  | .bool b => .bool b
  | .null => .null
  | .word w => .str w

def Scalar.isWord : Scalar → Bool
  | .word _ => true
  | _ => false

/-- one line `KEY::scalar\n`: four tokens at arbitrary positions. -/
structure Line where
  key : Str
  v : Scalar
  l : Nat
  c1 : Nat
  c2 : Nat
  c3 : Nat
  c4 : Nat
  deriving DecidableEq, Repr, Inhabited

def Line.keyTok (ln : Line) : Token := { type := .identifier, value := .str ln.key, line := ln.l, col := ln.c1 }
def Line.assignTok (ln : Line) : Token := { type := .assign, value := .str "::".toList, line := ln.l, col := ln.c2 }
def Line.valTok (ln : Line) : Token := ln.v.tok ln.l ln.c3
def Line.nlTok (ln : Line) : Token := { type := .newline, value := .str "\n".toList, line := ln.l, col := ln.c4 }

def Line.toks (ln : Line) : List Token := [ln.keyTok, ln.assignTok, ln.valTok, ln.nlTok]

def Line.node (ln : Line) : Node := .assign ln.key ln.v.val ln.l ln.c1 [] none


/-- token types after which a scalar token is read on its own: not a value token (no multi-word
coalescing), not an expression operator, no bracket, no `:` (colon path). -/
def endsValue (t : TT) : Bool := !isValueTok t && !isExprOp t && t != .listStart && t != .block

/-! ### cursor primitives on an explicit state (simp lemmas) -/

theorem current_mk (t : Token) (r : List Token) (p : Option Token) (n : Nat) (la : Token) (w : List Warning)
    (d : Nat) (wd : List Nat) (s : Bool) (th : Nat) (al : Char → Bool) :
    current { rest := t :: r, prev := p, pos := n, last := la, warnings := w, depth := d, warned := wd, strict := s, threshold := th, alpha := al }
      = .ok (t, { rest := t :: r, prev := p, pos := n, last := la, warnings := w, depth := d, warned := wd, strict := s, threshold := th, alpha := al }) := rfl

theorem curType_mk (t : Token) (r : List Token) (p : Option Token) (n : Nat) (la : Token) (w : List Warning)
    (d : Nat) (wd : List Nat) (s : Bool) (th : Nat) (al : Char → Bool) :
    curType { rest := t :: r, prev := p, pos := n, last := la, warnings := w, depth := d, warned := wd, strict := s, threshold := th, alpha := al }
      = .ok (t.type, { rest := t :: r, prev := p, pos := n, last := la, warnings := w, depth := d, warned := wd, strict := s, threshold := th, alpha := al }) := rfl

theorem peek_mk (t u : Token) (r : List Token) (p : Option Token) (n : Nat) (la : Token) (w : List Warning)
    (d : Nat) (wd : List Nat) (s : Bool) (th : Nat) (al : Char → Bool) :
    peek 1 { rest := t :: u :: r, prev := p, pos := n, last := la, warnings := w, depth := d, warned := wd, strict := s, threshold := th, alpha := al }
      = .ok (u, { rest := t :: u :: r, prev := p, pos := n, last := la, warnings := w, depth := d, warned := wd, strict := s, threshold := th, alpha := al }) := rfl

theorem advance_mk (t u : Token) (r : List Token) (p : Option Token) (n : Nat) (la : Token) (w : List Warning)
    (d : Nat) (wd : List Nat) (s : Bool) (th : Nat) (al : Char → Bool) :
    advance { rest := t :: u :: r, prev := p, pos := n, last := la, warnings := w, depth := d, warned := wd, strict := s, threshold := th, alpha := al }
      = .ok (t, { rest := u :: r, prev := some t, pos := n + 1, last := la, warnings := w, depth := d, warned := wd, strict := s, threshold := th, alpha := al }) := rfl

theorem pyStrVal_str (s : Str) : pyStrVal (.str s) = s := rfl

theorem budget_mk (st : PState) : budget st = .ok (st.rest.length + 2, st) := rfl

theorem warn_mk (x : Warning) (st : PState) : warn x st = .ok ((), { st with warnings := x :: st.warnings }) := rfl

theorem get_mk (st : PState) : (get : P PState) st = .ok (st, st) := rfl

theorem isAdjacentBracket_mk (q : Token) (t : Token) (r : List Token) (n : Nat) (la : Token) (w : List Warning)
    (d : Nat) (wd : List Nat) (s : Bool) (th : Nat) (al : Char → Bool) :
    isAdjacentBracket { rest := t :: r, prev := some q, pos := n, last := la, warnings := w, depth := d, warned := wd, strict := s, threshold := th, alpha := al }
      = .ok (q.line == t.line && q.col + prevLen q == t.col, { rest := t :: r, prev := some q, pos := n, last := la, warnings := w, depth := d, warned := wd, strict := s, threshold := th, alpha := al }) := rfl


/-- evaluation of the parser monad on explicit states. -/
local macro "step_simp" "[" ts:Lean.Parser.Tactic.simpLemma,* "]" : tactic =>
  `(tactic| simp only [bind, StateT.bind, Except.bind, pure, StateT.pure, Except.pure, current_mk, peek_mk, advance_mk,
      curType_mk, isAdjacentBracket_mk, budget_mk, warn_mk, get, getThe, MonadStateOf.get, StateT.get,
      Bool.false_eq_true, if_false, if_true, Bool.false_and, Bool.and_false, Bool.or_false, Bool.false_or,
      List.length_cons, List.length_nil, beq_iff_eq, bne_iff_ne, ne_eq, reduceCtorEq, not_true_eq_false, not_false_eq_true,
      Bool.and_eq_true, Bool.or_eq_true, Bool.not_eq_true', beq_eq_false_iff_ne, false_and, and_false, true_and, and_true,
      false_or, or_false, true_or, or_true, decide_eq_true_eq,
      beq_self_eq_true, Bool.true_or, Bool.or_true, Bool.true_and, Bool.and_true, Bool.not_true, Bool.not_false, $ts,*])

/-- the colon-path loop stops at once when the cursor is not on `:`. -/
theorem colonPath_stop (fuel : Nat) (acc : List Str) (t : Token) (r : List Token) (p : Option Token) (n : Nat) (la : Token)
    (w : List Warning) (d : Nat) (wd : List Nat) (s : Bool) (th : Nat) (al : Char → Bool) (h : t.type ≠ TT.block) :
    colonPath (fuel + 1) acc { rest := t :: r, prev := p, pos := n, last := la, warnings := w, depth := d, warned := wd, strict := s, threshold := th, alpha := al }
      = .ok (acc, { rest := t :: r, prev := p, pos := n, last := la, warnings := w, depth := d, warned := wd, strict := s, threshold := th, alpha := al }) := by
  rw [colonPath]
  step_simp [peek, h]

/-- no bracket at the cursor: the trailing-bracket handling returns its argument. -/
theorem trailingBracket_stop (res sep : Str) (t : Token) (r : List Token) (p : Option Token) (n : Nat) (la : Token)
    (w : List Warning) (d : Nat) (wd : List Nat) (s : Bool) (th : Nat) (al : Char → Bool) (hl : t.type ≠ TT.listStart) :
    trailingBracket res sep { rest := t :: r, prev := p, pos := n, last := la, warnings := w, depth := d, warned := wd, strict := s, threshold := th, alpha := al }
      = .ok (res, { rest := t :: r, prev := p, pos := n, last := la, warnings := w, depth := d, warned := wd, strict := s, threshold := th, alpha := al }) := by
  rw [trailingBracket]
  step_simp [hl]

/-- bare-word loop: a single word followed by a token that ends the value is returned as is. -/
theorem plainWords_stop (fuel : Nat) (start : Token) (x : Str) (t : Token) (r : List Token) (p : Option Token) (n : Nat) (la : Token)
    (w : List Warning) (d : Nat) (wd : List Nat) (s : Bool) (th : Nat) (al : Char → Bool)
    (hv : isValueTok t.type = false) (hl : t.type ≠ TT.listStart) :
    plainWords (fuel + 1) start [x] { rest := t :: r, prev := p, pos := n, last := la, warnings := w, depth := d, warned := wd, strict := s, threshold := th, alpha := al }
      = .ok (.str x, { rest := t :: r, prev := p, pos := n, last := la, warnings := w, depth := d, warned := wd, strict := s, threshold := th, alpha := al }) := by
  rw [plainWords]
  step_simp [hv, gt_iff_lt, Nat.zero_add, Nat.lt_irrefl, trailingBracket_stop, hl, spaceJoin, joinWith]

/-- annotated-word loop: a single collected item followed by a token that ends the value is returned as is. -/
theorem annotatedLoop_stop (fuel : Nat) (x : Str) (t : Token) (r : List Token) (p : Option Token) (n : Nat) (la : Token)
    (w : List Warning) (d : Nat) (wd : List Nat) (s : Bool) (th : Nat) (al : Char → Bool)
    (hv : isValueTok t.type = false) (he : isExprOp t.type = false) (hl : t.type ≠ TT.listStart) :
    annotatedLoop (fuel + 1) [] [x] { rest := t :: r, prev := p, pos := n, last := la, warnings := w, depth := d, warned := wd, strict := s, threshold := th, alpha := al }
      = .ok (.str x, { rest := t :: r, prev := p, pos := n, last := la, warnings := w, depth := d, warned := wd, strict := s, threshold := th, alpha := al }) := by
  rw [annotatedLoop]
  step_simp [hv, he, hl, List.isEmpty_nil]


/-! ### `parseValue` on one scalar token -/

theorem endsValue_iff (t : TT) : endsValue t = true ↔
    isValueTok t = false ∧ isExprOp t = false ∧ t ≠ TT.listStart ∧ t ≠ TT.block := by
  simp only [endsValue, Bool.and_eq_true, Bool.not_eq_true', bne_iff_ne, ne_eq, and_assoc]

theorem parseValue_str (st : PState) (s : Str) (l c : Nat) (next : Token) (k : List Token) (fuel : Nat)
    (hn : endsValue next.type = true) :
    parseValue (fuel + 1) { st with rest := (Scalar.str s).tok l c :: next :: k }
      = .ok (.str s, { st with rest := next :: k, prev := some ((Scalar.str s).tok l c), pos := st.pos + 1 }) := by
  obtain ⟨hv, -, -, -⟩ := (endsValue_iff _).1 hn
  rw [parseValue]
  step_simp [Scalar.tok, hv, pyStrVal_str]

theorem parseValue_int (st : PState) (i : Int) (raw : Str) (l c : Nat) (next : Token) (k : List Token) (fuel : Nat)
    (hn : endsValue next.type = true) :
    parseValue (fuel + 1) { st with rest := (Scalar.int i raw).tok l c :: next :: k }
      = .ok (.int i, { st with rest := next :: k, prev := some ((Scalar.int i raw).tok l c), pos := st.pos + 1 }) := by
  obtain ⟨hv, -, hl, -⟩ := (endsValue_iff _).1 hn
  rw [parseValue]
  step_simp [Scalar.tok, hv, hl]

theorem parseValue_float (st : PState) (r raw : Str) (l c : Nat) (next : Token) (k : List Token) (fuel : Nat)
    (hn : endsValue next.type = true) :
    parseValue (fuel + 1) { st with rest := (Scalar.float r raw).tok l c :: next :: k }
      = .ok (.float r, { st with rest := next :: k, prev := some ((Scalar.float r raw).tok l c), pos := st.pos + 1 }) := by
  obtain ⟨hv, -, hl, -⟩ := (endsValue_iff _).1 hn
  rw [parseValue]
  step_simp [Scalar.tok, hv, hl]

theorem parseValue_bool (st : PState) (b : Bool) (l c : Nat) (next : Token) (k : List Token) (fuel : Nat)
    (hn : endsValue next.type = true) :
    parseValue (fuel + 1) { st with rest := (Scalar.bool b).tok l c :: next :: k }
      = .ok (.bool b, { st with rest := next :: k, prev := some ((Scalar.bool b).tok l c), pos := st.pos + 1 }) := by
  obtain ⟨hv, -, -, -⟩ := (endsValue_iff _).1 hn
  rw [parseValue]
  step_simp [Scalar.tok, hv]

theorem parseValue_null (st : PState) (l c : Nat) (next : Token) (k : List Token) (fuel : Nat)
    (hn : endsValue next.type = true) :
    parseValue (fuel + 1) { st with rest := Scalar.null.tok l c :: next :: k }
      = .ok (.null, { st with rest := next :: k, prev := some (Scalar.null.tok l c), pos := st.pos + 1 }) := by
  obtain ⟨hv, -, -, -⟩ := (endsValue_iff _).1 hn
  rw [parseValue]
  step_simp [Scalar.tok, hv]

theorem parseValue_word (st : PState) (w : Str) (l c : Nat) (next : Token) (k : List Token) (fuel : Nat)
    (hn : endsValue next.type = true) :
    parseValue (fuel + 2) { st with rest := (Scalar.word w).tok l c :: next :: k }
      = .ok (.str w, { st with rest := next :: k, prev := some ((Scalar.word w).tok l c), pos := st.pos + 1 }) := by
  obtain ⟨hv, he, hl', hb'⟩ := (endsValue_iff _).1 hn
  rw [parseValue]
  step_simp [Scalar.tok, he, hl']
  rw [colonPath_stop (h := hb')]
  have htw : List.takeWhile (fun t => isValueTok t.type) (next :: k) = [] := by
    rw [List.takeWhile_cons]; simp only [hv, Bool.false_eq_true, if_false]
  by_cases ha : hasAnnotation w = true
  · step_simp [gt_iff_lt, Nat.zero_add, Nat.lt_irrefl, htw, List.any_nil, pyStrVal_str, ha]
    rw [annotatedLoop_stop (hv := hv) (he := he) (hl := hl')]
  · step_simp [gt_iff_lt, Nat.zero_add, Nat.lt_irrefl, htw, List.any_nil, pyStrVal_str, ha]
    rw [plainWords_stop (hv := hv) (hl := hl')]

/-- **Every scalar token followed by a token that ends the value** (NEWLINE, COMMA, `]`, COMMENT, INDENT,
`===END===`, EOF …) is read as exactly its value, consuming that one token and changing nothing else
(no warning, same depth). Fuel 2 suffices. -/
theorem parseValue_scalar (st : PState) (v : Scalar) (l c : Nat) (next : Token) (k : List Token) (fuel : Nat)
    (hn : endsValue next.type = true) (hr : st.rest = v.tok l c :: next :: k) :
    parseValue (fuel + 2) st
      = .ok (v.val, { st with rest := next :: k, prev := some (v.tok l c), pos := st.pos + 1 }) := by
  have hst : st = { st with rest := v.tok l c :: next :: k } := by rw [← hr]
  rw [hst]
  cases v with
  | str s => exact parseValue_str st s l c next k (fuel + 1) hn
  | int i raw => exact parseValue_int st i raw l c next k (fuel + 1) hn
  | float r raw => exact parseValue_float st r raw l c next k (fuel + 1) hn
  | bool b => exact parseValue_bool st b l c next k (fuel + 1) hn
  | null => exact parseValue_null st l c next k (fuel + 1) hn
  | word w => exact parseValue_word st w l c next k fuel hn


/-! ### `parseSection` on one line -/

/-- the warning(s) one line produces: only W_PATTERN_AUTOQUOTE, for a bare word under `PATTERN` / `REGEX`. -/
def Line.warns (ln : Line) : List Warning :=
  match ln.v with
  | .word w => if ln.key == "PATTERN".toList || ln.key == "REGEX".toList then [.patternAutoquote ln.key w ln.l ln.c1] else []
  | _ => []

theorem parseSection_flat_line (st : PState) (ln : Line) (k : List Token) (fuel : Nat)
    (hr : st.rest = ln.toks ++ k) :
    parseSection (fuel + 3) [] st
      = .ok (some ln.node, { st with rest := ln.nlTok :: k, prev := some ln.valTok, pos := st.pos + 3,
                                     warnings := ln.warns ++ st.warnings }) := by
  have hst : st = { st with rest := ln.toks ++ k } := by rw [← hr]
  rw [hst]
  obtain ⟨key, v, l, c1, c2, c3, c4⟩ := ln
  rw [parseSection]
  step_simp [Line.toks, Line.keyTok, Line.assignTok, Line.valTok, Line.nlTok, List.cons_append, List.nil_append, pyStrVal_str]
  rw [parseValue_scalar (v := v) (l := l) (c := c3) (hn := rfl) (hr := rfl)]
  cases v with
  | word w =>
    simp only [Scalar.val]
    by_cases hk : key = "PATTERN".toList ∨ key = "REGEX".toList
    · have hc : (key = "PATTERN".toList ∨ key = "REGEX".toList) ∧ ¬((Scalar.word w).tok l c3).type = TT.string :=
        ⟨hk, by simp [Scalar.tok]⟩
      rw [if_pos hc]
      step_simp [Scalar.tok, Line.node, Line.warns, Scalar.val, hk, List.nil_append, List.cons_append]
    · have hc : ¬((key = "PATTERN".toList ∨ key = "REGEX".toList) ∧ ¬((Scalar.word w).tok l c3).type = TT.string) :=
        fun h => hk h.1
      rw [if_neg hc]
      step_simp [Scalar.tok, Line.node, Line.warns, Scalar.val, hk, List.nil_append]
  | str s =>
    simp only [Scalar.val]
    have hc : ¬((key = "PATTERN".toList ∨ key = "REGEX".toList) ∧ ¬((Scalar.str s).tok l c3).type = TT.string) :=
      fun h => h.2 rfl
    rw [if_neg hc]
    step_simp [Scalar.tok, Line.node, Line.warns, Scalar.val, List.nil_append]
  | _ => step_simp [Scalar.val, Scalar.tok, Line.node, Line.warns, List.nil_append]


/-! ### the body loop of `parseDocument` on any number of lines -/

/-- `advance` over a token that is not the last one. -/
theorem advance_ne (t : Token) (r : List Token) (p : Option Token) (n : Nat) (la : Token) (w : List Warning)
    (d : Nat) (wd : List Nat) (s : Bool) (th : Nat) (al : Char → Bool) (h : r ≠ []) :
    advance { rest := t :: r, prev := p, pos := n, last := la, warnings := w, depth := d, warned := wd, strict := s, threshold := th, alpha := al }
      = .ok (t, { rest := r, prev := some t, pos := n + 1, last := la, warnings := w, depth := d, warned := wd, strict := s, threshold := th, alpha := al }) := by
  cases r with
  | nil => exact absurd rfl h
  | cons u r => rfl

/-- the pure content of `trackKey`: new key table and the warning it emits (at most one). -/
def trackPure (kp : KeyPos) (key : Str) (line : Nat) : KeyPos × List Warning :=
  match kp.lookup key with
  | some ls => (kp.map (fun p => if p.1 == key then (key, ls ++ [line]) else p),
                [.duplicateKey key ((ls ++ [line]).headD 0) line (ls ++ [line])])
  | none => (kp ++ [(key, [line])], [])

theorem trackKey_eq (kp : KeyPos) (key : Str) (line : Nat) (st : PState) :
    trackKey kp key line st
      = .ok ((trackPure kp key line).1, { st with warnings := (trackPure kp key line).2 ++ st.warnings }) := by
  unfold trackKey trackPure
  cases kp.lookup key with
  | none => rfl
  | some ls => rfl

theorem trackPure_warns_reverse (kp : KeyPos) (key : Str) (line : Nat) :
    (trackPure kp key line).2.reverse = (trackPure kp key line).2 := by
  unfold trackPure
  cases kp.lookup key <;> rfl

theorem Line.warns_reverse (ln : Line) : ln.warns.reverse = ln.warns := by
  obtain ⟨key, v, l, c1, c2, c3, c4⟩ := ln
  cases v <;> simp only [Line.warns] <;> try rfl
  split <;> rfl

/-- all parser warnings of the body loop on `lines`, in emission order, starting from key table `kp`:
per line the W_PATTERN_AUTOQUOTE (if any) and then the duplicate-key warning (if the key was seen before). -/
def docWarns : KeyPos → List Line → List Warning
  | _, [] => []
  | kp, ln :: r => ln.warns ++ (trackPure kp ln.key ln.l).2 ++ docWarns (trackPure kp ln.key ln.l).1 r

/-- `prev` token after the loop went through `lines`. -/
def prevAfter (p : Option Token) : List Line → Option Token
  | [] => p
  | ln :: r => prevAfter (some ln.nlTok) r

theorem docLoop_flat (vf : Nat) (lines : List Line) (e : Token) (tail : List Token)
    (he : e.type = .envelopeEnd ∨ e.type = .eof) (st : PState) (acc : List Node) (kp : KeyPos) (extra : Nat)
    (hr : st.rest = lines.flatMap Line.toks ++ e :: tail) :
    docLoop (vf + 3) (2 * lines.length + 1 + extra) [] acc kp st
      = .ok ((acc ++ lines.map Line.node, []),
             { st with rest := e :: tail, prev := prevAfter st.prev lines, pos := st.pos + 4 * lines.length,
                       warnings := (docWarns kp lines).reverse ++ st.warnings }) := by
  induction lines generalizing st acc kp with
  | nil =>
    have hst : st = { st with rest := e :: tail } := by rw [← List.nil_append (e :: tail), ← List.flatMap_nil (f := Line.toks), ← hr]
    rw [hst]
    have hf : 2 * ([] : List Line).length + 1 + extra = extra + 1 := by simp only [List.length_nil]; omega
    rw [hf, docLoop]
    step_simp [he]
    simp only [List.map_nil, List.append_nil, prevAfter, docWarns, List.reverse_nil, List.nil_append, Nat.mul_zero, Nat.add_zero]
  | cons ln r ih =>
    have hst : st = { st with rest := ln.keyTok :: ([ln.assignTok, ln.valTok, ln.nlTok] ++ (r.flatMap Line.toks ++ e :: tail)) } := by
      have : ln.keyTok :: ([ln.assignTok, ln.valTok, ln.nlTok] ++ (r.flatMap Line.toks ++ e :: tail))
          = (ln :: r).flatMap Line.toks ++ e :: tail := by
        rw [List.flatMap_cons, List.append_assoc]; rfl
      rw [this, ← hr]
    have hf : 2 * (ln :: r).length + 1 + extra = (2 * r.length + 1 + extra) + 1 + 1 := by
      simp only [List.length_cons]; omega
    rw [hf, docLoop, hst]
    step_simp [Line.keyTok]
    rw [parseSection_flat_line (ln := ln) (k := r.flatMap Line.toks ++ e :: tail) (hr := rfl)]
    step_simp [Line.node, nodeAssignKey?, trackKey_eq]
    rw [docLoop]
    step_simp [Line.nlTok]
    rw [advance_ne (h := by simp)]
    simp only []
    rw [ih (hr := rfl)]
    simp only [List.map_cons, List.append_assoc, List.cons_append, List.nil_append, prevAfter, docWarns, Line.node, Line.nlTok,
      List.reverse_append, trackPure_warns_reverse, Line.warns_reverse]
    have hp : st.pos + 3 + 1 + 4 * r.length = st.pos + 4 * (r.length + 1) := by omega
    rw [hp]


/-- `docLoop_flat` with fuel given by lower bounds. -/
theorem docLoop_flat' (vf fuel : Nat) (lines : List Line) (e : Token) (tail : List Token)
    (he : e.type = .envelopeEnd ∨ e.type = .eof) (st : PState) (acc : List Node) (kp : KeyPos)
    (hvf : 3 ≤ vf) (hfuel : 2 * lines.length + 1 ≤ fuel)
    (hr : st.rest = lines.flatMap Line.toks ++ e :: tail) :
    docLoop vf fuel [] acc kp st
      = .ok ((acc ++ lines.map Line.node, []),
             { st with rest := e :: tail, prev := prevAfter st.prev lines, pos := st.pos + 4 * lines.length,
                       warnings := (docWarns kp lines).reverse ++ st.warnings }) := by
  obtain ⟨vf0, rfl⟩ : ∃ vf0, vf = vf0 + 3 := ⟨vf - 3, by omega⟩
  obtain ⟨extra, rfl⟩ : ∃ extra, fuel = 2 * lines.length + 1 + extra := ⟨fuel - (2 * lines.length + 1), by omega⟩
  exact docLoop_flat vf0 lines e tail he st acc kp extra hr

/-! ### `parseDocument` on a whole flat document -/

theorem skipWhitespace_stop (b : Bool) (t : Token) (r : List Token) (p : Option Token) (n : Nat) (la : Token)
    (w : List Warning) (d : Nat) (wd : List Nat) (s : Bool) (th : Nat) (al : Char → Bool)
    (h1 : t.type ≠ TT.newline) (h2 : t.type ≠ TT.comment) :
    skipWhitespace b { rest := t :: r, prev := p, pos := n, last := la, warnings := w, depth := d, warned := wd, strict := s, threshold := th, alpha := al }
      = .ok ((), { rest := t :: r, prev := p, pos := n, last := la, warnings := w, depth := d, warned := wd, strict := s, threshold := th, alpha := al }) := by
  unfold skipWhitespace
  step_simp []
  rw [skipWs]
  step_simp [h1, h2]

theorem skipWhitespace_newline (b : Bool) (t u : Token) (r : List Token) (p : Option Token) (n : Nat) (la : Token)
    (w : List Warning) (d : Nat) (wd : List Nat) (s : Bool) (th : Nat) (al : Char → Bool)
    (h : t.type = TT.newline) (h1 : u.type ≠ TT.newline) (h2 : u.type ≠ TT.comment) :
    skipWhitespace b { rest := t :: u :: r, prev := p, pos := n, last := la, warnings := w, depth := d, warned := wd, strict := s, threshold := th, alpha := al }
      = .ok ((), { rest := u :: r, prev := some t, pos := n + 1, last := la, warnings := w, depth := d, warned := wd, strict := s, threshold := th, alpha := al }) := by
  unfold skipWhitespace
  step_simp []
  rw [skipWs]
  step_simp [h]
  rw [if_neg (by omega), skipWs]
  step_simp [h1, h2]


/-- positions of the five frame tokens (`===NAME===`, its NEWLINE, `===END===`, its NEWLINE, EOF): arbitrary. -/
structure Frame where
  envL : Nat
  envC : Nat
  nl0L : Nat
  nl0C : Nat
  endL : Nat
  endC : Nat
  nl1L : Nat
  nl1C : Nat
  eofL : Nat
  eofC : Nat
  deriving DecidableEq, Repr, Inhabited

def Frame.envTok (f : Frame) (name : Str) : Token := { type := .envelopeStart, value := .str name, line := f.envL, col := f.envC }
def Frame.nl0Tok (f : Frame) : Token := { type := .newline, value := .str "\n".toList, line := f.nl0L, col := f.nl0C }
def Frame.endTok (f : Frame) : Token := { type := .envelopeEnd, value := .str "END".toList, line := f.endL, col := f.endC }
def Frame.nl1Tok (f : Frame) : Token := { type := .newline, value := .str "\n".toList, line := f.nl1L, col := f.nl1C }
def Frame.eofTok (f : Frame) : Token := { type := .eof, value := .none, line := f.eofL, col := f.eofC }

/-- the token list of a flat document:
`ENVELOPE_START(name) NEWLINE [IDENTIFIER(key) ASSIGN scalar NEWLINE]* ENVELOPE_END NEWLINE EOF`. -/
def flatToks (f : Frame) (name : Str) (lines : List Line) : List Token :=
  f.envTok name :: f.nl0Tok :: (lines.flatMap Line.toks ++ [f.endTok, f.nl1Tok, f.eofTok])

/-- the document it denotes (all other fields at their defaults). -/
def flatDoc (name : Str) (lines : List Line) : Document := { name := name, sections := lines.map Line.node }

/-- the first line's key is `META` (then `parse_document` takes the line for the META block header). -/
def metaFirst : List Line → Bool
  | ln :: _ => ln.key == "META".toList
  | [] => false

theorem flatMap_toks_length (lines : List Line) : (lines.flatMap Line.toks).length = 4 * lines.length := by
  induction lines with
  | nil => rfl
  | cons ln r ih => rw [List.flatMap_cons, List.length_append, ih, List.length_cons]; simp only [Line.toks, List.length_cons, List.length_nil]; omega

/-- what follows the envelope line: the first key (not `META`) or `===END===`. -/
theorem flat_body_head (f : Frame) (lines : List Line) (hm : metaFirst lines = false) :
    ∃ u K, lines.flatMap Line.toks ++ [f.endTok, f.nl1Tok, f.eofTok] = u :: K ∧
      u.type ≠ TT.newline ∧ u.type ≠ TT.comment ∧ u.type ≠ TT.separator ∧ u.type ≠ TT.grammarSentinel ∧
      u.type ≠ TT.envelopeStart ∧ ¬(u.type = TT.identifier ∧ u.value = TVal.str "META".toList) := by
  cases lines with
  | nil => exact ⟨f.endTok, _, rfl, by simp [Frame.endTok], by simp [Frame.endTok], by simp [Frame.endTok], by simp [Frame.endTok], by simp [Frame.endTok], fun h => by cases h.1⟩
  | cons ln r =>
    refine ⟨ln.keyTok, _, rfl, by simp [Line.keyTok], by simp [Line.keyTok], by simp [Line.keyTok], by simp [Line.keyTok], by simp [Line.keyTok], fun h => ?_⟩
    have h2 : ln.key = "META".toList := by
      have := h.2; simp only [Line.keyTok, TVal.str.injEq] at this; exact this
    simp only [metaFirst, beq_eq_false_iff_ne, ne_eq] at hm
    exact hm h2

theorem parseDocument_flat (f : Frame) (name : Str) (lines : List Line) (st : PState)
    (hm : metaFirst lines = false) (hr : st.rest = flatToks f name lines) :
    parseDocument st
      = .ok (flatDoc name lines,
             { st with rest := [f.nl1Tok, f.eofTok], prev := some f.endTok, pos := st.pos + 4 * lines.length + 3,
                       warnings := (docWarns [] lines).reverse ++ st.warnings }) := by
  obtain ⟨u, K, hK, h1, h2, h3, h4, h5, h6⟩ := flat_body_head f lines hm
  have hlen : 4 * lines.length + 2 = K.length := by
    have := congrArg List.length hK
    simp only [List.length_append, flatMap_toks_length, List.length_cons, List.length_nil] at this
    omega
  have hst : st = { st with rest := f.envTok name :: f.nl0Tok :: u :: K } := by rw [← hK, ← flatToks, ← hr]
  rw [hst]
  unfold parseDocument
  simp (config := {zeta := false}) only [bind, StateT.bind, Except.bind, budget_mk]
  extract_lets n doc0 jp5 jp4 jp3 jp2 jp1
  step_simp [Frame.envTok, Frame.nl0Tok, skipWhitespace_stop]
  simp only [jp1]
  step_simp []
  simp only [jp2]
  step_simp [skipWhitespace_newline, pyStrVal_str, h1, h2]
  simp only [jp3]
  step_simp [h6]
  simp only [jp4]
  step_simp [h3]
  simp only [jp5]
  step_simp []
  rw [docLoop_flat' (lines := lines) (e := f.endTok) (tail := [f.nl1Tok, f.eofTok]) (he := Or.inl rfl) (hr := hK.symm)
    (hvf := by simp only [n]; omega) (hfuel := by simp only [n, List.length_cons]; omega)]
  step_simp [Frame.endTok]
  have hp : st.pos + 1 + 1 + 4 * lines.length + 1 = st.pos + 4 * lines.length + 3 := by omega
  rw [hp, List.nil_append]
  rfl


theorem throw_mk {α : Type} (e : Exc) (st : PState) : (throw e : P α) st = .error e := rfl

/-- `expect tt` on another token type raises E001 at that token. -/
theorem expect_ne (tt : TT) (t : Token) (r : List Token) (p : Option Token) (n : Nat) (la : Token)
    (w : List Warning) (d : Nat) (wd : List Nat) (s : Bool) (th : Nat) (al : Char → Bool) (h : t.type ≠ tt) :
    expect tt { rest := t :: r, prev := p, pos := n, last := la, warnings := w, depth := d, warned := wd, strict := s, threshold := th, alpha := al }
      = .error (parserError "E001" t) := by
  unfold expect
  step_simp [h, throw_mk]

theorem expect_eq (tt : TT) (t u : Token) (r : List Token) (p : Option Token) (n : Nat) (la : Token)
    (w : List Warning) (d : Nat) (wd : List Nat) (s : Bool) (th : Nat) (al : Char → Bool) (h : t.type = tt) :
    expect tt { rest := t :: u :: r, prev := p, pos := n, last := la, warnings := w, depth := d, warned := wd, strict := s, threshold := th, alpha := al }
      = .ok (t, { rest := u :: r, prev := some t, pos := n + 1, last := la, warnings := w, depth := d, warned := wd, strict := s, threshold := th, alpha := al }) := by
  unfold expect
  step_simp [h]

/-- `parse_meta_block` on `IDENTIFIER` followed by anything but `:` raises E001 there. -/
theorem parseMetaBlock_no_block (vf : Nat) (t u : Token) (r : List Token) (p : Option Token) (n : Nat) (la : Token)
    (w : List Warning) (d : Nat) (wd : List Nat) (s : Bool) (th : Nat) (al : Char → Bool)
    (ht : t.type = TT.identifier) (hu : u.type ≠ TT.block) :
    parseMetaBlock vf { rest := t :: u :: r, prev := p, pos := n, last := la, warnings := w, depth := d, warned := wd, strict := s, threshold := th, alpha := al }
      = .error (parserError "E001" u) := by
  unfold parseMetaBlock
  simp only [bind, StateT.bind, Except.bind, expect_eq (h := ht), expect_ne (h := hu)]

/-- The hypothesis `metaFirst lines = false` is necessary: when the first line is `META::scalar`, `parse_document`
takes it for the header of the META block and `parse_meta_block` raises E001 at the `::` (it expects `:`). -/
theorem parseDocument_flat_meta_first (f : Frame) (name : Str) (ln : Line) (r : List Line) (st : PState)
    (hm : metaFirst (ln :: r) = true) (hr : st.rest = flatToks f name (ln :: r)) :
    parseDocument st = .error (.parser "E001".toList ln.l ln.c2) := by
  have hk : ln.key = "META".toList := by simpa [metaFirst] using hm
  have hst : st = { st with rest := f.envTok name :: f.nl0Tok :: ln.keyTok :: ln.assignTok ::
      (ln.valTok :: ln.nlTok :: (r.flatMap Line.toks ++ [f.endTok, f.nl1Tok, f.eofTok])) } := by
    have : f.envTok name :: f.nl0Tok :: ln.keyTok :: ln.assignTok ::
        (ln.valTok :: ln.nlTok :: (r.flatMap Line.toks ++ [f.endTok, f.nl1Tok, f.eofTok])) = flatToks f name (ln :: r) := by
      simp only [flatToks, List.flatMap_cons, Line.toks, List.cons_append, List.nil_append]
    rw [this, ← hr]
  rw [hst]
  unfold parseDocument
  simp (config := {zeta := false}) only [bind, StateT.bind, Except.bind, budget_mk]
  extract_lets n doc0 jp5 jp4 jp3 jp2 jp1
  step_simp [Frame.envTok, Frame.nl0Tok, skipWhitespace_stop]
  simp only [jp1]
  step_simp []
  simp only [jp2]
  step_simp [skipWhitespace_newline, pyStrVal_str, Line.keyTok]
  simp only [jp3]
  step_simp [hk]
  rw [parseMetaBlock_no_block (ht := rfl) (hu := by simp [Line.assignTok])]
  rfl


/-! ### when the body loop is silent -/

/-- a line that produces no W_PATTERN_AUTOQUOTE: not (bare word under `PATTERN` / `REGEX`). -/
def Line.plain (ln : Line) : Bool :=
  !(ln.v.isWord && (ln.key == "PATTERN".toList || ln.key == "REGEX".toList))

theorem Line.warns_eq_nil_iff (ln : Line) : ln.warns = [] ↔ ln.plain = true := by
  obtain ⟨key, v, l, c1, c2, c3, c4⟩ := ln
  cases v with
  | word w =>
    simp only [Line.warns, Line.plain, Scalar.isWord, Bool.true_and]
    cases (key == "PATTERN".toList || key == "REGEX".toList) <;> simp
  | _ => simp only [Line.warns, Line.plain, Scalar.isWord, Bool.false_and, Bool.not_false]

/-- `parseSection_flat_line` for a plain line: nothing but the cursor (`rest`, `prev`, `pos`) changes. -/
theorem parseSection_flat_line_plain (st : PState) (ln : Line) (k : List Token) (fuel : Nat)
    (hp : ln.plain = true) (hr : st.rest = ln.toks ++ k) :
    parseSection (fuel + 3) [] st
      = .ok (some ln.node, { st with rest := ln.nlTok :: k, prev := some ln.valTok, pos := st.pos + 3 }) := by
  rw [parseSection_flat_line st ln k fuel hr, (Line.warns_eq_nil_iff ln).2 hp, List.nil_append]

theorem lookup_append_none {α : Type} (a b : List (Str × α)) (k : Str)
    (ha : a.lookup k = none) (hb : b.lookup k = none) : (a ++ b).lookup k = none := by
  induction a with
  | nil => exact hb
  | cons p a ih =>
    obtain ⟨k', v⟩ := p
    rw [List.cons_append, List.lookup_cons]
    rw [List.lookup_cons] at ha
    cases hkk : (k == k') with
    | true => rw [hkk] at ha; cases ha
    | false => rw [hkk] at ha; exact ih ha

/-- no warnings at all when every line is plain and no key occurs twice (nor is already in the table). -/
theorem docWarns_eq_nil (kp : KeyPos) (lines : List Line)
    (hp : ∀ ln ∈ lines, ln.plain = true) (hnd : (lines.map Line.key).Nodup)
    (hkp : ∀ ln ∈ lines, kp.lookup ln.key = none) : docWarns kp lines = [] := by
  induction lines generalizing kp with
  | nil => rfl
  | cons ln r ih =>
    have h0 : kp.lookup ln.key = none := hkp ln (List.mem_cons_self ..)
    have htp : trackPure kp ln.key ln.l = (kp ++ [(ln.key, [ln.l])], []) := by
      unfold trackPure; rw [h0]
    rw [List.map_cons, List.nodup_cons] at hnd
    rw [docWarns, htp, (Line.warns_eq_nil_iff ln).2 (hp ln (List.mem_cons_self ..))]
    simp only [List.nil_append]
    apply ih _ (fun x hx => hp x (List.mem_cons_of_mem _ hx)) hnd.2
    intro x hx
    apply lookup_append_none _ _ _ (hkp x (List.mem_cons_of_mem _ hx))
    have hne : x.key ≠ ln.key := fun h => hnd.1 (h ▸ List.mem_map_of_mem hx)
    simp only [List.lookup_cons, List.lookup_nil]
    rw [beq_eq_false_iff_ne.2 hne]

/-! ### Boolean equality on flat documents (for closed `decide` checks; `Document` has no `DecidableEq`) -/

/-- scalar values only. -/
def valEqB : Value → Value → Bool
  | .null, .null => true
  | .bool a, .bool b => a == b
  | .int a, .int b => a == b
  | .float a, .float b => a == b
  | .str a, .str b => a == b
  | _, _ => false

def nodeEqB : Node → Node → Bool
  | .assign k v l c ld tr, .assign k' v' l' c' ld' tr' =>
    k == k' && valEqB v v' && l == l' && c == c' && ld == ld' && tr == tr'
  | _, _ => false

def nodesEqB : List Node → List Node → Bool
  | [], [] => true
  | a :: as, b :: bs => nodeEqB a b && nodesEqB as bs
  | _, _ => false

def docEqB (a b : Document) : Bool :=
  a.name == b.name && a.metaKv.isEmpty && b.metaKv.isEmpty && a.hasSeparator == b.hasSeparator &&
  nodesEqB a.sections b.sections && a.grammarVersion == b.grammarVersion &&
  a.rawFrontmatter == b.rawFrontmatter && a.trailingComments == b.trailingComments

theorem valEqB_sound {a b : Value} (h : valEqB a b = true) : a = b := by
  cases a <;> cases b <;> simp_all [valEqB]

theorem nodeEqB_sound {a b : Node} (h : nodeEqB a b = true) : a = b := by
  cases a <;> cases b <;> simp only [nodeEqB, Bool.and_eq_true, beq_iff_eq, Bool.false_eq_true] at h
  obtain ⟨⟨⟨⟨⟨h1, h2⟩, h3⟩, h4⟩, h5⟩, h6⟩ := h
  rw [h1, valEqB_sound h2, h3, h4, h5, h6]

theorem nodesEqB_sound : ∀ {a b : List Node}, nodesEqB a b = true → a = b
  | [], [], _ => rfl
  | [], _ :: _, h => by simp [nodesEqB] at h
  | _ :: _, [], h => by simp [nodesEqB] at h
  | a :: as, b :: bs, h => by
    simp only [nodesEqB, Bool.and_eq_true] at h
    rw [nodeEqB_sound h.1, nodesEqB_sound h.2]

theorem docEqB_sound {a b : Document} (h : docEqB a b = true) : a = b := by
  obtain ⟨n, m, hs, s, g, rf, tc⟩ := a
  obtain ⟨n', m', hs', s', g', rf', tc'⟩ := b
  simp only [docEqB, Bool.and_eq_true, beq_iff_eq, List.isEmpty_iff] at h
  obtain ⟨⟨⟨⟨⟨⟨⟨h1, h2⟩, h3⟩, h4⟩, h5⟩, h6⟩, h7⟩, h8⟩ := h
  rw [h1, h2, h3, h4, nodesEqB_sound h5, h6, h7, h8]

/-- Boolean test `r = .ok d`. -/
def isOkDoc (r : Except Exc Document) (d : Document) : Bool :=
  match r with | .ok x => docEqB x d | .error _ => false

theorem isOkDoc_sound {r : Except Exc Document} {d : Document} (h : isOkDoc r d = true) : r = .ok d := by
  cases r with
  | error e => simp [isOkDoc] at h
  | ok x => rw [docEqB_sound (a := x) (b := d) h]

end Octave.FlatParse
