import Octave.Lemmas.DLex
import Octave.Lemmas.DParse
import Octave.Lemmas.SectBridge
import Octave.Lemmas.MetaBridge
/-!
Glue between the lexer half (`DLex`, concrete positions) and the parser half (`DParse`, arbitrary positions) of the round trip
of UNIFIED documents (META + lines + blocks + sections + comments).

The parser half annotates every source line with its own record of positions, so the bridge is ONE structural map
`DNode.ann d l` (the node at depth `d` whose first line is text line `l`, annotated with the positions the lexer gives) and a
mutual induction showing that the two token descriptions coincide — no windows of position functions are needed.  The META
block reuses `MetaBridge` / `BlockBridge` (`metaPos`, `treeToks_agree`): its tokens are those of the tree document whose only
node is the block `META`.

* `DNode.ann` / `forestAnn`, `annLead`      content and positions in the vocabulary of the parser half;
* `DNode.toks_ann` / `forestToks_ann`       the two descriptions of the token list agree; `dDocToks_bridge`: the whole document;
* `forest_wf_ann`, `metaFirstA_bridge`      the side conditions of the parser half hold for / translate to the lexer half;
* `forestNodes_ann`, `dDoc_bridge`          the document of the parser half is `dDoc … canonPos …` (distinct META keys);
* `DContent`, `nodeContent`                 position-free content, computed from any AST that `forestMatches`.
-/
namespace Octave.D
open Octave Lexer Emitter
open Octave.DParse (ANode leadT indT indTs toksF nodesF texts)
open Octave.CommentParse (CPos cmtTok keyTok assignTok blockTok nlTok trailToks)

/-! ### content and positions in the vocabulary of the parser half -/

/-- positions of the tokens of a comment line at depth `d`, text line `l`. -/
def cmtPos (c : Str) (d l : Nat) : CPos :=
  { li := l, ci := 1, l := l, c1 := 1 + 2 * d, c2 := 0, c3 := 0, c4 := 1 + 2 * d + (cmtText c).length, c5 := 0 }

/-- a run of comment lines at depth `d`, the first one at text line `l`, each with its positions. -/
def annLead (d l : Nat) : List Str → List (Str × CPos)
  | [] => []
  | c :: cs => (c, cmtPos c d l) :: annLead d (l + 1) cs

/-- positions of the tokens of a `KEY::value [// trailing]` line at depth `d`, text line `l`. -/
def clinePos (ln : FLine) (trail : Option Str) (d l : Nat) : CPos :=
  { li := l, ci := 1, l := l, c1 := 1 + 2 * d, c2 := 1 + 2 * d + ln.key.length, c3 := 1 + 2 * d + ln.key.length + 2,
    c4 := 1 + 2 * d + ln.key.length + 2 + ln.v.text.length + (trailText trail).length,
    c5 := 1 + 2 * d + ln.key.length + 2 + ln.v.text.length + 1 }

/-- positions of the tokens of a block header `KEY:` at depth `d`, text line `l`. -/
def hdrPos (key : Str) (d l : Nat) : CPos :=
  { li := l, ci := 1, l := l, c1 := 1 + 2 * d, c2 := 1 + 2 * d + key.length, c3 := 0, c4 := 1 + 2 * d + key.length + 1, c5 := 0 }

mutual
/-- the node at depth `d` whose first line (its first leading comment, if any) is text line `l`, as the parser half describes
it, annotated with the positions the lexer gives to its tokens. -/
def DNode.ann (d l : Nat) : DNode → ANode
  | .line ln lead trail => .line ln.key ln.v.toP (annLead d l lead) trail (clinePos ln trail d (l + lead.length))
  | .block key cs lead =>
    .block key (forestAnn (d + 1) (l + lead.length + 1) cs) (annLead d l lead) (hdrPos key d (l + lead.length))
  | .sect id key cs lead =>
    .sect id.toP key (forestAnn (d + 1) (l + lead.length + 1) cs) (annLead d l lead) (sheaderPosS false id key d (l + lead.length))
def forestAnn (d l : Nat) : List DNode → List ANode
  | [] => []
  | n :: ns => n.ann d l :: forestAnn d (l + n.nlines) ns
end

theorem texts_annLead (d : Nat) : ∀ (cs : List Str) (l : Nat), texts (annLead d l cs) = cs
  | [], _ => rfl
  | c :: cs, l => by
    have := texts_annLead d cs (l + 1)
    simp only [texts] at this ⊢
    simp only [annLead, List.map_cons, this]

theorem annLead_isEmpty (d l : Nat) (cs : List Str) : (annLead d l cs).isEmpty = cs.isEmpty := by
  cases cs <;> rfl

/-! ### the two descriptions of the token list agree -/

theorem indentToks_ind (d l : Nat) : indentToks d l = indTs d (l, 1) := by
  cases d with
  | zero => rfl
  | succ k => simp only [indentToks, indTs, indT, tIndent, Nat.succ_ne_zero, if_false]

theorem leadToks_ann (d : Nat) : ∀ (cs : List Str) (l : Nat), leadToks d l cs = leadT d (annLead d l cs)
  | [], _ => rfl
  | c :: cs, l => by
    simp only [leadToks, cmtLineToks, annLead, leadT, leadToks_ann d cs (l + 1), indentToks_ind, cmtPos, List.append_assoc,
      List.cons_append, List.nil_append]
    rfl

/-- the tokens of a `KEY::value [// trailing]` line. -/
theorem cLineToks_ann (ln : FLine) (trail : Option Str) (d l : Nat) :
    cLineToks ln trail d l = indTs d (l, 1) ++
      (keyTok ln.key (clinePos ln trail d l) :: assignTok (clinePos ln trail d l) ::
        ln.v.toP.tok (clinePos ln trail d l).l (clinePos ln trail d l).c3 ::
          (trailToks trail (clinePos ln trail d l) ++ [nlTok (clinePos ln trail d l)])) := by
  cases trail with
  | none =>
    simp only [cLineToks, indentToks_ind, trailToksRev, trailToks, FScalar.tok_toP, List.append_assoc, List.cons_append,
      List.nil_append, List.append_nil]
    rfl
  | some c =>
    simp only [cLineToks, indentToks_ind, trailToksRev, trailToks, FScalar.tok_toP, List.append_assoc, List.cons_append,
      List.nil_append]
    rfl

/-- the tokens of a block header. -/
theorem headerToks_ann (key : Str) (d l : Nat) (X : List Token) :
    headerToks key d l ++ X = indTs d (l, 1) ++ (keyTok key (hdrPos key d l) :: blockTok (hdrPos key d l) :: nlTok (hdrPos key d l) :: X) := by
  simp only [headerToks, indentToks_ind, List.append_assoc, List.cons_append, List.nil_append]
  rfl

/-- the tokens of a section header. -/
theorem sheaderToks_ann (id : SecId) (key : Str) (d l : Nat) (X : List Token) :
    sheaderToks false id key d l ++ X = indTs d (l, 1) ++
      (SectParse.secTok (sheaderPosS false id key d l) :: (id.toP.toks (sheaderPosS false id key d l) ++
        SectParse.secAssignTok (sheaderPosS false id key d l) :: SectParse.secNameTok key (sheaderPosS false id key d l) ::
        SectParse.hdrNlTok (sheaderPosS false id key d l) :: X)) := by
  rw [← sheader_body_bridge]
  simp only [sheaderToks, indentToks_ind, List.append_assoc, List.cons_append, List.nil_append]

mutual
/-- **a node**: its tokens are its comment lines, its INDENT and its `core`. -/
theorem DNode.toks_ann : ∀ (n : DNode) (d l : Nat),
    n.toks d l = leadT d (n.ann d l).lead ++ (indTs d (n.ann d l).ipos ++ (n.ann d l).core d)
  | .line ln lead trail, d, l => by
    simp only [DNode.toks, DNode.ann, ANode.lead, ANode.ipos, ANode.core, leadToks_ann, cLineToks_ann]
    rfl
  | .block key cs lead, d, l => by
    simp only [DNode.toks, DNode.ann, ANode.lead, ANode.ipos, ANode.core, leadToks_ann, headerToks_ann,
      forestToks_ann cs (d + 1) (l + lead.length + 1)]
    rfl
  | .sect id key cs lead, d, l => by
    simp only [DNode.toks, DNode.ann, ANode.lead, ANode.ipos, ANode.core, leadToks_ann, sheaderToks_ann,
      forestToks_ann cs (d + 1) (l + lead.length + 1)]
    rfl
/-- **a forest**. -/
theorem forestToks_ann : ∀ (ns : List DNode) (d l : Nat), forestToks d l ns = toksF (forestAnn d l ns) d
  | [], _, _ => rfl
  | n :: ns, d, l => by
    simp only [forestToks, forestAnn, toksF, DNode.toks_ann n d l, forestToks_ann ns d (l + n.nlines), List.append_assoc]
end

/-! ### the META block -/

theorem forestNLines_fields (fields : List FLine) : forestNLines (fields.map fun ln => DNode.line ln [] none) = fields.length := by
  induction fields with
  | nil => rfl
  | cons ln ls ih => simp only [List.map_cons, forestNLines, DNode.nlines, ih, List.length_cons, List.length_nil]; omega

theorem metaDNode_nlines (fields : List FLine) : (metaDNode fields).nlines = 1 + fields.length := by
  have h := forestNLines_fields fields
  have e : (metaDNode fields).nlines = 0 + 1 + forestNLines (fields.map fun ln => DNode.line ln [] none) := rfl
  omega

theorem forestToks_fields (fields : List FLine) : ∀ (l : Nat),
    forestToks 1 l (fields.map fun ln => DNode.line ln [] none) = treeToks 1 l (fields.map TNode.line) := by
  induction fields with
  | nil => intro l; rfl
  | cons ln ls ih =>
    intro l
    simp only [List.map_cons, forestToks, treeToks, DNode.toks, TNode.toks, DNode.nlines, TNode.nlines, leadToks, List.nil_append,
      List.length_nil, Nat.add_zero, Nat.zero_add, ih]
    simp [cLineToks, FLine.toksAt, trailToksRev, trailText]

/-- the tokens of the META block are those the parser half describes at the positions `metaPos fields []`. -/
theorem metaToks_ann (f : FLine) (fs : List FLine) :
    (metaDNode (f :: fs)).toks 0 2 = DParse.metaPart (metaPos (f :: fs) []) (fieldsToP (f :: fs)) := by
  have h := agree_posOf (metaNode (f :: fs) :: [])
  simp only [lposList, metaNode, TNode.lpos, List.append_nil] at h
  have hp : metaPos (f :: fs) [] 0 = headerPos "META".toList 0 2 := h.head
  have ht := treeToks_agree ((f :: fs).map TNode.line) 1 3 (metaPos (f :: fs) []) 1 h.tail
  have hP : treeToP ((f :: fs).map TNode.line) = MetaParse.fieldNodes (fieldsToP (f :: fs)) := treeToP_fields (f :: fs)
  rw [hP] at ht
  have hm : DParse.metaPart (metaPos (f :: fs) []) (fieldsToP (f :: fs))
      = BlockParse.hdrKeyTok "META".toList (metaPos (f :: fs) [] 0) :: BlockParse.hdrBlockTok (metaPos (f :: fs) [] 0) ::
          BlockParse.hdrNlTok (metaPos (f :: fs) [] 0) ::
          BlockParse.toksList (metaPos (f :: fs) []) (MetaParse.fieldNodes (fieldsToP (f :: fs))) 1 1 := rfl
  rw [hm, hp, ← ht, metaDNode, DNode.toks, forestToks_fields]
  rfl

/-! ### the whole document -/

/-- the frame (envelope and end tokens) of the canonical text. -/
def dFrame (name : Str) (fields : List FLine) (nodes : List DNode) (trailing : List Str) : FlatParse.Frame :=
  flatFrame name (docNLines (withMeta fields nodes) trailing)

/-- the body forest as the parser half sees it: annotated from its first text line on (line 2 without META, else after
`META:` and the field lines). -/
def bodyAnn (fields : List FLine) (nodes : List DNode) : List ANode := forestAnn 0 (2 + metaLines fields) nodes

/-- the document's trailing comment lines, annotated. -/
def trailAnn (fields : List FLine) (nodes : List DNode) (trailing : List Str) : List (Str × CPos) :=
  annLead 0 (forestNLines (withMeta fields nodes) + 2) trailing

/-- **the two descriptions of the token list of the whole document agree.** -/
theorem dDocToks_bridge (name : Str) (fields : List FLine) (nodes : List DNode) (trailing : List Str) :
    dDocToks name fields nodes trailing
      = DParse.dToks (dFrame name fields nodes trailing) name (metaPos fields []) (fieldsToP fields) (bodyAnn fields nodes)
          (trailAnn fields nodes trailing) := by
  cases fields with
  | nil =>
    simp only [dDocToks, docToks, docToksBody, DParse.dToks, fieldsToP, List.map_nil, DParse.metaPart, List.nil_append, bodyAnn,
      trailAnn, metaLines, List.isEmpty_nil, if_true, Nat.add_zero, forestToks_ann, leadToks_ann, List.cons_append,
      List.append_assoc]
    rfl
  | cons f fs =>
    have hw : withMeta (f :: fs) nodes = metaDNode (f :: fs) :: nodes := rfl
    have hl : metaLines (f :: fs) = 1 + (f :: fs).length := rfl
    have hb : forestToks 0 2 (metaDNode (f :: fs) :: nodes)
        = DParse.metaPart (metaPos (f :: fs) []) (fieldsToP (f :: fs)) ++ toksF (forestAnn 0 (2 + (1 + (f :: fs).length)) nodes) 0 := by
      rw [forestToks, metaToks_ann, metaDNode_nlines, forestToks_ann]
    simp only [dDocToks, docToks, docToksBody, DParse.dToks, bodyAnn, trailAnn, hw, hl, hb, leadToks_ann, List.cons_append,
      List.append_assoc]
    rfl

/-! ### the side conditions of the parser half -/

mutual
/-- every block key and every section marker of the text sits at column `2·d + 1`, and every `§2b` letter is a letter. -/
theorem DNode.wf_ann (env : Env) (al : Char → Bool) (hal : AlphaOK al) : ∀ (n : DNode) (d l : Nat), n.OK env →
    (n.ann d l).wf al d = true
  | .line ln lead trail, d, l, _ => rfl
  | .block key cs lead, d, l, hok => by
    simp only [DNode.OK] at hok
    simp only [DNode.ann, ANode.wf, forest_wf_ann env al hal cs (d + 1) (l + lead.length + 1) hok.2.2.2, Bool.and_true, hdrPos]
    split <;> simp only [decide_eq_true_eq] <;> omega
  | .sect id key cs lead, d, l, hok => by
    simp only [DNode.OK] at hok
    simp only [DNode.ann, ANode.wf, forest_wf_ann env al hal cs (d + 1) (l + lead.length + 1) hok.2.2.2.2, Bool.and_true,
      SecId.letterOk_toP al hal id hok.1, Bool.true_and, sheaderPosS]
    split <;> simp only [decide_eq_true_eq] <;> omega
theorem forest_wf_ann (env : Env) (al : Char → Bool) (hal : AlphaOK al) : ∀ (ns : List DNode) (d l : Nat), forestOK env ns →
    DParse.wfF al (forestAnn d l ns) d = true
  | [], _, _, _ => rfl
  | n :: ns, d, l, hok => by
    simp only [forestOK] at hok
    simp only [forestAnn, DParse.wfF, DNode.wf_ann env al hal n d l hok.1, forest_wf_ann env al hal ns d (l + n.nlines) hok.2,
      Bool.and_self]
end

/-- the first body node is a line or a block keyed `META` with NO comment line above it (a section never counts). -/
def firstIsMeta : List DNode → Bool
  | .line ln lead _ :: _ => lead.isEmpty && ln.key == "META".toList
  | .block key _ lead :: _ => lead.isEmpty && key == "META".toList
  | _ => false

theorem metaFirstA_bridge (d l : Nat) (nodes : List DNode) : DParse.metaFirstA (forestAnn d l nodes) = firstIsMeta nodes := by
  cases nodes with
  | nil => rfl
  | cons n ns =>
    cases n with
    | line ln lead trail => simp only [forestAnn, DNode.ann, DParse.metaFirstA, firstIsMeta, annLead_isEmpty]
    | block key cs lead => simp only [forestAnn, DNode.ann, DParse.metaFirstA, firstIsMeta, annLead_isEmpty]
    | sect id key cs lead => rfl

theorem fieldsToP_isEmpty (fields : List FLine) : (fieldsToP fields).isEmpty = fields.isEmpty := by
  cases fields <;> rfl

/-! ### the document -/

mutual
theorem DNode.node_ann : ∀ (n : DNode) (d i : Nat), (n.ann d (i + 2)).node = n.node canonPos i d
  | .line ln lead trail, d, i => by
    have e : i + 2 + lead.length = i + lead.length + 2 := by omega
    simp only [DNode.ann, ANode.node, DNode.node, texts_annLead, FScalar.val_toP, clinePos, canonPos, e]
  | .block key cs lead, d, i => by
    have e : i + 2 + lead.length = i + lead.length + 2 := by omega
    simp only [DNode.ann, ANode.node, DNode.node, texts_annLead, hdrPos, canonPos, e,
      forestNodes_ann cs (d + 1) (i + lead.length + 1)]
  | .sect id key cs lead, d, i => by
    have e : i + 2 + lead.length = i + lead.length + 2 := by omega
    simp only [DNode.ann, ANode.node, DNode.node, texts_annLead, sheaderPosS, canonPos, e, SecId.str_toP,
      forestNodes_ann cs (d + 1) (i + lead.length + 1)]
theorem forestNodes_ann : ∀ (ns : List DNode) (d i : Nat), nodesF (forestAnn d (i + 2) ns) = forestNodes canonPos i d ns
  | [], _, _ => rfl
  | n :: ns, d, i => by
    have e : i + 2 + n.nlines = (i + n.nlines) + 2 := by omega
    simp only [forestAnn, nodesF, forestNodes, DNode.node_ann n d i, e, forestNodes_ann ns d (i + n.nlines)]
end

/-- the document the reader returns for the canonical text, in general: `meta` is the Python dict built field by field
(`MetaParse.metaDict`: a repeated key overwrites in place); every body node at its text line, column `1 + 2·depth`, with its
comments; the document's trailing comments. -/
def dDocRead (name : Str) (fields : List FLine) (nodes : List DNode) (trailing : List Str) : Document :=
  { name := name, metaKv := MetaParse.metaDict [] (fieldsToP fields),
    sections := forestNodes canonPos (metaLines fields) 0 nodes, trailingComments := trailing }

/-- **the document of the parser half is the document of the lexer half.** -/
theorem dDoc_bridge (name : Str) (fields : List FLine) (nodes : List DNode) (trailing : List Str) :
    DParse.dDocP name (fieldsToP fields) (bodyAnn fields nodes) (trailAnn fields nodes trailing) = dDocRead name fields nodes trailing := by
  have e : 2 + metaLines fields = metaLines fields + 2 := by omega
  simp only [DParse.dDocP, dDocRead, bodyAnn, trailAnn, texts_annLead, e, forestNodes_ann]

/-- with distinct keys (what a Python dict has) `meta` is exactly the fields, in order. -/
theorem dDocRead_of_nodup (name : Str) (fields : List FLine) (nodes : List DNode) (trailing : List Str)
    (hnd : (fields.map FLine.key).Nodup) : dDocRead name fields nodes trailing = dDoc name canonPos fields nodes trailing := by
  simp only [dDocRead, dDoc]
  rw [MetaParse.metaDict_of_nodup _ (by rw [fieldsToP_keys]; exact hnd), fieldKv_bridge]

theorem stripFrontmatter_dDoc (env : Env) (name : Str) (fields : List FLine) (nodes : List DNode) (trailing : List Str) :
    Parser.stripFrontmatter env (dDocText name fields nodes trailing) = (dDocText name fields nodes trailing, none) := by
  unfold Parser.stripFrontmatter
  have : startsWith "---".toList (dDocText name fields nodes trailing) = false := by
    simp [dDocText, docText, startsWith, List.isPrefixOf]
  rw [this]; rfl

/-- the parser's warnings on the canonical text: the duplicate-key warnings of META, then the warnings of the body. -/
def dDocWarns (fields : List FLine) (nodes : List DNode) : List Parser.Warning :=
  MetaParse.metaWarns (metaPos fields []) [] (fieldsToP fields) 1 ++ DParse.warnsF (bodyAnn fields nodes) []

/-! ### position-free content -/

/-- the content of a forest with every position forgotten: ids, names, keys, nesting, order, values with their types, and
every comment at its node. -/
inductive DContent where
  | line (key : Str) (v : Value) (lead : List Str) (trail : Option Str)
  | block (key : Str) (children : List DContent) (lead : List Str)
  | sect (id key : Str) (children : List DContent) (lead : List Str)
  | other

mutual
def DNode.content : DNode → DContent
  | .line ln lead trail => .line ln.key ln.v.value lead trail
  | .block key cs lead => .block key (forestContent cs) lead
  | .sect id key cs lead => .sect id.text key (forestContent cs) lead
def forestContent : List DNode → List DContent
  | [] => []
  | n :: ns => n.content :: forestContent ns
end

mutual
/-- the content of an AST node (positions, block targets and annotations dropped). -/
def nodeContent : Node → DContent
  | .assign k v _ _ ld tr => .line k v ld tr
  | .block k ch _ _ ld _ => .block k (nodesContent ch) ld
  | .sect id k _ ch _ _ ld => .sect id k (nodesContent ch) ld
  | .comment _ => .other
def nodesContent : List Node → List DContent
  | [] => []
  | n :: ns => nodeContent n :: nodesContent ns
end

mutual
/-- an AST node determines the content of every `DNode` that `Matches` it. -/
theorem DNode.content_of_matches : ∀ (t : DNode) (n : Node), t.Matches n → nodeContent n = t.content
  | .line ln lead trail, n, h => by
    simp only [DNode.Matches] at h
    obtain ⟨l, c, rfl⟩ := h
    rfl
  | .block key cs lead, n, h => by
    simp only [DNode.Matches] at h
    obtain ⟨ch, l, c, rfl, hm⟩ := h
    simp only [nodeContent, DNode.content, forestContent_of_matches cs ch hm]
  | .sect id key cs lead, n, h => by
    simp only [DNode.Matches] at h
    obtain ⟨ch, l, c, rfl, hm⟩ := h
    simp only [nodeContent, DNode.content, forestContent_of_matches cs ch hm]
theorem forestContent_of_matches : ∀ (ts : List DNode) (ns : List Node), forestMatches ts ns → nodesContent ns = forestContent ts
  | [], ns, h => by
    simp only [forestMatches] at h
    subst h; rfl
  | t :: ts, ns, h => by
    simp only [forestMatches] at h
    obtain ⟨n, ns', rfl, hm, hr⟩ := h
    simp only [nodesContent, forestContent, DNode.content_of_matches t n hm, forestContent_of_matches ts ns' hr]
end

end Octave.D
