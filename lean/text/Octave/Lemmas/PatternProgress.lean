import Octave.Lemmas.ScanLength
/-! Every token pattern of the lexer consumes input (C20: the scanner advances on every pattern branch). -/
namespace Octave
open Lexer Scan

theorem simple_rest (t : TT) (text rest : Str) : (simple t text rest).rest = rest := by
  unfold simple; split <;> rfl

theorem kw_rest_lt {env : Env} {prev : Option Char} {w s r : Str} (hw : w ≠ []) (h : kw env prev w s = some r) : r.length < s.length := by
  unfold kw at h
  split at h
  · rename_i r' hl
    split at h
    · simp at h; subst h
      have := lit_rest hl
      have : w.length ≠ 0 := by intro e; exact hw (List.length_eq_zero_iff.mp e)
      omega
    · simp at h
  · simp at h

theorem numberMatch_rest {env : Env} {t r1 : Str} {m : Match} (h : numberMatch env t r1 = .ok (some m)) : m.rest = r1 := by
  unfold numberMatch at h
  split at h
  · split at h
    · cases h
    · simp only [Except.ok.injEq, Option.some.injEq] at h; subst h; rfl
  · split at h
    · simp only [Except.ok.injEq, Option.some.injEq] at h; subst h; rfl
    · cases h

theorem matchSentinel_rest_lt {env : Env} {s : Str} {m : Match} (h : matchSentinel env s = some m) : m.rest.length < s.length := by
  unfold matchSentinel at h
  split at h
  · rename_i r0 hl
    have h0 := lit_rest hl
    simp only [Option.map_eq_some_iff] at h
    obtain ⟨⟨v, r1⟩, hv, rfl⟩ := h
    have := sentinelVersion_rest_lt hv
    simp only; omega
  · simp at h

theorem matchDigit_rest_lt {env : Env} {s : Str} {m : Match} (h : matchDigit env s = .ok (some m)) : m.rest.length < s.length := by
  unfold matchDigit at h
  split at h
  · rename_i v r1 hv; simp at h; subst h; exact version3_rest_lt hv
  · split at h
    · rename_i v r1 hv; simp at h; subst h; exact version2pre_rest_lt hv
    · split at h
      · rename_i v r1 hv; simp at h; subst h; exact version2build_rest_lt hv
      · split at h
        · rename_i t r1 hn; rw [numberMatch_rest h]; exact number_rest_lt hn
        · simp at h

theorem matchEq_rest_lt {s : Str} {m : Match} (h : matchEq s = some m) : m.rest.length < s.length := by
  unfold matchEq at h
  split at h
  · rename_i r1 hl; simp at h; subst h
    have := lit_rest hl
    have e : "===END===".toList.length = 9 := by decide
    simp only; omega
  · split at h
    · rename_i name r1 he; simp at h; subst h; exact envelopeStart_rest_lt he
    · simp at h

theorem matchDash_rest_lt {env : Env} {s : Str} {m : Match} (h : matchDash env s = .ok (some m)) : m.rest.length < s.length := by
  unfold matchDash at h
  split at h
  · rename_i r1 hl; simp at h; subst h
    have := lit_rest hl
    have e : "---".toList.length = 3 := by decide
    rw [simple_rest]; omega
  · split at h
    · rename_i r1 hl; simp at h; subst h
      have := lit_rest hl
      have e : "->".toList.length = 2 := by decide
      rw [simple_rest]; omega
    · split at h
      · rename_i t r1 hn; rw [numberMatch_rest h]; exact number_rest_lt hn
      · simp at h

theorem matchQuote_rest_lt {c : Char} {r : Str} {m : Match} (h : matchQuote (c :: r) r = some m) : m.rest.length < (c :: r).length := by
  unfold matchQuote at h
  simp only at h
  split at h
  · rename_i m' hm
    simp at h; subst h
    split at hm
    · rename_i r0 hl
      have h0 := lit_rest hl
      simp only [Option.map_eq_some_iff] at hm
      obtain ⟨⟨body, r1⟩, hb, rfl⟩ := hm
      have := tripleBody_rest_lt r0 body r1 hb
      simp only; omega
    · simp at hm
  · split at h
    · rename_i body r1 hb
      simp at h; subst h
      have := stringBody_rest_lt r body r1 hb
      simp only [List.length_cons]; omega
    · simp at h

theorem matchKeyword_rest_lt {env : Env} {prev : Option Char} {c : Char} {s : Str} {m : Match}
    (h : matchKeyword env prev c s = some m) : m.rest.length < s.length := by
  unfold matchKeyword at h
  split at h
  · simp only [Option.map_eq_some_iff] at h; obtain ⟨r1, hk, rfl⟩ := h
    rw [simple_rest]; exact kw_rest_lt (by decide) hk
  · split at h
    · simp only [Option.map_eq_some_iff] at h; obtain ⟨r1, hk, rfl⟩ := h
      exact kw_rest_lt (by decide) hk
    · split at h
      · simp only [Option.map_eq_some_iff] at h; obtain ⟨r1, hk, rfl⟩ := h
        exact kw_rest_lt (by decide) hk
      · split at h
        · simp only [Option.map_eq_some_iff] at h; obtain ⟨r1, hk, rfl⟩ := h
          exact kw_rest_lt (by decide) hk
        · simp at h

theorem matchPunct_rest_lt {env : Env} {c : Char} {r : Str} {m : Match}
    (h : matchPunct env c r (c :: r) = some m) : m.rest.length < (c :: r).length := by
  unfold matchPunct at h
  split at h
  · split at h
    · rename_i r1
      simp at h; subst h
      have := takeWhile_rest_le (· != '\n') r1
      simp only [List.length_cons]; omega
    · simp at h
  · split at h
    · split at h
      · simp at h; subst h; simp only [simple_rest, List.length_cons]; omega
      · simp at h; subst h; simp only [simple_rest, List.length_cons]; omega
    · split at h
      · simp only [Option.map_eq_some_iff] at h; obtain ⟨r1, hl, rfl⟩ := h
        have := lit_rest hl
        have e : "<->".toList.length = 3 := by decide
        rw [simple_rest]; omega
      · split at h
        · simp only [Option.map_eq_some_iff] at h; obtain ⟨⟨b, r1⟩, hm, rfl⟩ := h
          have := many1_rest_lt hm
          simp only [List.length_cons]; omega
        · split at h
          · simp at h; subst h; simp
          · simp only [Option.map_eq_some_iff] at h; obtain ⟨t, _, rfl⟩ := h
            simp only [simple_rest, List.length_cons]; omega

/-- **Every token pattern consumes input**: whenever a pattern matches at `s`, what is left is strictly shorter. -/
theorem matchPattern_rest_lt {env : Env} {z : Bool} {prev : Option Char} {s : Str} {m : Match}
    (h : matchPattern env z prev s = .ok (some m)) : m.rest.length < s.length := by
  unfold matchPattern at h
  split at h
  · simp at h
  · rename_i c r
    split at h
    · rename_i m' hs
      simp at h; subst h
      split at hs
      · exact matchSentinel_rest_lt hs
      · simp at hs
    · split at h
      · exact matchDigit_rest_lt h
      · split at h
        · simp at h; exact matchEq_rest_lt h
        · split at h
          · exact matchDash_rest_lt h
          · split at h
            · simp at h; exact matchQuote_rest_lt h
            · split at h
              · simp at h; exact matchKeyword_rest_lt h
              · simp at h; exact matchPunct_rest_lt h
end Octave
