import Octave.Lemmas.IdentProgress
/-! The lexer main loop makes progress on every iteration and never runs out of fuel (C20). -/
namespace Octave
open Lexer Scan

/-- fence spans are non-empty intervals. -/
def SpansOK (spans : List Span) : Prop := ∀ sp ∈ spans, sp.start < sp.stop

theorem takeWhile_cons_true_rest (p : Char → Bool) (c : Char) (r : Str) (h : p c = true) :
    (takeWhile p (c :: r)).2.length ≤ r.length := by
  simp only [takeWhile, h, if_true]
  exact takeWhile_rest_le p r

/-- **Scanner progress**: every iteration of the main loop on a non-empty remaining input either raises or
strictly shortens the remaining input (and keeps the fence spans well-formed). -/
theorem step_progress (env : Env) (lenient : Bool) (st st' : LState) (s s' : Str)
    (hs : s ≠ []) (hok : SpansOK st.spans) (h : step env lenient st s = .ok (st', s')) :
    s'.length < s.length ∧ SpansOK st'.spans := by
  cases s with
  | nil => exact absurd rfl hs
  | cons c r =>
    unfold step at h
    simp only at h
    split at h
    · -- fence span
      rename_i hat
      cases hsp : st.spans with
      | nil => simp [atSpanStart, hsp] at hat
      | cons sp spans' =>
        have hlt := hok sp (by rw [hsp]; simp)
        have hok' : SpansOK spans' := fun x hx => hok x (by rw [hsp]; simp [hx])
        simp only [hsp] at h
        have hd : ((c :: r).drop (sp.stop - sp.start)).length < (c :: r).length := by
          simp only [List.length_drop, List.length_cons]; omega
        split at h
        · rename_i rest' heq
          simp only [Except.ok.injEq, Prod.mk.injEq] at h
          obtain ⟨rfl, rfl⟩ := h
          have := congrArg List.length heq
          simp only [List.length_cons] at this
          exact ⟨by omega, hok'⟩
        · simp only [Except.ok.injEq, Prod.mk.injEq] at h
          obtain ⟨rfl, rfl⟩ := h
          exact ⟨hd, hok'⟩
    · split at h
      · -- space
        rename_i hc
        have hc' : c = ' ' := by simpa using hc
        subst hc'
        split at h
        · have htw := takeWhile_cons_true_rest (· == ' ') ' ' r (by decide)
          split at h
          · split at h <;>
            · simp only [Except.ok.injEq, Prod.mk.injEq] at h
              obtain ⟨rfl, rfl⟩ := h
              exact ⟨by simp only [List.length_cons]; omega, hok⟩
          · simp only [Except.ok.injEq, Prod.mk.injEq] at h
            obtain ⟨rfl, rfl⟩ := h
            exact ⟨by simp only [List.length_cons]; omega, hok⟩
        · simp only [Except.ok.injEq, Prod.mk.injEq] at h
          obtain ⟨rfl, rfl⟩ := h
          exact ⟨by simp, hok⟩
      · simp only [bind, Except.bind] at h
        cases hmp : matchPattern env st.blank st.prev (c :: r) with
        | error e => simp [hmp] at h
        | ok v =>
          simp only [hmp] at h
          cases v with
          | some m =>
            simp only at h
            have hlt := matchPattern_rest_lt hmp
            split at h
            · simp at h
            · simp only [Except.ok.injEq, Prod.mk.injEq] at h
              obtain ⟨rfl, rfl⟩ := h
              exact ⟨hlt, hok⟩
          | none =>
            simp only at h
            split at h
            · simp at h
            · split at h
              · simp only [Except.ok.injEq, Prod.mk.injEq] at h
                obtain ⟨rfl, rfl⟩ := h
                exact ⟨by simp, hok⟩
              · split at h
                · rename_i ident rest rep hmi
                  have := matchIdentifier_rest_lt hmi
                  simp only [Except.ok.injEq, Prod.mk.injEq] at h
                  obtain ⟨rfl, rfl⟩ := h
                  exact ⟨this, hok⟩
                · split at h
                  · rename_i res heq
                    simp only [Except.ok.injEq] at h
                    subst h
                    -- the `%` merge
                    have h1 := congrArg List.length (takeWhile_append (fun d => env.idChar d && !isOperatorChar d) r)
                    have h2 := stripHyphens_len '%' (takeWhile (fun d => env.idChar d && !isOperatorChar d) r).1
                    split at heq
                    · split at heq
                      · split at heq
                        · split at heq
                          · split at heq
                            · simp only [Option.some.injEq, Prod.mk.injEq] at heq
                              obtain ⟨rfl, rfl⟩ := heq
                              refine ⟨?_, hok⟩
                              simp only [List.length_append, List.length_cons] at *
                              omega
                            · simp at heq
                          · simp at heq
                        · simp at heq
                      · simp at heq
                    · simp at heq
                  · simp at h

/-- `step` raises nothing but positioned LexerErrors (in particular never the model's out-of-fuel marker). -/
theorem step_error_lexer (env : Env) (lenient : Bool) (st : LState) (s : Str) (e : Exc)
    (h : step env lenient st s = .error e) : ∃ code l c, e = .lexer code l c := by
  cases s with
  | nil => simp [step] at h
  | cons c r =>
    unfold step at h
    simp only at h
    split at h
    · split at h
      · simp at h
      · split at h <;> simp at h
    · split at h
      · split at h
        · split at h
          · split at h <;> simp at h
          · simp at h
        · simp at h
      · simp only [bind, Except.bind] at h
        cases hmp : matchPattern env st.blank st.prev (c :: r) with
        | error e' => simp [hmp] at h; exact ⟨_, _, _, h.symm⟩
        | ok v =>
          simp only [hmp] at h
          cases v with
          | some m =>
            simp only at h
            split at h
            · rename_i err herr
              simp at h; subst h
              split at herr
              · simp [pure, Except.pure] at herr
              · split at herr
                · simp [throw, throwThe, MonadExceptOf.throw] at herr; exact ⟨_, _, _, herr.symm⟩
                · simp [pure, Except.pure] at herr
              · simp [pure, Except.pure] at herr
            · simp at h
          | none =>
            simp only at h
            split at h
            · simp at h; exact ⟨_, _, _, h.symm⟩
            · split at h
              · simp at h
              · split at h
                · simp at h
                · split at h
                  · simp at h
                  · simp at h; exact ⟨_, _, _, h.symm⟩

/-- **No hang in the scanner**: with fuel exceeding the input length the main loop never runs out of fuel —
every iteration consumes input, so at most `length` iterations happen. -/
theorem loop_never_out_of_fuel (env : Env) (lenient : Bool) :
    ∀ (fuel : Nat) (st : LState) (s : Str), s.length < fuel → SpansOK st.spans →
      loop env lenient fuel st s ≠ .error .fuel := by
  intro fuel
  induction fuel with
  | zero => intro st s h; exact absurd h (Nat.not_lt_zero _)
  | succ n ih =>
    intro st s hlen hok
    cases s with
    | nil => simp [loop]
    | cons c r =>
      unfold loop
      simp only [bind, Except.bind]
      cases hst : step env lenient st (c :: r) with
      | error e =>
        simp only
        obtain ⟨code, l, cc, rfl⟩ := step_error_lexer env lenient st (c :: r) e hst
        simp
      | ok p =>
        obtain ⟨st', s'⟩ := p
        simp only
        have ⟨hlt, hok'⟩ := step_progress env lenient st st' (c :: r) s' (by simp) hok hst
        exact ih st' s' (by omega) hok'
end Octave
