import Octave.Lemmas.PatternProgress
/-! `_match_unicode_identifier` consumes input (C20). -/
namespace Octave
open Lexer Scan

theorem stripHyphens_len (c : Char) (cs : Str) :
    (stripHyphens (c :: cs)).1.length + (stripHyphens (c :: cs)).2.length = cs.length + 1
    ∧ 1 ≤ (stripHyphens (c :: cs)).1.length := by
  unfold stripHyphens
  simp only [List.length_cons, List.length_take, List.length_drop]
  constructor <;> omega

theorem idRun_rest_lt {env : Env} {s a b : Str} (h : idRun env s = some (a, b)) : b.length < s.length := by
  unfold idRun at h
  split at h
  · rename_i c cs
    split at h
    · have h1 := congrArg List.length (takeWhile_append env.idChar cs)
      have h2 := stripHyphens_len c (takeWhile env.idChar cs).1
      simp only [Option.some.injEq, Prod.mk.injEq] at h
      obtain ⟨_, rfl⟩ := h
      simp only [List.length_append, List.length_cons] at *
      omega
    · simp at h
  · simp at h

theorem angleTail_rest_lt {env : Env} {s a b : Str} (h : angleTail env s = some (a, b)) : b.length < s.length := by
  unfold angleTail at h
  split at h
  · simp at h; obtain ⟨_, rfl⟩ := h; simp only [List.length_cons]; omega
  · rename_i c cs _
    split at h
    · have h1 := congrArg List.length (takeWhile_append (fun d => env.idChar d || d == ',') cs)
      have h2 := stripHyphens_len c (takeWhile (fun d => env.idChar d || d == ',') cs).1
      generalize hsh : stripHyphens (c :: (takeWhile (fun d => env.idChar d || d == ',') cs).1) = sh at h h2
      obtain ⟨kept, back⟩ := sh
      generalize htw : takeWhile (fun d => env.idChar d || d == ',') cs = tw at h h1 h2 hsh
      obtain ⟨body, r⟩ := tw
      simp only at h h1 h2
      have e1 : (stripHyphens (c :: body)).1 = kept := by rw [hsh]
      have e2 : (stripHyphens (c :: body)).2 = back := by rw [hsh]
      split at h
      · rename_i r' heq
        simp at h; obtain ⟨_, rfl⟩ := h
        have h3 := congrArg List.length heq
        simp only [e1, e2] at *
        simp only [List.length_append, List.length_cons] at *
        omega
      · simp at h
    · simp at h
  · simp at h

theorem curlyTail_rest_lt {env : Env} {s a b : Str} (h : curlyTail env s = some (a, b)) : b.length < s.length := by
  unfold curlyTail at h
  split at h
  · rename_i r
    split at h
    · rename_i q r' hi
      simp at h; obtain ⟨_, rfl⟩ := h
      have := idRun_rest_lt hi
      simp only [List.length_cons] at *; omega
    · simp at h
  · simp at h

theorem matchIdentifier_rest_lt {env : Env} {l : Bool} {s v rest : Str} {rep : Option (Str × Str)}
    (h : matchIdentifier env l s = some (v, rest, rep)) : rest.length < s.length := by
  unfold matchIdentifier at h
  split at h
  · simp at h
  · rename_i name r hi
    have h0 := idRun_rest_lt hi
    split at h
    rename_i name1 r1 hpair
    have h1' : r1.length ≤ r.length := by
      cases ha : angleTail env r with
      | none => simp [ha] at hpair; obtain ⟨_, rfl⟩ := hpair; exact Nat.le_refl _
      | some v =>
        obtain ⟨q, r'⟩ := v
        simp [ha] at hpair; obtain ⟨_, rfl⟩ := hpair
        have := angleTail_rest_lt ha; omega
    split at h
    · rename_i q r2 hc
      have h2 := curlyTail_rest_lt hc
      split at h
      · simp only [Option.some.injEq, Prod.mk.injEq] at h; obtain ⟨_, rfl, _⟩ := h; omega
      · simp only [Option.some.injEq, Prod.mk.injEq] at h; obtain ⟨_, rfl, _⟩ := h; omega
    · simp only [Option.some.injEq, Prod.mk.injEq] at h; obtain ⟨_, rfl, _⟩ := h; omega
end Octave
