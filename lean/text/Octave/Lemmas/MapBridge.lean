/-
Emitter half and glue for flat documents whose list values hold scalars and single-pair inline-map items.

* `emitValue_mlist`, `emit_mdoc`    the emitter writes exactly `mdocText` with the layouts `MValue.canonLayout` chooses
                                    (`_needs_multiline` on the AST list: ANY inline-map item forces one item per line —
                                    `needsMultiline_entry`, `needsMultiline_mitems` —, otherwise ≥ 3 items or an
                                    annotation-shaped string); an inline-map
                                    item is written `key::value` (`emitPairs`, PATTERN / REGEX keys force quotes);
* `mListToks_ok`, `MLine.toV`, `mdocToks_bridge`, `toVLinesM_ok`   the lexer's token list (`Lemmas/MapLex`) is a token list the
                                    parser half (`Lemmas/MapParse`, `Lemmas/ListDocParse`) reads;
* `listP`, `mListToks_okX`, `MValue.vw`, `toXLines`, `toXLines_ok`   the same with every item at its position, for the exact
                                    warnings (`Lemmas/MapDocParse`: `VLine.OKX`);
* `mdocAt`                          the document read back (nodes positioned at their keys).
-/
import Octave.Lemmas.MapLex
import Octave.Lemmas.MapParse
import Octave.Lemmas.MapDocParse
import Octave.Lemmas.ListBridge
namespace Octave.Maps
open Lexer Emitter
open Octave.ListDoc

/-! ### the emitter -/

def MItem.value : MItem → Value
  | .scalar s => s.value
  | .entry k v => .imap [(k, v.value)]

def MItem.isEntry : MItem → Bool
  | .entry _ _ => true
  | .scalar _ => false

/-- when the emitter spells an inline-map value the way `FScalar.text` does (`_force_quote_inline_map_value`): a string is
quoted when `needs_quotes` says so OR when the key is `PATTERN` / `REGEX` (forced quotes; the value then must not itself start
with `"`, which no string that needs no quotes does); a bare word needs no quotes and does not sit under `PATTERN` / `REGEX`. -/
def EntryEmitOK (k : Str) : FScalar → Prop
  | .qstr s => needsQuotes s = true ∨ (alwaysQuoteKey k = true ∧ (s.head? != some '"') = true)
  | .bare s => needsQuotes s = false ∧ alwaysQuoteKey k = false
  | _ => True

/-- when the emitter spells the item the way `MItem.text` does. -/
def MItemEmitOK : MItem → Prop
  | .scalar s => ItemEmitOK s
  | .entry k v => EntryEmitOK k v

theorem scalar_value_present (v : FScalar) : isAbsent v.value = false := by cases v <;> rfl

theorem emitValue_entryValue (k : Str) (v : FScalar) (h : EntryEmitOK k v) (ind : Nat) :
    (emitValue v.value ind).map (fun vs => forceQuote k vs v.value) = some v.text := by
  cases v with
  | qstr s =>
    cases hq : needsQuotes s with
    | true => simp [FScalar.value, FScalar.text, emitValue, emitStr, hq, forceQuote, quoted]
    | false =>
      have h' : alwaysQuoteKey k = true ∧ (s.head? != some '"') = true := by
        rcases h with h | h
        · rw [hq] at h; cases h
        · exact h
      have hne : s.head? ≠ some '"' := by simpa using h'.2
      simp [FScalar.value, FScalar.text, emitValue, emitStr, hq, forceQuote, h'.1, hne]
  | bare s =>
    have hq : needsQuotes s = false := h.1
    have ha : alwaysQuoteKey k = false := h.2
    simp [FScalar.value, FScalar.text, emitValue, emitStr, hq, forceQuote, ha]
  | bool b => cases b <;> simp [FScalar.value, FScalar.text, emitValue, forceQuote]
  | null => simp [FScalar.value, FScalar.text, emitValue, forceQuote]
  | int i => simp [FScalar.value, FScalar.text, emitValue, forceQuote]

theorem emitPairs_entry (k : Str) (v : FScalar) (h : EntryEmitOK k v) (ind : Nat) :
    emitPairs [(k, v.value)] ind = some [k ++ (':' :: ':' :: v.text)] := by
  have hv := emitValue_entryValue k v h ind
  cases hx : emitValue v.value ind with
  | none => rw [hx] at hv; simp at hv
  | some vs =>
    rw [hx] at hv
    simp only [Option.map_some, Option.some.injEq] at hv
    cases v <;> simp_all [emitPairs, FScalar.value]

theorem emitMultiParts_mcons (x : MItem) (h : MItemEmitOK x) (vs : List Value) (ind : Nat) :
    emitMultiParts (x.value :: vs) ind = (emitMultiParts vs ind).map (fun rest => x.text :: rest) := by
  cases x with
  | scalar s =>
    rw [show (MItem.scalar s).value = s.value from rfl, emitMultiParts_cons, emitValue_scalar s h]
    cases emitMultiParts vs ind <;> rfl
  | entry k v =>
    have hp := emitPairs_entry k v h (ind + 1)
    simp only [MItem.value, emitMultiParts, hp, MItem.text]
    cases emitMultiParts vs ind <;> simp [joinWith]

theorem emitMultiParts_mitems (items : List MItem) (h : ∀ x ∈ items, MItemEmitOK x) (ind : Nat) :
    emitMultiParts (items.map MItem.value) ind = some (items.map MItem.text) := by
  induction items with
  | nil => rfl
  | cons x r ih =>
    rw [List.map_cons, emitMultiParts_mcons x (h x (by simp)), ih (fun y hy => h y (by simp [hy]))]
    rfl

/-- an inline-map item forces the multi-line layout. -/
theorem needsMultilineAux_entry (items : List MItem) : ∀ n, items.any MItem.isEntry = true →
    needsMultilineAux (items.map MItem.value) n = true := by
  induction items with
  | nil => intro n h; simp at h
  | cons x r ih =>
    intro n h
    cases x with
    | entry k v =>
      simp [MItem.value, needsMultilineAux, imapHasPresent, scalar_value_present]
    | scalar s =>
      have hr : r.any MItem.isEntry = true := by simpa [MItem.isEntry] using h
      rw [List.map_cons, show (MItem.scalar s).value = s.value from rfl, needsMultilineAux_cons, ih (n + 1) hr]
      simp

theorem needsMultiline_entry (items : List MItem) (h : items.any MItem.isEntry = true) :
    needsMultiline (items.map MItem.value) = true := needsMultilineAux_entry items 0 h

/-- the item is a scalar string of annotation shape `NAME<qualifier>` (forces the multi-line layout, as in lists of scalars). -/
def MItem.isAnnot : MItem → Bool
  | .scalar s => itemAnnot s
  | .entry _ _ => false

theorem needsMultilineAux_mitems (items : List MItem) : ∀ n,
    needsMultilineAux (items.map MItem.value) n
      = (items.any MItem.isEntry || items.any MItem.isAnnot || decide (n + items.length ≥ 3)) := by
  induction items with
  | nil => intro n; simp [needsMultilineAux]
  | cons x r ih =>
    intro n
    cases x with
    | entry k v =>
      rw [needsMultilineAux_entry (MItem.entry k v :: r) n (by simp [MItem.isEntry])]
      simp [MItem.isEntry]
    | scalar s =>
      rw [List.map_cons, show (MItem.scalar s).value = s.value from rfl, needsMultilineAux_cons, ih (n + 1)]
      simp only [List.any_cons, MItem.isEntry, MItem.isAnnot, List.length_cons, Bool.false_or]
      have e : decide (n + 1 + r.length ≥ 3) = decide (n + (r.length + 1) ≥ 3) := by
        simp only [decide_eq_decide]; omega
      rw [e]
      cases itemAnnot s <;> cases r.any MItem.isEntry <;> simp

/-- **which layout the emitter chooses** (`_needs_multiline` on a list of the class): one item per line iff some item is an
inline map, or some scalar item is an annotation-shaped string, or there are three or more items. -/
theorem needsMultiline_mitems (items : List MItem) :
    needsMultiline (items.map MItem.value)
      = (items.any MItem.isEntry || items.any MItem.isAnnot || decide (items.length ≥ 3)) := by
  rw [needsMultiline, needsMultilineAux_mitems]; simp

theorem emitFlatParts_mitems (items : List MItem) (h : ∀ x ∈ items, MItemEmitOK x) (hne : items.any MItem.isEntry = false)
    (ind : Nat) : emitFlatParts (items.map MItem.value) ind = some (items.map MItem.text) := by
  induction items with
  | nil => rfl
  | cons x r ih =>
    cases x with
    | entry k v => simp [MItem.isEntry] at hne
    | scalar s =>
      have hr : r.any MItem.isEntry = false := by simpa [MItem.isEntry] using hne
      rw [List.map_cons, show (MItem.scalar s).value = s.value from rfl, emitFlatParts_cons,
        emitValue_scalar s (h (MItem.scalar s) (by simp)), ih (fun y hy => h y (by simp [hy])) hr]
      rfl

theorem joinWith_mInlineTail (x : MItem) (r : List MItem) :
    joinWith [','] ((x :: r).map MItem.text) ++ [']'] = x.text ++ mInlineTail r := by
  induction r generalizing x with
  | nil => simp [joinWith, mInlineTail]
  | cons y r ih =>
    simp only [List.map_cons, joinWith, mInlineTail, List.append_assoc] at ih ⊢
    rw [ih y]; simp

theorem joinWith_mMultiTail (ind : Nat) (x : MItem) (r : List MItem) :
    joinWith ['\n'] (multilineLines (spacesL ind) ((x :: r).map MItem.text) ++ [[']']])
      = spacesL ind ++ (x.text ++ mMultiTail ind r) := by
  induction r generalizing x with
  | nil => simp [multilineLines, joinWith, mMultiTail]
  | cons y r ih =>
    have h := ih y
    simp only [List.map_cons] at h ⊢
    rw [multilineLines, List.cons_append, joinWith_cons_ne _ _ _ (by simp), h]
    simp [mMultiTail]


/-- `emit_value` on a list of scalars and inline-map items: `[]`, the one-line layout, or the multi-line layout with two
spaces — chosen by `_needs_multiline` on the AST list (content only). -/
theorem emitValue_mlist (items : List MItem) (h : ∀ x ∈ items, MItemEmitOK x) :
    emitValue (.list (items.map MItem.value)) 0
      = some (if needsMultiline (items.map MItem.value) then mMultiText 2 items else mInlineText items) := by
  cases items with
  | nil => rfl
  | cons x r =>
    have hne : ((x :: r).map MItem.value).isEmpty = false := by simp
    rw [emitValue]
    simp only [hne, Bool.false_eq_true, if_false]
    cases hm : needsMultiline ((x :: r).map MItem.value) with
    | true =>
      simp only [if_true, emitMultiParts_mitems (x :: r) h 0, Option.map_some]
      have hp : ((x :: r).map MItem.text).isEmpty = false := by simp
      simp only [hp, Bool.false_eq_true, if_false]
      have e : indentStr 0 ++ [']'] = [']'] := rfl
      have e2 : indentStr (0 + 1) = spacesL 2 := rfl
      rw [e, e2, List.cons_append, joinWith_cons_ne _ _ _ (by simp), joinWith_mMultiTail]
      simp [mMultiText]
    | false =>
      have hent : (x :: r).any MItem.isEntry = false := by
        cases he : (x :: r).any MItem.isEntry with
        | false => rfl
        | true => rw [needsMultiline_entry _ he] at hm; cases hm
      simp only [Bool.false_eq_true, if_false, emitFlatParts_mitems (x :: r) h hent 0, Option.map_some]
      have := joinWith_mInlineTail x r
      simp only [List.cons_append, mInlineText]
      rw [this]

/-! ### lines and documents -/

def MValue.value : MValue → Value
  | .scalar s => s.value
  | .list items => .list (items.map MItem.value)

/-- the layout the emitter chooses for the value: a function of the content only. -/
def MValue.canonLayout : MValue → Layout
  | .scalar _ => .inline
  | .list items => if needsMultiline (items.map MItem.value) then .multi 2 else .inline

def MLine.EmitOK (ln : MLine) : Prop :=
  match ln.v with
  | .scalar s => (FLine.mk ln.key s).EmitOK
  | .list items => ∀ x ∈ items, MItemEmitOK x

def MLine.node (ln : MLine) (l c : Nat) : Node := .assign ln.key ln.v.value l c [] none

theorem emitNode_mline (env : Env) (ln : MLine) (l c : Nat) (h : ln.EmitOK) :
    emitNode env (ln.node l c) 0 false = some [ln.text ln.v.canonLayout] := by
  obtain ⟨key, v⟩ := ln
  cases v with
  | scalar s => exact emitNode_flat env ⟨key, s⟩ l c h
  | list items =>
    have hv := emitValue_mlist items h
    simp only [MLine.node, MValue.value, emitNode, emitAssignment, hv, Option.map_some, forceQuote, leadingLines, List.map_nil,
      List.nil_append, indentStr, MLine.text, MValue.text, MValue.canonLayout]
    cases needsMultiline (items.map MItem.value) <;> simp [mListText]

inductive MNodesOf : List MLine → List Node → Prop
  | nil : MNodesOf [] []
  | cons (ln : MLine) (l c : Nat) {r : List MLine} {ns : List Node} : MNodesOf r ns → MNodesOf (ln :: r) (ln.node l c :: ns)

/-- the lines with the layouts the emitter chooses. -/
def canonML (lines : List MLine) : List ML := lines.map fun ln => (ln, ln.v.canonLayout)

theorem emitTop_mlines (env : Env) {lines : List MLine} {nodes : List Node} (hn : MNodesOf lines nodes)
    (h : ∀ ln ∈ lines, ln.EmitOK) :
    emitTop env nodes = some ((canonML lines).map fun x => x.1.text x.2) := by
  induction hn with
  | nil => rfl
  | cons ln l c _ ih =>
    have h1 := emitNode_mline env ln l c (h ln (by simp))
    have h2 := ih (fun x hx => h x (by simp [hx]))
    simp only [MLine.node] at h1
    simp only [emitTop, MLine.node, h1, h2, canonML, List.map_cons]
    rfl

theorem joinWith_mlines (ls : List ML) (tail : Str) :
    joinWith ['\n'] (ls.map (fun x => x.1.text x.2) ++ [tail]) = mlinesText ls ++ tail := by
  induction ls with
  | nil => rfl
  | cons x r ih =>
    rw [List.map_cons, List.cons_append, joinWith_cons_ne _ _ _ (by simp), ih]
    simp [mlinesText]

/-- **The emitter on a flat document with list values** writes exactly `mdocText` with the canonical layouts. -/
theorem emit_mdoc (env : Env) (name : Str) {lines : List MLine} {nodes : List Node} (hn : MNodesOf lines nodes)
    (h : ∀ ln ∈ lines, ln.EmitOK) :
    emit env { name := name, sections := nodes } = some (mdocText name (canonML lines)) := by
  have ht := emitTop_mlines env hn h
  have hj := joinWith_mlines (canonML lines) "===END===".toList
  unfold emit emitBody
  simp only [emitMetaLines, ht, leadingLines, List.map_nil, List.isEmpty_nil, Bool.true_or, if_true,
    Bool.false_eq_true, if_false, List.nil_append, List.append_nil, bind, Option.bind, pure, Option.map]
  show some (finishText (joinWith ['\n'] (("===".toList ++ name ++ "===".toList) ::
    ((canonML lines).map (fun x => x.1.text x.2) ++ ["===END===".toList])))) = _
  rw [joinWith_cons_ne _ _ _ (by simp), hj]
  have hlast : (("===".toList ++ name ++ "===".toList) ++ ['\n'] ++ (mlinesText (canonML lines) ++ "===END===".toList)).getLast? = some '=' := by
    rw [List.getLast?_append, List.getLast?_append]; rfl
  simp only [finishText, hlast]
  simp [mdocText]
open Octave.ListDocParse (AllWs VLine isWsT vdocToks vdoc vmetaFirst vline_scalar_ok)

/-! ### glue: the lexer's tokens are tokens the parser half reads -/

def MItem.toP (l c : Nat) : MItem → PItem
  | .scalar s => .scalar s.toP l c
  | .entry k v => .entry (tIdent k l c) (tAssign l (c + k.length)) k v.toP l (c + k.length + 2)

theorem MItem.toP_toks (x : MItem) (l c : Nat) : (x.toP l c).toks = x.toks l c := by
  cases x <;> simp [MItem.toP, PItem.toks, MItem.toks, scalar_tok_toP]

theorem MItem.toP_val (x : MItem) (l c : Nat) : (x.toP l c).val = x.value := by
  cases x <;> simp [MItem.toP, PItem.val, MItem.value, scalar_val_toP]

theorem MItem.toP_ok (x : MItem) (l c : Nat) : (x.toP l c).OK := by
  cases x with
  | scalar s => trivial
  | entry k v => exact ⟨rfl, rfl, rfl⟩

/-- the item draws no parser warning: no quoted string under a constructor name (`constructor_misuse`), no bare word under
`PATTERN` / `REGEX` (`pattern_autoquote`). -/
def MItem.Quiet : MItem → Prop
  | .entry k (.qstr _) => ListParse.isCtorKey k = false
  | .entry k (.bare _) => ¬ (k = "PATTERN".toList ∨ k = "REGEX".toList)
  | _ => True

theorem MItem.toP_warns (x : MItem) (l c : Nat) (h : x.Quiet) : (x.toP l c).warns = [] := by
  cases x with
  | scalar s => rfl
  | entry k v =>
    cases v with
    | qstr s =>
      have h' : ListParse.isCtorKey k = false := h
      simp [MItem.toP, PItem.warns, FScalar.toP, entryWarns, h']
    | bare s =>
      have h' : ¬ (k = "PATTERN".toList ∨ k = "REGEX".toList) := h
      simp only [MItem.toP, PItem.warns, FScalar.toP, entryWarns]
      rw [if_neg h']
    | bool b => rfl
    | null => rfl
    | int i => rfl

/-- a token-level item is the lexer's rendering of a content item at some position. -/
def Rel (p : PItem) (x : MItem) : Prop := ∃ l c, p = x.toP l c

inductive RelL : List PItem → List MItem → Prop
  | nil : RelL [] []
  | cons {p : PItem} {x : MItem} {ps : List PItem} {xs : List MItem} : Rel p x → RelL ps xs → RelL (p :: ps) (x :: xs)

theorem RelL.length_eq {vs : List PItem} {items : List MItem} (h : RelL vs items) : vs.length = items.length := by
  induction h with
  | nil => rfl
  | cons _ _ ih => simp [ih]

theorem rel_vals {vs : List PItem} {items : List MItem} (h : RelL vs items) :
    vs.map PItem.val = items.map MItem.value := by
  induction h with
  | nil => rfl
  | cons hx _ ih =>
    obtain ⟨l, c, rfl⟩ := hx
    simp only [List.map_cons, ih, MItem.toP_val]

theorem rel_warns {vs : List PItem} {items : List MItem} (h : RelL vs items) (hq : ∀ x ∈ items, x.Quiet) :
    itemsWarns vs = [] := by
  induction h with
  | nil => rfl
  | cons hx _ ih =>
    obtain ⟨l, c, rfl⟩ := hx
    simp only [itemsWarns, List.flatMap_cons] at ih ⊢
    rw [MItem.toP_warns _ l c (hq _ (by simp)), ih (fun y hy => hq y (by simp [hy]))]
    rfl

theorem mHead_inline (r : List MItem) : ∀ (x : MItem) (l c c' : Nat),
    ∃ vs, RelL vs (x :: r) ∧ MHead vs (x.toks l c ++ mInlineTailToks l c' r) := by
  induction r with
  | nil =>
    intro x l c c'
    refine ⟨[x.toP l c], RelL.cons ⟨l, c, rfl⟩ RelL.nil, ?_⟩
    have := MHead.last [] (x.toP l c) [] (tRb l c') allWs_nil allWs_nil rfl (x.toP_ok l c)
    simpa [mInlineTailToks, MItem.toP_toks] using this
  | cons y r ih =>
    intro x l c c'
    obtain ⟨vs, hrel, hh⟩ := ih y l (c' + 1) (c' + 1 + y.text.length)
    refine ⟨x.toP l c :: vs, RelL.cons ⟨l, c, rfl⟩ hrel, ?_⟩
    have := MHead.more [] (x.toP l c) (tComma l c') _ _ allWs_nil rfl (x.toP_ok l c) hh
    simpa [mInlineTailToks, MItem.toP_toks] using this

theorem mHead_multi (ind : Nat) (r : List MItem) : ∀ (x : MItem) (ws : List Token) (l c l' c' : Nat), AllWs ws →
    ∃ vs, RelL vs (x :: r) ∧ MHead vs (ws ++ (x.toks l c ++ mMultiTailToks ind l' c' r)) := by
  induction r with
  | nil =>
    intro x ws l c l' c' hws
    refine ⟨[x.toP l c], RelL.cons ⟨l, c, rfl⟩ RelL.nil, ?_⟩
    have := MHead.last ws (x.toP l c) [tNewline l' c'] (tRb (l' + 1) 1) hws (allWs_nl _ _) rfl (x.toP_ok l c)
    simpa [mMultiTailToks, MItem.toP_toks] using this
  | cons y r ih =>
    intro x ws l c l' c' hws
    obtain ⟨vs, hrel, hh⟩ := ih y (tNewline l' (c' + 1) :: indToks ind (l' + 1)) (l' + 1) (1 + ind) (l' + 1) (1 + ind + y.text.length)
      (allWs_nl_ind _ _ _ _)
    refine ⟨x.toP l c :: vs, RelL.cons ⟨l, c, rfl⟩ hrel, ?_⟩
    have := MHead.more ws (x.toP l c) (tComma l' c') _ _ hws rfl (x.toP_ok l c) hh
    simpa [mMultiTailToks, MItem.toP_toks] using this

/-- the lexer's tokens of a list value, in either layout, are an `MListToks` of the items at their positions. -/
theorem mListToks_ok (lay : Layout) (l c : Nat) (items : List MItem) :
    ∃ vs, RelL vs items ∧ MListToks vs (mListToks lay l c items) := by
  cases lay with
  | inline =>
    cases items with
    | nil => exact ⟨[], RelL.nil, MListToks.empty (tLb l c) [] (tRb l (c + 1)) rfl allWs_nil rfl⟩
    | cons x r =>
      obtain ⟨vs, hrel, hh⟩ := mHead_inline r x l (c + 1) (c + 1 + x.text.length)
      exact ⟨vs, hrel, MListToks.items (tLb l c) _ _ rfl hh⟩
  | multi ind =>
    cases items with
    | nil => exact ⟨[], RelL.nil, MListToks.empty (tLb l c) [tNewline l (c + 1)] (tRb (l + 1) 1) rfl (allWs_nl _ _) rfl⟩
    | cons x r =>
      obtain ⟨vs, hrel, hh⟩ := mHead_multi ind r x (tNewline l (c + 1) :: indToks ind (l + 1)) (l + 1) (1 + ind) (l + 1)
        (1 + ind + x.text.length) (allWs_nl_ind _ _ _ _)
      refine ⟨vs, hrel, ?_⟩
      have := MListToks.items (tLb l c) _ _ rfl hh
      simpa [mListToks, mMultiToks] using this

/-! ### lines -/

theorem MValue.toks_ne_nil (v : MValue) (lay : Layout) (l c : Nat) : v.toks lay l c ≠ [] := by
  cases v with
  | scalar s => simp [MValue.toks]
  | list items => cases lay <;> cases items <;> simp [MValue.toks, mListToks, mInlineToks, mMultiToks]

/-- the line as the parser half describes it. -/
def MLine.toV (ln : MLine) (lay : Layout) (l : Nat) : VLine :=
  { kt := tIdent ln.key l 1, key := ln.key, a := tAssign l (1 + ln.key.length),
    vt := (ln.v.toks lay l (1 + ln.key.length + 2)).headD default,
    vr := (ln.v.toks lay l (1 + ln.key.length + 2)).tail,
    v := ln.v.value,
    nl := tNewline (l + ln.v.height lay) (ln.v.endCol lay (1 + ln.key.length + 2)) }

theorem MLine.toV_vtoks (ln : MLine) (lay : Layout) (l : Nat) :
    (ln.toV lay l).vt :: (ln.toV lay l).vr = ln.v.toks lay l (1 + ln.key.length + 2) := by
  obtain ⟨t, r, h⟩ := List.exists_cons_of_ne_nil (MValue.toks_ne_nil ln.v lay l (1 + ln.key.length + 2))
  simp only [MLine.toV, h, List.headD_cons, List.tail_cons]

theorem MLine.toV_toks (ln : MLine) (lay : Layout) (l : Nat) : (ln.toV lay l).toks = ln.toks lay l := by
  have h := MLine.toV_vtoks ln lay l
  simp only [VLine.toks, MLine.toks]
  rw [← List.cons_append, h]
  rfl


/-- fuel `parse_value` needs for the value. -/
def MValue.need : MValue → Nat
  | .scalar _ => 2
  | .list items => items.length + 6

def MValue.Quiet : MValue → Prop
  | .scalar _ => True
  | .list items => ∀ x ∈ items, x.Quiet

theorem MLine.toV_ok (ln : MLine) (lay : Layout) (l : Nat) (hq : ln.v.Quiet) : (ln.toV lay l).OK ln.v.need := by
  obtain ⟨key, v⟩ := ln
  cases v with
  | scalar s =>
    have := vline_scalar_ok (tIdent key l 1) (tAssign l (1 + key.length)) (tNewline (l + 0) (1 + key.length + 2 + s.text.length)) key
      s.toP l (1 + key.length + 2) rfl rfl rfl rfl
    rw [← scalar_tok_toP, scalar_val_toP] at this
    exact this
  | list items =>
    have hv := MLine.toV_vtoks ⟨key, .list items⟩ lay l
    obtain ⟨vs, hrel, hl0⟩ := mListToks_ok lay l (1 + key.length + 2) items
    have hl : MListToks vs ((MLine.toV ⟨key, .list items⟩ lay l).vt :: (MLine.toV ⟨key, .list items⟩ lay l).vr) := by
      rw [hv]; exact hl0
    have := vline_mlist_ok (tIdent key l 1) (tAssign l (1 + key.length))
      (tNewline (l + (MValue.list items).height lay) ((MValue.list items).endCol lay (1 + key.length + 2))) key
      vs _ _ hl (rel_warns hrel hq) rfl rfl rfl rfl
    rw [rel_vals hrel, hrel.length_eq] at this
    exact this

def toVLinesM (l : Nat) : List ML → List VLine
  | [] => []
  | x :: r => x.1.toV x.2 l :: toVLinesM (l + x.1.height x.2) r

theorem mlinesToks_bridge (ls : List ML) : ∀ l, mlinesToks l ls = (toVLinesM l ls).flatMap VLine.toks := by
  induction ls with
  | nil => intro l; rfl
  | cons x r ih => intro l; simp only [mlinesToks, toVLinesM, List.flatMap_cons, MLine.toV_toks, ih]

theorem mdocToks_bridge (name : Str) (ls : List ML) :
    mdocToks name ls = vdocToks (flatFrame name (mlinesHeight ls)) name (toVLinesM 2 ls) := by
  simp only [mdocToks, vdocToks, mlinesToks_bridge]
  simp [flatFrame, FlatParse.Frame.envTok, FlatParse.Frame.nl0Tok, FlatParse.Frame.endTok, FlatParse.Frame.nl1Tok, FlatParse.Frame.eofTok,
    tEof, tNewline, tEnvEnd, tEnvStart]

/-- the nodes read back: each line's Assignment at its key (line counted through the multi-line lists, column 1). -/
def mnodesAt (l : Nat) : List ML → List Node
  | [] => []
  | x :: r => x.1.node l 1 :: mnodesAt (l + x.1.height x.2) r

def mdocAt (name : Str) (ls : List ML) : Document := { name := name, sections := mnodesAt 2 ls }

theorem vdoc_bridgeM (name : Str) (ls : List ML) : vdoc name (toVLinesM 2 ls) = mdocAt name ls := by
  have h : ∀ (ls : List ML) (l : Nat), (toVLinesM l ls).map VLine.node = mnodesAt l ls := by
    intro ls
    induction ls with
    | nil => intro l; rfl
    | cons x r ih => intro l; simp only [toVLinesM, List.map_cons, mnodesAt, ih]; rfl
  simp only [vdoc, mdocAt, h]

theorem mnodesOf_mnodesAt (ls : List ML) : ∀ l, MNodesOf (ls.map Prod.fst) (mnodesAt l ls) := by
  induction ls with
  | nil => intro l; exact MNodesOf.nil
  | cons x r ih => intro l; exact MNodesOf.cons x.1 l 1 (ih _)

theorem vmetaFirst_bridgeM (ls : List ML) (l : Nat) :
    vmetaFirst (toVLinesM l ls) = (match ls with | x :: _ => x.1.key == "META".toList | [] => false) := by
  cases ls <;> rfl


/-! ### fuel: linear in the number of tokens -/

theorem mInlineTailToks_length (r : List MItem) : ∀ l c, r.length ≤ (mInlineTailToks l c r).length := by
  induction r with
  | nil => intro l c; simp
  | cons x r ih =>
    intro l c; have := ih l (c + 1 + x.text.length)
    simp only [mInlineTailToks, List.length_cons, List.length_append]; omega

theorem mMultiTailToks_length (ind : Nat) (r : List MItem) : ∀ l c, r.length ≤ (mMultiTailToks ind l c r).length := by
  induction r with
  | nil => intro l c; simp
  | cons x r ih =>
    intro l c; have := ih (l + 1) (1 + ind + x.text.length)
    simp only [mMultiTailToks, List.length_cons, List.length_append]; omega

theorem need_le_mtoks (ln : MLine) (lay : Layout) (l : Nat) : ln.v.need ≤ (ln.toks lay l).length + 6 := by
  obtain ⟨key, v⟩ := ln
  cases v with
  | scalar s => simp [MValue.need]
  | list items =>
    simp only [MValue.need, MLine.toks, MValue.toks, List.length_cons, List.length_append, List.length_nil]
    cases lay with
    | inline =>
      cases items with
      | nil => simp
      | cons x r =>
        have := mInlineTailToks_length r l (1 + key.length + 2 + 1 + x.text.length)
        simp only [mListToks, mInlineToks, List.length_cons, List.length_append]; omega
    | multi ind =>
      cases items with
      | nil => simp
      | cons x r =>
        have := mMultiTailToks_length ind r (l + 1) (1 + ind + x.text.length)
        simp only [mListToks, mMultiToks, List.length_cons, List.length_append]; omega

theorem MLine.toV_okW (ln : MLine) (lay : Layout) (l : Nat) : (ln.toV lay l).OKW ln.v.need := by
  obtain ⟨key, v⟩ := ln
  cases v with
  | scalar s => exact (MLine.toV_ok ⟨key, .scalar s⟩ lay l trivial).toW
  | list items =>
    have hv := MLine.toV_vtoks ⟨key, .list items⟩ lay l
    obtain ⟨vs, hrel, hl0⟩ := mListToks_ok lay l (1 + key.length + 2) items
    have hl : MListToks vs ((MLine.toV ⟨key, .list items⟩ lay l).vt :: (MLine.toV ⟨key, .list items⟩ lay l).vr) := by
      rw [hv]; exact hl0
    have := vline_mlist_okW (tIdent key l 1) (tAssign l (1 + key.length))
      (tNewline (l + (MValue.list items).height lay) ((MValue.list items).endCol lay (1 + key.length + 2))) key
      vs _ _ hl rfl rfl rfl rfl
    rw [rel_vals hrel, hrel.length_eq] at this
    exact this

theorem toVLinesM_okW (ls : List ML) : ∀ l, ∀ v ∈ toVLinesM l ls, v.OKW ((mlinesToks l ls).length + 6) := by
  induction ls with
  | nil => intro l v hv; cases hv
  | cons x r ih =>
    intro l v hv
    simp only [toVLinesM, List.mem_cons] at hv
    rcases hv with rfl | hv
    · refine (MLine.toV_okW x.1 x.2 l).mono ?_
      have := need_le_mtoks x.1 x.2 l
      simp only [mlinesToks, List.length_append]; omega
    · refine (ih _ v hv).mono ?_
      simp only [mlinesToks, List.length_append]; omega

theorem toVLinesM_ok (ls : List ML) (hq : ∀ x ∈ ls, x.1.v.Quiet) : ∀ l, ∀ v ∈ toVLinesM l ls, v.OK ((mlinesToks l ls).length + 6) := by
  induction ls with
  | nil => intro l v hv; cases hv
  | cons x r ih =>
    intro l v hv
    simp only [toVLinesM, List.mem_cons] at hv
    rcases hv with rfl | hv
    · refine (MLine.toV_ok x.1 x.2 l (hq x (by simp))).mono ?_
      have := need_le_mtoks x.1 x.2 l
      simp only [mlinesToks, List.length_append]; omega
    · refine (ih (fun y hy => hq y (by simp [hy])) _ v hv).mono ?_
      simp only [mlinesToks, List.length_append]; omega

/-! ### the same with the items at their positions (exact warnings) -/

/-- token-level items of a one-line list: the first item starts one column after `c` (the column of `[` or `,`). -/
def inlineP (l c : Nat) : List MItem → List PItem
  | [] => []
  | x :: r => x.toP l (c + 1) :: inlineP l (c + 1 + x.text.length) r

/-- token-level items of a multi-line list: one per line below line `l`, behind `ind` spaces. -/
def multiP (ind l : Nat) : List MItem → List PItem
  | [] => []
  | x :: r => x.toP (l + 1) (1 + ind) :: multiP ind (l + 1) r

def listP (lay : Layout) (l c : Nat) (items : List MItem) : List PItem :=
  match lay with
  | .inline => inlineP l c items
  | .multi ind => multiP ind l items

theorem inlineP_rel (items : List MItem) : ∀ l c, RelL (inlineP l c items) items := by
  induction items with
  | nil => intro l c; exact RelL.nil
  | cons x r ih => intro l c; exact RelL.cons ⟨_, _, rfl⟩ (ih _ _)

theorem multiP_rel (ind : Nat) (items : List MItem) : ∀ l, RelL (multiP ind l items) items := by
  induction items with
  | nil => intro l; exact RelL.nil
  | cons x r ih => intro l; exact RelL.cons ⟨_, _, rfl⟩ (ih _)

theorem listP_rel (lay : Layout) (l c : Nat) (items : List MItem) : RelL (listP lay l c items) items := by
  cases lay with
  | inline => exact inlineP_rel items l c
  | multi ind => exact multiP_rel ind items l

theorem mHead_inlineX (r : List MItem) : ∀ (x : MItem) (l c c' : Nat),
    MHead (x.toP l c :: inlineP l c' r) (x.toks l c ++ mInlineTailToks l c' r) := by
  induction r with
  | nil =>
    intro x l c c'
    have := MHead.last [] (x.toP l c) [] (tRb l c') allWs_nil allWs_nil rfl (x.toP_ok l c)
    simpa [mInlineTailToks, MItem.toP_toks, inlineP] using this
  | cons y r ih =>
    intro x l c c'
    have := MHead.more [] (x.toP l c) (tComma l c') _ _ allWs_nil rfl (x.toP_ok l c) (ih y l (c' + 1) (c' + 1 + y.text.length))
    simpa [mInlineTailToks, MItem.toP_toks, inlineP] using this

theorem mHead_multiX (ind : Nat) (r : List MItem) : ∀ (x : MItem) (ws : List Token) (l c l' c' : Nat), AllWs ws →
    MHead (x.toP l c :: multiP ind l' r) (ws ++ (x.toks l c ++ mMultiTailToks ind l' c' r)) := by
  induction r with
  | nil =>
    intro x ws l c l' c' hws
    have := MHead.last ws (x.toP l c) [tNewline l' c'] (tRb (l' + 1) 1) hws (allWs_nl _ _) rfl (x.toP_ok l c)
    simpa [mMultiTailToks, MItem.toP_toks, multiP] using this
  | cons y r ih =>
    intro x ws l c l' c' hws
    have := MHead.more ws (x.toP l c) (tComma l' c') _ _ hws rfl (x.toP_ok l c)
      (ih y (tNewline l' (c' + 1) :: indToks ind (l' + 1)) (l' + 1) (1 + ind) (l' + 1) (1 + ind + y.text.length) (allWs_nl_ind _ _ _ _))
    simpa [mMultiTailToks, MItem.toP_toks, multiP] using this

/-- the lexer's tokens of a list value, in either layout, are the `MListToks` of `listP`: every item at its position. -/
theorem mListToks_okX (lay : Layout) (l c : Nat) (items : List MItem) :
    MListToks (listP lay l c items) (mListToks lay l c items) := by
  cases lay with
  | inline =>
    cases items with
    | nil => exact MListToks.empty (tLb l c) [] (tRb l (c + 1)) rfl allWs_nil rfl
    | cons x r => exact MListToks.items (tLb l c) _ _ rfl (mHead_inlineX r x l (c + 1) (c + 1 + x.text.length))
  | multi ind =>
    cases items with
    | nil => exact MListToks.empty (tLb l c) [tNewline l (c + 1)] (tRb (l + 1) 1) rfl (allWs_nl _ _) rfl
    | cons x r =>
      have := MListToks.items (tLb l c) _ _ rfl (mHead_multiX ind r x (tNewline l (c + 1) :: indToks ind (l + 1)) (l + 1) (1 + ind) (l + 1)
        (1 + ind + x.text.length) (allWs_nl_ind _ _ _ _))
      simpa [mListToks, mMultiToks, listP, multiP] using this

/-- the warnings reading the value draws (emission order): per inline-map item `entryWarns` at the position of its key. -/
def MValue.vw (lay : Layout) (l c : Nat) : MValue → List Parser.Warning
  | .scalar _ => []
  | .list items => itemsWarns (listP lay l c items)

theorem MLine.toV_okX (ln : MLine) (lay : Layout) (l : Nat) :
    (ln.toV lay l).OKX ln.v.need (ln.v.vw lay l (1 + ln.key.length + 2)) := by
  obtain ⟨key, v⟩ := ln
  cases v with
  | scalar s => exact (MLine.toV_ok ⟨key, .scalar s⟩ lay l trivial).toX
  | list items =>
    have hv := MLine.toV_vtoks ⟨key, .list items⟩ lay l
    have hrel := listP_rel lay l (1 + key.length + 2) items
    have hl : MListToks (listP lay l (1 + key.length + 2) items)
        ((MLine.toV ⟨key, .list items⟩ lay l).vt :: (MLine.toV ⟨key, .list items⟩ lay l).vr) := by
      rw [hv]; exact mListToks_okX lay l _ items
    have := vline_mlist_okX (tIdent key l 1) (tAssign l (1 + key.length))
      (tNewline (l + (MValue.list items).height lay) ((MValue.list items).endCol lay (1 + key.length + 2))) key
      _ _ _ hl rfl rfl rfl rfl
    rw [rel_vals hrel, hrel.length_eq] at this
    exact this

/-- the lines as the parser half describes them, each with the warnings its value draws. -/
def toXLines (l : Nat) : List ML → List XLine
  | [] => []
  | x :: r => (x.1.toV x.2 l, x.1.v.vw x.2 l (1 + x.1.key.length + 2)) :: toXLines (l + x.1.height x.2) r

theorem toXLines_fst (ls : List ML) : ∀ l, (toXLines l ls).map Prod.fst = toVLinesM l ls := by
  induction ls with
  | nil => intro l; rfl
  | cons x r ih => intro l; simp only [toXLines, toVLinesM, List.map_cons, ih]

theorem toXLines_ok (ls : List ML) : ∀ l, ∀ x ∈ toXLines l ls, x.1.OKX ((mlinesToks l ls).length + 6) x.2 := by
  induction ls with
  | nil => intro l v hv; cases hv
  | cons x r ih =>
    intro l v hv
    simp only [toXLines, List.mem_cons] at hv
    rcases hv with rfl | hv
    · refine (MLine.toV_okX x.1 x.2 l).mono ?_
      have := need_le_mtoks x.1 x.2 l
      simp only [mlinesToks, List.length_append]; omega
    · refine (ih _ v hv).mono ?_
      simp only [mlinesToks, List.length_append]; omega

end Octave.Maps
