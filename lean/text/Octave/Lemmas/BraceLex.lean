import Octave.Lemmas.MultiWordLex
/-!
BRACE-FOR-ANGLE annotation repair (`NAME{q}` → `NAME<q>`, GH#263) — lexer level.

The repair is made by `_match_unicode_identifier` in the LENIENT lexer mode only (`tokenize(content, lenient=True)`;
`parse` / `parse_with_warnings` tokenize in the non-lenient mode, where `NAME{q}` ends in E005).  Its receipt is a
`Repair.curlyBrace` record (`repair_candidate` / `curly_brace_annotation`), which is NOT a normalisation record: the
bijection of `Props/C07receipts` (normalisation records ↔ tokens with `normFrom`) says nothing about it.

* `matchIdentifier_brace`         on `NAME{q}…` (NAME identifier-shaped, `q` identifier-shaped): lenient → the value
                                  `NAME<q>`, everything up to `}` consumed, the pair (original, repaired); non-lenient → the
                                  value `NAME`, the brace left in the input, no pair;
* `step_brace`                    one lenient lexer step: ONE IDENTIFIER token `NAME<q>` at the position of `NAME` and exactly
                                  ONE `curlyBrace` record (original `NAME{q}`, repaired `NAME<q>`, that line and column);
* `brace_run_line` … `tokenize_bracedoc`   flat documents whose values are scalars or brace-annotated names: exact tokens
                                  and exact repair log.
-/
namespace Octave.MW
open Octave Lexer Scan Emitter Spell Expr

/-- `NAME{q}` as written. -/
def braceOriginal (s q : Str) : Str := s ++ '{' :: (q ++ ['}'])
/-- `NAME<q>`: what the lenient lexer makes of it. -/
def braceRepaired (s q : Str) : Str := s ++ '<' :: (q ++ ['>'])

theorem brace_length (s q : Str) : (braceRepaired s q).length = (braceOriginal s q).length := by
  simp [braceRepaired, braceOriginal]

theorem idChar_lbrace (env : Env) : env.idChar '{' = false := by
  simp [Env.idChar, isAscii, isAlnumA, isAlphaA, isDigitA, isUpper, isLower]
theorem idChar_rbrace (env : Env) : env.idChar '}' = false := by
  simp [Env.idChar, isAscii, isAlnumA, isAlphaA, isDigitA, isUpper, isLower]

/-- the identifier run of `_match_unicode_identifier` on an identifier-shaped word followed by a non-identifier char. -/
theorem idRun_identText (env : Env) (c : Char) (t rest : Str)
    (hc : isIdentStartA c = true) (ht : t.all isIdentBodyA = true) (hl : (c :: t).getLast? ≠ some '-')
    (hstop : ∀ d, rest.head? = some d → env.idChar d = false) :
    idRun env (c :: t ++ rest) = some (c :: t, rest) := by
  have hstart := idStart_of_identStart env c hc
  have htw : takeWhile env.idChar (t ++ rest) = (t, rest) :=
    takeWhile_append_stop env.idChar t rest
      (fun x hx => idChar_of_identBody env x ((List.all_eq_true.mp ht) x hx)) hstop
  simp only [idRun, List.cons_append, hstart, if_true, htw, stripHyphens_id c t hl, List.nil_append]

theorem identText_parts {s : Str} (h : isIdentifierText s = true) :
    ∃ c t, s = c :: t ∧ isIdentStartA c = true ∧ t.all isIdentBodyA = true ∧ (c :: t).getLast? ≠ some '-' := by
  cases s with
  | nil => simp [isIdentifierText] at h
  | cons c t =>
    simp only [isIdentifierText, Bool.and_eq_true, bne_iff_ne, ne_eq] at h
    exact ⟨c, t, rfl, h.1.1, h.1.2, by simpa using h.2⟩

/-- **`_match_unicode_identifier` on `NAME{q}`**, both modes. -/
theorem matchIdentifier_brace (env : Env) (lenient : Bool) (s q rest : Str)
    (hid : isIdentifierText s = true) (hq : isIdentifierText q = true) :
    matchIdentifier env lenient (s ++ '{' :: (q ++ '}' :: rest))
      = if lenient then some (braceRepaired s q, rest, some (braceOriginal s q, braceRepaired s q))
        else some (s, '{' :: (q ++ '}' :: rest), none) := by
  obtain ⟨c, t, rfl, hc, ht, hl⟩ := identText_parts hid
  obtain ⟨qc, qt, rfl, hqc, hqt, hql⟩ := identText_parts hq
  have hrun : idRun env (c :: t ++ '{' :: (qc :: qt ++ '}' :: rest)) = some (c :: t, '{' :: (qc :: qt ++ '}' :: rest)) :=
    idRun_identText env c t _ hc ht hl (fun d hd => by
      have : d = '{' := by simpa using hd.symm
      subst this; exact idChar_lbrace env)
  have hrunq : idRun env (qc :: qt ++ '}' :: rest) = some (qc :: qt, '}' :: rest) :=
    idRun_identText env qc qt _ hqc hqt hql (fun d hd => by
      have : d = '}' := by simpa using hd.symm
      subst this; exact idChar_rbrace env)
  have hangle : angleTail env ('{' :: (qc :: qt ++ '}' :: rest)) = none := by simp [angleTail]
  have hcurly : curlyTail env ('{' :: (qc :: qt ++ '}' :: rest)) = some (qc :: qt, rest) := by
    simp only [curlyTail, hrunq]
  simp only [matchIdentifier, hrun, hangle, hcurly, braceRepaired, braceOriginal]
  cases lenient <;> simp [List.append_assoc]

/-- **one LENIENT lexer step on `NAME{q}`**: one IDENTIFIER token `NAME<q>` at the position of `NAME`, and exactly one
`curlyBrace` record — original `NAME{q}`, repaired `NAME<q>`, that line and column — next to the (non-normalisation)
identifier notes of the repaired name; whatever follows the `}` is left in the input. -/
theorem step_brace (env : Env) (st : LState) (s q rest : Str) (hr : Ready st)
    (hid : isIdentifierText s = true) (hres : hasReservedPrefix s = false) (hq : isIdentifierText q = true) :
    ∃ st', step env true st (braceOriginal s q ++ rest) = .ok (st', rest) ∧
      Adv st st' [tIdent (braceRepaired s q) st.line st.col]
        ((identifierRepairs (braceRepaired s q) st.line st.col).reverse ++
          [Repair.curlyBrace (braceOriginal s q) (braceRepaired s q) st.line st.col]) 0
        (st.col + (braceRepaired s q).length) (some '}') := by
  have hmi0 := matchIdentifier_brace env true s q rest hid hq
  obtain ⟨c, t, rfl, hc, ht, hl⟩ := identText_parts hid
  let X : Str := '{' :: (q ++ '}' :: rest)
  have hshape : braceOriginal (c :: t) q ++ rest = c :: (t ++ X) := by simp [braceOriginal, X]
  have hmi : matchIdentifier env true (c :: (t ++ X))
      = some (braceRepaired (c :: t) q, rest, some (braceOriginal (c :: t) q, braceRepaired (c :: t) q)) := by
    have := hmi0
    simp only [if_true, List.cons_append] at this
    exact this
  have hkwrest : ∀ d, X.head? = some d → isLower d = false := by
    intro d hd
    have : d = '{' := by simpa [X] using hd.symm
    subst this; decide
  have hra : reservedAt (c :: t) = false := by
    simp only [hasReservedPrefix, Bool.or_eq_false_iff] at hres; exact hres.1
  have hkw : ∀ (w : Str) (lastc : Char), w ∈ ["true".toList, "false".toList, "null".toList, "vs".toList] →
      (∀ d ∈ w, isLower d = true) → w.getLast? = some lastc → isWordA lastc = true →
      kw env st.prev w (c :: t ++ X) = none := fun w lastc hw hwb hwl hlw =>
    kw_none' env st.prev w (c :: t) X lastc hwb hwl hlw (reservedAt_false (c :: t) w hra hw) hkwrest
  have hmp : matchPattern env false st.prev (c :: (t ++ X)) = .ok none :=
    matchPattern_identStart env st.prev c (t ++ X) hc
      (fun _ => hkw ['v', 's'] 's' (by simp) (by decide) (by decide) (by decide))
      (fun _ => hkw ['t', 'r', 'u', 'e'] 'e' (by simp) (by decide) (by decide) (by decide))
      (fun _ => hkw ['f', 'a', 'l', 's', 'e'] 'e' (by simp) (by decide) (by decide) (by decide))
      (fun _ => hkw ['n', 'u', 'l', 'l'] 'l' (by simp) (by decide) (by decide) (by decide))
  have hsp : (c == ' ') = false := identStart_ne c ' ' hc (by decide)
  have heq3 : startsWith "===".toList (c :: (t ++ X)) = false := by
    have hne : c ≠ '=' := by
      have := identStart_ne c '=' hc (by decide); simpa using this
    show List.isPrefixOf ['=', '=', '='] (c :: (t ++ X)) = false
    simp only [List.isPrefixOf]
    have : ('=' == c) = false := by rw [beq_eq_false_iff_ne]; exact hne.symm
    simp [this]
  have hplus : (c == '+') = false := identStart_ne c '+' hc (by decide)
  have htake : (c :: (t ++ X)).take (braceRepaired (c :: t) q).length = braceOriginal (c :: t) q := by
    rw [← hshape, brace_length]; exact List.take_left' rfl
  have hlast : (braceOriginal (c :: t) q).getLast? = some '}' := by
    have : braceOriginal (c :: t) q = (c :: t ++ '{' :: q) ++ ['}'] := by simp [braceOriginal]
    rw [this, List.getLast?_append]; rfl
  rw [hshape]
  refine ⟨{ st with
      pos := st.pos + (braceRepaired (c :: t) q).length, prev := some '}', col := st.col + (braceRepaired (c :: t) q).length,
      toks := { type := .identifier, value := .str (braceRepaired (c :: t) q), line := st.line, col := st.col } :: st.toks,
      repairs := ((identifierRepairs (braceRepaired (c :: t) q) st.line st.col).reverse ++
          [Repair.curlyBrace (braceOriginal (c :: t) q) (braceRepaired (c :: t) q) st.line st.col]) ++ st.repairs,
      blank := false }, ?_, ?_⟩
  · unfold step
    simp only [hr.noSpan, hsp, hr.blank, hmp, heq3, hplus, hmi, Bool.false_eq_true, if_false, bind, Except.bind, Bool.false_and,
      htake, hlast, Option.orElse, List.reverse_append, List.reverse_cons, List.reverse_nil, List.nil_append, List.append_assoc]
  · exact ⟨⟨hr.spans, rfl⟩, rfl, rfl, rfl, rfl, rfl, rfl⟩

/-! ### the canonical spelling `NAME<q>` -/

theorem angleTail_identText (env : Env) (qc : Char) (qt rest : Str)
    (hqc : isIdentStartA qc = true) (hqt : qt.all isIdentBodyA = true) (hql : (qc :: qt).getLast? ≠ some '-') :
    angleTail env ('<' :: qc :: (qt ++ '>' :: rest)) = some (qc :: qt, rest) := by
  have hne : qc ≠ '>' := by intro e; subst e; revert hqc; decide
  have hstart := idStart_of_identStart env qc hqc
  have htw : takeWhile (fun d => env.idChar d || d == ',') (qt ++ '>' :: rest) = (qt, '>' :: rest) :=
    takeWhile_append_stop _ qt ('>' :: rest)
      (fun x hx => by simp [idChar_of_identBody env x ((List.all_eq_true.mp hqt) x hx)])
      (fun d hd => by
        have : d = '>' := by simpa using hd.symm
        subst this; simp [idChar_gt env])
  have hsh := stripHyphens_id qc qt hql
  unfold angleTail
  split
  · simp_all
  · rename_i c cs heq
    simp only [List.cons.injEq, true_and] at heq
    obtain ⟨rfl, rfl⟩ := heq
    simp only [hstart, if_true, htw, hsh, List.nil_append]
  · simp_all

/-- **`_match_unicode_identifier` on the canonical `NAME<q>`** (both modes), followed by anything but `{`. -/
theorem matchIdentifier_angle (env : Env) (lenient : Bool) (s q rest : Str)
    (hid : isIdentifierText s = true) (hq : isIdentifierText q = true) (hrest : rest.head? ≠ some '{') :
    matchIdentifier env lenient (s ++ '<' :: (q ++ '>' :: rest)) = some (braceRepaired s q, rest, none) := by
  obtain ⟨c, t, rfl, hc, ht, hl⟩ := identText_parts hid
  obtain ⟨qc, qt, rfl, hqc, hqt, hql⟩ := identText_parts hq
  have hrun : idRun env (c :: t ++ '<' :: (qc :: qt ++ '>' :: rest)) = some (c :: t, '<' :: (qc :: qt ++ '>' :: rest)) :=
    idRun_identText env c t _ hc ht hl (fun d hd => by
      have : d = '<' := by simpa using hd.symm
      subst this; exact idChar_lt env)
  have hangle : angleTail env ('<' :: (qc :: qt ++ '>' :: rest)) = some (qc :: qt, rest) :=
    angleTail_identText env qc qt rest hqc hqt hql
  have hcurly : curlyTail env rest = none := by
    unfold curlyTail
    split
    · rename_i r; exact absurd rfl hrest
    · rfl
  simp only [matchIdentifier, hrun, hangle, hcurly, braceRepaired]
  simp [List.append_assoc]

/-- **one lexer step on the canonical `NAME<q>`** (both modes): the same IDENTIFIER token, NO `curlyBrace` record. -/
theorem step_angle (env : Env) (lenient : Bool) (st : LState) (s q rest : Str) (hr : Ready st)
    (hid : isIdentifierText s = true) (hres : hasReservedPrefix s = false) (hq : isIdentifierText q = true)
    (hrest : rest.head? ≠ some '{') :
    ∃ st', step env lenient st (braceRepaired s q ++ rest) = .ok (st', rest) ∧
      Adv st st' [tIdent (braceRepaired s q) st.line st.col]
        (identifierRepairs (braceRepaired s q) st.line st.col).reverse 0
        (st.col + (braceRepaired s q).length) (some '>') := by
  have hmi0 := matchIdentifier_angle env lenient s q rest hid hq hrest
  obtain ⟨c, t, rfl, hc, ht, hl⟩ := identText_parts hid
  let X : Str := '<' :: (q ++ '>' :: rest)
  have hshape : braceRepaired (c :: t) q ++ rest = c :: (t ++ X) := by simp [braceRepaired, X]
  have hmi : matchIdentifier env lenient (c :: (t ++ X)) = some (braceRepaired (c :: t) q, rest, none) := by
    have := hmi0
    simp only [List.cons_append] at this
    exact this
  have hkwrest : ∀ d, X.head? = some d → isLower d = false := by
    intro d hd
    have : d = '<' := by simpa [X] using hd.symm
    subst this; decide
  have hra : reservedAt (c :: t) = false := by
    simp only [hasReservedPrefix, Bool.or_eq_false_iff] at hres; exact hres.1
  have hkw : ∀ (w : Str) (lastc : Char), w ∈ ["true".toList, "false".toList, "null".toList, "vs".toList] →
      (∀ d ∈ w, isLower d = true) → w.getLast? = some lastc → isWordA lastc = true →
      kw env st.prev w (c :: t ++ X) = none := fun w lastc hw hwb hwl hlw =>
    kw_none' env st.prev w (c :: t) X lastc hwb hwl hlw (reservedAt_false (c :: t) w hra hw) hkwrest
  have hmp : matchPattern env false st.prev (c :: (t ++ X)) = .ok none :=
    matchPattern_identStart env st.prev c (t ++ X) hc
      (fun _ => hkw ['v', 's'] 's' (by simp) (by decide) (by decide) (by decide))
      (fun _ => hkw ['t', 'r', 'u', 'e'] 'e' (by simp) (by decide) (by decide) (by decide))
      (fun _ => hkw ['f', 'a', 'l', 's', 'e'] 'e' (by simp) (by decide) (by decide) (by decide))
      (fun _ => hkw ['n', 'u', 'l', 'l'] 'l' (by simp) (by decide) (by decide) (by decide))
  have hsp : (c == ' ') = false := identStart_ne c ' ' hc (by decide)
  have heq3 : startsWith "===".toList (c :: (t ++ X)) = false := by
    have hne : c ≠ '=' := by
      have := identStart_ne c '=' hc (by decide); simpa using this
    show List.isPrefixOf ['=', '=', '='] (c :: (t ++ X)) = false
    simp only [List.isPrefixOf]
    have : ('=' == c) = false := by rw [beq_eq_false_iff_ne]; exact hne.symm
    simp [this]
  have hplus : (c == '+') = false := identStart_ne c '+' hc (by decide)
  have htake : (c :: (t ++ X)).take (braceRepaired (c :: t) q).length = braceRepaired (c :: t) q := by
    rw [← hshape]; exact List.take_left' rfl
  have hlast : (braceRepaired (c :: t) q).getLast? = some '>' := by
    have : braceRepaired (c :: t) q = (c :: t ++ '<' :: q) ++ ['>'] := by simp [braceRepaired]
    rw [this, List.getLast?_append]; rfl
  rw [hshape]
  refine ⟨{ st with
      pos := st.pos + (braceRepaired (c :: t) q).length, prev := some '>', col := st.col + (braceRepaired (c :: t) q).length,
      toks := { type := .identifier, value := .str (braceRepaired (c :: t) q), line := st.line, col := st.col } :: st.toks,
      repairs := (identifierRepairs (braceRepaired (c :: t) q) st.line st.col).reverse ++ st.repairs,
      blank := false }, ?_, ?_⟩
  · unfold step
    simp only [hr.noSpan, hsp, hr.blank, hmp, heq3, hplus, hmi, Bool.false_eq_true, if_false, bind, Except.bind, Bool.false_and,
      htake, hlast, Option.orElse, List.nil_append]
  · exact ⟨⟨hr.spans, rfl⟩, rfl, rfl, rfl, rfl, rfl, rfl⟩

/-! ### flat documents whose values are scalars or annotated names, written with braces or with angles -/

/-- a value: a scalar of `FlatLex`, or an annotated name `NAME<q>` written with braces (`curly = true`: `NAME{q}`) or
canonically (`curly = false`: `NAME<q>`). -/
inductive BVal where
  | sc (v : FScalar)
  | an (name q : Str) (curly : Bool)
  deriving Repr, DecidableEq

structure BLine where
  key : Str
  v : BVal
  deriving Repr, DecidableEq

def BVal.OK : BVal → Prop
  | .sc v => v.OK
  | .an name q _ => isIdentifierText name = true ∧ hasReservedPrefix name = false ∧ isIdentifierText q = true

def BLine.OK (ln : BLine) : Prop := isIdentifierText ln.key = true ∧ hasReservedPrefix ln.key = false ∧ ln.v.OK

instance (ln : BLine) : Decidable ln.OK := by
  unfold BLine.OK BVal.OK
  cases ln.v with
  | sc v => cases v <;> (simp only [FScalar.OK]; infer_instance)
  | an _ _ _ => infer_instance

def BVal.spell : BVal → Str
  | .sc v => v.text
  | .an name q true => braceOriginal name q
  | .an name q false => braceRepaired name q

def BLine.spell (ln : BLine) : Str := ln.key ++ (':' :: ':' :: ln.v.spell)

/-- the token of the value: whichever way it was written, `NAME<q>`. -/
def BVal.tok (l c : Nat) : BVal → Token
  | .sc v => v.tok l c
  | .an name q _ => tIdent (braceRepaired name q) l c

/-- the repair records of the value, newest first: for braces exactly one `curlyBrace` record (first in reading
order), then the identifier notes. -/
def BVal.repsRev (l c : Nat) : BVal → List Repair
  | .sc v => (v.reps l c).reverse
  | .an name q true => (identifierRepairs (braceRepaired name q) l c).reverse ++
      [Repair.curlyBrace (braceOriginal name q) (braceRepaired name q) l c]
  | .an name q false => (identifierRepairs (braceRepaired name q) l c).reverse

def BLine.toksRev (ln : BLine) (l c : Nat) : List Token :=
  [tNewline l (c + ln.key.length + 2 + ln.v.spell.length), ln.v.tok l (c + ln.key.length + 2), tAssign l (c + ln.key.length),
    tIdent ln.key l c]

def BLine.repsRev (ln : BLine) (l c : Nat) : List Repair :=
  ln.v.repsRev l (c + ln.key.length + 2) ++ (identifierRepairs ln.key l c).reverse

theorem BVal.spell_length (name q : Str) (b : Bool) : (BVal.an name q b).spell.length = (braceRepaired name q).length := by
  cases b
  · rfl
  · exact (brace_length name q).symm

/-- **one line** in the LENIENT lexer mode. -/
theorem brace_run_line (env : Env) (st : LState) (ln : BLine) (rest : Str) (hr : Ready st) (hok : ln.OK) :
    ∃ n st', Run env true n st (ln.spell ++ '\n' :: rest) st' rest ∧
      Adv st st' (ln.toksRev st.line st.col) (ln.repsRev st.line st.col) 1 1 (some '\n') := by
  obtain ⟨key, v⟩ := ln
  obtain ⟨hk1, hk2, hv⟩ := hok
  cases v with
  | sc v =>
    obtain ⟨s4, r4, a4⟩ := run_line env true st ⟨key, v⟩ rest hr ⟨hk1, hk2, hv⟩
    exact ⟨4, s4, r4, a4⟩
  | an name q b =>
    obtain ⟨hn1, hn2, hq⟩ := hv
    let R3 := (BVal.an name q b).spell ++ '\n' :: rest
    obtain ⟨s1, e1, a1⟩ := step_ident env true st key (':' :: ':' :: R3) hr hk1 hk2 (termOK_colon env _)
    obtain ⟨s2, e2, a2⟩ := step_assign env true s1 R3 a1.ready
    have l1 : s1.line = st.line := by rw [a1.line]; rfl
    have l2 : s2.line = st.line := by rw [a2.line, l1]; rfl
    have c1 : s1.col = st.col + key.length := a1.col
    have c2 : s2.col = st.col + key.length + 2 := by rw [a2.col, c1]
    have hne : key ≠ [] := by intro h; rw [h] at hk1; simp [isIdentifierText] at hk1
    have hshape : (BLine.mk key (.an name q b)).spell ++ '\n' :: rest = key ++ (':' :: ':' :: R3) := by
      simp [BLine.spell, R3]
    have hnameNe : name ≠ [] := by intro h; rw [h] at hn1; simp [isIdentifierText] at hn1
    obtain ⟨s3, p3, e3, a3⟩ : ∃ s3 p3, step env true s2 R3 = .ok (s3, '\n' :: rest) ∧
        Adv s2 s3 [tIdent (braceRepaired name q) s2.line s2.col] ((BVal.an name q b).repsRev s2.line s2.col) 0
          (s2.col + (braceRepaired name q).length) p3 := by
      cases b with
      | true =>
        obtain ⟨s3, e3, a3⟩ := step_brace env s2 name q ('\n' :: rest) a2.ready hn1 hn2 hq
        exact ⟨s3, _, e3, a3⟩
      | false =>
        obtain ⟨s3, e3, a3⟩ := step_angle env true s2 name q ('\n' :: rest) a2.ready hn1 hn2 hq (by simp)
        exact ⟨s3, _, e3, a3⟩
    obtain ⟨s4, e4, a4⟩ := step_newline env true s3 rest a3.ready
    have l3 : s3.line = st.line := by rw [a3.line, l2]; rfl
    have c3 : s3.col = st.col + key.length + 2 + (BVal.an name q b).spell.length := by
      rw [a3.col, c2, BVal.spell_length]
    have hR3ne : R3 ≠ [] := by
      cases b <;> simp [R3, BVal.spell, braceOriginal, braceRepaired, hnameNe]
    have run := Run.trans (Run.trans (Run.trans (Run.step1 e1 (by simp [hne])) (Run.one e2)) (Run.step1 e3 hR3ne)) (Run.one e4)
    refine ⟨_, s4, by rw [hshape]; exact run, ?_⟩
    refine ⟨a4.ready, ?_, ?_, ?_, ?_, a4.col, a4.prev⟩
    · rw [a4.toks, a3.toks, a2.toks, a1.toks, l3, c3, l2, c2, l1, c1]; simp [BLine.toksRev, BVal.tok]
    · rw [a4.repairs, a3.repairs, a2.repairs, a1.repairs, l2, c2]; simp [BLine.repsRev]
    · rw [a4.stack, a3.stack, a2.stack, a1.stack]
    · rw [a4.line, l3]

def braceLinesText : List BLine → Str
  | [] => []
  | x :: r => x.spell ++ '\n' :: braceLinesText r

def braceLinesToksRev (l : Nat) : List BLine → List Token
  | [] => []
  | x :: r => braceLinesToksRev (l + 1) r ++ x.toksRev l 1

def braceLinesRepsRev (l : Nat) : List BLine → List Repair
  | [] => []
  | x :: r => braceLinesRepsRev (l + 1) r ++ x.repsRev l 1

theorem brace_run_lines (env : Env) (sl : List BLine) :
    ∀ (st : LState) (rest : Str), Ready st → st.col = 1 → (∀ x ∈ sl, x.OK) →
    ∃ n st', Run env true n st (braceLinesText sl ++ rest) st' rest ∧
      AdvL st st' (braceLinesToksRev st.line sl) (braceLinesRepsRev st.line sl) sl.length := by
  induction sl with
  | nil =>
    intro st rest hr hc _
    exact ⟨0, st, Run.refl _ _, ⟨hr, rfl, rfl, rfl, rfl, hc⟩⟩
  | cons x r ih =>
    intro st rest hr hc hok
    obtain ⟨n1, s1, r1, a1⟩ := brace_run_line env st x (braceLinesText r ++ rest) hr (hok x (by simp))
    obtain ⟨n2, s2, r2, a2⟩ := ih s1 rest a1.ready a1.col (fun y hy => hok y (by simp [hy]))
    refine ⟨n1 + n2, s2, ?_, ?_⟩
    · have := Run.trans r1 r2
      simpa [braceLinesText, List.append_assoc] using this
    · have hl : s1.line = st.line + 1 := a1.line
      rw [hl] at a2
      rw [hc] at a1
      refine ⟨a2.ready, ?_, ?_, ?_, ?_, a2.col⟩
      · rw [a2.toks, a1.toks]; simp [braceLinesToksRev, List.append_assoc]
      · rw [a2.repairs, a1.repairs]; simp [braceLinesRepsRev, List.append_assoc]
      · rw [a2.stack, a1.stack]
      · rw [a2.line, hl]; simp; omega

def bracedocText (name : Str) (sl : List BLine) : Str :=
  "===".toList ++ name ++ "===".toList ++ '\n' :: (braceLinesText sl ++ ("===END===".toList ++ ['\n']))

def bracedocToksRev (name : Str) (sl : List BLine) : List Token :=
  [tEof (sl.length + 3) 1, tNewline (sl.length + 2) 10, tEnvEnd (sl.length + 2) 1] ++ braceLinesToksRev 2 sl ++
    [tNewline 1 (1 + (name.length + 6)), tEnvStart name 1 1]

/-- the tokens, in reading order: the SAME list whichever way the annotated names were written. -/
def bracedocToks (name : Str) (sl : List BLine) : List Token := (bracedocToksRev name sl).reverse

/-- the repair log, in order. -/
def bracedocReps (sl : List BLine) : List Repair := (braceLinesRepsRev 2 sl).reverse

theorem brace_run_doc (env : Env) (name : Str) (sl : List BLine)
    (hn : isEnvName name = true) (hne : name ≠ "END".toList) (hok : ∀ x ∈ sl, x.OK) :
    ∃ n st', Run env true n ({ spans := [] } : LState) (bracedocText name sl) st' [] ∧
      (tEof st'.line st'.col :: st'.toks).reverse = bracedocToks name sl ∧ st'.repairs.reverse = bracedocReps sl ∧ st'.stack = [] := by
  let st0 : LState := { spans := [] }
  let T2 := braceLinesText sl ++ ("===END===".toList ++ ['\n'])
  obtain ⟨s1, e1, a1⟩ := step_envStart env true st0 name ('\n' :: T2) rfl hn hne
  obtain ⟨s2, e2, a2⟩ := step_newline env true s1 T2 a1.ready
  obtain ⟨n3, s3, r3, a3⟩ := brace_run_lines env sl s2 ("===END===".toList ++ ['\n']) a2.ready a2.col hok
  obtain ⟨s4, e4, a4⟩ := step_envEnd env true s3 ['\n'] a3.ready
  obtain ⟨s5, e5, a5⟩ := step_newline env true s4 [] a4.ready
  have e4' : step env true s3 ('=' :: ("==END===".toList ++ ['\n'])) = .ok (s4, ['\n']) := e4
  have hne1 : "===".toList ++ name ++ "===".toList ++ '\n' :: T2 ≠ [] := by simp
  have run := Run.trans (Run.trans (Run.step1 e1 hne1) (Run.one e2)) (Run.trans r3 (Run.cons e4' (Run.one e5)))
  have l1 : s1.line = 1 := by rw [a1.line]
  have l2 : s2.line = 2 := by rw [a2.line, l1]
  have l3 : s3.line = sl.length + 2 := by rw [a3.line, l2]; omega
  have l4 : s4.line = sl.length + 2 := by rw [a4.line, l3]
  have l5 : s5.line = sl.length + 3 := by rw [a5.line, l4]
  have c1 : s1.col = 1 + (name.length + 6) := a1.col
  have c3 : s3.col = 1 := a3.col
  have c4 : s4.col = 10 := by rw [a4.col, c3]
  refine ⟨_, s5, run, ?_, ?_, ?_⟩
  · rw [a5.toks, a4.toks, a3.toks, a2.toks, a1.toks, l5, a5.col, l1, l2, l3, l4, c1, c3, c4]
    simp [bracedocToks, bracedocToksRev, st0]
  · rw [a5.repairs, a4.repairs, a3.repairs, a2.repairs, a1.repairs, l2]
    simp [bracedocReps, st0]
  · rw [a5.stack, a4.stack, a3.stack, a2.stack, a1.stack]

theorem brace_clean (s q : Str) (hs : isIdentifierText s = true) (hq : isIdentifierText q = true) (b : Bool) :
    Clean (BVal.an s q b).spell := by
  cases b
  · have := Clean.append (identText_clean s hs) (Clean.append (clean_lit "<".toList (by decide))
      (Clean.append (identText_clean q hq) (clean_lit ">".toList (by decide))))
    simpa [BVal.spell, braceRepaired] using this
  · have := Clean.append (identText_clean s hs) (Clean.append (clean_lit "{".toList (by decide))
      (Clean.append (identText_clean q hq) (clean_lit "}".toList (by decide))))
    simpa [BVal.spell, braceOriginal] using this

theorem bracespell_clean (ln : BLine) (h : ln.OK) : Clean ln.spell := by
  obtain ⟨key, v⟩ := ln
  obtain ⟨hk1, _, hv⟩ := h
  have hval : Clean v.spell := by
    cases v with
    | sc v => exact scalar_clean v hv
    | an s q b => exact brace_clean s q hv.1 hv.2.2 b
  have h2 : Clean (':' :: ':' :: v.spell) := by
    have := Clean.append (clean_lit "::".toList (by decide)) hval
    simpa using this
  exact Clean.append (identText_clean key hk1) h2

theorem bracespell_fine (ln : BLine) (h : ln.OK) : LineFine ln.spell := by
  refine ⟨fenceLine_none_of_head _ ?_, fun d hd => (bracespell_clean ln h d hd).2⟩
  intro c hc
  apply identText_head ln.key h.1 c
  have hne : ln.key ≠ [] := by
    intro e; have := h.1; rw [e] at this; simp [isIdentifierText] at this
  obtain ⟨k, t, hk⟩ := List.exists_cons_of_ne_nil hne
  simp only [BLine.spell, hk, List.cons_append, List.head?_cons] at hc ⊢
  exact hc

theorem bracelines_fine (sl : List BLine) (rest : Str) (hok : ∀ x ∈ sl, x.OK) (hr : AllLines LineFine rest) :
    AllLines LineFine (braceLinesText sl ++ rest) := by
  induction sl with
  | nil => exact hr
  | cons x r ih =>
    have := allLines_cons LineFine x.spell (braceLinesText r ++ rest) (bracespell_clean x (hok x (by simp)))
      (bracespell_fine x (hok x (by simp))) (ih (fun y hy => hok y (by simp [hy])))
    simpa [braceLinesText, List.append_assoc] using this

theorem bracedoc_fine (name : Str) (sl : List BLine) (hn : isEnvName name = true) (hok : ∀ x ∈ sl, x.OK) :
    AllLines LineFine (bracedocText name sl) := by
  have hend : AllLines LineFine ("===END===".toList ++ ['\n']) :=
    allLines_cons LineFine "===END===".toList [] (clean_lit _ (by decide)) ⟨by decide, by decide⟩
      (allLines_nil LineFine ⟨by decide, by decide⟩)
  have henv : LineFine ("===".toList ++ name ++ "===".toList) := by
    have := envLine_fine name 0 hn
    simpa [spaces] using this
  exact allLines_cons LineFine _ _ (envLine_clean name hn) henv (bracelines_fine sl _ hok hend)

/-- **The LENIENT lexer on a flat document whose values are scalars or annotated names written with braces or angles**:
`tokenize(text, lenient=True)` succeeds with exactly `bracedocToks` (one IDENTIFIER `NAME<q>` per annotated name) and
`bracedocReps` (one `curlyBrace` record per name written with braces). -/
theorem tokenize_bracedoc (env : Env) (name : Str) (sl : List BLine)
    (hn : isEnvName name = true) (hne : name ≠ "END".toList) (hok : ∀ x ∈ sl, x.OK)
    (hnfc : ∀ l ∈ splitLines (bracedocText name sl), env.nfc l = l) :
    tokenize env (bracedocText name sl) true = .ok (bracedocToks name sl, bracedocReps sl) :=
  tokenize_of_run env true _ _ _ (bracedoc_fine name sl hn hok) hnfc (brace_run_doc env name sl hn hne hok)

end Octave.MW
